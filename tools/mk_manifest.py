#!/venv/bin/python
"""Regenerates MANIFEST.json from the property modules (harness/props/cXX.py: MANIFEST dict)
and harness/props/__init__.py: CLAIMED."""
import importlib, json, os, sys
V = os.path.dirname(os.path.dirname(os.path.abspath(__file__)))
sys.path.insert(0, V)
from harness.props import CLAIMED
NA_REASON = {}
na_path = os.path.join(V, "harness", "props", "not_applicable.json")
if os.path.exists(na_path):
    NA_REASON = json.load(open(na_path))
ids = [json.loads(l)["id"] for l in open(os.path.join(V, "properties.jsonl")) if l.strip()]
checks = []
for pid in ids:
    if pid not in CLAIMED:
        continue
    m = importlib.import_module("harness.props." + pid.lower())
    mm = m.MANIFEST
    checks.append({
        "property_id": pid,
        "quick_cmd": "./check %s --tier quick" % pid,
        "thorough_cmd": "./check %s --tier thorough" % pid,
        "evidence_file": "evidence/%s.json" % pid,
        "replay_cmd_template": "./check %s --replay {path}" % pid,
        "engine": "coq-model-correspondence",
        "level_claimed": {"category": "proof", "text": mm["level_text"], "design_ref": mm["design_ref"]},
        "level_note": mm["level_note"],
        "technique": mm["technique"],
    })
man = {
    "version": 1,
    "setup_cmd": "./setup.sh",
    "hooks": {
        "guard": "CELLPROFILER_CENTROSOME_VERIF",
        "enable": "set by ./check in the environment of the implementation worker; no source hooks exist in /repo "
                  "(every observable the checks use is a public return value or an argument recorded by a Python-side spy)",
        "baseline_off_cmd": "cd /repo && /venv/bin/python -m pytest -ra -q -p no:cacheprovider --timeout=900 --continue-on-collection-errors",
        "source_commits": [],
        "add_only": True,
    },
    "engines": [{
        "name": "coq-model-correspondence",
        "path": "check",
        "serves_properties": [c["property_id"] for c in checks],
        "kind_free_text": "Coq 8.16 theorems about executable Gallina models (coq/theories), models regenerated from "
                          "source by translators (tools/, Gen/*.v) or tied by exact differential correspondence "
                          "(extracted OCaml + vm_compute) against /repo's freshly built working tree",
    }],
    "checks": checks,
    "not_applicable": [{"property_id": p, "reason": NA_REASON.get(p, "check not built yet in this round; planned in DESIGN.md section 7 (no claim is made)")}
                       for p in ids if p not in CLAIMED],
    "notes": "See DESIGN.md. known_findings.json lists genuine defects recorded or fixed; seeded/ holds validated breaking changes.",
}
json.dump(man, open(os.path.join(V, "MANIFEST.json"), "w"), indent=1)
print("MANIFEST.json: %d checks, %d not claimed" % (len(checks), len(man["not_applicable"])))
