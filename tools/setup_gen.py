#!/venv/bin/python
"""setup step: stage /repo, run every claimed property's translators, write the Gen files,
refresh _CoqProject.  (The checks redo this on every run; this only primes the build.)"""
import importlib, os, sys
V = os.path.dirname(os.path.dirname(os.path.abspath(__file__)))
sys.path.insert(0, V)
from harness import core, stage
from harness.props import CLAIMED
scratch, info = stage.stage()
print(info["built"])
for pid in CLAIMED:
    m = importlib.import_module("harness.props." + pid.lower())
    if hasattr(m, "gen_files"):
        ctx = core.Ctx(m, "quick", 0)
        ctx.scratch, ctx.stage_info = scratch, info
        try:
            files = m.gen_files(ctx)
        except Exception as e:       # the check of that property reports it; setup goes on
            print("translator of %s failed (its check will report it): %s" % (pid, str(e)[:300]))
            continue
        for rel, content in files.items():
            core.write_if_changed(os.path.join(core.COQ, rel), content)
            print("generated", rel)
core.coq_project_refresh()
if "--exes" in sys.argv:
    for pid in CLAIMED:
        m = importlib.import_module("harness.props." + pid.lower())
        if getattr(m, "EXTRACT", None):
            ctx = core.Ctx(m, "quick", 0)
            print("built", core.ensure_extracted(ctx))
