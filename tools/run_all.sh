#!/bin/bash
# usage: tools/run_all.sh [quick|thorough] [jobs]  -- every claimed check on /repo, summary at the end
cd "$(dirname "$(readlink -f "$0")")/.."
tier=${1:-quick}; jobs=${2:-4}
ids=$(PYTHONPATH=$PWD /venv/bin/python -c "from harness.props import CLAIMED; print(' '.join(CLAIMED))")
mkdir -p .cache/runall
echo $ids | tr ' ' '\n' | xargs -P $jobs -I{} bash -c "./check {} --tier $tier > .cache/runall/{}.log 2>&1; echo \"{} exit=\$? \$(grep -c KNOWN-FINDING .cache/runall/{}.log) known \$(grep VIOLATION .cache/runall/{}.log | head -1) \$(grep -o 'wall=[0-9.]*s' .cache/runall/{}.log)\""
