#!/venv/bin/python
"""Markdown tables for DESIGN.md section 12 from seeded/*/meta.json, seeded/RESULTS.json and
seeded/REFACTOR_RESULTS.json."""
import json, os, glob
V = os.path.dirname(os.path.dirname(os.path.abspath(__file__)))
res = json.load(open(os.path.join(V, "seeded", "RESULTS.json")))
print("| seed | property | change (one line) | outcome now | history |")
print("|------|----------|-------------------|-------------|---------|")
for d in sorted(glob.glob(os.path.join(V, "seeded", "C*-*"))):
    sid = os.path.basename(d)
    m = json.load(open(os.path.join(d, "meta.json")))
    r = res.get(sid)
    if r is None:
        out = "not run yet"
    else:
        v = " ".join(x for o in r["runs"] for x in o.get("violation_lines", []))
        out = ("caught" + (" (no-failing-input-found)" if "no-failing-input-found" in v else " (concrete replay)")) if r["caught"] else "MISSED"
    print("| %s | %s | %s | %s | %s |" % (sid, m["property"], m.get("summary", "").replace("|", "/")[:230], out, m.get("check_history", "").replace("|", "/")))
rp = os.path.join(V, "seeded", "REFACTOR_RESULTS.json")
if os.path.exists(rp):
    rr = json.load(open(rp))
    print()
    print("| behaviour-preserving refactoring | property | check outcome |")
    print("|---|---|---|")
    for k in sorted(rr):
        r = rr[k]
        print("| %s | %s | %s |" % (k, r["property"], "exit 0 (no alarm)" if r.get("exit") == 0 else ("ALARM: " + ("no-failing-input-found" if r.get("no_failing_input") else "violation with input") if "exit" in r else r.get("error"))))
