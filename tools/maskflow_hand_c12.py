"""C12: hand-written mask-dataflow terms for the functions the recognisers of gen_maskflow_c12 do not
translate.  Each is pinned to the normalised-AST hash of its function (PINS): when the function's
code changes the term is void and the translator fails closed.  Sub-terms are produced by the
automatic translator wherever the code calls a translatable function."""
import gen_maskflow_c12 as G
from gen_maskflow_c12 import (Img, MaskE, FalseC, Const, Pw, Loc, LocS, Glob, Erode, ErodeP, ErodeS, Select, MConv, Not,
                               Gather, And)

# sha256[:16] of the normalised AST of the function as of the validated tree (ast_hash)
PINS = {}    # filled by harness/props/c12.py (kept there so that the check module shows them)


def t_stretch(M):
    X = Pw("array", Img)                                  # image = np.array(image, float)
    Gm = Gather(X, MaskE)                                 # significant_pixels = image[mask]
    mn, mx = Glob("min", Gm), Glob("max", Gm)
    T = Select(mn, Pw("eq", mn, mx), Pw("div", Pw("sub", Gm, mn), Pw("sub", mx, mn)))
    body = Select(Glob("scatter", T, MaskE), MaskE, X)    # image[mask] = transformed_image
    body = Select(X, Glob("size_is_0", Gm), body)         # if significant_pixels.size == 0: return image
    return Select(X, Const("product(shape)==0"), body)    # if np.product(image.shape) == 0: return image


def _median(M, fixed):
    Gm = Gather(Img, MaskE)                               # data[mask]
    # not issubdtype(int) or np.min(data[mask]) < 0 or np.max(data[mask]) > 255
    # (fixed=False: the pre-repair shape np.min(data)/np.max(data) over the WHOLE array, kept as a rejected example)
    C = Glob("needs_ranking", Gm if fixed else Img)
    R, TR = Glob("rank_order.ranks", Gm), Glob("rank_order.translation", Gm)
    RD = Select(R, C, Gm)
    IN = Select(Glob("scatter", RD, MaskE), MaskE, Const("zeros_uint8"))        # input[mask] = ranked_data
    OUT = Glob("_filter.median_filter", IN, Pw("ascontiguousarray", MaskE))
    RES = Select(Glob("take", TR, OUT), C, OUT)           # translation[output] if was_ranked else output
    return Select(Pw("copy", Img), Glob("all", Not(MaskE)), RES)               # if np.all(~mask): return data.copy()


def t_median_filter_asis(M): return _median(M, False)
def t_median_filter_fixed(M): return _median(M, True)


def t_openlines(M):
    # for iAngle in range(nAngles): openingstack[iAngle] = opening(image, mask=mask, footprint=se)
    # the loop body is the same term for every angle up to the constant footprint; three angles are written out
    fn = M.funcs["opening"]
    outs = []
    for k in range(3):
        it = G.Interp(M, fn, {"image": Img, "radius": Const("None"), "mask": MaskE, "footprint": Const("se%d" % k)})
        outs.append(rename_globs(it.run_function(), "@angle%d" % k))
    return Pw("sub", Pw("max_axis0", *outs), Pw("min_axis0", *outs))


def rename_globs(t, suffix):
    if not isinstance(t, tuple):
        return t
    if isinstance(t, G.T):
        if t[0] == "Glob" and t[1] in ("grey_erosion", "grey_dilation"):
            return G.Glob(t[1] + suffix, *[rename_globs(x, suffix) for x in t[2]])
        return G.T(*[rename_globs(x, suffix) for x in t])
    return tuple(rename_globs(x, suffix) for x in t)


def t_roberts(M):
    big = Erode(1, MaskE)                                 # binary_erosion(mask, 3x3, border_value=0)
    # q00/q11/qm11 are gathered at the true pixels of big_mask (never on the last row/column), i.e. the
    # image at p, p+(1,1), p+(-1,1):  radius-1 reads
    mag = Pw("roberts_magnitude", Img, Loc(1, "shift(+1,+1)", Img), Loc(1, "shift(-1,+1)", Img))
    return Select(mag, big, Const("zeros"))               # result[big_mask] = sqrt(...); elsewhere 0


def t_canny(M):
    fn = M.funcs["smooth_with_function_and_mask"]
    it = G.Interp(M, fn, {"image": Img, "function": Const("$callable"), "mask": MaskE})
    smoothed = it.run_function()
    emask = Erode(1, MaskE)
    # everything after `smoothed = ...` reads `image` only through image.shape and `mask` only through emask
    # (checked syntactically by check_canny_reads below)
    return Glob("canny_gradient_nms_hysteresis", smoothed, emask)


def check_canny_reads(M):
    import ast
    fn = M.funcs["canny"]
    body = G.strip_doc(fn)
    seen_smoothed = False
    for st in body:
        if not seen_smoothed:
            if isinstance(st, ast.Assign) and isinstance(st.targets[0], ast.Name) and st.targets[0].id == "smoothed":
                if ast.unparse(st.value).replace(" ", "") != "smooth_with_function_and_mask(image,fsmooth,mask)":
                    raise G.Unsupported("canny: smoothed is not smooth_with_function_and_mask(image, fsmooth, mask)")
                seen_smoothed = True
            continue
        for n in ast.walk(st):
            if isinstance(n, ast.Name) and n.id == "image":
                ok = any(isinstance(p, ast.Attribute) and p.value is n and p.attr == "shape" for p in ast.walk(st))
                if not ok:
                    raise G.Unsupported("canny reads `image` after smoothing")
            if isinstance(n, ast.Name) and n.id == "mask":
                ok = any(isinstance(p, ast.Call) and getattr(p.func, "id", "") == "binary_erosion" and p.args and p.args[0] is n
                         and ast.unparse(p).replace(" ", "") == "binary_erosion(mask,s,border_value=0)" for p in ast.walk(st))
                if not ok:
                    raise G.Unsupported("canny reads `mask` outside binary_erosion(mask, s, border_value=0)")
    if not seen_smoothed:
        raise G.Unsupported("canny: no `smoothed =` line")


def t_circular_average_filter(M):
    # mask = np.array(mask, np.uint8) keeps truthiness; output = masked_convolution(image, mask, kernel);
    # output[mask == 0] = image[mask == 0]
    return Select(MConv("pillbox_kernel", Img, MaskE), MaskE, Img)


def t_fit_polynomial(M):
    m2 = And(MaskE, Pw("gt0", Img))                       # mask = np.logical_and(mask, pixel_data > 0)
    coords = Gather(Const("x,y,x2,y2,xy,o"), m2)
    coeffs = Glob("lstsq", coords, Gather(Img, m2))
    out = Glob("polynomial_image_clipped", coeffs)
    return Select(out, Glob("any", m2), Img)              # if not np.any(mask): return pixel_data


def t_circular_hough(M):
    masked = Select(Img, MaskE, FalseC)                   # a[dest][mask[src]] += img[src][mask[src]]
    A = Glob("sum_of_shifts", masked, MaskE)
    Mm = Glob("sum_of_shifts", Pw("astype", MaskE))
    return Select(Pw("div", A, Mm), Pw("gt0", Mm), A)     # a[m > 0] /= m[m > 0]


def t_convex_hull_transform(M):
    Gm = Gather(Img, MaskE)
    mn, mx = Glob("min", Gm), Glob("max", Gm)
    scaled = Select(Pw("rescale", Img, mn, mx), MaskE, FalseC)          # image[~mask] = 0
    core = Glob("convex_hull_transform_core", scaled, mn, mx)
    body = Select(Img, Pw("eq", mn, mx), core)                          # if img_min == img_max: return image
    return Select(Const("zeros"), Glob("len_is_0", Gm), body)           # if len(unmasked_pixels) == 0: return zeros


SSYM = 987654          # stands for the symbolic structure index `s` (printed as `s`)


def _regmax_ties(M, repaired=True, s=0):
    # result = ones; result[~mask] = False (the repair 4e442e0);  for every offset d of the structure other than the
    # centre: result &= (zero-padded) mask shifted by d  -> punctured erosion of the mask by the structure;
    # result[p] = False where image[p] < image[p + d]  -> reads the image at p and at p + d, d in the structure.
    # The structure is an ABSTRACT offset set (full squares, the 4-connected cross, anything).
    t = Select(Not(LocS(s, "has_greater_structure_neighbour", Img)), ErodeS(s, MaskE), FalseC)
    return And(MaskE, t) if repaired else t


def t_regional_maximum_ties(M): return _regmax_ties(M)


def _regmax_default(M, repaired, s=0):
    T = _regmax_ties(M, repaired, s)                      # result = regional_maximum(image, mask, structure, True)
    picked = Glob("one_pixel_per_component(edt,label,rank_order,maximum_position)", T)
    return Select(picked, Glob("any", T), T)              # if not np.any(result): return result


def t_regional_maximum_default(M): return _regmax_default(M, True)
def t_regional_maximum_param(M): return _regmax_default(M, True, SSYM)
def t_regional_maximum_unmasked_ties(M): return _regmax_default(M, False)


def _index_family(M, first, loop):
    masked = Select(first, MaskE, FalseC)                 # masked_image[~mask] = False
    idx = Glob(loop, Glob("prepare_for_index_lookup", masked))
    # extract_from_image_lookup(image, index_i, index_j): image where the surviving indices are, else 0
    ext = Select(Img, Glob("index_set", idx), Const("zeros"))
    return Select(ext, MaskE, Img)                        # masked_image[~mask] = image[~mask]


def t_spur(M): return _index_family(M, Pw("copy", Pw("astype", Img)), "spur_index_lookup_loop")
def t_thin(M): return _index_family(M, Pw("copy", Img), "thin_index_lookup_loop")


def t_skeletonize(M):
    masked = Select(Pw("copy", Pw("astype", Img)), MaskE, FalseC)
    core = Glob("skeletonize_core(edt,table_lookup,lexsort,skeletonize_loop)", masked)
    return Select(Pw("astype", core), MaskE, Img)         # result[~mask] = image[~mask]


# ---------------------------------------------------------------- loop summaries
# The only construct of the 40 functions that the symbolic evaluator cannot evaluate: regional_maximum's double loop
# over the offsets (i, j) of `structure`, which addresses the image and the zero-padded mask through slice bounds
# computed with min/max (a clipped shift by the offset).  Its effect on `result` is written by hand and pinned to the
# normalised hash of THAT LOOP only (everything else of regional_maximum is translated from the source):
#   for every offset d of the structure other than the centre:
#       result &= big_mask shifted by d            (big_mask = mask placed in a zero frame: False beyond the border)
#       result[p] = False where image[p] < image[p + d]      (only for p, p + d inside the image)
STRUCTURE_LOOP_PLACEMENT = ("structure_half_shape[0]:structure_half_shape[0]+image.shape[0],"
                            "structure_half_shape[1]:structure_half_shape[1]+image.shape[1]")


def loop_regional_maximum_structure(it, env):
    s = it.m.struct_id
    R0, big, X = env.get("result"), env.get("big_mask"), env.get("image")
    if R0 is None or big is None or X is None:
        raise G.Unsupported("structure loop: result / big_mask / image not bound")
    if big[0] == "SetSlice" and big[3] == G.MaskRaw:
        big = G.SetSlice(big[1], big[2], MaskE)          # storing an integer mask into the boolean frame casts it
    if not (big[0] == "SetSlice" and big[1] == STRUCTURE_LOOP_PLACEMENT and G.is_const(big[2]) and G.is_masklike(big[3])):
        raise G.Unsupported("structure loop: big_mask is not the mask centred in a constant frame")
    M = big[3]
    inner = Select(Not(LocS(s, "has_greater_structure_neighbour", X)), ErodeS(s, M), FalseC)
    env["result"] = And(R0, inner)
    for w in ("i", "j", "off_i", "off_j", "src_i_min", "src_i_max", "off_i_min", "off_i_max", "src_j_min", "src_j_max",
              "off_j_min", "off_j_max", "min_mask"):
        env[w] = Const("loop:" + w)


def summaries(pins):
    return {"regional_maximum": [{"name": "regional_maximum#structure_loop",
                                  "pin": pins.get("regional_maximum#structure_loop"),
                                  "apply": loop_regional_maximum_structure}]}


def summary_loops(M):
    """{pin name: loop statement} for mk_pins_c12.py: the outermost `for` over range(structure.shape[0])"""
    import ast
    fn = M.funcs["regional_maximum"]
    loops = [n for n in ast.walk(fn) if isinstance(n, ast.For) and ast.unparse(n.iter).replace(" ", "") == "range(structure.shape[0])"]
    if len(loops) != 1:
        raise G.Unsupported("regional_maximum: structure loop not found")
    return {"regional_maximum#structure_loop": (fn, loops[0])}


HAND = {}
# pre-repair shapes that the checker must REJECT (stated as Examples `accepts … = false`); illustrative, not tied to pins
REJECTED = {"median_filter_unmasked_minmax": ("median_filter", t_median_filter_asis),
            "regional_maximum_unmasked_ties": ("regional_maximum", t_regional_maximum_unmasked_ties)}
EXTRA = {}
# programs re-translated with a symbolic structure index: `forall s, accepts (prog_<name> s) = true`
PARAM = {"regional_maximum_struct": "regional_maximum"}
ALSO_PINNED = {}
