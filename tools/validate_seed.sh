#!/bin/bash
# usage: validate_seed.sh <seed-out-dir> <seed-id>
# Confirms, in a scratch git worktree of /repo (removed afterwards), that a seeded change applies, that its
# demonstration passes without it and fails with it, and that the repository's test suite still passes with it.
# On success the seed is stored as /verif/seeded/<seed-id>/ with a validation record in meta.json.
out="$1"; id="$2"; wt=/var/tmp/seedval-$id
set -u
rm -rf "$wt"; git -C /repo worktree prune
git -C /repo worktree add -q --detach "$wt" HEAD || exit 2
cp -p /repo/centrosome/_*.cpp /repo/centrosome/_propagate.c /repo/centrosome/*.so "$wt/centrosome/"
cd "$wt"
cp "$out/demo.py" demo.py
d0=$(timeout 900 /venv/bin/python demo.py 2>&1 | tail -1); r0=$?
r0=$(timeout 900 /venv/bin/python demo.py >/dev/null 2>&1; echo $?)
git apply "$out/patch.diff" || { echo "patch does not apply"; cd /; git -C /repo worktree remove --force "$wt"; exit 3; }
if git diff --name-only | grep -q '\.hpp$'; then /work/seedkit/rebuild.sh "$wt" >/dev/null 2>&1; fi
r1=$(timeout 900 /venv/bin/python demo.py >/dev/null 2>&1; echo $?)
d1=$(timeout 900 /venv/bin/python demo.py 2>&1 | tail -3 | tr '\n' ' ' | cut -c1-400)
rm -f demo.py
t=$(timeout 1500 /venv/bin/python -m pytest -q -p no:cacheprovider --timeout=900 2>&1 | tail -1)
cd /; git -C /repo worktree remove --force "$wt"
echo "$id: demo unchanged exit=$r0, changed exit=$r1; tests: $t"
case "$t" in *"504 passed, 2 skipped"*) tests_ok=1;; *) tests_ok=0;; esac
if [ "$r0" = 0 ] && [ "$r1" != 0 ] && [ "$tests_ok" = 1 ]; then
  mkdir -p /verif/seeded/$id
  cp "$out/patch.diff" "$out/demo.py" /verif/seeded/$id/
  /venv/bin/python - "$out/meta.json" /verif/seeded/$id/meta.json "$t" "$d1" <<'PY'
import json,sys
m=json.load(open(sys.argv[1]))
m["validated_by_coordinator"]={"how":"tools/validate_seed.sh: scratch worktree of /repo HEAD; demo.py exit 0 before patch, non-zero after; full pytest suite after patch","tests":sys.argv[3],"demo_changed_tail":sys.argv[4]}
m["origin"]="independent sub-agent given only the property text and a scratch worktree of /repo"
json.dump(m,open(sys.argv[2],"w"),indent=1)
PY
  echo "$id: KEPT"
else
  echo "$id: REJECTED"
fi
