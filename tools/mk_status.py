#!/venv/bin/python
"""Prints a markdown status table from the tree: per claimed property the theorems in Props/<ID>.v
(names; `_partial`/`_refuted`/`_finite` counted by suffix), mutants kept, seeded changes and whether the
registered check caught them (seeded/RESULTS.json), known findings."""
import json, os, re, sys
V = os.path.dirname(os.path.dirname(os.path.abspath(__file__)))
sys.path.insert(0, V)
from harness.props import CLAIMED
from harness.core import strip_coq_comments
res = json.load(open(os.path.join(V, "seeded", "RESULTS.json"))) if os.path.exists(os.path.join(V, "seeded", "RESULTS.json")) else {}
print("| id | theorems in Props (partial / refuted / finite) | hand mutants | seeded changes (caught/total) |")
print("|----|----|----|----|")
for pid in CLAIMED:
    t = strip_coq_comments(open(os.path.join(V, "coq", "theories", "Props", pid + ".v")).read())
    names = re.findall(r"^\s*(?:Theorem|Lemma|Corollary)\s+([A-Za-z_0-9']+)", t, re.M)
    part = [n for n in names if "partial" in n]; ref = [n for n in names if "refuted" in n]; fin = [n for n in names if "finite" in n.lower() or re.search(r"_\d+x\d+", n)]
    md = os.path.join(V, "mutants", pid)
    nm = len([f for f in os.listdir(md) if f.endswith((".diff", ".patch"))]) if os.path.isdir(md) else 0
    seeds = {k: v for k, v in res.items() if v["property"] == pid}
    print("| %s | %d (%d / %d / %d) | %d | %s |" % (pid, len(names), len(part), len(ref), len(fin), nm,
          "%d/%d %s" % (sum(1 for v in seeds.values() if v["caught"]), len(seeds), " ".join(sorted(seeds))) if seeds else "-"))
