#!/bin/bash
# usage: tools/merge_prop.sh CXX   -- coordinator helper: merge builder branch cxx, claim, rebuild, check, commit
set -e
cd "$(dirname "$(readlink -f "$0")")/.."
ID="$1"; br=$(echo "$ID" | tr 'A-Z' 'a-z')
git merge -q --no-ff -m "merge $br ($ID builder)" "$br" || { for f in $(git diff --name-only --diff-filter=U); do case "$f" in evidence/*) git checkout --ours "$f"; git add "$f";; *) echo "CONFLICT $f"; exit 1;; esac; done; git commit -q -m "merge $br ($ID builder)"; }
/venv/bin/python - "$ID" <<'PY'
import re,sys
p='harness/props/__init__.py'; t=open(p).read()
m=re.search(r'CLAIMED = \[(.*?)\]', t, re.S)
ids=[x.strip().strip('"') for x in m.group(1).split(',') if x.strip()]
if sys.argv[1] not in ids: ids.append(sys.argv[1])
ids.sort()
open(p,'w').write(t[:m.start()]+'CLAIMED = ['+', '.join('"%s"'%i for i in ids)+']'+t[m.end():])
PY
PYTHONPATH=$PWD /venv/bin/python tools/mk_manifest.py
./setup.sh > /tmp/setup-$ID.log 2>&1 || { tail -30 /tmp/setup-$ID.log; exit 1; }
./check "$ID" --tier quick > /tmp/check-$ID.log 2>&1; rc=$?
grep -E "VIOLATION|KNOWN-FINDING|done $ID" /tmp/check-$ID.log || true
echo "exit=$rc"
python3-vt - "$ID" <<'PY'
import json, jsonschema, sys
jsonschema.validate(json.load(open("MANIFEST.json")), json.load(open("/root/.vp/MANIFEST.schema.json")))
jsonschema.validate(json.load(open("evidence/%s.json"%sys.argv[1])), json.load(open("/root/.vp/EVIDENCE.schema.json")))
print("schemas ok")
PY
git add -A; git commit -q -m "claim $ID: manifest, evidence"; echo committed
