#!/venv/bin/python
"""Run the registered checks against behaviour-preserving refactorings (seeded/refactors/<id>/refactor_k.diff,
produced by independent agents together with a differential script showing bit-identical behaviour).  A check
that exits non-zero here raised an alarm on code where the property still holds; the outcome (and whether it was a
plain VIOLATION or a 'no-failing-input-found' one) is recorded in seeded/REFACTOR_RESULTS.json.
usage: tools/run_refactors.py [--tier quick] [id ...]      (id = directory name under seeded/refactors)"""
import argparse, json, os, shutil, subprocess, sys, glob, time
V = os.path.dirname(os.path.dirname(os.path.abspath(__file__)))
sys.path.insert(0, V)
from harness.props import CLAIMED
ap = argparse.ArgumentParser(); ap.add_argument("ids", nargs="*"); ap.add_argument("--tier", default="quick"); ap.add_argument("--new", action="store_true", help="only refactorings without a recorded result")
a = ap.parse_args()
rd = os.path.join(V, "seeded", "refactors")
ids = a.ids or sorted(os.listdir(rd))
rp = os.path.join(V, "seeded", "REFACTOR_RESULTS.json")
results = json.load(open(rp)) if os.path.exists(rp) else {}
for rid in ids:
    meta = json.load(open(os.path.join(rd, rid, "meta.json")))
    pid = meta["property"]
    for patch in sorted(glob.glob(os.path.join(rd, rid, "refactor_*.diff"))):
        key = rid + "/" + os.path.basename(patch)
        if a.new and key in results:
            continue
        scratch = "/var/tmp/refrun-%s-%d" % (rid, os.getpid())
        shutil.copytree("/repo", scratch, ignore=shutil.ignore_patterns(".git", "__pycache__"))
        try:
            subprocess.run(["git", "apply", patch], cwd=scratch, check=True)
            env = dict(os.environ, VERIF_REPO=scratch)
            t = time.time()
            r = subprocess.run([os.path.join(V, "check"), pid, "--tier", a.tier], cwd=V, env=env, capture_output=True, text=True)
            viol = [l for l in r.stdout.splitlines() if l.startswith("VIOLATION")]
            results[key] = {"property": pid, "exit": r.returncode, "violation_lines": viol, "wall_s": round(time.time() - t, 1),
                            "alarm": r.returncode != 0, "no_failing_input": any("no-failing-input-found" in v for v in viol)}
            print(key, "exit=%d" % r.returncode, " ".join(viol)[:200], flush=True)
        except subprocess.CalledProcessError as e:
            results[key] = {"property": pid, "error": "patch does not apply"}
            print(key, "patch does not apply")
        finally:
            shutil.rmtree(scratch, ignore_errors=True)
        import fcntl
        with open(rp + ".lock", "w") as lk:
            fcntl.flock(lk, fcntl.LOCK_EX)
            cur = json.load(open(rp)) if os.path.exists(rp) else {}
            cur[key] = results[key]
            json.dump(cur, open(rp, "w"), indent=1)
