#!/venv/bin/python
"""Re-run every kept hand-made mutant (mutants/<ID>/*.diff) against the registered check of its property.
Each diff is applied with `patch -p1 --fuzz=3` (falling back to -p0 / git apply) to a scratch copy of /repo
(the generated .cpp files are there too), the check runs with VERIF_REPO pointing at the copy.  Outcome per
mutant goes to mutants/RESULTS.json: exit status, VIOLATION line, or "does not apply" (a diff written
against an older /repo whose context has since changed).  Names containing HARMLESS / equivalent / control are
expected to pass (exit 0).   usage: tools/run_mutants.py [-j N] [ID ...]"""
import argparse, json, os, shutil, subprocess, sys, glob, time
from concurrent.futures import ThreadPoolExecutor
V = os.path.dirname(os.path.dirname(os.path.abspath(__file__)))
ap = argparse.ArgumentParser(); ap.add_argument("ids", nargs="*"); ap.add_argument("-j", type=int, default=4)
a = ap.parse_args()
ids = a.ids or sorted(d for d in os.listdir(os.path.join(V, "mutants")) if os.path.isdir(os.path.join(V, "mutants", d)))
only = os.environ.get("MUTANTS_ONLY")
jobs = [(pid, p) for pid in ids for p in sorted(glob.glob(os.path.join(V, "mutants", pid, "*.diff")) + glob.glob(os.path.join(V, "mutants", pid, "*.patch")))]
rp = os.path.join(V, "mutants", "RESULTS.json")
results = json.load(open(rp)) if os.path.exists(rp) else {}
if only == "unapplied":
    jobs = [j for j in jobs if results.get(j[0] + "/" + os.path.basename(j[1]), {}).get("status") != "run"]

def apply(patch, scratch):
    for cmd in (["patch", "-p1", "--fuzz=3", "-s", "-f", "-i", patch], ["patch", "-p0", "--fuzz=3", "-s", "-f", "-i", patch],
                ["patch", "-p2", "--fuzz=3", "-s", "-f", "-i", patch], ["patch", "-p3", "--fuzz=3", "-s", "-f", "-i", patch],
                ["patch", "-p4", "--fuzz=3", "-s", "-f", "-i", patch], ["git", "apply", patch]):
        r = subprocess.run(cmd, cwd=scratch, capture_output=True, text=True)
        if r.returncode == 0:
            return True
        subprocess.run("find . -name '*.rej' -delete -o -name '*.orig' -delete", shell=True, cwd=scratch)
    return False

def one(job):
    pid, patch = job
    name = os.path.basename(patch)
    scratch = "/var/tmp/mutrun-%s-%s-%d" % (pid, name[:30].replace("/", "_"), os.getpid())
    shutil.copytree("/repo", scratch, ignore=shutil.ignore_patterns(".git", "__pycache__", "*.so"))
    try:
        if not apply(patch, scratch):
            return pid + "/" + name, {"property": pid, "status": "does not apply"}
        env = dict(os.environ, VERIF_REPO=scratch)
        t = time.time()
        r = subprocess.run([os.path.join(V, "check"), pid, "--tier", "quick"], cwd=V, env=env, capture_output=True, text=True, timeout=3000)
        viol = [l for l in r.stdout.splitlines() if l.startswith("VIOLATION")]
        return pid + "/" + name, {"property": pid, "status": "run", "exit": r.returncode, "violation_lines": viol[:1], "wall_s": round(time.time() - t, 1)}
    except Exception as e:
        return pid + "/" + name, {"property": pid, "status": "error", "error": str(e)[:200]}
    finally:
        shutil.rmtree(scratch, ignore_errors=True)

skipf = os.environ.get("MUTANTS_SKIP_FILE")
if skipf and os.path.exists(skipf):
    done = set(l.strip() for l in open(skipf))
    jobs = [j for j in jobs if (j[0] + "/" + os.path.basename(j[1])) not in done]
# interleave properties: runs of one property are serialised by the per-property lock in core
by = {}
for j in jobs:
    by.setdefault(j[0], []).append(j)
jobs = []
while any(by.values()):
    for k in sorted(by):
        if by[k]:
            jobs.append(by[k].pop(0))
with ThreadPoolExecutor(a.j) as ex:
    for key, res in ex.map(one, jobs):
        results[key] = res
        expect_pass = any(w in key.lower() for w in ("harmless", "equivalent", "control"))
        tag = "n/a" if res["status"] != "run" else ("ok" if (res["exit"] == 0) == expect_pass else "UNEXPECTED")
        print(key, res.get("status"), res.get("exit"), tag, " ".join(res.get("violation_lines", []))[:100], flush=True)
        json.dump(results, open(rp, "w"), indent=1)
