#!/venv/bin/python
"""Run the registered checks against the validated seeded changes under /verif/seeded/<id>/.

  tools/run_seeded.py [--inplace] [--tier quick|thorough] [--also C20,...] [id ...]

Default mode copies /repo to a scratch directory, applies the patch there and points the check at it
(VERIF_REPO), so that nothing else working against /repo is disturbed.  --inplace does what the task
brief describes literally: `git -C /repo apply <patch>`, run the checks, `git -C /repo checkout -- .`.
For every seed the check of the property it breaks is run (plus any given with --also); the outcome
(exit status, VIOLATION line, replay file) is appended to seeded/RESULTS.json and printed.
Never commits anything to /repo."""
import argparse, json, os, shutil, subprocess, sys, time
V = os.path.dirname(os.path.dirname(os.path.abspath(__file__)))
sys.path.insert(0, V)


def run_check(pid, tier, env):
    t = time.time()
    r = subprocess.run([os.path.join(V, "check"), pid, "--tier", tier], cwd=V, env=env, capture_output=True, text=True)
    viol = [l for l in r.stdout.splitlines() if l.startswith("VIOLATION")]
    known = [l for l in r.stdout.splitlines() if l.startswith("KNOWN-FINDING")]
    return {"property": pid, "exit": r.returncode, "violation_lines": viol, "known_finding_lines": len(known),
            "wall_s": round(time.time() - t, 1), "stderr_tail": r.stderr[-600:] if r.returncode not in (0, 1) else ""}


def main():
    ap = argparse.ArgumentParser()
    ap.add_argument("ids", nargs="*")
    ap.add_argument("--inplace", action="store_true")
    ap.add_argument("--tier", default="quick")
    ap.add_argument("--also", default="")
    a = ap.parse_args()
    from harness.props import CLAIMED
    sd = os.path.join(V, "seeded")
    ids = a.ids or sorted(d for d in os.listdir(sd) if os.path.isdir(os.path.join(sd, d)))
    results_path = os.path.join(sd, "RESULTS.json")
    results = json.load(open(results_path)) if os.path.exists(results_path) else {}
    for sid in ids:
        meta = json.load(open(os.path.join(sd, sid, "meta.json")))
        patch = os.path.join(sd, sid, "patch.diff")
        props = [meta["property"]] + [p for p in a.also.split(",") if p]
        env = dict(os.environ)
        scratch = None
        if a.inplace:
            subprocess.run(["git", "-C", "/repo", "apply", patch], check=True)
        else:
            scratch = "/var/tmp/seedrun-%s-%d" % (sid, os.getpid())
            shutil.copytree("/repo", scratch, ignore=shutil.ignore_patterns(".git", "__pycache__"))
            subprocess.run(["git", "init", "-q"], cwd=scratch)
            subprocess.run(["git", "apply", patch], cwd=scratch, check=True)
            env["VERIF_REPO"] = scratch
        try:
            out = []
            for p in props:
                if p not in CLAIMED:
                    out.append({"property": p, "exit": None, "note": "property has no registered check"})
                    continue
                out.append(run_check(p, a.tier, env))
        finally:
            if a.inplace:
                subprocess.run(["git", "-C", "/repo", "checkout", "--", "."], check=True)
            else:
                shutil.rmtree(scratch, ignore_errors=True)
        caught = any(o.get("exit") == 1 and o.get("violation_lines") for o in out)
        results[sid] = {"property": meta["property"], "summary": meta.get("summary", ""), "mode": "inplace" if a.inplace else "scratch",
                        "tier": a.tier, "runs": out, "caught": caught}
        print("%s: %s  %s" % (sid, "CAUGHT" if caught else "MISSED",
                              "; ".join("%s exit=%s %s" % (o["property"], o.get("exit"), " ".join(o.get("violation_lines", []))[:160]) for o in out)), flush=True)
        import fcntl
        with open(results_path + ".lock", "w") as lk:      # several runs over disjoint seeds may share the file
            fcntl.flock(lk, fcntl.LOCK_EX)
            cur = json.load(open(results_path)) if os.path.exists(results_path) else {}
            cur[sid] = results[sid]
            json.dump(cur, open(results_path, "w"), indent=1)


if __name__ == "__main__":
    main()
