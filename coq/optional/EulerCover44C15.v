(* C15 - optional, NOT imported by Props/C15.v (7 min 50 s of vm_compute): every binary 4x4 image is reduced to the
   empty image by the four moves (the certificate search succeeds on all 65 536).  Build on demand:
   make -f Makefile.coq theories/Proofs/EulerCover44C15.vo *)
From Coq Require Import ZArith List Bool.
From Centro Require Import Model.LabelGraph Spec.EulerReduceC15 Proofs.EulerC15 Proofs.EulerSearchC15.
Import ListNotations. Open Scope Z_scope.
Lemma cover44 : cover_sweep [0; 1] [1] [(4,4)%nat] = true.
Proof. vm_compute. reflexivity. Qed.
