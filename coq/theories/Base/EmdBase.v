(* C10 — shared list/sum vocabulary for the earth mover's distance development
   (definitions only; lemmas live in Proofs/EmdDuality.v). *)
From Coq Require Import ZArith List Bool.
Import ListNotations.
Open Scope Z_scope.

Fixpoint zsum (l : list Z) : Z := match l with [] => 0 | x :: r => x + zsum r end.

(* total accessors: vectors and matrices are lists, out-of-range reads give 0 *)
Definition nz (l : list Z) (i : nat) : Z := nth i l 0.
Definition mz (M : list (list Z)) (i j : nat) : Z := nth j (nth i M []) 0.

Fixpoint upd {A} (l : list A) (i : nat) (g : A -> A) : list A :=
  match l, i with
  | [], _ => []
  | x :: r, O => g x :: r
  | x :: r, S i' => x :: upd r i' g
  end.
Definition upd2 (M : list (list Z)) (i j : nat) (g : Z -> Z) : list (list Z) :=
  upd M i (fun r => upd r j g).

Definition all_lt (n : nat) (p : nat -> bool) : bool := forallb p (seq 0 n).
