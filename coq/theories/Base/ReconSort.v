(* C04 — the two total orders on (value, flat index) pairs used by the model of
   grey_reconstruction, and stdlib merge sort instantiated on them.
   [DescOrder]: np.lexsort([-values]) — stable ascending sort of -values, i.e. values descending,
   ties by ascending flat index.  Because the order on pairs is total and antisymmetric, the
   sorted list is unique, so "stable sort by -value" = "sort pairs by (value desc, index asc)".
   [AscOrder]: flat_image.argsort() inside rank_order (values ascending; NumPy's tie order is
   unspecified there, but equal values receive equal ranks, so any tie order gives the same
   int_image; the model breaks ties by index). *)
From Coq Require Import ZArith List Bool Lia ZifyBool Orders Sorting.Mergesort.
Open Scope Z_scope.

Module DescOrder <: TotalLeBool.
  Definition t := (Z * Z)%type.
  Definition leb (x y : t) : bool :=
    if fst y <? fst x then true else if fst x <? fst y then false else snd x <=? snd y.
  Theorem leb_total : forall x y, leb x y = true \/ leb y x = true.
  Proof. intros [a i] [b j]; unfold leb; cbn [fst snd].
    destruct (b <? a) eqn:E1; destruct (a <? b) eqn:E2; destruct (i <=? j) eqn:E3;
    destruct (j <=? i) eqn:E4; auto; lia. Qed.
End DescOrder.
Module DescSort := Sort DescOrder.

Module AscOrder <: TotalLeBool.
  Definition t := (Z * Z)%type.
  Definition leb (x y : t) : bool :=
    if fst x <? fst y then true else if fst y <? fst x then false else snd x <=? snd y.
  Theorem leb_total : forall x y, leb x y = true \/ leb y x = true.
  Proof. intros [a i] [b j]; unfold leb; cbn [fst snd].
    destruct (b <? a) eqn:E1; destruct (a <? b) eqn:E2; destruct (i <=? j) eqn:E3;
    destruct (j <=? i) eqn:E4; auto; lia. Qed.
End AscOrder.
Module AscSort := Sort AscOrder.
