(* S-expression values: the one wire format between the Python harness and every executable
   model / checker.  A property's model exposes [entry : sx -> sx]; the same function is run
   (a) extracted to OCaml through the generic driver and (b) by [vm_compute] inside Coq on a
   generated Cases file, so extraction is cross-checked against the kernel's evaluator. *)
From Coq Require Import ZArith List Bool.
Import ListNotations.
Open Scope Z_scope.

Inductive sx : Type := I (z : Z) | L (l : list sx).

Definition as_Z (x : sx) : Z := match x with I z => z | L _ => 0 end.
Definition as_list (x : sx) : list sx := match x with L l => l | I _ => [] end.
Definition as_bool (x : sx) : bool := negb (as_Z x =? 0).
Definition as_nat (x : sx) : nat := Z.to_nat (as_Z x).
Definition as_Zs (x : sx) : list Z := map as_Z (as_list x).
Definition as_Zss (x : sx) : list (list Z) := map as_Zs (as_list x).
Definition as_bools (x : sx) : list bool := map as_bool (as_list x).
Definition as_boolss (x : sx) : list (list bool) := map as_bools (as_list x).
Definition arg (k : nat) (x : sx) : sx := nth k (as_list x) (I 0).

Definition of_bool (b : bool) : sx := I (if b then 1 else 0).
Definition of_nat (n : nat) : sx := I (Z.of_nat n).
Definition of_Zs (l : list Z) : sx := L (map I l).
Definition of_Zss (l : list (list Z)) : sx := L (map of_Zs l).
Definition of_bools (l : list bool) : sx := L (map of_bool l).
Definition of_boolss (l : list (list bool)) : sx := L (map of_bools l).
Definition of_pairs (l : list (Z * Z)) : sx := L (map (fun p => L [I (fst p); I (snd p)]) l).
Definition as_pair (x : sx) : Z * Z := (as_Z (arg 0 x), as_Z (arg 1 x)).
Definition as_pairs (x : sx) : list (Z * Z) := map as_pair (as_list x).
Definition of_option {A} (f : A -> sx) (o : option A) : sx :=
  match o with Some a => L [f a] | None => L [] end.

(* structural equality, used by Cases files to compare inside Coq *)
Fixpoint sx_eqb (a b : sx) {struct a} : bool :=
  match a, b with
  | I x, I y => x =? y
  | L xs, L ys =>
      (fix go (xs ys : list sx) {struct xs} : bool :=
         match xs, ys with
         | [], [] => true
         | x :: xs', y :: ys' => sx_eqb x y && go xs' ys'
         | _, _ => false
         end) xs ys
  | _, _ => false
  end.
