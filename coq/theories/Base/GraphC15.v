(* C15 — helpers shared by Model/LabelGraph.v and its proofs: N-keyed maps over PositiveMap
   (arrays with O(log n) access so that the extracted DFS runs on chains of 50 000 vertices),
   merge sort on pairs (np.lexsort with two keys), small list utilities. *)
From Coq Require Import ZArith NArith List Bool Lia Orders Sorting.Mergesort FMapPositive.
Import ListNotations.

(* ---------------------------------------------------------------- arrays as maps *)
Definition pmap := PositiveMap.t N.
Definition mempty : pmap := PositiveMap.empty N.
Definition mget (m : pmap) (k : N) : option N := PositiveMap.find (N.succ_pos k) m.
Definition mset (m : pmap) (k : N) (x : N) : pmap := PositiveMap.add (N.succ_pos k) x m.
Definition mgetd (m : pmap) (k : N) : N := match mget m k with Some x => x | None => 0%N end.

Lemma mget_empty k : mget mempty k = None.
Proof. unfold mget, mempty. apply PositiveMap.gempty. Qed.
Lemma mget_set_same m k x : mget (mset m k x) k = Some x.
Proof. unfold mget, mset. apply PositiveMap.gss. Qed.
Lemma mget_set_other m k x i : i <> k -> mget (mset m k x) i = mget m i.
Proof.
  unfold mget, mset. intros H. apply PositiveMap.gso. intros E. apply H.
  rewrite <- (N.pos_pred_succ i), <- (N.pos_pred_succ k), E. reflexivity.
Qed.
Lemma mgetd_set_same m k x : mgetd (mset m k x) k = x.
Proof. unfold mgetd. rewrite mget_set_same. reflexivity. Qed.
Lemma mgetd_set_other m k x i : i <> k -> mgetd (mset m k x) i = mgetd m i.
Proof. intros H. unfold mgetd. rewrite mget_set_other by exact H. reflexivity. Qed.

(* start, start+1, ... (len entries); the length is a nat only for the recursion *)
Fixpoint nseq (start : N) (len : nat) : list N :=
  match len with O => [] | S k => start :: nseq (N.succ start) k end.

(* array from a list: entry k of the list at key start+k *)
Fixpoint mof_list (start : N) (l : list N) (m : pmap) : pmap :=
  match l with [] => m | x :: r => mof_list (N.succ start) r (mset m start x) end.

(* ---------------------------------------------------------------- lexicographic order on pairs *)
Module NPairOrder <: TotalLeBool.
  Definition t := (N * N)%type.
  Definition leb (p q : t) : bool :=
    (N.ltb (fst p) (fst q)) || ((N.eqb (fst p) (fst q)) && (N.leb (snd p) (snd q))).
  Theorem leb_total : forall a b, leb a b = true \/ leb b a = true.
  Proof.
    intros [a1 a2] [b1 b2]. unfold leb. cbn [fst snd].
    destruct (N.ltb_spec a1 b1), (N.ltb_spec b1 a1), (N.eqb_spec a1 b1), (N.eqb_spec b1 a1),
      (N.leb_spec a2 b2), (N.leb_spec b2 a2); cbn; auto; lia.
  Qed.
End NPairOrder.
Module NPairSort := Sort NPairOrder.

Module ZPairOrder <: TotalLeBool.
  Definition t := (Z * Z)%type.
  Definition leb (p q : t) : bool :=
    (Z.ltb (fst p) (fst q)) || ((Z.eqb (fst p) (fst q)) && (Z.leb (snd p) (snd q))).
  Theorem leb_total : forall a b, leb a b = true \/ leb b a = true.
  Proof.
    intros [a1 a2] [b1 b2]. unfold leb. cbn [fst snd].
    destruct (Z.ltb_spec a1 b1), (Z.ltb_spec b1 a1), (Z.eqb_spec a1 b1), (Z.eqb_spec b1 a1),
      (Z.leb_spec a2 b2), (Z.leb_spec b2 a2); cbn; auto; lia.
  Qed.
End ZPairOrder.
Module ZPairSort := Sort ZPairOrder.

(* ---------------------------------------------------------------- Z list utilities *)
Open Scope Z_scope.
Fixpoint zrange (start : Z) (n : nat) : list Z :=
  match n with O => [] | S k => start :: zrange (start + 1) k end.

(* stable insertion sort, ascending by key *)
Fixpoint insert_by {A} (key : A -> Z) (x : A) (l : list A) : list A :=
  match l with
  | [] => [x]
  | y :: r => if key x <=? key y then x :: y :: r else y :: insert_by key x r
  end.
Definition sort_by {A} (key : A -> Z) (l : list A) : list A := fold_right (insert_by key) [] l.
Definition zsort (l : list Z) : list Z := sort_by (fun x => x) l.

(* drop an element equal to its predecessor *)
Fixpoint dedup (l : list Z) : list Z :=
  match l with
  | [] => []
  | x :: r => match r with
              | [] => [x]
              | y :: _ => if x =? y then dedup r else x :: dedup r
              end
  end.
(* np.unique *)
Definition zunique (l : list Z) : list Z := dedup (zsort l).
