(* C06 — shared infrastructure: grids (list of rows) with a total reader, tabulation, the
   9-bit neighbourhood encoding, counted loops and finite sums over integer ranges. *)
From Coq Require Import ZArith List Bool Lia ZifyBool.
Import ListNotations.
Open Scope Z_scope.

Definition grid (A : Type) : Type := list (list A).

(* total reader: default [d] outside the stored rows/columns *)
Definition rd {A} (d : A) (G : grid A) (p q : Z) : A :=
  if (p <? 0) || (q <? 0) then d else nth (Z.to_nat q) (nth (Z.to_nat p) G []) d.

Definition tab {A} (H W : nat) (f : Z -> Z -> A) : grid A :=
  map (fun p => map (fun q => f (Z.of_nat p) (Z.of_nat q)) (seq 0 W)) (seq 0 H).

Definition gH {A} (G : grid A) : Z := Z.of_nat (length G).
Definition gW {A} (G : grid A) : Z := Z.of_nat (length (hd [] G)).

(* rectangular with the given shape *)
Definition wf {A} (H W : nat) (G : grid A) : Prop :=
  length G = H /\ Forall (fun r => length r = W) G.

Definition inr (H W p q : Z) : bool := (0 <=? p) && (p <? H) && (0 <=? q) && (q <? W).

(* little-endian encoding of a bit list: sum of 2^k for the set positions *)
Fixpoint enc (l : list bool) : Z :=
  match l with [] => 0 | b :: r => Z.b2z b + 2 * enc r end.

(* for a in range(a0, a0+n): s = body a s *)
Fixpoint for_ {S : Type} (n : nat) (a : Z) (body : Z -> S -> S) (s : S) : S :=
  match n with O => s | S m => for_ m (a + 1) body (body a s) end.

Fixpoint zsum (n : nat) (a : Z) (g : Z -> Z) : Z :=
  match n with O => 0 | S m => g a + zsum m (a + 1) g end.

Fixpoint iter {A} (n : nat) (f : A -> A) (x : A) : A :=
  match n with O => x | S m => iter m f (f x) end.

(* ------------------------------------------------------------------ lemmas *)

Lemma nth_seq_map {A} (f : nat -> A) n k d : (k < n)%nat -> nth k (map f (seq 0 n)) d = f k.
Proof.
  intros Hk. rewrite (nth_indep _ d (f 0%nat)) by (rewrite map_length, seq_length; lia).
  rewrite map_nth. rewrite seq_nth by lia. reflexivity.
Qed.

Lemma rd_tab {A} (d : A) H W f p q :
  0 <= p < Z.of_nat H -> 0 <= q < Z.of_nat W -> rd d (tab H W f) p q = f p q.
Proof.
  intros Hp Hq. unfold rd, tab.
  destruct ((p <? 0) || (q <? 0)) eqn:E; [lia|].
  rewrite (nth_seq_map (fun p => map (fun q => f (Z.of_nat p) (Z.of_nat q)) (seq 0 W))) by lia.
  rewrite (nth_seq_map (fun q => f (Z.of_nat (Z.to_nat p)) (Z.of_nat q))) by lia.
  rewrite !Z2Nat.id by lia. reflexivity.
Qed.

Lemma wf_tab {A} H W (f : Z -> Z -> A) : wf H W (tab H W f).
Proof.
  unfold wf, tab. split; [rewrite map_length, seq_length; reflexivity|].
  apply Forall_forall. intros r Hr. apply in_map_iff in Hr. destruct Hr as [p [<- _]].
  rewrite map_length, seq_length. reflexivity.
Qed.

Lemma gH_tab {A} H W (f : Z -> Z -> A) : gH (tab H W f) = Z.of_nat H.
Proof. unfold gH, tab. rewrite map_length, seq_length. reflexivity. Qed.

Lemma gW_tab {A} H W (f : Z -> Z -> A) : (0 < H)%nat -> gW (tab H W f) = Z.of_nat W.
Proof.
  intros HH. unfold gW, tab. destruct H; [lia|]. cbn [seq map hd].
  rewrite map_length, seq_length. reflexivity.
Qed.

Lemma wf_gH {A} H W (G : grid A) : wf H W G -> gH G = Z.of_nat H.
Proof. intros [L _]. unfold gH. rewrite L. reflexivity. Qed.

Lemma wf_gW {A} H W (G : grid A) : wf H W G -> (0 < H)%nat -> gW G = Z.of_nat W.
Proof.
  intros [L F] HH. unfold gW. destruct G as [|r G]; [cbn in L; lia|].
  cbn [hd]. inversion F; subst. reflexivity.
Qed.

(* two well-formed grids of the same shape with the same readings are equal *)
Lemma list_ext {A} (d : A) (l1 l2 : list A) :
  length l1 = length l2 -> (forall k, (k < length l1)%nat -> nth k l1 d = nth k l2 d) -> l1 = l2.
Proof.
  revert l2. induction l1 as [|a l1 IH]; intros [|b l2] L E; cbn in L; try lia; [reflexivity|].
  f_equal; [apply (E 0%nat); cbn; lia|].
  apply IH; [lia|]. intros k Hk. apply (E (S k)). cbn. lia.
Qed.

Lemma grid_ext {A} (d : A) H W (G1 G2 : grid A) :
  wf H W G1 -> wf H W G2 ->
  (forall p q, 0 <= p < Z.of_nat H -> 0 <= q < Z.of_nat W -> rd d G1 p q = rd d G2 p q) -> G1 = G2.
Proof.
  intros [L1 F1] [L2 F2] E. apply (list_ext []); [lia|]. intros k Hk.
  assert (R1 : length (nth k G1 []) = W) by (rewrite Forall_forall in F1; apply F1, nth_In; lia).
  assert (R2 : length (nth k G2 []) = W) by (rewrite Forall_forall in F2; apply F2, nth_In; lia).
  apply (list_ext d); [lia|]. intros j Hj.
  specialize (E (Z.of_nat k) (Z.of_nat j)). unfold rd in E.
  destruct ((Z.of_nat k <? 0) || (Z.of_nat j <? 0)) eqn:B; [lia|].
  rewrite !Nat2Z.id in E. apply E; lia.
Qed.

Lemma tab_ext {A} H W (f g : Z -> Z -> A) :
  (forall p q, 0 <= p < Z.of_nat H -> 0 <= q < Z.of_nat W -> f p q = g p q) -> tab H W f = tab H W g.
Proof.
  intros E. unfold tab. apply map_ext_in. intros p Hp. apply map_ext_in. intros q Hq.
  apply in_seq in Hp. apply in_seq in Hq. apply E; lia.
Qed.

Lemma tab_rd {A} (d : A) H W (G : grid A) : wf H W G -> tab H W (rd d G) = G.
Proof.
  intros WF. apply (grid_ext d H W); [apply wf_tab|exact WF|].
  intros p q Hp Hq. apply rd_tab; assumption.
Qed.

Lemma for_add (n : nat) : forall (a : Z) (body : Z -> (Z -> Z -> Z) -> Z -> Z -> Z) (g : Z -> Z) (p q : Z),
  (forall i f, body i f p q = f p q + g i) ->
  forall f, for_ n a body f p q = f p q + zsum n a g.
Proof.
  induction n as [|n IH]; intros a body g p q Hb f; cbn [for_ zsum]; [lia|].
  rewrite (IH (a + 1) body g p q Hb). rewrite Hb. lia.
Qed.

Lemma zsum_ext n : forall a g h, (forall i, a <= i < a + Z.of_nat n -> g i = h i) -> zsum n a g = zsum n a h.
Proof.
  induction n as [|n IH]; intros a g h E; cbn [zsum]; [reflexivity|].
  rewrite (E a) by lia. rewrite (IH (a + 1) g h); [reflexivity|]. intros i Hi. apply E. lia.
Qed.

Lemma zsum_zero n : forall a g, (forall i, a <= i < a + Z.of_nat n -> g i = 0) -> zsum n a g = 0.
Proof.
  induction n as [|n IH]; intros a g E; cbn [zsum]; [reflexivity|].
  rewrite (E a) by lia. rewrite IH; [reflexivity|]. intros i Hi. apply E. lia.
Qed.

Lemma zsum_add n : forall a g h, zsum n a (fun i => g i + h i) = zsum n a g + zsum n a h.
Proof. induction n as [|n IH]; intros a g h; cbn [zsum]; [reflexivity|]. rewrite IH. lia. Qed.

(* a summand supported on {c-1, c, c+1} *)
Definition pick (n : nat) (a i : Z) (v : Z) : Z := if (a <=? i) && (i <? a + Z.of_nat n) then v else 0.

Lemma zsum_three n : forall a g c,
  (forall i, i <> c - 1 -> i <> c -> i <> c + 1 -> g i = 0) ->
  zsum n a g = pick n a (c - 1) (g (c - 1)) + pick n a c (g c) + pick n a (c + 1) (g (c + 1)).
Proof.
  induction n as [|n IH]; intros a g c Z0; cbn [zsum].
  - unfold pick. repeat match goal with |- context[if ?b then _ else _] => destruct b eqn:?; try lia end.
  - rewrite (IH (a + 1) g c Z0). unfold pick.
    destruct (Z.eq_dec a (c - 1)) as [->|N1].
    + repeat match goal with |- context[if ?b then _ else _] => destruct b eqn:?; try lia end.
    + destruct (Z.eq_dec a c) as [->|N2].
      * repeat match goal with |- context[if ?b then _ else _] => destruct b eqn:?; try lia end.
      * destruct (Z.eq_dec a (c + 1)) as [->|N3].
        -- repeat match goal with |- context[if ?b then _ else _] => destruct b eqn:?; try lia end.
        -- rewrite (Z0 a N1 N2 N3).
           repeat match goal with |- context[if ?b then _ else _] => destruct b eqn:?; try lia end.
Qed.

Lemma iter_S {A} n (f : A -> A) x : iter (S n) f x = f (iter n f x).
Proof. revert x. induction n as [|n IH]; intros x; [reflexivity|]. cbn [iter] in *. apply IH. Qed.

Lemma iter_fixed {A} n (f : A -> A) x : f x = x -> iter n f x = x.
Proof. intros E. induction n as [|n IH]; cbn [iter]; [reflexivity|]. rewrite E. exact IH. Qed.

Lemma iter_plus {A} n m (f : A -> A) x : iter (n + m) f x = iter m f (iter n f x).
Proof. revert x. induction n as [|n IH]; intros x; cbn [iter Nat.add]; [reflexivity|]. apply IH. Qed.

(* exhaustive check of a boolean predicate over all bit lists of length n, without
   materialising them *)
Fixpoint forall_bits (n : nat) (f : list bool -> bool) : bool :=
  match n with
  | O => f []
  | S m => forall_bits m (fun l => f (true :: l)) && forall_bits m (fun l => f (false :: l))
  end.

Lemma forall_bits_spec n : forall f, forall_bits n f = true -> forall l, length l = n -> f l = true.
Proof.
  induction n as [|n IH]; intros f Hf l Hl.
  - destruct l; [exact Hf|discriminate].
  - destruct l as [|b l]; [discriminate|]. cbn [forall_bits] in Hf.
    apply andb_true_iff in Hf. destruct Hf as [Ht Hfalse].
    injection Hl as Hl. destruct b; [apply (IH _ Ht l Hl)|apply (IH _ Hfalse l Hl)].
Qed.
