From Coq Require Import ZArith List Bool Lia.
From Centro Require Import Base.Topo.
Import ListNotations.
Open Scope Z_scope.

(* ---- 3x3 neighbourhood in table_lookup bit order: bit b is at (b/3-1, b mod 3-1) ---- *)
Definition off (b : nat) : Z * Z :=
  (Z.of_nat (b / 3) - 1, Z.of_nat (b mod 3) - 1).
Definition nb (p : px) (b : nat) : px := (fst p + fst (off b), snd p + snd (off b)).
Definition pat (X : img) (p : px) : list bool := map (fun b => X (nb p b)) (seq 0 9).

Lemma pat_nth X p b : (b < 9)%nat -> nth b (pat X p) false = X (nb p b).
Proof.
  intros H. unfold pat. do 9 (destruct b as [|b]; [reflexivity|]). lia.
Qed.
Lemma nb_center p : nb p 4 = p.
Proof. destruct p; unfold nb, off; cbn; f_equal; lia. Qed.
Lemma nb_is_center p c : (c < 9)%nat -> nb p c = p -> c = 4%nat.
Proof.
  intros H E. pose proof (f_equal fst E) as E1. pose proof (f_equal snd E) as E2.
  unfold nb in E1, E2. cbn [fst snd] in E1, E2.
  do 9 (destruct c as [|c]; [try reflexivity; cbn in E1, E2; lia|]). lia.
Qed.

(* every 8-neighbour of p is some nb p b with b <> 4 *)
Lemma adj8_is_nb p a : adj8 p a -> exists b, (b < 9)%nat /\ b <> 4%nat /\ a = nb p b.
Proof.
  destruct p as [pi pj], a as [ai aj]. unfold adj8; cbn [fst snd]. intros [Hne [Hi Hj]].
  assert (Ci : ai - pi = -1 \/ ai - pi = 0 \/ ai - pi = 1) by lia.
  assert (Cj : aj - pj = -1 \/ aj - pj = 0 \/ aj - pj = 1) by lia.
  destruct Ci as [Ci|[Ci|Ci]], Cj as [Cj|[Cj|Cj]].
  - exists 0%nat; repeat split; try lia. unfold nb, off; cbn. f_equal; lia.
  - exists 1%nat; repeat split; try lia. unfold nb, off; cbn. f_equal; lia.
  - exists 2%nat; repeat split; try lia. unfold nb, off; cbn. f_equal; lia.
  - exists 3%nat; repeat split; try lia. unfold nb, off; cbn. f_equal; lia.
  - exfalso. apply Hne. f_equal; lia.
  - exists 5%nat; repeat split; try lia. unfold nb, off; cbn. f_equal; lia.
  - exists 6%nat; repeat split; try lia. unfold nb, off; cbn. f_equal; lia.
  - exists 7%nat; repeat split; try lia. unfold nb, off; cbn. f_equal; lia.
  - exists 8%nat; repeat split; try lia. unfold nb, off; cbn. f_equal; lia.
Qed.
Lemma adj4_is_nb p a : adj4 p a -> exists b, In b [1;3;5;7]%nat /\ a = nb p b.
Proof.
  destruct p as [pi pj], a as [ai aj]. unfold adj4; cbn [fst snd]. intros H.
  assert (C : (ai - pi = -1 /\ aj = pj) \/ (ai = pi /\ aj - pj = -1) \/ (ai = pi /\ aj - pj = 1) \/ (ai - pi = 1 /\ aj = pj)) by lia.
  destruct C as [[? ?]|[[? ?]|[[? ?]|[? ?]]]].
  - exists 1%nat; split; [cbn; auto|]. unfold nb, off; cbn. f_equal; lia.
  - exists 3%nat; split; [cbn; auto|]. unfold nb, off; cbn. f_equal; lia.
  - exists 5%nat; split; [cbn; auto|]. unfold nb, off; cbn. f_equal; lia.
  - exists 7%nat; split; [cbn; auto|]. unfold nb, off; cbn. f_equal; lia.
Qed.

(* ---- boolean adjacency between neighbourhood positions ---- *)
Definition cheb (a b : nat) : Z :=
  Z.max (Z.abs (fst (off a) - fst (off b))) (Z.abs (snd (off a) - snd (off b))).
Definition manh (a b : nat) : Z :=
  Z.abs (fst (off a) - fst (off b)) + Z.abs (snd (off a) - snd (off b)).
Definition padj8 (a b : nat) : bool := (0 <? cheb a b) && (cheb a b <=? 1).
Definition padj4 (a b : nat) : bool := manh a b =? 1.

Lemma padj8_sound p a b : padj8 a b = true -> adj8 (nb p a) (nb p b).
Proof.
  unfold padj8, cheb, adj8, nb. intros H. apply andb_true_iff in H as [H1 H2].
  apply Z.ltb_lt in H1. apply Z.leb_le in H2. cbn [fst snd]. repeat split; try lia.
  intros E. pose proof (f_equal fst E) as E1. pose proof (f_equal snd E) as E2. cbn [fst snd] in E1, E2. lia.
Qed.
Lemma padj4_sound p a b : padj4 a b = true -> adj4 (nb p a) (nb p b).
Proof. unfold padj4, manh, adj4, nb. intros H. apply Z.eqb_eq in H. cbn [fst snd]. lia. Qed.

(* ---- path witnesses among positions, checked, not searched ---- *)
(* all positions on the path satisfy ok; consecutive ones adjacent; ends at target *)
Fixpoint check_path (adj : nat -> nat -> bool) (ok : nat -> bool) (cur : nat) (rest : list nat) (target : nat) : bool :=
  ok cur && match rest with
            | [] => Nat.eqb cur target
            | x :: r => adj cur x && check_path adj ok x r target
            end.

Lemma check_path_sound (R : px -> px -> Prop) (P : px -> Prop) p adj ok :
  (forall a b, adj a b = true -> R (nb p a) (nb p b)) ->
  (forall a, ok a = true -> P (nb p a)) ->
  forall rest cur target, check_path adj ok cur rest target = true -> path R P (nb p cur) (nb p target).
Proof.
  intros HR HP. induction rest as [|x r IH]; intros cur target H; cbn [check_path] in H.
  - apply andb_true_iff in H as [H1 H2]. apply Nat.eqb_eq in H2; subst. apply path_refl; auto.
  - apply andb_true_iff in H as [H1 H2]. apply andb_true_iff in H2 as [H2 H3].
    eapply path_step; [apply HP; exact H1 | apply HR; exact H2 | apply IH; exact H3].
Qed.

(* untrusted search for a witness: depth-first over the 9 positions *)
Fixpoint find_path (fuel : nat) (adj : nat -> nat -> bool) (ok : nat -> bool) (visited : list nat) (cur target : nat) : option (list nat) :=
  if Nat.eqb cur target then Some [] else
  match fuel with
  | O => None
  | S f =>
      (fix try (cands : list nat) : option (list nat) :=
         match cands with
         | [] => None
         | x :: cs =>
             if adj cur x && ok x && negb (existsb (Nat.eqb x) visited) then
               match find_path f adj ok (cur :: visited) x target with
               | Some r => Some (x :: r)
               | None => try cs
               end
             else try cs
         end) (seq 0 9)
  end.

Definition bit (bits : list bool) (b : nat) : bool := nth b bits false.
Definition fgok (bits : list bool) (b : nat) : bool := Nat.ltb b 9 && bit bits b && negb (Nat.eqb b 4).
Definition bgok (bits : list bool) (b : nat) : bool := Nat.ltb b 9 && negb (bit bits b).

Definition connected_by (adj : nat -> nat -> bool) (ok : nat -> bool) (a b : nat) : bool :=
  match find_path 9 adj ok [] a b with
  | Some r => check_path adj ok a r b
  | None => false
  end.

Definition simple_ok (bits : list bool) : bool :=
  let fgs := filter (fgok bits) (seq 0 9) in
  let bg4 := filter (bgok bits) [1;3;5;7]%nat in
  bit bits 4 &&
  negb (Nat.eqb (length fgs) 0) && negb (Nat.eqb (length bg4) 0) &&
  forallb (fun a => forallb (fun b => connected_by padj8 (fgok bits) a b) fgs) fgs &&
  forallb (fun a => forallb (fun b => connected_by padj4 (bgok bits) a b) bg4) bg4.

Lemma connected_by_sound (R : px -> px -> Prop) (P : px -> Prop) p adj ok a b :
  (forall a b, adj a b = true -> R (nb p a) (nb p b)) ->
  (forall a, ok a = true -> P (nb p a)) ->
  connected_by adj ok a b = true -> path R P (nb p a) (nb p b).
Proof.
  intros HR HP. unfold connected_by. destruct (find_path 9 adj ok [] a b); [|discriminate].
  apply check_path_sound; auto.
Qed.

Lemma fgok_iff bits b : fgok bits b = true <-> (b < 9)%nat /\ bit bits b = true /\ b <> 4%nat.
Proof. unfold fgok. rewrite !andb_true_iff, Nat.ltb_lt, negb_true_iff, Nat.eqb_neq. tauto. Qed.
Lemma bgok_iff bits b : bgok bits b = true <-> (b < 9)%nat /\ bit bits b = false.
Proof. unfold bgok. rewrite andb_true_iff, Nat.ltb_lt, negb_true_iff. tauto. Qed.

Theorem simple_ok_sound X p : simple_ok (pat X p) = true -> SimpleAt X p.
Proof.
  unfold simple_ok. set (bits := pat X p).
  intros H. repeat (apply andb_true_iff in H as [H ?]).
  rename H into Hc, H3 into Hfg, H2 into Hbg, H1 into HL1, H0 into HL3.
  assert (Bit : forall b, (b < 9)%nat -> bit bits b = X (nb p b)) by (intros; apply pat_nth; auto).
  assert (FGP : forall c, fgok bits c = true -> fg X (nb p c) /\ nb p c <> p).
  { intros c Hc'. apply fgok_iff in Hc' as [L [B N]]. split; [unfold fg; rewrite <- Bit by lia; exact B|].
    intros E. apply N. eapply nb_is_center; eauto. }
  assert (BGP : forall c, bgok bits c = true -> bg X (nb p c)).
  { intros c Hc'. apply bgok_iff in Hc' as [L B]. unfold bg; rewrite <- Bit by lia; exact B. }
  constructor.
  - unfold fg. rewrite <- (nb_center p) at 1. rewrite <- Bit by lia. exact Hc.
  - intros a b Ha Hb Hfa Hfb.
    destruct (adj8_is_nb p a Ha) as [ka [La [Na ->]]]. destruct (adj8_is_nb p b Hb) as [kb [Lb [Nb ->]]].
    assert (Ia : In ka (filter (fgok bits) (seq 0 9))).
    { apply filter_In; split; [apply in_seq; lia|]. apply fgok_iff. rewrite Bit by lia. auto. }
    assert (Ib : In kb (filter (fgok bits) (seq 0 9))).
    { apply filter_In; split; [apply in_seq; lia|]. apply fgok_iff. rewrite Bit by lia. auto. }
    rewrite forallb_forall in HL1. specialize (HL1 ka Ia). rewrite forallb_forall in HL1. specialize (HL1 kb Ib).
    eapply connected_by_sound; [intros; apply padj8_sound; eauto | exact FGP | exact HL1].
  - destruct (filter (fgok bits) (seq 0 9)) as [|k r] eqn:E; [cbn in Hfg; discriminate|].
    assert (Ik : In k (filter (fgok bits) (seq 0 9))) by (rewrite E; left; auto).
    apply filter_In in Ik as [Ik1 Ik2]. pose proof (FGP k Ik2) as [F1 F2]. apply fgok_iff in Ik2 as [L [B N]].
    exists (nb p k). split; [|exact F1].
    rewrite <- (nb_center p) at 1. apply padj8_sound.
    clear - L N. do 9 (destruct k as [|k]; [try reflexivity; try (exfalso; apply N; reflexivity)|]). lia.
  - destruct (filter (bgok bits) [1;3;5;7]%nat) as [|k r] eqn:E; [cbn in Hbg; discriminate|].
    assert (Ik : In k (filter (bgok bits) [1;3;5;7]%nat)) by (rewrite E; left; auto).
    apply filter_In in Ik as [Ik1 Ik2].
    exists (nb p k). split; [|apply BGP; exact Ik2].
    rewrite <- (nb_center p) at 1. apply padj4_sound.
    cbn in Ik1. destruct Ik1 as [<-|[<-|[<-|[<-|[]]]]]; reflexivity.
  - intros a b Ha Hb Hba Hbb.
    destruct (adj4_is_nb p a Ha) as [ka [La ->]]. destruct (adj4_is_nb p b Hb) as [kb [Lb ->]].
    assert (ka < 9)%nat by (cbn in La; lia). assert (kb < 9)%nat by (cbn in Lb; lia).
    assert (Ia : In ka (filter (bgok bits) [1;3;5;7]%nat)).
    { apply filter_In; split; auto. apply bgok_iff. rewrite Bit by lia. auto. }
    assert (Ib : In kb (filter (bgok bits) [1;3;5;7]%nat)).
    { apply filter_In; split; auto. apply bgok_iff. rewrite Bit by lia. auto. }
    rewrite forallb_forall in HL3. specialize (HL3 ka Ia). rewrite forallb_forall in HL3. specialize (HL3 kb Ib).
    eapply connected_by_sound; [intros; apply padj4_sound; eauto | exact BGP | exact HL3].
Qed.

(* ---- enumeration of all bit lists without materialising them ---- *)
Fixpoint forall_bits (n : nat) (f : list bool -> bool) : bool :=
  match n with
  | O => f []
  | S k => forall_bits k (fun l => f (true :: l)) && forall_bits k (fun l => f (false :: l))
  end.
Lemma forall_bits_spec n : forall f, forall_bits n f = true -> forall l, length l = n -> f l = true.
Proof.
  induction n as [|n IH]; intros f H l Hl.
  - destruct l; [exact H|discriminate].
  - cbn [forall_bits] in H. apply andb_true_iff in H as [H1 H2].
    destruct l as [|[|] l]; [discriminate| |]; cbn in Hl; inversion Hl.
    + apply (IH _ H1 l); auto.
    + apply (IH _ H2 l); auto.
Qed.

(* ---- sequential table-driven removal (skeletonize_loop) on function images ---- *)
Section Skel.
Variable keep : list bool -> bool.           (* the 512-entry table as a function of the 9 bits *)
Variable guard : px -> bool.                 (* which pixels the loop processes at all (row 0 quirk etc.) *)
Definition skel_step (X : img) (p : px) : img :=
  if guard p && X p && negb (keep (pat X p)) then remove X p else X.
Definition skel (order : list px) (X : img) : img := fold_left skel_step order X.

(* finite premise, discharged by vm_compute for a concrete table *)
Definition table_deletes_only_simple : bool :=
  forall_bits 9 (fun bits => implb (bit bits 4 && negb (keep bits)) (simple_ok bits)).

Theorem skeletonize_topo : table_deletes_only_simple = true ->
  forall order X, TopoEq X (skel order X).
Proof.
  intros HT. induction order as [|p order IH]; intros X; cbn [skel fold_left].
  - apply TopoEq_refl.
  - eapply TopoEq_trans; [|apply IH].
    unfold skel_step. destruct (guard p && X p && negb (keep (pat X p))) eqn:E; [|apply TopoEq_refl].
    apply andb_true_iff in E as [E1 E3]. apply andb_true_iff in E1 as [E1 E2].
    apply simple_removal_topo. apply simple_ok_sound.
    unfold table_deletes_only_simple in HT.
    pose proof (forall_bits_spec 9 (fun bits => implb (bit bits 4 && negb (keep bits)) (simple_ok bits)) HT (pat X p)) as H.
    assert (L : length (pat X p) = 9%nat) by (unfold pat; rewrite map_length, seq_length; reflexivity).
    specialize (H L). cbn beta in H.
    assert (B : bit (pat X p) 4 = true). { unfold bit. rewrite pat_nth by lia. rewrite nb_center. exact E2. }
    rewrite B, E3 in H. exact H.
Qed.
End Skel.

(* a concrete instance: keep unless (8,4)-simple -- the maximal topology-preserving table *)
Example maximal_table_ok : table_deletes_only_simple (fun bits => negb (simple_ok bits)) = true.
Proof. vm_compute. reflexivity. Qed.
Print Assumptions skeletonize_topo.
