From Coq Require Import ZArith List Bool Lia.
Open Scope Z_scope.

Definition px := (Z * Z)%type.
Definition img := px -> bool.

Definition adj8 (a b : px) : Prop :=
  a <> b /\ Z.abs (fst a - fst b) <= 1 /\ Z.abs (snd a - snd b) <= 1.
Definition adj4 (a b : px) : Prop :=
  Z.abs (fst a - fst b) + Z.abs (snd a - snd b) = 1.

Lemma adj8_sym a b : adj8 a b -> adj8 b a.
Proof. unfold adj8; intros [H1 [H2 H3]]; repeat split; [congruence|lia|lia]. Qed.
Lemma adj4_sym a b : adj4 a b -> adj4 b a.
Proof. unfold adj4; lia. Qed.
Lemma adj4_neq a b : adj4 a b -> a <> b.
Proof. unfold adj4; intros H E; subst; lia. Qed.

Inductive path (R : px -> px -> Prop) (P : px -> Prop) : px -> px -> Prop :=
| path_refl a : P a -> path R P a a
| path_step a b c : P a -> R a b -> path R P b c -> path R P a c.

Lemma path_trans R P a b c : path R P a b -> path R P b c -> path R P a c.
Proof. induction 1; intros; auto. eapply path_step; eauto. Qed.

Lemma path_mono R (P Q : px -> Prop) a b :
  (forall x, P x -> Q x) -> path R P a b -> path R Q a b.
Proof. intros HPQ; induction 1; [apply path_refl|eapply path_step]; eauto. Qed.

Lemma path_end R P a b : path R P a b -> P b.
Proof. induction 1; auto. Qed.
Lemma path_start R P a b : path R P a b -> P a.
Proof. destruct 1; auto. Qed.

Definition fg (X : img) (q : px) : Prop := X q = true.
Definition bg (X : img) (q : px) : Prop := X q = false.
Definition conn8 (X : img) := path adj8 (fg X).
Definition conn4 (X : img) := path adj4 (bg X).

Definition px_eqb (a b : px) : bool := (fst a =? fst b) && (snd a =? snd b).
Lemma px_eqb_spec a b : reflect (a = b) (px_eqb a b).
Proof.
  destruct a as [a1 a2], b as [b1 b2]; unfold px_eqb; cbn [fst snd].
  destruct (Z.eqb_spec a1 b1), (Z.eqb_spec a2 b2); cbn; constructor; congruence.
Qed.

Definition remove (X : img) (p : px) : img := fun q => if px_eqb q p then false else X q.

Lemma remove_fg X p q : fg (remove X p) q <-> fg X q /\ q <> p.
Proof. unfold fg, remove; destruct (px_eqb_spec q p); split; intros; try tauto; try discriminate; intuition congruence. Qed.
Lemma remove_bg X p q : bg (remove X p) q <-> bg X q \/ q = p.
Proof. unfold bg, remove; destruct (px_eqb_spec q p); split; intros; try tauto; intuition congruence. Qed.

(* topology-preservation relation *)
Record TopoEq (X X' : img) : Prop := {
  te_sub : forall q, fg X' q -> fg X q;
  te_fg_iff : forall a b, fg X' a -> fg X' b -> (conn8 X a b <-> conn8 X' a b);
  te_fg_surj : forall a, fg X a -> exists b, fg X' b /\ conn8 X a b;
  te_bg_iff : forall a b, bg X a -> bg X b -> (conn4 X a b <-> conn4 X' a b);
  te_bg_surj : forall a, bg X' a -> exists b, bg X b /\ conn4 X' a b }.

(* local simplicity conditions, semantic form *)
Record SimpleAt (X : img) (p : px) : Prop := {
  s_fg : fg X p;
  s_L1 : forall a b, adj8 p a -> adj8 p b -> fg X a -> fg X b ->
         path adj8 (fun q => fg X q /\ q <> p) a b;
  s_L2 : exists a, adj8 p a /\ fg X a;
  s_L3a : exists a, adj4 p a /\ bg X a;
  s_L3b : forall a b, adj4 p a -> adj4 p b -> bg X a -> bg X b -> path adj4 (bg X) a b }.

Section Removal.
Variables (X : img) (p : px).
Hypothesis S : SimpleAt X p.
Let X' := remove X p.

Lemma fg_reroute : forall a c, conn8 X a c -> c <> p ->
  (a <> p -> conn8 X' a c) /\
  (a = p -> forall a0, adj8 a0 p -> fg X a0 -> a0 <> p -> conn8 X' a0 c).
Proof.
  intros a c H; induction H as [a Ha | a b c Ha Hab Hbc IH]; intros Hc.
  - split; [intros Hap; apply path_refl; apply remove_fg; auto | intros ->; contradiction].
  - specialize (IH Hc) as [IH1 IH2]. split.
    + intros Hap. destruct (px_eqb_spec b p) as [->|Hbp].
      * apply IH2; [reflexivity|exact Hab|exact Ha|exact Hap].
      * eapply path_step; [apply remove_fg; auto | exact Hab | apply IH1; exact Hbp].
    + intros -> a0 Ha0 Hfa0 Hne.
      assert (Hbp : b <> p) by (destruct Hab as [Hn _]; congruence).
      assert (Hfb : fg X b) by (eapply path_start; exact Hbc).
      eapply path_trans; [|apply IH1; exact Hbp].
      eapply path_mono; [|apply (s_L1 _ _ S a0 b); auto using adj8_sym].
      intros x [Hx Hxp]; apply remove_fg; auto.
Qed.

Lemma bg_reroute : forall a c, conn4 X' a c -> c <> p ->
  (a <> p -> conn4 X a c) /\
  (a = p -> forall a0, adj4 a0 p -> bg X a0 -> conn4 X a0 c).
Proof.
  intros a c H; induction H as [a Ha | a b c Ha Hab Hbc IH]; intros Hc.
  - split; [intros Hap; apply path_refl; apply remove_bg in Ha; tauto | intros ->; contradiction].
  - specialize (IH Hc) as [IH1 IH2]. split.
    + intros Hap. apply remove_bg in Ha as [Ha|Ha]; [|contradiction].
      destruct (px_eqb_spec b p) as [->|Hbp].
      * apply IH2; [reflexivity|exact Hab|exact Ha].
      * eapply path_step; [exact Ha | exact Hab | apply IH1; exact Hbp].
    + intros -> a0 Ha0 Hba0.
      assert (Hbp : b <> p) by (apply adj4_neq in Hab; congruence).
      assert (Hbb : bg X b).
      { apply path_start in Hbc. apply remove_bg in Hbc as [?|?]; [auto|contradiction]. }
      eapply path_trans; [|apply IH1; exact Hbp].
      apply (s_L3b _ _ S a0 b); auto using adj4_sym.
Qed.

Theorem simple_removal_topo : TopoEq X X'.
Proof.
  pose proof (s_fg _ _ S) as Hp.
  constructor.
  - intros q Hq; apply remove_fg in Hq; tauto.
  - intros a b Ha Hb; apply remove_fg in Ha as [Ha Hap], Hb as [Hb Hbp]; split; intros H.
    + apply (proj1 (fg_reroute a b H Hbp)); exact Hap.
    + eapply path_mono; [|exact H]. intros x Hx; apply remove_fg in Hx; tauto.
  - intros a Ha. destruct (px_eqb_spec a p) as [->|Hap].
    + destruct (s_L2 _ _ S) as [d [Hd Hfd]].
      assert (d <> p) by (destruct Hd as [Hn _]; congruence).
      exists d; split; [apply remove_fg; auto|].
      eapply path_step; [exact Hp|exact Hd|apply path_refl; exact Hfd].
    + exists a; split; [apply remove_fg; auto | apply path_refl; auto].
  - intros a b Ha Hb.
    assert (Hap : a <> p) by (intros ->; unfold fg, bg in *; congruence).
    assert (Hbp : b <> p) by (intros ->; unfold fg, bg in *; congruence).
    split; intros H.
    + eapply path_mono; [|exact H]. intros x Hx; apply remove_bg; auto.
    + apply (proj1 (bg_reroute a b H Hbp)); exact Hap.
  - intros a Ha. apply remove_bg in Ha as [Ha| ->].
    + exists a; split; auto. apply path_refl; apply remove_bg; auto.
    + destruct (s_L3a _ _ S) as [d [Hd Hbd]]. exists d; split; auto.
      eapply path_step; [apply remove_bg; auto | exact Hd | apply path_refl; apply remove_bg; auto].
Qed.
End Removal.

Lemma TopoEq_refl X : TopoEq X X.
Proof. constructor; intros; try tauto; eexists; split; eauto; apply path_refl; auto. Qed.

Lemma TopoEq_trans X Y Z : TopoEq X Y -> TopoEq Y Z -> TopoEq X Z.
Proof.
  intros [s1 f1 g1 b1 h1] [s2 f2 g2 b2 h2]. constructor.
  - auto.
  - intros a b Ha Hb. rewrite (f1 a b), (f2 a b); auto; tauto.
  - intros a Ha. destruct (g1 a Ha) as [b [Hb Hab]]. destruct (g2 b Hb) as [c [Hc Hbc]].
    exists c; split; auto. eapply path_trans; [exact Hab|]. apply (f1 b c); auto.
  - intros a b Ha Hb.
    assert (Ha' : bg Y a). { unfold bg, fg in *. destruct (Y a) eqn:E; auto. apply s1 in E. congruence. }
    assert (Hb' : bg Y b). { unfold bg, fg in *. destruct (Y b) eqn:E; auto. apply s1 in E. congruence. }
    rewrite (b1 a b), (b2 a b); auto; tauto.
  - intros a Ha. destruct (h2 a Ha) as [b [Hb Hab]]. destruct (h1 b Hb) as [c [Hc Hbc]].
    exists c; split; auto. eapply path_trans; [exact Hab|].
    assert (Hc' : bg Y c). { unfold bg, fg in *. destruct (Y c) eqn:E; auto. apply s1 in E. congruence. }
    apply (b2 b c); auto.
Qed.
Print Assumptions simple_removal_topo.
Print Assumptions TopoEq_trans.
