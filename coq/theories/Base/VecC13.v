(* C13 — the NumPy label-handling idioms of cpmorphology.py as executable list functions.
   Definitions only; the theorems are in Proofs/VecC13Proofs.v.

   Arrays are lists; a label array paired with a weight array is a list of (label, weight)
   pairs in array order.  Labels are non-negative [Z]. *)
From Coq Require Import ZArith List Bool.
Import ListNotations.
Open Scope Z_scope.

(* ------------------------------------------------------------------ small helpers *)

Fixpoint zrange (start : Z) (n : nat) : list Z :=
  match n with O => [] | S k => start :: zrange (start + 1) k end.

(* np.max over a label array, -1 for the empty array (only ever used as max + 1 = length) *)
Definition maxl (l : list Z) : Z := fold_right Z.max (-1) l.

Definition zsum (l : list Z) : Z := fold_left Z.add l 0.

(* ------------------------------------------------------------------ bincount / grouped folds *)

Section Grouped.
  Context {A : Type} (zero : A) (add : A -> A -> A).

  (* a[k] += v   (in range by construction of the callers) *)
  Fixpoint upd_add (k : nat) (v : A) (a : list A) : list A :=
    match a with
    | [] => []
    | x :: r => match k with O => add x v :: r | S k' => x :: upd_add k' v r end
    end.

  (* the accumulation loop of np.bincount(labels, weights): out[label] += weight, in array order *)
  Fixpoint bincount_loop (pairs : list (Z * A)) (acc : list A) : list A :=
    match pairs with
    | [] => acc
    | p :: r => bincount_loop r (upd_add (Z.to_nat (fst p)) (snd p) acc)
    end.

  (* np.bincount(labels, weights, minlength): length max(max(labels) + 1, minlength) *)
  Definition bincount (minlength : Z) (pairs : list (Z * A)) : list A :=
    bincount_loop pairs (repeat zero (Z.to_nat (Z.max (maxl (map fst pairs) + 1) minlength))).

  (* the specification side: fold, in array order, over exactly the positions labelled l *)
  Definition group_fold (l : Z) (pairs : list (Z * A)) : A :=
    fold_left add (map snd (filter (fun p => fst p =? l) pairs)) zero.

  (* scipy.ndimage.sum(values, labels, index) — library call, modelled by its specification:
     one grouped fold per requested label (0 for a label without positions) *)
  Definition nd_fold (pairs : list (Z * A)) (idxs : list Z) : list A :=
    map (fun l => group_fold l pairs) idxs.
End Grouped.

(* scipy.ndimage.minimum / maximum(values, labels, index): 0 for a label without positions *)
Definition group_min (l : Z) (pairs : list (Z * Z)) : Z :=
  match map snd (filter (fun p => fst p =? l) pairs) with
  | [] => 0
  | v :: r => fold_left Z.min r v
  end.
Definition group_max (l : Z) (pairs : list (Z * Z)) : Z :=
  match map snd (filter (fun p => fst p =? l) pairs) with
  | [] => 0
  | v :: r => fold_left Z.max r v
  end.
Definition nd_min (pairs : list (Z * Z)) (idxs : list Z) : list Z := map (fun l => group_min l pairs) idxs.
Definition nd_max (pairs : list (Z * Z)) (idxs : list Z) : list Z := map (fun l => group_max l pairs) idxs.

(* a[idxs]: fancy-index gather; None = IndexError *)
Fixpoint gather {A} (a : list A) (idxs : list Z) : option (list A) :=
  match idxs with
  | [] => Some []
  | i :: r =>
      match (if i <? 0 then None else nth_error a (Z.to_nat i)), gather a r with
      | Some v, Some vs => Some (v :: vs)
      | _, _ => None
      end
  end.

(* ------------------------------------------------------------------ scatter / anti-index tables *)

(* a[k] = v *)
Fixpoint upd_set {A} (k : nat) (v : A) (a : list A) : list A :=
  match a with
  | [] => []
  | x :: r => match k with O => v :: r | S k' => x :: upd_set k' v r end
  end.

(* a[idxs] = vals : writes in order, the last write to a position wins *)
Fixpoint scatter {A} (kv : list (Z * A)) (acc : list A) : list A :=
  match kv with
  | [] => acc
  | p :: r => scatter r (upd_set (Z.to_nat (fst p)) (snd p) acc)
  end.

(* anti = np.zeros(n, int); anti[indexes] = np.arange(len(indexes)) *)
Definition anti_table (n : Z) (idxs : list Z) : list Z :=
  scatter (combine idxs (zrange 0 (length idxs))) (repeat 0 (Z.to_nat n)).
(* the usual size: np.max(indexes) + 1 *)
Definition anti_index (idxs : list Z) : list Z := anti_table (maxl idxs + 1) idxs.
(* include = np.zeros(n, bool); include[indexes] = True *)
Definition include_table (n : Z) (idxs : list Z) : list bool :=
  scatter (map (fun i => (i, true)) idxs) (repeat false (Z.to_nat n)).

(* ------------------------------------------------------------------ cumulative ragged offsets *)

Fixpoint cumsum_from (s : Z) (l : list Z) : list Z :=
  match l with [] => [] | c :: r => (s + c) :: cumsum_from (s + c) r end.
Definition cumsum (l : list Z) : list Z := cumsum_from 0 l.

(* point_index = zeros(n); point_index[1:] = np.cumsum(counts[:-1])
   (also first = hstack(([0], last[:-1])) with last = cumsum(counts)) *)
Definition offsets (counts : list Z) : list Z :=
  match counts with
  | [] => []
  | _ => 0 :: cumsum (removelast counts)
  end.

(* the closed form the proofs use: exclusive scan *)
Fixpoint excl_scan (s : Z) (counts : list Z) : list Z :=
  match counts with [] => [] | c :: r => s :: excl_scan (s + c) r end.

(* a[start : start + count] *)
Definition segment {A} (a : list A) (start count : Z) : list A :=
  firstn (Z.to_nat count) (skipn (Z.to_nat start) a).

(* centrosome.index.Indexes([counts]) for one axis: fwd_idx (first element per object), rev_idx
   (object number per element, by the cumsum-of-jumps trick of the source) and idx[0] (position
   inside the object). *)
Definition indexes_fwd (counts : list Z) : list Z := offsets counts.
Definition indexes_rev (counts : list Z) : list Z :=
  let n := length counts in
  let total := zsum counts in
  let fwd := offsets counts in
  let non_empty := filter (fun k => 0 <? nth (Z.to_nat k) counts 0) (zrange 0 n) in
  match non_empty with
  | [] => []
  | k0 :: rest =>
      let jumps := (nth (Z.to_nat k0) fwd 0, k0) ::
                   map (fun ab => (nth (Z.to_nat (snd ab)) fwd 0, snd ab - fst ab))
                       (combine non_empty rest) in
      cumsum (scatter jumps (repeat 0 (Z.to_nat total)))
  end.
Definition indexes_idx (counts : list Z) : list Z :=
  let rev := indexes_rev counts in
  let fwd := offsets counts in
  map (fun ek => fst ek - nth (Z.to_nat (snd ek)) fwd 0) (combine (zrange 0 (length rev)) rev).

(* ------------------------------------------------------------------ images *)

(* in-bounds read of a list-of-rows image *)
Definition get {A} (im : list (list A)) (y x : Z) : option A :=
  if (y <? 0) || (x <? 0) then None
  else match nth_error im (Z.to_nat y) with
       | Some r => nth_error r (Z.to_nat x)
       | None => None
       end.

(* labels == l *)
Definition mask (l : Z) (im : list (list Z)) : list (list bool) := map (map (Z.eqb l)) im.

(* np.argwhere / ravel order: (y, x, value) in raster order *)
Fixpoint enum_row {A} (y x : Z) (r : list A) : list (Z * Z * A) :=
  match r with [] => [] | v :: t => (y, x, v) :: enum_row y (x + 1) t end.
Fixpoint enum_rows {A} (y : Z) (im : list (list A)) : list (Z * Z * A) :=
  match im with [] => [] | r :: t => enum_row y 0 r ++ enum_rows (y + 1) t end.
Definition pixels {A} (im : list (list A)) : list (Z * Z * A) := enum_rows 0 im.

Definition p_y {A} (p : Z * Z * A) : Z := fst (fst p).
Definition p_x {A} (p : Z * Z * A) : Z := snd (fst p).
Definition p_v {A} (p : Z * Z * A) : A := snd p.

(* coordinates of the pixels of object l, raster order *)
Definition own_coords (im : list (list Z)) (l : Z) : list (Z * Z) :=
  map fst (filter (fun p => p_v p =? l) (pixels im)).
Definition true_coords (m : list (list bool)) : list (Z * Z) :=
  map fst (filter (fun p => p_v p) (pixels m)).

(* renumbering of labels *)
Definition relabel (f : Z -> Z) (im : list (list Z)) : list (list Z) := map (map f) im.

(* np.pad(im, ((t, b), (lft, r))) with zeros *)
Definition width {A} (im : list (list A)) : nat := match im with [] => O | r :: _ => length r end.
Definition pad (t b lft r : nat) (im : list (list Z)) : list (list Z) :=
  let w := (lft + width im + r)%nat in
  repeat (repeat 0 w) t ++ map (fun row => repeat 0 lft ++ row ++ repeat 0 r) im ++ repeat (repeat 0 w) b.

(* ------------------------------------------------------------------ table_idx_from_labels *)

Definition offs9 : list (Z * Z) :=
  [(-1, -1); (-1, 0); (-1, 1); (0, -1); (0, 0); (0, 1); (1, -1); (1, 0); (1, 1)].

(* mask[ilow:iend, jlow:jend] = labels[...] == labels[shifted ...]: the bit is set when the
   neighbour is inside the image and carries the same label *)
Definition same_as (im : list (list Z)) (y x : Z) (o : Z * Z) : bool :=
  match get im y x, get im (y + fst o) (x + snd o) with
  | Some a, Some b => a =? b
  | _, _ => false
  end.

Fixpoint bits_val (bs : list bool) : Z :=
  match bs with [] => 0 | b :: r => (if b then 1 else 0) + 2 * bits_val r end.

Definition table_idx_at (im : list (list Z)) (y x : Z) : Z :=
  bits_val (map (same_as im y x) offs9).

(* the same pattern computed from the object's own mask only *)
Definition same_as_b (m : list (list bool)) (y x : Z) (o : Z * Z) : bool :=
  match get m (y + fst o) (x + snd o) with
  | Some b => b
  | None => false
  end.
Definition table_idx_b (m : list (list bool)) (y x : Z) : Z :=
  bits_val (map (same_as_b m y x) offs9).

Definition table_idx_image (im : list (list Z)) : list (list Z) :=
  map (fun yr => map (fun p => table_idx_at im (p_y p) (p_x p)) (enum_row (fst yr) 0 (snd yr)))
      (combine (zrange 0 (length im)) im).
