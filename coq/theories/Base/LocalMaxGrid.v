(* C17 — shared list/grid vocabulary: Z-indexed ranges, bounds-checked flat reads, total 2-D
   reads with a border value, tabulated grids, and the ravel lemma
   [concat g] at [w*y + x] = [g] at [(y, x)]. *)
From Coq Require Import ZArith List Bool Lia ZifyBool.
Import ListNotations.
Open Scope Z_scope.

Definition zrange (n : nat) : list Z := map Z.of_nat (seq 0 n).
Definition zlen {A} (l : list A) : Z := Z.of_nat (length l).

(* bounds-checked flat read: [None] outside [0, len).  Stricter than NumPy, which wraps indexes
   in [-len, 0); a model that never produces [None] therefore never relies on wrapping. *)
Definition zget {A} (l : list A) (k : Z) : option A :=
  if k <? 0 then None else nth_error l (Z.to_nat k).

(* total 2-D read with border value [d] *)
Definition get2 {A} (d : A) (g : list (list A)) (y x : Z) : A :=
  if (0 <=? y) && (0 <=? x) then nth (Z.to_nat x) (nth (Z.to_nat y) g []) d else d.

(* the h x w array whose cell (y, x) is [f y x] *)
Definition tab {A} (h w : nat) (f : Z -> Z -> A) : list (list A) :=
  map (fun y => map (f y) (zrange w)) (zrange h).

Definition wf {A} (h w : nat) (g : list (list A)) : Prop :=
  length g = h /\ Forall (fun r => length r = w) g.
Definition wfb {A} (h w : nat) (g : list (list A)) : bool :=
  (length g =? h)%nat && forallb (fun r => (length r =? w)%nat) g.

Lemma wfb_wf {A} h w (g : list (list A)) : wfb h w g = true <-> wf h w g.
Proof.
  unfold wfb, wf. rewrite andb_true_iff, Nat.eqb_eq, forallb_forall, Forall_forall.
  split; intros [H1 H2]; split; auto; intros r Hr; specialize (H2 r Hr); now apply Nat.eqb_eq.
Qed.

Lemma zrange_length n : length (zrange n) = n.
Proof. unfold zrange. now rewrite map_length, seq_length. Qed.

Lemma nth_zrange n k d : (k < n)%nat -> nth k (zrange n) d = Z.of_nat k.
Proof.
  intros Hk. unfold zrange.
  rewrite nth_indep with (d' := Z.of_nat 0) by (rewrite map_length, seq_length; lia).
  rewrite map_nth, seq_nth by lia. reflexivity.
Qed.

Lemma In_zrange n z : In z (zrange n) <-> 0 <= z < Z.of_nat n.
Proof.
  unfold zrange. rewrite in_map_iff. split.
  - intros (k & <- & Hk). apply in_seq in Hk. lia.
  - intros Hz. exists (Z.to_nat z). split; [lia|]. apply in_seq. lia.
Qed.

Lemma nth_map_zrange {A} (g : Z -> A) n k d : (k < n)%nat -> nth k (map g (zrange n)) d = g (Z.of_nat k).
Proof.
  intros Hk. rewrite nth_indep with (d' := g 0) by (rewrite map_length, zrange_length; lia).
  rewrite map_nth. now rewrite nth_zrange.
Qed.

Lemma get2_tab {A} (d : A) h w f y x :
  0 <= y < Z.of_nat h -> 0 <= x < Z.of_nat w -> get2 d (tab h w f) y x = f y x.
Proof.
  intros Hy Hx. unfold get2, tab.
  replace ((0 <=? y) && (0 <=? x)) with true by lia.
  rewrite nth_map_zrange by lia. rewrite nth_map_zrange by lia.
  now rewrite !Z2Nat.id by lia.
Qed.

Lemma tab_wf {A} h w (f : Z -> Z -> A) : wf h w (tab h w f).
Proof.
  unfold wf, tab. split.
  - now rewrite map_length, zrange_length.
  - apply Forall_forall. intros r Hr. apply in_map_iff in Hr. destruct Hr as (y & <- & _).
    now rewrite map_length, zrange_length.
Qed.

Lemma tab_ext {A} h w (f g : Z -> Z -> A) :
  (forall y x, 0 <= y < Z.of_nat h -> 0 <= x < Z.of_nat w -> f y x = g y x) -> tab h w f = tab h w g.
Proof.
  intros E. unfold tab. apply map_ext_in. intros y Hy. apply map_ext_in. intros x Hx.
  apply E; now apply In_zrange.
Qed.

Lemma wf_row {A} h w (g : list (list A)) y : wf h w g -> (y < h)%nat -> length (nth y g []) = w.
Proof.
  intros [Hl Hf] Hy. rewrite Forall_forall in Hf. apply Hf. apply nth_In. lia.
Qed.

Lemma get2_out {A} (d : A) h w g y x :
  wf h w g -> ~ (0 <= y < Z.of_nat h /\ 0 <= x < Z.of_nat w) -> get2 d g y x = d.
Proof.
  intros Hw Hn. unfold get2. destruct ((0 <=? y) && (0 <=? x)) eqn:E; [|reflexivity].
  destruct (Nat.lt_ge_cases (Z.to_nat y) h) as [Hy|Hy].
  - apply nth_overflow. rewrite (wf_row h w g _ Hw Hy). lia.
  - destruct Hw as [Hl _]. rewrite (nth_overflow g) by lia. now destruct (Z.to_nat x).
Qed.

(* every well-formed grid is the table of its own reads *)
Lemma wf_tab {A} (d : A) h w g : wf h w g -> g = tab h w (get2 d g).
Proof.
  intros Hw. pose proof Hw as [Hl Hf]. unfold tab.
  apply nth_ext with (d := []) (d' := []).
  - now rewrite map_length, zrange_length.
  - intros y Hy. rewrite nth_map_zrange by lia.
    apply nth_ext with (d := d) (d' := d).
    + rewrite map_length, zrange_length. apply (wf_row h w); auto; lia.
    + intros x Hx. rewrite (wf_row h w g y Hw) in Hx by lia. rewrite nth_map_zrange by lia.
      unfold get2. replace ((0 <=? Z.of_nat y) && (0 <=? Z.of_nat x)) with true by lia.
      now rewrite !Nat2Z.id.
Qed.

Lemma concat_nth_error {A} (w : nat) (g : list (list A)) :
  Forall (fun r => length r = w) g ->
  forall y x, (y < length g)%nat -> (x < w)%nat ->
  nth_error (concat g) (y * w + x) = nth_error (nth y g []) x.
Proof.
  induction 1 as [|r g Hr Hg IH]; intros y x Hy Hx; cbn [length] in Hy; [lia|].
  cbn [concat]. destruct y as [|y].
  - change (0 * w + x)%nat with x. cbn [nth]. rewrite nth_error_app1 by lia. reflexivity.
  - cbn [nth]. rewrite nth_error_app2 by (rewrite Hr; nia). rewrite Hr.
    replace (S y * w + x - w)%nat with (y * w + x)%nat by nia. apply IH; lia.
Qed.

Lemma concat_length_wf {A} h w (g : list (list A)) : wf h w g -> length (concat g) = (h * w)%nat.
Proof.
  intros [Hl Hf]. subst h. induction Hf as [|r g Hr Hg IH]; [reflexivity|].
  cbn [concat length]. rewrite app_length, IH, Hr. lia.
Qed.

(* the ravel lemma *)
Lemma zget_concat {A} (d : A) h w g y x k :
  wf h w g -> 0 <= y < Z.of_nat h -> 0 <= x < Z.of_nat w -> k = Z.of_nat w * y + x ->
  zget (concat g) k = Some (get2 d g y x).
Proof.
  intros Hw Hy Hx ->. pose proof Hw as [Hl Hf]. unfold zget, get2.
  replace (Z.of_nat w * y + x <? 0) with false by nia.
  replace ((0 <=? y) && (0 <=? x)) with true by lia.
  replace (Z.to_nat (Z.of_nat w * y + x)) with (Z.to_nat y * w + Z.to_nat x)%nat.
  2:{ rewrite Z2Nat.inj_add, Z2Nat.inj_mul, Nat2Z.id by nia. lia. }
  rewrite (concat_nth_error w g Hf) by lia.
  apply nth_error_nth'. rewrite (wf_row h w g _ Hw) by lia. lia.
Qed.

Lemma zget_Some_range {A} (l : list A) k : zget l k <> None <-> 0 <= k < zlen l.
Proof.
  unfold zget, zlen. destruct (k <? 0) eqn:E.
  - split; [congruence|lia].
  - rewrite nth_error_Some. lia.
Qed.

Lemma nth_concat {A} (d : A) h w g y x :
  wf h w g -> 0 <= y < Z.of_nat h -> 0 <= x < Z.of_nat w ->
  nth (Z.to_nat (Z.of_nat w * y + x)) (concat g) d = get2 d g y x.
Proof.
  intros Hw Hy Hx. pose proof (zget_concat d h w g y x _ Hw Hy Hx eq_refl) as E.
  unfold zget in E. replace (Z.of_nat w * y + x <? 0) with false in E by nia.
  now apply nth_error_nth.
Qed.
