(* C11 — numbers of the threshold models.  Values are rationals (every binary64 is one, exactly);
   Python's max/min and NumPy's masked stores are written with the comparison the code makes, so
   each of them COPIES one of its arguments; the only rounding operation of get_threshold's own
   text is the product, modelled by [fmul] = exact product rounded to nearest-even binary64
   (gradual underflow included; overflow cannot occur for thresholds of images in [0,1]).
   Definitions only, plus the wire encoding of rationals as (numerator denominator). *)
From Coq Require Import ZArith QArith List Bool.
From Centro Require Import Base.Sx.
Import ListNotations.

Open Scope Q_scope.

(* Python: max(a, b) = b if b > a else a;  min(a, b) = b if b < a else a *)
Definition qmax (a b : Q) : Q := if Qlt_le_dec a b then b else a.
Definition qmin (a b : Q) : Q := if Qlt_le_dec b a then b else a.
(* NumPy: a[a < r] = r   and   a[a > r] = r,  at one element t *)
Definition clamp_lo (r t : Q) : Q := if Qlt_le_dec t r then r else t.
Definition clamp_hi (r t : Q) : Q := if Qlt_le_dec r t then r else t.

Close Scope Q_scope.
Open Scope Z_scope.

(* is n/d >= 2^k ?  (n, d > 0) *)
Definition ge_pow2 (n d k : Z) : bool :=
  if 0 <=? k then d * 2 ^ k <=? n else d <=? n * 2 ^ (- k).
(* floor (log2 (n/d)) for n, d > 0 *)
Definition flog2 (n d : Z) : Z :=
  let k := Z.log2 n - Z.log2 d in
  if ge_pow2 n d k then k else k - 1.
(* nearest integer to n/d (d > 0, n >= 0), ties to even *)
Definition round_half_even (n d : Z) : Z :=
  let q := n / d in
  let r := n mod d in
  match 2 * r ?= d with
  | Lt => q
  | Gt => q + 1
  | Eq => if Z.even q then q else q + 1
  end.
(* nearest value of a binary format with [prec] significant bits and least quantum 2^emin to n/d
   (n, d > 0), ties to even: quantum 2^e with e = max (floor(log2 x) - (prec-1)) emin *)
Definition round_pos (prec emin : Z) (n d : Z) : Q :=
  let e := Z.max (flog2 n d - (prec - 1)) emin in
  if 0 <=? e
  then Qmake (round_half_even n (d * 2 ^ e) * 2 ^ e) 1
  else Qmake (round_half_even (n * 2 ^ (- e)) d) (Z.to_pos (2 ^ (- e))).
Definition round_bin (prec emin : Z) (q : Q) : Q :=
  match Qnum q with
  | 0 => Qmake 0 1
  | Zpos p => round_pos prec emin (Zpos p) (Zpos (Qden q))
  | Zneg p => Qopp (round_pos prec emin (Zpos p) (Zpos (Qden q)))
  end.
Definition round64 : Q -> Q := round_bin 53 (-1074).     (* binary64 *)
Definition round32 : Q -> Q := round_bin 24 (-149).      (* binary32 *)
(* binary64 product of two binary64 values; binary32 product of two binary32 values *)
Definition fmul (a b : Q) : Q := round64 (Qmult a b).
Definition fmul32 (a b : Q) : Q := round32 (Qmult a b).

(* wire: a rational is (num den), den > 0 *)
Definition as_Q (x : sx) : Q := Qmake (as_Z (arg 0 x)) (Z.to_pos (as_Z (arg 1 x))).
Definition of_Q (q : Q) : sx := L [I (Qnum q); I (Zpos (Qden q))].
Definition as_Qs (x : sx) : list Q := map as_Q (as_list x).
Definition of_Qs (l : list Q) : sx := L (map of_Q l).
(* optional rational: () = None, ((n d)) = Some *)
Definition as_optQ (x : sx) : option Q :=
  match as_list x with [] => None | y :: _ => Some (as_Q y) end.

Definition entry_fmul (x : sx) : sx := of_Q (fmul (as_Q (arg 0 x)) (as_Q (arg 1 x))).
(* arg: (a b) -> (round32 a, binary32 product of round32 a and round32 b) *)
Definition entry_fmul32 (x : sx) : sx :=
  L [of_Q (round32 (as_Q (arg 0 x))); of_Q (fmul32 (round32 (as_Q (arg 0 x))) (round32 (as_Q (arg 1 x))))].
