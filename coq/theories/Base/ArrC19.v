(* C19 — bounds-checked arrays.  An array is a list; [rd]/[wr] return [None] for any index
   outside [0, length): there is NO negative wrap, so a model that relied on NumPy's
   "index -1 = last element" would return [None].  A kernel model is written in the option
   monad: [None] = some raw access left its buffer.  Definitions and the basic lemmas used by
   every C19 safety proof. *)
From Coq Require Import ZArith List Bool Lia ZifyBool.
Import ListNotations.
Open Scope Z_scope.

Definition zlen {A} (l : list A) : Z := Z.of_nat (length l).
Definition inb (i n : Z) : bool := (0 <=? i) && (i <? n).

Definition rd {A} (a : list A) (i : Z) : option A :=
  if inb i (zlen a) then nth_error a (Z.to_nat i) else None.

Fixpoint upd {A} (a : list A) (n : nat) (v : A) : list A :=
  match a, n with
  | [], _ => []
  | _ :: t, O => v :: t
  | h :: t, S k => h :: upd t k v
  end.

Definition wr {A} (a : list A) (i : Z) (v : A) : option (list A) :=
  if inb i (zlen a) then Some (upd a (Z.to_nat i) v) else None.

Definition bind {A B} (o : option A) (f : A -> option B) : option B :=
  match o with Some a => f a | None => None end.
Notation "'do' x <- e ; k" := (bind e (fun x => k))
  (at level 200, x name, e at level 100, k at level 200).

Fixpoint foldM {S X} (f : S -> X -> option S) (l : list X) (s : S) : option S :=
  match l with
  | [] => Some s
  | x :: t => match f s x with Some s' => foldM f t s' | None => None end
  end.

Fixpoint zseq (start : Z) (n : nat) : list Z :=
  match n with O => [] | S k => start :: zseq (start + 1) k end.
(* the integers lo, lo+1, .., hi-1 *)
Definition zrange (lo hi : Z) : list Z := zseq lo (Z.to_nat (hi - lo)).

(* 2-D view of a flat C-contiguous H x W buffer: each coordinate is checked against its own
   extent (stricter than "the flat offset is inside the buffer", hence sufficient) *)
Definition rd2 {A} (a : list A) (H W i j : Z) : option A :=
  if inb i H && inb j W then rd a (i * W + j) else None.
Definition wr2 {A} (a : list A) (H W i j : Z) (v : A) : option (list A) :=
  if inb i H && inb j W then wr a (i * W + j) v else None.

(* ------------------------------------------------------------------ lemmas *)
Lemma zlen_nonneg : forall A (l : list A), 0 <= zlen l.
Proof. intros. unfold zlen. lia. Qed.

Lemma inb_true : forall i n, inb i n = true <-> 0 <= i < n.
Proof. intros. unfold inb. lia. Qed.

Lemma rd_ok : forall A (a : list A) i, 0 <= i < zlen a -> exists v, rd a i = Some v.
Proof.
  intros A a i Hi. unfold rd. replace (inb i (zlen a)) with true by (symmetry; apply inb_true; lia).
  destruct (nth_error a (Z.to_nat i)) eqn:E; [eauto|].
  apply nth_error_None in E. unfold zlen in Hi. lia.
Qed.

Lemma rd_some : forall A (a : list A) i v, rd a i = Some v -> 0 <= i < zlen a /\ In v a.
Proof.
  intros A a i v H. unfold rd in H. destruct (inb i (zlen a)) eqn:E; [|discriminate].
  apply inb_true in E. split; [lia|]. eapply nth_error_In; eauto.
Qed.

Lemma upd_length : forall A (a : list A) n v, length (upd a n v) = length a.
Proof. induction a; destruct n; simpl; intros; auto. Qed.

Lemma zlen_upd : forall A (a : list A) n v, zlen (upd a n v) = zlen a.
Proof. intros. unfold zlen. now rewrite upd_length. Qed.

Lemma wr_ok : forall A (a : list A) i v, 0 <= i < zlen a ->
  exists a', wr a i v = Some a' /\ zlen a' = zlen a.
Proof.
  intros A a i v Hi. unfold wr. replace (inb i (zlen a)) with true by (symmetry; apply inb_true; lia).
  eexists; split; [reflexivity|]. apply zlen_upd.
Qed.

Lemma wr_some : forall A (a : list A) i v a', wr a i v = Some a' ->
  0 <= i < zlen a /\ a' = upd a (Z.to_nat i) v /\ zlen a' = zlen a.
Proof.
  intros A a i v a' H. unfold wr in H. destruct (inb i (zlen a)) eqn:E; [|discriminate].
  apply inb_true in E. inversion H; subst. repeat split; try lia. apply zlen_upd.
Qed.

Lemma nth_error_upd_same : forall A (a : list A) n v, (n < length a)%nat ->
  nth_error (upd a n v) n = Some v.
Proof. induction a; destruct n; simpl; intros; try lia; auto. apply IHa. lia. Qed.

Lemma nth_error_upd_other : forall A (a : list A) n m v, n <> m ->
  nth_error (upd a n v) m = nth_error a m.
Proof.
  induction a; destruct n; destruct m; simpl; intros; auto; try congruence.
Qed.

Lemma rd_upd_same : forall A (a : list A) i v, 0 <= i < zlen a -> rd (upd a (Z.to_nat i) v) i = Some v.
Proof.
  intros. unfold rd. rewrite zlen_upd.
  replace (inb i (zlen a)) with true by (symmetry; apply inb_true; lia).
  apply nth_error_upd_same. unfold zlen in *. lia.
Qed.

Lemma rd_upd_other : forall A (a : list A) i j v, 0 <= i -> 0 <= j -> i <> j ->
  rd (upd a (Z.to_nat i) v) j = rd a j.
Proof.
  intros. unfold rd. rewrite zlen_upd. destruct (inb j (zlen a)); [|reflexivity].
  apply nth_error_upd_other. lia.
Qed.

Lemma In_upd : forall A (a : list A) n v x, In x (upd a n v) -> x = v \/ In x a.
Proof.
  induction a; destruct n; simpl; intros; auto.
  - destruct H; auto.
  - destruct H; auto. apply IHa in H. tauto.
Qed.

Lemma In_zseq : forall n s x, In x (zseq s n) <-> s <= x < s + Z.of_nat n.
Proof.
  induction n; simpl; intros.
  - lia.
  - rewrite IHn. lia.
Qed.

Lemma In_zrange : forall lo hi x, In x (zrange lo hi) <-> lo <= x < hi.
Proof. intros. unfold zrange. rewrite In_zseq. lia. Qed.

Lemma rd2_ok : forall A (a : list A) H W i j, zlen a = H * W -> 0 <= i < H -> 0 <= j < W ->
  exists v, rd2 a H W i j = Some v.
Proof.
  intros A a H W i j Hl Hi Hj. unfold rd2.
  replace (inb i H) with true by (symmetry; apply inb_true; lia).
  replace (inb j W) with true by (symmetry; apply inb_true; lia).
  cbn [andb]. apply rd_ok. nia.
Qed.

Lemma wr2_ok : forall A (a : list A) H W i j v, zlen a = H * W -> 0 <= i < H -> 0 <= j < W ->
  exists a', wr2 a H W i j v = Some a' /\ zlen a' = zlen a.
Proof.
  intros A a H W i j v Hl Hi Hj. unfold wr2.
  replace (inb i H) with true by (symmetry; apply inb_true; lia).
  replace (inb j W) with true by (symmetry; apply inb_true; lia).
  cbn [andb]. apply wr_ok. nia.
Qed.

Lemma wr2_some : forall A (a : list A) H W i j v a', wr2 a H W i j v = Some a' ->
  0 <= i < H /\ 0 <= j < W /\ zlen a' = zlen a.
Proof.
  intros A a H W i j v a' E. unfold wr2 in E.
  destruct (inb i H) eqn:E1; destruct (inb j W) eqn:E2; cbn [andb] in E; try discriminate.
  apply inb_true in E1. apply inb_true in E2. apply wr_some in E. lia.
Qed.

(* the workhorse: a fold whose every step succeeds under an invariant never fails *)
Lemma foldM_inv : forall S X (P : S -> Prop) (Q : X -> Prop) (f : S -> X -> option S) l s,
  P s -> Forall Q l ->
  (forall s x, P s -> Q x -> exists s', f s x = Some s' /\ P s') ->
  exists s', foldM f l s = Some s' /\ P s'.
Proof.
  intros S X P Q f l. induction l as [|x t IH]; intros s Hs Hl Hf.
  - exists s. split; [reflexivity|assumption].
  - inversion Hl; subst. destruct (Hf s x Hs H1) as [s' [E Hs']]. cbn [foldM]. rewrite E.
    apply IH; assumption.
Qed.

Lemma forallb_In : forall A (f : A -> bool) l x, forallb f l = true -> In x l -> f x = true.
Proof. intros A f l x H Hin. rewrite forallb_forall in H. auto. Qed.
