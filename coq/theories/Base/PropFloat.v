(* C03: exact conversion between IEEE-754 binary64 bit patterns (as Z, 0 <= b < 2^64) and the
   kernel's primitive floats.  Only PrimFloat / Uint63 / SpecFloat / FloatOps are loaded (not the
   [Floats] umbrella, hence not FloatAxioms).  [bits_of_float] goes through [Prim2SF]
   (frshiftexp / normfr_mantissa), [float_of_bits] through [SF2Prim] (of_uint63 / ldshiftexp);
   both are validated against struct.pack on every run (harness/props/c03.py, entry_bits). *)
From Coq Require Import ZArith List Bool.
From Coq Require Uint63 PrimFloat SpecFloat FloatOps.
Import ListNotations.
Open Scope Z_scope.

Notation float := PrimFloat.float.

Definition two52 : Z := 4503599627370496.
Definition two63 : Z := 9223372036854775808.
Definition two32 : Z := 4294967296.
Definition two31 : Z := 2147483648.
Definition bits_inf : Z := 9218868437227405312.      (* 0x7FF0000000000000 *)
Definition bits_nan : Z := 9221120237041090560.      (* 0x7FF8000000000000 *)
Definition bits_neg1 : Z := 13830554455654793216.    (* 0xBFF0000000000000 = -1.0 *)

Definition float_of_bits (b : Z) : float :=
  let s := b / two63 in
  let e := (b / two52) mod 2048 in
  let m := b mod two52 in
  let mag :=
    if e =? 0 then
      (if m =? 0 then PrimFloat.zero
       else FloatOps.SF2Prim (SpecFloat.S754_finite false (Z.to_pos m) (-1074)))
    else if e =? 2047 then (if m =? 0 then PrimFloat.infinity else PrimFloat.nan)
    else FloatOps.SF2Prim (SpecFloat.S754_finite false (Z.to_pos (m + two52)) (e - 1075)) in
  if s =? 1 then PrimFloat.opp mag else mag.

Definition bits_of_float (f : float) : Z :=
  let sg (s : bool) := if s then two63 else 0 in
  match FloatOps.Prim2SF f with
  | SpecFloat.S754_nan => bits_nan
  | SpecFloat.S754_zero s => sg s
  | SpecFloat.S754_infinity s => sg s + bits_inf
  | SpecFloat.S754_finite s m e =>
      sg s + (if Zpos m <? two52 then Zpos m else (e + 1075) * two52 + (Zpos m - two52))
  end.

(* binary64 operations on bit patterns *)
Definition badd (a b : Z) : Z := bits_of_float (PrimFloat.add (float_of_bits a) (float_of_bits b)).
Definition bsub (a b : Z) : Z := bits_of_float (PrimFloat.sub (float_of_bits a) (float_of_bits b)).
Definition bmul (a b : Z) : Z := bits_of_float (PrimFloat.mul (float_of_bits a) (float_of_bits b)).
Definition bsqrt (a : Z) : Z := bits_of_float (PrimFloat.sqrt (float_of_bits a)).
Definition bltb (a b : Z) : bool := PrimFloat.ltb (float_of_bits a) (float_of_bits b).

(* small non-negative integer -> float (exact below 2^53) *)
Definition float_of_Z (k : Z) : float := PrimFloat.of_uint63 (Uint63.of_Z k).
