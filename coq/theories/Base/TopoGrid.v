From Coq Require Import ZArith List Bool Lia Sorted.
From Centro Require Import Base.Topo Base.Skel Base.TopoPar.
Import ListNotations.
Open Scope Z_scope.

(* ---- finite grids and their function images ---- *)
Definition grid := list (list bool).
Definition img_of (g : grid) : img :=
  fun p => if (fst p <? 0) || (snd p <? 0) then false
           else nth (Z.to_nat (snd p)) (nth (Z.to_nat (fst p)) g []) false.
Definition tabulate (H W : nat) (f : px -> bool) : grid :=
  map (fun i => map (fun j => f (Z.of_nat i, Z.of_nat j)) (seq 0 W)) (seq 0 H).

Definition inframe (H W : nat) (p : px) : Prop := 0 <= fst p < Z.of_nat H /\ 0 <= snd p < Z.of_nat W.

Lemma img_of_tabulate H W f p :
  img_of (tabulate H W f) p = if (0 <=? fst p) && (fst p <? Z.of_nat H) && (0 <=? snd p) && (snd p <? Z.of_nat W) then f p else false.
Proof.
  destruct p as [i j]. unfold img_of, tabulate. cbn [fst snd].
  destruct (Z.ltb_spec i 0); cbn [orb].
  { replace (0 <=? i) with false by (symmetry; apply Z.leb_gt; lia). reflexivity. }
  destruct (Z.ltb_spec j 0); cbn [orb].
  { replace (0 <=? j) with false by (symmetry; apply Z.leb_gt; lia). rewrite andb_false_r. reflexivity. }
  replace (0 <=? i) with true by (symmetry; apply Z.leb_le; lia).
  replace (0 <=? j) with true by (symmetry; apply Z.leb_le; lia). cbn [andb]. rewrite andb_true_r.
  destruct (Z.ltb_spec i (Z.of_nat H)); cbn [andb].
  - set (ni := Z.to_nat i). assert (Hi : (ni < H)%nat) by lia.
    rewrite (nth_indep _ [] (map (fun j0 => f (Z.of_nat 0, Z.of_nat j0)) (seq 0 W))) by (rewrite map_length, seq_length; exact Hi).
    rewrite (map_nth (fun i0 => map (fun j0 => f (Z.of_nat i0, Z.of_nat j0)) (seq 0 W))). rewrite seq_nth by exact Hi. cbn [Nat.add].
    destruct (Z.ltb_spec j (Z.of_nat W)).
    + set (nj := Z.to_nat j). assert (Hj : (nj < W)%nat) by lia.
      rewrite (nth_indep _ false (f (Z.of_nat ni, Z.of_nat 0))) by (rewrite map_length, seq_length; exact Hj).
      rewrite (map_nth (fun j0 => f (Z.of_nat ni, Z.of_nat j0))). rewrite seq_nth by exact Hj. cbn [Nat.add].
      unfold ni, nj. rewrite !Z2Nat.id by lia. reflexivity.
    + rewrite nth_overflow; [reflexivity|]. rewrite map_length, seq_length. lia.
  - rewrite (nth_overflow (map _ (seq 0 H))) by (rewrite map_length, seq_length; lia).
    destruct (Z.to_nat j); reflexivity.
Qed.

(* ---- raster enumeration of the frame is strongly sorted and complete ---- *)
Definition raster (H W : nat) : list px :=
  flat_map (fun i => map (fun j => (Z.of_nat i, Z.of_nat j)) (seq 0 W)) (seq 0 H).

Lemma SS_app {A} (R : A -> A -> Prop) a b :
  StronglySorted R a -> StronglySorted R b -> (forall x y, In x a -> In y b -> R x y) -> StronglySorted R (a ++ b).
Proof.
  induction a as [|x a IH]; intros Ha Hb Hab; cbn [app]; auto.
  inversion Ha; subst. constructor.
  - apply IH; auto. intros; apply Hab; auto. right; auto.
  - apply Forall_app; split; auto. apply Forall_forall. intros y Hy. apply Hab; auto. left; auto.
Qed.
Lemma SS_map_seq {A} (R : A -> A -> Prop) (f : nat -> A) s n :
  (forall a b, (a < b)%nat -> R (f a) (f b)) -> StronglySorted R (map f (seq s n)).
Proof.
  intros HR. revert s; induction n as [|n IH]; intros s; cbn [seq map]; constructor; auto.
  apply Forall_forall. intros y Hy. apply in_map_iff in Hy as [b [<- Hb]]. apply in_seq in Hb. apply HR; lia.
Qed.
Lemma raster_sorted_from s H W :
  StronglySorted ltr (flat_map (fun i => map (fun j => (Z.of_nat i, Z.of_nat j)) (seq 0 W)) (seq s H)).
Proof.
  revert s; induction H as [|H IH]; intros s; cbn [seq flat_map]; [constructor|].
  apply SS_app; [|apply IH|].
  - apply SS_map_seq. intros a b Hab. unfold ltr; cbn [fst snd]. right; lia.
  - intros x y Hx Hy. apply in_map_iff in Hx as [j [<- Hj]].
    apply in_flat_map in Hy as [i [Hi Hy]]. apply in_map_iff in Hy as [j' [<- Hj']].
    apply in_seq in Hi. unfold ltr; cbn [fst snd]. left; lia.
Qed.
Lemma raster_sorted H W : StronglySorted ltr (raster H W).
Proof. apply raster_sorted_from. Qed.
Lemma raster_complete H W p : inframe H W p -> In p (raster H W).
Proof.
  intros [[Hi1 Hi2] [Hj1 Hj2]]. unfold raster. apply in_flat_map. exists (Z.to_nat (fst p)). split; [apply in_seq; lia|].
  apply in_map_iff. exists (Z.to_nat (snd p)). split; [|apply in_seq; lia].
  destruct p; cbn [fst snd] in *. rewrite !Z2Nat.id by lia. reflexivity.
Qed.

Lemma img_of_frame g H W p : length g = H -> (forall r, In r g -> length r = W) -> img_of g p = true -> inframe H W p.
Proof.
  intros LH LW. unfold img_of, inframe. destruct p as [i j]; cbn [fst snd].
  destruct (Z.ltb_spec i 0); cbn [orb]; [discriminate|]. destruct (Z.ltb_spec j 0); cbn [orb]; [discriminate|].
  intros E.
  destruct (Nat.lt_ge_cases (Z.to_nat i) H) as [Li|Li].
  - assert (Hr : In (nth (Z.to_nat i) g []) g) by (apply nth_In; lia). specialize (LW _ Hr).
    destruct (Nat.lt_ge_cases (Z.to_nat j) W) as [Lj|Lj]; [lia|].
    rewrite nth_overflow in E by lia. discriminate.
  - rewrite (nth_overflow g) in E by lia. destruct (Z.to_nat j); discriminate.
Qed.

(* ---- executable synchronous pass on grids and its topology theorem ---- *)
Section GridPass.
Variable keep : list bool -> bool.
Hypothesis WOK : forall w, length w = 20%nat -> implb (deleted_gen keep (getw w) 0 0) (simple_ok (cur_gen keep (getw w))) = true.

Definition pass_grid (H W : nat) (g : grid) : grid := tabulate H W (par_step keep (img_of g)).

Definition wf (H W : nat) (g : grid) : Prop := length g = H /\ forall r, In r g -> length r = W.

Lemma pass_grid_img H W g : wf H W g -> forall p, img_of (pass_grid H W g) p = par_step keep (img_of g) p.
Proof.
  intros [LH LW] p. unfold pass_grid. rewrite img_of_tabulate.
  destruct ((0 <=? fst p) && (fst p <? Z.of_nat H) && (0 <=? snd p) && (snd p <? Z.of_nat W)) eqn:E; [reflexivity|].
  unfold par_step. destruct (img_of g p) eqn:V; [|reflexivity].
  apply (img_of_frame g H W p LH LW) in V. destruct V as [[? ?] [? ?]].
  exfalso. rewrite !andb_false_iff in E. rewrite !Z.leb_gt, !Z.ltb_ge in E. lia.
Qed.

Theorem pass_grid_topo H W g : wf H W g -> TopoEq (img_of g) (img_of (pass_grid H W g)).
Proof.
  intros Hwf. apply TopoEq_ext with (Y := par_step keep (img_of g)).
  - intros q. symmetry. apply pass_grid_img; auto.
  - apply (parallel_pass_topo keep WOK (img_of g) (raster H W)); [apply raster_sorted|].
    intros q Dq. apply raster_complete. destruct Hwf as [LH LW]. apply (img_of_frame g H W q LH LW).
    unfold deleted in Dq. apply andb_true_iff in Dq as [Dq _]. exact Dq.
Qed.

Lemma pass_grid_wf H W g : wf H W (pass_grid H W g).
Proof.
  unfold wf, pass_grid, tabulate. split; [rewrite map_length, seq_length; reflexivity|].
  intros r Hr. apply in_map_iff in Hr as [i [<- _]]. rewrite map_length, seq_length. reflexivity.
Qed.
End GridPass.

(* iterating any sequence of admissible passes (thin: tables 0,1,0,1,...; shrink: four tables) *)
Definition admissible (keep : list bool -> bool) : Prop :=
  forall w, length w = 20%nat -> implb (deleted_gen keep (getw w) 0 0) (simple_ok (cur_gen keep (getw w))) = true.
Fixpoint run_passes (H W : nat) (ks : list (list bool -> bool)) (g : grid) : grid :=
  match ks with [] => g | k :: r => run_passes H W r (pass_grid k H W g) end.
Theorem run_passes_topo H W ks : Forall admissible ks -> forall g, wf H W g -> TopoEq (img_of g) (img_of (run_passes H W ks g)).
Proof.
  induction 1 as [|k r Hk Hr IH]; intros g Hg; cbn [run_passes]; [apply TopoEq_refl|].
  eapply TopoEq_trans; [apply (pass_grid_topo k Hk H W g Hg)|]. apply IH. apply pass_grid_wf.
Qed.
Print Assumptions run_passes_topo.
