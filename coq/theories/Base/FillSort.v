(* C08 — the two orders used by fill_labeled_holes' np.lexsort / np.unique calls, packaged for
   the standard library's merge sort. *)
From Coq Require Import ZArith List Bool Lia Orders Sorting.Mergesort.
Import ListNotations.
Open Scope Z_scope.

Module FillPairOrder <: TotalLeBool.
  Definition t := (Z * Z)%type.
  (* np.lexsort((j, i)): primary key i, secondary key j *)
  Definition leb (a b : t) : bool := (fst a <? fst b) || ((fst a =? fst b) && (snd a <=? snd b)).
  Theorem leb_total : forall a b, leb a b = true \/ leb b a = true.
  Proof. intros [a1 a2] [b1 b2]. unfold leb. cbn [fst snd]. lia. Qed.
End FillPairOrder.
Module FillPairSort := Sort FillPairOrder.

Module FillZOrder <: TotalLeBool.
  Definition t := Z.
  Definition leb (a b : t) : bool := a <=? b.
  Theorem leb_total : forall a b, leb a b = true \/ leb b a = true.
  Proof. intros a b. unfold leb. lia. Qed.
End FillZOrder.
Module FillZSort := Sort FillZOrder.
