From Coq Require Import ZArith NArith List Bool Lia.
From Centro Require Import Base.Topo Base.Skel Base.TopoPar.
Import ListNotations.

(* fast table lookups: 512-bit constants indexed by the nine bits, bit 0 first *)
Fixpoint indexN (bits : list bool) : N :=
  match bits with [] => 0%N | b :: r => (if b then N.succ_double (indexN r) else N.double (indexN r)) end.
Definition keepN (t : N) (bits : list bool) : bool := N.testbit t (indexN bits).

(* table of simple_ok over all 512 patterns, computed once by the kernel's VM *)
Fixpoint build (n : nat) (f : list bool -> bool) (acc : list bool -> list bool) : list bool :=
  match n with
  | O => [f (acc [])]
  | S k => build k f (fun l => acc (false :: l)) ++ build k f (fun l => acc (true :: l))
  end.
(* build enumerates with the LAST bit varying slowest; we instead fold directly into an N by setting bits *)
Fixpoint tableN (n : nat) (f : list bool -> bool) (pre : list bool -> list bool) : N :=
  match n with
  | O => if f (pre []) then N.shiftl 1 (indexN (pre [])) else 0%N
  | S k => N.lor (tableN k f (fun l => pre (false :: l))) (tableN k f (fun l => pre (true :: l)))
  end.
Definition simpleN : N := Eval vm_compute in tableN 9 simple_ok (fun l => l).

Lemma simpleN_ok : forall bits, length bits = 9%nat -> N.testbit simpleN (indexN bits) = simple_ok bits.
Proof.
  apply (forall_bits_spec 9 (fun bits => Bool.eqb (N.testbit simpleN (indexN bits)) (simple_ok bits))
           ltac:(vm_compute; reflexivity)) || idtac.
  intros bits L.
  assert (H : forall_bits 9 (fun bits => Bool.eqb (N.testbit simpleN (indexN bits)) (simple_ok bits)) = true)
    by (vm_compute; reflexivity).
  apply eqb_prop. exact (forall_bits_spec 9 _ H bits L).
Qed.

(* window layout of Par.getw: index (a+2)*5+(c+2); inner = rows -1..1, cols -1..1 *)
Definition assemble (inner outer : list bool) : list bool :=
  match inner, outer with
  | [i0;i1;i2;i3;i4;i5;i6;i7;i8], [o0;o1;o2;o3;o4;o5;o6;o7;o8;o9;o10] =>
      [o0;o1;o2;o3;o4; o5;i0;i1;i2;o6; o7;i3;i4;i5;o8; o9;i6;i7;i8;o10]
  | _, _ => []
  end.

Section Sweep.
Variable keep : list bool -> bool.
Definition sweep : bool :=
  forall_bits 9 (fun inner =>
    if bit inner 4 && negb (keep inner) then
      forall_bits 11 (fun outer => N.testbit simpleN (indexN (cur_gen keep (getw (assemble inner outer)))))
    else true).

Lemma cur_gen_length get : length (cur_gen keep get) = 9%nat.
Proof. unfold cur_gen. rewrite map_length, seq_length. reflexivity. Qed.

Theorem sweep_sound : sweep = true ->
  forall w, length w = 20%nat -> implb (deleted_gen keep (getw w) 0 0) (simple_ok (cur_gen keep (getw w))) = true.
Proof.
  intros HS w L.
  do 20 (destruct w as [|? w]; [discriminate L|]). destruct w; [|discriminate L]. clear L.
  set (inner := [b5;b6;b7;b10;b11;b12;b15;b16;b17]).
  set (outer := [b;b0;b1;b2;b3;b4;b8;b9;b13;b14;b18]).
  set (w := [b;b0;b1;b2;b3;b4;b5;b6;b7;b8;b9;b10;b11;b12;b13;b14;b15;b16;b17;b18]).
  assert (EA : assemble inner outer = w) by reflexivity.
  assert (ED : deleted_gen keep (getw w) 0 0 = bit inner 4 && negb (keep inner)) by reflexivity.
  rewrite ED. unfold sweep in HS.
  pose proof (forall_bits_spec 9 _ HS inner eq_refl) as H. cbn beta in H.
  destruct (bit inner 4 && negb (keep inner)); [|reflexivity].
  pose proof (forall_bits_spec 11 _ H outer eq_refl) as H2. cbn beta in H2.
  rewrite EA in H2. rewrite simpleN_ok in H2 by apply cur_gen_length. cbn [implb]. exact H2.
Qed.
End Sweep.
