From Coq Require Import ZArith List Bool Lia Sorted.
From Centro Require Import Base.Topo Base.Skel.
Import ListNotations.
Open Scope Z_scope.

(* pointwise-equal images have the same topology relation *)
Lemma path_ext R (P Q : px -> Prop) a b : (forall x, P x <-> Q x) -> path R P a b -> path R Q a b.
Proof. intros E; apply path_mono; intros x; apply E. Qed.
Lemma TopoEq_ext X Y Y' : (forall q, Y q = Y' q) -> TopoEq X Y -> TopoEq X Y'.
Proof.
  intros E [s f g b h].
  assert (Efg : forall x, fg Y x <-> fg Y' x) by (intros; unfold fg; rewrite E; tauto).
  assert (Ebg : forall x, bg Y x <-> bg Y' x) by (intros; unfold bg; rewrite E; tauto).
  constructor.
  - intros q Hq; apply s, Efg, Hq.
  - intros x y Hx Hy. rewrite (f x y) by (apply Efg; auto). split; apply path_ext; intros; [|symmetry]; apply Efg.
  - intros x Hx. destruct (g x Hx) as [y [Hy Hxy]]. exists y; split; auto. apply Efg; auto.
  - intros x y Hx Hy. rewrite (b x y) by auto. split; apply path_ext; intros; [|symmetry]; apply Ebg.
  - intros x Hx. apply Ebg in Hx. destruct (h x Hx) as [y [Hy Hxy]]. exists y; split; auto.
    eapply path_ext; [|exact Hxy]. intros; apply Ebg.
Qed.

Definition ltr (a b : px) : Prop := fst a < fst b \/ (fst a = fst b /\ snd a < snd b).
Lemma ltr_irrefl a : ~ ltr a a. Proof. unfold ltr; lia. Qed.
Lemma ltr_asym a b : ltr a b -> ~ ltr b a. Proof. unfold ltr; lia. Qed.
Lemma ltr_trans a b c : ltr a b -> ltr b c -> ltr a c. Proof. unfold ltr; lia. Qed.

Section Par.
Variable keep : list bool -> bool.

(* generic neighbourhood functionals over an accessor in coordinates relative to the centre *)
Definition pat_gen (get : Z -> Z -> bool) (a c : Z) : list bool :=
  map (fun b => get (a + fst (off b)) (c + snd (off b))) (seq 0 9).
Definition deleted_gen (get : Z -> Z -> bool) (a c : Z) : bool := get a c && negb (keep (pat_gen get a c)).
(* pattern of the centre after the raster-earlier neighbours (positions 0..3) that the pass deletes are gone *)
Definition cur_gen (get : Z -> Z -> bool) : list bool :=
  map (fun b => if Nat.ltb b 4 then get (fst (off b)) (snd (off b)) && negb (deleted_gen get (fst (off b)) (snd (off b)))
                else get (fst (off b)) (snd (off b))) (seq 0 9).

Definition inwin (a c : Z) : Prop := -2 <= a <= 1 /\ -2 <= c <= 2.
Lemma cur_gen_ext g1 g2 : (forall a c, inwin a c -> g1 a c = g2 a c) -> cur_gen g1 = cur_gen g2.
Proof.
  intros E. unfold cur_gen, deleted_gen, pat_gen, off. cbn.
  rewrite !E by (unfold inwin; lia). reflexivity.
Qed.
Lemma deleted_gen_ext0 g1 g2 : (forall a c, inwin a c -> g1 a c = g2 a c) -> deleted_gen g1 0 0 = deleted_gen g2 0 0.
Proof. intros E. unfold deleted_gen, pat_gen, off. cbn. rewrite !E by (unfold inwin; lia). reflexivity. Qed.

(* windows as 20 bits: rows -2..1, columns -2..2 *)
Definition getw (w : list bool) (a c : Z) : bool :=
  if (-2 <=? a) && (a <=? 1) && (-2 <=? c) && (c <=? 2) then nth (Z.to_nat ((a + 2) * 5 + (c + 2))) w false else false.
Definition window_ok : bool :=
  forall_bits 20 (fun w => implb (deleted_gen (getw w) 0 0) (simple_ok (cur_gen (getw w)))).

Definition getX (X : img) (p : px) (a c : Z) : bool := X (fst p + a, snd p + c).
Definition window (X : img) (p : px) : list bool :=
  map (fun k => getX X p (Z.of_nat (k / 5) - 2) (Z.of_nat (k mod 5) - 2)) (seq 0 20).
Lemma window_get X p a c : inwin a c -> getw (window X p) a c = getX X p a c.
Proof.
  intros [Ha Hc]. unfold getw.
  replace ((-2 <=? a) && (a <=? 1) && (-2 <=? c) && (c <=? 2)) with true
    by (symmetry; rewrite !andb_true_iff, !Z.leb_le; lia).
  assert (Ca : a = -2 \/ a = -1 \/ a = 0 \/ a = 1) by lia.
  assert (Cc : c = -2 \/ c = -1 \/ c = 0 \/ c = 1 \/ c = 2) by lia.
  destruct Ca as [->|[->|[->| ->]]], Cc as [->|[->|[->|[->| ->]]]]; reflexivity.
Qed.

Hypothesis WOK : forall w, length w = 20%nat -> implb (deleted_gen (getw w) 0 0) (simple_ok (cur_gen (getw w))) = true.

Definition deleted (X : img) (q : px) : bool := X q && negb (keep (pat X q)).
Definition par_step (X : img) : img := fun q => X q && keep (pat X q).

Lemma pat_shift X p b : pat X (nb p b) = pat_gen (getX X p) (fst (off b)) (snd (off b)).
Proof.
  unfold pat, pat_gen, getX, nb. apply map_ext; intros b'. cbn [fst snd]. f_equal. f_equal; lia.
Qed.
Lemma pat_center X p : pat X p = pat_gen (getX X p) 0 0.
Proof. unfold pat, pat_gen, getX, nb. apply map_ext; intros b'. f_equal. Qed.
Lemma deleted_center X p : deleted X p = deleted_gen (getX X p) 0 0.
Proof. unfold deleted, deleted_gen. rewrite pat_center. unfold getX. rewrite !Z.add_0_r. destruct p; reflexivity. Qed.
Lemma deleted_shift X p b : deleted X (nb p b) = deleted_gen (getX X p) (fst (off b)) (snd (off b)).
Proof. unfold deleted, deleted_gen. rewrite pat_shift. reflexivity. Qed.

Lemma window_simple X p : deleted X p = true -> simple_ok (cur_gen (getX X p)) = true.
Proof.
  intros HD.
  assert (L : length (window X p) = 20%nat) by (unfold window; rewrite map_length, seq_length; reflexivity).
  pose proof (WOK (window X p) L) as H.
  rewrite (deleted_gen_ext0 (getw (window X p)) (getX X p)) in H by (intros; apply window_get; auto).
  rewrite (cur_gen_ext (getw (window X p)) (getX X p)) in H by (intros; apply window_get; auto).
  rewrite <- deleted_center, HD in H. exact H.
Qed.

(* X with the deleted pixels of a list removed *)
Definition mem (q : px) (l : list px) : bool := existsb (px_eqb q) l.
Lemma mem_In q l : mem q l = true <-> In q l.
Proof.
  unfold mem. rewrite existsb_exists. split.
  - intros [x [Hx E]]. destruct (px_eqb_spec q x); [subst; auto|discriminate].
  - intros H. exists q; split; auto. destruct (px_eqb_spec q q); auto.
Qed.
Definition minus (X : img) (l : list px) : img := fun q => X q && negb (deleted X q && mem q l).

Lemma nb_earlier p b : (b < 4)%nat -> ltr (nb p b) p.
Proof. intros H. unfold ltr, nb. do 4 (destruct b as [|b]; [cbn; lia|]). lia. Qed.
Lemma nb_later p b : (4 < b < 9)%nat -> ltr p (nb p b).
Proof. intros H. unfold ltr, nb. do 5 (destruct b as [|b]; [lia|]). do 4 (destruct b as [|b]; [cbn; lia|]). lia. Qed.

Lemma cur_pat X p pre :
  (forall q, In q pre -> ltr q p) ->
  (forall q, deleted X q = true -> ltr q p -> In q pre) ->
  pat (minus X pre) p = cur_gen (getX X p).
Proof.
  intros Hpre Hcov. unfold pat, cur_gen. apply map_ext_in. intros b Hb. apply in_seq in Hb.
  assert (V : getX X p (fst (off b)) (snd (off b)) = X (nb p b)) by reflexivity.
  rewrite V. unfold minus.
  destruct (Nat.ltb b 4) eqn:Lb.
  - apply Nat.ltb_lt in Lb. rewrite <- deleted_shift.
    destruct (deleted X (nb p b)) eqn:D; cbn [andb negb].
    + assert (M : mem (nb p b) pre = true) by (apply mem_In, Hcov; auto using nb_earlier). rewrite M. reflexivity.
    + rewrite andb_true_r. reflexivity.
  - apply Nat.ltb_ge in Lb.
    assert (M : mem (nb p b) pre = false).
    { destruct (mem (nb p b) pre) eqn:M; auto. apply mem_In in M. apply Hpre in M. exfalso.
      destruct (Nat.eq_dec b 4) as [->|Nb]; [rewrite nb_center in M; eapply ltr_irrefl; eauto|].
      eapply ltr_asym; [exact M|]. apply nb_later; lia. }
    rewrite M, andb_false_r. cbn [negb]. rewrite andb_true_r. reflexivity.
Qed.

Lemma step_topo X p pre :
  (forall q, In q pre -> ltr q p) ->
  (forall q, deleted X q = true -> ltr q p -> In q pre) ->
  TopoEq (minus X pre) (minus X (pre ++ [p])).
Proof.
  intros Hpre Hcov. destruct (deleted X p) eqn:D.
  - apply TopoEq_ext with (Y := remove (minus X pre) p).
    + intros q. unfold remove, minus, mem. rewrite existsb_app. cbn [existsb]. rewrite orb_false_r.
      destruct (px_eqb_spec q p) as [->|N].
      * rewrite D. cbn. rewrite orb_true_r. cbn. rewrite andb_false_r. reflexivity.
      * rewrite orb_false_r. reflexivity.
    + apply simple_removal_topo. apply simple_ok_sound. rewrite (cur_pat X p pre Hpre Hcov). apply window_simple, D.
  - apply TopoEq_ext with (Y := minus X pre); [|apply TopoEq_refl].
    intros q. unfold minus, mem. rewrite existsb_app. cbn [existsb]. rewrite orb_false_r.
    destruct (px_eqb_spec q p) as [->|N]; [rewrite D; reflexivity | rewrite orb_false_r; reflexivity].
Qed.

Lemma sorted_split pre p post : StronglySorted ltr (pre ++ p :: post) ->
  (forall q, In q pre -> ltr q p) /\ (forall q, In q post -> ltr p q).
Proof.
  induction pre as [|a pre IH]; cbn [app]; intros H.
  - inversion H; subst. split; [intros q []|]. intros q Hq. rewrite Forall_forall in H3. auto.
  - inversion H; subst. destruct (IH H2) as [I1 I2]. split; auto.
    intros q [<-|Hq]; auto. rewrite Forall_forall in H3. apply H3. apply in_or_app; right; left; auto.
Qed.

Lemma chain X : forall post pre,
  StronglySorted ltr (pre ++ post) -> (forall q, deleted X q = true -> In q (pre ++ post)) ->
  TopoEq X (minus X pre) -> TopoEq X (minus X (pre ++ post)).
Proof.
  induction post as [|p post IH]; intros pre HS HC HT.
  - rewrite app_nil_r. exact HT.
  - replace (pre ++ p :: post) with ((pre ++ [p]) ++ post) in * by (rewrite <- app_assoc; reflexivity).
    apply IH; auto. eapply TopoEq_trans; [exact HT|].
    rewrite <- app_assoc in HS, HC. cbn [app] in HS, HC.
    destruct (sorted_split pre p post HS) as [S1 S2].
    apply step_topo; auto.
    intros q Dq Lq. specialize (HC q Dq). apply in_app_or in HC as [H|[<-|H]]; auto.
    + exfalso; eapply ltr_irrefl; eauto.
    + exfalso. eapply ltr_asym; [exact Lq|]. auto.
Qed.

(* the synchronous pass preserves topology, for every image whose deleted pixels can be listed in raster order *)
Theorem parallel_pass_topo X l :
  StronglySorted ltr l -> (forall q, deleted X q = true -> In q l) -> TopoEq X (par_step X).
Proof.
  intros HS HC. apply TopoEq_ext with (Y := minus X l).
  - intros q. unfold minus, par_step. destruct (deleted X q) eqn:D.
    + assert (M : mem q l = true) by (apply mem_In; auto). rewrite M. unfold deleted in D.
      apply andb_true_iff in D as [D1 D2]. rewrite D1. apply negb_true_iff in D2. rewrite D2. reflexivity.
    + cbn [andb negb]. rewrite andb_true_r. unfold deleted in D. destruct (X q); cbn [andb] in D |- *; auto.
      apply negb_false_iff in D. rewrite D. reflexivity.
  - apply (chain X l []); auto. apply TopoEq_ext with (Y := X); [|apply TopoEq_refl].
    intros q. unfold minus, mem. cbn. rewrite andb_false_r. cbn. rewrite andb_true_r. reflexivity.
Qed.
End Par.
Print Assumptions parallel_pass_topo.
