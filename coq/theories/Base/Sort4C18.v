(* C18 — a third stable merge sort instance: quadruples (key1, key2, key3, position) ordered
   lexicographically, for the three-key np.lexsort of index.all_pairs. *)
From Coq Require Import ZArith List Bool Lia Orders Sorting.Mergesort Sorted Permutation.
Import ListNotations.
Local Open Scope Z_scope.

Definition quad : Type := (Z * Z * Z * nat)%type.
Definition q_k1 (p : quad) : Z := fst (fst (fst p)).
Definition q_k2 (p : quad) : Z := snd (fst (fst p)).
Definition q_k3 (p : quad) : Z := snd (fst p).
Definition q_ix (p : quad) : nat := snd p.
Definition qleb (x y : quad) : bool :=
  if q_k1 x <? q_k1 y then true else
  if q_k1 y <? q_k1 x then false else
  if q_k2 x <? q_k2 y then true else
  if q_k2 y <? q_k2 x then false else
  if q_k3 x <? q_k3 y then true else
  if q_k3 y <? q_k3 x then false else
  Nat.leb (q_ix x) (q_ix y).

Module QLeb <: TotalLeBool'.
  Definition t := quad.
  Definition leb := qleb.
  Theorem leb_total : forall x y, leb x y = true \/ leb y x = true.
  Proof.
    intros x y. unfold leb, qleb.
    destruct (Z.ltb_spec (q_k1 x) (q_k1 y)); [auto|].
    destruct (Z.ltb_spec (q_k1 y) (q_k1 x)); [auto|].
    destruct (Z.ltb_spec (q_k2 x) (q_k2 y)); [auto|].
    destruct (Z.ltb_spec (q_k2 y) (q_k2 x)); [auto|].
    destruct (Z.ltb_spec (q_k3 x) (q_k3 y)); [auto|].
    destruct (Z.ltb_spec (q_k3 y) (q_k3 x)); [auto|].
    destruct (Nat.leb_spec (q_ix x) (q_ix y)); [auto|right; apply Nat.leb_le; lia].
  Qed.
End QLeb.
Module QS := Sort QLeb.
Definition qsort (l : list quad) : list quad := QS.sort l.

Lemma qsort_perm l : Permutation l (qsort l).
Proof. apply QS.Permuted_sort. Qed.

Lemma qleb_trans : Transitive (fun x y => is_true (qleb x y)).
Proof.
  intros x y z. unfold is_true, qleb.
  repeat match goal with
  | |- context [Z.ltb ?a ?b] => destruct (Z.ltb_spec a b)
  | H : context [Z.ltb ?a ?b] |- _ => destruct (Z.ltb_spec a b)
  end; try congruence; try lia; rewrite ?Nat.leb_le; try lia.
Qed.

Lemma qsort_sorted l : StronglySorted (fun x y => qleb x y = true) (qsort l).
Proof. exact (QS.StronglySorted_sort l qleb_trans). Qed.
