(* C18 — the two sorts the models use, instantiated from the standard library's merge sort
   (stable, axiom-free): [zsort] on Z (ndarray.sort) and [tsort] on triples
   (primary key, secondary key, position) ordered lexicographically, from which the stable
   index sorts argsort / lexsort are read off.  The order modules need a totality proof, which
   is why this file is in Base and not in Model. *)
From Coq Require Import ZArith List Bool Lia Orders Sorting.Mergesort Sorted Permutation.
Import ListNotations.
Local Open Scope Z_scope.

Module ZLeb <: TotalLeBool'.
  Definition t := Z.
  Definition leb (x y : Z) : bool := x <=? y.
  Theorem leb_total : forall x y, leb x y = true \/ leb y x = true.
  Proof. intros x y. unfold leb. destruct (Z.leb_spec x y); [left|right; apply Z.leb_le]; lia. Qed.
End ZLeb.
Module ZS := Sort ZLeb.
Definition zsort (l : list Z) : list Z := ZS.sort l.

Definition triple : Type := (Z * Z * nat)%type.
Definition t_k1 (p : triple) : Z := fst (fst p).
Definition t_k2 (p : triple) : Z := snd (fst p).
Definition t_ix (p : triple) : nat := snd p.
Definition tleb (x y : triple) : bool :=
  if t_k1 x <? t_k1 y then true else
  if t_k1 y <? t_k1 x then false else
  if t_k2 x <? t_k2 y then true else
  if t_k2 y <? t_k2 x then false else
  Nat.leb (t_ix x) (t_ix y).

Module TLeb <: TotalLeBool'.
  Definition t := triple.
  Definition leb := tleb.
  Theorem leb_total : forall x y, leb x y = true \/ leb y x = true.
  Proof.
    intros x y. unfold leb, tleb.
    destruct (Z.ltb_spec (t_k1 x) (t_k1 y)); [auto|].
    destruct (Z.ltb_spec (t_k1 y) (t_k1 x)); [auto|].
    destruct (Z.ltb_spec (t_k2 x) (t_k2 y)); [auto|].
    destruct (Z.ltb_spec (t_k2 y) (t_k2 x)); [auto|].
    destruct (Nat.leb_spec (t_ix x) (t_ix y)); [auto|right; apply Nat.leb_le; lia].
  Qed.
End TLeb.
Module TS := Sort TLeb.
Definition tsort (l : list triple) : list triple := TS.sort l.

Lemma zsort_perm l : Permutation l (zsort l).
Proof. apply ZS.Permuted_sort. Qed.

Lemma zleb_trans : Transitive (fun x y => is_true (ZLeb.leb x y)).
Proof. intros x y z. unfold is_true, ZLeb.leb. rewrite !Z.leb_le. lia. Qed.

Lemma zsort_sorted l : StronglySorted Z.le (zsort l).
Proof.
  pose proof (ZS.StronglySorted_sort l zleb_trans) as H. unfold zsort.
  induction H as [|a r S IH F]; constructor; auto.
  rewrite Forall_forall in *. intros x Hx. specialize (F x Hx). unfold is_true, ZLeb.leb in F.
  apply Z.leb_le; auto.
Qed.

Lemma tsort_perm l : Permutation l (tsort l).
Proof. apply TS.Permuted_sort. Qed.

Lemma tleb_trans : Transitive (fun x y => is_true (tleb x y)).
Proof.
  intros x y z. unfold is_true, tleb.
  repeat match goal with
  | |- context [Z.ltb ?a ?b] => destruct (Z.ltb_spec a b)
  | H : context [Z.ltb ?a ?b] |- _ => destruct (Z.ltb_spec a b)
  end; try congruence; try lia; rewrite ?Nat.leb_le; try lia.
Qed.

Lemma tsort_sorted l : StronglySorted (fun x y => tleb x y = true) (tsort l).
Proof. exact (TS.StronglySorted_sort l tleb_trans). Qed.
