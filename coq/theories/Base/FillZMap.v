(* C08 — arrays indexed by integers, as finite maps with a default (so that the executable model
   of fill_labeled_holes handles tens of thousands of regions).  A thin layer over the standard
   library's PositiveMap through an injective encoding of Z into positive. *)
From Coq Require Import ZArith List Bool Lia FMapPositive.
Import ListNotations.
Open Scope Z_scope.

Definition zkey (z : Z) : positive :=
  match z with Z0 => xH | Zpos p => xO p | Zneg p => xI p end.

Lemma zkey_inj a b : zkey a = zkey b -> a = b.
Proof. destruct a, b; cbn [zkey]; intros E; try discriminate; try reflexivity; inversion E; reflexivity. Qed.

Definition zmap (A : Type) : Type := PositiveMap.t A.
Definition zempty {A : Type} : zmap A := PositiveMap.empty A.
Definition zfind {A : Type} (m : zmap A) (z : Z) : option A := PositiveMap.find (zkey z) m.
Definition zset {A : Type} (m : zmap A) (z : Z) (x : A) : zmap A := PositiveMap.add (zkey z) x m.

Definition getb (m : zmap bool) (z : Z) : bool := match zfind m z with Some b => b | None => false end.
Definition getz (m : zmap Z) (z : Z) : Z := match zfind m z with Some v => v | None => 0 end.

Lemma zfind_set_same {A} (m : zmap A) k x : zfind (zset m k x) k = Some x.
Proof. unfold zfind, zset. apply PositiveMap.gss. Qed.
Lemma zfind_set_other {A} (m : zmap A) k x i : i <> k -> zfind (zset m k x) i = zfind m i.
Proof. intros N. unfold zfind, zset. apply PositiveMap.gso. intros E. apply N, zkey_inj, E. Qed.
Lemma zfind_empty {A} i : zfind (@zempty A) i = None.
Proof. unfold zfind, zempty. apply PositiveMap.gempty. Qed.

Lemma getb_set_same m k x : getb (zset m k x) k = x.
Proof. unfold getb. rewrite zfind_set_same. reflexivity. Qed.
Lemma getb_set_other m k x i : i <> k -> getb (zset m k x) i = getb m i.
Proof. intros N. unfold getb. rewrite zfind_set_other by exact N. reflexivity. Qed.
Lemma getb_empty i : getb zempty i = false.
Proof. unfold getb. rewrite zfind_empty. reflexivity. Qed.
Lemma getz_set_same m k x : getz (zset m k x) k = x.
Proof. unfold getz. rewrite zfind_set_same. reflexivity. Qed.
Lemma getz_set_other m k x i : i <> k -> getz (zset m k x) i = getz m i.
Proof. intros N. unfold getz. rewrite zfind_set_other by exact N. reflexivity. Qed.
Lemma getz_empty i : getz zempty i = 0.
Proof. unfold getz. rewrite zfind_empty. reflexivity. Qed.

(* linear-time list reversal (List.rev is quadratic once extracted) *)
Definition frev {A : Type} (l : list A) : list A := rev_append l [].
Lemma frev_rev {A : Type} (l : list A) : frev l = rev l.
Proof. unfold frev. symmetry. apply rev_alt. Qed.

(* [lo, lo+1, ..., lo+n-1] *)
Fixpoint zseq (lo : Z) (n : nat) : list Z :=
  match n with O => [] | S k => lo :: zseq (lo + 1) k end.

Lemma zseq_In lo n x : In x (zseq lo n) <-> lo <= x < lo + Z.of_nat n.
Proof.
  revert lo. induction n as [|n IH]; intros lo; cbn [zseq In].
  - lia.
  - rewrite IH. lia.
Qed.
Lemma zseq_length lo n : length (zseq lo n) = n.
Proof. revert lo. induction n as [|n IH]; intros lo; cbn [zseq length]; [reflexivity|rewrite IH; reflexivity]. Qed.

(* load a list into a map at consecutive indices starting from k *)
Fixpoint zload (l : list Z) (k : Z) (m : zmap Z) : zmap Z :=
  match l with [] => m | x :: t => zload t (k + 1) (zset m k x) end.
