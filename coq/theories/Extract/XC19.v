From Coq Require Extraction ExtrOcamlBasic.
From Centro Require Import Base.Sx Model.EntryC19.
Extraction Language OCaml.
Extraction "extracted/c19.ml" entry_pre entry_run.
