From Coq Require Extraction ExtrOcamlBasic.
From Centro Require Import Base.Sx Model.Kalman Spec.Kalman.
Extraction Language OCaml.
Extraction "extracted/c09.ml" entry_run entry_spec_run entry_abs_run entry_run_abs entry_run_lite entry_models entry_alg.
