From Coq Require Extraction ExtrOcamlBasic.
From Centro Require Import Base.Sx Model.ThinSkel Spec.TopoCheck.
Extraction Language OCaml.
Extraction "extracted/c05.ml" entry_thin entry_shrink entry_lookup entry_loop entry_skel_ord entry_order entry_topo_check.
