From Coq Require Extraction ExtrOcamlBasic.
From Centro Require Import Base.Sx Spec.PropCheck.
Extraction Language OCaml.
Extraction "extracted/c03.ml" entry_check_z.
