From Coq Require Extraction ExtrOcamlBasic.
From Centro Require Import Base.Sx Base.ThresholdNum Model.ThresholdRun Model.OtsuQ Model.AdaptiveGeom Model.RobustQ Model.MctZ Model.RidlerQ
  Spec.ThresholdSpec Spec.ThresholdStruct.
Extraction Language OCaml.
Extraction "extracted/c11.ml" entry_run entry_ref entry_check entry_fmul entry_fmul32 entry_otsu
  entry_geom entry_check_po entry_check_blocks entry_robust entry_mct entry_rc.
