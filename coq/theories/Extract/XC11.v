From Coq Require Extraction ExtrOcamlBasic.
From Centro Require Import Base.Sx Base.ThresholdNum Model.ThresholdRun Model.OtsuQ Spec.ThresholdSpec.
Extraction Language OCaml.
Extraction "extracted/c11.ml" entry_run entry_ref entry_check entry_fmul entry_fmul32 entry_otsu.
