From Coq Require Extraction ExtrOcamlBasic.
From Centro Require Import Base.Sx Model.HistoryRunC20.
Extraction Language OCaml.
Extraction "extracted/c20.ml" entry_run entry_hi entry_sig entry_check.
