From Coq Require Extraction ExtrOcamlBasic.
From Centro Require Import Base.Sx Model.FillHoles Spec.FillHoles.
Extraction Language OCaml.
Extraction "extracted/c08.ml" entry_fill entry_fill_bl entry_fill_eq entry_gen_eq entry_check entry_spec entry_label_ok.
