From Coq Require Extraction ExtrOcamlBasic.
From Centro Require Import Base.Sx Model.Circle Spec.MecSpec.
Extraction Language OCaml.
Extraction "extracted/c14.ml" entry_mec_ok entry_chrystal_many.
