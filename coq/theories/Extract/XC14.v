From Coq Require Extraction ExtrOcamlBasic.
From Centro Require Import Base.Sx Model.Hull Model.HullW Model.Circle Model.CircleVec Model.Feret Model.HullFill Spec.MecSpec Spec.ChrystalHyp Spec.FeretSpec Spec.CalipersHyp Spec.FeretBrute Spec.FeretLower Spec.FillSpec.
Extraction Language OCaml.
Extraction "extracted/c14.ml" entry_mec_ok entry_chrystal_many entry_sweep_many entry_feret_max entry_feret_min_ok entry_feret_lower_ok
  entry_fill_model entry_fill_check entry_fill_hyp entry_chrystal_hyp_many entry_chrystal_vec entry_strict_convex_many entry_bf_min_many entry_hull_ijv entry_hull_ijv_w.
