From Coq Require Extraction ExtrOcamlBasic.
From Centro Require Import Base.Sx Spec.LutRule Spec.LutDocs Model.Lut Model.LutOps Model.LutMake.
Extraction Language OCaml.
Extraction "extracted/c06.ml" entry_tl entry_tli entry_idx entry_op entry_spec entry_specidx entry_opspec entry_mk entry_pat entry_mkspec.
