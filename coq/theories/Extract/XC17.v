From Coq Require Extraction ExtrOcamlBasic.
From Centro Require Import Base.Sx Model.LocalMax Spec.LocalMaxSpec.
Extraction Language OCaml.
Extraction "extracted/c17.ml" entry_ilm entry_rm entry_rm_noties entry_check_ilm entry_check_rm entry_check_noties.
