From Coq Require Extraction ExtrOcamlBasic.
From Centro Require Import Base.Sx Model.LabelGraph Spec.LabelGraph Spec.EulerReduceC15.
Extraction Language OCaml.
Extraction "extracted/c15.ml" entry_relabel entry_neighbors entry_colors entry_euler entry_acc entry_check_euler entry_check_neighbors entry_check_colors entry_check_relabel entry_check_acc entry_reduce.
