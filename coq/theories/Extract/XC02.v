From Coq Require Extraction ExtrOcamlBasic.
From Centro Require Import Base.Sx Model.Hull Model.HullW Spec.HullSpec.
Extraction Language OCaml.
Extraction "extracted/c02.ml" entry_hull_ijv entry_hull_ijv_w entry_hull_labels entry_hull_label entry_hull_ok entry_batch_ok.
