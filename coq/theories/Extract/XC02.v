From Coq Require Extraction ExtrOcamlBasic.
From Centro Require Import Base.Sx Model.Hull Spec.HullSpec.
Extraction Language OCaml.
Extraction "extracted/c02.ml" entry_hull_ijv entry_hull_labels entry_hull_label entry_hull_ok entry_batch_ok.
