From Coq Require Extraction ExtrOcamlBasic.
From Centro Require Import Base.Sx Model.MeasureC13 Model.EllipseCoordsC13.
Extraction Language OCaml.
Extraction "extracted/c13.ml" entry_measure entry_idioms entry_ell_coords.
