From Coq Require Extraction ExtrOcamlBasic.
From Centro Require Import Base.Sx Model.MeasureC13 Model.EllipseCoordsC13 Model.EntryC18 Model.HullAreaC13.
Extraction Language OCaml.
Extraction "extracted/c13.ml" entry_measure entry_idioms entry_ell_coords entry_median entry_hull_area.
