From Coq Require Extraction ExtrOcamlBasic.
From Centro Require Import Base.Sx Model.MeasureC13 Model.EllipseCoordsC13 Model.EntryC18 Model.HullAreaC13
  Model.Circle Model.CircleVec Model.Feret Model.HullAreaVecC13.
Extraction Language OCaml.
Extraction "extracted/c13.ml" entry_measure entry_idioms entry_ell_coords entry_median entry_hull_area
  entry_chrystal_many entry_chrystal_vec entry_sweep_many entry_hull_areas_vec.
