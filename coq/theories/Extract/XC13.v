From Coq Require Extraction ExtrOcamlBasic.
From Centro Require Import Base.Sx Model.MeasureC13.
Extraction Language OCaml.
Extraction "extracted/c13.ml" entry_measure entry_idioms.
