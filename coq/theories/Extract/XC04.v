From Coq Require Extraction ExtrOcamlBasic.
From Centro Require Import Base.Sx Model.Recon Spec.ReconSpec Spec.ReconInv.
Extraction Language OCaml.
Extraction "extracted/c04.ml" entry_recon entry_check entry_iter entry_prep_check entry_ord_check.
