From Coq Require Extraction ExtrOcamlBasic.
From Centro Require Import Base.Sx Model.Lapjv Spec.Lapjv.
Extraction Language OCaml.
Extraction "extracted/c01.ml" entry_lapjv entry_arr entry_track entry_cert entry_pm entry_wf entry_total entry_track_ok.
