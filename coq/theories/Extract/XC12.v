From Coq Require Extraction ExtrOcamlBasic.
From Centro Require Import Base.Sx Spec.MaskCheck Model.MaskRef.
Extraction Language OCaml.
Extraction "extracted/c12.ml" entry_agree_in entry_agree_out entry_ref.
