From Coq Require Extraction ExtrOcamlBasic.
From Centro Require Import Base.Sx Model.EntryC18 Spec.SpecC18.
Extraction Language OCaml.
Extraction "extracted/c18.ml" entry_rank entry_rank_bins entry_rank_bins_stable entry_median entry_mode entry_indexes entry_pairs entry_check_rank entry_check_bins entry_median_ref entry_check_mode entry_indexes_ref entry_pairs_ref entry_pairs_all.
