From Coq Require Extraction ExtrOcamlBasic.
From Centro Require Import Base.Sx Model.Emd Model.EmdCert Model.EmdMcf Model.EmdAsIs Model.EmdW Model.EmdP Spec.Emd.
Extraction Language OCaml.
Extraction "extracted/c10.ml" entry_emd entry_emdc entry_emdl entry_emdlf entry_asis entry_w32 entry_p32 entry_cert entry_partial entry_brute.
