From Coq Require Extraction ExtrOcamlBasic.
From Centro Require Import Base.Sx Model.Emd Spec.Emd.
Extraction Language OCaml.
Extraction "extracted/c10.ml" entry_emd entry_cert entry_partial entry_brute.
