From Coq Require Extraction ExtrOcamlBasic.
From Centro Require Import Base.Sx Model.Median Model.MedianAlloc Spec.MedianSpec.
Extraction Language OCaml.
Extraction "extracted/c07.ml" entry_kernel entry_wrapper entry_geom entry_check entry_spec entry_corr entry_wcorr entry_merge entry_alloc.
