From Coq Require Extraction ExtrOcamlBasic.
From Centro Require Import Base.Sx Model.Lines Spec.Lines.
Extraction Language OCaml.
Extraction "extracted/c16.ml" entry_draw entry_lines entry_check entry_check_line entry_draw_fast entry_lines_fast.
