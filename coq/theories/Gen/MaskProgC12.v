(* GENERATED on every run by harness/props/c12.py (tools/gen_maskflow_c12.py) from the STAGED source of
   centrosome/{cpmorphology,filter,smooth}.py - do not edit.  One mask-dataflow term per listed function of C12,
   with the obligation that the verified checker accepts it. *)
From Coq Require Import List Bool ZArith.
From Centro Require Import Model.MaskFlow.
Import ListNotations.

(* library symbols (index: name) *)
(* 0: copy; 1: all; 2: not; 3: take; 4: rank_order.translation; 5: gather; 6: _filter.median_filter; 7: scatter; 8: rank_order.ranks; 9: needs_ranking; 10: ascontiguousarray; 11: one_pixel_per_component(edt,label,rank_order,maximum_position); 12: has_greater_neighbour; 13: any; 14: index; 15: unpack1; 16: rank_order; 17: unpack0; 18: or; 19: lt; 20: min; 21: gt; 22: max; 23: cropiradius:-iradius,iradius:-iradius; 24: grey_erosion; 25: setsliceiradius:-iradius,iradius:-iradius; 26: grey_dilation; 27: sub; 28: max_axis0; 29: grey_dilation@angle0; 30: grey_erosion@angle0; 31: grey_dilation@angle1; 32: grey_erosion@angle1; 33: grey_dilation@angle2; 34: grey_erosion@angle2; 35: min_axis0; 36: sqrt; 37: add; 38: pow; 39: abs; 40: convolve3x3; 41: mult; 42: shift(-1,+1); 43: shift(+1,+1); 44: gte; 45: div; 46: function; 47: lte; 48: shift(+1,-1); 49: logical_or; 50: shift(+1,+0); 51: shift(-1,+0); 52: shift(+0,-1); 53: shift(+0,+1); 54: shift(-1,-1); 55: eq; 56: label; 57: setslice1:; 58: zeros; 59: fix; 60: sum; 61: arange; 62: convolve; 63: gaussian_filter; 64: kernel; 65: array; 66: count_nonzero; 67: opaque_expression; 68: lstsq; 69: transpose; 70: sum_of_shifts; 71: astype; 72: gt0; 73: len_is_0; 74: convex_hull_transform_core; 75: rescale; 76: table_lookup; 77: index_set; 78: loop:index_i; 79: len; 80: prepare_for_index_lookup; 81: unpack2; 82: loop:index_j; 83: skeletonize_loop; 84: lexsort; 85: distance_transform_edt *)
(* constants (index: name) *)
(* 0: zeros_uint8; 1: zeros(..); 2: ones(..); 3: 1; 4: cmp; 5: unpacked; 6: expr; 7: $clip; 8: zeros; 9: True; 10: is; 11: permutation(..) *)

(* shared sub-terms (text sharing only) *)
Definition sh_0 : expr := (Select (Glob 8 [(Glob 5 [(Select Img MaskE FalseC); MaskE])]) (Glob 9 [Img]) (Glob 5 [(Select Img MaskE FalseC); MaskE])).
Definition sh_1 : expr := (Glob 7 [sh_0; MaskE]).
Definition sh_2 : expr := (Select sh_1 MaskE (Const 0)).
Definition sh_3 : expr := (Glob 6 [sh_2; (Pw 10 [MaskE])]).
Definition sh_4 : expr := (Glob 3 [(Glob 4 [(Glob 5 [(Select Img MaskE FalseC); MaskE])]); sh_3]).
Definition sh_5 : expr := (Select sh_4 (Glob 9 [Img]) sh_3).
Definition sh_6 : expr := (Select (Pw 0 [Img]) (Glob 1 [(Pw 2 [MaskE])]) sh_5).
Definition sh_7 : expr := (Select (Glob 11 [(Select (Pw 2 [(Loc 1 12 Img)]) (ErodeP 1 MaskE) FalseC)]) (Glob 13 [(Select (Pw 2 [(Loc 1 12 Img)]) (ErodeP 1 MaskE) FalseC)]) (Select (Pw 2 [(Loc 1 12 Img)]) (ErodeP 1 MaskE) FalseC)).
Definition sh_8 : expr := (Select (Glob 7 [(Glob 17 [(Glob 16 [(Glob 5 [(Select Img MaskE FalseC); MaskE])])]); MaskE]) MaskE (Const 1)).
Definition sh_9 : expr := (Glob 6 [sh_8; MaskE]).
Definition sh_10 : expr := (Glob 14 [(Glob 15 [(Glob 16 [(Glob 5 [(Select Img MaskE FalseC); MaskE])])]); sh_9]).
Definition sh_11 : expr := (Pw 18 [(Pw 19 [(Glob 20 [(Glob 5 [(Select Img MaskE FalseC); MaskE])])]); (Pw 21 [(Glob 22 [(Glob 5 [(Select Img MaskE FalseC); MaskE])])])]).
Definition sh_12 : expr := (Select sh_10 sh_11 (Glob 6 [(Select Img MaskE (Const 1)); MaskE])).
Definition sh_13 : expr := (Select (Pw 0 [Img]) (Glob 1 [(Pw 2 [MaskE])]) sh_12).
Definition sh_14 : expr := (Select (Select (Glob 23 [(Glob 24 [(Glob 25 [(Const 2); (Select Img MaskE (Const 3))])])]) MaskE Img) MaskE FalseC).
Definition sh_15 : expr := (Glob 25 [(Const 1); sh_14]).
Definition sh_16 : expr := (Glob 26 [sh_15]).
Definition sh_17 : expr := (Glob 23 [sh_16]).
Definition sh_18 : expr := (Select sh_17 MaskE (Select (Glob 23 [(Glob 24 [(Glob 25 [(Const 2); (Select Img MaskE (Const 3))])])]) MaskE Img)).
Definition sh_19 : expr := (Select (Select (Glob 23 [(Glob 26 [(Glob 25 [(Const 1); (Select Img MaskE FalseC)])])]) MaskE Img) MaskE (Const 3)).
Definition sh_20 : expr := (Glob 25 [(Const 2); sh_19]).
Definition sh_21 : expr := (Glob 24 [sh_20]).
Definition sh_22 : expr := (Glob 23 [sh_21]).
Definition sh_23 : expr := (Select sh_22 MaskE (Select (Glob 23 [(Glob 26 [(Glob 25 [(Const 1); (Select Img MaskE FalseC)])])]) MaskE Img)).
Definition sh_24 : expr := (Pw 27 [Img; sh_18]).
Definition sh_25 : expr := (Select sh_24 MaskE Img).
Definition sh_26 : expr := (Pw 27 [sh_23; Img]).
Definition sh_27 : expr := (Select sh_26 MaskE Img).
Definition sh_28 : expr := (Select (Select (Glob 23 [(Glob 30 [(Glob 25 [(Const 2); (Select Img MaskE (Const 3))])])]) MaskE Img) MaskE FalseC).
Definition sh_29 : expr := (Glob 25 [(Const 1); sh_28]).
Definition sh_30 : expr := (Glob 29 [sh_29]).
Definition sh_31 : expr := (Glob 23 [sh_30]).
Definition sh_32 : expr := (Select sh_31 MaskE (Select (Glob 23 [(Glob 30 [(Glob 25 [(Const 2); (Select Img MaskE (Const 3))])])]) MaskE Img)).
Definition sh_33 : expr := (Select (Select (Glob 23 [(Glob 32 [(Glob 25 [(Const 2); (Select Img MaskE (Const 3))])])]) MaskE Img) MaskE FalseC).
Definition sh_34 : expr := (Glob 25 [(Const 1); sh_33]).
Definition sh_35 : expr := (Glob 31 [sh_34]).
Definition sh_36 : expr := (Glob 23 [sh_35]).
Definition sh_37 : expr := (Select sh_36 MaskE (Select (Glob 23 [(Glob 32 [(Glob 25 [(Const 2); (Select Img MaskE (Const 3))])])]) MaskE Img)).
Definition sh_38 : expr := (Select (Select (Glob 23 [(Glob 34 [(Glob 25 [(Const 2); (Select Img MaskE (Const 3))])])]) MaskE Img) MaskE FalseC).
Definition sh_39 : expr := (Glob 25 [(Const 1); sh_38]).
Definition sh_40 : expr := (Glob 33 [sh_39]).
Definition sh_41 : expr := (Glob 23 [sh_40]).
Definition sh_42 : expr := (Select sh_41 MaskE (Select (Glob 23 [(Glob 34 [(Glob 25 [(Const 2); (Select Img MaskE (Const 3))])])]) MaskE Img)).
Definition sh_43 : expr := (Pw 28 [sh_32; sh_37; sh_42]).
Definition sh_44 : expr := (Pw 35 [sh_32; sh_37; sh_42]).
Definition sh_45 : expr := (Pw 27 [sh_43; sh_44]).
Definition sh_46 : expr := (Pw 37 [(Pw 38 [(Select (Pw 39 [(Loc 1 40 Img)]) (Erode 1 MaskE) FalseC)]); (Pw 38 [(Select (Pw 39 [(Loc 1 40 Img)]) (Erode 1 MaskE) FalseC)])]).
Definition sh_47 : expr := (Pw 36 [sh_46]).
Definition sh_48 : expr := (Pw 27 [(Glob 5 [(Select Img (Erode 1 MaskE) FalseC); (Erode 1 MaskE)]); (Glob 5 [(Select (Loc 1 42 Img) (Erode 1 MaskE) FalseC); (Erode 1 MaskE)])]).
Definition sh_49 : expr := (Pw 41 [sh_48; sh_48]).
Definition sh_50 : expr := (Pw 27 [(Glob 5 [(Select Img (Erode 1 MaskE) FalseC); (Erode 1 MaskE)]); (Glob 5 [(Select (Loc 1 43 Img) (Erode 1 MaskE) FalseC); (Erode 1 MaskE)])]).
Definition sh_51 : expr := (Pw 41 [sh_50; sh_50]).
Definition sh_52 : expr := (Pw 37 [sh_49; sh_51]).
Definition sh_53 : expr := (Pw 36 [sh_52]).
Definition sh_54 : expr := (Glob 7 [sh_53; (Erode 1 MaskE)]).
Definition sh_55 : expr := (Select sh_54 (Erode 1 MaskE) (Select (Const 1) (Erode 1 MaskE) FalseC)).
Definition sh_56 : expr := (Pw 41 [(Loc 1 40 (Pw 45 [(Glob 46 [(Select Img MaskE (Const 1))]); (Pw 37 [(Glob 46 [MaskE])])])); (Loc 1 40 (Pw 45 [(Glob 46 [(Select Img MaskE (Const 1))]); (Pw 37 [(Glob 46 [MaskE])])]))]).
Definition sh_57 : expr := (Pw 37 [sh_56; sh_56]).
Definition sh_58 : expr := (Pw 36 [sh_57]).
Definition sh_59 : expr := (Pw 44 [sh_58]).
Definition sh_60 : expr := (Loc 1 48 sh_58).
Definition sh_61 : expr := (Pw 44 [(Pw 39 [(Loc 1 40 (Pw 45 [(Glob 46 [(Select Img MaskE (Const 1))]); (Pw 37 [(Glob 46 [MaskE])])]))]); (Pw 39 [(Loc 1 40 (Pw 45 [(Glob 46 [(Select Img MaskE (Const 1))]); (Pw 37 [(Glob 46 [MaskE])])]))])]).
Definition sh_62 : expr := (Select sh_61 (Pw 44 [(Loc 1 40 (Pw 45 [(Glob 46 [(Select Img MaskE (Const 1))]); (Pw 37 [(Glob 46 [MaskE])])]))]) FalseC).
Definition sh_63 : expr := (Select sh_62 (Pw 47 [(Loc 1 40 (Pw 45 [(Glob 46 [(Select Img MaskE (Const 1))]); (Pw 37 [(Glob 46 [MaskE])])]))]) FalseC).
Definition sh_64 : expr := (Select sh_61 (Pw 47 [(Loc 1 40 (Pw 45 [(Glob 46 [(Select Img MaskE (Const 1))]); (Pw 37 [(Glob 46 [MaskE])])]))]) FalseC).
Definition sh_65 : expr := (Select sh_64 (Pw 44 [(Loc 1 40 (Pw 45 [(Glob 46 [(Select Img MaskE (Const 1))]); (Pw 37 [(Glob 46 [MaskE])])]))]) FalseC).
Definition sh_66 : expr := (Pw 49 [sh_63; sh_65]).
Definition sh_67 : expr := (Pw 21 [sh_58]).
Definition sh_68 : expr := (Select sh_67 (Erode 1 MaskE) FalseC).
Definition sh_69 : expr := (Select sh_66 sh_68 FalseC).
Definition sh_70 : expr := (Select sh_60 sh_69 FalseC).
Definition sh_71 : expr := (Glob 5 [sh_70; sh_69]).
Definition sh_72 : expr := (Select (Pw 39 [(Loc 1 40 (Pw 45 [(Glob 46 [(Select Img MaskE (Const 1))]); (Pw 37 [(Glob 46 [MaskE])])]))]) sh_69 FalseC).
Definition sh_73 : expr := (Glob 5 [sh_72; sh_69]).
Definition sh_74 : expr := (Pw 45 [sh_73; sh_73]).
Definition sh_75 : expr := (Pw 41 [sh_71; sh_74]).
Definition sh_76 : expr := (Loc 1 50 sh_58).
Definition sh_77 : expr := (Select sh_76 sh_69 FalseC).
Definition sh_78 : expr := (Glob 5 [sh_77; sh_69]).
Definition sh_79 : expr := (Pw 27 [sh_74]).
Definition sh_80 : expr := (Pw 41 [sh_78; sh_79]).
Definition sh_81 : expr := (Pw 37 [sh_75; sh_80]).
Definition sh_82 : expr := (Select sh_58 sh_69 FalseC).
Definition sh_83 : expr := (Glob 5 [sh_82; sh_69]).
Definition sh_84 : expr := (Pw 47 [sh_81; sh_83]).
Definition sh_85 : expr := (Loc 1 42 sh_58).
Definition sh_86 : expr := (Select sh_85 sh_69 FalseC).
Definition sh_87 : expr := (Glob 5 [sh_86; sh_69]).
Definition sh_88 : expr := (Pw 41 [sh_87; sh_74]).
Definition sh_89 : expr := (Loc 1 51 sh_58).
Definition sh_90 : expr := (Select sh_89 sh_69 FalseC).
Definition sh_91 : expr := (Glob 5 [sh_90; sh_69]).
Definition sh_92 : expr := (Pw 41 [sh_91; sh_79]).
Definition sh_93 : expr := (Pw 37 [sh_88; sh_92]).
Definition sh_94 : expr := (Pw 47 [sh_93; sh_83]).
Definition sh_95 : expr := (Select sh_84 sh_94 FalseC).
Definition sh_96 : expr := (Glob 7 [sh_95; sh_69]).
Definition sh_97 : expr := (Pw 47 [(Pw 39 [(Loc 1 40 (Pw 45 [(Glob 46 [(Select Img MaskE (Const 1))]); (Pw 37 [(Glob 46 [MaskE])])]))]); (Pw 39 [(Loc 1 40 (Pw 45 [(Glob 46 [(Select Img MaskE (Const 1))]); (Pw 37 [(Glob 46 [MaskE])])]))])]).
Definition sh_98 : expr := (Select sh_97 (Pw 44 [(Loc 1 40 (Pw 45 [(Glob 46 [(Select Img MaskE (Const 1))]); (Pw 37 [(Glob 46 [MaskE])])]))]) FalseC).
Definition sh_99 : expr := (Select sh_98 (Pw 47 [(Loc 1 40 (Pw 45 [(Glob 46 [(Select Img MaskE (Const 1))]); (Pw 37 [(Glob 46 [MaskE])])]))]) FalseC).
Definition sh_100 : expr := (Select sh_97 (Pw 47 [(Loc 1 40 (Pw 45 [(Glob 46 [(Select Img MaskE (Const 1))]); (Pw 37 [(Glob 46 [MaskE])])]))]) FalseC).
Definition sh_101 : expr := (Select sh_100 (Pw 44 [(Loc 1 40 (Pw 45 [(Glob 46 [(Select Img MaskE (Const 1))]); (Pw 37 [(Glob 46 [MaskE])])]))]) FalseC).
Definition sh_102 : expr := (Pw 49 [sh_99; sh_101]).
Definition sh_103 : expr := (Select sh_102 sh_68 FalseC).
Definition sh_104 : expr := (Select sh_60 sh_103 FalseC).
Definition sh_105 : expr := (Glob 5 [sh_104; sh_103]).
Definition sh_106 : expr := (Select (Pw 39 [(Loc 1 40 (Pw 45 [(Glob 46 [(Select Img MaskE (Const 1))]); (Pw 37 [(Glob 46 [MaskE])])]))]) sh_103 FalseC).
Definition sh_107 : expr := (Glob 5 [sh_106; sh_103]).
Definition sh_108 : expr := (Pw 45 [sh_107; sh_107]).
Definition sh_109 : expr := (Pw 41 [sh_105; sh_108]).
Definition sh_110 : expr := (Loc 1 52 sh_58).
Definition sh_111 : expr := (Select sh_110 sh_103 FalseC).
Definition sh_112 : expr := (Glob 5 [sh_111; sh_103]).
Definition sh_113 : expr := (Pw 27 [sh_108]).
Definition sh_114 : expr := (Pw 41 [sh_112; sh_113]).
Definition sh_115 : expr := (Pw 37 [sh_109; sh_114]).
Definition sh_116 : expr := (Select sh_58 sh_103 FalseC).
Definition sh_117 : expr := (Glob 5 [sh_116; sh_103]).
Definition sh_118 : expr := (Pw 47 [sh_115; sh_117]).
Definition sh_119 : expr := (Select sh_85 sh_103 FalseC).
Definition sh_120 : expr := (Glob 5 [sh_119; sh_103]).
Definition sh_121 : expr := (Pw 41 [sh_120; sh_108]).
Definition sh_122 : expr := (Loc 1 53 sh_58).
Definition sh_123 : expr := (Select sh_122 sh_103 FalseC).
Definition sh_124 : expr := (Glob 5 [sh_123; sh_103]).
Definition sh_125 : expr := (Pw 41 [sh_124; sh_113]).
Definition sh_126 : expr := (Pw 37 [sh_121; sh_125]).
Definition sh_127 : expr := (Pw 47 [sh_126; sh_117]).
Definition sh_128 : expr := (Select sh_118 sh_127 FalseC).
Definition sh_129 : expr := (Glob 7 [sh_128; sh_103]).
Definition sh_130 : expr := (Loc 1 54 sh_58).
Definition sh_131 : expr := (Select sh_98 (Pw 44 [(Loc 1 40 (Pw 45 [(Glob 46 [(Select Img MaskE (Const 1))]); (Pw 37 [(Glob 46 [MaskE])])]))]) FalseC).
Definition sh_132 : expr := (Select sh_100 (Pw 47 [(Loc 1 40 (Pw 45 [(Glob 46 [(Select Img MaskE (Const 1))]); (Pw 37 [(Glob 46 [MaskE])])]))]) FalseC).
Definition sh_133 : expr := (Pw 49 [sh_131; sh_132]).
Definition sh_134 : expr := (Select sh_133 sh_68 FalseC).
Definition sh_135 : expr := (Select sh_130 sh_134 FalseC).
Definition sh_136 : expr := (Glob 5 [sh_135; sh_134]).
Definition sh_137 : expr := (Select (Pw 39 [(Loc 1 40 (Pw 45 [(Glob 46 [(Select Img MaskE (Const 1))]); (Pw 37 [(Glob 46 [MaskE])])]))]) sh_134 FalseC).
Definition sh_138 : expr := (Glob 5 [sh_137; sh_134]).
Definition sh_139 : expr := (Pw 45 [sh_138; sh_138]).
Definition sh_140 : expr := (Pw 41 [sh_136; sh_139]).
Definition sh_141 : expr := (Select sh_110 sh_134 FalseC).
Definition sh_142 : expr := (Glob 5 [sh_141; sh_134]).
Definition sh_143 : expr := (Pw 27 [sh_139]).
Definition sh_144 : expr := (Pw 41 [sh_142; sh_143]).
Definition sh_145 : expr := (Pw 37 [sh_140; sh_144]).
Definition sh_146 : expr := (Select sh_58 sh_134 FalseC).
Definition sh_147 : expr := (Glob 5 [sh_146; sh_134]).
Definition sh_148 : expr := (Pw 47 [sh_145; sh_147]).
Definition sh_149 : expr := (Loc 1 43 sh_58).
Definition sh_150 : expr := (Select sh_149 sh_134 FalseC).
Definition sh_151 : expr := (Glob 5 [sh_150; sh_134]).
Definition sh_152 : expr := (Pw 41 [sh_151; sh_139]).
Definition sh_153 : expr := (Select sh_122 sh_134 FalseC).
Definition sh_154 : expr := (Glob 5 [sh_153; sh_134]).
Definition sh_155 : expr := (Pw 41 [sh_154; sh_143]).
Definition sh_156 : expr := (Pw 37 [sh_152; sh_155]).
Definition sh_157 : expr := (Pw 47 [sh_156; sh_147]).
Definition sh_158 : expr := (Select sh_148 sh_157 FalseC).
Definition sh_159 : expr := (Glob 7 [sh_158; sh_134]).
Definition sh_160 : expr := (Select sh_62 (Pw 44 [(Loc 1 40 (Pw 45 [(Glob 46 [(Select Img MaskE (Const 1))]); (Pw 37 [(Glob 46 [MaskE])])]))]) FalseC).
Definition sh_161 : expr := (Select sh_64 (Pw 47 [(Loc 1 40 (Pw 45 [(Glob 46 [(Select Img MaskE (Const 1))]); (Pw 37 [(Glob 46 [MaskE])])]))]) FalseC).
Definition sh_162 : expr := (Pw 49 [sh_160; sh_161]).
Definition sh_163 : expr := (Select sh_162 sh_68 FalseC).
Definition sh_164 : expr := (Select sh_130 sh_163 FalseC).
Definition sh_165 : expr := (Glob 5 [sh_164; sh_163]).
Definition sh_166 : expr := (Select (Pw 39 [(Loc 1 40 (Pw 45 [(Glob 46 [(Select Img MaskE (Const 1))]); (Pw 37 [(Glob 46 [MaskE])])]))]) sh_163 FalseC).
Definition sh_167 : expr := (Glob 5 [sh_166; sh_163]).
Definition sh_168 : expr := (Pw 45 [sh_167; sh_167]).
Definition sh_169 : expr := (Pw 41 [sh_165; sh_168]).
Definition sh_170 : expr := (Select sh_89 sh_163 FalseC).
Definition sh_171 : expr := (Glob 5 [sh_170; sh_163]).
Definition sh_172 : expr := (Pw 27 [sh_168]).
Definition sh_173 : expr := (Pw 41 [sh_171; sh_172]).
Definition sh_174 : expr := (Pw 37 [sh_169; sh_173]).
Definition sh_175 : expr := (Select sh_58 sh_163 FalseC).
Definition sh_176 : expr := (Glob 5 [sh_175; sh_163]).
Definition sh_177 : expr := (Pw 47 [sh_174; sh_176]).
Definition sh_178 : expr := (Select sh_149 sh_163 FalseC).
Definition sh_179 : expr := (Glob 5 [sh_178; sh_163]).
Definition sh_180 : expr := (Pw 41 [sh_179; sh_168]).
Definition sh_181 : expr := (Select sh_76 sh_163 FalseC).
Definition sh_182 : expr := (Glob 5 [sh_181; sh_163]).
Definition sh_183 : expr := (Pw 41 [sh_182; sh_172]).
Definition sh_184 : expr := (Pw 37 [sh_180; sh_183]).
Definition sh_185 : expr := (Pw 47 [sh_184; sh_176]).
Definition sh_186 : expr := (Select sh_177 sh_185 FalseC).
Definition sh_187 : expr := (Glob 7 [sh_186; sh_163]).
Definition sh_188 : expr := (Select sh_187 sh_163 (Const 1)).
Definition sh_189 : expr := (Select sh_159 sh_134 sh_188).
Definition sh_190 : expr := (Select sh_129 sh_103 sh_189).
Definition sh_191 : expr := (Select sh_96 sh_69 sh_190).
Definition sh_192 : expr := (Select sh_59 sh_191 FalseC).
Definition sh_193 : expr := (Glob 56 [sh_192]).
Definition sh_194 : expr := (Glob 15 [sh_193]).
Definition sh_195 : expr := (Pw 55 [sh_194]).
Definition sh_196 : expr := (Pw 37 [sh_194]).
Definition sh_197 : expr := (Glob 58 [sh_196]).
Definition sh_198 : expr := (Glob 17 [sh_193]).
Definition sh_199 : expr := (Glob 61 [sh_194]).
Definition sh_200 : expr := (Pw 37 [sh_199]).
Definition sh_201 : expr := (Glob 60 [sh_192; sh_198; sh_200]).
Definition sh_202 : expr := (Glob 59 [sh_201]).
Definition sh_203 : expr := (Pw 21 [sh_202]).
Definition sh_204 : expr := (Glob 57 [sh_197; sh_203]).
Definition sh_205 : expr := (Glob 14 [sh_204; sh_198]).
Definition sh_206 : expr := (Select sh_192 sh_195 sh_205).
Definition sh_207 : expr := (Select (Pw 37 [(Glob 62 [(Select (Pw 0 [Img]) MaskE FalseC)]); (Pw 41 [(Glob 62 [(Pw 2 [MaskE])]); Img])]) MaskE Img).
Definition sh_208 : expr := (Pw 27 [(Pw 45 [(Glob 63 [(Pw 38 [(Select (Pw 0 [Img]) MaskE FalseC)])]); (Glob 63 [MaskE])]); (Pw 38 [(Pw 45 [(Glob 63 [(Select (Pw 0 [Img]) MaskE FalseC)]); (Glob 63 [MaskE])])])]).
Definition sh_209 : expr := (Select (Glob 7 [(Glob 20 [(Glob 5 [(Select (Pw 65 [Img]) MaskE FalseC); MaskE])]); MaskE]) MaskE (Pw 65 [Img])).
Definition sh_210 : expr := (Pw 55 [(Glob 20 [(Glob 5 [(Select (Pw 65 [Img]) MaskE FalseC); MaskE])]); (Glob 22 [(Glob 5 [(Select (Pw 65 [Img]) MaskE FalseC); MaskE])])]).
Definition sh_211 : expr := (Pw 27 [(Glob 5 [(Select (Pw 65 [Img]) MaskE FalseC); MaskE]); (Glob 20 [(Glob 5 [(Select (Pw 65 [Img]) MaskE FalseC); MaskE])])]).
Definition sh_212 : expr := (Pw 27 [(Glob 22 [(Glob 5 [(Select (Pw 65 [Img]) MaskE FalseC); MaskE])]); (Glob 20 [(Glob 5 [(Select (Pw 65 [Img]) MaskE FalseC); MaskE])])]).
Definition sh_213 : expr := (Pw 45 [sh_211; sh_212]).
Definition sh_214 : expr := (Glob 7 [sh_213; MaskE]).
Definition sh_215 : expr := (Select sh_214 MaskE (Pw 65 [Img])).
Definition sh_216 : expr := (Select sh_209 sh_210 sh_215).
Definition sh_217 : expr := (Select (Pw 65 [Img]) (Pw 55 [(Glob 66 [MaskE])]) sh_216).
Definition sh_218 : expr := (Select (Pw 65 [Img]) (Const 4) sh_217).
Definition sh_219 : expr := (Glob 5 [(Select (Const 5) (Select (Pw 21 [Img]) MaskE FalseC) FalseC); (Select (Pw 21 [Img]) MaskE FalseC)]).
Definition sh_220 : expr := (Glob 5 [(Select (Const 6) (Select (Pw 21 [Img]) MaskE FalseC) FalseC); (Select (Pw 21 [Img]) MaskE FalseC)]).
Definition sh_221 : expr := (Glob 5 [(Select (Const 2) (Select (Pw 21 [Img]) MaskE FalseC) FalseC); (Select (Pw 21 [Img]) MaskE FalseC)]).
Definition sh_222 : expr := (Pw 65 [sh_219; sh_219; sh_220; sh_220; sh_220; sh_221]).
Definition sh_223 : expr := (Glob 69 [sh_222]).
Definition sh_224 : expr := (Glob 5 [(Select Img (Select (Pw 21 [Img]) MaskE FalseC) FalseC); (Select (Pw 21 [Img]) MaskE FalseC)]).
Definition sh_225 : expr := (Glob 68 [sh_223; sh_224]).
Definition sh_226 : expr := (Glob 14 [sh_225]).
Definition sh_227 : expr := (Glob 67 [sh_226]).
Definition sh_228 : expr := (Glob 60 [sh_227]).
Definition sh_229 : expr := (Pw 21 [sh_228]).
Definition sh_230 : expr := (Select (Const 3) sh_229 sh_228).
Definition sh_231 : expr := (Pw 19 [sh_230]).
Definition sh_232 : expr := (Select FalseC sh_231 sh_230).
Definition sh_233 : expr := (Select sh_232 (Const 7) sh_228).
Definition sh_234 : expr := (Select sh_233 (Glob 13 [(Select (Pw 21 [Img]) MaskE FalseC)]) Img).
Definition sh_235 : expr := (Select (Pw 45 [(Glob 70 [(Select Img MaskE FalseC); MaskE]); (Glob 70 [(Pw 71 [MaskE])])]) (Pw 72 [(Glob 70 [(Pw 71 [MaskE])])]) (Glob 70 [(Select Img MaskE FalseC); MaskE])).
Definition sh_236 : expr := (Pw 55 [(Glob 20 [(Glob 5 [(Select Img MaskE FalseC); MaskE])]); (Glob 22 [(Glob 5 [(Select Img MaskE FalseC); MaskE])])]).
Definition sh_237 : expr := (Pw 75 [Img; (Glob 20 [(Glob 5 [(Select Img MaskE FalseC); MaskE])]); (Glob 22 [(Glob 5 [(Select Img MaskE FalseC); MaskE])])]).
Definition sh_238 : expr := (Select sh_237 MaskE FalseC).
Definition sh_239 : expr := (Glob 74 [sh_238; (Glob 20 [(Glob 5 [(Select Img MaskE FalseC); MaskE])]); (Glob 22 [(Glob 5 [(Select Img MaskE FalseC); MaskE])])]).
Definition sh_240 : expr := (Select Img sh_236 sh_239).
Definition sh_241 : expr := (Select (Const 8) (Glob 73 [(Glob 5 [(Select Img MaskE FalseC); MaskE])]) sh_240).
Definition sh_242 : expr := (Select (Glob 11 [(Select (Select (Pw 2 [(Loc 1 12 Img)]) (ErodeP 1 MaskE) FalseC) MaskE FalseC)]) (Glob 13 [(Select (Select (Pw 2 [(Loc 1 12 Img)]) (ErodeP 1 MaskE) FalseC) MaskE FalseC)]) (Select (Select (Pw 2 [(Loc 1 12 Img)]) (ErodeP 1 MaskE) FalseC) MaskE FalseC)).
Definition sh_243 : expr := (Glob 78 [(Glob 79 [(Glob 17 [(Glob 80 [(Select (Pw 0 [(Pw 71 [Img])]) MaskE FalseC)])])]); (Glob 17 [(Glob 80 [(Select (Pw 0 [(Pw 71 [Img])]) MaskE FalseC)])]); (Glob 15 [(Glob 80 [(Select (Pw 0 [(Pw 71 [Img])]) MaskE FalseC)])]); (Glob 81 [(Glob 80 [(Select (Pw 0 [(Pw 71 [Img])]) MaskE FalseC)])])]).
Definition sh_244 : expr := (Glob 82 [(Glob 79 [(Glob 17 [(Glob 80 [(Select (Pw 0 [(Pw 71 [Img])]) MaskE FalseC)])])]); (Glob 17 [(Glob 80 [(Select (Pw 0 [(Pw 71 [Img])]) MaskE FalseC)])]); (Glob 15 [(Glob 80 [(Select (Pw 0 [(Pw 71 [Img])]) MaskE FalseC)])]); (Glob 81 [(Glob 80 [(Select (Pw 0 [(Pw 71 [Img])]) MaskE FalseC)])])]).
Definition sh_245 : expr := (Glob 77 [sh_243; sh_244]).
Definition sh_246 : expr := (Select Img sh_245 (Const 8)).
Definition sh_247 : expr := (Select sh_246 MaskE Img).
Definition sh_248 : expr := (Glob 78 [(Glob 17 [(Glob 80 [(Select (Pw 0 [(Pw 71 [Img])]) MaskE FalseC)])]); (Glob 15 [(Glob 80 [(Select (Pw 0 [(Pw 71 [Img])]) MaskE FalseC)])]); (Glob 81 [(Glob 80 [(Select (Pw 0 [(Pw 71 [Img])]) MaskE FalseC)])])]).
Definition sh_249 : expr := (Glob 82 [(Glob 17 [(Glob 80 [(Select (Pw 0 [(Pw 71 [Img])]) MaskE FalseC)])]); (Glob 15 [(Glob 80 [(Select (Pw 0 [(Pw 71 [Img])]) MaskE FalseC)])]); (Glob 81 [(Glob 80 [(Select (Pw 0 [(Pw 71 [Img])]) MaskE FalseC)])])]).
Definition sh_250 : expr := (Glob 77 [sh_248; sh_249]).
Definition sh_251 : expr := (Select Img sh_250 (Const 8)).
Definition sh_252 : expr := (Select sh_251 MaskE Img).
Definition sh_253 : expr := (Select sh_247 (Const 10) sh_252).
Definition sh_254 : expr := (Glob 78 [(Glob 79 [(Glob 17 [(Glob 80 [(Select (Pw 0 [Img]) MaskE FalseC)])])]); (Glob 17 [(Glob 80 [(Select (Pw 0 [Img]) MaskE FalseC)])]); (Glob 15 [(Glob 80 [(Select (Pw 0 [Img]) MaskE FalseC)])]); (Glob 81 [(Glob 80 [(Select (Pw 0 [Img]) MaskE FalseC)])])]).
Definition sh_255 : expr := (Glob 82 [(Glob 79 [(Glob 17 [(Glob 80 [(Select (Pw 0 [Img]) MaskE FalseC)])])]); (Glob 17 [(Glob 80 [(Select (Pw 0 [Img]) MaskE FalseC)])]); (Glob 15 [(Glob 80 [(Select (Pw 0 [Img]) MaskE FalseC)])]); (Glob 81 [(Glob 80 [(Select (Pw 0 [Img]) MaskE FalseC)])])]).
Definition sh_256 : expr := (Glob 77 [sh_254; sh_255]).
Definition sh_257 : expr := (Select Img sh_256 (Const 8)).
Definition sh_258 : expr := (Select sh_257 MaskE Img).
Definition sh_259 : expr := (Glob 78 [(Glob 17 [(Glob 80 [(Select (Pw 0 [Img]) MaskE FalseC)])]); (Glob 15 [(Glob 80 [(Select (Pw 0 [Img]) MaskE FalseC)])]); (Glob 81 [(Glob 80 [(Select (Pw 0 [Img]) MaskE FalseC)])])]).
Definition sh_260 : expr := (Glob 82 [(Glob 17 [(Glob 80 [(Select (Pw 0 [Img]) MaskE FalseC)])]); (Glob 15 [(Glob 80 [(Select (Pw 0 [Img]) MaskE FalseC)])]); (Glob 81 [(Glob 80 [(Select (Pw 0 [Img]) MaskE FalseC)])])]).
Definition sh_261 : expr := (Glob 77 [sh_259; sh_260]).
Definition sh_262 : expr := (Select Img sh_261 (Const 8)).
Definition sh_263 : expr := (Select sh_262 MaskE Img).
Definition sh_264 : expr := (Select sh_258 (Const 10) sh_263).
Definition sh_265 : expr := (Glob 5 [(Select (Const 11) (Select (Pw 0 [(Pw 71 [Img])]) MaskE FalseC) FalseC); (Select (Pw 0 [(Pw 71 [Img])]) MaskE FalseC)]).
Definition sh_266 : expr := (Select (Glob 76 [(Select (Pw 0 [(Pw 71 [Img])]) MaskE FalseC)]) (Select (Pw 0 [(Pw 71 [Img])]) MaskE FalseC) FalseC).
Definition sh_267 : expr := (Glob 5 [sh_266; (Select (Pw 0 [(Pw 71 [Img])]) MaskE FalseC)]).
Definition sh_268 : expr := (Glob 14 [(Glob 85 [(Select (Pw 0 [(Pw 71 [Img])]) MaskE FalseC)]); (Pw 0 [(Select (Pw 0 [(Pw 71 [Img])]) MaskE FalseC)])]).
Definition sh_269 : expr := (Glob 84 [sh_265; sh_267; sh_268]).
Definition sh_270 : expr := (Pw 10 [sh_269]).
Definition sh_271 : expr := (Glob 83 [(Pw 10 [(Pw 0 [(Select (Pw 0 [(Pw 71 [Img])]) MaskE FalseC)])]); (Pw 10 [(Glob 14 [(Pw 0 [(Select (Pw 0 [(Pw 71 [Img])]) MaskE FalseC)])])]); (Pw 10 [(Glob 14 [(Pw 0 [(Select (Pw 0 [(Pw 71 [Img])]) MaskE FalseC)])])]); sh_270]).
Definition sh_272 : expr := (Pw 71 [sh_271]).
Definition sh_273 : expr := (Select sh_272 MaskE Img).
Definition sh_274 : expr := (Glob 84 [sh_265; sh_267; (Glob 14 [(Pw 0 [(Select (Pw 0 [(Pw 71 [Img])]) MaskE FalseC)])])]).
Definition sh_275 : expr := (Pw 10 [sh_274]).
Definition sh_276 : expr := (Glob 83 [(Pw 10 [(Pw 0 [(Select (Pw 0 [(Pw 71 [Img])]) MaskE FalseC)])]); (Pw 10 [(Glob 14 [(Pw 0 [(Select (Pw 0 [(Pw 71 [Img])]) MaskE FalseC)])])]); (Pw 10 [(Glob 14 [(Pw 0 [(Select (Pw 0 [(Pw 71 [Img])]) MaskE FalseC)])])]); sh_275]).
Definition sh_277 : expr := (Pw 71 [sh_276]).
Definition sh_278 : expr := (Select sh_277 MaskE Img).
Definition sh_279 : expr := (Select sh_273 (Const 10) sh_278).

(* median_filter_unmasked_minmax:  Select (Pw copy [Img]) (Glob all [Pw not [MaskE]]) (Select (Glob take [Glob rank_order.translation [Glob gather [Select (Img) (MaskE) (FalseC); MaskE]]; Glob _filter.median_filter [Select (Glob scatter [Select (Glob rank_order.ranks [Glob gather [Select (Img) (MaskE) (FalseC); MaskE]]) (Glob needs_ranking [Img]) (Glob gather [Select (Img) (MaskE) (FalseC); MaskE]); MaskE]) (MaskE) (Const<zeros_uint8>); Pw ascontiguousarray [MaskE]]]) (Glob needs_ranking [Img]) (Glob _filter.median_filter [Select (Glob scatter [Select (Glob rank_order.ranks [Glob gather [Select (Img) (MaskE) (FalseC); MaskE]])  ... *)
Definition prog_median_filter_unmasked_minmax : expr :=
  sh_6.
Example median_filter_unmasked_minmax_rejected : accepts prog_median_filter_unmasked_minmax = false.
Proof. vm_compute. reflexivity. Qed.

(* regional_maximum_unmasked_ties:  Select (Glob one_pixel_per_component(edt,label,rank_order,maximum_position) [Select (Pw not [Loc 1 has_greater_neighbour (Img)]) (ErodeP 1 (MaskE)) (FalseC)]) (Glob any [Select (Pw not [Loc 1 has_greater_neighbour (Img)]) (ErodeP 1 (MaskE)) (FalseC)]) (Select (Pw not [Loc 1 has_greater_neighbour (Img)]) (ErodeP 1 (MaskE)) (FalseC)) *)
Definition prog_regional_maximum_unmasked_ties : expr :=
  sh_7.
Example regional_maximum_unmasked_ties_rejected : accepts prog_regional_maximum_unmasked_ties = false.
Proof. vm_compute. reflexivity. Qed.

(* median_filter:  Select (Pw copy [Img]) (Glob all [Pw not [MaskE]]) (Select (Glob index [Glob unpack1 [Glob rank_order [Glob gather [Select (Img) (MaskE) (FalseC); MaskE]]]; Glob _filter.median_filter [Select (Glob scatter [Glob unpack0 [Glob rank_order [Glob gather [Select (Img) (MaskE) (FalseC); MaskE]]]; MaskE]) (MaskE) (Const<zeros(..)>); MaskE]]) (Pw or [Pw lt [Glob min [Glob gather [Select (Img) (MaskE) (FalseC); MaskE]]]; Pw gt [Glob max [Glob gather [Select (Img) (MaskE) (FalseC); MaskE]]]]) (Glob _filter.median_filter [Select (Img) (MaskE) (Const<zeros(..)>); MaskE])) *)
Definition prog_median_filter : expr :=
  sh_13.
Example median_filter_ok : accepts prog_median_filter = true.
Proof. vm_compute. reflexivity. Qed.

(* grey_erosion:  Select (Glob cropiradius:-iradius,iradius:-iradius [Glob grey_erosion [Glob setsliceiradius:-iradius,iradius:-iradius [Const<ones(..)>; Select (Img) (MaskE) (Const<1>)]]]) (MaskE) (Img) *)
Definition prog_grey_erosion : expr :=
  (Select (Glob 23 [(Glob 24 [(Glob 25 [(Const 2); (Select Img MaskE (Const 3))])])]) MaskE Img).
Example grey_erosion_ok : accepts prog_grey_erosion = true.
Proof. vm_compute. reflexivity. Qed.

(* grey_dilation:  Select (Glob cropiradius:-iradius,iradius:-iradius [Glob grey_dilation [Glob setsliceiradius:-iradius,iradius:-iradius [Const<zeros(..)>; Select (Img) (MaskE) (FalseC)]]]) (MaskE) (Img) *)
Definition prog_grey_dilation : expr :=
  (Select (Glob 23 [(Glob 26 [(Glob 25 [(Const 1); (Select Img MaskE FalseC)])])]) MaskE Img).
Example grey_dilation_ok : accepts prog_grey_dilation = true.
Proof. vm_compute. reflexivity. Qed.

(* opening:  Select (Glob cropiradius:-iradius,iradius:-iradius [Glob grey_dilation [Glob setsliceiradius:-iradius,iradius:-iradius [Const<zeros(..)>; Select (Select (Glob cropiradius:-iradius,iradius:-iradius [Glob grey_erosion [Glob setsliceiradius:-iradius,iradius:-iradius [Const<ones(..)>; Select (Img) (MaskE) (Const<1>)]]]) (MaskE) (Img)) (MaskE) (FalseC)]]]) (MaskE) (Select (Glob cropiradius:-iradius,iradius:-iradius [Glob grey_erosion [Glob setsliceiradius:-iradius,iradius:-iradius [Const<ones(..)>; Select (Img) (MaskE) (Const<1>)]]]) (MaskE) (Img)) *)
Definition prog_opening : expr :=
  sh_18.
Example opening_ok : accepts prog_opening = true.
Proof. vm_compute. reflexivity. Qed.

(* closing:  Select (Glob cropiradius:-iradius,iradius:-iradius [Glob grey_erosion [Glob setsliceiradius:-iradius,iradius:-iradius [Const<ones(..)>; Select (Select (Glob cropiradius:-iradius,iradius:-iradius [Glob grey_dilation [Glob setsliceiradius:-iradius,iradius:-iradius [Const<zeros(..)>; Select (Img) (MaskE) (FalseC)]]]) (MaskE) (Img)) (MaskE) (Const<1>)]]]) (MaskE) (Select (Glob cropiradius:-iradius,iradius:-iradius [Glob grey_dilation [Glob setsliceiradius:-iradius,iradius:-iradius [Const<zeros(..)>; Select (Img) (MaskE) (FalseC)]]]) (MaskE) (Img)) *)
Definition prog_closing : expr :=
  sh_23.
Example closing_ok : accepts prog_closing = true.
Proof. vm_compute. reflexivity. Qed.

(* white_tophat:  Select (Pw sub [Img; Select (Glob cropiradius:-iradius,iradius:-iradius [Glob grey_dilation [Glob setsliceiradius:-iradius,iradius:-iradius [Const<zeros(..)>; Select (Select (Glob cropiradius:-iradius,iradius:-iradius [Glob grey_erosion [Glob setsliceiradius:-iradius,iradius:-iradius [Const<ones(..)>; Select (Img) (MaskE) (Const<1>)]]]) (MaskE) (Img)) (MaskE) (FalseC)]]]) (MaskE) (Select (Glob cropiradius:-iradius,iradius:-iradius [Glob grey_erosion [Glob setsliceiradius:-iradius,iradius:-iradius [Const<ones(..)>; Select (Img) (MaskE) (Const<1>)]]]) (MaskE) (Img))]) (MaskE) (Img) *)
Definition prog_white_tophat : expr :=
  sh_25.
Example white_tophat_ok : accepts prog_white_tophat = true.
Proof. vm_compute. reflexivity. Qed.

(* black_tophat:  Select (Pw sub [Select (Glob cropiradius:-iradius,iradius:-iradius [Glob grey_erosion [Glob setsliceiradius:-iradius,iradius:-iradius [Const<ones(..)>; Select (Select (Glob cropiradius:-iradius,iradius:-iradius [Glob grey_dilation [Glob setsliceiradius:-iradius,iradius:-iradius [Const<zeros(..)>; Select (Img) (MaskE) (FalseC)]]]) (MaskE) (Img)) (MaskE) (Const<1>)]]]) (MaskE) (Select (Glob cropiradius:-iradius,iradius:-iradius [Glob grey_dilation [Glob setsliceiradius:-iradius,iradius:-iradius [Const<zeros(..)>; Select (Img) (MaskE) (FalseC)]]]) (MaskE) (Img)); Img]) (MaskE) (Img) *)
Definition prog_black_tophat : expr :=
  sh_27.
Example black_tophat_ok : accepts prog_black_tophat = true.
Proof. vm_compute. reflexivity. Qed.

(* openlines:  Pw sub [Pw max_axis0 [Select (Glob cropiradius:-iradius,iradius:-iradius [Glob grey_dilation@angle0 [Glob setsliceiradius:-iradius,iradius:-iradius [Const<zeros(..)>; Select (Select (Glob cropiradius:-iradius,iradius:-iradius [Glob grey_erosion@angle0 [Glob setsliceiradius:-iradius,iradius:-iradius [Const<ones(..)>; Select (Img) (MaskE) (Const<1>)]]]) (MaskE) (Img)) (MaskE) (FalseC)]]]) (MaskE) (Select (Glob cropiradius:-iradius,iradius:-iradius [Glob grey_erosion@angle0 [Glob setsliceiradius:-iradius,iradius:-iradius [Const<ones(..)>; Select (Img) (MaskE) (Const<1>)]]]) (MaskE) (Img)); Select ... *)
Definition prog_openlines : expr :=
  sh_45.
Example openlines_ok : accepts prog_openlines = true.
Proof. vm_compute. reflexivity. Qed.

(* sobel:  Pw sqrt [Pw add [Pw pow [Select (Pw abs [Loc 1 convolve3x3 (Img)]) (Erode 1 (MaskE)) (FalseC)]; Pw pow [Select (Pw abs [Loc 1 convolve3x3 (Img)]) (Erode 1 (MaskE)) (FalseC)]]] *)
Definition prog_sobel : expr :=
  sh_47.
Example sobel_ok : accepts prog_sobel = true.
Proof. vm_compute. reflexivity. Qed.

(* hsobel:  Select (Pw abs [Loc 1 convolve3x3 (Img)]) (Erode 1 (MaskE)) (FalseC) *)
Definition prog_hsobel : expr :=
  (Select (Pw 39 [(Loc 1 40 Img)]) (Erode 1 MaskE) FalseC).
Example hsobel_ok : accepts prog_hsobel = true.
Proof. vm_compute. reflexivity. Qed.

(* vsobel:  Select (Pw abs [Loc 1 convolve3x3 (Img)]) (Erode 1 (MaskE)) (FalseC) *)
Definition prog_vsobel : expr :=
  (Select (Pw 39 [(Loc 1 40 Img)]) (Erode 1 MaskE) FalseC).
Example vsobel_ok : accepts prog_vsobel = true.
Proof. vm_compute. reflexivity. Qed.

(* prewitt:  Pw sqrt [Pw add [Pw pow [Select (Pw abs [Loc 1 convolve3x3 (Img)]) (Erode 1 (MaskE)) (FalseC)]; Pw pow [Select (Pw abs [Loc 1 convolve3x3 (Img)]) (Erode 1 (MaskE)) (FalseC)]]] *)
Definition prog_prewitt : expr :=
  sh_47.
Example prewitt_ok : accepts prog_prewitt = true.
Proof. vm_compute. reflexivity. Qed.

(* hprewitt:  Select (Pw abs [Loc 1 convolve3x3 (Img)]) (Erode 1 (MaskE)) (FalseC) *)
Definition prog_hprewitt : expr :=
  (Select (Pw 39 [(Loc 1 40 Img)]) (Erode 1 MaskE) FalseC).
Example hprewitt_ok : accepts prog_hprewitt = true.
Proof. vm_compute. reflexivity. Qed.

(* vprewitt:  Select (Pw abs [Loc 1 convolve3x3 (Img)]) (Erode 1 (MaskE)) (FalseC) *)
Definition prog_vprewitt : expr :=
  (Select (Pw 39 [(Loc 1 40 Img)]) (Erode 1 MaskE) FalseC).
Example vprewitt_ok : accepts prog_vprewitt = true.
Proof. vm_compute. reflexivity. Qed.

(* roberts:  Select (Glob scatter [Pw sqrt [Pw add [Pw mult [Pw sub [Glob gather [Select (Img) (Erode 1 (MaskE)) (FalseC); Erode 1 (MaskE)]; Glob gather [Select (Loc 1 shift(-1,+1) (Img)) (Erode 1 (MaskE)) (FalseC); Erode 1 (MaskE)]]; Pw sub [Glob gather [Select (Img) (Erode 1 (MaskE)) (FalseC); Erode 1 (MaskE)]; Glob gather [Select (Loc 1 shift(-1,+1) (Img)) (Erode 1 (MaskE)) (FalseC); Erode 1 (MaskE)]]]; Pw mult [Pw sub [Glob gather [Select (Img) (Erode 1 (MaskE)) (FalseC); Erode 1 (MaskE)]; Glob gather [Select (Loc 1 shift(+1,+1) (Img)) (Erode 1 (MaskE)) (FalseC); Erode 1 (MaskE)]]; Pw sub [Glob gather  ... *)
Definition prog_roberts : expr :=
  sh_55.
Example roberts_ok : accepts prog_roberts = true.
Proof. vm_compute. reflexivity. Qed.

(* canny:  Select (Select (Pw gte [Pw sqrt [Pw add [Pw mult [Loc 1 convolve3x3 (Pw div [Glob function [Select (Img) (MaskE) (Const<zeros(..)>)]; Pw add [Glob function [MaskE]]]); Loc 1 convolve3x3 (Pw div [Glob function [Select (Img) (MaskE) (Const<zeros(..)>)]; Pw add [Glob function [MaskE]]])]; Pw mult [Loc 1 convolve3x3 (Pw div [Glob function [Select (Img) (MaskE) (Const<zeros(..)>)]; Pw add [Glob function [MaskE]]]); Loc 1 convolve3x3 (Pw div [Glob function [Select (Img) (MaskE) (Const<zeros(..)>)]; Pw add [Glob function [MaskE]]])]]]]) (Select (Glob scatter [Select (Pw lte [Pw add [Pw mult [Glob gat ... *)
Definition prog_canny : expr :=
  sh_206.
Example canny_ok : accepts prog_canny = true.
Proof. vm_compute. reflexivity. Qed.

(* laplacian_of_gaussian:  Select (Pw add [Glob convolve [Select (Pw copy [Img]) (MaskE) (FalseC)]; Pw mult [Glob convolve [Pw not [MaskE]]; Img]]) (MaskE) (Img) *)
Definition prog_laplacian_of_gaussian : expr :=
  sh_207.
Example laplacian_of_gaussian_ok : accepts prog_laplacian_of_gaussian = true.
Proof. vm_compute. reflexivity. Qed.

(* variance_transform:  Pw sub [Pw div [Glob gaussian_filter [Pw pow [Select (Pw copy [Img]) (MaskE) (FalseC)]]; Glob gaussian_filter [MaskE]]; Pw pow [Pw div [Glob gaussian_filter [Select (Pw copy [Img]) (MaskE) (FalseC)]; Glob gaussian_filter [MaskE]]]] *)
Definition prog_variance_transform : expr :=
  sh_208.
Example variance_transform_ok : accepts prog_variance_transform = true.
Proof. vm_compute. reflexivity. Qed.

(* circular_average_filter:  Select (MConv kernel (Pw ascontiguousarray [Img]) (MaskE)) (MaskE) (Img) *)
Definition prog_circular_average_filter : expr :=
  (Select (MConv 64 (Pw 10 [Img]) MaskE) MaskE Img).
Example circular_average_filter_ok : accepts prog_circular_average_filter = true.
Proof. vm_compute. reflexivity. Qed.

(* smooth_with_function_and_mask:  Pw div [Glob function [Select (Img) (MaskE) (Const<zeros(..)>)]; Pw add [Glob function [MaskE]]] *)
Definition prog_smooth_with_function_and_mask : expr :=
  (Pw 45 [(Glob 46 [(Select Img MaskE (Const 1))]); (Pw 37 [(Glob 46 [MaskE])])]).
Example smooth_with_function_and_mask_ok : accepts prog_smooth_with_function_and_mask = true.
Proof. vm_compute. reflexivity. Qed.

(* stretch:  Select (Pw array [Img]) (Const<cmp>) (Select (Pw array [Img]) (Pw eq [Glob count_nonzero [MaskE]]) (Select (Select (Glob scatter [Glob min [Glob gather [Select (Pw array [Img]) (MaskE) (FalseC); MaskE]]; MaskE]) (MaskE) (Pw array [Img])) (Pw eq [Glob min [Glob gather [Select (Pw array [Img]) (MaskE) (FalseC); MaskE]]; Glob max [Glob gather [Select (Pw array [Img]) (MaskE) (FalseC); MaskE]]]) (Select (Glob scatter [Pw div [Pw sub [Glob gather [Select (Pw array [Img]) (MaskE) (FalseC); MaskE]; Glob min [Glob gather [Select (Pw array [Img]) (MaskE) (FalseC); MaskE]]]; Pw sub [Glob max [Glob gathe ... *)
Definition prog_stretch : expr :=
  sh_218.
Example stretch_ok : accepts prog_stretch = true.
Proof. vm_compute. reflexivity. Qed.

(* fit_polynomial:  Select (Select (Select (FalseC) (Pw lt [Select (Const<1>) (Pw gt [Glob sum [Glob opaque_expression [Glob index [Glob lstsq [Glob transpose [Pw array [Glob gather [Select (Const<unpacked>) (Select (Pw gt [Img]) (MaskE) (FalseC)) (FalseC); Select (Pw gt [Img]) (MaskE) (FalseC)]; Glob gather [Select (Const<unpacked>) (Select (Pw gt [Img]) (MaskE) (FalseC)) (FalseC); Select (Pw gt [Img]) (MaskE) (FalseC)]; Glob gather [Select (Const<expr>) (Select (Pw gt [Img]) (MaskE) (FalseC)) (FalseC); Select (Pw gt [Img]) (MaskE) (FalseC)]; Glob gather [Select (Const<expr>) (Select (Pw gt [Img]) (MaskE) (False ... *)
Definition prog_fit_polynomial : expr :=
  sh_234.
Example fit_polynomial_ok : accepts prog_fit_polynomial = true.
Proof. vm_compute. reflexivity. Qed.

(* circular_hough:  Select (Pw div [Glob sum_of_shifts [Select (Img) (MaskE) (FalseC); MaskE]; Glob sum_of_shifts [Pw astype [MaskE]]]) (Pw gt0 [Glob sum_of_shifts [Pw astype [MaskE]]]) (Glob sum_of_shifts [Select (Img) (MaskE) (FalseC); MaskE]) *)
Definition prog_circular_hough : expr :=
  sh_235.
Example circular_hough_ok : accepts prog_circular_hough = true.
Proof. vm_compute. reflexivity. Qed.

(* convex_hull_transform:  Select (Const<zeros>) (Glob len_is_0 [Glob gather [Select (Img) (MaskE) (FalseC); MaskE]]) (Select (Img) (Pw eq [Glob min [Glob gather [Select (Img) (MaskE) (FalseC); MaskE]]; Glob max [Glob gather [Select (Img) (MaskE) (FalseC); MaskE]]]) (Glob convex_hull_transform_core [Select (Pw rescale [Img; Glob min [Glob gather [Select (Img) (MaskE) (FalseC); MaskE]]; Glob max [Glob gather [Select (Img) (MaskE) (FalseC); MaskE]]]) (MaskE) (FalseC); Glob min [Glob gather [Select (Img) (MaskE) (FalseC); MaskE]]; Glob max [Glob gather [Select (Img) (MaskE) (FalseC); MaskE]]])) *)
Definition prog_convex_hull_transform : expr :=
  sh_241.
Example convex_hull_transform_ok : accepts prog_convex_hull_transform = true.
Proof. vm_compute. reflexivity. Qed.

(* regional_maximum:  Select (Glob one_pixel_per_component(edt,label,rank_order,maximum_position) [Select (Select (Pw not [Loc 1 has_greater_neighbour (Img)]) (ErodeP 1 (MaskE)) (FalseC)) (MaskE) (FalseC)]) (Glob any [Select (Select (Pw not [Loc 1 has_greater_neighbour (Img)]) (ErodeP 1 (MaskE)) (FalseC)) (MaskE) (FalseC)]) (Select (Select (Pw not [Loc 1 has_greater_neighbour (Img)]) (ErodeP 1 (MaskE)) (FalseC)) (MaskE) (FalseC)) *)
Definition prog_regional_maximum : expr :=
  sh_242.
Example regional_maximum_ok : accepts prog_regional_maximum = true.
Proof. vm_compute. reflexivity. Qed.

(* bridge:  Select (Glob table_lookup [Select (Pw copy [Pw astype [Img]]) (MaskE) (FalseC)]) (MaskE) (Img) *)
Definition prog_bridge : expr :=
  (Select (Glob 76 [(Select (Pw 0 [(Pw 71 [Img])]) MaskE FalseC)]) MaskE Img).
Example bridge_ok : accepts prog_bridge = true.
Proof. vm_compute. reflexivity. Qed.
Example bridge_restores : restores_outside prog_bridge = true.
Proof. vm_compute. reflexivity. Qed.

(* clean:  Select (Glob table_lookup [Select (Pw copy [Pw astype [Img]]) (MaskE) (FalseC)]) (MaskE) (Img) *)
Definition prog_clean : expr :=
  (Select (Glob 76 [(Select (Pw 0 [(Pw 71 [Img])]) MaskE FalseC)]) MaskE Img).
Example clean_ok : accepts prog_clean = true.
Proof. vm_compute. reflexivity. Qed.
Example clean_restores : restores_outside prog_clean = true.
Proof. vm_compute. reflexivity. Qed.

(* diag:  Select (Glob table_lookup [Select (Pw copy [Pw astype [Img]]) (MaskE) (FalseC)]) (MaskE) (Img) *)
Definition prog_diag : expr :=
  (Select (Glob 76 [(Select (Pw 0 [(Pw 71 [Img])]) MaskE FalseC)]) MaskE Img).
Example diag_ok : accepts prog_diag = true.
Proof. vm_compute. reflexivity. Qed.
Example diag_restores : restores_outside prog_diag = true.
Proof. vm_compute. reflexivity. Qed.

(* endpoints:  Select (Glob table_lookup [Select (Pw copy [Pw astype [Img]]) (MaskE) (FalseC)]) (MaskE) (Img) *)
Definition prog_endpoints : expr :=
  (Select (Glob 76 [(Select (Pw 0 [(Pw 71 [Img])]) MaskE FalseC)]) MaskE Img).
Example endpoints_ok : accepts prog_endpoints = true.
Proof. vm_compute. reflexivity. Qed.
Example endpoints_restores : restores_outside prog_endpoints = true.
Proof. vm_compute. reflexivity. Qed.

(* branchpoints:  Select (Glob table_lookup [Select (Pw copy [Pw astype [Img]]) (MaskE) (FalseC)]) (MaskE) (Img) *)
Definition prog_branchpoints : expr :=
  (Select (Glob 76 [(Select (Pw 0 [(Pw 71 [Img])]) MaskE FalseC)]) MaskE Img).
Example branchpoints_ok : accepts prog_branchpoints = true.
Proof. vm_compute. reflexivity. Qed.
Example branchpoints_restores : restores_outside prog_branchpoints = true.
Proof. vm_compute. reflexivity. Qed.

(* fill:  Select (Glob table_lookup [Select (Pw copy [Pw astype [Img]]) (MaskE) (Const<True>)]) (MaskE) (Img) *)
Definition prog_fill : expr :=
  (Select (Glob 76 [(Select (Pw 0 [(Pw 71 [Img])]) MaskE (Const 9))]) MaskE Img).
Example fill_ok : accepts prog_fill = true.
Proof. vm_compute. reflexivity. Qed.
Example fill_restores : restores_outside prog_fill = true.
Proof. vm_compute. reflexivity. Qed.

(* fill4:  Select (Glob table_lookup [Select (Pw copy [Pw astype [Img]]) (MaskE) (Const<True>)]) (MaskE) (Img) *)
Definition prog_fill4 : expr :=
  (Select (Glob 76 [(Select (Pw 0 [(Pw 71 [Img])]) MaskE (Const 9))]) MaskE Img).
Example fill4_ok : accepts prog_fill4 = true.
Proof. vm_compute. reflexivity. Qed.
Example fill4_restores : restores_outside prog_fill4 = true.
Proof. vm_compute. reflexivity. Qed.

(* hbreak:  Select (Glob table_lookup [Select (Pw copy [Pw astype [Img]]) (MaskE) (FalseC)]) (MaskE) (Img) *)
Definition prog_hbreak : expr :=
  (Select (Glob 76 [(Select (Pw 0 [(Pw 71 [Img])]) MaskE FalseC)]) MaskE Img).
Example hbreak_ok : accepts prog_hbreak = true.
Proof. vm_compute. reflexivity. Qed.
Example hbreak_restores : restores_outside prog_hbreak = true.
Proof. vm_compute. reflexivity. Qed.

(* vbreak:  Select (Glob table_lookup [Select (Pw copy [Pw astype [Img]]) (MaskE) (FalseC)]) (MaskE) (Img) *)
Definition prog_vbreak : expr :=
  (Select (Glob 76 [(Select (Pw 0 [(Pw 71 [Img])]) MaskE FalseC)]) MaskE Img).
Example vbreak_ok : accepts prog_vbreak = true.
Proof. vm_compute. reflexivity. Qed.
Example vbreak_restores : restores_outside prog_vbreak = true.
Proof. vm_compute. reflexivity. Qed.

(* majority:  Select (Glob table_lookup [Select (Pw copy [Pw astype [Img]]) (MaskE) (FalseC)]) (MaskE) (Img) *)
Definition prog_majority : expr :=
  (Select (Glob 76 [(Select (Pw 0 [(Pw 71 [Img])]) MaskE FalseC)]) MaskE Img).
Example majority_ok : accepts prog_majority = true.
Proof. vm_compute. reflexivity. Qed.
Example majority_restores : restores_outside prog_majority = true.
Proof. vm_compute. reflexivity. Qed.

(* remove:  Select (Glob table_lookup [Select (Pw copy [Pw astype [Img]]) (MaskE) (FalseC)]) (MaskE) (Img) *)
Definition prog_remove : expr :=
  (Select (Glob 76 [(Select (Pw 0 [(Pw 71 [Img])]) MaskE FalseC)]) MaskE Img).
Example remove_ok : accepts prog_remove = true.
Proof. vm_compute. reflexivity. Qed.
Example remove_restores : restores_outside prog_remove = true.
Proof. vm_compute. reflexivity. Qed.

(* spur:  Select (Select (Select (Img) (Glob index_set [Glob loop:index_i [Glob len [Glob unpack0 [Glob prepare_for_index_lookup [Select (Pw copy [Pw astype [Img]]) (MaskE) (FalseC)]]]; Glob unpack0 [Glob prepare_for_index_lookup [Select (Pw copy [Pw astype [Img]]) (MaskE) (FalseC)]]; Glob unpack1 [Glob prepare_for_index_lookup [Select (Pw copy [Pw astype [Img]]) (MaskE) (FalseC)]]; Glob unpack2 [Glob prepare_for_index_lookup [Select (Pw copy [Pw astype [Img]]) (MaskE) (FalseC)]]]; Glob loop:index_j [Glob len [Glob unpack0 [Glob prepare_for_index_lookup [Select (Pw copy [Pw astype [Img]]) (MaskE) (False ... *)
Definition prog_spur : expr :=
  sh_253.
Example spur_ok : accepts prog_spur = true.
Proof. vm_compute. reflexivity. Qed.
Example spur_restores : restores_outside prog_spur = true.
Proof. vm_compute. reflexivity. Qed.

(* thicken:  Select (Glob table_lookup [Select (Pw copy [Pw astype [Img]]) (MaskE) (FalseC)]) (MaskE) (Img) *)
Definition prog_thicken : expr :=
  (Select (Glob 76 [(Select (Pw 0 [(Pw 71 [Img])]) MaskE FalseC)]) MaskE Img).
Example thicken_ok : accepts prog_thicken = true.
Proof. vm_compute. reflexivity. Qed.
Example thicken_restores : restores_outside prog_thicken = true.
Proof. vm_compute. reflexivity. Qed.

(* thin:  Select (Select (Select (Img) (Glob index_set [Glob loop:index_i [Glob len [Glob unpack0 [Glob prepare_for_index_lookup [Select (Pw copy [Img]) (MaskE) (FalseC)]]]; Glob unpack0 [Glob prepare_for_index_lookup [Select (Pw copy [Img]) (MaskE) (FalseC)]]; Glob unpack1 [Glob prepare_for_index_lookup [Select (Pw copy [Img]) (MaskE) (FalseC)]]; Glob unpack2 [Glob prepare_for_index_lookup [Select (Pw copy [Img]) (MaskE) (FalseC)]]]; Glob loop:index_j [Glob len [Glob unpack0 [Glob prepare_for_index_lookup [Select (Pw copy [Img]) (MaskE) (FalseC)]]]; Glob unpack0 [Glob prepare_for_index_lookup [Select ( ... *)
Definition prog_thin : expr :=
  sh_264.
Example thin_ok : accepts prog_thin = true.
Proof. vm_compute. reflexivity. Qed.
Example thin_restores : restores_outside prog_thin = true.
Proof. vm_compute. reflexivity. Qed.

(* skeletonize:  Select (Select (Pw astype [Glob skeletonize_loop [Pw ascontiguousarray [Pw copy [Select (Pw copy [Pw astype [Img]]) (MaskE) (FalseC)]]; Pw ascontiguousarray [Glob index [Pw copy [Select (Pw copy [Pw astype [Img]]) (MaskE) (FalseC)]]]; Pw ascontiguousarray [Glob index [Pw copy [Select (Pw copy [Pw astype [Img]]) (MaskE) (FalseC)]]]; Pw ascontiguousarray [Glob lexsort [Glob gather [Select (Const<permutation(..)>) (Select (Pw copy [Pw astype [Img]]) (MaskE) (FalseC)) (FalseC); Select (Pw copy [Pw astype [Img]]) (MaskE) (FalseC)]; Glob gather [Select (Glob table_lookup [Select (Pw copy [Pw astype  ... *)
Definition prog_skeletonize : expr :=
  sh_279.
Example skeletonize_ok : accepts prog_skeletonize = true.
Proof. vm_compute. reflexivity. Qed.
Example skeletonize_restores : restores_outside prog_skeletonize = true.
Proof. vm_compute. reflexivity. Qed.

(* regional_maximum_ties_are_ok:  Select (Select (Pw not [Loc 1 has_greater_neighbour (Img)]) (ErodeP 1 (MaskE)) (FalseC)) (MaskE) (FalseC) *)
Definition prog_regional_maximum_ties_are_ok : expr :=
  (Select (Select (Pw 2 [(Loc 1 12 Img)]) (ErodeP 1 MaskE) FalseC) MaskE FalseC).
Example regional_maximum_ties_are_ok_ok : accepts prog_regional_maximum_ties_are_ok = true.
Proof. vm_compute. reflexivity. Qed.

(* regional_maximum_at: the term of regional_maximum with a symbolic structure radius r *)
Definition prog_regional_maximum_at (r : nat) : expr :=
  (Select (Glob 11 [(Select (Select (Pw 2 [(Loc r 12 Img)]) (ErodeP r MaskE) FalseC) MaskE FalseC)]) (Glob 13 [(Select (Select (Pw 2 [(Loc r 12 Img)]) (ErodeP r MaskE) FalseC) MaskE FalseC)]) (Select (Select (Pw 2 [(Loc r 12 Img)]) (ErodeP r MaskE) FalseC) MaskE FalseC)).
Lemma regional_maximum_at_ok : forall r, accepts (prog_regional_maximum_at r) = true.
Proof. intros r. unfold accepts, prog_regional_maximum_at. cbn. rewrite ?PeanoNat.Nat.leb_refl. cbn. reflexivity. Qed.

Definition listed_progs : list expr :=
  [prog_median_filter; prog_grey_erosion; prog_grey_dilation; prog_opening; prog_closing; prog_white_tophat; prog_black_tophat; prog_openlines; prog_sobel; prog_hsobel; prog_vsobel; prog_prewitt; prog_hprewitt; prog_vprewitt; prog_roberts; prog_canny; prog_laplacian_of_gaussian; prog_variance_transform; prog_circular_average_filter; prog_smooth_with_function_and_mask; prog_stretch; prog_fit_polynomial; prog_circular_hough; prog_convex_hull_transform; prog_regional_maximum; prog_bridge; prog_clean; prog_diag; prog_endpoints; prog_branchpoints; prog_fill; prog_fill4; prog_hbreak; prog_vbreak; prog_majority; prog_remove; prog_spur; prog_thicken; prog_thin; prog_skeletonize].
Definition binary_progs : list expr :=
  [prog_bridge; prog_clean; prog_diag; prog_endpoints; prog_branchpoints; prog_fill; prog_fill4; prog_hbreak; prog_vbreak; prog_majority; prog_remove; prog_spur; prog_thicken; prog_thin; prog_skeletonize].
Lemma listed_accepted : forallb accepts listed_progs = true.
Proof. vm_compute. reflexivity. Qed.
Lemma binary_restore : forallb restores_outside binary_progs = true.
Proof. vm_compute. reflexivity. Qed.
Lemma listed_count : (length listed_progs, length binary_progs) = (40, 15)%nat.
Proof. reflexivity. Qed.
