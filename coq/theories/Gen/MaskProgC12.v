(* GENERATED on every run by harness/props/c12.py (tools/gen_maskflow_c12.py) from the STAGED source of
   centrosome/{cpmorphology,filter,smooth}.py - do not edit.  One mask-dataflow term per listed function of C12,
   with the obligation that the verified checker accepts it. *)
From Coq Require Import List Bool ZArith.
From Centro Require Import Model.MaskFlow.
Import ListNotations.

(* library symbols (index: name) *)
(* 0: copy; 1: all; 2: not; 3: take; 4: rank_order.translation; 5: gather; 6: _filter.median_filter; 7: scatter; 8: rank_order.ranks; 9: needs_ranking; 10: ascontiguousarray; 11: one_pixel_per_component(edt,label,rank_order,maximum_position); 12: has_greater_neighbour; 13: any; 14: crop(iradius:-iradius,iradius:-iradius); 15: grey_erosion; 16: setslice(iradius:-iradius,iradius:-iradius); 17: grey_dilation; 18: sub; 19: max_axis0; 20: grey_dilation@angle0; 21: grey_erosion@angle0; 22: grey_dilation@angle1; 23: grey_erosion@angle1; 24: grey_dilation@angle2; 25: grey_erosion@angle2; 26: min_axis0; 27: sqrt; 28: add; 29: pow; 30: abs; 31: convolve3x3; 32: roberts_magnitude; 33: shift(+1,+1); 34: shift(-1,+1); 35: canny_gradient_nms_hysteresis; 36: div; 37: function; 38: astype; 39: convolve; 40: mult; 41: gaussian_filter; 42: pillbox_kernel; 43: array; 44: size_is_0; 45: min; 46: eq; 47: max; 48: polynomial_image_clipped; 49: lstsq; 50: gt0; 51: sum_of_shifts; 52: len_is_0; 53: convex_hull_transform_core; 54: rescale; 55: table_lookup; 56: index_set; 57: spur_index_lookup_loop; 58: prepare_for_index_lookup; 59: thin_index_lookup_loop; 60: skeletonize_core(edt,table_lookup,lexsort,skeletonize_loop) *)
(* constants (index: name) *)
(* 0: zeros_uint8; 1: ones; 2: 1; 3: zeros; 4: product(shape)==0; 5: x,y,x2,y2,xy,o; 6: True *)

(* median_filter_unmasked_minmax:  Select (Pw copy [Img]) (Glob all [Pw not [MaskE]]) (Select (Glob take [Glob rank_order.translation [Glob gather [Select (Img) (MaskE) (FalseC); MaskE]]; Glob _filter.median_filter [Select (Glob scatter [Select (Glob rank_order.ranks [Glob gather [Select (Img) (MaskE) (FalseC); MaskE]]) (Glob needs_ranking [Img]) (Glob gather [Select (Img) (MaskE) (FalseC); MaskE]); MaskE]) (MaskE) (Const<zeros_uint8>); Pw ascontiguousarray [MaskE]]]) (Glob needs_ranking [Img]) (Glob _filter.median_filter [Select (Glob scatter [Select (Glob rank_order.ranks [Glob gather [Select (Img) (MaskE) (FalseC); MaskE]]) (Glob needs_ranking [Img]) (Glob gather [Select (Img) (MaskE) (FalseC); MaskE]); MaskE]) (MaskE) (Const<zeros_uint8>); Pw ascontiguousarray [MaskE]])) *)
Definition prog_median_filter_unmasked_minmax : expr :=
  (Select (Pw 0 [Img]) (Glob 1 [(Pw 2 [MaskE])]) (Select (Glob 3 [(Glob 4 [(Glob 5 [(Select Img MaskE FalseC); MaskE])]); (Glob 6 [(Select (Glob 7 [(Select (Glob 8 [(Glob 5 [(Select Img MaskE FalseC); MaskE])]) (Glob 9 [Img]) (Glob 5 [(Select Img MaskE FalseC); MaskE])); MaskE]) MaskE (Const 0)); (Pw 10 [MaskE])])]) (Glob 9 [Img]) (Glob 6 [(Select (Glob 7 [(Select (Glob 8 [(Glob 5 [(Select Img MaskE FalseC); MaskE])]) (Glob 9 [Img]) (Glob 5 [(Select Img MaskE FalseC); MaskE])); MaskE]) MaskE (Const 0)); (Pw 10 [MaskE])]))).
Example median_filter_unmasked_minmax_rejected : accepts prog_median_filter_unmasked_minmax = false.
Proof. vm_compute. reflexivity. Qed.

(* regional_maximum_unmasked_ties:  Select (Glob one_pixel_per_component(edt,label,rank_order,maximum_position) [Select (Pw not [Loc 1 has_greater_neighbour (Img)]) (ErodeP 1 (MaskE)) (FalseC)]) (Glob any [Select (Pw not [Loc 1 has_greater_neighbour (Img)]) (ErodeP 1 (MaskE)) (FalseC)]) (Select (Pw not [Loc 1 has_greater_neighbour (Img)]) (ErodeP 1 (MaskE)) (FalseC)) *)
Definition prog_regional_maximum_unmasked_ties : expr :=
  (Select (Glob 11 [(Select (Pw 2 [(Loc 1 12 Img)]) (ErodeP 1 MaskE) FalseC)]) (Glob 13 [(Select (Pw 2 [(Loc 1 12 Img)]) (ErodeP 1 MaskE) FalseC)]) (Select (Pw 2 [(Loc 1 12 Img)]) (ErodeP 1 MaskE) FalseC)).
Example regional_maximum_unmasked_ties_rejected : accepts prog_regional_maximum_unmasked_ties = false.
Proof. vm_compute. reflexivity. Qed.

(* median_filter:  Select (Pw copy [Img]) (Glob all [Pw not [MaskE]]) (Select (Glob take [Glob rank_order.translation [Glob gather [Select (Img) (MaskE) (FalseC); MaskE]]; Glob _filter.median_filter [Select (Glob scatter [Select (Glob rank_order.ranks [Glob gather [Select (Img) (MaskE) (FalseC); MaskE]]) (Glob needs_ranking [Glob gather [Select (Img) (MaskE) (FalseC); MaskE]]) (Glob gather [Select (Img) (MaskE) (FalseC); MaskE]); MaskE]) (MaskE) (Const<zeros_uint8>); Pw ascontiguousarray [MaskE]]]) (Glob needs_ranking [Glob gather [Select (Img) (MaskE) (FalseC); MaskE]]) (Glob _filter.median_filter [Select (Glob scatter [Select (Glob rank_order.ranks [Glob gather [Select (Img) (MaskE) (FalseC); MaskE]]) (Glob needs_ranking [Glob gather [Select (Img) (MaskE) (FalseC); MaskE]]) (Glob gather [Select (Img) (MaskE) (FalseC); MaskE]); MaskE]) (MaskE) (Const<zeros_uint8>); Pw ascontiguousarray [MaskE]])) *)
Definition prog_median_filter : expr :=
  (Select (Pw 0 [Img]) (Glob 1 [(Pw 2 [MaskE])]) (Select (Glob 3 [(Glob 4 [(Glob 5 [(Select Img MaskE FalseC); MaskE])]); (Glob 6 [(Select (Glob 7 [(Select (Glob 8 [(Glob 5 [(Select Img MaskE FalseC); MaskE])]) (Glob 9 [(Glob 5 [(Select Img MaskE FalseC); MaskE])]) (Glob 5 [(Select Img MaskE FalseC); MaskE])); MaskE]) MaskE (Const 0)); (Pw 10 [MaskE])])]) (Glob 9 [(Glob 5 [(Select Img MaskE FalseC); MaskE])]) (Glob 6 [(Select (Glob 7 [(Select (Glob 8 [(Glob 5 [(Select Img MaskE FalseC); MaskE])]) (Glob 9 [(Glob 5 [(Select Img MaskE FalseC); MaskE])]) (Glob 5 [(Select Img MaskE FalseC); MaskE])); MaskE]) MaskE (Const 0)); (Pw 10 [MaskE])]))).
Example median_filter_ok : accepts prog_median_filter = true.
Proof. vm_compute. reflexivity. Qed.

(* grey_erosion:  Select (Glob crop(iradius:-iradius,iradius:-iradius) [Glob grey_erosion [Glob setslice(iradius:-iradius,iradius:-iradius) [Const<ones>; Select (Img) (MaskE) (Const<1>)]]]) (MaskE) (Img) *)
Definition prog_grey_erosion : expr :=
  (Select (Glob 14 [(Glob 15 [(Glob 16 [(Const 1); (Select Img MaskE (Const 2))])])]) MaskE Img).
Example grey_erosion_ok : accepts prog_grey_erosion = true.
Proof. vm_compute. reflexivity. Qed.

(* grey_dilation:  Select (Glob crop(iradius:-iradius,iradius:-iradius) [Glob grey_dilation [Glob setslice(iradius:-iradius,iradius:-iradius) [Const<zeros>; Select (Img) (MaskE) (FalseC)]]]) (MaskE) (Img) *)
Definition prog_grey_dilation : expr :=
  (Select (Glob 14 [(Glob 17 [(Glob 16 [(Const 3); (Select Img MaskE FalseC)])])]) MaskE Img).
Example grey_dilation_ok : accepts prog_grey_dilation = true.
Proof. vm_compute. reflexivity. Qed.

(* opening:  Select (Glob crop(iradius:-iradius,iradius:-iradius) [Glob grey_dilation [Glob setslice(iradius:-iradius,iradius:-iradius) [Const<zeros>; Select (Select (Glob crop(iradius:-iradius,iradius:-iradius) [Glob grey_erosion [Glob setslice(iradius:-iradius,iradius:-iradius) [Const<ones>; Select (Img) (MaskE) (Const<1>)]]]) (MaskE) (Img)) (MaskE) (FalseC)]]]) (MaskE) (Select (Glob crop(iradius:-iradius,iradius:-iradius) [Glob grey_erosion [Glob setslice(iradius:-iradius,iradius:-iradius) [Const<ones>; Select (Img) (MaskE) (Const<1>)]]]) (MaskE) (Img)) *)
Definition prog_opening : expr :=
  (Select (Glob 14 [(Glob 17 [(Glob 16 [(Const 3); (Select (Select (Glob 14 [(Glob 15 [(Glob 16 [(Const 1); (Select Img MaskE (Const 2))])])]) MaskE Img) MaskE FalseC)])])]) MaskE (Select (Glob 14 [(Glob 15 [(Glob 16 [(Const 1); (Select Img MaskE (Const 2))])])]) MaskE Img)).
Example opening_ok : accepts prog_opening = true.
Proof. vm_compute. reflexivity. Qed.

(* closing:  Select (Glob crop(iradius:-iradius,iradius:-iradius) [Glob grey_erosion [Glob setslice(iradius:-iradius,iradius:-iradius) [Const<ones>; Select (Select (Glob crop(iradius:-iradius,iradius:-iradius) [Glob grey_dilation [Glob setslice(iradius:-iradius,iradius:-iradius) [Const<zeros>; Select (Img) (MaskE) (FalseC)]]]) (MaskE) (Img)) (MaskE) (Const<1>)]]]) (MaskE) (Select (Glob crop(iradius:-iradius,iradius:-iradius) [Glob grey_dilation [Glob setslice(iradius:-iradius,iradius:-iradius) [Const<zeros>; Select (Img) (MaskE) (FalseC)]]]) (MaskE) (Img)) *)
Definition prog_closing : expr :=
  (Select (Glob 14 [(Glob 15 [(Glob 16 [(Const 1); (Select (Select (Glob 14 [(Glob 17 [(Glob 16 [(Const 3); (Select Img MaskE FalseC)])])]) MaskE Img) MaskE (Const 2))])])]) MaskE (Select (Glob 14 [(Glob 17 [(Glob 16 [(Const 3); (Select Img MaskE FalseC)])])]) MaskE Img)).
Example closing_ok : accepts prog_closing = true.
Proof. vm_compute. reflexivity. Qed.

(* white_tophat:  Select (Pw sub [Img; Select (Glob crop(iradius:-iradius,iradius:-iradius) [Glob grey_dilation [Glob setslice(iradius:-iradius,iradius:-iradius) [Const<zeros>; Select (Select (Glob crop(iradius:-iradius,iradius:-iradius) [Glob grey_erosion [Glob setslice(iradius:-iradius,iradius:-iradius) [Const<ones>; Select (Img) (MaskE) (Const<1>)]]]) (MaskE) (Img)) (MaskE) (FalseC)]]]) (MaskE) (Select (Glob crop(iradius:-iradius,iradius:-iradius) [Glob grey_erosion [Glob setslice(iradius:-iradius,iradius:-iradius) [Const<ones>; Select (Img) (MaskE) (Const<1>)]]]) (MaskE) (Img))]) (MaskE) (Img) *)
Definition prog_white_tophat : expr :=
  (Select (Pw 18 [Img; (Select (Glob 14 [(Glob 17 [(Glob 16 [(Const 3); (Select (Select (Glob 14 [(Glob 15 [(Glob 16 [(Const 1); (Select Img MaskE (Const 2))])])]) MaskE Img) MaskE FalseC)])])]) MaskE (Select (Glob 14 [(Glob 15 [(Glob 16 [(Const 1); (Select Img MaskE (Const 2))])])]) MaskE Img))]) MaskE Img).
Example white_tophat_ok : accepts prog_white_tophat = true.
Proof. vm_compute. reflexivity. Qed.

(* black_tophat:  Select (Pw sub [Select (Glob crop(iradius:-iradius,iradius:-iradius) [Glob grey_erosion [Glob setslice(iradius:-iradius,iradius:-iradius) [Const<ones>; Select (Select (Glob crop(iradius:-iradius,iradius:-iradius) [Glob grey_dilation [Glob setslice(iradius:-iradius,iradius:-iradius) [Const<zeros>; Select (Img) (MaskE) (FalseC)]]]) (MaskE) (Img)) (MaskE) (Const<1>)]]]) (MaskE) (Select (Glob crop(iradius:-iradius,iradius:-iradius) [Glob grey_dilation [Glob setslice(iradius:-iradius,iradius:-iradius) [Const<zeros>; Select (Img) (MaskE) (FalseC)]]]) (MaskE) (Img)); Img]) (MaskE) (Img) *)
Definition prog_black_tophat : expr :=
  (Select (Pw 18 [(Select (Glob 14 [(Glob 15 [(Glob 16 [(Const 1); (Select (Select (Glob 14 [(Glob 17 [(Glob 16 [(Const 3); (Select Img MaskE FalseC)])])]) MaskE Img) MaskE (Const 2))])])]) MaskE (Select (Glob 14 [(Glob 17 [(Glob 16 [(Const 3); (Select Img MaskE FalseC)])])]) MaskE Img)); Img]) MaskE Img).
Example black_tophat_ok : accepts prog_black_tophat = true.
Proof. vm_compute. reflexivity. Qed.

(* openlines:  Pw sub [Pw max_axis0 [Select (Glob crop(iradius:-iradius,iradius:-iradius) [Glob grey_dilation@angle0 [Glob setslice(iradius:-iradius,iradius:-iradius) [Const<zeros>; Select (Select (Glob crop(iradius:-iradius,iradius:-iradius) [Glob grey_erosion@angle0 [Glob setslice(iradius:-iradius,iradius:-iradius) [Const<ones>; Select (Img) (MaskE) (Const<1>)]]]) (MaskE) (Img)) (MaskE) (FalseC)]]]) (MaskE) (Select (Glob crop(iradius:-iradius,iradius:-iradius) [Glob grey_erosion@angle0 [Glob setslice(iradius:-iradius,iradius:-iradius) [Const<ones>; Select (Img) (MaskE) (Const<1>)]]]) (MaskE) (Img)); Select (Glob crop(iradius:-iradius,iradius:-iradius) [Glob grey_dilation@angle1 [Glob setslice(iradius:-iradius,iradius:-iradius) [Const<zeros>; Select (Select (Glob crop(iradius:-iradius,iradius:-iradius) [Glob grey_erosion@angle1 [Glob setslice(iradius:-iradius,iradius:-iradius) [Const<ones>; Select (Img) (MaskE) (Const<1>)]]]) (MaskE) (Img)) (MaskE) (FalseC)]]]) (MaskE) (Select (Glob crop(iradius:-iradius,iradius:-iradius) [Glob grey_erosion@angle1 [Glob setslice(iradius:-iradius,iradius:-iradius) [Const<ones>; Select (Img) (MaskE) (Const<1>)]]]) (MaskE) (Img)); Select (Glob crop(iradius:-iradius,iradius:-iradius) [Glob grey_dilation@angle2 [Glob setslice(iradius:-iradius,iradius:-iradius) [Const<zeros>; Select (Select (Glob crop(iradius:-iradius,iradius:-iradius) [Glob grey_erosion@angle2 [Glob setslice(iradius:-iradius,iradius:-iradius) [Const<ones>; Select (Img) (MaskE) (Const<1>)]]]) (MaskE) (Img)) (MaskE) (FalseC)]]]) (MaskE) (Select (Glob crop(iradius:-iradius,iradius:-iradius) [Glob grey_erosion@angle2 [Glob setslice(iradius:-iradius,iradius:-iradius) [Const<ones>; Select (Img) (MaskE) (Const<1>)]]]) (MaskE) (Img))]; Pw min_axis0 [Select (Glob crop(iradius:-iradius,iradius:-iradius) [Glob grey_dilation@angle0 [Glob setslice(iradius:-iradius,iradius:-iradius) [Const<zeros>; Select (Select (Glob crop(iradius:-iradius,iradius:-iradius) [Glob grey_erosion@angle0 [Glob setslice(iradius:-iradius,iradius:-iradius) [Const<ones>; Select (Img) (MaskE) (Const<1>)]]]) (MaskE) (Img)) (MaskE) (FalseC)]]]) (MaskE) (Select (Glob crop(iradius:-iradius,iradius:-iradius) [Glob grey_erosion@angle0 [Glob setslice(iradius:-iradius,iradius:-iradius) [Const<ones>; Select (Img) (MaskE) (Const<1>)]]]) (MaskE) (Img)); Select (Glob crop(iradius:-iradius,iradius:-iradius) [Glob grey_dilation@angle1 [Glob setslice(iradius:-iradius,iradius:-iradius) [Const<zeros>; Select (Select (Glob crop(iradius:-iradius,iradius:-iradius) [Glob grey_erosion@angle1 [Glob setslice(iradius:-iradius,iradius:-iradius) [Const<ones>; Select (Img) (MaskE) (Const<1>)]]]) (MaskE) (Img)) (MaskE) (FalseC)]]]) (MaskE) (Select (Glob crop(iradius:-iradius,iradius:-iradius) [Glob grey_erosion@angle1 [Glob setslice(iradius:-iradius,iradius:-iradius) [Const<ones>; Select (Img) (MaskE) (Const<1>)]]]) (MaskE) (Img)); Select (Glob crop(iradius:-iradius,iradius:-iradius) [Glob grey_dilation@angle2 [Glob setslice(iradius:-iradius,iradius:-iradius) [Const<zeros>; Select (Select (Glob crop(iradius:-iradius,iradius:-iradius) [Glob grey_erosion@angle2 [Glob setslice(iradius:-iradius,iradius:-iradius) [Const<ones>; Select (Img) (MaskE) (Const<1>)]]]) (MaskE) (Img)) (MaskE) (FalseC)]]]) (MaskE) (Select (Glob crop(iradius:-iradius,iradius:-iradius) [Glob grey_erosion@angle2 [Glob setslice(iradius:-iradius,iradius:-iradius) [Const<ones>; Select (Img) (MaskE) (Const<1>)]]]) (MaskE) (Img))]] *)
Definition prog_openlines : expr :=
  (Pw 18 [(Pw 19 [(Select (Glob 14 [(Glob 20 [(Glob 16 [(Const 3); (Select (Select (Glob 14 [(Glob 21 [(Glob 16 [(Const 1); (Select Img MaskE (Const 2))])])]) MaskE Img) MaskE FalseC)])])]) MaskE (Select (Glob 14 [(Glob 21 [(Glob 16 [(Const 1); (Select Img MaskE (Const 2))])])]) MaskE Img)); (Select (Glob 14 [(Glob 22 [(Glob 16 [(Const 3); (Select (Select (Glob 14 [(Glob 23 [(Glob 16 [(Const 1); (Select Img MaskE (Const 2))])])]) MaskE Img) MaskE FalseC)])])]) MaskE (Select (Glob 14 [(Glob 23 [(Glob 16 [(Const 1); (Select Img MaskE (Const 2))])])]) MaskE Img)); (Select (Glob 14 [(Glob 24 [(Glob 16 [(Const 3); (Select (Select (Glob 14 [(Glob 25 [(Glob 16 [(Const 1); (Select Img MaskE (Const 2))])])]) MaskE Img) MaskE FalseC)])])]) MaskE (Select (Glob 14 [(Glob 25 [(Glob 16 [(Const 1); (Select Img MaskE (Const 2))])])]) MaskE Img))]); (Pw 26 [(Select (Glob 14 [(Glob 20 [(Glob 16 [(Const 3); (Select (Select (Glob 14 [(Glob 21 [(Glob 16 [(Const 1); (Select Img MaskE (Const 2))])])]) MaskE Img) MaskE FalseC)])])]) MaskE (Select (Glob 14 [(Glob 21 [(Glob 16 [(Const 1); (Select Img MaskE (Const 2))])])]) MaskE Img)); (Select (Glob 14 [(Glob 22 [(Glob 16 [(Const 3); (Select (Select (Glob 14 [(Glob 23 [(Glob 16 [(Const 1); (Select Img MaskE (Const 2))])])]) MaskE Img) MaskE FalseC)])])]) MaskE (Select (Glob 14 [(Glob 23 [(Glob 16 [(Const 1); (Select Img MaskE (Const 2))])])]) MaskE Img)); (Select (Glob 14 [(Glob 24 [(Glob 16 [(Const 3); (Select (Select (Glob 14 [(Glob 25 [(Glob 16 [(Const 1); (Select Img MaskE (Const 2))])])]) MaskE Img) MaskE FalseC)])])]) MaskE (Select (Glob 14 [(Glob 25 [(Glob 16 [(Const 1); (Select Img MaskE (Const 2))])])]) MaskE Img))])]).
Example openlines_ok : accepts prog_openlines = true.
Proof. vm_compute. reflexivity. Qed.

(* sobel:  Pw sqrt [Pw add [Pw pow [Select (Pw abs [Loc 1 convolve3x3 (Img)]) (Erode 1 (MaskE)) (FalseC)]; Pw pow [Select (Pw abs [Loc 1 convolve3x3 (Img)]) (Erode 1 (MaskE)) (FalseC)]]] *)
Definition prog_sobel : expr :=
  (Pw 27 [(Pw 28 [(Pw 29 [(Select (Pw 30 [(Loc 1 31 Img)]) (Erode 1 MaskE) FalseC)]); (Pw 29 [(Select (Pw 30 [(Loc 1 31 Img)]) (Erode 1 MaskE) FalseC)])])]).
Example sobel_ok : accepts prog_sobel = true.
Proof. vm_compute. reflexivity. Qed.

(* hsobel:  Select (Pw abs [Loc 1 convolve3x3 (Img)]) (Erode 1 (MaskE)) (FalseC) *)
Definition prog_hsobel : expr :=
  (Select (Pw 30 [(Loc 1 31 Img)]) (Erode 1 MaskE) FalseC).
Example hsobel_ok : accepts prog_hsobel = true.
Proof. vm_compute. reflexivity. Qed.

(* vsobel:  Select (Pw abs [Loc 1 convolve3x3 (Img)]) (Erode 1 (MaskE)) (FalseC) *)
Definition prog_vsobel : expr :=
  (Select (Pw 30 [(Loc 1 31 Img)]) (Erode 1 MaskE) FalseC).
Example vsobel_ok : accepts prog_vsobel = true.
Proof. vm_compute. reflexivity. Qed.

(* prewitt:  Pw sqrt [Pw add [Pw pow [Select (Pw abs [Loc 1 convolve3x3 (Img)]) (Erode 1 (MaskE)) (FalseC)]; Pw pow [Select (Pw abs [Loc 1 convolve3x3 (Img)]) (Erode 1 (MaskE)) (FalseC)]]] *)
Definition prog_prewitt : expr :=
  (Pw 27 [(Pw 28 [(Pw 29 [(Select (Pw 30 [(Loc 1 31 Img)]) (Erode 1 MaskE) FalseC)]); (Pw 29 [(Select (Pw 30 [(Loc 1 31 Img)]) (Erode 1 MaskE) FalseC)])])]).
Example prewitt_ok : accepts prog_prewitt = true.
Proof. vm_compute. reflexivity. Qed.

(* hprewitt:  Select (Pw abs [Loc 1 convolve3x3 (Img)]) (Erode 1 (MaskE)) (FalseC) *)
Definition prog_hprewitt : expr :=
  (Select (Pw 30 [(Loc 1 31 Img)]) (Erode 1 MaskE) FalseC).
Example hprewitt_ok : accepts prog_hprewitt = true.
Proof. vm_compute. reflexivity. Qed.

(* vprewitt:  Select (Pw abs [Loc 1 convolve3x3 (Img)]) (Erode 1 (MaskE)) (FalseC) *)
Definition prog_vprewitt : expr :=
  (Select (Pw 30 [(Loc 1 31 Img)]) (Erode 1 MaskE) FalseC).
Example vprewitt_ok : accepts prog_vprewitt = true.
Proof. vm_compute. reflexivity. Qed.

(* roberts:  Select (Pw roberts_magnitude [Img; Loc 1 shift(+1,+1) (Img); Loc 1 shift(-1,+1) (Img)]) (Erode 1 (MaskE)) (Const<zeros>) *)
Definition prog_roberts : expr :=
  (Select (Pw 32 [Img; (Loc 1 33 Img); (Loc 1 34 Img)]) (Erode 1 MaskE) (Const 3)).
Example roberts_ok : accepts prog_roberts = true.
Proof. vm_compute. reflexivity. Qed.

(* canny:  Glob canny_gradient_nms_hysteresis [Pw div [Glob function [Select (Img) (MaskE) (Const<zeros>)]; Pw add [Glob function [Pw astype [MaskE]]]]; Erode 1 (MaskE)] *)
Definition prog_canny : expr :=
  (Glob 35 [(Pw 36 [(Glob 37 [(Select Img MaskE (Const 3))]); (Pw 28 [(Glob 37 [(Pw 38 [MaskE])])])]); (Erode 1 MaskE)]).
Example canny_ok : accepts prog_canny = true.
Proof. vm_compute. reflexivity. Qed.

(* laplacian_of_gaussian:  Select (Pw add [Glob convolve [Select (Pw copy [Img]) (MaskE) (FalseC)]; Pw mult [Glob convolve [Pw astype [Pw not [MaskE]]]; Img]]) (MaskE) (Img) *)
Definition prog_laplacian_of_gaussian : expr :=
  (Select (Pw 28 [(Glob 39 [(Select (Pw 0 [Img]) MaskE FalseC)]); (Pw 40 [(Glob 39 [(Pw 38 [(Pw 2 [MaskE])])]); Img])]) MaskE Img).
Example laplacian_of_gaussian_ok : accepts prog_laplacian_of_gaussian = true.
Proof. vm_compute. reflexivity. Qed.

(* variance_transform:  Pw sub [Pw div [Glob gaussian_filter [Pw pow [Select (Pw copy [Img]) (MaskE) (FalseC)]]; Glob gaussian_filter [Pw astype [MaskE]]]; Pw pow [Pw div [Glob gaussian_filter [Select (Pw copy [Img]) (MaskE) (FalseC)]; Glob gaussian_filter [Pw astype [MaskE]]]]] *)
Definition prog_variance_transform : expr :=
  (Pw 18 [(Pw 36 [(Glob 41 [(Pw 29 [(Select (Pw 0 [Img]) MaskE FalseC)])]); (Glob 41 [(Pw 38 [MaskE])])]); (Pw 29 [(Pw 36 [(Glob 41 [(Select (Pw 0 [Img]) MaskE FalseC)]); (Glob 41 [(Pw 38 [MaskE])])])])]).
Example variance_transform_ok : accepts prog_variance_transform = true.
Proof. vm_compute. reflexivity. Qed.

(* circular_average_filter:  Select (MConv pillbox_kernel (Img) (MaskE)) (MaskE) (Img) *)
Definition prog_circular_average_filter : expr :=
  (Select (MConv 42 Img MaskE) MaskE Img).
Example circular_average_filter_ok : accepts prog_circular_average_filter = true.
Proof. vm_compute. reflexivity. Qed.

(* smooth_with_function_and_mask:  Pw div [Glob function [Select (Img) (MaskE) (Const<zeros>)]; Pw add [Glob function [Pw astype [MaskE]]]] *)
Definition prog_smooth_with_function_and_mask : expr :=
  (Pw 36 [(Glob 37 [(Select Img MaskE (Const 3))]); (Pw 28 [(Glob 37 [(Pw 38 [MaskE])])])]).
Example smooth_with_function_and_mask_ok : accepts prog_smooth_with_function_and_mask = true.
Proof. vm_compute. reflexivity. Qed.

(* stretch:  Select (Pw array [Img]) (Const<product(shape)==0>) (Select (Pw array [Img]) (Glob size_is_0 [Glob gather [Select (Pw array [Img]) (MaskE) (FalseC); MaskE]]) (Select (Glob scatter [Select (Glob min [Glob gather [Select (Pw array [Img]) (MaskE) (FalseC); MaskE]]) (Pw eq [Glob min [Glob gather [Select (Pw array [Img]) (MaskE) (FalseC); MaskE]]; Glob max [Glob gather [Select (Pw array [Img]) (MaskE) (FalseC); MaskE]]]) (Pw div [Pw sub [Glob gather [Select (Pw array [Img]) (MaskE) (FalseC); MaskE]; Glob min [Glob gather [Select (Pw array [Img]) (MaskE) (FalseC); MaskE]]]; Pw sub [Glob max [Glob gather [Select (Pw array [Img]) (MaskE) (FalseC); MaskE]]; Glob min [Glob gather [Select (Pw array [Img]) (MaskE) (FalseC); MaskE]]]]); MaskE]) (MaskE) (Pw array [Img]))) *)
Definition prog_stretch : expr :=
  (Select (Pw 43 [Img]) (Const 4) (Select (Pw 43 [Img]) (Glob 44 [(Glob 5 [(Select (Pw 43 [Img]) MaskE FalseC); MaskE])]) (Select (Glob 7 [(Select (Glob 45 [(Glob 5 [(Select (Pw 43 [Img]) MaskE FalseC); MaskE])]) (Pw 46 [(Glob 45 [(Glob 5 [(Select (Pw 43 [Img]) MaskE FalseC); MaskE])]); (Glob 47 [(Glob 5 [(Select (Pw 43 [Img]) MaskE FalseC); MaskE])])]) (Pw 36 [(Pw 18 [(Glob 5 [(Select (Pw 43 [Img]) MaskE FalseC); MaskE]); (Glob 45 [(Glob 5 [(Select (Pw 43 [Img]) MaskE FalseC); MaskE])])]); (Pw 18 [(Glob 47 [(Glob 5 [(Select (Pw 43 [Img]) MaskE FalseC); MaskE])]); (Glob 45 [(Glob 5 [(Select (Pw 43 [Img]) MaskE FalseC); MaskE])])])])); MaskE]) MaskE (Pw 43 [Img])))).
Example stretch_ok : accepts prog_stretch = true.
Proof. vm_compute. reflexivity. Qed.

(* fit_polynomial:  Select (Glob polynomial_image_clipped [Glob lstsq [Glob gather [Select (Const<x,y,x2,y2,xy,o>) (Select (Pw gt0 [Img]) (MaskE) (FalseC)) (FalseC); Select (Pw gt0 [Img]) (MaskE) (FalseC)]; Glob gather [Select (Img) (Select (Pw gt0 [Img]) (MaskE) (FalseC)) (FalseC); Select (Pw gt0 [Img]) (MaskE) (FalseC)]]]) (Glob any [Select (Pw gt0 [Img]) (MaskE) (FalseC)]) (Img) *)
Definition prog_fit_polynomial : expr :=
  (Select (Glob 48 [(Glob 49 [(Glob 5 [(Select (Const 5) (Select (Pw 50 [Img]) MaskE FalseC) FalseC); (Select (Pw 50 [Img]) MaskE FalseC)]); (Glob 5 [(Select Img (Select (Pw 50 [Img]) MaskE FalseC) FalseC); (Select (Pw 50 [Img]) MaskE FalseC)])])]) (Glob 13 [(Select (Pw 50 [Img]) MaskE FalseC)]) Img).
Example fit_polynomial_ok : accepts prog_fit_polynomial = true.
Proof. vm_compute. reflexivity. Qed.

(* circular_hough:  Select (Pw div [Glob sum_of_shifts [Select (Img) (MaskE) (FalseC); MaskE]; Glob sum_of_shifts [Pw astype [MaskE]]]) (Pw gt0 [Glob sum_of_shifts [Pw astype [MaskE]]]) (Glob sum_of_shifts [Select (Img) (MaskE) (FalseC); MaskE]) *)
Definition prog_circular_hough : expr :=
  (Select (Pw 36 [(Glob 51 [(Select Img MaskE FalseC); MaskE]); (Glob 51 [(Pw 38 [MaskE])])]) (Pw 50 [(Glob 51 [(Pw 38 [MaskE])])]) (Glob 51 [(Select Img MaskE FalseC); MaskE])).
Example circular_hough_ok : accepts prog_circular_hough = true.
Proof. vm_compute. reflexivity. Qed.

(* convex_hull_transform:  Select (Const<zeros>) (Glob len_is_0 [Glob gather [Select (Img) (MaskE) (FalseC); MaskE]]) (Select (Img) (Pw eq [Glob min [Glob gather [Select (Img) (MaskE) (FalseC); MaskE]]; Glob max [Glob gather [Select (Img) (MaskE) (FalseC); MaskE]]]) (Glob convex_hull_transform_core [Select (Pw rescale [Img; Glob min [Glob gather [Select (Img) (MaskE) (FalseC); MaskE]]; Glob max [Glob gather [Select (Img) (MaskE) (FalseC); MaskE]]]) (MaskE) (FalseC); Glob min [Glob gather [Select (Img) (MaskE) (FalseC); MaskE]]; Glob max [Glob gather [Select (Img) (MaskE) (FalseC); MaskE]]])) *)
Definition prog_convex_hull_transform : expr :=
  (Select (Const 3) (Glob 52 [(Glob 5 [(Select Img MaskE FalseC); MaskE])]) (Select Img (Pw 46 [(Glob 45 [(Glob 5 [(Select Img MaskE FalseC); MaskE])]); (Glob 47 [(Glob 5 [(Select Img MaskE FalseC); MaskE])])]) (Glob 53 [(Select (Pw 54 [Img; (Glob 45 [(Glob 5 [(Select Img MaskE FalseC); MaskE])]); (Glob 47 [(Glob 5 [(Select Img MaskE FalseC); MaskE])])]) MaskE FalseC); (Glob 45 [(Glob 5 [(Select Img MaskE FalseC); MaskE])]); (Glob 47 [(Glob 5 [(Select Img MaskE FalseC); MaskE])])]))).
Example convex_hull_transform_ok : accepts prog_convex_hull_transform = true.
Proof. vm_compute. reflexivity. Qed.

(* regional_maximum:  Select (Glob one_pixel_per_component(edt,label,rank_order,maximum_position) [Select (Select (Pw not [Loc 1 has_greater_neighbour (Img)]) (ErodeP 1 (MaskE)) (FalseC)) (MaskE) (FalseC)]) (Glob any [Select (Select (Pw not [Loc 1 has_greater_neighbour (Img)]) (ErodeP 1 (MaskE)) (FalseC)) (MaskE) (FalseC)]) (Select (Select (Pw not [Loc 1 has_greater_neighbour (Img)]) (ErodeP 1 (MaskE)) (FalseC)) (MaskE) (FalseC)) *)
Definition prog_regional_maximum : expr :=
  (Select (Glob 11 [(Select (Select (Pw 2 [(Loc 1 12 Img)]) (ErodeP 1 MaskE) FalseC) MaskE FalseC)]) (Glob 13 [(Select (Select (Pw 2 [(Loc 1 12 Img)]) (ErodeP 1 MaskE) FalseC) MaskE FalseC)]) (Select (Select (Pw 2 [(Loc 1 12 Img)]) (ErodeP 1 MaskE) FalseC) MaskE FalseC)).
Example regional_maximum_ok : accepts prog_regional_maximum = true.
Proof. vm_compute. reflexivity. Qed.

(* bridge:  Select (Glob table_lookup [Select (Pw copy [Pw astype [Img]]) (MaskE) (FalseC)]) (MaskE) (Img) *)
Definition prog_bridge : expr :=
  (Select (Glob 55 [(Select (Pw 0 [(Pw 38 [Img])]) MaskE FalseC)]) MaskE Img).
Example bridge_ok : accepts prog_bridge = true.
Proof. vm_compute. reflexivity. Qed.
Example bridge_restores : restores_outside prog_bridge = true.
Proof. vm_compute. reflexivity. Qed.

(* clean:  Select (Glob table_lookup [Select (Pw copy [Pw astype [Img]]) (MaskE) (FalseC)]) (MaskE) (Img) *)
Definition prog_clean : expr :=
  (Select (Glob 55 [(Select (Pw 0 [(Pw 38 [Img])]) MaskE FalseC)]) MaskE Img).
Example clean_ok : accepts prog_clean = true.
Proof. vm_compute. reflexivity. Qed.
Example clean_restores : restores_outside prog_clean = true.
Proof. vm_compute. reflexivity. Qed.

(* diag:  Select (Glob table_lookup [Select (Pw copy [Pw astype [Img]]) (MaskE) (FalseC)]) (MaskE) (Img) *)
Definition prog_diag : expr :=
  (Select (Glob 55 [(Select (Pw 0 [(Pw 38 [Img])]) MaskE FalseC)]) MaskE Img).
Example diag_ok : accepts prog_diag = true.
Proof. vm_compute. reflexivity. Qed.
Example diag_restores : restores_outside prog_diag = true.
Proof. vm_compute. reflexivity. Qed.

(* endpoints:  Select (Glob table_lookup [Select (Pw copy [Pw astype [Img]]) (MaskE) (FalseC)]) (MaskE) (Img) *)
Definition prog_endpoints : expr :=
  (Select (Glob 55 [(Select (Pw 0 [(Pw 38 [Img])]) MaskE FalseC)]) MaskE Img).
Example endpoints_ok : accepts prog_endpoints = true.
Proof. vm_compute. reflexivity. Qed.
Example endpoints_restores : restores_outside prog_endpoints = true.
Proof. vm_compute. reflexivity. Qed.

(* branchpoints:  Select (Glob table_lookup [Select (Pw copy [Pw astype [Img]]) (MaskE) (FalseC)]) (MaskE) (Img) *)
Definition prog_branchpoints : expr :=
  (Select (Glob 55 [(Select (Pw 0 [(Pw 38 [Img])]) MaskE FalseC)]) MaskE Img).
Example branchpoints_ok : accepts prog_branchpoints = true.
Proof. vm_compute. reflexivity. Qed.
Example branchpoints_restores : restores_outside prog_branchpoints = true.
Proof. vm_compute. reflexivity. Qed.

(* fill:  Select (Glob table_lookup [Select (Pw copy [Pw astype [Img]]) (MaskE) (Const<True>)]) (MaskE) (Img) *)
Definition prog_fill : expr :=
  (Select (Glob 55 [(Select (Pw 0 [(Pw 38 [Img])]) MaskE (Const 6))]) MaskE Img).
Example fill_ok : accepts prog_fill = true.
Proof. vm_compute. reflexivity. Qed.
Example fill_restores : restores_outside prog_fill = true.
Proof. vm_compute. reflexivity. Qed.

(* fill4:  Select (Glob table_lookup [Select (Pw copy [Pw astype [Img]]) (MaskE) (Const<True>)]) (MaskE) (Img) *)
Definition prog_fill4 : expr :=
  (Select (Glob 55 [(Select (Pw 0 [(Pw 38 [Img])]) MaskE (Const 6))]) MaskE Img).
Example fill4_ok : accepts prog_fill4 = true.
Proof. vm_compute. reflexivity. Qed.
Example fill4_restores : restores_outside prog_fill4 = true.
Proof. vm_compute. reflexivity. Qed.

(* hbreak:  Select (Glob table_lookup [Select (Pw copy [Pw astype [Img]]) (MaskE) (FalseC)]) (MaskE) (Img) *)
Definition prog_hbreak : expr :=
  (Select (Glob 55 [(Select (Pw 0 [(Pw 38 [Img])]) MaskE FalseC)]) MaskE Img).
Example hbreak_ok : accepts prog_hbreak = true.
Proof. vm_compute. reflexivity. Qed.
Example hbreak_restores : restores_outside prog_hbreak = true.
Proof. vm_compute. reflexivity. Qed.

(* vbreak:  Select (Glob table_lookup [Select (Pw copy [Pw astype [Img]]) (MaskE) (FalseC)]) (MaskE) (Img) *)
Definition prog_vbreak : expr :=
  (Select (Glob 55 [(Select (Pw 0 [(Pw 38 [Img])]) MaskE FalseC)]) MaskE Img).
Example vbreak_ok : accepts prog_vbreak = true.
Proof. vm_compute. reflexivity. Qed.
Example vbreak_restores : restores_outside prog_vbreak = true.
Proof. vm_compute. reflexivity. Qed.

(* majority:  Select (Glob table_lookup [Select (Pw copy [Pw astype [Img]]) (MaskE) (FalseC)]) (MaskE) (Img) *)
Definition prog_majority : expr :=
  (Select (Glob 55 [(Select (Pw 0 [(Pw 38 [Img])]) MaskE FalseC)]) MaskE Img).
Example majority_ok : accepts prog_majority = true.
Proof. vm_compute. reflexivity. Qed.
Example majority_restores : restores_outside prog_majority = true.
Proof. vm_compute. reflexivity. Qed.

(* remove:  Select (Glob table_lookup [Select (Pw copy [Pw astype [Img]]) (MaskE) (FalseC)]) (MaskE) (Img) *)
Definition prog_remove : expr :=
  (Select (Glob 55 [(Select (Pw 0 [(Pw 38 [Img])]) MaskE FalseC)]) MaskE Img).
Example remove_ok : accepts prog_remove = true.
Proof. vm_compute. reflexivity. Qed.
Example remove_restores : restores_outside prog_remove = true.
Proof. vm_compute. reflexivity. Qed.

(* spur:  Select (Select (Img) (Glob index_set [Glob spur_index_lookup_loop [Glob prepare_for_index_lookup [Select (Pw copy [Pw astype [Img]]) (MaskE) (FalseC)]]]) (Const<zeros>)) (MaskE) (Img) *)
Definition prog_spur : expr :=
  (Select (Select Img (Glob 56 [(Glob 57 [(Glob 58 [(Select (Pw 0 [(Pw 38 [Img])]) MaskE FalseC)])])]) (Const 3)) MaskE Img).
Example spur_ok : accepts prog_spur = true.
Proof. vm_compute. reflexivity. Qed.
Example spur_restores : restores_outside prog_spur = true.
Proof. vm_compute. reflexivity. Qed.

(* thicken:  Select (Glob table_lookup [Select (Pw copy [Pw astype [Img]]) (MaskE) (FalseC)]) (MaskE) (Img) *)
Definition prog_thicken : expr :=
  (Select (Glob 55 [(Select (Pw 0 [(Pw 38 [Img])]) MaskE FalseC)]) MaskE Img).
Example thicken_ok : accepts prog_thicken = true.
Proof. vm_compute. reflexivity. Qed.
Example thicken_restores : restores_outside prog_thicken = true.
Proof. vm_compute. reflexivity. Qed.

(* thin:  Select (Select (Img) (Glob index_set [Glob thin_index_lookup_loop [Glob prepare_for_index_lookup [Select (Pw copy [Img]) (MaskE) (FalseC)]]]) (Const<zeros>)) (MaskE) (Img) *)
Definition prog_thin : expr :=
  (Select (Select Img (Glob 56 [(Glob 59 [(Glob 58 [(Select (Pw 0 [Img]) MaskE FalseC)])])]) (Const 3)) MaskE Img).
Example thin_ok : accepts prog_thin = true.
Proof. vm_compute. reflexivity. Qed.
Example thin_restores : restores_outside prog_thin = true.
Proof. vm_compute. reflexivity. Qed.

(* skeletonize:  Select (Pw astype [Glob skeletonize_core(edt,table_lookup,lexsort,skeletonize_loop) [Select (Pw copy [Pw astype [Img]]) (MaskE) (FalseC)]]) (MaskE) (Img) *)
Definition prog_skeletonize : expr :=
  (Select (Pw 38 [(Glob 60 [(Select (Pw 0 [(Pw 38 [Img])]) MaskE FalseC)])]) MaskE Img).
Example skeletonize_ok : accepts prog_skeletonize = true.
Proof. vm_compute. reflexivity. Qed.
Example skeletonize_restores : restores_outside prog_skeletonize = true.
Proof. vm_compute. reflexivity. Qed.

(* regional_maximum_ties_are_ok:  Select (Select (Pw not [Loc 1 has_greater_neighbour (Img)]) (ErodeP 1 (MaskE)) (FalseC)) (MaskE) (FalseC) *)
Definition prog_regional_maximum_ties_are_ok : expr :=
  (Select (Select (Pw 2 [(Loc 1 12 Img)]) (ErodeP 1 MaskE) FalseC) MaskE FalseC).
Example regional_maximum_ties_are_ok_ok : accepts prog_regional_maximum_ties_are_ok = true.
Proof. vm_compute. reflexivity. Qed.

Definition listed_progs : list expr :=
  [prog_median_filter; prog_grey_erosion; prog_grey_dilation; prog_opening; prog_closing; prog_white_tophat; prog_black_tophat; prog_openlines; prog_sobel; prog_hsobel; prog_vsobel; prog_prewitt; prog_hprewitt; prog_vprewitt; prog_roberts; prog_canny; prog_laplacian_of_gaussian; prog_variance_transform; prog_circular_average_filter; prog_smooth_with_function_and_mask; prog_stretch; prog_fit_polynomial; prog_circular_hough; prog_convex_hull_transform; prog_regional_maximum; prog_bridge; prog_clean; prog_diag; prog_endpoints; prog_branchpoints; prog_fill; prog_fill4; prog_hbreak; prog_vbreak; prog_majority; prog_remove; prog_spur; prog_thicken; prog_thin; prog_skeletonize].
Definition binary_progs : list expr :=
  [prog_bridge; prog_clean; prog_diag; prog_endpoints; prog_branchpoints; prog_fill; prog_fill4; prog_hbreak; prog_vbreak; prog_majority; prog_remove; prog_spur; prog_thicken; prog_thin; prog_skeletonize].
Lemma listed_accepted : forallb accepts listed_progs = true.
Proof. vm_compute. reflexivity. Qed.
Lemma binary_restore : forallb restores_outside binary_progs = true.
Proof. vm_compute. reflexivity. Qed.
Lemma listed_count : (length listed_progs, length binary_progs) = (40, 15)%nat.
Proof. reflexivity. Qed.
