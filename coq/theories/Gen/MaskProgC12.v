(* GENERATED on every run by harness/props/c12.py (tools/gen_maskflow_c12.py) from the STAGED source of
   centrosome/{cpmorphology,filter,smooth}.py - do not edit.  One mask-dataflow term per listed function of C12,
   with the obligation that the verified checker accepts it. *)
From Coq Require Import List Bool ZArith.
From Centro Require Import Model.MaskFlow.
Import ListNotations.

(* library symbols (index: name) *)
(* 0: all; 1: not; 2: copy; 3: needs_ranking; 4: take; 5: rank_order.translation; 6: gather; 7: _filter.median_filter; 8: scatter; 9: rank_order.ranks; 10: ascontiguousarray; 11: any; 12: has_greater_structure_neighbour; 13: one_pixel_per_component(edt,label,rank_order,maximum_position); 14: or; 15: lt; 16: min; 17: gt; 18: max; 19: index; 20: unpack1; 21: rank_order; 22: unpack0; 23: cropiradius:-iradius,iradius:-iradius; 24: grey_erosion; 25: setsliceiradius:-iradius,iradius:-iradius; 26: grey_dilation; 27: sub; 28: max_axis0; 29: min_axis0; 30: sqrt; 31: add; 32: pow; 33: abs; 34: convolve3x3; 35: mult; 36: shift(-1,+1); 37: shift(+1,+1); 38: eq; 39: label; 40: gte; 41: div; 42: function; 43: lte; 44: shift(+1,-1); 45: logical_or; 46: shift(+1,+0); 47: shift(-1,+0); 48: shift(+0,-1); 49: shift(+0,+1); 50: shift(-1,-1); 51: setslice1:; 52: zeros; 53: fix; 54: sum; 55: arange; 56: convolve; 57: gaussian_filter; 58: kernel; 59: array; 60: count_nonzero; 61: opaque_expression; 62: lstsq; 63: transpose; 64: loop:m; 65: cropymin+y:ymax+y,xmin+x:xmax+x; 66: loop:a; 67: len; 68: unique; 69: astype; 70: maximum; 71: convex_hull_transform; 72: floor; 73: minimum; 74: cumsum; 75: indexed_store; 76: shape_of; 77: convex_hull_ijv; 78: column_stack; 79: loop:first_i; 80: ones; 81: slice; 82: loop:first_j; 83: loop:first_levels; 84: unpack2; 85: get_line_pts; 86: crop1:; 87: lexsort; 88: unpack3; 89: hstack; 90: bitor; 91: noteq; 92: crop:-1; 93: bitand; 94: neg; 95: maximum_position; 96: flat_add; 97: distance_transform_edt; 98: permutation; 99: product; 100: float; 101: table_lookup; 102: index_set; 103: loop:index_i; 104: prepare_for_index_lookup; 105: loop:index_j; 106: skeletonize_loop *)
(* constants (index: name) *)
(* 0: zeros_uint8; 1: True; 2: undefined; 3: zeros(..); 4: ones(..); 5: 1; 6: cmp; 7: $clip; 8: unpacked; 9: expr; 10: not(..); 11: is; 12: $iterations; 13: zeros; 14: permutation(..); 15: $ordering *)
Definition sym_all : nat := 0.
Definition sym_not : nat := 1.
Definition sym_copy : nat := 2.
Definition sym_needs_ranking : nat := 3.
Definition sym_take : nat := 4.
Definition sym_rank_order_translation : nat := 5.
Definition sym_gather : nat := 6.
Definition sym_filter_median_filter : nat := 7.
Definition sym_scatter : nat := 8.
Definition sym_rank_order_ranks : nat := 9.
Definition sym_ascontiguousarray : nat := 10.
Definition sym_any : nat := 11.
Definition sym_has_greater_structure_neighbour : nat := 12.
Definition sym_one_pixel_per_component_edt_label_rank_order_maximum_position : nat := 13.
Definition sym_or : nat := 14.
Definition sym_lt : nat := 15.
Definition sym_min : nat := 16.
Definition sym_gt : nat := 17.
Definition sym_max : nat := 18.
Definition sym_index : nat := 19.
Definition sym_unpack1 : nat := 20.
Definition sym_rank_order : nat := 21.
Definition sym_unpack0 : nat := 22.
Definition sym_cropiradius_iradius_iradius_iradius : nat := 23.
Definition sym_grey_erosion : nat := 24.
Definition sym_setsliceiradius_iradius_iradius_iradius : nat := 25.
Definition sym_grey_dilation : nat := 26.
Definition sym_sub : nat := 27.
Definition sym_max_axis0 : nat := 28.
Definition sym_min_axis0 : nat := 29.
Definition sym_sqrt : nat := 30.
Definition sym_add : nat := 31.
Definition sym_pow : nat := 32.
Definition sym_abs : nat := 33.
Definition sym_convolve3x3 : nat := 34.
Definition sym_mult : nat := 35.
Definition sym_shift_1_1 : nat := 36.
Definition sym_eq : nat := 38.
Definition sym_label : nat := 39.
Definition sym_gte : nat := 40.
Definition sym_div : nat := 41.
Definition sym_function : nat := 42.
Definition sym_lte : nat := 43.
Definition sym_logical_or : nat := 45.
Definition sym_shift_1_0 : nat := 46.
Definition sym_shift_0_1 : nat := 48.
Definition sym_setslice1 : nat := 51.
Definition sym_zeros : nat := 52.
Definition sym_fix : nat := 53.
Definition sym_sum : nat := 54.
Definition sym_arange : nat := 55.
Definition sym_convolve : nat := 56.
Definition sym_gaussian_filter : nat := 57.
Definition sym_kernel : nat := 58.
Definition sym_array : nat := 59.
Definition sym_count_nonzero : nat := 60.
Definition sym_opaque_expression : nat := 61.
Definition sym_lstsq : nat := 62.
Definition sym_transpose : nat := 63.
Definition sym_loop_m : nat := 64.
Definition sym_cropymin_y_ymax_y_xmin_x_xmax_x : nat := 65.
Definition sym_loop_a : nat := 66.
Definition sym_len : nat := 67.
Definition sym_unique : nat := 68.
Definition sym_astype : nat := 69.
Definition sym_maximum : nat := 70.
Definition sym_convex_hull_transform : nat := 71.
Definition sym_floor : nat := 72.
Definition sym_minimum : nat := 73.
Definition sym_cumsum : nat := 74.
Definition sym_indexed_store : nat := 75.
Definition sym_shape_of : nat := 76.
Definition sym_convex_hull_ijv : nat := 77.
Definition sym_column_stack : nat := 78.
Definition sym_loop_first_i : nat := 79.
Definition sym_ones : nat := 80.
Definition sym_slice : nat := 81.
Definition sym_loop_first_j : nat := 82.
Definition sym_loop_first_levels : nat := 83.
Definition sym_unpack2 : nat := 84.
Definition sym_get_line_pts : nat := 85.
Definition sym_crop1 : nat := 86.
Definition sym_lexsort : nat := 87.
Definition sym_unpack3 : nat := 88.
Definition sym_hstack : nat := 89.
Definition sym_bitor : nat := 90.
Definition sym_noteq : nat := 91.
Definition sym_crop_1 : nat := 92.
Definition sym_bitand : nat := 93.
Definition sym_neg : nat := 94.
Definition sym_maximum_position : nat := 95.
Definition sym_flat_add : nat := 96.
Definition sym_distance_transform_edt : nat := 97.
Definition sym_permutation : nat := 98.
Definition sym_product : nat := 99.
Definition sym_float : nat := 100.
Definition sym_table_lookup : nat := 101.
Definition sym_index_set : nat := 102.
Definition sym_loop_index_i : nat := 103.
Definition sym_prepare_for_index_lookup : nat := 104.
Definition sym_loop_index_j : nat := 105.
Definition sym_skeletonize_loop : nat := 106.

(* median_filter_unmasked_minmax (20 DAG nodes, 65 as a tree):  Select (Pw copy [Img]) (Glob all [Pw not [MaskE]]) (Select (Glob take [Glob rank_order.translation [Glob gather [Select (Img) (MaskE) (FalseC); MaskE]]; Glob _filter.median_filter [Select (Glob scatter [Select (Glob rank_order.ranks [Glob gather [Select (Img) (MaskE) (FalseC); MaskE]]) (Glob needs_ranking [Img]) (Glob gather [Select (Img) (MaskE) (FalseC); MaskE]); MaskE]) (MaskE) (Const<zeros_uint8>); Pw ascontiguousarray [MaskE]]]) (Glob needs_ranking [Img]) (Glob _filter.median_filter [Select (Glob scatter [Select (Glob rank_order.ranks [Glob gather [Select (Img) (MaskE) (FalseC); MaskE]])  ... *)
Definition prog_median_filter_unmasked_minmax : prog :=
  ([(Glob 3 [Img]);
    (Glob 6 [(Select Img MaskE FalseC); MaskE]);
    (Glob 7 [(Select (Glob 8 [(Select (Glob 9 [(Ref 1)]) (Ref 0) (Ref 1)); MaskE]) MaskE (Const 0)); (Pw 10 [MaskE])])],
   (Select (Pw 2 [Img]) (Glob 0 [(Pw 1 [MaskE])]) (Select (Glob 4 [(Glob 5 [(Ref 1)]); (Ref 2)]) (Ref 0) (Ref 2)))).
Example median_filter_unmasked_minmax_rejected : accepts prog_median_filter_unmasked_minmax = false.
Proof. vm_compute. reflexivity. Qed.

(* regional_maximum_unmasked_ties (10 DAG nodes, 24 as a tree):  Select (Glob one_pixel_per_component(edt,label,rank_order,maximum_position) [Select (Pw not [LocS 0 has_greater_structure_neighbour (Img)]) (ErodeS 0 (MaskE)) (FalseC)]) (Glob any [Select (Pw not [LocS 0 has_greater_structure_neighbour (Img)]) (ErodeS 0 (MaskE)) (FalseC)]) (Select (Pw not [LocS 0 has_greater_structure_neighbour (Img)]) (ErodeS 0 (MaskE)) (FalseC)) *)
Definition prog_regional_maximum_unmasked_ties : prog :=
  ([(Select (Pw 1 [(LocS 0 12 Img)]) (ErodeS 0 MaskE) FalseC)],
   (Select (Glob 13 [(Ref 0)]) (Glob 11 [(Ref 0)]) (Select (Pw 1 [(LocS 0 12 Img)]) (ErodeS 0 MaskE) FalseC))).
Example regional_maximum_unmasked_ties_rejected : accepts prog_regional_maximum_unmasked_ties = false.
Proof. vm_compute. reflexivity. Qed.

(* median_filter (28 DAG nodes, 133 as a tree):  Select (Pw copy [Img]) (Glob all [Pw not [MaskE]]) (Select (Glob index [Select (Glob unpack1 [Glob rank_order [Glob gather [Select (Img) (MaskE) (FalseC); MaskE]]]) (Pw or [Pw lt [Glob min [Glob gather [Select (Img) (MaskE) (FalseC); MaskE]]]; Pw gt [Glob max [Glob gather [Select (Img) (MaskE) (FalseC); MaskE]]]]) (Const<undefined>); Glob _filter.median_filter [Select (Glob scatter [Select (Glob unpack0 [Glob rank_order [Glob gather [Select (Img) (MaskE) (FalseC); MaskE]]]) (Pw or [Pw lt [Glob min [Glob gather [Select (Img) (MaskE) (FalseC); MaskE]]]; Pw gt [Glob max [Glob gather [Select (Img) ... *)
Definition prog_median_filter : prog :=
  ([(Glob 6 [(Select Img MaskE FalseC); MaskE]);
    (Pw 14 [(Pw 15 [(Glob 16 [(Ref 0)])]); (Pw 17 [(Glob 18 [(Ref 0)])])]);
    (Glob 21 [(Ref 0)]);
    (Glob 7 [(Select (Glob 8 [(Select (Glob 22 [(Ref 2)]) (Ref 1) (Ref 0)); MaskE]) MaskE (Const 3)); MaskE])],
   (Select (Pw 2 [Img]) (Glob 0 [(Pw 1 [MaskE])]) (Select (Glob 19 [(Select (Glob 20 [(Ref 2)]) (Ref 1) (Const 2)); (Ref 3)]) (Select (Const 1) (Ref 1) FalseC) (Ref 3)))).
Example median_filter_ok : accepts prog_median_filter = true.
Proof. vm_compute. reflexivity. Qed.

(* grey_erosion (9 DAG nodes, 11 as a tree):  Select (Glob cropiradius:-iradius,iradius:-iradius [Glob grey_erosion [Glob setsliceiradius:-iradius,iradius:-iradius [Const<ones(..)>; Select (Img) (MaskE) (Const<1>)]]]) (MaskE) (Img) *)
Definition prog_grey_erosion : prog :=
  ([],
   (Select (Glob 23 [(Glob 24 [(Glob 25 [(Const 4); (Select Img MaskE (Const 5))])])]) MaskE Img)).
Example grey_erosion_ok : accepts prog_grey_erosion = true.
Proof. vm_compute. reflexivity. Qed.

(* grey_dilation (9 DAG nodes, 11 as a tree):  Select (Glob cropiradius:-iradius,iradius:-iradius [Glob grey_dilation [Glob setsliceiradius:-iradius,iradius:-iradius [Const<zeros(..)>; Select (Img) (MaskE) (FalseC)]]]) (MaskE) (Img) *)
Definition prog_grey_dilation : prog :=
  ([],
   (Select (Glob 23 [(Glob 26 [(Glob 25 [(Const 3); (Select Img MaskE FalseC)])])]) MaskE Img)).
Example grey_dilation_ok : accepts prog_grey_dilation = true.
Proof. vm_compute. reflexivity. Qed.

(* opening (16 DAG nodes, 31 as a tree):  Select (Glob cropiradius:-iradius,iradius:-iradius [Glob grey_dilation [Glob setsliceiradius:-iradius,iradius:-iradius [Const<zeros(..)>; Select (Select (Glob cropiradius:-iradius,iradius:-iradius [Glob grey_erosion [Glob setsliceiradius:-iradius,iradius:-iradius [Const<ones(..)>; Select (Img) (MaskE) (Const<1>)]]]) (MaskE) (Img)) (MaskE) (FalseC)]]]) (MaskE) (Select (Glob cropiradius:-iradius,iradius:-iradius [Glob grey_erosion [Glob setsliceiradius:-iradius,iradius:-iradius [Const<ones(..)>; Select (Img) (MaskE) (Const<1>)]]]) (MaskE) (Img)) *)
Definition prog_opening : prog :=
  ([(Select (Glob 23 [(Glob 24 [(Glob 25 [(Const 4); (Select Img MaskE (Const 5))])])]) MaskE Img)],
   (Select (Glob 23 [(Glob 26 [(Glob 25 [(Const 3); (Select (Ref 0) MaskE FalseC)])])]) MaskE (Select (Glob 23 [(Glob 24 [(Glob 25 [(Const 4); (Select Img MaskE (Const 5))])])]) MaskE Img))).
Example opening_ok : accepts prog_opening = true.
Proof. vm_compute. reflexivity. Qed.

(* closing (16 DAG nodes, 31 as a tree):  Select (Glob cropiradius:-iradius,iradius:-iradius [Glob grey_erosion [Glob setsliceiradius:-iradius,iradius:-iradius [Const<ones(..)>; Select (Select (Glob cropiradius:-iradius,iradius:-iradius [Glob grey_dilation [Glob setsliceiradius:-iradius,iradius:-iradius [Const<zeros(..)>; Select (Img) (MaskE) (FalseC)]]]) (MaskE) (Img)) (MaskE) (Const<1>)]]]) (MaskE) (Select (Glob cropiradius:-iradius,iradius:-iradius [Glob grey_dilation [Glob setsliceiradius:-iradius,iradius:-iradius [Const<zeros(..)>; Select (Img) (MaskE) (FalseC)]]]) (MaskE) (Img)) *)
Definition prog_closing : prog :=
  ([(Select (Glob 23 [(Glob 26 [(Glob 25 [(Const 3); (Select Img MaskE FalseC)])])]) MaskE Img)],
   (Select (Glob 23 [(Glob 24 [(Glob 25 [(Const 4); (Select (Ref 0) MaskE (Const 5))])])]) MaskE (Select (Glob 23 [(Glob 26 [(Glob 25 [(Const 3); (Select Img MaskE FalseC)])])]) MaskE Img))).
Example closing_ok : accepts prog_closing = true.
Proof. vm_compute. reflexivity. Qed.

(* white_tophat (18 DAG nodes, 36 as a tree):  Select (Pw sub [Img; Select (Glob cropiradius:-iradius,iradius:-iradius [Glob grey_dilation [Glob setsliceiradius:-iradius,iradius:-iradius [Const<zeros(..)>; Select (Select (Glob cropiradius:-iradius,iradius:-iradius [Glob grey_erosion [Glob setsliceiradius:-iradius,iradius:-iradius [Const<ones(..)>; Select (Img) (MaskE) (Const<1>)]]]) (MaskE) (Img)) (MaskE) (FalseC)]]]) (MaskE) (Select (Glob cropiradius:-iradius,iradius:-iradius [Glob grey_erosion [Glob setsliceiradius:-iradius,iradius:-iradius [Const<ones(..)>; Select (Img) (MaskE) (Const<1>)]]]) (MaskE) (Img))]) (MaskE) (Img) *)
Definition prog_white_tophat : prog :=
  ([(Select (Glob 23 [(Glob 24 [(Glob 25 [(Const 4); (Select Img MaskE (Const 5))])])]) MaskE Img)],
   (Select (Pw 27 [Img; (Select (Glob 23 [(Glob 26 [(Glob 25 [(Const 3); (Select (Ref 0) MaskE FalseC)])])]) MaskE (Ref 0))]) MaskE Img)).
Example white_tophat_ok : accepts prog_white_tophat = true.
Proof. vm_compute. reflexivity. Qed.

(* black_tophat (18 DAG nodes, 36 as a tree):  Select (Pw sub [Select (Glob cropiradius:-iradius,iradius:-iradius [Glob grey_erosion [Glob setsliceiradius:-iradius,iradius:-iradius [Const<ones(..)>; Select (Select (Glob cropiradius:-iradius,iradius:-iradius [Glob grey_dilation [Glob setsliceiradius:-iradius,iradius:-iradius [Const<zeros(..)>; Select (Img) (MaskE) (FalseC)]]]) (MaskE) (Img)) (MaskE) (Const<1>)]]]) (MaskE) (Select (Glob cropiradius:-iradius,iradius:-iradius [Glob grey_dilation [Glob setsliceiradius:-iradius,iradius:-iradius [Const<zeros(..)>; Select (Img) (MaskE) (FalseC)]]]) (MaskE) (Img)); Img]) (MaskE) (Img) *)
Definition prog_black_tophat : prog :=
  ([(Select (Glob 23 [(Glob 26 [(Glob 25 [(Const 3); (Select Img MaskE FalseC)])])]) MaskE Img)],
   (Select (Pw 27 [(Select (Glob 23 [(Glob 24 [(Glob 25 [(Const 4); (Select (Ref 0) MaskE (Const 5))])])]) MaskE (Ref 0)); Img]) MaskE Img)).
Example black_tophat_ok : accepts prog_black_tophat = true.
Proof. vm_compute. reflexivity. Qed.

(* openlines (19 DAG nodes, 65 as a tree):  Pw sub [Pw max_axis0 [Select (Glob cropiradius:-iradius,iradius:-iradius [Glob grey_dilation [Glob setsliceiradius:-iradius,iradius:-iradius [Const<zeros(..)>; Select (Select (Glob cropiradius:-iradius,iradius:-iradius [Glob grey_erosion [Glob setsliceiradius:-iradius,iradius:-iradius [Const<ones(..)>; Select (Img) (MaskE) (Const<1>)]]]) (MaskE) (Img)) (MaskE) (FalseC)]]]) (MaskE) (Select (Glob cropiradius:-iradius,iradius:-iradius [Glob grey_erosion [Glob setsliceiradius:-iradius,iradius:-iradius [Const<ones(..)>; Select (Img) (MaskE) (Const<1>)]]]) (MaskE) (Img))]; Pw min_axis0 [Select (Glob ... *)
Definition prog_openlines : prog :=
  ([(Select (Glob 23 [(Glob 24 [(Glob 25 [(Const 4); (Select Img MaskE (Const 5))])])]) MaskE Img);
    (Select (Glob 23 [(Glob 26 [(Glob 25 [(Const 3); (Select (Ref 0) MaskE FalseC)])])]) MaskE (Ref 0))],
   (Pw 27 [(Pw 28 [(Ref 1)]); (Pw 29 [(Ref 1)])])).
Example openlines_ok : accepts prog_openlines = true.
Proof. vm_compute. reflexivity. Qed.

(* sobel (10 DAG nodes, 18 as a tree):  Pw sqrt [Pw add [Pw pow [Select (Pw abs [Loc 1 convolve3x3 (Img)]) (Erode 1 (MaskE)) (FalseC)]; Pw pow [Select (Pw abs [Loc 1 convolve3x3 (Img)]) (Erode 1 (MaskE)) (FalseC)]]] *)
Definition prog_sobel : prog :=
  ([(Pw 32 [(Select (Pw 33 [(Loc 1 34 Img)]) (Erode 1 MaskE) FalseC)])],
   (Pw 30 [(Pw 31 [(Ref 0); (Ref 0)])])).
Example sobel_ok : accepts prog_sobel = true.
Proof. vm_compute. reflexivity. Qed.

(* hsobel (7 DAG nodes, 7 as a tree):  Select (Pw abs [Loc 1 convolve3x3 (Img)]) (Erode 1 (MaskE)) (FalseC) *)
Definition prog_hsobel : prog :=
  ([],
   (Select (Pw 33 [(Loc 1 34 Img)]) (Erode 1 MaskE) FalseC)).
Example hsobel_ok : accepts prog_hsobel = true.
Proof. vm_compute. reflexivity. Qed.

(* vsobel (7 DAG nodes, 7 as a tree):  Select (Pw abs [Loc 1 convolve3x3 (Img)]) (Erode 1 (MaskE)) (FalseC) *)
Definition prog_vsobel : prog :=
  ([],
   (Select (Pw 33 [(Loc 1 34 Img)]) (Erode 1 MaskE) FalseC)).
Example vsobel_ok : accepts prog_vsobel = true.
Proof. vm_compute. reflexivity. Qed.

(* prewitt (10 DAG nodes, 18 as a tree):  Pw sqrt [Pw add [Pw pow [Select (Pw abs [Loc 1 convolve3x3 (Img)]) (Erode 1 (MaskE)) (FalseC)]; Pw pow [Select (Pw abs [Loc 1 convolve3x3 (Img)]) (Erode 1 (MaskE)) (FalseC)]]] *)
Definition prog_prewitt : prog :=
  ([(Pw 32 [(Select (Pw 33 [(Loc 1 34 Img)]) (Erode 1 MaskE) FalseC)])],
   (Pw 30 [(Pw 31 [(Ref 0); (Ref 0)])])).
Example prewitt_ok : accepts prog_prewitt = true.
Proof. vm_compute. reflexivity. Qed.

(* hprewitt (7 DAG nodes, 7 as a tree):  Select (Pw abs [Loc 1 convolve3x3 (Img)]) (Erode 1 (MaskE)) (FalseC) *)
Definition prog_hprewitt : prog :=
  ([],
   (Select (Pw 33 [(Loc 1 34 Img)]) (Erode 1 MaskE) FalseC)).
Example hprewitt_ok : accepts prog_hprewitt = true.
Proof. vm_compute. reflexivity. Qed.

(* vprewitt (7 DAG nodes, 7 as a tree):  Select (Pw abs [Loc 1 convolve3x3 (Img)]) (Erode 1 (MaskE)) (FalseC) *)
Definition prog_vprewitt : prog :=
  ([],
   (Select (Pw 33 [(Loc 1 34 Img)]) (Erode 1 MaskE) FalseC)).
Example vprewitt_ok : accepts prog_vprewitt = true.
Proof. vm_compute. reflexivity. Qed.

(* roberts (22 DAG nodes, 87 as a tree):  Select (Glob scatter [Pw sqrt [Pw add [Pw mult [Pw sub [Glob gather [Select (Img) (Erode 1 (MaskE)) (FalseC); Erode 1 (MaskE)]; Glob gather [Select (Loc 1 shift(-1,+1) (Img)) (Erode 1 (MaskE)) (FalseC); Erode 1 (MaskE)]]; Pw sub [Glob gather [Select (Img) (Erode 1 (MaskE)) (FalseC); Erode 1 (MaskE)]; Glob gather [Select (Loc 1 shift(-1,+1) (Img)) (Erode 1 (MaskE)) (FalseC); Erode 1 (MaskE)]]]; Pw mult [Pw sub [Glob gather [Select (Img) (Erode 1 (MaskE)) (FalseC); Erode 1 (MaskE)]; Glob gather [Select (Loc 1 shift(+1,+1) (Img)) (Erode 1 (MaskE)) (FalseC); Erode 1 (MaskE)]]; Pw sub [Glob gather  ... *)
Definition prog_roberts : prog :=
  ([(Erode 1 MaskE);
    (Glob 6 [(Select Img (Ref 0) FalseC); (Ref 0)]);
    (Pw 27 [(Ref 1); (Glob 6 [(Select (Loc 1 36 Img) (Ref 0) FalseC); (Ref 0)])]);
    (Pw 27 [(Ref 1); (Glob 6 [(Select (Loc 1 37 Img) (Ref 0) FalseC); (Ref 0)])])],
   (Select (Glob 8 [(Pw 30 [(Pw 31 [(Pw 35 [(Ref 2); (Ref 2)]); (Pw 35 [(Ref 3); (Ref 3)])])]); (Ref 0)]) (Ref 0) (Select (Const 3) (Ref 0) FalseC))).
Example roberts_ok : accepts prog_roberts = true.
Proof. vm_compute. reflexivity. Qed.

(* canny (165 DAG nodes, 138005 as a tree):  Select (Select (Pw gte [Pw sqrt [Pw add [Pw mult [Loc 1 convolve3x3 (Pw div [Glob function [Select (Img) (MaskE) (Const<zeros(..)>)]; Pw add [Glob function [MaskE]]]); Loc 1 convolve3x3 (Pw div [Glob function [Select (Img) (MaskE) (Const<zeros(..)>)]; Pw add [Glob function [MaskE]]])]; Pw mult [Loc 1 convolve3x3 (Pw div [Glob function [Select (Img) (MaskE) (Const<zeros(..)>)]; Pw add [Glob function [MaskE]]]); Loc 1 convolve3x3 (Pw div [Glob function [Select (Img) (MaskE) (Const<zeros(..)>)]; Pw add [Glob function [MaskE]]])]]]]) (Select (Glob scatter [Select (Pw lte [Pw add [Pw mult [Glob gat ... *)
Definition prog_canny : prog :=
  ([(Loc 1 34 (Pw 41 [(Glob 42 [(Select Img MaskE (Const 3))]); (Pw 31 [(Glob 42 [MaskE])])]));
    (Pw 35 [(Ref 0); (Ref 0)]);
    (Pw 30 [(Pw 31 [(Ref 1); (Ref 1)])]);
    (Loc 1 44 (Ref 2));
    (Pw 33 [(Ref 0)]);
    (Pw 40 [(Ref 4); (Ref 4)]);
    (Pw 40 [(Ref 0)]);
    (Select (Ref 5) (Ref 6) FalseC);
    (Pw 43 [(Ref 0)]);
    (Select (Ref 5) (Ref 8) FalseC);
    (Select (Pw 17 [(Ref 2)]) (Erode 1 MaskE) FalseC);
    (Select (Pw 45 [(Select (Ref 7) (Ref 8) FalseC); (Select (Ref 9) (Ref 6) FalseC)]) (Ref 10) FalseC);
    (Glob 6 [(Select (Ref 4) (Ref 11) FalseC); (Ref 11)]);
    (Pw 41 [(Ref 12); (Ref 12)]);
    (Loc 1 46 (Ref 2));
    (Pw 27 [(Ref 13)]);
    (Glob 6 [(Select (Ref 2) (Ref 11) FalseC); (Ref 11)]);
    (Loc 1 36 (Ref 2));
    (Loc 1 47 (Ref 2));
    (Pw 43 [(Ref 4); (Ref 4)]);
    (Select (Ref 19) (Ref 6) FalseC);
    (Select (Ref 19) (Ref 8) FalseC);
    (Select (Pw 45 [(Select (Ref 20) (Ref 8) FalseC); (Select (Ref 21) (Ref 6) FalseC)]) (Ref 10) FalseC);
    (Glob 6 [(Select (Ref 4) (Ref 22) FalseC); (Ref 22)]);
    (Pw 41 [(Ref 23); (Ref 23)]);
    (Loc 1 48 (Ref 2));
    (Pw 27 [(Ref 24)]);
    (Glob 6 [(Select (Ref 2) (Ref 22) FalseC); (Ref 22)]);
    (Loc 1 49 (Ref 2));
    (Loc 1 50 (Ref 2));
    (Select (Pw 45 [(Select (Ref 20) (Ref 6) FalseC); (Select (Ref 21) (Ref 8) FalseC)]) (Ref 10) FalseC);
    (Glob 6 [(Select (Ref 4) (Ref 30) FalseC); (Ref 30)]);
    (Pw 41 [(Ref 31); (Ref 31)]);
    (Pw 27 [(Ref 32)]);
    (Glob 6 [(Select (Ref 2) (Ref 30) FalseC); (Ref 30)]);
    (Loc 1 37 (Ref 2));
    (Select (Pw 45 [(Select (Ref 7) (Ref 6) FalseC); (Select (Ref 9) (Ref 8) FalseC)]) (Ref 10) FalseC);
    (Glob 6 [(Select (Ref 4) (Ref 36) FalseC); (Ref 36)]);
    (Pw 41 [(Ref 37); (Ref 37)]);
    (Pw 27 [(Ref 38)]);
    (Glob 6 [(Select (Ref 2) (Ref 36) FalseC); (Ref 36)]);
    (Select (Pw 40 [(Ref 2)]) (Select (Glob 8 [(Select (Pw 43 [(Pw 31 [(Pw 35 [(Glob 6 [(Select (Ref 3) (Ref 11) FalseC); (Ref 11)]); (Ref 13)]); (Pw 35 [(Glob 6 [(Select (Ref 14) (Ref 11) FalseC); (Ref 11)]); (Ref 15)])]); (Ref 16)]) (Pw 43 [(Pw 31 [(Pw 35 [(Glob 6 [(Select (Ref 17) (Ref 11) FalseC); (Ref 11)]); (Ref 13)]); (Pw 35 [(Glob 6 [(Select (Ref 18) (Ref 11) FalseC); (Ref 11)]); (Ref 15)])]); (Ref 16)]) FalseC); (Ref 11)]) (Ref 11) (Select (Glob 8 [(Select (Pw 43 [(Pw 31 [(Pw 35 [(Glob 6 [(Select (Ref 3) (Ref 22) FalseC); (Ref 22)]); (Ref 24)]); (Pw 35 [(Glob 6 [(Select (Ref 25) (Ref 22) FalseC); (Ref 22)]); (Ref 26)])]); (Ref 27)]) (Pw 43 [(Pw 31 [(Pw 35 [(Glob 6 [(Select (Ref 17) (Ref 22) FalseC); (Ref 22)]); (Ref 24)]); (Pw 35 [(Glob 6 [(Select (Ref 28) (Ref 22) FalseC); (Ref 22)]); (Ref 26)])]); (Ref 27)]) FalseC); (Ref 22)]) (Ref 22) (Select (Glob 8 [(Select (Pw 43 [(Pw 31 [(Pw 35 [(Glob 6 [(Select (Ref 29) (Ref 30) FalseC); (Ref 30)]); (Ref 32)]); (Pw 35 [(Glob 6 [(Select (Ref 25) (Ref 30) FalseC); (Ref 30)]); (Ref 33)])]); (Ref 34)]) (Pw 43 [(Pw 31 [(Pw 35 [(Glob 6 [(Select (Ref 35) (Ref 30) FalseC); (Ref 30)]); (Ref 32)]); (Pw 35 [(Glob 6 [(Select (Ref 28) (Ref 30) FalseC); (Ref 30)]); (Ref 33)])]); (Ref 34)]) FalseC); (Ref 30)]) (Ref 30) (Select (Glob 8 [(Select (Pw 43 [(Pw 31 [(Pw 35 [(Glob 6 [(Select (Ref 29) (Ref 36) FalseC); (Ref 36)]); (Ref 38)]); (Pw 35 [(Glob 6 [(Select (Ref 18) (Ref 36) FalseC); (Ref 36)]); (Ref 39)])]); (Ref 40)]) (Pw 43 [(Pw 31 [(Pw 35 [(Glob 6 [(Select (Ref 35) (Ref 36) FalseC); (Ref 36)]); (Ref 38)]); (Pw 35 [(Glob 6 [(Select (Ref 14) (Ref 36) FalseC); (Ref 36)]); (Ref 39)])]); (Ref 40)]) FalseC); (Ref 36)]) (Ref 36) (Const 3))))) FalseC);
    (Glob 39 [(Ref 41)]);
    (Glob 20 [(Ref 42)]);
    (Glob 22 [(Ref 42)])],
   (Select (Select (Pw 40 [(Ref 2)]) (Select (Glob 8 [(Select (Pw 43 [(Pw 31 [(Pw 35 [(Glob 6 [(Select (Ref 3) (Ref 11) FalseC); (Ref 11)]); (Ref 13)]); (Pw 35 [(Glob 6 [(Select (Ref 14) (Ref 11) FalseC); (Ref 11)]); (Ref 15)])]); (Ref 16)]) (Pw 43 [(Pw 31 [(Pw 35 [(Glob 6 [(Select (Ref 17) (Ref 11) FalseC); (Ref 11)]); (Ref 13)]); (Pw 35 [(Glob 6 [(Select (Ref 18) (Ref 11) FalseC); (Ref 11)]); (Ref 15)])]); (Ref 16)]) FalseC); (Ref 11)]) (Ref 11) (Select (Glob 8 [(Select (Pw 43 [(Pw 31 [(Pw 35 [(Glob 6 [(Select (Ref 3) (Ref 22) FalseC); (Ref 22)]); (Ref 24)]); (Pw 35 [(Glob 6 [(Select (Ref 25) (Ref 22) FalseC); (Ref 22)]); (Ref 26)])]); (Ref 27)]) (Pw 43 [(Pw 31 [(Pw 35 [(Glob 6 [(Select (Ref 17) (Ref 22) FalseC); (Ref 22)]); (Ref 24)]); (Pw 35 [(Glob 6 [(Select (Ref 28) (Ref 22) FalseC); (Ref 22)]); (Ref 26)])]); (Ref 27)]) FalseC); (Ref 22)]) (Ref 22) (Select (Glob 8 [(Select (Pw 43 [(Pw 31 [(Pw 35 [(Glob 6 [(Select (Ref 29) (Ref 30) FalseC); (Ref 30)]); (Ref 32)]); (Pw 35 [(Glob 6 [(Select (Ref 25) (Ref 30) FalseC); (Ref 30)]); (Ref 33)])]); (Ref 34)]) (Pw 43 [(Pw 31 [(Pw 35 [(Glob 6 [(Select (Ref 35) (Ref 30) FalseC); (Ref 30)]); (Ref 32)]); (Pw 35 [(Glob 6 [(Select (Ref 28) (Ref 30) FalseC); (Ref 30)]); (Ref 33)])]); (Ref 34)]) FalseC); (Ref 30)]) (Ref 30) (Select (Glob 8 [(Select (Pw 43 [(Pw 31 [(Pw 35 [(Glob 6 [(Select (Ref 29) (Ref 36) FalseC); (Ref 36)]); (Ref 38)]); (Pw 35 [(Glob 6 [(Select (Ref 18) (Ref 36) FalseC); (Ref 36)]); (Ref 39)])]); (Ref 40)]) (Pw 43 [(Pw 31 [(Pw 35 [(Glob 6 [(Select (Ref 35) (Ref 36) FalseC); (Ref 36)]); (Ref 38)]); (Pw 35 [(Glob 6 [(Select (Ref 14) (Ref 36) FalseC); (Ref 36)]); (Ref 39)])]); (Ref 40)]) FalseC); (Ref 36)]) (Ref 36) (Const 3))))) FalseC) (Pw 38 [(Ref 43)]) (Glob 19 [(Glob 51 [(Glob 52 [(Pw 31 [(Ref 43)])]); (Pw 17 [(Glob 53 [(Glob 54 [(Ref 41); (Ref 44); (Pw 31 [(Glob 55 [(Ref 43)])])])])])]); (Ref 44)]))).
Example canny_ok : accepts prog_canny = true.
Proof. vm_compute. reflexivity. Qed.

(* laplacian_of_gaussian (11 DAG nodes, 15 as a tree):  Select (Pw add [Glob convolve [Select (Pw copy [Img]) (MaskE) (FalseC)]; Pw mult [Glob convolve [Pw not [MaskE]]; Img]]) (MaskE) (Img) *)
Definition prog_laplacian_of_gaussian : prog :=
  ([],
   (Select (Pw 31 [(Glob 56 [(Select (Pw 2 [Img]) MaskE FalseC)]); (Pw 35 [(Glob 56 [(Pw 1 [MaskE])]); Img])]) MaskE Img)).
Example laplacian_of_gaussian_ok : accepts prog_laplacian_of_gaussian = true.
Proof. vm_compute. reflexivity. Qed.

(* variance_transform (13 DAG nodes, 21 as a tree):  Pw sub [Pw div [Glob gaussian_filter [Pw pow [Select (Pw copy [Img]) (MaskE) (FalseC)]]; Glob gaussian_filter [MaskE]]; Pw pow [Pw div [Glob gaussian_filter [Select (Pw copy [Img]) (MaskE) (FalseC)]; Glob gaussian_filter [MaskE]]]] *)
Definition prog_variance_transform : prog :=
  ([(Select (Pw 2 [Img]) MaskE FalseC);
    (Glob 57 [MaskE])],
   (Pw 27 [(Pw 41 [(Glob 57 [(Pw 32 [(Ref 0)])]); (Ref 1)]); (Pw 32 [(Pw 41 [(Glob 57 [(Ref 0)]); (Ref 1)])])])).
Example variance_transform_ok : accepts prog_variance_transform = true.
Proof. vm_compute. reflexivity. Qed.

(* circular_average_filter (5 DAG nodes, 7 as a tree):  Select (MConv kernel (Pw ascontiguousarray [Img]) (MaskE)) (MaskE) (Img) *)
Definition prog_circular_average_filter : prog :=
  ([],
   (Select (MConv 58 (Pw 10 [Img]) MaskE) MaskE Img)).
Example circular_average_filter_ok : accepts prog_circular_average_filter = true.
Proof. vm_compute. reflexivity. Qed.

(* smooth_with_function_and_mask (8 DAG nodes, 9 as a tree):  Pw div [Glob function [Select (Img) (MaskE) (Const<zeros(..)>)]; Pw add [Glob function [MaskE]]] *)
Definition prog_smooth_with_function_and_mask : prog :=
  ([],
   (Pw 41 [(Glob 42 [(Select Img MaskE (Const 3))]); (Pw 31 [(Glob 42 [MaskE])])])).
Example smooth_with_function_and_mask_ok : accepts prog_smooth_with_function_and_mask = true.
Proof. vm_compute. reflexivity. Qed.

(* stretch (20 DAG nodes, 76 as a tree):  Select (Pw array [Img]) (Const<cmp>) (Select (Pw array [Img]) (Pw eq [Glob count_nonzero [MaskE]]) (Select (Glob scatter [Select (Glob min [Glob gather [Select (Pw array [Img]) (MaskE) (FalseC); MaskE]]) (Pw eq [Glob min [Glob gather [Select (Pw array [Img]) (MaskE) (FalseC); MaskE]]; Glob max [Glob gather [Select (Pw array [Img]) (MaskE) (FalseC); MaskE]]]) (Pw div [Pw sub [Glob gather [Select (Pw array [Img]) (MaskE) (FalseC); MaskE]; Glob min [Glob gather [Select (Pw array [Img]) (MaskE) (FalseC); MaskE]]]; Pw sub [Glob max [Glob gather [Select (Pw array [Img]) (MaskE) (FalseC); MaskE]]; Gl ... *)
Definition prog_stretch : prog :=
  ([(Pw 59 [Img]);
    (Glob 6 [(Select (Ref 0) MaskE FalseC); MaskE]);
    (Glob 16 [(Ref 1)]);
    (Glob 18 [(Ref 1)])],
   (Select (Ref 0) (Const 6) (Select (Ref 0) (Pw 38 [(Glob 60 [MaskE])]) (Select (Glob 8 [(Select (Ref 2) (Pw 38 [(Ref 2); (Ref 3)]) (Pw 41 [(Pw 27 [(Ref 1); (Ref 2)]); (Pw 27 [(Ref 3); (Ref 2)])])); MaskE]) MaskE (Ref 0))))).
Example stretch_ok : accepts prog_stretch = true.
Proof. vm_compute. reflexivity. Qed.

(* fit_polynomial (31 DAG nodes, 539 as a tree):  Select (Select (Select (FalseC) (Pw lt [Select (Const<1>) (Pw gt [Glob sum [Glob opaque_expression [Glob index [Glob lstsq [Glob transpose [Pw array [Glob gather [Select (Const<unpacked>) (Select (Pw gt [Img]) (MaskE) (FalseC)) (FalseC); Select (Pw gt [Img]) (MaskE) (FalseC)]; Glob gather [Select (Const<unpacked>) (Select (Pw gt [Img]) (MaskE) (FalseC)) (FalseC); Select (Pw gt [Img]) (MaskE) (FalseC)]; Glob gather [Select (Const<expr>) (Select (Pw gt [Img]) (MaskE) (FalseC)) (FalseC); Select (Pw gt [Img]) (MaskE) (FalseC)]; Glob gather [Select (Const<expr>) (Select (Pw gt [Img]) (MaskE) (False ... *)
Definition prog_fit_polynomial : prog :=
  ([(Select (Pw 17 [Img]) MaskE FalseC);
    (Glob 6 [(Select (Const 8) (Ref 0) FalseC); (Ref 0)]);
    (Glob 6 [(Select (Const 9) (Ref 0) FalseC); (Ref 0)]);
    (Glob 54 [(Glob 61 [(Glob 19 [(Glob 62 [(Glob 63 [(Pw 59 [(Ref 1); (Ref 1); (Ref 2); (Ref 2); (Ref 2); (Glob 6 [(Select (Const 4) (Ref 0) FalseC); (Ref 0)])])]); (Glob 6 [(Select Img (Ref 0) FalseC); (Ref 0)])])])])]);
    (Select (Const 5) (Pw 17 [(Ref 3)]) (Ref 3))],
   (Select (Select (Select FalseC (Pw 15 [(Ref 4)]) (Select (Const 5) (Pw 17 [(Ref 3)]) (Ref 3))) (Const 7) (Ref 3)) (Glob 11 [(Ref 0)]) Img)).
Example fit_polynomial_ok : accepts prog_fit_polynomial = true.
Proof. vm_compute. reflexivity. Qed.

(* circular_hough (11 DAG nodes, 35 as a tree):  Select (Pw div [Glob loop:a [Glob cropymin+y:ymax+y,xmin+x:xmax+x [Select (Img) (MaskE) (FalseC)]; Glob cropymin+y:ymax+y,xmin+x:xmax+x [MaskE]]; Glob loop:m [Glob cropymin+y:ymax+y,xmin+x:xmax+x [Select (Img) (MaskE) (FalseC)]; Glob cropymin+y:ymax+y,xmin+x:xmax+x [MaskE]]]) (Pw gt [Glob loop:m [Glob cropymin+y:ymax+y,xmin+x:xmax+x [Select (Img) (MaskE) (FalseC)]; Glob cropymin+y:ymax+y,xmin+x:xmax+x [MaskE]]]) (Glob loop:a [Glob cropymin+y:ymax+y,xmin+x:xmax+x [Select (Img) (MaskE) (FalseC)]; Glob cropymin+y:ymax+y,xmin+x:xmax+x [MaskE]]) *)
Definition prog_circular_hough : prog :=
  ([(Glob 65 [(Select Img MaskE FalseC)]);
    (Glob 65 [MaskE]);
    (Glob 64 [(Ref 0); (Ref 1)]);
    (Glob 66 [(Ref 0); (Ref 1)])],
   (Select (Pw 41 [(Ref 3); (Ref 2)]) (Pw 17 [(Ref 2)]) (Ref 3))).
Example circular_hough_ok : accepts prog_circular_hough = true.
Proof. vm_compute. reflexivity. Qed.

(* convex_hull_transform (144 DAG nodes, 1589701008 as a tree):  Select (Const<zeros(..)>) (Pw eq [Glob len [Glob gather [Select (Img) (MaskE) (FalseC); MaskE]]]) (Select (Img) (Pw eq [Glob min [Glob gather [Select (Img) (MaskE) (FalseC); MaskE]]; Glob max [Glob gather [Select (Img) (MaskE) (FalseC); MaskE]]]) (Glob index [Glob index [Pw add [Glob min [Glob gather [Select (Img) (MaskE) (FalseC); MaskE]]; Pw div [Pw mult [Pw sub [Glob max [Glob gather [Select (Img) (MaskE) (FalseC); MaskE]]; Glob min [Glob gather [Select (Img) (MaskE) (FalseC); MaskE]]]]]]; Glob unique [Pw astype [Select (Pw maximum [Select (Pw div [Pw mult [Pw sub [Img; Glob min [Glob gathe ... *)
Definition prog_convex_hull_transform : prog :=
  ([(Glob 6 [(Select Img MaskE FalseC); MaskE]);
    (Glob 16 [(Ref 0)]);
    (Glob 18 [(Ref 0)]);
    (Pw 27 [(Ref 2); (Ref 1)]);
    (Select (Pw 41 [(Pw 35 [(Pw 27 [Img; (Ref 1)])]); (Ref 3)]) MaskE FalseC);
    (Pw 69 [(Select (Pw 70 [(Ref 4); (Glob 71 [(Pw 72 [(Ref 4)])])]) (Const 6) (Ref 4))]);
    (Glob 68 [(Ref 5)]);
    (Glob 55 [(Glob 67 [(Ref 6)])]);
    (Glob 19 [(Glob 75 [(Ref 6); (Ref 7)]); (Ref 5)]);
    (Glob 76 [(Ref 8)]);
    (Glob 75 [(Glob 75 [(Glob 75 [(Glob 75 [(Pw 69 [(Glob 23 [(Glob 24 [(Glob 25 [(Glob 80 [(Pw 31 [(Pw 59 [(Ref 9)])])]); (Ref 8)])])])])])])])]);
    (Pw 17 [(Ref 8); (Ref 10)]);
    (Glob 6 [(Select (Ref 8) (Ref 11) FalseC); (Ref 11)]);
    (Glob 6 [(Select (Ref 10) (Ref 11) FalseC); (Ref 11)]);
    (Pw 27 [(Ref 12); (Ref 13)]);
    (Pw 27 [(Glob 74 [(Ref 14)]); (Ref 14)]);
    (Glob 54 [(Ref 14)]);
    (Glob 67 [(Ref 14)]);
    (Glob 81 [(Glob 19 [(Ref 9)])]);
    (Glob 19 [(Ref 18); (Ref 18)]);
    (Glob 6 [(Select (Glob 22 [(Ref 19)]) (Ref 11) FalseC); (Ref 11)]);
    (Glob 6 [(Select (Glob 20 [(Ref 19)]) (Ref 11) FalseC); (Ref 11)]);
    (Glob 77 [(Glob 78 [(Glob 79 [(Ref 15); (Ref 16); (Ref 17); (Ref 13); (Ref 12); (Ref 20); (Ref 21); (Ref 7)]); (Glob 82 [(Ref 15); (Ref 16); (Ref 17); (Ref 13); (Ref 12); (Ref 20); (Ref 21); (Ref 7)]); (Glob 83 [(Ref 15); (Ref 16); (Ref 17); (Ref 13); (Ref 12); (Ref 20); (Ref 21); (Ref 7)])]); (Ref 7)]);
    (Glob 19 [(Glob 22 [(Ref 22)])]);
    (Glob 20 [(Ref 22)]);
    (Pw 27 [(Glob 74 [(Ref 24)]); (Ref 24)]);
    (Glob 19 [(Ref 23); (Glob 75 [(Pw 31 [(Glob 55 [(Glob 67 [(Ref 23)])])]); (Pw 27 [(Pw 31 [(Ref 25); (Ref 24)])]); (Ref 25)])]);
    (Glob 85 [(Ref 23); (Ref 23); (Ref 26); (Ref 26)]);
    (Glob 84 [(Ref 27)]);
    (Glob 19 [(Ref 23); (Glob 74 [(Glob 75 [(Glob 52 [(Glob 67 [(Ref 28)])]); (Glob 86 [(Glob 22 [(Ref 27)])])])])]);
    (Glob 88 [(Ref 27)]);
    (Glob 87 [(Ref 29); (Ref 28); (Ref 30)]);
    (Glob 19 [(Ref 28); (Ref 31)]);
    (Glob 19 [(Ref 30); (Ref 31)]);
    (Glob 89 [(Pw 90 [(Pw 91 [(Glob 86 [(Ref 32)]); (Glob 92 [(Ref 32)])]); (Pw 91 [(Glob 86 [(Ref 33)]); (Glob 92 [(Ref 33)])])])]);
    (Glob 19 [(Glob 19 [(Ref 29); (Ref 31)]); (Ref 34)]);
    (Glob 52 [(Glob 76 [(Ref 35)])]);
    (Glob 19 [(Ref 32); (Ref 34)]);
    (Glob 19 [(Ref 33); (Ref 34)]);
    (Glob 89 [(Pw 91 [(Glob 86 [(Ref 38)]); (Glob 92 [(Ref 38)])])]);
    (Glob 19 [(Ref 38); (Ref 39)]);
    (Glob 19 [(Ref 35); (Ref 39)]);
    (Pw 1 [(Ref 39)]);
    (Glob 19 [(Ref 38); (Ref 42)]);
    (Glob 86 [(Ref 39)]);
    (Pw 1 [(Ref 44)]);
    (Glob 19 [(Pw 27 [(Glob 86 [(Ref 35)]); (Glob 92 [(Ref 35)])]); (Ref 45)]);
    (Pw 93 [(Glob 89 [(Ref 44)]); (Pw 15 [(Ref 37)])])],
   (Select (Const 3) (Pw 38 [(Glob 67 [(Ref 0)])]) (Select Img (Pw 38 [(Ref 1); (Ref 2)]) (Glob 19 [(Glob 19 [(Pw 31 [(Ref 1); (Pw 41 [(Pw 35 [(Ref 3)])])]); (Ref 6)]); (Pw 73 [(Glob 74 [(Glob 75 [(Glob 75 [(Ref 36); (Glob 19 [(Ref 37); (Ref 39)]); (Ref 40); (Ref 41)]); (Glob 19 [(Ref 37); (Ref 42)]); (Ref 43); (Ref 46)])]); (Glob 74 [(Glob 75 [(Glob 75 [(Glob 75 [(Ref 36); (Ref 40); (Ref 41)]); (Pw 31 [(Glob 19 [(Glob 92 [(Ref 37)]); (Ref 45)])]); (Ref 43); (Ref 46)]); (Pw 31 [(Glob 19 [(Ref 37); (Ref 47)])]); (Glob 19 [(Ref 38); (Ref 47)]); (Pw 94 [(Glob 19 [(Ref 35); (Ref 47)])])])])])])))).
Example convex_hull_transform_ok : accepts prog_convex_hull_transform = true.
Proof. vm_compute. reflexivity. Qed.

(* regional_maximum (34 DAG nodes, 234 as a tree):  Select (Select (Glob indexed_store [Glob index [Pw array [Glob maximum_position [Glob flat_add [Pw astype [Glob index [Glob rank_order [Glob distance_transform_edt [Select (Select (Pw not [LocS 0 has_greater_structure_neighbour (Img)]) (ErodeS 0 (MaskE)) (FalseC)) (Select (Const<ones(..)>) (MaskE) (FalseC)) (FalseC)]]]]; Pw div [Pw astype [Glob permutation [Glob product [Glob shape_of [Pw astype [Glob index [Glob rank_order [Glob distance_transform_edt [Select (Select (Pw not [LocS 0 has_greater_structure_neighbour (Img)]) (ErodeS 0 (MaskE)) (FalseC)) (Select (Const<ones(..)>) (MaskE) (FalseC) ... *)
Definition prog_regional_maximum : prog :=
  ([(Select (Select (Pw 1 [(LocS 0 12 Img)]) (ErodeS 0 MaskE) FalseC) (Select (Const 4) MaskE FalseC) FalseC);
    (Pw 69 [(Glob 19 [(Glob 21 [(Glob 97 [(Ref 0)])])])]);
    (Glob 99 [(Glob 76 [(Ref 1)])]);
    (Glob 39 [(Ref 0)]);
    (Glob 19 [(Pw 59 [(Glob 95 [(Glob 96 [(Ref 1); (Pw 41 [(Pw 69 [(Glob 98 [(Ref 2)])]); (Pw 100 [(Ref 2)])])]); (Glob 22 [(Ref 3)]); (Pw 31 [(Glob 55 [(Glob 20 [(Ref 3)])])])])])])],
   (Select (Select (Glob 75 [(Ref 4); (Ref 4)]) (Glob 11 [(Ref 0)]) (Select (Select (Pw 1 [(LocS 0 12 Img)]) (ErodeS 0 MaskE) FalseC) (Select (Const 4) MaskE FalseC) FalseC)) (Const 10) (Select (Select (Pw 1 [(LocS 0 12 Img)]) (ErodeS 0 MaskE) FalseC) (Select (Const 4) MaskE FalseC) FalseC))).
Example regional_maximum_ok : accepts prog_regional_maximum = true.
Proof. vm_compute. reflexivity. Qed.

(* bridge (8 DAG nodes, 10 as a tree):  Select (Glob table_lookup [Select (Pw copy [Pw astype [Img]]) (MaskE) (FalseC)]) (MaskE) (Img) *)
Definition prog_bridge : prog :=
  ([],
   (Select (Glob 101 [(Select (Pw 2 [(Pw 69 [Img])]) MaskE FalseC)]) MaskE Img)).
Example bridge_ok : accepts prog_bridge = true.
Proof. vm_compute. reflexivity. Qed.
Example bridge_restores : restores_outside prog_bridge = true.
Proof. vm_compute. reflexivity. Qed.

(* clean (8 DAG nodes, 10 as a tree):  Select (Glob table_lookup [Select (Pw copy [Pw astype [Img]]) (MaskE) (FalseC)]) (MaskE) (Img) *)
Definition prog_clean : prog :=
  ([],
   (Select (Glob 101 [(Select (Pw 2 [(Pw 69 [Img])]) MaskE FalseC)]) MaskE Img)).
Example clean_ok : accepts prog_clean = true.
Proof. vm_compute. reflexivity. Qed.
Example clean_restores : restores_outside prog_clean = true.
Proof. vm_compute. reflexivity. Qed.

(* diag (8 DAG nodes, 10 as a tree):  Select (Glob table_lookup [Select (Pw copy [Pw astype [Img]]) (MaskE) (FalseC)]) (MaskE) (Img) *)
Definition prog_diag : prog :=
  ([],
   (Select (Glob 101 [(Select (Pw 2 [(Pw 69 [Img])]) MaskE FalseC)]) MaskE Img)).
Example diag_ok : accepts prog_diag = true.
Proof. vm_compute. reflexivity. Qed.
Example diag_restores : restores_outside prog_diag = true.
Proof. vm_compute. reflexivity. Qed.

(* endpoints (8 DAG nodes, 10 as a tree):  Select (Glob table_lookup [Select (Pw copy [Pw astype [Img]]) (MaskE) (FalseC)]) (MaskE) (Img) *)
Definition prog_endpoints : prog :=
  ([],
   (Select (Glob 101 [(Select (Pw 2 [(Pw 69 [Img])]) MaskE FalseC)]) MaskE Img)).
Example endpoints_ok : accepts prog_endpoints = true.
Proof. vm_compute. reflexivity. Qed.
Example endpoints_restores : restores_outside prog_endpoints = true.
Proof. vm_compute. reflexivity. Qed.

(* branchpoints (8 DAG nodes, 10 as a tree):  Select (Glob table_lookup [Select (Pw copy [Pw astype [Img]]) (MaskE) (FalseC)]) (MaskE) (Img) *)
Definition prog_branchpoints : prog :=
  ([],
   (Select (Glob 101 [(Select (Pw 2 [(Pw 69 [Img])]) MaskE FalseC)]) MaskE Img)).
Example branchpoints_ok : accepts prog_branchpoints = true.
Proof. vm_compute. reflexivity. Qed.
Example branchpoints_restores : restores_outside prog_branchpoints = true.
Proof. vm_compute. reflexivity. Qed.

(* fill (8 DAG nodes, 10 as a tree):  Select (Glob table_lookup [Select (Pw copy [Pw astype [Img]]) (MaskE) (Const<True>)]) (MaskE) (Img) *)
Definition prog_fill : prog :=
  ([],
   (Select (Glob 101 [(Select (Pw 2 [(Pw 69 [Img])]) MaskE (Const 1))]) MaskE Img)).
Example fill_ok : accepts prog_fill = true.
Proof. vm_compute. reflexivity. Qed.
Example fill_restores : restores_outside prog_fill = true.
Proof. vm_compute. reflexivity. Qed.

(* fill4 (8 DAG nodes, 10 as a tree):  Select (Glob table_lookup [Select (Pw copy [Pw astype [Img]]) (MaskE) (Const<True>)]) (MaskE) (Img) *)
Definition prog_fill4 : prog :=
  ([],
   (Select (Glob 101 [(Select (Pw 2 [(Pw 69 [Img])]) MaskE (Const 1))]) MaskE Img)).
Example fill4_ok : accepts prog_fill4 = true.
Proof. vm_compute. reflexivity. Qed.
Example fill4_restores : restores_outside prog_fill4 = true.
Proof. vm_compute. reflexivity. Qed.

(* hbreak (8 DAG nodes, 10 as a tree):  Select (Glob table_lookup [Select (Pw copy [Pw astype [Img]]) (MaskE) (FalseC)]) (MaskE) (Img) *)
Definition prog_hbreak : prog :=
  ([],
   (Select (Glob 101 [(Select (Pw 2 [(Pw 69 [Img])]) MaskE FalseC)]) MaskE Img)).
Example hbreak_ok : accepts prog_hbreak = true.
Proof. vm_compute. reflexivity. Qed.
Example hbreak_restores : restores_outside prog_hbreak = true.
Proof. vm_compute. reflexivity. Qed.

(* vbreak (8 DAG nodes, 10 as a tree):  Select (Glob table_lookup [Select (Pw copy [Pw astype [Img]]) (MaskE) (FalseC)]) (MaskE) (Img) *)
Definition prog_vbreak : prog :=
  ([],
   (Select (Glob 101 [(Select (Pw 2 [(Pw 69 [Img])]) MaskE FalseC)]) MaskE Img)).
Example vbreak_ok : accepts prog_vbreak = true.
Proof. vm_compute. reflexivity. Qed.
Example vbreak_restores : restores_outside prog_vbreak = true.
Proof. vm_compute. reflexivity. Qed.

(* majority (8 DAG nodes, 10 as a tree):  Select (Glob table_lookup [Select (Pw copy [Pw astype [Img]]) (MaskE) (FalseC)]) (MaskE) (Img) *)
Definition prog_majority : prog :=
  ([],
   (Select (Glob 101 [(Select (Pw 2 [(Pw 69 [Img])]) MaskE FalseC)]) MaskE Img)).
Example majority_ok : accepts prog_majority = true.
Proof. vm_compute. reflexivity. Qed.
Example majority_restores : restores_outside prog_majority = true.
Proof. vm_compute. reflexivity. Qed.

(* remove (8 DAG nodes, 10 as a tree):  Select (Glob table_lookup [Select (Pw copy [Pw astype [Img]]) (MaskE) (FalseC)]) (MaskE) (Img) *)
Definition prog_remove : prog :=
  ([],
   (Select (Glob 101 [(Select (Pw 2 [(Pw 69 [Img])]) MaskE FalseC)]) MaskE Img)).
Example remove_ok : accepts prog_remove = true.
Proof. vm_compute. reflexivity. Qed.
Example remove_restores : restores_outside prog_remove = true.
Proof. vm_compute. reflexivity. Qed.

(* spur (20 DAG nodes, 81 as a tree):  Select (Select (Img) (Glob index_set [Glob loop:index_i [Select (Glob len [Glob unpack0 [Glob prepare_for_index_lookup [Select (Pw copy [Pw astype [Img]]) (MaskE) (FalseC)]]]) (Const<is>) (Const<$iterations>); Glob unpack0 [Glob prepare_for_index_lookup [Select (Pw copy [Pw astype [Img]]) (MaskE) (FalseC)]]; Glob unpack1 [Glob prepare_for_index_lookup [Select (Pw copy [Pw astype [Img]]) (MaskE) (FalseC)]]; Glob unpack2 [Glob prepare_for_index_lookup [Select (Pw copy [Pw astype [Img]]) (MaskE) (FalseC)]]]; Glob loop:index_j [Select (Glob len [Glob unpack0 [Glob prepare_for_index_lookup [Select  ... *)
Definition prog_spur : prog :=
  ([(Glob 104 [(Select (Pw 2 [(Pw 69 [Img])]) MaskE FalseC)]);
    (Glob 22 [(Ref 0)]);
    (Select (Glob 67 [(Ref 1)]) (Const 11) (Const 12));
    (Glob 20 [(Ref 0)]);
    (Glob 84 [(Ref 0)])],
   (Select (Select Img (Glob 102 [(Glob 103 [(Ref 2); (Ref 1); (Ref 3); (Ref 4)]); (Glob 105 [(Ref 2); (Ref 1); (Ref 3); (Ref 4)])]) (Const 13)) MaskE Img)).
Example spur_ok : accepts prog_spur = true.
Proof. vm_compute. reflexivity. Qed.
Example spur_restores : restores_outside prog_spur = true.
Proof. vm_compute. reflexivity. Qed.

(* thicken (8 DAG nodes, 10 as a tree):  Select (Glob table_lookup [Select (Pw copy [Pw astype [Img]]) (MaskE) (FalseC)]) (MaskE) (Img) *)
Definition prog_thicken : prog :=
  ([],
   (Select (Glob 101 [(Select (Pw 2 [(Pw 69 [Img])]) MaskE FalseC)]) MaskE Img)).
Example thicken_ok : accepts prog_thicken = true.
Proof. vm_compute. reflexivity. Qed.
Example thicken_restores : restores_outside prog_thicken = true.
Proof. vm_compute. reflexivity. Qed.

(* thin (19 DAG nodes, 73 as a tree):  Select (Select (Img) (Glob index_set [Glob loop:index_i [Select (Glob len [Glob unpack0 [Glob prepare_for_index_lookup [Select (Pw copy [Img]) (MaskE) (FalseC)]]]) (Const<is>) (Const<$iterations>); Glob unpack0 [Glob prepare_for_index_lookup [Select (Pw copy [Img]) (MaskE) (FalseC)]]; Glob unpack1 [Glob prepare_for_index_lookup [Select (Pw copy [Img]) (MaskE) (FalseC)]]; Glob unpack2 [Glob prepare_for_index_lookup [Select (Pw copy [Img]) (MaskE) (FalseC)]]]; Glob loop:index_j [Select (Glob len [Glob unpack0 [Glob prepare_for_index_lookup [Select (Pw copy [Img]) (MaskE) (FalseC)]]]) (Const<is>) ... *)
Definition prog_thin : prog :=
  ([(Glob 104 [(Select (Pw 2 [Img]) MaskE FalseC)]);
    (Glob 22 [(Ref 0)]);
    (Select (Glob 67 [(Ref 1)]) (Const 11) (Const 12));
    (Glob 20 [(Ref 0)]);
    (Glob 84 [(Ref 0)])],
   (Select (Select Img (Glob 102 [(Glob 103 [(Ref 2); (Ref 1); (Ref 3); (Ref 4)]); (Glob 105 [(Ref 2); (Ref 1); (Ref 3); (Ref 4)])]) (Const 13)) MaskE Img)).
Example thin_ok : accepts prog_thin = true.
Proof. vm_compute. reflexivity. Qed.
Example thin_restores : restores_outside prog_thin = true.
Proof. vm_compute. reflexivity. Qed.

(* skeletonize (26 DAG nodes, 89 as a tree):  Select (Pw astype [Glob skeletonize_loop [Pw ascontiguousarray [Pw copy [Select (Pw copy [Pw astype [Img]]) (MaskE) (FalseC)]]; Pw ascontiguousarray [Glob index [Pw copy [Select (Pw copy [Pw astype [Img]]) (MaskE) (FalseC)]]]; Pw ascontiguousarray [Glob index [Pw copy [Select (Pw copy [Pw astype [Img]]) (MaskE) (FalseC)]]]; Pw ascontiguousarray [Glob lexsort [Glob gather [Select (Const<permutation(..)>) (Select (Pw copy [Pw astype [Img]]) (MaskE) (FalseC)) (FalseC); Select (Pw copy [Pw astype [Img]]) (MaskE) (FalseC)]; Glob gather [Select (Glob table_lookup [Select (Pw copy [Pw astype [Img]])  ... *)
Definition prog_skeletonize : prog :=
  ([(Select (Pw 2 [(Pw 69 [Img])]) MaskE FalseC);
    (Pw 2 [(Ref 0)]);
    (Pw 10 [(Glob 19 [(Ref 1)])])],
   (Select (Pw 69 [(Glob 106 [(Pw 10 [(Ref 1)]); (Ref 2); (Ref 2); (Pw 10 [(Glob 87 [(Glob 6 [(Select (Const 14) (Ref 0) FalseC); (Ref 0)]); (Glob 6 [(Select (Glob 101 [(Ref 0)]) (Ref 0) FalseC); (Ref 0)]); (Glob 19 [(Select (Glob 97 [(Ref 0)]) (Const 11) (Const 15)); (Ref 1)])])])])]) MaskE Img)).
Example skeletonize_ok : accepts prog_skeletonize = true.
Proof. vm_compute. reflexivity. Qed.
Example skeletonize_restores : restores_outside prog_skeletonize = true.
Proof. vm_compute. reflexivity. Qed.

(* masked_convolution (4 DAG nodes, 4 as a tree):  MConv kernel (Pw ascontiguousarray [Img]) (MaskE) *)
Definition prog_masked_convolution : prog :=
  ([],
   (MConv 58 (Pw 10 [Img]) MaskE)).
Example masked_convolution_ok : accepts prog_masked_convolution = true.
Proof. vm_compute. reflexivity. Qed.

(* branchings (9 DAG nodes, 9 as a tree):  Glob index [Pw astype [Loc 1 convolve3x3 (Select (Pw copy [Pw astype [Img]]) (MaskE) (FalseC))]] *)
Definition prog_branchings : prog :=
  ([],
   (Glob 19 [(Pw 69 [(Loc 1 34 (Select (Pw 2 [(Pw 69 [Img])]) MaskE FalseC))])])).
Example branchings_ok : accepts prog_branchings = true.
Proof. vm_compute. reflexivity. Qed.

(* regional_maximum_struct: the program of regional_maximum with a symbolic (abstract) structure s *)
Definition prog_regional_maximum_struct (s : nat) : prog :=
  ([(Select (Select (Pw 1 [(LocS s 12 Img)]) (ErodeS s MaskE) FalseC) (Select (Const 4) MaskE FalseC) FalseC);
    (Pw 69 [(Glob 19 [(Glob 21 [(Glob 97 [(Ref 0)])])])]);
    (Glob 99 [(Glob 76 [(Ref 1)])]);
    (Glob 39 [(Ref 0)]);
    (Glob 19 [(Pw 59 [(Glob 95 [(Glob 96 [(Ref 1); (Pw 41 [(Pw 69 [(Glob 98 [(Ref 2)])]); (Pw 100 [(Ref 2)])])]); (Glob 22 [(Ref 3)]); (Pw 31 [(Glob 55 [(Glob 20 [(Ref 3)])])])])])])],
   (Select (Select (Glob 75 [(Ref 4); (Ref 4)]) (Glob 11 [(Ref 0)]) (Select (Select (Pw 1 [(LocS s 12 Img)]) (ErodeS s MaskE) FalseC) (Select (Const 4) MaskE FalseC) FalseC)) (Const 10) (Select (Select (Pw 1 [(LocS s 12 Img)]) (ErodeS s MaskE) FalseC) (Select (Const 4) MaskE FalseC) FalseC))).
Lemma regional_maximum_struct_ok : forall s, accepts (prog_regional_maximum_struct s) = true.
Proof. intros s. unfold accepts, prog_regional_maximum_struct. cbn. rewrite ?PeanoNat.Nat.eqb_refl. cbn. reflexivity. Qed.


(* ---- the INTEGER-MASK interpretation: the mask argument is an integer array with values 0 / non-zero, so that
   x[mask] is integer fancy indexing and ~mask a bitwise complement unless the code looks at truthiness.  The
   functions that handle such masks must be accepted under this reading too; the others are finding F24. *)
Definition prog_median_filter_intmask : prog :=
  ([(Glob 6 [(Select Img MaskE FalseC); MaskE]);
    (Pw 14 [(Pw 15 [(Glob 16 [(Ref 0)])]); (Pw 17 [(Glob 18 [(Ref 0)])])]);
    (Glob 21 [(Ref 0)]);
    (Glob 7 [(Select (Glob 8 [(Select (Glob 22 [(Ref 2)]) (Ref 1) (Ref 0)); MaskE]) MaskE (Const 3)); MaskE])],
   (Select (Pw 2 [Img]) (Glob 0 [(Pw 1 [MaskE])]) (Select (Glob 19 [(Select (Glob 20 [(Ref 2)]) (Ref 1) (Const 2)); (Ref 3)]) (Select (Const 1) (Ref 1) FalseC) (Ref 3)))).
Definition prog_grey_erosion_intmask : prog :=
  ([],
   (Select (Glob 23 [(Glob 24 [(Glob 25 [(Const 4); (Select Img MaskE (Const 5))])])]) MaskE Img)).
Definition prog_grey_dilation_intmask : prog :=
  ([],
   (Select (Glob 23 [(Glob 26 [(Glob 25 [(Const 3); (Select Img MaskE FalseC)])])]) MaskE Img)).
Definition prog_opening_intmask : prog :=
  ([(Select (Glob 23 [(Glob 24 [(Glob 25 [(Const 4); (Select Img MaskE (Const 5))])])]) MaskE Img)],
   (Select (Glob 23 [(Glob 26 [(Glob 25 [(Const 3); (Select (Ref 0) MaskE FalseC)])])]) MaskE (Select (Glob 23 [(Glob 24 [(Glob 25 [(Const 4); (Select Img MaskE (Const 5))])])]) MaskE Img))).
Definition prog_closing_intmask : prog :=
  ([(Select (Glob 23 [(Glob 26 [(Glob 25 [(Const 3); (Select Img MaskE FalseC)])])]) MaskE Img)],
   (Select (Glob 23 [(Glob 24 [(Glob 25 [(Const 4); (Select (Ref 0) MaskE (Const 5))])])]) MaskE (Select (Glob 23 [(Glob 26 [(Glob 25 [(Const 3); (Select Img MaskE FalseC)])])]) MaskE Img))).
Definition prog_white_tophat_intmask : prog :=
  ([(Select (Glob 23 [(Glob 24 [(Glob 25 [(Const 4); (Select Img MaskE (Const 5))])])]) MaskE Img)],
   (Select (Pw 27 [Img; (Select (Glob 23 [(Glob 26 [(Glob 25 [(Const 3); (Select (Ref 0) MaskE FalseC)])])]) MaskE (Ref 0))]) MaskE Img)).
Definition prog_black_tophat_intmask : prog :=
  ([(Select (Glob 23 [(Glob 26 [(Glob 25 [(Const 3); (Select Img MaskE FalseC)])])]) MaskE Img)],
   (Select (Pw 27 [(Select (Glob 23 [(Glob 24 [(Glob 25 [(Const 4); (Select (Ref 0) MaskE (Const 5))])])]) MaskE (Ref 0)); Img]) MaskE Img)).
Definition prog_openlines_intmask : prog :=
  ([(Select (Glob 23 [(Glob 24 [(Glob 25 [(Const 4); (Select Img MaskE (Const 5))])])]) MaskE Img);
    (Select (Glob 23 [(Glob 26 [(Glob 25 [(Const 3); (Select (Ref 0) MaskE FalseC)])])]) MaskE (Ref 0))],
   (Pw 27 [(Pw 28 [(Ref 1)]); (Pw 29 [(Ref 1)])])).
Definition prog_sobel_intmask : prog :=
  ([(Pw 32 [(Select (Pw 33 [(Loc 1 34 Img)]) (Erode 1 MaskE) FalseC)])],
   (Pw 30 [(Pw 31 [(Ref 0); (Ref 0)])])).
Definition prog_hsobel_intmask : prog :=
  ([],
   (Select (Pw 33 [(Loc 1 34 Img)]) (Erode 1 MaskE) FalseC)).
Definition prog_vsobel_intmask : prog :=
  ([],
   (Select (Pw 33 [(Loc 1 34 Img)]) (Erode 1 MaskE) FalseC)).
Definition prog_prewitt_intmask : prog :=
  ([(Pw 32 [(Select (Pw 33 [(Loc 1 34 Img)]) (Erode 1 MaskE) FalseC)])],
   (Pw 30 [(Pw 31 [(Ref 0); (Ref 0)])])).
Definition prog_hprewitt_intmask : prog :=
  ([],
   (Select (Pw 33 [(Loc 1 34 Img)]) (Erode 1 MaskE) FalseC)).
Definition prog_vprewitt_intmask : prog :=
  ([],
   (Select (Pw 33 [(Loc 1 34 Img)]) (Erode 1 MaskE) FalseC)).
Definition prog_roberts_intmask : prog :=
  ([(Erode 1 MaskE);
    (Glob 6 [(Select Img (Ref 0) FalseC); (Ref 0)]);
    (Pw 27 [(Ref 1); (Glob 6 [(Select (Loc 1 36 Img) (Ref 0) FalseC); (Ref 0)])]);
    (Pw 27 [(Ref 1); (Glob 6 [(Select (Loc 1 37 Img) (Ref 0) FalseC); (Ref 0)])])],
   (Select (Glob 8 [(Pw 30 [(Pw 31 [(Pw 35 [(Ref 2); (Ref 2)]); (Pw 35 [(Ref 3); (Ref 3)])])]); (Ref 0)]) (Ref 0) (Select (Const 3) (Ref 0) FalseC))).
Definition prog_canny_intmask : prog :=
  ([(Loc 1 34 (Pw 41 [(Glob 42 [(Glob 75 [MaskE; (Glob 19 [Img; MaskE])])]); (Pw 31 [(Glob 42 [MaskE])])]));
    (Pw 35 [(Ref 0); (Ref 0)]);
    (Pw 30 [(Pw 31 [(Ref 1); (Ref 1)])]);
    (Loc 1 44 (Ref 2));
    (Pw 33 [(Ref 0)]);
    (Pw 40 [(Ref 4); (Ref 4)]);
    (Pw 40 [(Ref 0)]);
    (Select (Ref 5) (Ref 6) FalseC);
    (Pw 43 [(Ref 0)]);
    (Select (Ref 5) (Ref 8) FalseC);
    (Select (Pw 17 [(Ref 2)]) (Erode 1 MaskE) FalseC);
    (Select (Pw 45 [(Select (Ref 7) (Ref 8) FalseC); (Select (Ref 9) (Ref 6) FalseC)]) (Ref 10) FalseC);
    (Glob 6 [(Select (Ref 4) (Ref 11) FalseC); (Ref 11)]);
    (Pw 41 [(Ref 12); (Ref 12)]);
    (Loc 1 46 (Ref 2));
    (Pw 27 [(Ref 13)]);
    (Glob 6 [(Select (Ref 2) (Ref 11) FalseC); (Ref 11)]);
    (Loc 1 36 (Ref 2));
    (Loc 1 47 (Ref 2));
    (Pw 43 [(Ref 4); (Ref 4)]);
    (Select (Ref 19) (Ref 6) FalseC);
    (Select (Ref 19) (Ref 8) FalseC);
    (Select (Pw 45 [(Select (Ref 20) (Ref 8) FalseC); (Select (Ref 21) (Ref 6) FalseC)]) (Ref 10) FalseC);
    (Glob 6 [(Select (Ref 4) (Ref 22) FalseC); (Ref 22)]);
    (Pw 41 [(Ref 23); (Ref 23)]);
    (Loc 1 48 (Ref 2));
    (Pw 27 [(Ref 24)]);
    (Glob 6 [(Select (Ref 2) (Ref 22) FalseC); (Ref 22)]);
    (Loc 1 49 (Ref 2));
    (Loc 1 50 (Ref 2));
    (Select (Pw 45 [(Select (Ref 20) (Ref 6) FalseC); (Select (Ref 21) (Ref 8) FalseC)]) (Ref 10) FalseC);
    (Glob 6 [(Select (Ref 4) (Ref 30) FalseC); (Ref 30)]);
    (Pw 41 [(Ref 31); (Ref 31)]);
    (Pw 27 [(Ref 32)]);
    (Glob 6 [(Select (Ref 2) (Ref 30) FalseC); (Ref 30)]);
    (Loc 1 37 (Ref 2));
    (Select (Pw 45 [(Select (Ref 7) (Ref 6) FalseC); (Select (Ref 9) (Ref 8) FalseC)]) (Ref 10) FalseC);
    (Glob 6 [(Select (Ref 4) (Ref 36) FalseC); (Ref 36)]);
    (Pw 41 [(Ref 37); (Ref 37)]);
    (Pw 27 [(Ref 38)]);
    (Glob 6 [(Select (Ref 2) (Ref 36) FalseC); (Ref 36)]);
    (Select (Pw 40 [(Ref 2)]) (Select (Glob 8 [(Select (Pw 43 [(Pw 31 [(Pw 35 [(Glob 6 [(Select (Ref 3) (Ref 11) FalseC); (Ref 11)]); (Ref 13)]); (Pw 35 [(Glob 6 [(Select (Ref 14) (Ref 11) FalseC); (Ref 11)]); (Ref 15)])]); (Ref 16)]) (Pw 43 [(Pw 31 [(Pw 35 [(Glob 6 [(Select (Ref 17) (Ref 11) FalseC); (Ref 11)]); (Ref 13)]); (Pw 35 [(Glob 6 [(Select (Ref 18) (Ref 11) FalseC); (Ref 11)]); (Ref 15)])]); (Ref 16)]) FalseC); (Ref 11)]) (Ref 11) (Select (Glob 8 [(Select (Pw 43 [(Pw 31 [(Pw 35 [(Glob 6 [(Select (Ref 3) (Ref 22) FalseC); (Ref 22)]); (Ref 24)]); (Pw 35 [(Glob 6 [(Select (Ref 25) (Ref 22) FalseC); (Ref 22)]); (Ref 26)])]); (Ref 27)]) (Pw 43 [(Pw 31 [(Pw 35 [(Glob 6 [(Select (Ref 17) (Ref 22) FalseC); (Ref 22)]); (Ref 24)]); (Pw 35 [(Glob 6 [(Select (Ref 28) (Ref 22) FalseC); (Ref 22)]); (Ref 26)])]); (Ref 27)]) FalseC); (Ref 22)]) (Ref 22) (Select (Glob 8 [(Select (Pw 43 [(Pw 31 [(Pw 35 [(Glob 6 [(Select (Ref 29) (Ref 30) FalseC); (Ref 30)]); (Ref 32)]); (Pw 35 [(Glob 6 [(Select (Ref 25) (Ref 30) FalseC); (Ref 30)]); (Ref 33)])]); (Ref 34)]) (Pw 43 [(Pw 31 [(Pw 35 [(Glob 6 [(Select (Ref 35) (Ref 30) FalseC); (Ref 30)]); (Ref 32)]); (Pw 35 [(Glob 6 [(Select (Ref 28) (Ref 30) FalseC); (Ref 30)]); (Ref 33)])]); (Ref 34)]) FalseC); (Ref 30)]) (Ref 30) (Select (Glob 8 [(Select (Pw 43 [(Pw 31 [(Pw 35 [(Glob 6 [(Select (Ref 29) (Ref 36) FalseC); (Ref 36)]); (Ref 38)]); (Pw 35 [(Glob 6 [(Select (Ref 18) (Ref 36) FalseC); (Ref 36)]); (Ref 39)])]); (Ref 40)]) (Pw 43 [(Pw 31 [(Pw 35 [(Glob 6 [(Select (Ref 35) (Ref 36) FalseC); (Ref 36)]); (Ref 38)]); (Pw 35 [(Glob 6 [(Select (Ref 14) (Ref 36) FalseC); (Ref 36)]); (Ref 39)])]); (Ref 40)]) FalseC); (Ref 36)]) (Ref 36) (Const 3))))) FalseC);
    (Glob 39 [(Ref 41)]);
    (Glob 20 [(Ref 42)]);
    (Glob 22 [(Ref 42)])],
   (Select (Select (Pw 40 [(Ref 2)]) (Select (Glob 8 [(Select (Pw 43 [(Pw 31 [(Pw 35 [(Glob 6 [(Select (Ref 3) (Ref 11) FalseC); (Ref 11)]); (Ref 13)]); (Pw 35 [(Glob 6 [(Select (Ref 14) (Ref 11) FalseC); (Ref 11)]); (Ref 15)])]); (Ref 16)]) (Pw 43 [(Pw 31 [(Pw 35 [(Glob 6 [(Select (Ref 17) (Ref 11) FalseC); (Ref 11)]); (Ref 13)]); (Pw 35 [(Glob 6 [(Select (Ref 18) (Ref 11) FalseC); (Ref 11)]); (Ref 15)])]); (Ref 16)]) FalseC); (Ref 11)]) (Ref 11) (Select (Glob 8 [(Select (Pw 43 [(Pw 31 [(Pw 35 [(Glob 6 [(Select (Ref 3) (Ref 22) FalseC); (Ref 22)]); (Ref 24)]); (Pw 35 [(Glob 6 [(Select (Ref 25) (Ref 22) FalseC); (Ref 22)]); (Ref 26)])]); (Ref 27)]) (Pw 43 [(Pw 31 [(Pw 35 [(Glob 6 [(Select (Ref 17) (Ref 22) FalseC); (Ref 22)]); (Ref 24)]); (Pw 35 [(Glob 6 [(Select (Ref 28) (Ref 22) FalseC); (Ref 22)]); (Ref 26)])]); (Ref 27)]) FalseC); (Ref 22)]) (Ref 22) (Select (Glob 8 [(Select (Pw 43 [(Pw 31 [(Pw 35 [(Glob 6 [(Select (Ref 29) (Ref 30) FalseC); (Ref 30)]); (Ref 32)]); (Pw 35 [(Glob 6 [(Select (Ref 25) (Ref 30) FalseC); (Ref 30)]); (Ref 33)])]); (Ref 34)]) (Pw 43 [(Pw 31 [(Pw 35 [(Glob 6 [(Select (Ref 35) (Ref 30) FalseC); (Ref 30)]); (Ref 32)]); (Pw 35 [(Glob 6 [(Select (Ref 28) (Ref 30) FalseC); (Ref 30)]); (Ref 33)])]); (Ref 34)]) FalseC); (Ref 30)]) (Ref 30) (Select (Glob 8 [(Select (Pw 43 [(Pw 31 [(Pw 35 [(Glob 6 [(Select (Ref 29) (Ref 36) FalseC); (Ref 36)]); (Ref 38)]); (Pw 35 [(Glob 6 [(Select (Ref 18) (Ref 36) FalseC); (Ref 36)]); (Ref 39)])]); (Ref 40)]) (Pw 43 [(Pw 31 [(Pw 35 [(Glob 6 [(Select (Ref 35) (Ref 36) FalseC); (Ref 36)]); (Ref 38)]); (Pw 35 [(Glob 6 [(Select (Ref 14) (Ref 36) FalseC); (Ref 36)]); (Ref 39)])]); (Ref 40)]) FalseC); (Ref 36)]) (Ref 36) (Const 3))))) FalseC) (Pw 38 [(Ref 43)]) (Glob 19 [(Glob 51 [(Glob 52 [(Pw 31 [(Ref 43)])]); (Pw 17 [(Glob 53 [(Glob 54 [(Ref 41); (Ref 44); (Pw 31 [(Glob 55 [(Ref 43)])])])])])]); (Ref 44)]))).
Definition prog_laplacian_of_gaussian_intmask : prog :=
  ([(Pw 107 [MaskE])],
   (Glob 75 [(Pw 31 [(Glob 56 [(Glob 75 [(Pw 2 [Img]); (Ref 0)])]); (Pw 35 [(Glob 56 [(Pw 69 [(Ref 0)])]); Img])]); (Ref 0); (Glob 19 [Img; (Ref 0)])])).
Definition prog_variance_transform_intmask : prog :=
  ([(Glob 75 [(Pw 2 [Img]); (Pw 107 [MaskE])]);
    (Glob 57 [MaskE])],
   (Pw 27 [(Pw 41 [(Glob 57 [(Pw 32 [(Ref 0)])]); (Ref 1)]); (Pw 32 [(Pw 41 [(Glob 57 [(Ref 0)]); (Ref 1)])])])).
Definition prog_circular_average_filter_intmask : prog :=
  ([],
   (Select (MConv 58 (Pw 10 [Img]) MaskE) MaskE Img)).
Definition prog_smooth_with_function_and_mask_intmask : prog :=
  ([],
   (Pw 41 [(Glob 42 [(Glob 75 [MaskE; (Glob 19 [Img; MaskE])])]); (Pw 31 [(Glob 42 [MaskE])])])).
Definition prog_stretch_intmask : prog :=
  ([(Pw 59 [Img]);
    (Glob 19 [(Ref 0); MaskE]);
    (Glob 16 [(Ref 1)]);
    (Glob 18 [(Ref 1)])],
   (Select (Ref 0) (Const 6) (Select (Ref 0) (Pw 38 [(Glob 76 [(Ref 1)])]) (Glob 75 [(Ref 0); MaskE; (Select (Ref 2) (Pw 38 [(Ref 2); (Ref 3)]) (Pw 41 [(Pw 27 [(Ref 1); (Ref 2)]); (Pw 27 [(Ref 3); (Ref 2)])]))])))).
Definition prog_fit_polynomial_intmask : prog :=
  ([(Select (Pw 17 [Img]) MaskE FalseC);
    (Glob 6 [(Select (Const 8) (Ref 0) FalseC); (Ref 0)]);
    (Glob 6 [(Select (Const 9) (Ref 0) FalseC); (Ref 0)]);
    (Glob 54 [(Glob 61 [(Glob 19 [(Glob 62 [(Glob 63 [(Pw 59 [(Ref 1); (Ref 1); (Ref 2); (Ref 2); (Ref 2); (Glob 6 [(Select (Const 4) (Ref 0) FalseC); (Ref 0)])])]); (Glob 6 [(Select Img (Ref 0) FalseC); (Ref 0)])])])])]);
    (Select (Const 5) (Pw 17 [(Ref 3)]) (Ref 3))],
   (Select (Select (Select FalseC (Pw 15 [(Ref 4)]) (Select (Const 5) (Pw 17 [(Ref 3)]) (Ref 3))) (Const 7) (Ref 3)) (Glob 11 [(Ref 0)]) Img)).
Definition prog_circular_hough_intmask : prog :=
  ([(Glob 65 [MaskE]);
    (Glob 19 [(Glob 65 [Img]); (Ref 0)]);
    (Glob 64 [(Ref 0); (Ref 1)]);
    (Glob 66 [(Ref 0); (Ref 1)])],
   (Select (Pw 41 [(Ref 3); (Ref 2)]) (Pw 17 [(Ref 2)]) (Ref 3))).
Definition prog_convex_hull_transform_intmask : prog :=
  ([(Glob 19 [Img; MaskE]);
    (Glob 16 [(Ref 0)]);
    (Glob 18 [(Ref 0)]);
    (Pw 27 [(Ref 2); (Ref 1)]);
    (Glob 75 [(Pw 41 [(Pw 35 [(Pw 27 [Img; (Ref 1)])]); (Ref 3)]); (Pw 107 [MaskE])]);
    (Pw 69 [(Select (Pw 70 [(Ref 4); (Glob 71 [(Pw 72 [(Ref 4)])])]) (Const 6) (Ref 4))]);
    (Glob 68 [(Ref 5)]);
    (Glob 55 [(Glob 67 [(Ref 6)])]);
    (Glob 19 [(Glob 75 [(Ref 6); (Ref 7)]); (Ref 5)]);
    (Glob 76 [(Ref 8)]);
    (Glob 75 [(Glob 75 [(Glob 75 [(Glob 75 [(Pw 69 [(Glob 23 [(Glob 24 [(Glob 25 [(Glob 80 [(Pw 31 [(Pw 59 [(Ref 9)])])]); (Ref 8)])])])])])])])]);
    (Pw 17 [(Ref 8); (Ref 10)]);
    (Glob 6 [(Select (Ref 8) (Ref 11) FalseC); (Ref 11)]);
    (Glob 6 [(Select (Ref 10) (Ref 11) FalseC); (Ref 11)]);
    (Pw 27 [(Ref 12); (Ref 13)]);
    (Pw 27 [(Glob 74 [(Ref 14)]); (Ref 14)]);
    (Glob 54 [(Ref 14)]);
    (Glob 67 [(Ref 14)]);
    (Glob 81 [(Glob 19 [(Ref 9)])]);
    (Glob 19 [(Ref 18); (Ref 18)]);
    (Glob 6 [(Select (Glob 22 [(Ref 19)]) (Ref 11) FalseC); (Ref 11)]);
    (Glob 6 [(Select (Glob 20 [(Ref 19)]) (Ref 11) FalseC); (Ref 11)]);
    (Glob 77 [(Glob 78 [(Glob 79 [(Ref 15); (Ref 16); (Ref 17); (Ref 13); (Ref 12); (Ref 20); (Ref 21); (Ref 7)]); (Glob 82 [(Ref 15); (Ref 16); (Ref 17); (Ref 13); (Ref 12); (Ref 20); (Ref 21); (Ref 7)]); (Glob 83 [(Ref 15); (Ref 16); (Ref 17); (Ref 13); (Ref 12); (Ref 20); (Ref 21); (Ref 7)])]); (Ref 7)]);
    (Glob 19 [(Glob 22 [(Ref 22)])]);
    (Glob 20 [(Ref 22)]);
    (Pw 27 [(Glob 74 [(Ref 24)]); (Ref 24)]);
    (Glob 19 [(Ref 23); (Glob 75 [(Pw 31 [(Glob 55 [(Glob 67 [(Ref 23)])])]); (Pw 27 [(Pw 31 [(Ref 25); (Ref 24)])]); (Ref 25)])]);
    (Glob 85 [(Ref 23); (Ref 23); (Ref 26); (Ref 26)]);
    (Glob 84 [(Ref 27)]);
    (Glob 19 [(Ref 23); (Glob 74 [(Glob 75 [(Glob 52 [(Glob 67 [(Ref 28)])]); (Glob 86 [(Glob 22 [(Ref 27)])])])])]);
    (Glob 88 [(Ref 27)]);
    (Glob 87 [(Ref 29); (Ref 28); (Ref 30)]);
    (Glob 19 [(Ref 28); (Ref 31)]);
    (Glob 19 [(Ref 30); (Ref 31)]);
    (Glob 89 [(Pw 90 [(Pw 91 [(Glob 86 [(Ref 32)]); (Glob 92 [(Ref 32)])]); (Pw 91 [(Glob 86 [(Ref 33)]); (Glob 92 [(Ref 33)])])])]);
    (Glob 19 [(Glob 19 [(Ref 29); (Ref 31)]); (Ref 34)]);
    (Glob 52 [(Glob 76 [(Ref 35)])]);
    (Glob 19 [(Ref 32); (Ref 34)]);
    (Glob 19 [(Ref 33); (Ref 34)]);
    (Glob 89 [(Pw 91 [(Glob 86 [(Ref 38)]); (Glob 92 [(Ref 38)])])]);
    (Glob 19 [(Ref 38); (Ref 39)]);
    (Glob 19 [(Ref 35); (Ref 39)]);
    (Pw 1 [(Ref 39)]);
    (Glob 19 [(Ref 38); (Ref 42)]);
    (Glob 86 [(Ref 39)]);
    (Pw 1 [(Ref 44)]);
    (Glob 19 [(Pw 27 [(Glob 86 [(Ref 35)]); (Glob 92 [(Ref 35)])]); (Ref 45)]);
    (Pw 93 [(Glob 89 [(Ref 44)]); (Pw 15 [(Ref 37)])])],
   (Select (Const 3) (Pw 38 [(Glob 67 [(Ref 0)])]) (Select Img (Pw 38 [(Ref 1); (Ref 2)]) (Glob 19 [(Glob 19 [(Pw 31 [(Ref 1); (Pw 41 [(Pw 35 [(Ref 3)])])]); (Ref 6)]); (Pw 73 [(Glob 74 [(Glob 75 [(Glob 75 [(Ref 36); (Glob 19 [(Ref 37); (Ref 39)]); (Ref 40); (Ref 41)]); (Glob 19 [(Ref 37); (Ref 42)]); (Ref 43); (Ref 46)])]); (Glob 74 [(Glob 75 [(Glob 75 [(Glob 75 [(Ref 36); (Ref 40); (Ref 41)]); (Pw 31 [(Glob 19 [(Glob 92 [(Ref 37)]); (Ref 45)])]); (Ref 43); (Ref 46)]); (Pw 31 [(Glob 19 [(Ref 37); (Ref 47)])]); (Glob 19 [(Ref 38); (Ref 47)]); (Pw 94 [(Glob 19 [(Ref 35); (Ref 47)])])])])])])))).
Definition prog_regional_maximum_intmask : prog :=
  ([(Select (Select (Pw 1 [(LocS 0 12 Img)]) (ErodeS 0 MaskE) FalseC) (Select (Const 4) MaskE FalseC) FalseC);
    (Pw 69 [(Glob 19 [(Glob 21 [(Glob 97 [(Ref 0)])])])]);
    (Glob 99 [(Glob 76 [(Ref 1)])]);
    (Glob 39 [(Ref 0)]);
    (Glob 19 [(Pw 59 [(Glob 95 [(Glob 96 [(Ref 1); (Pw 41 [(Pw 69 [(Glob 98 [(Ref 2)])]); (Pw 100 [(Ref 2)])])]); (Glob 22 [(Ref 3)]); (Pw 31 [(Glob 55 [(Glob 20 [(Ref 3)])])])])])])],
   (Select (Select (Glob 75 [(Ref 4); (Ref 4)]) (Glob 11 [(Ref 0)]) (Select (Select (Pw 1 [(LocS 0 12 Img)]) (ErodeS 0 MaskE) FalseC) (Select (Const 4) MaskE FalseC) FalseC)) (Const 10) (Select (Select (Pw 1 [(LocS 0 12 Img)]) (ErodeS 0 MaskE) FalseC) (Select (Const 4) MaskE FalseC) FalseC))).
Definition prog_bridge_intmask : prog :=
  ([(Pw 107 [MaskE])],
   (Glob 75 [(Glob 101 [(Glob 75 [(Pw 2 [(Pw 69 [Img])]); (Ref 0)])]); (Ref 0); (Glob 19 [Img; (Ref 0)])])).
Definition prog_clean_intmask : prog :=
  ([(Pw 107 [MaskE])],
   (Glob 75 [(Glob 101 [(Glob 75 [(Pw 2 [(Pw 69 [Img])]); (Ref 0)])]); (Ref 0); (Glob 19 [Img; (Ref 0)])])).
Definition prog_diag_intmask : prog :=
  ([(Pw 107 [MaskE])],
   (Glob 75 [(Glob 101 [(Glob 75 [(Pw 2 [(Pw 69 [Img])]); (Ref 0)])]); (Ref 0); (Glob 19 [Img; (Ref 0)])])).
Definition prog_endpoints_intmask : prog :=
  ([(Pw 107 [MaskE])],
   (Glob 75 [(Glob 101 [(Glob 75 [(Pw 2 [(Pw 69 [Img])]); (Ref 0)])]); (Ref 0); (Glob 19 [Img; (Ref 0)])])).
Definition prog_branchpoints_intmask : prog :=
  ([(Pw 107 [MaskE])],
   (Glob 75 [(Glob 101 [(Glob 75 [(Pw 2 [(Pw 69 [Img])]); (Ref 0)])]); (Ref 0); (Glob 19 [Img; (Ref 0)])])).
Definition prog_fill_intmask : prog :=
  ([(Pw 107 [MaskE])],
   (Glob 75 [(Glob 101 [(Glob 75 [(Pw 2 [(Pw 69 [Img])]); (Ref 0)])]); (Ref 0); (Glob 19 [Img; (Ref 0)])])).
Definition prog_fill4_intmask : prog :=
  ([(Pw 107 [MaskE])],
   (Glob 75 [(Glob 101 [(Glob 75 [(Pw 2 [(Pw 69 [Img])]); (Ref 0)])]); (Ref 0); (Glob 19 [Img; (Ref 0)])])).
Definition prog_hbreak_intmask : prog :=
  ([(Pw 107 [MaskE])],
   (Glob 75 [(Glob 101 [(Glob 75 [(Pw 2 [(Pw 69 [Img])]); (Ref 0)])]); (Ref 0); (Glob 19 [Img; (Ref 0)])])).
Definition prog_vbreak_intmask : prog :=
  ([(Pw 107 [MaskE])],
   (Glob 75 [(Glob 101 [(Glob 75 [(Pw 2 [(Pw 69 [Img])]); (Ref 0)])]); (Ref 0); (Glob 19 [Img; (Ref 0)])])).
Definition prog_majority_intmask : prog :=
  ([(Pw 107 [MaskE])],
   (Glob 75 [(Glob 101 [(Glob 75 [(Pw 2 [(Pw 69 [Img])]); (Ref 0)])]); (Ref 0); (Glob 19 [Img; (Ref 0)])])).
Definition prog_remove_intmask : prog :=
  ([(Pw 107 [MaskE])],
   (Glob 75 [(Glob 101 [(Glob 75 [(Pw 2 [(Pw 69 [Img])]); (Ref 0)])]); (Ref 0); (Glob 19 [Img; (Ref 0)])])).
Definition prog_spur_intmask : prog :=
  ([(Pw 107 [MaskE]);
    (Glob 104 [(Glob 75 [(Pw 2 [(Pw 69 [Img])]); (Ref 0)])]);
    (Glob 22 [(Ref 1)]);
    (Select (Glob 67 [(Ref 2)]) (Const 11) (Const 12));
    (Glob 20 [(Ref 1)]);
    (Glob 84 [(Ref 1)])],
   (Glob 75 [(Select Img (Glob 102 [(Glob 103 [(Ref 3); (Ref 2); (Ref 4); (Ref 5)]); (Glob 105 [(Ref 3); (Ref 2); (Ref 4); (Ref 5)])]) (Const 13)); (Ref 0); (Glob 19 [Img; (Ref 0)])])).
Definition prog_thicken_intmask : prog :=
  ([(Pw 107 [MaskE])],
   (Glob 75 [(Glob 101 [(Glob 75 [(Pw 2 [(Pw 69 [Img])]); (Ref 0)])]); (Ref 0); (Glob 19 [Img; (Ref 0)])])).
Definition prog_thin_intmask : prog :=
  ([(Pw 107 [MaskE]);
    (Glob 104 [(Glob 75 [(Pw 2 [Img]); (Ref 0)])]);
    (Glob 22 [(Ref 1)]);
    (Select (Glob 67 [(Ref 2)]) (Const 11) (Const 12));
    (Glob 20 [(Ref 1)]);
    (Glob 84 [(Ref 1)])],
   (Glob 75 [(Select Img (Glob 102 [(Glob 103 [(Ref 3); (Ref 2); (Ref 4); (Ref 5)]); (Glob 105 [(Ref 3); (Ref 2); (Ref 4); (Ref 5)])]) (Const 13)); (Ref 0); (Glob 19 [Img; (Ref 0)])])).
Definition prog_skeletonize_intmask : prog :=
  ([],
   (Glob 108 [Img])).
Definition prog_masked_convolution_intmask : prog :=
  ([],
   (MConv 58 (Pw 10 [Img]) MaskE)).
Definition prog_branchings_intmask : prog :=
  ([],
   (Glob 19 [(Pw 69 [(Loc 1 34 (Pw 69 [(Glob 75 [(Pw 2 [(Pw 69 [Img])]); (Pw 107 [MaskE])])]))])])).
Definition intmask_handled_progs : list prog :=
  [prog_median_filter_intmask; prog_grey_erosion_intmask; prog_grey_dilation_intmask; prog_opening_intmask; prog_closing_intmask; prog_white_tophat_intmask; prog_black_tophat_intmask; prog_openlines_intmask; prog_sobel_intmask; prog_hsobel_intmask; prog_vsobel_intmask; prog_prewitt_intmask; prog_hprewitt_intmask; prog_vprewitt_intmask; prog_roberts_intmask; prog_circular_average_filter_intmask; prog_fit_polynomial_intmask; prog_regional_maximum_intmask; prog_masked_convolution_intmask].
Lemma intmask_handled_accepted : forallb accepts intmask_handled_progs = true.
Proof. vm_compute. reflexivity. Qed.
(* F24 (known finding), statically: verdicts of the checker on canny, laplacian_of_gaussian, variance_transform, smooth_with_function_and_mask, stretch, circular_hough, convex_hull_transform, bridge, clean, diag, endpoints, branchpoints, fill, fill4, hbreak, vbreak, majority, remove, spur, thicken, thin, skeletonize, branchings - computed, not an obligation *)
Definition f24_intmask_progs : list prog :=
  [prog_canny_intmask; prog_laplacian_of_gaussian_intmask; prog_variance_transform_intmask; prog_smooth_with_function_and_mask_intmask; prog_stretch_intmask; prog_circular_hough_intmask; prog_convex_hull_transform_intmask; prog_bridge_intmask; prog_clean_intmask; prog_diag_intmask; prog_endpoints_intmask; prog_branchpoints_intmask; prog_fill_intmask; prog_fill4_intmask; prog_hbreak_intmask; prog_vbreak_intmask; prog_majority_intmask; prog_remove_intmask; prog_spur_intmask; prog_thicken_intmask; prog_thin_intmask; prog_skeletonize_intmask; prog_branchings_intmask].
Definition f24_static_verdicts : list bool := Eval vm_compute in map accepts f24_intmask_progs.
(* NOT CLAIMED  life  (ignores its mask argument altogether): Glob table_lookup [Img] *)
(* NOT CLAIMED  granulometry_filter  (normalises by image.max() over the whole image, like enhance_dark_holes (excluded by the property text)): Glob loop:selected_granules_image [Img; Pw sub [Glob max [Img]; Img]; MaskE] *)
Definition listed_progs : list prog :=
  [prog_median_filter; prog_grey_erosion; prog_grey_dilation; prog_opening; prog_closing; prog_white_tophat; prog_black_tophat; prog_openlines; prog_sobel; prog_hsobel; prog_vsobel; prog_prewitt; prog_hprewitt; prog_vprewitt; prog_roberts; prog_canny; prog_laplacian_of_gaussian; prog_variance_transform; prog_circular_average_filter; prog_smooth_with_function_and_mask; prog_stretch; prog_fit_polynomial; prog_circular_hough; prog_convex_hull_transform; prog_regional_maximum; prog_bridge; prog_clean; prog_diag; prog_endpoints; prog_branchpoints; prog_fill; prog_fill4; prog_hbreak; prog_vbreak; prog_majority; prog_remove; prog_spur; prog_thicken; prog_thin; prog_skeletonize; prog_masked_convolution; prog_branchings].
Definition binary_progs : list prog :=
  [prog_bridge; prog_clean; prog_diag; prog_endpoints; prog_branchpoints; prog_fill; prog_fill4; prog_hbreak; prog_vbreak; prog_majority; prog_remove; prog_spur; prog_thicken; prog_thin; prog_skeletonize].
Lemma listed_accepted : forallb accepts listed_progs = true.
Proof. vm_compute. reflexivity. Qed.
Lemma binary_restore : forallb restores_outside binary_progs = true.
Proof. vm_compute. reflexivity. Qed.
Lemma listed_count : (length listed_progs, length binary_progs) = (42, 15)%nat.
Proof. reflexivity. Qed.
