(* C16 — property theorems.  Only statements, each closed by [exact], each followed by
   Print Assumptions. *)
From Coq Require Import ZArith List Bool.
From Centro Require Import Proofs.Bres.
Open Scope Z_scope.

Theorem C16_line_error : forall D d k, 0 <= d <= D -> 0 < D ->
  let y := fst (run D d k (init D d)) in - D < 2 * (D * y - d * Z.of_nat k) <= D.
Proof. exact line_error. Qed.
Print Assumptions C16_line_error.
