(* C16 — property theorems.  Only statements, each closed by [exact], each followed by
   Print Assumptions.  All are about the executable model (Model.Lines) that the correspondence
   check compares bit for bit with draw_line / get_line_pts, or about the boolean checker
   (Spec.Lines.line_ok / batch_ok) that is also run on the implementation's own output. *)
From Coq Require Import ZArith List Bool.
From Centro Require Import Model.Lines Spec.Lines Proofs.Bres Proofs.LinesScalar Proofs.LinesVector.
Import ListNotations.
Open Scope Z_scope.

(* half-pixel bound of the normalised remainder loop, all D >= d >= 0, all k *)
Theorem C16_line_error : forall D d k, 0 <= d <= D -> 0 < D ->
  let y := fst (run D d k (init D d)) in - D < 2 * (D * y - d * Z.of_nat k) <= D.
Proof. exact line_error. Qed.
Print Assumptions C16_line_error.

(* the boolean checker means the declarative spec (end points, length, unit steps on the major
   axis, minor axis within half a pixel and moving by 0 or one step towards the end) *)
Theorem C16_line_ok_sound : forall l pts, line_ok l pts = true -> LineSpec l pts.
Proof. exact line_ok_sound. Qed.
Print Assumptions C16_line_ok_sound.

(* scalar rasteriser: for ALL end points the loop terminates within its fuel and emits a
   sequence the checker accepts, hence one meeting LineSpec *)
Theorem C16_draw_line_correct : forall y0 x0 y1 x1,
  exists pts, draw_line_pts y0 x0 y1 x1 = Some pts /\ LineSpec ((y0, x0), (y1, x1)) pts.
Proof. exact draw_line_correct. Qed.
Print Assumptions C16_draw_line_correct.

Theorem C16_draw_line_checker : forall y0 x0 y1 x1,
  exists pts, draw_line_pts y0 x0 y1 x1 = Some pts /\ line_ok ((y0, x0), (y1, x1)) pts = true.
Proof. exact draw_line_spec. Qed.
Print Assumptions C16_draw_line_checker.

(* vectorised rasteriser: for EVERY batch, counts/index are the lengths and their exclusive
   cumulative sums, and the block of every line is exactly the scalar sequence of that line
   alone (lines are independent of each other, of batch order and of which pass handles them;
   exact diagonals and zero-length lines included) *)
Theorem C16_vector_eq_scalar : forall ls,
  let '(index, counts, pts) := get_line_pts ls in
  counts = map l_count ls /\ index = indexes 0 counts /\
  Z.of_nat (length pts) = fold_right Z.add 0 counts /\
  forall l ix, In (l, ix) (combine ls index) ->
    draw_line_pts (fst (fst l)) (snd (fst l)) (fst (snd l)) (snd (snd l))
    = Some (slice (Z.to_nat ix) (Z.to_nat (l_count l)) pts).
Proof. exact vector_eq_scalar. Qed.
Print Assumptions C16_vector_eq_scalar.

Theorem C16_batch_checker : forall ls,
  let '(index, counts, pts) := get_line_pts ls in batch_ok ls index counts pts 0 = true.
Proof. exact get_line_pts_batch_ok. Qed.
Print Assumptions C16_batch_checker.
