(* C16 — property theorems.  Only statements, each closed by [exact], each followed by
   Print Assumptions.  All are about the executable model (Model.Lines) that the correspondence
   check compares bit for bit with draw_line / get_line_pts, or about the boolean checker
   (Spec.Lines.line_ok / batch_ok) that is also run on the implementation's own output. *)
From Coq Require Import ZArith List Bool.
From Centro Require Import Model.Lines Spec.Lines Proofs.Bres Proofs.LinesScalar Proofs.LinesVector
  Proofs.LinesFast Proofs.LinesGeom.
Import ListNotations.
Open Scope Z_scope.

(* half-pixel bound of the normalised remainder loop, all D >= d >= 0, all k *)
Theorem C16_line_error : forall D d k, 0 <= d <= D -> 0 < D ->
  let y := fst (run D d k (init D d)) in - D < 2 * (D * y - d * Z.of_nat k) <= D.
Proof. exact line_error. Qed.
Print Assumptions C16_line_error.

(* the boolean checker means the declarative spec (end points, length, unit steps on the major
   axis, minor axis within half a pixel and moving by 0 or one step towards the end) *)
Theorem C16_line_ok_sound : forall l pts, line_ok l pts = true -> LineSpec l pts.
Proof. exact line_ok_sound. Qed.
Print Assumptions C16_line_ok_sound.

(* scalar rasteriser: for ALL end points the loop terminates within its fuel and emits a
   sequence the checker accepts, hence one meeting LineSpec *)
Theorem C16_draw_line_correct : forall y0 x0 y1 x1,
  exists pts, draw_line_pts y0 x0 y1 x1 = Some pts /\ LineSpec ((y0, x0), (y1, x1)) pts.
Proof. exact draw_line_correct. Qed.
Print Assumptions C16_draw_line_correct.

Theorem C16_draw_line_checker : forall y0 x0 y1 x1,
  exists pts, draw_line_pts y0 x0 y1 x1 = Some pts /\ line_ok ((y0, x0), (y1, x1)) pts = true.
Proof. exact draw_line_spec. Qed.
Print Assumptions C16_draw_line_checker.

(* vectorised rasteriser: for EVERY batch, counts/index are the lengths and their exclusive
   cumulative sums, and the block of every line is exactly the scalar sequence of that line
   alone (lines are independent of each other, of batch order and of which pass handles them;
   exact diagonals and zero-length lines included) *)
Theorem C16_vector_eq_scalar : forall ls,
  let '(index, counts, pts) := get_line_pts ls in
  counts = map l_count ls /\ index = indexes 0 counts /\
  Z.of_nat (length pts) = fold_right Z.add 0 counts /\
  forall l ix, In (l, ix) (combine ls index) ->
    draw_line_pts (fst (fst l)) (snd (fst l)) (fst (snd l)) (snd (snd l))
    = Some (slice (Z.to_nat ix) (Z.to_nat (l_count l)) pts).
Proof. exact vector_eq_scalar. Qed.
Print Assumptions C16_vector_eq_scalar.

Theorem C16_batch_checker : forall ls,
  let '(index, counts, pts) := get_line_pts ls in batch_ok ls index counts pts 0 = true.
Proof. exact get_line_pts_batch_ok. Qed.
Print Assumptions C16_batch_checker.

(* the linear executable forms that are extracted and compared with the implementation equal the
   line-level models (while loop with fuel; two lock-step passes with compaction and
   last-write-wins scatter) for ALL end points / ALL batches *)
Theorem C16_draw_line_fast_eq : forall y0 x0 y1 x1,
  draw_line_pts y0 x0 y1 x1 = Some (draw_line_fast y0 x0 y1 x1).
Proof. exact draw_line_fast_eq. Qed.
Print Assumptions C16_draw_line_fast_eq.

Theorem C16_get_line_pts_fast_eq : forall ls, get_line_pts_fast ls = get_line_pts ls.
Proof. exact get_line_pts_fast_eq. Qed.
Print Assumptions C16_get_line_pts_fast_eq.

(* draw_line on an image (any content, any value, all end points): the loop terminates, exactly
   the points of the sequence carry the value afterwards, all other pixels are unchanged, and no
   pixel is written twice (max(|dy|,|dx|)+1 distinct pixels) *)
Theorem C16_draw_line_pixels : forall im v y0 x0 y1 x1,
  exists pts, draw_line_pts y0 x0 y1 x1 = Some pts /\
    LineSpec ((y0, x0), (y1, x1)) pts /\ NoDup pts /\
    (forall p, In p pts -> paint im pts v p = v) /\
    (forall p, ~ In p pts -> paint im pts v p = im p).
Proof. exact draw_line_pixels. Qed.
Print Assumptions C16_draw_line_pixels.

(* consecutive points of any sequence meeting LineSpec are 8-neighbours (Chebyshev distance 1) *)
Theorem C16_8_connected : forall l pts, LineSpec l pts ->
  forall n, (S n < length pts)%nat -> cheb (nth n pts (0, 0)) (nth (S n) pts (0, 0)) = 1.
Proof. exact LineSpec_8conn. Qed.
Print Assumptions C16_8_connected.

(* LineSpec is symmetric under swapping the end points ... *)
Theorem C16_LineSpec_reverse : forall i0 j0 i1 j1 pts,
  LineSpec ((i0, j0), (i1, j1)) pts -> LineSpec ((i1, j1), (i0, j0)) (rev pts).
Proof. exact LineSpec_rev. Qed.
Print Assumptions C16_LineSpec_reverse.

(* ... but the rasteriser is not: "draw_line(p1, p0) is the reverse of draw_line(p0, p1)" is
   refuted by the faithful model ((0,0)-(1,2): the tie at the middle point is broken in the
   direction of travel); confirmed on the real code by the harness (class "rev") *)
Theorem C16_draw_line_reverse_refuted :
  exists y0 x0 y1 x1,
    draw_line_pts y0 x0 y1 x1 <> option_map (@rev (Z * Z)) (draw_line_pts y1 x1 y0 x0).
Proof. exact draw_line_reverse_refuted. Qed.
Print Assumptions C16_draw_line_reverse_refuted.

(* the exact relation: the reversed line from the other end is a correct line for (p0, p1), and
   two correct lines agree everywhere except at exact ties, where they differ by one pixel *)
Theorem C16_draw_line_reverse_spec : forall y0 x0 y1 x1,
  exists pts, draw_line_pts y1 x1 y0 x0 = Some pts /\ LineSpec ((y0, x0), (y1, x1)) (rev pts).
Proof. exact draw_line_reverse_spec. Qed.
Print Assumptions C16_draw_line_reverse_spec.

Theorem C16_unique_up_to_ties : forall i0 j0 i1 j1 pts pts',
  LineSpec ((i0, j0), (i1, j1)) pts -> LineSpec ((i0, j0), (i1, j1)) pts' ->
  length pts = length pts' /\
  forall n, (n < length pts)%nat ->
    let p := nth n pts (0, 0) in let p' := nth n pts' (0, 0) in
    let di := Z.abs (i1 - i0) in let dj := Z.abs (j1 - j0) in let k := Z.of_nat n in
    (dj <= di -> fst p = fst p' /\
       (snd p = snd p' \/
        (Z.abs (snd p - snd p') = 1 /\
         Z.abs (2 * (di * (snd p - j0) - sgn_to j0 j1 * (dj * k))) = di))) /\
    (di < dj -> snd p = snd p' /\
       (fst p = fst p' \/
        (Z.abs (fst p - fst p') = 1 /\
         Z.abs (2 * (dj * (fst p - i0) - sgn_to i0 i1 * (di * k))) = dj))).
Proof. exact LineSpec_unique_up_to_ties. Qed.
Print Assumptions C16_unique_up_to_ties.
