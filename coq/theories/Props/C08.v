(* C08 — property theorems (filled in below as the proofs land). *)
From Coq Require Import ZArith List Bool.
From Centro Require Import Base.FillZMap.
Open Scope Z_scope.

Theorem C08_zseq_In : forall lo n x, In x (zseq lo n) <-> lo <= x < lo + Z.of_nat n.
Proof. exact zseq_In. Qed.
Print Assumptions C08_zseq_In.
