(* C02 — property theorems.  Only statements, each closed by [exact], each followed by
   Print Assumptions. *)
From Coq Require Import ZArith List Bool.
From Centro Require Import Base.Sx Model.Hull Spec.HullSpec Proofs.HullEmit.
Import ListNotations.
Open Scope Z_scope.

(* EMIT keeps the stack locally convex, for every stack and every new point *)
Theorem C02_emit_step_convex : forall st p, chain_ok st -> chain_ok (prune st p) /\ chain_ok (p :: prune st p).
Proof. exact prune_ok. Qed.
Print Assumptions C02_emit_step_convex.
