(* C02 — property theorems.  Only statements, each closed by [exact], each followed by
   Print Assumptions.

   Not proved in general (checked instead by the verified checker on every output, and proved
   for every point set of the 4x4, 3x4 and 5x3 grids below):
     hull_label_spec   : forall m pts slack, pts sorted by (j,i), 0 <= i <= m, 0 <= slack ->
                         HullSpec pts (hull_label m pts slack)          (clauses (b) cyclic closure and (c))
     guard_irrelevant  : ... -> hull_label m pts slack = hull_label m pts slack'   (independence of the slack)
     no_overflow       : ... -> zlen (hull_label m pts slack) <= slack + zlen pts
     hull_unique       : HullSpec S V -> HullSpec S V' -> V' is a rotation of V (not attempted). *)
From Coq Require Import ZArith List Bool.
From Centro Require Import Base.Sx Model.Hull Spec.HullSpec
  Proofs.HullEmit Proofs.HullGeom Proofs.HullPerm Proofs.HullBatch Proofs.HullTop
  Proofs.HullOutline Proofs.HullSweep Proofs.HullSweep44 Proofs.HullSweep34 Proofs.HullSweep53.
Import ListNotations.
Open Scope Z_scope.

(* EMIT keeps the stack locally convex, for every stack and every new point *)
Theorem C02_emit_step_convex : forall st p, chain_ok st -> chain_ok (prune st p) /\ chain_ok (p :: prune st p).
Proof. exact prune_ok. Qed.
Print Assumptions C02_emit_step_convex.

(* the invariant through all three passes, the guard and the final prune, read on the output *)
Theorem C02_emit_chain_convex : forall m pts slack,
  (forall q, In q pts -> 0 <= fst q) ->
  forall l1 l2 a b c, hull_label m pts slack = l1 ++ a :: b :: c :: l2 -> CONVEX a b c = true.
Proof. exact emit_chain_convex. Qed.
Print Assumptions C02_emit_chain_convex.

(* (a) for the per-label kernel: every vertex is one of the label's pixels *)
Theorem C02_vertices_subset : forall m pts slack p,
  (forall q, In q pts -> 0 <= fst q) -> In p (hull_label m pts slack) -> In p pts.
Proof. exact vertices_subset. Qed.
Print Assumptions C02_vertices_subset.

(* the checker run on the implementation's output is sound for the declarative specification *)
Theorem C02_hull_ok_sound : forall S V, hull_ok S V = true -> HullSpec S V.
Proof. exact hull_ok_sound. Qed.
Print Assumptions C02_hull_ok_sound.

Theorem C02_batch_ok_sound : forall ijv indexes rows counts,
  batch_ok ijv indexes rows counts = true -> BatchSpec ijv indexes rows counts.
Proof. exact batch_ok_sound. Qed.
Print Assumptions C02_batch_ok_sound.

(* "exactly the extreme points", direction vertex => extreme: a vertex of a polygon meeting the
   specification is no proper convex combination of two pixels of the set *)
Theorem C02_vertex_extreme : forall S V v p q lam mu, HullSpec S V -> In v V -> In p S -> In q S ->
  0 < lam -> 0 < mu ->
  (lam + mu) * fst v = lam * fst p + mu * fst q ->
  (lam + mu) * snd v = lam * snd p + mu * snd q -> p = v /\ q = v.
Proof. exact vertex_extreme. Qed.
Print Assumptions C02_vertex_extreme.

(* the outline pre-filter only drops pixels that are no vertex of the hull of the full set *)
Theorem C02_outline_keeps_extreme : forall S V v, HullSpec S V -> In v V ->
  ~ (In (fst v - 1, snd v) S /\ In (fst v + 1, snd v) S).
Proof. exact interior_not_vertex. Qed.
Print Assumptions C02_outline_keeps_extreme.

(* ... and for the modelled cpmorphology.convex_hull: a hull polygon of ALL pixels of label l is a
   hull polygon of the outline pixels handed to the kernel (no vertex is lost by the pre-filter) *)
Theorem C02_outline_prefilter_sound : forall im l V, 0 < l ->
  HullSpec (pts_of (all_ijv im) l) V -> HullSpec (pts_of (outline_ijv im) l) V.
Proof. exact outline_prefilter_sound. Qed.
Print Assumptions C02_outline_prefilter_sound.

(* np.argsort(np.argsort(indexes)) inverts the sort permutation *)
Theorem C02_argsort_inverse : forall xs r, (r < length xs)%nat ->
  let reorder := argsort xs in
  let unreorder := argsort (map Z.of_nat reorder) in
  (nth r unreorder 0%nat < length xs)%nat /\ nth (nth r unreorder 0%nat) reorder 0%nat = r.
Proof. exact argsort_inverse. Qed.
Print Assumptions C02_argsort_inverse.

(* reorder_correct + independence: position r of the batch result carries label indexes[r] and
   the per-label kernel applied to exactly that label's rows; other labels matter only through
   the buffer slack *)
Theorem C02_reorder_correct : forall ijv indexes r, NoDup indexes -> (r < length indexes)%nat ->
  exists slack,
    nth r (fst (convex_hull_ijv ijv indexes)) (0, []) =
    (nth r indexes 0,
     hull_label (zmax_list (map r_i (lexsort ijv)))
                (map r_pt (sel (nth r indexes 0) (lexsort ijv))) slack).
Proof. exact hull_ijv_request. Qed.
Print Assumptions C02_reorder_correct.

Theorem C02_absent_zero : forall ijv indexes r, NoDup indexes -> (r < length indexes)%nat ->
  (forall x, In x ijv -> r_v x <> nth r indexes 0) ->
  snd (nth r (fst (convex_hull_ijv ijv indexes)) (0, [])) = [].
Proof. exact absent_zero. Qed.
Print Assumptions C02_absent_zero.

(* (a) for the batch function *)
Theorem C02_batch_vertices_subset : forall ijv indexes r p, NoDup indexes -> (r < length indexes)%nat ->
  (forall x, In x ijv -> 0 <= r_i x) ->
  In p (snd (nth r (fst (convex_hull_ijv ijv indexes)) (0, []))) ->
  In p (pts_of ijv (nth r indexes 0)).
Proof. exact batch_vertices_subset. Qed.
Print Assumptions C02_batch_vertices_subset.

(* Finite: every point set of the grid, every listed slack: the kernel model's polygon meets the
   full specification, fits into the label's own rows, and is the one computed with an
   unreachable guard (guard_irrelevant) *)
Theorem C02_hull_label_grid_4x4_finite : forall pts slack, In pts (sublists (grid 4 4)) -> In slack (slacks 2) ->
    HullSpec pts (hull_label 3 pts slack) /\
    zlen (hull_label 3 pts slack) <= slack + zlen pts /\
    hull_label 3 pts slack = hull_label 3 pts (slack + 1000).
Proof. exact hull_label_grid_4x4. Qed.
Print Assumptions C02_hull_label_grid_4x4_finite.

Theorem C02_hull_label_grid_3x4_finite : forall pts slack, In pts (sublists (grid 3 4)) -> In slack (slacks 13) ->
    HullSpec pts (hull_label 2 pts slack) /\
    zlen (hull_label 2 pts slack) <= slack + zlen pts /\
    hull_label 2 pts slack = hull_label 2 pts (slack + 1000).
Proof. exact hull_label_grid_3x4. Qed.
Print Assumptions C02_hull_label_grid_3x4_finite.

Theorem C02_hull_label_grid_5x3_finite : forall pts slack, In pts (sublists (grid 5 3)) -> In slack (slacks 1) ->
    HullSpec pts (hull_label 4 pts slack) /\
    zlen (hull_label 4 pts slack) <= slack + zlen pts /\
    hull_label 4 pts slack = hull_label 4 pts (slack + 1000).
Proof. exact hull_label_grid_5x3. Qed.
Print Assumptions C02_hull_label_grid_5x3_finite.
