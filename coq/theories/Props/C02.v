(* C02 — property theorems.  Only statements, each closed by [exact], each followed by
   Print Assumptions.

   State after round 5: HullLabelCorrect is a THEOREM (C02_hull_label_correct): for every label the
   kernel may see (label_ok: 0 <= i <= max_i, rows in buffer order) and every slack >= 0 the polygon
   emitted by the kernel as written meets the full HullSpec.  Hence C02_convex_hull_ijv_correct and
   C02_convex_hull_correct have no premise left: for every ijv list with non-negative rows / every
   label image and every repeat-free index list the model returns, in request order, for each
   requested label a polygon that is a subset of its pixels, without repeated vertex, strictly convex
   in one sense, containing every pixel (absent labels: count 0); by C02_hull_exactly_extreme its
   vertices are exactly the extreme points, by C02_guard_irrelevant it does not depend on the other
   labels.  Layers: lower chain (C02_lower_pass_contains), upper chain (C02_upper_chain_contains),
   pivot_protected, clause (c) complete (C02_hull_label_contains_all), dead_top / guard_irrelevant /
   HullNoOverflow, turn_strict + assembly (Proofs/HullStrict.v: strict_hullspec), one-column label.
   Round 6: no _partial left.  successor_unique (C02_successor_unique) and the rotation form of
   hull_unique (C02_hull_unique_rotation: two positively oriented polygons meeting HullSpec for the
   same pixels are rotations of each other); the kernel always emits the positive sense
   (C02_hull_label_pos), so any positively oriented polygon meeting the specification is a rotation
   of the kernel's (C02_hull_label_unique).  A negatively oriented one is the reverse of such a
   polygon; that variant is not stated.
   (stack_nodup is refuted: C02_stack_nodup_refuted.)
   F22 (known finding): all theorems above are about the exact-integer model Model/Hull.v.  The kernel
   computes the cross product (and max_i + 1) in C int; Model/HullW.v is the model as written
   (wrap32).  C02_wrap_transfer: for coordinates in [0, M], M*M < 2^31 (M <= 46340, sharp) the
   as-written per-label kernel equals the exact one, so it is correct there (C02_hull_label_w_correct);
   C02_convex_wrap_refuted: above the bound it loses an extreme point.  The batch-level equality of the
   two models inside the bound is C02_batch_wrap_transfer (walk invariant: rows sorted by (v, j), in the
   box, out <= pix; the overwrite branch of the as-written walk is dead by C02_hull_no_overflow), so the
   correspondence model for convex_hull_ijv (the as-written one) meets BatchSpec there
   (C02_convex_hull_ijv_w_correct). *)
From Coq Require Import ZArith List Bool Permutation.
From Centro Require Import Base.Sx Model.Hull Model.HullW Spec.HullSpec
  Proofs.HullEmit Proofs.HullGeom Proofs.HullPerm Proofs.HullBatch Proofs.HullTop
  Proofs.HullOutline Proofs.HullUnique Proofs.HullBelow Proofs.HullAbove Proofs.HullCorrect
  Proofs.HullImage Proofs.HullWrites Proofs.HullGuard Proofs.HullStrict Proofs.HullPoly Proofs.HullRotation Proofs.HullWrap Proofs.HullWrapBatch Proofs.HullSweep Proofs.HullSweep44 Proofs.HullSweep34 Proofs.HullSweep53.
Import ListNotations.
Open Scope Z_scope.

(* EMIT keeps the stack locally convex, for every stack and every new point *)
Theorem C02_emit_step_convex : forall st p, chain_ok st -> chain_ok (prune st p) /\ chain_ok (p :: prune st p).
Proof. exact prune_ok. Qed.
Print Assumptions C02_emit_step_convex.

(* the invariant through all three passes, the guard and the final prune, read on the output *)
Theorem C02_emit_chain_convex : forall m pts slack,
  (forall q, In q pts -> 0 <= fst q) ->
  forall l1 l2 a b c, hull_label m pts slack = l1 ++ a :: b :: c :: l2 -> CONVEX a b c = true.
Proof. exact emit_chain_convex. Qed.
Print Assumptions C02_emit_chain_convex.

(* (a) for the per-label kernel: every vertex is one of the label's pixels *)
Theorem C02_vertices_subset : forall m pts slack p,
  (forall q, In q pts -> 0 <= fst q) -> In p (hull_label m pts slack) -> In p pts.
Proof. exact vertices_subset. Qed.
Print Assumptions C02_vertices_subset.

(* the checker run on the implementation's output is sound for the declarative specification *)
Theorem C02_hull_ok_sound : forall S V, hull_ok S V = true -> HullSpec S V.
Proof. exact hull_ok_sound. Qed.
Print Assumptions C02_hull_ok_sound.

Theorem C02_batch_ok_sound : forall ijv indexes rows counts,
  batch_ok ijv indexes rows counts = true -> BatchSpec ijv indexes rows counts.
Proof. exact batch_ok_sound. Qed.
Print Assumptions C02_batch_ok_sound.

(* "exactly the extreme points", direction vertex => extreme: a vertex of a polygon meeting the
   specification is no proper convex combination of two pixels of the set *)
Theorem C02_vertex_extreme : forall S V v p q lam mu, HullSpec S V -> In v V -> In p S -> In q S ->
  0 < lam -> 0 < mu ->
  (lam + mu) * fst v = lam * fst p + mu * fst q ->
  (lam + mu) * snd v = lam * snd p + mu * snd q -> p = v /\ q = v.
Proof. exact vertex_extreme. Qed.
Print Assumptions C02_vertex_extreme.

(* "exactly the extreme points": for ANY polygon meeting the specification, a point is a vertex iff
   it is an exposed point of S (a line through it has all of S on one side and meets S only there) *)
Theorem C02_hull_exactly_extreme : forall S V v, HullSpec S V -> (In v V <-> exposed S v).
Proof. exact hull_exactly_extreme. Qed.
Print Assumptions C02_hull_exactly_extreme.

(* so the specification determines the vertex set, and the vertex list up to order *)
Theorem C02_hull_vertices_unique : forall S V V', HullSpec S V -> HullSpec S V' ->
  (forall v, In v V <-> In v V') /\ Permutation V V'.
Proof. exact hull_vertices_unique. Qed.
Print Assumptions C02_hull_vertices_unique.

(* monotone-chain step: EMIT of a point right of the stack keeps every pixel on the inner side *)
Theorem C02_emit_below_step : forall st p s, st <> [] -> jdesc st -> chain_ok st -> snd (hd p st) < snd p ->
  (  (snd s <= snd (hd p st) /\ edges_ok st s /\ bottom_ok st s)
   \/ (snd s = snd p /\ fst p <= fst s)) ->
  edges_ok (p :: prune st p) s /\ jdesc (p :: prune st p) /\ chain_ok (p :: prune st p).
Proof. exact emit_below_step. Qed.
Print Assumptions C02_emit_below_step.

(* (c) for the lower chain, all inputs: after the first EMIT loop of hull_label every pixel lies on
   the inner side of, or on, every edge of the chain (which has strictly increasing columns) *)
Theorem C02_lower_pass_contains : forall m pts p0 e, In p0 pts ->
  (forall s, In s pts -> snd p0 <= snd s) -> (forall s, In s pts -> fst s <= m) -> snd p0 <= e ->
  let st1 := fold_left (lower_emit m (build_lower m pts)) (cols_up (snd p0) e) [] in
  jdesc st1 /\ chain_ok st1 /\ forall s, In s pts -> snd s <= e -> edges_ok st1 s.
Proof. exact lower_pass_contains. Qed.
Print Assumptions C02_lower_pass_contains.

(* mirror image of C02_emit_below_step for the second loop (columns decreasing towards the top) *)
Theorem C02_emit_above_step : forall (st : list pt) (p s : pt), st <> [] -> jasc st -> chain_ok st -> snd p < snd (hd p st) ->
  (  (snd (hd p st) <= snd s /\ edges_ok st s /\ top_ok st s)
   \/ (snd s = snd p /\ fst s <= fst p)) ->
  edges_ok (p :: prune st p) s /\ jasc (p :: prune st p) /\ chain_ok (p :: prune st p).
Proof. exact emit_above_step. Qed.
Print Assumptions C02_emit_above_step.

(* (c) for the upper chain, all inputs: the guard-free second EMIT loop over columns e .. lo *)
Theorem C02_upper_chain_contains : forall pts lo e,
  (forall s, In s pts -> 0 <= fst s) -> (forall s, In s pts -> snd s <= e) ->
  let stU := fold_left (upper_emit_free (build_upper pts)) (rev (cols_up lo e)) [] in
  jasc stU /\ chain_ok stU /\ forall s, In s pts -> lo <= snd s -> edges_ok stU s.
Proof. exact upper_chain_contains. Qed.
Print Assumptions C02_upper_chain_contains.

(* C19's write bound for the convex-hull kernel: every stack of the first loop holds at most nv rows,
   every stack of the second loop at most max(its start, cap) rows (the guard), cap = pixidx - outidx;
   so no write of the two loops reaches row pixidx *)
Theorem C02_lower_loop_within : forall m pts cols, NoDup cols ->
  zlen (fold_left (lower_emit m (build_lower m pts)) cols []) <= zlen pts.
Proof. exact lower_loop_within. Qed.
Print Assumptions C02_lower_loop_within.

Theorem C02_upper_loop_within : forall upper cap cols st,
  zlen (fold_left (upper_emit upper cap) cols st) <= Z.max (zlen st) cap.
Proof. exact upper_loop_within. Qed.
Print Assumptions C02_upper_loop_within.

(* no_overflow, partial: kernel_pre (0 <= slack) -> the label's output ends at most ONE row past its
   own input rows (the unguarded final write); missing: final_write_strict *)
Theorem C02_no_overflow_partial : forall m pts slack, 0 <= slack ->
  zlen (hull_label m pts slack) <= slack + zlen pts + 1.
Proof. exact no_overflow_partial. Qed.
Print Assumptions C02_no_overflow_partial.

(* dead_top, arithmetic core: a vertex q of the lower chain (predecessor x) pushed a second time on top
   of t is not CONVEX against any later pixel q' *)
Theorem C02_dead_core : forall x q t q' : pt, snd x < snd q -> snd q < snd t -> snd q' < snd q ->
  0 <= cross x q t -> 0 <= cross x q q' -> cross t q q' <= 0.
Proof. exact dead_core. Qed.
Print Assumptions C02_dead_core.

(* guard_irrelevant: the kernel with its in-place guard equals the guard-free kernel, for every label the
   kernel may see and every slack >= 0; so a label's polygon does not depend on the slack left by the
   other labels (the independence clause, at kernel level) *)
Theorem C02_guard_irrelevant : forall m pts slack, label_ok m pts -> 0 <= slack ->
  hull_label m pts slack = hull_free m pts.
Proof. exact guard_irrelevant. Qed.
Print Assumptions C02_guard_irrelevant.

Theorem C02_slack_irrelevant : forall m pts s1 s2, label_ok m pts -> 0 <= s1 -> 0 <= s2 ->
  hull_label m pts s1 = hull_label m pts s2.
Proof. exact slack_irrelevant. Qed.
Print Assumptions C02_slack_irrelevant.

(* HullNoOverflow, Full: kernel_pre (label_ok, 0 <= slack = start_idx - outidx) -> the rows written for
   the label end before pixidx = outidx + slack + nv *)
Theorem C02_hull_no_overflow : forall m pts slack, label_ok m pts -> 0 <= slack ->
  zlen (hull_label m pts slack) <= slack + zlen pts.
Proof. exact hull_no_overflow. Qed.
Print Assumptions C02_hull_no_overflow.

(* pivot_protected: the second loop (guard-free) never pops the right-most vertex R *)
Theorem C02_pivot_protected : forall m p0 rest, label_ok m (p0 :: rest) -> snd p0 < snd (last (p0 :: rest) p0) ->
  let pts := p0 :: rest in let sj := snd p0 in let ej := snd (last pts p0) in
  let upper := build_upper pts in
  let st1 := fold_left (lower_emit m (build_lower m pts)) (cols_up sj ej) [] in
  let cols2 := rev (cols_up (sj + 1) ej) in
  let stU := fold_left (upper_emit_free upper) cols2 [] in
  let st2F := fold_left (upper_emit_free upper) cols2 st1 in
  st2F = stU ++ base m p0 rest /\ (forall d, last stU d = (upper ej, ej)) /\ stU <> [] /\
  prune st2F (upper sj, sj) = prune stU (upper sj, sj) ++ base m p0 rest.
Proof. exact pivot_protected. Qed.
Print Assumptions C02_pivot_protected.

(* clause (c), complete, for the kernel as written *)
Theorem C02_hull_label_contains_all : forall m p0 rest slack, label_ok m (p0 :: rest) -> 0 <= slack ->
  snd p0 < snd (last (p0 :: rest) p0) ->
  exists FS, hull_label m (p0 :: rest) slack = rev FS /\ FS <> [] /\
    forall s, In s (p0 :: rest) -> edges_ok FS s /\ forall d, 0 <= cross (hd d FS) (last FS d) s.
Proof. exact hull_label_contains_all. Qed.
Print Assumptions C02_hull_label_contains_all.

(* the proposed lemma stack_nodup is false for the faithful model *)
Theorem C02_stack_nodup_refuted : exists m pts slack, label_ok m pts /\ 0 <= slack /\ ~ NoDup (stack2 m pts slack)
  /\ NoDup (stack2 m pts 0) /\ hull_label m pts slack = hull_label m pts 0.
Proof. exact stack_nodup_refuted. Qed.
Print Assumptions C02_stack_nodup_refuted.

(* converse of the pre-filter theorem: the kernel's polygon for the OUTLINE pixels is a hull polygon of
   ALL pixels of the label (an affine function minimal at an interior pixel is constant) *)
Theorem C02_outline_hull_is_full_hull : forall im l V, 0 < l ->
  HullSpec (pts_of (outline_ijv im) l) V -> HullSpec (pts_of (all_ijv im) l) V.
Proof. exact outline_hull_is_full_hull. Qed.
Print Assumptions C02_outline_hull_is_full_hull.

(* turn_strict, geometric core: two supporting edges that run back along one line force every pixel
   onto that line *)
Theorem C02_reversal_line : forall a b c s : pt, cross a b c = 0 ->
  (snd a < snd b /\ snd c < snd b) \/ (snd b < snd a /\ snd b < snd c) ->
  0 <= cross a b s -> 0 <= cross b c s -> cross a b s = 0.
Proof. exact reversal_line. Qed.
Print Assumptions C02_reversal_line.

(* HullLabelCorrect: the per-label kernel as written (guard, any slack >= 0) is correct for ALL inputs *)
Theorem C02_hull_label_correct : forall m pts slack, label_ok m pts -> 0 <= slack ->
  HullSpec pts (hull_label m pts slack).
Proof. exact hull_label_correct. Qed.
Print Assumptions C02_hull_label_correct.

(* the batch function, Full: lexsort, request walk with slack >= 0, reorder, absent labels, per-label
   correctness - no premise *)
Theorem C02_convex_hull_ijv_correct :
  forall ijv indexes, NoDup indexes -> (forall x, In x ijv -> 0 <= r_i x) ->
  let res := fst (convex_hull_ijv ijv indexes) in
  BatchSpec ijv indexes (rows_of res) (counts_of res).
Proof. exact convex_hull_ijv_correct. Qed.
Print Assumptions C02_convex_hull_ijv_correct.

(* the image entry point, Full, against ALL pixels of every requested label *)
Theorem C02_convex_hull_correct :
  forall im indexes, NoDup indexes ->
  match convex_hull im indexes with
  | HEmpty2 => indexes = []
  | HBlank n => n = length indexes /\ forall l, pts_of (all_ijv im) l = []
  | HRows r => BatchSpec (all_ijv im) indexes (rows_of (fst r)) (counts_of (fst r))
  end.
Proof. exact convex_hull_correct. Qed.
Print Assumptions C02_convex_hull_correct.

(* successor_unique: in two positively oriented polygons meeting the specification for the same pixels
   every common vertex has the same successor *)
Theorem C02_successor_unique : forall S V V' a b c a' c', HullSpec S V -> HullSpec S V' -> pos V -> pos V' ->
  (3 <= length V)%nat -> (3 <= length V')%nat ->
  consecutive V a b c -> consecutive V' a' b c' -> c = c'.
Proof. exact successor_unique. Qed.
Print Assumptions C02_successor_unique.

(* hull_unique, rotation form *)
Theorem C02_hull_unique_rotation : forall S V V', HullSpec S V -> HullSpec S V' -> pos V -> pos V' ->
  (3 <= length V)%nat -> exists k, V' = skipn k V ++ firstn k V.
Proof. exact hull_unique_rotation. Qed.
Print Assumptions C02_hull_unique_rotation.

(* the kernel emits the positive sense, and its polygon is THE polygon up to the starting vertex *)
Theorem C02_hull_label_pos : forall m pts slack, label_ok m pts -> 0 <= slack ->
  (3 <= length (hull_label m pts slack))%nat -> pos (hull_label m pts slack).
Proof. exact hull_label_pos. Qed.
Print Assumptions C02_hull_label_pos.

Theorem C02_hull_label_unique : forall m pts slack V', label_ok m pts -> 0 <= slack ->
  HullSpec pts V' -> pos V' -> (3 <= length (hull_label m pts slack))%nat ->
  exists k, V' = skipn k (hull_label m pts slack) ++ firstn k (hull_label m pts slack).
Proof. exact hull_label_unique. Qed.
Print Assumptions C02_hull_label_unique.

(* ---- F22: C int arithmetic *)
Theorem C02_wrap32_id : forall z, -2147483648 <= z < 2147483648 -> wrap32 z = z.
Proof. exact wrap32_id. Qed.
Print Assumptions C02_wrap32_id.

(* sharp: the as-written turn test is exact whenever twice the triangle's area fits the int32 range ... *)
Theorem C02_CONVEXw_exact : forall a b c : pt, -2147483648 <= cross a b c < 2147483648 -> CONVEXw a b c = CONVEX a b c.
Proof. exact CONVEXw_exact. Qed.
Print Assumptions C02_CONVEXw_exact.

(* ... which holds for coordinates in [0, M] with M*M < 2^31, since |cross| <= M*M *)
Theorem C02_cross_bound : forall (M : Z) (a b c : pt),
  0 <= fst a <= M -> 0 <= snd a <= M -> 0 <= fst b <= M -> 0 <= snd b <= M -> 0 <= fst c <= M -> 0 <= snd c <= M ->
  - (M * M) <= cross a b c <= M * M.
Proof. exact cross_bound. Qed.
Print Assumptions C02_cross_bound.

(* the per-label kernel as written equals the exact one inside the bound: every theorem transfers *)
Theorem C02_wrap_transfer : forall M m pts slack, M * M < 2147483648 ->
  (forall q, In q pts -> inbox M q) -> hull_label_w m pts slack = hull_label m pts slack.
Proof. exact hull_label_w_exact. Qed.
Print Assumptions C02_wrap_transfer.

Theorem C02_hull_label_w_correct : forall M m pts slack, M * M < 2147483648 -> (forall q, In q pts -> inbox M q) ->
  label_ok m pts -> 0 <= slack -> HullSpec pts (hull_label_w m pts slack).
Proof. exact hull_label_w_correct. Qed.
Print Assumptions C02_hull_label_w_correct.

(* the WHOLE batch kernel as written (wrapped turn test, wrapped sentinel max_i + 1, the one-row overwrite an
   overflowing label would cause) equals the exact model inside the bound, for every request list *)
Theorem C02_batch_wrap_transfer : forall M ijv indexes, M * M < 2147483648 ->
  (forall x, In x ijv -> inbox M (r_pt x)) ->
  convex_hull_ijv_w ijv indexes = convex_hull_ijv ijv indexes.
Proof. exact convex_hull_ijv_w_exact. Qed.
Print Assumptions C02_batch_wrap_transfer.

Theorem C02_convex_hull_ijv_w_correct : forall M ijv indexes, M * M < 2147483648 ->
  (forall x, In x ijv -> inbox M (r_pt x)) -> NoDup indexes ->
  let res := fst (convex_hull_ijv_w ijv indexes) in
  BatchSpec ijv indexes (rows_of res) (counts_of res).
Proof. exact convex_hull_ijv_w_correct. Qed.
Print Assumptions C02_convex_hull_ijv_w_correct.

(* the entry point the compiled kernel is compared with on every run (as written) = the entry point of the exact
   model, on every wire-format request whose rows lie in the box *)
Theorem C02_entry_wrap_transfer : forall M x, M * M < 2147483648 ->
  (forall r, In r (as_rows (arg 0 x)) -> inbox M (r_pt r)) ->
  entry_hull_ijv_w x = entry_hull_ijv x.
Proof. exact entry_hull_ijv_w_exact. Qed.
Print Assumptions C02_entry_wrap_transfer.

(* beyond the bound the kernel as written violates the property (F22) *)
Theorem C02_convex_wrap_refuted : exists m pts,
  label_ok m pts /\ (forall q, In q pts -> 0 <= fst q < 2147483648 /\ 0 <= snd q <= 2) /\
  hull_label m pts 0 = [(2147483646, 0); (0, 1); (2147483646, 2)] /\
  hull_label_w m pts 0 = [(2147483646, 0); (2147483646, 2); (5, 1)] /\
  hull_ok pts (hull_label_w m pts 0) = false /\ CONVEXw (2147483646, 0) (0, 1) (2147483646, 2) = false.
Proof. exact convex_wrap_refuted. Qed.
Print Assumptions C02_convex_wrap_refuted.

(* the outline pre-filter only drops pixels that are no vertex of the hull of the full set *)
Theorem C02_outline_keeps_extreme : forall S V v, HullSpec S V -> In v V ->
  ~ (In (fst v - 1, snd v) S /\ In (fst v + 1, snd v) S).
Proof. exact interior_not_vertex. Qed.
Print Assumptions C02_outline_keeps_extreme.

(* ... and for the modelled cpmorphology.convex_hull: a hull polygon of ALL pixels of label l is a
   hull polygon of the outline pixels handed to the kernel (no vertex is lost by the pre-filter) *)
Theorem C02_outline_prefilter_sound : forall im l V, 0 < l ->
  HullSpec (pts_of (all_ijv im) l) V -> HullSpec (pts_of (outline_ijv im) l) V.
Proof. exact outline_prefilter_sound. Qed.
Print Assumptions C02_outline_prefilter_sound.

(* np.argsort(np.argsort(indexes)) inverts the sort permutation *)
Theorem C02_argsort_inverse : forall xs r, (r < length xs)%nat ->
  let reorder := argsort xs in
  let unreorder := argsort (map Z.of_nat reorder) in
  (nth r unreorder 0%nat < length xs)%nat /\ nth (nth r unreorder 0%nat) reorder 0%nat = r.
Proof. exact argsort_inverse. Qed.
Print Assumptions C02_argsort_inverse.

(* reorder_correct + independence: position r of the batch result carries label indexes[r] and
   the per-label kernel applied to exactly that label's rows; other labels matter only through
   the buffer slack *)
Theorem C02_reorder_correct : forall ijv indexes r, NoDup indexes -> (r < length indexes)%nat ->
  exists slack,
    nth r (fst (convex_hull_ijv ijv indexes)) (0, []) =
    (nth r indexes 0,
     hull_label (zmax_list (map r_i (lexsort ijv)))
                (map r_pt (sel (nth r indexes 0) (lexsort ijv))) slack).
Proof. exact hull_ijv_request. Qed.
Print Assumptions C02_reorder_correct.

Theorem C02_absent_zero : forall ijv indexes r, NoDup indexes -> (r < length indexes)%nat ->
  (forall x, In x ijv -> r_v x <> nth r indexes 0) ->
  snd (nth r (fst (convex_hull_ijv ijv indexes)) (0, [])) = [].
Proof. exact absent_zero. Qed.
Print Assumptions C02_absent_zero.

(* (a) for the batch function *)
Theorem C02_batch_vertices_subset : forall ijv indexes r p, NoDup indexes -> (r < length indexes)%nat ->
  (forall x, In x ijv -> 0 <= r_i x) ->
  In p (snd (nth r (fst (convex_hull_ijv ijv indexes)) (0, []))) ->
  In p (pts_of ijv (nth r indexes 0)).
Proof. exact batch_vertices_subset. Qed.
Print Assumptions C02_batch_vertices_subset.

(* Finite: every point set of the grid, every listed slack: the kernel model's polygon meets the
   full specification, fits into the label's own rows, and is the one computed with an
   unreachable guard (guard_irrelevant) *)
Theorem C02_hull_label_grid_4x4_finite : forall pts slack, In pts (sublists (grid 4 4)) -> In slack (slacks 2) ->
    HullSpec pts (hull_label 3 pts slack) /\
    zlen (hull_label 3 pts slack) <= slack + zlen pts /\
    hull_label 3 pts slack = hull_label 3 pts (slack + 1000).
Proof. exact hull_label_grid_4x4. Qed.
Print Assumptions C02_hull_label_grid_4x4_finite.

Theorem C02_hull_label_grid_3x4_finite : forall pts slack, In pts (sublists (grid 3 4)) -> In slack (slacks 13) ->
    HullSpec pts (hull_label 2 pts slack) /\
    zlen (hull_label 2 pts slack) <= slack + zlen pts /\
    hull_label 2 pts slack = hull_label 2 pts (slack + 1000).
Proof. exact hull_label_grid_3x4. Qed.
Print Assumptions C02_hull_label_grid_3x4_finite.

Theorem C02_hull_label_grid_5x3_finite : forall pts slack, In pts (sublists (grid 5 3)) -> In slack (slacks 1) ->
    HullSpec pts (hull_label 4 pts slack) /\
    zlen (hull_label 4 pts slack) <= slack + zlen pts /\
    hull_label 4 pts slack = hull_label 4 pts (slack + 1000).
Proof. exact hull_label_grid_5x3. Qed.
Print Assumptions C02_hull_label_grid_5x3_finite.
