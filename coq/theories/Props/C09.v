(* C09 — property theorems.  Only statements, each closed by [exact], each followed by
   Print Assumptions. *)
From Coq Require Import ZArith List Bool QArith Qcanon.
From Centro Require Import Model.Kalman Spec.Kalman Proofs.KalmanHist.
Import ListNotations.
Open Scope nat_scope.

Theorem C09_history_renumber : forall (V : Type) (f : nat -> option nat) (k o : nat) (r : list (nat * V)),
  (forall i, In i (map fst r) -> (f i = Some k <-> i = o)) ->
  hist k (renumber f r) = hist o r.
Proof. exact @history_renumber. Qed.
Print Assumptions C09_history_renumber.

Theorem C09_history_append : forall (V : Type) (k : nat) (r : list (nat * V)) (corr : list V) (d : V),
  (k < length corr)%nat ->
  hist k (r ++ combine (seq 0 (length corr)) corr) = hist k r ++ [nth k corr d].
Proof. exact @history_append. Qed.
Print Assumptions C09_history_append.
