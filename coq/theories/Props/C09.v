(* C09 — property theorems.  Only statements, each closed by [exact], each followed by
   Print Assumptions.  Model = Model/Kalman.v (the batched code over canonical rationals),
   specification = Spec/Kalman.v (per-feature textbook step). *)
From Coq Require Import ZArith List Bool QArith Qcanon.
From Centro Require Import Gen.ConstsC09 Model.Kalman Spec.Kalman Proofs.KalmanHist Proofs.KalmanAlg Proofs.KalmanGain Proofs.KalmanRefine
  Proofs.KalmanArith Proofs.KalmanInv34 Proofs.KalmanParity Proofs.KalmanAssoc
  Proofs.KalmanDetBase Proofs.KalmanDetRow Proofs.KalmanDetAlt Proofs.KalmanAdj Proofs.KalmanSym
  Proofs.KalmanDetTrans Proofs.KalmanInvFull Proofs.KalmanLite.
Import ListNotations.
Open Scope nat_scope.

(* FULL.  For every history of frames (keep / permute / drop / add in any pattern, empty and
   all-new frames included) the per-feature abstraction of the batched state equals the
   per-feature textbook step folded over the frames. *)
Theorem C09_kalman_refines : forall (fs : list frame) (s : kstate),
  wf s -> valid_frames (length (svec s)) fs ->
  abs (run s fs) = spec_run (tm s) (om s) (abs s) fs.
Proof. exact kalman_refines. Qed.
Print Assumptions C09_kalman_refines.

(* FULL.  The same after every frame of the history (what the harness replays). *)
Theorem C09_kalman_refines_trace : forall (fs : list frame) (s : kstate),
  wf s -> valid_frames (length (svec s)) fs ->
  map abs (run_trace s fs) = spec_trace (tm s) (om s) (abs s) fs.
Proof. exact kalman_refines_trace. Qed.
Print Assumptions C09_kalman_refines_trace.

(* FULL.  One call of kalman_filter. *)
Theorem C09_kalman_step_refines : forall (s : kstate) (old : list (option nat)) (coords : list vec) (q r : list mat),
  wf s -> valid_frame (length (svec s)) (old, coords, q, r) ->
  abs (kalman_filter s old coords q r) = map_step (tm s) (om s) (abs s) (old, coords, q, r).
Proof. exact kalman_step_refines. Qed.
Print Assumptions C09_kalman_step_refines.

(* FULL.  From the model's initial state, under the executable validity guard of the entries:
   entry_abs_run and entry_spec_run agree. *)
Theorem C09_fresh_refines_trace : forall (H A : mat) (fs : list frame),
  valid_framesb 0 fs = true ->
  map abs (run_trace (fresh H A) fs) = spec_trace A H [] fs.
Proof. exact fresh_refines_trace. Qed.
Print Assumptions C09_fresh_refines_trace.

(* FULL.  Independence of index order and of all other features: two calls on different states
   and frames give the same tuple to any two kept features that agree on their own previous
   tuple and their own z, q, r. *)
Theorem C09_feature_independent :
  forall (s1 s2 : kstate) (o1 : list (option nat)) (c1 : list vec) (q1 r1 : list mat)
         (o2 : list (option nat)) (c2 : list vec) (q2 r2 : list mat) (k1 k2 i1 i2 : nat),
  wf s1 -> wf s2 ->
  valid_frame (length (svec s1)) (o1, c1, q1, r1) -> valid_frame (length (svec s2)) (o2, c2, q2, r2) ->
  om s1 = om s2 -> tm s1 = tm s2 ->
  k1 < length o1 -> k2 < length o2 -> nth k1 o1 None = Some i1 -> nth k2 o2 None = Some i2 ->
  nth i1 (abs s1) feat0 = nth i2 (abs s2) feat0 ->
  nth k1 c1 [] = nth k2 c2 [] -> nth k1 q1 [] = nth k2 q2 [] -> nth k1 r1 [] = nth k2 r2 [] ->
  nth k1 (abs (kalman_filter s1 o1 c1 q1 r1)) feat0 = nth k2 (abs (kalman_filter s2 o2 c2 q2 r2)) feat0.
Proof. exact feature_independent. Qed.
Print Assumptions C09_feature_independent.

(* FULL.  New features: observed coordinates, diag(SMALL/.. | LARGE), noise variance one, no history. *)
Theorem C09_new_feature_init : forall (s : kstate) (old : list (option nat)) (coords : list vec) (q r : list mat) (k : nat),
  wf s -> valid_frame (length (svec s)) (old, coords, q, r) -> k < length old -> nth k old None = None ->
  nth k (abs (kalman_filter s old coords q r)) feat0 = feat_new (om s) (nth k coords []).
Proof. exact new_feature_init. Qed.
Print Assumptions C09_new_feature_init.

(* FULL.  A kept feature's noise variance is the variance of exactly its own corrections, and
   its history is its own previous history plus one correction. *)
Theorem C09_noise_var_own_history : forall (s : kstate) (old : list (option nat)) (coords : list vec) (q r : list mat) (k o : nat),
  wf s -> valid_frame (length (svec s)) (old, coords, q, r) -> k < length old -> nth k old None = Some o ->
  let f := nth k (abs (kalman_filter s old coords q r)) feat0 in
  f_nv f = var_cols (ncols (om s)) (f_hist f) /\
  exists c, f_hist f = f_hist (nth o (abs s) feat0) ++ [c].
Proof. exact noise_var_own_history. Qed.
Print Assumptions C09_noise_var_own_history.

(* FULL.  scipy.ndimage.variance grouped by state_noise_idx = per-column variance of the rows
   of that index. *)
Theorem C09_variance_own_history : forall (idx : list nat) (noise : list vec) (sl k : nat),
  length noise = length idx ->
  map (fun i => variance (map (fun row => nth i row 0%Qc) noise) idx k) (seq 0 sl) =
  var_cols sl (history_of k (combine idx noise)).
Proof. exact variance_own_history. Qed.
Print Assumptions C09_variance_own_history.

(* FULL.  Renumbering of the correction history (map_frames / add_features). *)
Theorem C09_history_renumber : forall (V : Type) (f : nat -> option nat) (k o : nat) (r : list (nat * V)),
  (forall i, In i (map fst r) -> (f i = Some k <-> i = o)) ->
  hist k (renumber f r) = hist o r.
Proof. exact @history_renumber. Qed.
Print Assumptions C09_history_renumber.

(* FULL.  Appending this frame's (arange, correction) rows. *)
Theorem C09_history_append : forall (V : Type) (k : nat) (r : list (nat * V)) (corr : list V) (d : V),
  k < length corr ->
  hist k (r ++ combine (seq 0 (length corr)) corr) = hist k r ++ [nth k corr d].
Proof. exact @history_append. Qed.
Print Assumptions C09_history_append.

(* FULL for sizes 1 and 2 (obs_len of every model is 2).  The cofactor inverse is a two-sided inverse. *)
Theorem C09_inv_n_correct_1 : forall a : Qc, det1 [[a]] <> 0%Qc ->
  mmul [[a]] (inv1 [[a]]) = I1 /\ mmul (inv1 [[a]]) [[a]] = I1.
Proof. exact inv_n_correct_1. Qed.
Print Assumptions C09_inv_n_correct_1.

Theorem C09_inv_n_correct_2 : forall a b c d : Qc, det1 [[a; b]; [c; d]] <> 0%Qc ->
  mmul [[a; b]; [c; d]] (inv1 [[a; b]; [c; d]]) = I2 /\
  mmul (inv1 [[a; b]; [c; d]]) [[a; b]; [c; d]] = I2.
Proof. exact inv_n_correct_2. Qed.
Print Assumptions C09_inv_n_correct_2.

(* FINITE (about the regenerated constants).  small (observed) < large (hidden), both positive. *)
Theorem C09_init_cov_consts_ordered : (0 < SMALL_KALMAN_COV)%Qc /\ (SMALL_KALMAN_COV < LARGE_KALMAN_COV)%Qc.
Proof. exact init_cov_consts_ordered. Qed.
Print Assumptions C09_init_cov_consts_ordered.

(* FULL for obs_len = 2.  The gain of the specification (hence, by kalman_refines, of the batched
   code) solves the defining equation of the Kalman gain, K S = P H^T, whenever the innovation
   covariance S = H P H^T + r is non-singular. *)
Theorem C09_gain_equation_2 : forall (H Pp r : mat) (a b c d : Qc),
  innovation_cov H Pp r = [[a; b]; [c; d]] -> det1 [[a; b]; [c; d]] <> 0%Qc ->
  Forall (fun row => length row = 2) (mmul Pp (mtrans H)) ->
  mmul (gain H Pp r) (innovation_cov H Pp r) = mmul Pp (mtrans H).
Proof. exact gain_equation. Qed.
Print Assumptions C09_gain_equation_2.

(* FULL (velocity model, constants and matrices regenerated from the source).  A new feature:
   observed position, zero velocity, SMALL variance where observed and LARGE where hidden. *)
Theorem C09_new_feature_velocity : forall z0 z1 : Qc,
  feat_new (int_mat velocity_om) [z0; z1] =
  ([z0; z1; 0%Qc; 0%Qc],
   diag [SMALL_KALMAN_COV; SMALL_KALMAN_COV; LARGE_KALMAN_COV; LARGE_KALMAN_COV],
   [1%Qc; 1%Qc; 1%Qc; 1%Qc], []).
Proof. exact new_feature_velocity. Qed.
Print Assumptions C09_new_feature_velocity.

(* ---------------------------------------------------------------------------------- round 2 *)

(* FULL.  The shortcut operations the executable model uses are the field operations of Qc. *)
Theorem C09_shortcut_ops : forall x y : Qc,
  qmul x y = (x * y)%Qc /\ qadd x y = (x + y)%Qc /\ qsub x y = (x - y)%Qc.
Proof. exact (fun x y => conj (qmul_eq x y) (conj (qadd_eq x y) (qsub_eq x y))). Qed.
Print Assumptions C09_shortcut_ops.

(* FULL, EVERY size n (round 4; was _partial for n <= 4).  The permutation-expansion determinant,
   cofactors and adjugate of inv_n / det_n / cofactor_n as written give a TWO-sided inverse of every
   well-shaped n x n matrix with non-zero determinant. *)
Theorem C09_inv_n_correct : forall (A : mat) (n : nat), 1 <= n -> length A = n ->
  Forall (fun row => length row = n) A -> det1 A <> 0%Qc ->
  mmul A (inv1 A) = ident n /\ mmul (inv1 A) A = ident n.
Proof. exact inv_n_correct. Qed.
Print Assumptions C09_inv_n_correct.

(* FULL, all shapes.  The batched product of dot_n is associative and has the unit. *)
Theorem C09_mmul_assoc : forall (M X S : mat) (m : nat), X <> [] ->
  Forall (fun r => length r = length X) M -> Forall (fun r => length r = m) X ->
  mmul (mmul M X) S = mmul M (mmul X S).
Proof. exact mmul_assoc. Qed.
Print Assumptions C09_mmul_assoc.

Theorem C09_mmul_ident_r : forall (M : mat) (n : nat), Forall (fun r => length r = n) M -> mmul M (ident n) = M.
Proof. exact mmul_ident_r. Qed.
Print Assumptions C09_mmul_ident_r.

(* FULL, every obs_len.  The gain solves K S = P H^T whenever inv_n returns a left inverse of S. *)
Theorem C09_gain_equation_n : forall (H Pp r : mat) (n : nat),
  let S := innovation_cov H Pp r in
  S <> [] -> length S = n -> Forall (fun row => length row = n) (inv1 S) ->
  mmul (inv1 S) S = ident n ->
  Forall (fun row => length row = n) (mmul Pp (mtrans H)) ->
  mmul (gain H Pp r) S = mmul Pp (mtrans H).
Proof. exact gain_equation_n. Qed.
Print Assumptions C09_gain_equation_n.

(* FULL for obs_len 1..4, from det S <> 0 alone. *)
Theorem C09_gain_equation_upto4 : forall (H Pp r : mat) (n : nat),
  let S := innovation_cov H Pp r in
  1 <= n <= 4 -> length S = n -> Forall (fun row => length row = n) S -> det1 S <> 0%Qc ->
  Forall (fun row => length row = n) (mmul Pp (mtrans H)) ->
  mmul (gain H Pp r) S = mmul Pp (mtrans H).
Proof. exact gain_equation_upto4. Qed.
Print Assumptions C09_gain_equation_upto4.

(* FULL.  parity (inversion count) is the sign of the permutation: +1 on the identity and flipped
   by every adjacent transposition (the two facts that determine the sign). *)
Theorem C09_parity_identity : forall n : nat, parity (seq 0 n) = 1%Qc.
Proof. exact parity_identity. Qed.
Print Assumptions C09_parity_identity.

Theorem C09_parity_adjacent_swap : forall (l1 : list nat) (a b : nat) (l2 : list nat), a <> b ->
  parity (l1 ++ b :: a :: l2) = (- parity (l1 ++ a :: b :: l2))%Qc.
Proof. exact parity_adjacent_swap. Qed.
Print Assumptions C09_parity_adjacent_swap.

(* FINITE (n <= 5, kernel sweep over all 154 permutations).  The cycle-counting algorithm that
   filter.parity is written as equals the inversion-count sign used by the model's det_n. *)
Theorem C09_parity_cycles_inversions : forall (n : nat) (p : list nat), n <= 5 ->
  In p (permutations (seq 0 n)) -> parity_cycles p = parity p.
Proof. exact parity_cycles_inversions. Qed.
Print Assumptions C09_parity_cycles_inversions.

(* ---------------------------------------------------------------------------------- round 3 *)

(* FULL, every n.  det_n of the model IS the sum over permutations(range(n)) of prod_i m[i, p_i] *
   parity(p) (ldet on the entries), cofactor_n the same on the minor. *)
Theorem C09_det1_ldet : forall m : mat, det1 m = ldet (length m) (entry m).
Proof. exact det1_ldet. Qed.
Print Assumptions C09_det1_ldet.

Theorem C09_cofactor1_ldet : forall (m : mat) (i j : nat), i < length m ->
  cofactor1 m i j = ldet (pred (length m)) (minor (entry m) i j).
Proof. exact cofactor1_ldet. Qed.
Print Assumptions C09_cofactor1_ldet.

(* FULL, every n.  The permutation-expansion determinant changes sign under an adjacent row swap,
   vanishes when two rows are equal, expands along ANY row (Laplace), and the cofactors of one
   row against another row sum to zero. *)
Theorem C09_det_swap_rows : forall (i n : nat) (M : fmat), S i < n ->
  ldet n (fun a b => M (tau i a) b) = (- ldet n M)%Qc.
Proof. exact ldet_swap_rows. Qed.
Print Assumptions C09_det_swap_rows.

Theorem C09_det_equal_rows : forall (n d i : nat) (M : fmat), i + S d < n ->
  (forall b, M i b = M (i + S d) b) -> ldet n M = 0%Qc.
Proof. exact ldet_eq_rows. Qed.
Print Assumptions C09_det_equal_rows.

Theorem C09_det_laplace_row : forall (n k : nat) (M : fmat), k <= n ->
  ldet (S n) M = bigsum (fun j => (M k j * sgn (k + j) * ldet n (minor M k j))%Qc) (seq 0 (S n)).
Proof. exact ldet_row. Qed.
Print Assumptions C09_det_laplace_row.

Theorem C09_det_alien_cofactors : forall (n k i : nat) (M : fmat), k <= n -> i <= n -> i <> k ->
  bigsum (fun j => (M i j * sgn (k + j) * ldet n (minor M k j))%Qc) (seq 0 (S n)) = 0%Qc.
Proof. exact ldet_alien. Qed.
Print Assumptions C09_det_alien_cofactors.

(* FULL, every n.  A * adj(A) = det(A) * I in the model's own terms (cofactor_n with the sign
   (1 - ((i + j) % 2) * 2) of inv_n). *)
Theorem C09_adjugate : forall (A : mat) (n i k : nat), length A = S n -> i <= n -> k <= n ->
  bigsum (fun j => (entry A i j * (cofactor1 A k j * sgn (j + k)))%Qc) (seq 0 (S n)) =
  if Nat.eqb i k then det1 A else 0%Qc.
Proof. exact adjugate_row. Qed.
Print Assumptions C09_adjugate.

(* FULL, every n.  inv_n returns a right inverse. *)
Theorem C09_inv_n_right_inverse : forall (A : mat) (n : nat), 1 <= n -> length A = n ->
  Forall (fun row => length row = n) A -> det1 A <> 0%Qc -> mmul A (inv1 A) = ident n.
Proof. exact inv_n_right_inverse. Qed.
Print Assumptions C09_inv_n_right_inverse.

(* FULL, every n, symmetric matrices (the innovation covariance).  inv_n returns a left inverse. *)
Theorem C09_inv_n_left_inverse_sym : forall (S : mat) (n : nat), 1 <= n -> length S = n ->
  Forall (fun row => length row = n) S -> mtrans S = S -> det1 S <> 0%Qc -> mmul (inv1 S) S = ident n.
Proof. exact inv_n_left_inverse_sym. Qed.
Print Assumptions C09_inv_n_left_inverse_sym.

(* FULL, EVERY obs_len, no left-inverse hypothesis.  The gain solves K S = P H^T whenever the
   innovation covariance S = H P H^T + r is symmetric (it is for symmetric P and r) and non-singular. *)
Theorem C09_gain_equation_every_obs_len : forall (H Pp r : mat) (n : nat),
  let S := innovation_cov H Pp r in
  1 <= n -> length S = n -> Forall (fun row => length row = n) S -> mtrans S = S -> det1 S <> 0%Qc ->
  Forall (fun row => length row = n) (mmul Pp (mtrans H)) ->
  mmul (gain H Pp r) S = mmul Pp (mtrans H).
Proof. exact gain_equation_sym. Qed.
Print Assumptions C09_gain_equation_every_obs_len.

(* ---------------------------------------------------------------------------------- round 4 *)

(* FULL.  The sign of the inverse permutation, and det A^T = det A for the permutation expansion
   (sum re-indexed by p |-> p^-1). *)
Theorem C09_parity_inverse : forall (n : nat) (p : list nat), Permutation.Permutation p (seq 0 n) ->
  parity (pinv p) = parity p.
Proof. exact parity_pinv. Qed.
Print Assumptions C09_parity_inverse.

Theorem C09_det_transpose : forall (n : nat) (M : fmat), ldet n (fun a b => M b a) = ldet n M.
Proof. exact ldet_transpose. Qed.
Print Assumptions C09_det_transpose.

Theorem C09_det_n_transpose : forall (A : mat) (n : nat), 1 <= n -> length A = n ->
  Forall (fun row => length row = n) A -> det1 (mtrans A) = det1 A.
Proof. exact det1_mtrans. Qed.
Print Assumptions C09_det_n_transpose.

(* FULL, every obs_len, from det S <> 0 alone (no symmetry, no inverse hypothesis). *)
Theorem C09_gain_equation : forall (H Pp r : mat) (n : nat),
  let S := innovation_cov H Pp r in
  1 <= n -> length S = n -> Forall (fun row => length row = n) S -> det1 S <> 0%Qc ->
  Forall (fun row => length row = n) (mmul Pp (mtrans H)) ->
  mmul (gain H Pp r) S = mmul Pp (mtrans H).
Proof. exact gain_equation_full. Qed.
Print Assumptions C09_gain_equation.

(* FULL.  kalman_refines specialised to ONE track kept for ANY number of frames (no bound on the
   history length: the harness's age cap is a cost limit of the exact replay, not of the theorem). *)
Theorem C09_single_track_any_length : forall (s : kstate) (zs : list (vec * mat * mat)),
  wf s -> length (svec s) = 1 ->
  abs (run s (map track_frame zs)) = [fold_left (track_step (tm s) (om s)) zs (nth 0 (abs s) feat0)].
Proof. exact single_track_any_length. Qed.
Print Assumptions C09_single_track_any_length.

(* FULL.  The noise_var-free filter used to replay long tracks agrees with kalman_filter on every
   other field, for whole histories. *)
Theorem C09_lite_agrees_trace : forall (fs : list frame) (s s' : kstate), core s = core s' ->
  map core (run_trace_lite s fs) = map core (run_trace s' fs).
Proof. exact lite_agrees_trace. Qed.
Print Assumptions C09_lite_agrees_trace.

(* FULL.  KalmanState.predicted_state_vec / predicted_obs_vec, read by callers: A x and H A x of the
   feature's own state. *)
Theorem C09_predicted_obs_own : forall (s : kstate) (k : nat), k < length (svec s) ->
  nth k (predicted_state_vec s) [] = predict_x (tm s) (nth k (svec s) []) /\
  nth k (predicted_obs_vec s) [] = mvec (om s) (predict_x (tm s) (nth k (svec s) [])).
Proof. exact predicted_obs_own. Qed.
Print Assumptions C09_predicted_obs_own.
