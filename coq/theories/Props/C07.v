(* C07 — median filter is the exact masked octagonal percentile.  Property theorems: only
   statements, each closed by [exact], each followed by Print Assumptions.

   Model.Median.kernel is the line-level model of _filter.pyx c_median_filter (variant AsIs = the
   code as written, Fixed = sweeps driven by the bumped radius, finding F2); Spec.MedianSpec is
   the octagon ∩ image ∩ mask percentile and its checker. *)
From Coq Require Import ZArith List Bool Sorted Permutation.
From Centro Require Import Model.Median Spec.MedianSpec Proofs.MedianCheck Proofs.MedianHist
  Proofs.MedianGeom Proofs.MedianRank Proofs.MedianRefute.
Import ListNotations.
Open Scope Z_scope.

(* ---------------------------------------------------------------- specification and checker *)

(* The checker that is run on the implementation's outputs decides the specification. *)
Theorem C07_check_median_iff : forall data mask radius percent out,
  check_median data mask radius percent out = true <-> MedianSpec data mask radius percent out.
Proof. exact check_median_iff. Qed.
Print Assumptions C07_check_median_iff.

(* The window of the specification is octagon ∩ image ∩ mask. *)
Theorem C07_window_In : forall data mask radius i j v,
  In v (window data mask radius i j) <->
  exists y x, 0 <= y < img_rows data /\ 0 <= x < img_cols data /\ msk2 mask y x = true /\
              oct (oct_R radius) (oct_a2 radius) (y - i) (x - j) /\ v = dat2 data y x.
Proof. exact window_In. Qed.
Print Assumptions C07_window_In.

(* RankOf l r v says: v is element r (1-based) of the sorted window ... *)
Theorem C07_RankOf_sorted : forall l s r v,
  Permutation l s -> StronglySorted Z.le s -> 1 <= r <= Z.of_nat (length l) ->
  (RankOf l r v <-> v = nth (Z.to_nat (r - 1)) s 0).
Proof. exact RankOf_sorted. Qed.
Print Assumptions C07_RankOf_sorted.

(* ... and it determines v. *)
Theorem C07_RankOf_unique : forall l r v v', RankOf l r v -> RankOf l r v' -> v = v'.
Proof. exact RankOf_unique. Qed.
Print Assumptions C07_RankOf_unique.

(* ---------------------------------------------------------------- find_median_rank (Full) *)

(* On the 256-bin histogram of any window of k > 0 values the coarse-then-fine scan of
   find_median, with its uint32 pixels_below arithmetic, returns the value of 1-based rank
   max 1 floor((k*percent+50)/100); the fine bins need to be correct only in the block the coarse
   scan selects (they are updated lazily).  k < 65536: uint16 bin counts. *)
Theorem C07_find_median_rank : forall (vals : list Z) (percent : Z) (finef : Z -> list Z),
  Forall (fun v => 0 <= v < 256) vals -> vals <> [] -> Z.of_nat (length vals) < 65536 ->
  0 <= percent <= 100 ->
  (forall i, i = fst (cscan (coarse_of (hist_of vals)) 0 0 (fm_below (Z.of_nat (length vals)) percent)) ->
             block16 (finef i) i = block16 (hist_of vals) i) ->
  RankOf vals (rank_pos (Z.of_nat (length vals)) percent)
         (fm_select (coarse_of (hist_of vals)) finef (Z.of_nat (length vals)) percent).
Proof. exact find_median_rank. Qed.
Print Assumptions C07_find_median_rank.

(* The same about the model's find_median in any state whose accumulator holds the window. *)
Theorem C07_find_median_model_rank : forall (e : env) (s : st) (vals : list Z),
  Forall (fun v => 0 <= v < 256) vals -> vals <> [] -> Z.of_nat (length vals) < 65536 ->
  0 <= e_percent e <= 100 ->
  coarse (s_acc s) = coarse_of (hist_of vals) -> s_accn s = Z.of_nat (length vals) ->
  block16 (fine (s_acc (update_fine e s (fm_block e s)))) (fm_block e s) = block16 (hist_of vals) (fm_block e s) ->
  RankOf vals (rank_pos (Z.of_nat (length vals)) (e_percent e)) (snd (find_median e s)).
Proof. exact find_median_model_rank. Qed.
Print Assumptions C07_find_median_model_rank.

(* select2_flat: the two-level search equals one flat scan over the 256 bins. *)
Theorem C07_select2_flat : forall (vals : list Z) (percent : Z),
  Forall (fun v => 0 <= v < 256) vals -> vals <> [] -> Z.of_nat (length vals) < 65536 ->
  0 <= percent <= 100 ->
  fm_select (coarse_of (hist_of vals)) (fun _ => hist_of vals) (Z.of_nat (length vals)) percent =
  fscan (hist_of vals) 0 0 (fm_below (Z.of_nat (length vals)) percent).
Proof. exact fm_select_flat. Qed.
Print Assumptions C07_select2_flat.

(* ---------------------------------------------------------------- geom_octagon (Full) *)

Theorem C07_geom_octagon : forall radius, 1 <= radius ->
  let R := oct_R radius in let a2 := oct_a2 radius in
  1 <= a2 /\ a2 < R /\ radius <= R /\
  (2 <= radius -> R = radius) /\ (radius = 1 -> R = 2 /\ a2 = 1) /\
  a2 = Z.max 1 ((radius * 2000000 / 2414213) / 2) /\
  (forall di dj, oct R a2 di dj <-> Z.abs dj <= R /\ Z.abs di <= Z.min R (R + a2 - Z.abs dj)).
Proof. exact geom_octagon. Qed.
Print Assumptions C07_geom_octagon.

(* ---------------------------------------------------------------- sliding invariant (Partial)

   Full statement, NOT proved:
     forall data mask radius percent, rect rows cols data -> rect rows cols mask -> 1 <= radius ->
       0 <= percent <= 100 -> (all data in 0..255) -> (window area < 65536) ->
       MedianSpec data mask radius percent (kernel Fixed data mask radius percent).
   Missing lemma: acc_is_window_hist — after step_col at (row, c) the accumulator's coarse bins
   and count are those of window (row, c) and each slot of the circular buffer holds the
   histogram of its piece (the buffer bookkeeping: row_init clearing, the column guards of
   deaccumulate, the lazy fine update).  Proved below: every geometric fact that invariant
   rests on, for all radii and positions; the rank selection on top of it (above); plus a finite
   sweep.  The gap is covered by exact differential testing of the line-level model. *)

(* the geometry identity oct(c) = oct(c-1) ∪ lead(c) ∖ trail(c), as an exact multiset identity *)
Theorem C07_sliding_invariant_partial : forall R a2 dx dy, 1 <= a2 -> a2 < R ->
  (oct R a2 dy dx <-> (oct R a2 dy (dx + 1) /\ ~ trailing R a2 dx dy) \/ leading R a2 dx dy).
Proof. exact oct_slide. Qed.
Print Assumptions C07_sliding_invariant_partial.

Theorem C07_lead_fresh : forall R a2 dx dy, 1 <= a2 -> a2 < R ->
  leading R a2 dx dy -> oct R a2 dy dx /\ ~ oct R a2 dy (dx + 1).
Proof. exact lead_fresh. Qed.
Print Assumptions C07_lead_fresh.

Theorem C07_trail_inside : forall R a2 dx dy, 1 <= a2 -> a2 < R ->
  trailing R a2 dx dy -> oct R a2 dy (dx + 1) /\ ~ oct R a2 dy dx.
Proof. exact trail_inside. Qed.
Print Assumptions C07_trail_inside.

Theorem C07_pieces_disjoint : forall R a2 dx dy, 1 <= a2 -> a2 < R ->
  ~ (in_TR R a2 dx dy /\ in_ED R a2 dx dy) /\ ~ (in_TR R a2 dx dy /\ in_BR R a2 dx dy) /\
  ~ (in_ED R a2 dx dy /\ in_BR R a2 dx dy) /\
  ~ (in_TL R a2 dx dy /\ in_TE R a2 dx dy) /\ ~ (in_TL R a2 dx dy /\ in_BL R a2 dx dy) /\
  ~ (in_TE R a2 dx dy /\ in_BL R a2 dx dy).
Proof. exact pieces_disjoint. Qed.
Print Assumptions C07_pieces_disjoint.

(* each of the five per-column pieces at (row, c) is the piece of the same buffer slot one row
   earlier minus the (-) pixel plus the (+) pixel, with the model's ten stride coordinates *)
Theorem C07_piece_row_steps : forall (e : env) c row x y, 1 <= e_a2 e -> e_a2 e < e_R e ->
  let R := e_R e in let a2 := e_a2 e in
  (in_TL R a2 (x - c) (y - row) <->
   (in_TL R a2 (x - (c + 1)) (y - (row - 1)) /\ ~ at_off c row (sc_last_tl e) x y) \/ at_off c row (sc_tl e) x y) /\
  (in_BR R a2 (x - c) (y - row) <->
   (in_BR R a2 (x - (c + 1)) (y - (row - 1)) /\ ~ at_off c row (sc_last_br e) x y) \/ at_off c row (sc_br e) x y) /\
  (in_TR R a2 (x - c) (y - row) <->
   (in_TR R a2 (x - (c - 1)) (y - (row - 1)) /\ ~ at_off c row (sc_last_tr e) x y) \/ at_off c row (sc_tr e) x y) /\
  (in_BL R a2 (x - c) (y - row) <->
   (in_BL R a2 (x - (c - 1)) (y - (row - 1)) /\ ~ at_off c row (sc_last_bl e) x y) \/ at_off c row (sc_bl e) x y) /\
  (in_ED R a2 (x - c) (y - row) <->
   (in_ED R a2 (x - c) (y - (row - 1)) /\ ~ at_off c row (sc_last_le e) x y) \/ at_off c row (sc_le e) x y).
Proof. exact piece_row_steps. Qed.
Print Assumptions C07_piece_row_steps.

(* the circular indices follow the pieces; trailing edge = the leading edge of 2R+1 columns ago *)
Theorem C07_index_follow : forall (e : env) c row,
  tl_br e row c = tl_br e (row - 1) (c + 1) /\ tr_bl e row c = tr_bl e (row - 1) (c - 1) /\
  trail_ix e c = lead_ix e (c - 2 * e_R e - 1).
Proof. exact index_follow. Qed.
Print Assumptions C07_index_follow.

(* Fixed variant: within a row no two sweep columns share a buffer slot *)
Theorem C07_fixed_slots_distinct : forall data mask radius percent row c c', 1 <= radius ->
  let e := mk_env Fixed data mask radius percent in
  - e_sweep e <= c < e_cols e + e_sweep e -> - e_sweep e <= c' < e_cols e + e_sweep e ->
  (tl_br e row c = tl_br e row c' -> c = c') /\ (tr_bl e row c = tr_bl e row c' -> c = c') /\
  (lead_ix e c = lead_ix e c' -> c = c').
Proof. exact fixed_slots_distinct. Qed.
Print Assumptions C07_fixed_slots_distinct.

(* both variants: every histogram index is inside the allocated stripe *)
Theorem C07_index_in_buffer : forall (v : variant) data mask radius percent row c, 1 <= radius ->
  let e := mk_env v data mask radius percent in
  0 <= tl_br e row c < e_SL e /\ 0 <= tr_bl e row c < e_SL e /\
  0 <= lead_ix e c < e_SL e /\ 0 <= trail_ix e c < e_SL e.
Proof. exact index_in_buffer. Qed.
Print Assumptions C07_index_in_buffer.

(* Finite: the Fixed model meets the specification for every one of the 512 masks of a 3x3 image *)
Theorem C07_sliding_fixed_finite :
  forall m, In m (all_masks 9) -> forall radius percent, In (radius, percent) [(1, 50); (2, 0); (2, 100)] ->
  let mask := rows_of 3 m in
  MedianSpec sweep_data mask radius percent (kernel Fixed sweep_data mask radius percent).
Proof. exact sliding_fixed_finite. Qed.
Print Assumptions C07_sliding_fixed_finite.

(* ---------------------------------------------------------------- wrapper_exact (Full) *)

Theorem C07_rank_iso : forall u, StronglySorted Z.lt u -> forall x y, In x u -> In y u ->
  (x < y <-> (index_of x u < index_of y u)%nat).
Proof. exact rank_iso. Qed.
Print Assumptions C07_rank_iso.

Theorem C07_rank_transport : forall (u l : list Z) (r v' : Z),
  StronglySorted Z.lt u -> (forall x, In x l -> In x u) ->
  RankOf (map (rk u) l) r v' -> RankOf l r (unrk u v').
Proof. exact rank_transport. Qed.
Print Assumptions C07_rank_transport.

(* At most 255 distinct masked values (no decimation): if the kernel's output is the exact
   percentile of the rank image, the translated output is the exact percentile of the data. *)
Theorem C07_wrapper_exact : forall rows cols data mask radius percent o8,
  0 < rows -> rect rows cols data -> rect rows cols mask -> rect rows cols o8 ->
  let u := sort_u (masked_vals data mask) in
  MedianSpec (rank_image u data mask) mask radius percent o8 ->
  MedianSpec data mask radius percent (map (map (unrk u)) o8).
Proof. exact wrapper_exact. Qed.
Print Assumptions C07_wrapper_exact.

(* the model's wrapper is that composition on the ranked path ... *)
Theorem C07_wrapper_model_shape : forall v intlike data mask radius percent o,
  wrapper v intlike data mask radius percent = WOut true o ->
  let u := sort_u (masked_vals data mask) in
  (length u <= 255)%nat /\ o = map (map (unrk u)) (kernel v (rank_image u data mask) mask radius percent).
Proof. exact wrapper_model_shape. Qed.
Print Assumptions C07_wrapper_model_shape.

(* ... and the kernel on the masked image itself on the direct path, which is taken exactly when
   the dtype is integer and every MASKED pixel lies in 0..255 (values outside the mask play no role) *)
Theorem C07_wrapper_model_direct : forall v intlike data mask radius percent o,
  wrapper v intlike data mask radius percent = WOut false o ->
  o = data /\ forallb (forallb negb) mask = true \/
  intlike = true /\ Forall (fun x => 0 <= x <= 255) (masked_vals data mask) /\
  o = kernel v (map_img (fun d (m : bool) => if m then d else 0) data mask) mask radius percent.
Proof. exact wrapper_model_direct. Qed.
Print Assumptions C07_wrapper_model_direct.

(* More than 255 distinct values: under any merge f the statistic of the levels is the level of a
   window value (the checker verifies on the implementation's output that the merge is
   order-preserving and that each level is translated to one of its own values). *)
Theorem C07_merge_transport : forall (f : Z -> Z) (l : list Z) (r v' : Z),
  RankOf (map f l) r v' -> exists x, In x l /\ f x = v'.
Proof. exact merge_transport. Qed.
Print Assumptions C07_merge_transport.

(* ---------------------------------------------------------------- F2 *)

(* "the kernel meets the specification on every input" is refuted for the code as written
   (radius 1), while the variant whose sweeps use the bumped radius passes on the same input *)
Theorem C07_median_asis_refuted :
  exists data mask radius percent,
    1 <= radius /\ 0 <= percent <= 100 /\
    ~ MedianSpec data mask radius percent (kernel AsIs data mask radius percent) /\
    MedianSpec data mask radius percent (kernel Fixed data mask radius percent).
Proof. exact median_asis_refuted. Qed.
Print Assumptions C07_median_asis_refuted.
