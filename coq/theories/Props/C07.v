(* C07 — median filter is the exact masked octagonal percentile.  Property theorems: only
   statements, each closed by [exact], each followed by Print Assumptions.

   Model.Median.kernel is the line-level model of _filter.pyx c_median_filter (variant AsIs = the
   code as written, Fixed = sweeps driven by the bumped radius, finding F2); Spec.MedianSpec is
   the octagon ∩ image ∩ mask percentile and its checker. *)
From Coq Require Import ZArith List Bool Sorted Permutation.
From Centro Require Import Gen.MedianConstC07 Model.Median Spec.MedianSpec Proofs.MedianCheck Proofs.MedianHist
  Proofs.MedianGeom Proofs.MedianRank Proofs.MedianRefute Proofs.MedianSlide Proofs.MedianStep Proofs.MedianInv Proofs.MedianWrap Model.MedianAlloc Proofs.MedianAllocProofs Proofs.MedianWinSmall.
From Centro Require Model.VecC18 Model.RankC18.
Import ListNotations.
Open Scope Z_scope.

(* ---------------------------------------------------------------- specification and checker *)

(* The checker that is run on the implementation's outputs decides the specification. *)
Theorem C07_check_median_iff : forall data mask radius percent out,
  check_median data mask radius percent out = true <-> MedianSpec data mask radius percent out.
Proof. exact check_median_iff. Qed.
Print Assumptions C07_check_median_iff.

(* The window of the specification is octagon ∩ image ∩ mask. *)
Theorem C07_window_In : forall data mask radius i j v,
  In v (window data mask radius i j) <->
  exists y x, 0 <= y < img_rows data /\ 0 <= x < img_cols data /\ msk2 mask y x = true /\
              oct (oct_R radius) (oct_a2 radius) (y - i) (x - j) /\ v = dat2 data y x.
Proof. exact window_In. Qed.
Print Assumptions C07_window_In.

(* RankOf l r v says: v is element r (1-based) of the sorted window ... *)
Theorem C07_RankOf_sorted : forall l s r v,
  Permutation l s -> StronglySorted Z.le s -> 1 <= r <= Z.of_nat (length l) ->
  (RankOf l r v <-> v = nth (Z.to_nat (r - 1)) s 0).
Proof. exact RankOf_sorted. Qed.
Print Assumptions C07_RankOf_sorted.

(* ... and it determines v. *)
Theorem C07_RankOf_unique : forall l r v v', RankOf l r v -> RankOf l r v' -> v = v'.
Proof. exact RankOf_unique. Qed.
Print Assumptions C07_RankOf_unique.

(* ---------------------------------------------------------------- find_median_rank (Full) *)

(* On the 256-bin histogram of any window of k > 0 values the coarse-then-fine scan of
   find_median, with its uint32 pixels_below arithmetic, returns the value of 1-based rank
   max 1 floor((k*percent+50)/100); the fine bins need to be correct only in the block the coarse
   scan selects (they are updated lazily).  k < 65536: uint16 bin counts. *)
Theorem C07_find_median_rank : forall (vals : list Z) (percent : Z) (finef : Z -> list Z),
  Forall (fun v => 0 <= v < 256) vals -> vals <> [] -> Z.of_nat (length vals) < 65536 ->
  0 <= percent <= 100 ->
  (forall i, i = fst (cscan (coarse_of (hist_of vals)) 0 0 (fm_below (Z.of_nat (length vals)) percent)) ->
             block16 (finef i) i = block16 (hist_of vals) i) ->
  RankOf vals (rank_pos (Z.of_nat (length vals)) percent)
         (fm_select (coarse_of (hist_of vals)) finef (Z.of_nat (length vals)) percent).
Proof. exact find_median_rank. Qed.
Print Assumptions C07_find_median_rank.

(* The same about the model's find_median in any state whose accumulator holds the window. *)
Theorem C07_find_median_model_rank : forall (e : env) (s : st) (vals : list Z),
  Forall (fun v => 0 <= v < 256) vals -> vals <> [] -> Z.of_nat (length vals) < 65536 ->
  0 <= e_percent e <= 100 ->
  coarse (s_acc s) = coarse_of (hist_of vals) -> s_accn s = Z.of_nat (length vals) ->
  block16 (fine (s_acc (update_fine e s (fm_block e s)))) (fm_block e s) = block16 (hist_of vals) (fm_block e s) ->
  RankOf vals (rank_pos (Z.of_nat (length vals)) (e_percent e)) (snd (find_median e s)).
Proof. exact find_median_model_rank. Qed.
Print Assumptions C07_find_median_model_rank.

(* select2_flat: the two-level search equals one flat scan over the 256 bins. *)
Theorem C07_select2_flat : forall (vals : list Z) (percent : Z),
  Forall (fun v => 0 <= v < 256) vals -> vals <> [] -> Z.of_nat (length vals) < 65536 ->
  0 <= percent <= 100 ->
  fm_select (coarse_of (hist_of vals)) (fun _ => hist_of vals) (Z.of_nat (length vals)) percent =
  fscan (hist_of vals) 0 0 (fm_below (Z.of_nat (length vals)) percent).
Proof. exact fm_select_flat. Qed.
Print Assumptions C07_select2_flat.

(* ---------------------------------------------------------------- geom_octagon (Full) *)

Theorem C07_geom_octagon : forall radius, 1 <= radius ->
  let R := oct_R radius in let a2 := oct_a2 radius in
  1 <= a2 /\ a2 < R /\ radius <= R /\
  (2 <= radius -> R = radius) /\ (radius = 1 -> R = 2 /\ a2 = 1) /\
  a2 = Z.max 1 ((radius * 2000000 / 2414213) / 2) /\
  (forall di dj, oct R a2 di dj <-> Z.abs dj <= R /\ Z.abs di <= Z.min R (R + a2 - Z.abs dj)).
Proof. exact geom_octagon. Qed.
Print Assumptions C07_geom_octagon.

(* ---------------------------------------------------------------- sliding invariant (FULL)

   C07_sliding_invariant (below, after its layers): for every image, mask, radius >= 1, percent with
   uint8 unmasked pixels and fewer than 65536 unmasked pixels per window, the Fixed kernel's output
   satisfies MedianSpec; C07_sliding_invariant_asis: the same for the code as written, radius >= 2.
   Layers, each its own theorem: geometry (C07_sliding_invariant_partial = the identity oct(c) =
   oct(c-1) ∪ lead ∖ trail, name kept from round 1), exact histograms (C07_hist_col_step,
   C07_hist_row_steps), single operations (C07_update_loc_spec, C07_col_step_spec,
   C07_update_fine_spec), rank selection (C07_find_median_spec), loops (C07_kernel_inv). *)

(* the geometry identity oct(c) = oct(c-1) ∪ lead(c) ∖ trail(c), as an exact multiset identity *)
Theorem C07_sliding_invariant_partial : forall R a2 dx dy, 1 <= a2 -> a2 < R ->
  (oct R a2 dy dx <-> (oct R a2 dy (dx + 1) /\ ~ trailing R a2 dx dy) \/ leading R a2 dx dy).
Proof. exact oct_slide. Qed.
Print Assumptions C07_sliding_invariant_partial.

Theorem C07_lead_fresh : forall R a2 dx dy, 1 <= a2 -> a2 < R ->
  leading R a2 dx dy -> oct R a2 dy dx /\ ~ oct R a2 dy (dx + 1).
Proof. exact lead_fresh. Qed.
Print Assumptions C07_lead_fresh.

Theorem C07_trail_inside : forall R a2 dx dy, 1 <= a2 -> a2 < R ->
  trailing R a2 dx dy -> oct R a2 dy (dx + 1) /\ ~ oct R a2 dy dx.
Proof. exact trail_inside. Qed.
Print Assumptions C07_trail_inside.

Theorem C07_pieces_disjoint : forall R a2 dx dy, 1 <= a2 -> a2 < R ->
  ~ (in_TR R a2 dx dy /\ in_ED R a2 dx dy) /\ ~ (in_TR R a2 dx dy /\ in_BR R a2 dx dy) /\
  ~ (in_ED R a2 dx dy /\ in_BR R a2 dx dy) /\
  ~ (in_TL R a2 dx dy /\ in_TE R a2 dx dy) /\ ~ (in_TL R a2 dx dy /\ in_BL R a2 dx dy) /\
  ~ (in_TE R a2 dx dy /\ in_BL R a2 dx dy).
Proof. exact pieces_disjoint. Qed.
Print Assumptions C07_pieces_disjoint.

(* each of the five per-column pieces at (row, c) is the piece of the same buffer slot one row
   earlier minus the (-) pixel plus the (+) pixel, with the model's ten stride coordinates *)
Theorem C07_piece_row_steps : forall (e : env) c row x y, 1 <= e_a2 e -> e_a2 e < e_R e ->
  let R := e_R e in let a2 := e_a2 e in
  (in_TL R a2 (x - c) (y - row) <->
   (in_TL R a2 (x - (c + 1)) (y - (row - 1)) /\ ~ at_off c row (sc_last_tl e) x y) \/ at_off c row (sc_tl e) x y) /\
  (in_BR R a2 (x - c) (y - row) <->
   (in_BR R a2 (x - (c + 1)) (y - (row - 1)) /\ ~ at_off c row (sc_last_br e) x y) \/ at_off c row (sc_br e) x y) /\
  (in_TR R a2 (x - c) (y - row) <->
   (in_TR R a2 (x - (c - 1)) (y - (row - 1)) /\ ~ at_off c row (sc_last_tr e) x y) \/ at_off c row (sc_tr e) x y) /\
  (in_BL R a2 (x - c) (y - row) <->
   (in_BL R a2 (x - (c - 1)) (y - (row - 1)) /\ ~ at_off c row (sc_last_bl e) x y) \/ at_off c row (sc_bl e) x y) /\
  (in_ED R a2 (x - c) (y - row) <->
   (in_ED R a2 (x - c) (y - (row - 1)) /\ ~ at_off c row (sc_last_le e) x y) \/ at_off c row (sc_le e) x y).
Proof. exact piece_row_steps. Qed.
Print Assumptions C07_piece_row_steps.

(* the circular indices follow the pieces; trailing edge = the leading edge of 2R+1 columns ago *)
Theorem C07_index_follow : forall (e : env) c row,
  tl_br e row c = tl_br e (row - 1) (c + 1) /\ tr_bl e row c = tr_bl e (row - 1) (c - 1) /\
  trail_ix e c = lead_ix e (c - 2 * e_R e - 1).
Proof. exact index_follow. Qed.
Print Assumptions C07_index_follow.

(* Fixed variant: within a row no two sweep columns share a buffer slot *)
Theorem C07_fixed_slots_distinct : forall data mask radius percent row c c', 1 <= radius ->
  let e := mk_env Fixed data mask radius percent in
  - e_sweep e <= c < e_cols e + e_sweep e -> - e_sweep e <= c' < e_cols e + e_sweep e ->
  (tl_br e row c = tl_br e row c' -> c = c') /\ (tr_bl e row c = tr_bl e row c' -> c = c') /\
  (lead_ix e c = lead_ix e c' -> c = c').
Proof. exact fixed_slots_distinct. Qed.
Print Assumptions C07_fixed_slots_distinct.

(* both variants: every histogram index is inside the allocated stripe *)
Theorem C07_index_in_buffer : forall (v : variant) data mask radius percent row c, 1 <= radius ->
  let e := mk_env v data mask radius percent in
  0 <= tl_br e row c < e_SL e /\ 0 <= tr_bl e row c < e_SL e /\
  0 <= lead_ix e c < e_SL e /\ 0 <= trail_ix e c < e_SL e.
Proof. exact index_in_buffer. Qed.
Print Assumptions C07_index_in_buffer.

(* Finite: the Fixed model meets the specification for every one of the 512 masks of a 3x3 image *)
Theorem C07_sliding_fixed_finite :
  forall m, In m (all_masks 9) -> forall radius percent, In (radius, percent) [(1, 50); (2, 0); (2, 100)] ->
  let mask := rows_of 3 m in
  MedianSpec sweep_data mask radius percent (kernel Fixed sweep_data mask radius percent).
Proof. exact sliding_fixed_finite. Qed.
Print Assumptions C07_sliding_fixed_finite.

(* ---------------------------------------------------------------- layer A: exact histograms *)

Theorem C07_hist_col_step : forall e : env, 1 <= a2 e -> a2 e < R e -> forall (c row : Z) (q : Z -> bool),
  cnt e (Soct e c row) q =
  cnt e (Soct e (c - 1) row) q + cnt e (at_ (bTR e) c row) q + cnt e (at_ (bED e) c row) q +
  cnt e (at_ (bBR e) c row) q - cnt e (at_ (bTL e) c row) q - cnt e (at_ (bTE e) c row) q -
  cnt e (at_ (bBL e) c row) q.
Proof. exact hist_col_step. Qed.
Print Assumptions C07_hist_col_step.

Theorem C07_hist_col_start : forall e : env, a2 e < R e -> forall (row : Z) (q : Z -> bool),
  cnt e (Soct e (- R e - 1) row) q = 0.
Proof. exact hist_col_start. Qed.
Print Assumptions C07_hist_col_start.

Theorem C07_hist_row_steps : forall e : env, 1 <= e_a2 e -> e_a2 e < e_R e -> forall (c row : Z) (q : Z -> bool),
  cnt e (at_ (bTL e) c row) q = cnt e (at_ (bTL e) (c + 1) (row - 1)) q - pixv e (sc_last_tl e) c row q + pixv e (sc_tl e) c row q /\
  cnt e (at_ (bBR e) c row) q = cnt e (at_ (bBR e) (c + 1) (row - 1)) q - pixv e (sc_last_br e) c row q + pixv e (sc_br e) c row q /\
  cnt e (at_ (bTR e) c row) q = cnt e (at_ (bTR e) (c - 1) (row - 1)) q - pixv e (sc_last_tr e) c row q + pixv e (sc_tr e) c row q /\
  cnt e (at_ (bBL e) c row) q = cnt e (at_ (bBL e) (c - 1) (row - 1)) q - pixv e (sc_last_bl e) c row q + pixv e (sc_bl e) c row q /\
  cnt e (at_ (bED e) c row) q = cnt e (at_ (bED e) c (row - 1)) q - pixv e (sc_last_le e) c row q + pixv e (sc_le e) c row q.
Proof. exact hist_row_steps. Qed.
Print Assumptions C07_hist_row_steps.

(* ---------------------------------------------------------------- layer B: the model's operations *)

(* one column step preserves "accumulator = histogram of the window" *)
Theorem C07_col_step_spec : forall e : env, 1 <= e_a2 e -> e_a2 e < e_R e -> forall (s : st) (c : Z),
  let row := s_row s in
  SlotIs e (slot s (tr_bl e row c)) TR (at_ (bTR e) c row) ->
  SlotIs e (slot s (lead_ix e c)) ED (at_ (bED e) c row) ->
  SlotIs e (slot s (tl_br e row c)) BR (at_ (bBR e) c row) ->
  SlotIs e (slot s (tl_br e row c)) TL (at_ (bTL e) c row) ->
  SlotIs e (slot s (tr_bl e row c)) BL (at_ (bBL e) c row) ->
  (e_R e < c -> SlotIs e (slot s (trail_ix e c)) ED (at_ (bED e) (c - 2 * e_R e - 1) row)) ->
  hN e (Soct e c row) < M16 ->
  hN e (Soct e (c - 1) row) < M16 ->
  BinsAre 16 (coarse (s_acc s)) (hC e (Soct e (c - 1) row)) ->
  s_accn s = hN e (Soct e (c - 1) row) mod M32 ->
  let s' := deacc_coarse e (acc_coarse e s c) c in
  BinsAre 16 (coarse (s_acc s')) (hC e (Soct e c row)) /\
  s_accn s' = hN e (Soct e c row) mod M32 /\
  s_cols s' = s_cols s /\
  fine (s_acc s') = fine (s_acc s) /\ s_last s' = s_last s /\ s_row s' = s_row s /\ s_col s' = s_col s.
Proof. exact col_step_spec. Qed.
Print Assumptions C07_col_step_spec.

(* one row step re-establishes the five pieces of the current column *)
Theorem C07_update_loc_spec : forall e : env, 1 <= e_a2 e -> e_a2 e < e_R e -> Data8 e -> forall s : st,
  let c := s_col s in
  let row := s_row s in
  let tlo := tl_br e row c in
  let tro := tr_bl e row c in
  let leo := lead_ix e c in
  0 < e_SL e ->
  length (s_cols s) = Z.to_nat (e_SL e) ->
  SlotIs e (slot s tlo) TL (at_ (bTL e) (c + 1) (row - 1)) ->
  SlotIs e (slot s tro) TR (at_ (bTR e) (c - 1) (row - 1)) ->
  SlotIs e (slot s tro) BL (at_ (bBL e) (c - 1) (row - 1)) ->
  SlotIs e (slot s tlo) BR (at_ (bBR e) (c + 1) (row - 1)) ->
  SlotIs e (slot s leo) ED (at_ (bED e) c (row - 1)) ->
  let s' := update_loc e s in
  SlotIs e (slot s' tlo) TL (at_ (bTL e) c row) /\
  SlotIs e (slot s' tro) TR (at_ (bTR e) c row) /\
  SlotIs e (slot s' tro) BL (at_ (bBL e) c row) /\
  SlotIs e (slot s' tlo) BR (at_ (bBR e) c row) /\
  SlotIs e (slot s' leo) ED (at_ (bED e) c row) /\
  (forall (o' : Z) (k' : pname),
   0 <= o' ->
   ~ (o' = tlo /\ (k' = TL \/ k' = BR)) ->
   ~ (o' = tro /\ (k' = TR \/ k' = BL)) ->
   ~ (o' = leo /\ k' = ED) ->
   get_p k' (slot s' o') = get_p k' (slot s o') /\ get_n k' (slot s' o') = get_n k' (slot s o')) /\
  length (s_cols s') = length (s_cols s) /\
  s_acc s' = s_acc s /\
  s_accn s' = s_accn s /\ s_last s' = s_last s /\ s_row s' = s_row s /\ s_col s' = s_col s.
Proof. exact update_loc_spec. Qed.
Print Assumptions C07_update_loc_spec.

(* ---------------------------------------------------------------- layer C: lazy fine update, rank, loops *)

(* update_fine: the lazily replayed fine block equals the window's fine bins, nothing else moves *)
Theorem C07_update_fine_spec : forall e : env, 1 <= e_a2 e -> e_a2 e < e_R e ->
  e_SL e = e_cols e + 2 * e_R e + 1 -> 0 <= e_cols e ->
  (forall c row : Z, hN e (Soct e c row) < M16) ->
  forall (s : st) (row c f : Z),
  s_row s = row -> s_col s = c -> Slots e s row c -> c <= e_cols e + e_R e - 1 -> FineInv e s row c -> 0 <= f < 16 ->
  let s' := update_fine e s f in
  FineInv e s' row c /\ BlockIs s' f (hF e (Soct e c row)) /\
  s_cols s' = s_cols s /\ coarse (s_acc s') = coarse (s_acc s) /\ s_accn s' = s_accn s /\ s_row s' = row /\ s_col s' = c.
Proof. exact update_fine_spec. Qed.
Print Assumptions C07_update_fine_spec.

(* find_median in a state satisfying the invariant returns the window's percentile and keeps the invariant *)
Theorem C07_find_median_spec : forall e : env, 1 <= e_a2 e -> e_a2 e < e_R e -> Data8 e ->
  e_SL e = e_cols e + 2 * e_R e + 1 -> 0 <= e_cols e ->
  (forall c row : Z, hN e (Soct e c row) < M16) -> 0 <= e_percent e <= 100 ->
  forall (s : st) (row c : Z),
  s_row s = row -> s_col s = c -> c <= e_cols e + e_R e - 1 ->
  Slots e s row c -> AccInv e s row c -> FineInv e s row c ->
  let s' := fst (find_median e s) in
  let v := snd (find_median e s) in
  Slots e s' row c /\ AccInv e s' row c /\ FineInv e s' row c /\ s_row s' = row /\ s_col s' = c /\
  (ewin e row c <> nil ->
   RankOf (ewin e row c) (rank_pos (Z.of_nat (length (ewin e row c))) (e_percent e)) v).
Proof. exact find_median_spec. Qed.
Print Assumptions C07_find_median_spec.

(* kernel_inv: the two loops of c_median_filter (row_init clearing the entering slots, the zero
   buffer of the first row, slot distinctness within a row) — every output row is good *)
Theorem C07_kernel_inv : forall e : env, 1 <= e_a2 e -> e_a2 e < e_R e -> Data8 e ->
  e_sweep e = e_R e -> e_SL e = e_cols e + 2 * e_R e + 1 -> 0 <= e_cols e -> 0 <= e_rows e ->
  (forall c row : Z, hN e (Soct e c row) < M16) -> 0 <= e_percent e <= 100 ->
  let out := rev (snd (fold_left (do_row e) (zrange (- e_sweep e) (e_rows e)) (st0 e, nil))) in
  Z.of_nat (length out) = e_rows e /\
  (forall i : Z, 0 <= i < e_rows e -> RowGood e i (nth (Z.to_nat i) out nil)).
Proof. exact kernel_rows. Qed.
Print Assumptions C07_kernel_inv.

(* FULL: the kernel model's output is the masked octagonal percentile *)
Theorem C07_sliding_invariant : forall data mask radius percent,
  1 <= radius -> 0 <= percent <= 100 -> Masked8 data mask -> WinSmall mask (img_rows data) (img_cols data) radius ->
  let out := kernel Fixed data mask radius percent in
  MedianSpec data mask radius percent out /\
  Z.of_nat (length out) = img_rows data /\ Forall (fun r => Z.of_nat (length r) = img_cols data) out.
Proof. exact sliding_invariant. Qed.
Print Assumptions C07_sliding_invariant.

(* ... and so is the output of the code as written for every radius >= 2 *)
Theorem C07_sliding_invariant_asis : forall data mask radius percent,
  2 <= radius -> 0 <= percent <= 100 -> Masked8 data mask -> WinSmall mask (img_rows data) (img_cols data) radius ->
  MedianSpec data mask radius percent (kernel AsIs data mask radius percent).
Proof. exact sliding_invariant_asis. Qed.
Print Assumptions C07_sliding_invariant_asis.

(* the window-size premise holds for every image with fewer than 65536 pixels *)
Theorem C07_WinSmall_of_small_image : forall mask rows cols radius,
  0 <= rows -> 0 <= cols -> rows * cols < 65536 -> WinSmall mask rows cols radius.
Proof. exact WinSmall_of_small_image. Qed.
Print Assumptions C07_WinSmall_of_small_image.

(* the uint16 premise holds for every radius <= 127 (window inside the (2R+1)-square), so for the
   radii of the property the Full theorem needs no size premise; it is sharp further out: the
   octagon of radius 141 has 66145 points and the compiled kernel then returns 0 on a constant image *)
Theorem C07_WinSmall_of_radius : forall mask rows cols radius, 1 <= radius <= 127 -> WinSmall mask rows cols radius.
Proof. exact WinSmall_of_radius. Qed.
Print Assumptions C07_WinSmall_of_radius.

Theorem C07_sliding_invariant_asis_127 : forall data mask radius percent,
  2 <= radius <= 127 -> 0 <= percent <= 100 -> Masked8 data mask ->
  MedianSpec data mask radius percent (kernel AsIs data mask radius percent).
Proof. exact sliding_invariant_asis_127. Qed.
Print Assumptions C07_sliding_invariant_asis_127.

(* for radius >= 2 the code as written is the Fixed variant *)
Theorem C07_asis_is_fixed : forall data mask radius percent, 2 <= radius ->
  kernel AsIs data mask radius percent = kernel Fixed data mask radius percent.
Proof. exact asis_is_fixed. Qed.
Print Assumptions C07_asis_is_fixed.

(* Finite: the code as written meets the specification for every mask of 2x4, 4x2, 1x6, 6x1 images,
   radii 2, 3, 4, two percentiles (3 840 kernel runs inside Coq) *)
Theorem C07_sliding_asis_finite2 :
  forall h w, In (h, w) sweep2_shapes -> forall m, In m (all_masks (h * w)) ->
  forall radius percent, In (radius, percent) sweep2_cfg ->
  let data := chunk_data w h sweep_vals in let mask := chunk_rows w h m in
  MedianSpec data mask radius percent (kernel AsIs data mask radius percent).
Proof. exact sliding_asis_finite2. Qed.
Print Assumptions C07_sliding_asis_finite2.

(* ---------------------------------------------------------------- wrapper_exact (Full) *)

Theorem C07_rank_iso : forall u, StronglySorted Z.lt u -> forall x y, In x u -> In y u ->
  (x < y <-> (index_of x u < index_of y u)%nat).
Proof. exact rank_iso. Qed.
Print Assumptions C07_rank_iso.

Theorem C07_rank_transport : forall (u l : list Z) (r v' : Z),
  StronglySorted Z.lt u -> (forall x, In x l -> In x u) ->
  RankOf (map (rk u) l) r v' -> RankOf l r (unrk u v').
Proof. exact rank_transport. Qed.
Print Assumptions C07_rank_transport.

(* At most 255 distinct masked values (no decimation): if the kernel's output is the exact
   percentile of the rank image, the translated output is the exact percentile of the data. *)
Theorem C07_wrapper_exact : forall rows cols data mask radius percent o8,
  0 < rows -> rect rows cols data -> rect rows cols mask -> rect rows cols o8 ->
  let u := sort_u (masked_vals data mask) in
  MedianSpec (rank_image u data mask) mask radius percent o8 ->
  MedianSpec data mask radius percent (map (map (unrk u)) o8).
Proof. exact wrapper_exact. Qed.
Print Assumptions C07_wrapper_exact.

(* the model's wrapper is that composition on the ranked path with at most 255 distinct values ... *)
Theorem C07_wrapper_model_shape : forall v intlike orders data mask radius percent o,
  let u := sort_u (masked_vals data mask) in
  (length u <= 255)%nat ->
  wrapper v intlike orders data mask radius percent = WOut true o ->
  o = map (map (unrk u)) (kernel v (rank_image u data mask) mask radius percent).
Proof. exact wrapper_model_shape. Qed.
Print Assumptions C07_wrapper_model_shape.

(* ... with more values it runs b18's proven model of rank_order(data[mask], nbins=255) (C18:
   rank_order_bins_correct — monotone merge to <= 255 levels, table entries are input values) on
   the argsort orders recorded from the implementation ... *)
Theorem C07_wrapper_model_merged : forall v intlike orders data mask radius percent o,
  let mv := masked_vals data mask in
  (255 < length (sort_u mv))%nat ->
  wrapper v intlike orders data mask radius percent = WOut true o ->
  exists r tr, RankC18.rank_order_bins_with (RankC18.replay_oracle orders) (VecC18.argsort mv) mv 255 = Some (r, tr) /\
    o = map (map (fun x => nth (Z.to_nat x) tr 0)) (kernel v (fill_img mask (map Z.of_nat r)) mask radius percent).
Proof. exact wrapper_model_merged. Qed.
Print Assumptions C07_wrapper_model_merged.

(* ... and the kernel on the masked image itself on the direct path, which is taken exactly when
   the dtype is integer and every MASKED pixel lies in 0..255 (values outside the mask play no role) *)
Theorem C07_wrapper_model_direct : forall v intlike orders data mask radius percent o,
  wrapper v intlike orders data mask radius percent = WOut false o ->
  o = data /\ forallb (forallb negb) mask = true \/
  intlike = true /\ Forall (fun x => 0 <= x <= 255) (masked_vals data mask) /\
  o = kernel v (map_img (fun d (m : bool) => if m then d else 0) data mask) mask radius percent.
Proof. exact wrapper_model_direct. Qed.
Print Assumptions C07_wrapper_model_direct.

(* More than 255 distinct values: under any merge f the statistic of the levels is the level of a
   window value (the checker verifies on the implementation's output that the merge is
   order-preserving and that each level is translated to one of its own values). *)
Theorem C07_merge_transport : forall (f : Z -> Z) (l : list Z) (r v' : Z),
  RankOf (map f l) r v' -> exists x, In x l /\ f x = v'.
Proof. exact merge_transport. Qed.
Print Assumptions C07_merge_transport.

(* ---------------------------------------------------------------- median_filter_model_correct (FULL)

   The property's statement for the model of filter.median_filter that the correspondence ties to
   the code (AsIs kernel): every rectangular image and mask, radius >= 2, percent 0..100, fewer than
   65536 unmasked pixels per window, at most 255 distinct masked values, any dtype class (intlike or
   not), whichever path the wrapper takes (all-masked shortcut, direct, rank_order): the returned
   array is the exact masked octagonal percentile of the ORIGINAL values. *)
Theorem C07_median_filter_model_correct : forall intlike orders rows cols data mask radius percent b o,
  0 < rows -> rect rows cols data -> rect rows cols mask -> 2 <= radius -> 0 <= percent <= 100 ->
  WinSmall mask rows cols radius ->
  (length (sort_u (masked_vals data mask)) <= 255)%nat ->
  wrapper AsIs intlike orders data mask radius percent = WOut b o ->
  MedianSpec data mask radius percent o.
Proof. exact median_filter_model_correct. Qed.
Print Assumptions C07_median_filter_model_correct.

(* More than 255 distinct values: the output is the translation of the EXACT statistic of the merged
   level image L; L and the table are those of C18's proven model of rank_order(data[mask], 255)
   (C18_rank_order_bins_correct: monotone merge to <= 255 levels, table entries are input values). *)
Theorem C07_median_filter_model_merged : forall intlike orders data mask radius percent o,
  (255 < length (sort_u (masked_vals data mask)))%nat ->
  wrapper AsIs intlike orders data mask radius percent = WOut true o ->
  2 <= radius -> 0 <= percent <= 100 ->
  exists r tr, let L := fill_img mask (map Z.of_nat r) in
    RankC18.rank_order_bins_with (RankC18.replay_oracle orders) (VecC18.argsort (masked_vals data mask))
      (masked_vals data mask) 255 = Some (r, tr) /\
    o = map (map (fun x => nth (Z.to_nat x) tr 0)) (kernel AsIs L mask radius percent) /\
    (Masked8 L mask -> WinSmall mask (img_rows L) (img_cols L) radius -> MedianSpec L mask radius percent (kernel AsIs L mask radius percent)).
Proof. exact median_filter_model_merged. Qed.
Print Assumptions C07_median_filter_model_merged.

(* ---------------------------------------------------------------- F23: the 32-bit scratch size

   The theorems above are about the kernel's arithmetic on unbounded lists; the compiled code keeps
   the histograms in ONE malloc'ed block whose size is computed into `unsigned int memory_size`
   (Model.MedianAlloc, constants regenerated from _filter.cpp).  They carry over to the compiled
   code exactly for stripe_length = columns + 2*radius + 1 < 1573248: *)
Theorem C07_alloc_size_exact_below : forall columns radius, 0 <= columns -> 0 <= radius ->
  columns + 2 * radius + 1 < alloc_threshold ->
  alloc_size_asis columns radius = alloc_exact columns radius /\
  alloc_wraps columns radius = false /\
  alloc_need_max columns radius <= alloc_size_asis columns radius.
Proof. exact alloc_size_exact_below. Qed.
Print Assumptions C07_alloc_size_exact_below.

(* the bound is sharp: from 1573248 on the size wraps and the block is at least 4 GiB short *)
Theorem C07_alloc_size_short_above : forall columns radius, 0 <= columns -> 0 <= radius ->
  alloc_threshold <= columns + 2 * radius + 1 < M32 ->
  alloc_wraps columns radius = true /\ alloc_size_asis columns radius + M32 <= alloc_exact columns radius.
Proof. exact alloc_size_short_above. Qed.
Print Assumptions C07_alloc_size_short_above.

(* "the block covers what the kernel touches" is refuted for the code as written: 1 x 1573243,
   radius 2: malloc(600), and the first update_current_location writes edge slot 8, > 15 MB in *)
Theorem C07_alloc_size_wrap_refuted :
  exists columns radius, 1 <= columns /\ 2 <= radius /\
    let e := env_of_shape 1 columns radius 50 in
    let o := lead_ix e (- e_sweep e) in
    alloc_wraps columns radius = true /\ alloc_size_asis columns radius = 600 /\
    e_SL e = alloc_threshold /\ 0 <= o < e_SL e /\
    alloc_size_asis columns radius < gen_sz_histograms + e_SL e * gen_sz_pixelcount /\
    alloc_size_asis columns radius < slot_end columns radius o.
Proof. exact alloc_size_wrap_refuted. Qed.
Print Assumptions C07_alloc_size_wrap_refuted.

(* ---------------------------------------------------------------- F2 *)

(* "the kernel meets the specification on every input" is refuted for the code as written
   (radius 1), while the variant whose sweeps use the bumped radius passes on the same input *)
Theorem C07_median_asis_refuted :
  exists data mask radius percent,
    1 <= radius /\ 0 <= percent <= 100 /\
    ~ MedianSpec data mask radius percent (kernel AsIs data mask radius percent) /\
    MedianSpec data mask radius percent (kernel Fixed data mask radius percent).
Proof. exact median_asis_refuted. Qed.
Print Assumptions C07_median_asis_refuted.
