(* C07 — property theorems.  Only statements, each closed by [exact], each followed by
   Print Assumptions. *)
From Coq Require Import ZArith List Bool Sorted Permutation.
From Centro Require Import Model.Median Spec.MedianSpec Proofs.MedianCheck.
Import ListNotations.
Open Scope Z_scope.

(* The checker that is run on the implementation's outputs decides the specification. *)
Theorem C07_check_median_iff : forall data mask radius percent out,
  check_median data mask radius percent out = true <-> MedianSpec data mask radius percent out.
Proof. exact check_median_iff. Qed.
Print Assumptions C07_check_median_iff.

(* The window of the specification is octagon ∩ image ∩ mask. *)
Theorem C07_window_In : forall data mask radius i j v,
  In v (window data mask radius i j) <->
  exists y x, 0 <= y < img_rows data /\ 0 <= x < img_cols data /\ msk2 mask y x = true /\
              oct (oct_R radius) (oct_a2 radius) (y - i) (x - j) /\ v = dat2 data y x.
Proof. exact window_In. Qed.
Print Assumptions C07_window_In.

(* RankOf l r v says: v is element r (1-based) of the sorted window; it determines v. *)
Theorem C07_RankOf_sorted : forall l s r v,
  Permutation l s -> StronglySorted Z.le s -> 1 <= r <= Z.of_nat (length l) ->
  (RankOf l r v <-> v = nth (Z.to_nat (r - 1)) s 0).
Proof. exact RankOf_sorted. Qed.
Print Assumptions C07_RankOf_sorted.
