(* C01 — property theorems.  Only statements, each closed by [exact], each followed by
   Print Assumptions.  Costs are integers (dyadic floats scaled by 2^30; 2^-26 is 16). *)
From Coq Require Import ZArith List Bool.
From Centro Require Import Base.Sx Model.Lapjv Spec.Lapjv Proofs.LapjvCert Proofs.LapjvRefute Proofs.LapjvTrack
  Proofs.LapjvPhases Proofs.LapjvAbstract Proofs.LapjvGrid Proofs.LapjvArr Proofs.LapjvRows Proofs.LapjvTrackCost Proofs.LapjvRt Proofs.LapjvHall Proofs.LapjvBsearch Proofs.LapjvTrackLink Proofs.LapjvArrExt Proofs.LapjvExtModel Proofs.LapjvAugMarks Proofs.LapjvAugFlip Proofs.LapjvAugPred Proofs.LapjvAugRows Proofs.LapjvPerm Proofs.LapjvFixedPerm Proofs.LapjvAugFuel Proofs.LapjvAugPrice Proofs.LapjvAugStamps Proofs.LapjvAugOpt Proofs.LapjvAugDist Proofs.LapjvAugDistHyp Proofs.LapjvAugPriceExt Proofs.LapjvReserved Proofs.LapjvRefPerm Proofs.LapjvAugDistR Proofs.LapjvAugDistHypR Proofs.LapjvAugTotalR Proofs.LapjvRefTotal Proofs.LapjvReservedOpt Proofs.LapjvAugDistE Proofs.LapjvRefAll.
From Coq Require Floats.
From Centro Require Proofs.LapjvFloatStall.
Import ListNotations.
Open Scope Z_scope.

(* The checker that is run (extracted) on the implementation's own (x, y, u, v): for every n, every
   sparse triple list and every output, acceptance implies that x is a minimum-cost perfect matching
   over listed pairs, y its inverse, and (u, v) a dual certificate. *)
Theorem C01_cert_sound : forall n tri x y u v,
  cert_ok n tri x y u v = true -> Optimal n tri x /\ Inverse n x y /\ DualCert n tri x u v.
Proof. exact cert_sound. Qed.
Print Assumptions C01_cert_sound.

(* weak duality itself, for arbitrary (not necessarily list-represented) duals *)
Theorem C01_cert_optimal : forall n tri (u v : nat -> Z) x,
  PM n tri x -> dual_feasible tri u v -> slack n tri u v x ->
  forall sigma, PM n tri sigma -> total n tri x <= total n tri sigma.
Proof. exact cert_optimal_abs. Qed.
Print Assumptions C01_cert_optimal.

Theorem C01_pm_ok_sound : forall n tri x y, pm_ok n tri x y = true -> PM n tri x /\ Inverse n x y.
Proof. exact pm_ok_sound. Qed.
Print Assumptions C01_pm_ok_sound.

(* F1: the model of the code as written, (AsIs, 2^-26), returns a non-optimal matching on a
   well-formed 3x3 input that has a perfect matching; the Fixed variant is optimal on it. *)
Theorem C01_lapjv_asis_refuted :
  exists n tri, wf n tri /\ has_PM n tri /\
    (exists out, lapjv AsIs eps26 eps26 2 n tri = Some out /\ ~ Optimal n tri (x_of out)) /\
    (exists out, lapjv Fixed eps26 eps26 2 n tri = Some out /\ Optimal n tri (x_of out)).
Proof. exact lapjv_asis_refuted. Qed.
Print Assumptions C01_lapjv_asis_refuted.

(* F6: with the row offset repaired, the eps = 2^-26 tie band of augmenting row reduction still
   returns a non-optimal matching on a dense 2x2 input; without the band (eps 0 at :202), or with
   0 passes, the model is optimal on it. *)
Theorem C01_lapjv_eps_refuted :
  exists n tri, wf n tri /\ has_PM n tri /\
    (exists out, lapjv Fixed eps26 eps26 1 n tri = Some out /\ ~ Optimal n tri (x_of out)) /\
    (exists out, lapjv Fixed 0 eps26 1 n tri = Some out /\ Optimal n tri (x_of out)) /\
    (exists out, lapjv Fixed 0 0 1 n tri = Some out /\ Optimal n tri (x_of out)) /\
    (exists out, lapjv Fixed eps26 eps26 0 n tri = Some out /\ Optimal n tri (x_of out)).
Proof. exact lapjv_eps_refuted. Qed.
Print Assumptions C01_lapjv_eps_refuted.

(* the tracker: reading back any duplicate-free x (in particular a perfect matching) through
   from_detections_assignment and the label numbering gives a functional, injective map *)
Theorem C01_tracker_injective : forall n1 n2 x labs1 labs2,
  NoDup x -> NoDup labs1 -> NoDup labs2 -> (n1 <= length labs1)%nat -> (n2 <= length labs2)%nat ->
  Injective (track_numbers labs1 labs2 (track_readback n1 n2 x)).
Proof. exact track_injective. Qed.
Print Assumptions C01_tracker_injective.

Theorem C01_tracker_injective_pm : forall n tri x n1 n2 labs1 labs2,
  PM n tri x -> NoDup labs1 -> NoDup labs2 -> (n1 <= length labs1)%nat -> (n2 <= length labs2)%nat ->
  Injective (track_numbers labs1 labs2 (track_readback n1 n2 x)).
Proof. exact track_injective_pm. Qed.
Print Assumptions C01_tracker_injective_pm.

Theorem C01_track_ok_sound : forall ps, track_ok ps = true -> Injective ps.
Proof. exact track_ok_sound. Qed.
Print Assumptions C01_track_ok_sound.

(* identity clause at the level of the assignment problem: zero diagonal, non-negative costs,
   strictly positive off-diagonal costs in the m object rows => every optimal matching fixes the
   m objects.  _partial: that calculate_costs produces such a matrix for identical frames with
   pairwise distinct (centroid, area) is float arithmetic (sqrt) and is not proved; the check
   tests it on the identical-frame stream. *)
Theorem C01_tracker_identity_partial : forall n m tri,
  (m <= n)%nat ->
  (forall t, In t tri -> 0 <= t_c t) ->
  (forall i, (i < n)%nat -> cost tri i i = Some 0) ->
  (forall i j c, (i < m)%nat -> j <> i -> cost tri i j = Some c -> 0 < c) ->
  forall x, Optimal n tri x -> forall i, (i < m)%nat -> col x i = i.
Proof. exact tracker_identity. Qed.
Print Assumptions C01_tracker_identity_partial.

(* phase 1 of the model (lapjv.py:81-113): after column reduction the prices are dual feasible and
   every assigned row sits on a listed pair of reduced cost zero (invariant SlackV in v only) *)
Theorem C01_column_reduction_inv : forall n tri,
  (forall t, In t tri -> (t_j t < n)%nat ->
     exists c, gete (v_init n tri) (t_j t) = Fin c /\ 0 <= t_c t - c) /\
  (forall i j, getn (x_init n (min_i n tri)) i n = j -> j <> n ->
     (j < n)%nat /\ exists c, gete (v_init n tri) j = Fin c /\ In (i, j, c) tri).
Proof. exact column_reduction_inv. Qed.
Print Assumptions C01_column_reduction_inv.

(* any run of the model, in any variant, that passes the verified checker on its own output is optimal
   (this is the per-instance route by which the Fixed variants decide attribution of F1 / F6) *)
Theorem C01_model_certified_optimal : forall rt eps epsr k n tri,
  certified n tri (lapjv rt eps epsr k n tri) = true ->
  exists out, lapjv rt eps epsr k n tri = Some out /\ Optimal n tri (x_of out).
Proof. exact (fun rt eps epsr k n tri => certified_optimal n tri (lapjv rt eps epsr k n tri)). Qed.
Print Assumptions C01_model_certified_optimal.

(* phase 2 of the model, Fixed variant (:89-95): on finite prices the scan over the row's own (j, c)
   pairs returns a lower bound of every other candidate of that row - exactly the premise of
   reduction_transfer_fixed below, and exactly what the AsIs scan (other row's columns) lacks. *)
Theorem C01_rt_scan_fixed_bounds : forall j1 (vz : nat -> Z) v (row : list (nat * Z)) mu' at',
  (forall j, gete v j = Fin (vz j)) ->
  rt_scan j1 v (map fst row) (map Fin (map snd row)) PInf None = (mu', at') ->
  forall jt c, In (jt, c) row -> jt <> j1 -> exists m, mu' = Fin m /\ m <= c - vz jt.
Proof. exact rt_scan_fixed_bounds. Qed.
Print Assumptions C01_rt_scan_fixed_bounds.

(* phases 2-3 at the abstract level (prices as functions): a reduction transfer whose mu bounds the row's
   own other candidates, and a strict augmenting-row-reduction step, keep SlackV.
   _partial: the refinement from the array model (lists over ext, x as a list with n = unassigned) to these
   steps is proved for phase 1 and phase 3 (C01_phase1_inv, C01_arr_passes_inv below); for phase 2 only the scan
   (C01_rt_scan_fixed_bounds); phase 4 and lapjv_fixed_cert (wf -> has_PM -> cert_ok (lapjv Fixed 0 epsr k)) are not
   proved; the per-instance checker (C01_cert_sound, C01_model_certified_optimal) covers the gap.
   Instances of the hypotheses: Proofs.LapjvAbstract.reduction_transfer_fixed_example / arr_step_strict_example. *)
Theorem C01_reduction_transfer_fixed_partial : forall costf v x i j1 c1 mu,
  injective x -> SlackV costf v x -> x i = Some j1 -> costf i j1 = Some c1 ->
  (forall j' c', costf i j' = Some c' -> j' <> j1 -> mu <= red v j' c') ->
  red v j1 c1 <= mu ->
  SlackV costf (updv v j1 (mu - red v j1 c1)) x.
Proof. exact reduction_transfer_fixed. Qed.
Print Assumptions C01_reduction_transfer_fixed_partial.

Theorem C01_arr_step_strict_partial : forall costf v x i j1 c1 u2,
  SlackV costf v x -> x i = None -> costf i j1 = Some c1 ->
  (forall j' c', costf i j' = Some c' -> j' <> j1 -> u2 <= red v j' c') ->
  red v j1 c1 <= u2 ->
  forall x', (forall k, k <> i -> (x' k = x k /\ x k <> Some j1) \/ (x k = Some j1 /\ x' k = None)) -> x' i = Some j1 ->
  SlackV costf (updv v j1 (u2 - red v j1 c1)) x'.
Proof. exact arr_step_strict. Qed.
Print Assumptions C01_arr_step_strict_partial.

(* where the eps band cannot matter: all costs multiples of a grid step g > eps (e.g. integer costs, g = 2^30
   against 16) => the model with the band IS the model without it, in every variant, for every input.
   C01_lapjv_eps_refuted shows the grid hypothesis is necessary (2^-30 grid). *)
Theorem C01_eps_irrelevant_on_grid : forall g rt eps epsr k n tri,
  0 <= eps < g -> 0 <= epsr < g -> (forall t, In t tri -> (g | t_c t)) ->
  lapjv rt eps epsr k n tri = lapjv rt 0 0 k n tri.
Proof. exact eps_irrelevant_on_grid. Qed.
Print Assumptions C01_eps_irrelevant_on_grid.

(* The invariant of the ARRAY model (lists x, y with n = unassigned, y authoritative, prices over ext):
   Inv n rows x y v := lengths n, all prices finite, and every row assigned in y sits on a listed column of
   minimal reduced cost;  Pending n y l := l is duplicate-free and its rows are unassigned in y.
   Phase 1 (lapjv.py:81-113) establishes it on the model's own ragged rows ... *)
Theorem C01_phase1_inv : forall n tri,
  (forall t, In t tri -> (t_i t < n)%nat /\ (t_j t < n)%nat) ->
  (forall j, (j < n)%nat -> exists t, In t tri /\ t_j t = j) ->
  Inv n (rows_of n tri) (x_init n (min_i n tri)) (y_init n (x_init n (min_i n tri))) (v_init n tri) /\
  Pending n (y_init n (x_init n (min_i n tri))) (free_rows n (min_i n tri)).
Proof. exact phase1_inv. Qed.
Print Assumptions C01_phase1_inv.

(* ... and phase 3 (_lapjv.pyx:178-217, k passes, in-place work list, stale x entries, C locals) keeps it when
   the tie band is off (eps 0 at :202; any eps >= 0 at :208) - with the band on it does not (F6).
   Restriction: every row lists >= 2 candidates (so prices stay finite; single-candidate rows give -inf prices
   and need has_PM + a Hall argument - not proved).  Phase 2 between them is only covered by
   C01_rt_scan_fixed_bounds + the abstract step. *)
Theorem C01_arr_passes_inv : forall n tri,
  (forall t, In t tri -> (t_i t < n)%nat /\ (t_j t < n)%nat) ->
  NoDup (map fst tri) ->
  (forall i, (i < n)%nat -> (2 <= length (filter (fun t => (t_i t =? i)%nat) tri))%nat) ->
  forall epsr fuel k x y v ii x' y' v' ii', 0 <= epsr ->
  Inv n (rows_of n tri) x y v -> Pending n y ii ->
  arr_passes k fuel (Fin 0) (Fin epsr) n (rows_of n tri) (x, y, v, ii) = Some (x', y', v', ii') ->
  Inv n (rows_of n tri) x' y' v' /\ Pending n y' ii'.
Proof. exact arr_passes_inv_model. Qed.
Print Assumptions C01_arr_passes_inv.

(* tracker identity, cost side: the match cost (distance / scale + area_weight * area change) with the
   Euclidean distance abstract (non-negative, zero exactly on equal centroids; sqrt not modelled) is zero on
   identical detections and strictly positive when centroid or area differ - the hypotheses of
   C01_tracker_identity_partial on the object block. *)
Theorem C01_match_cost_self : forall (P : Type) (dist : P -> P -> QArith_base.Q),
  (forall p, QArith_base.Qeq (dist p p) (QArith_base.inject_Z 0)) ->
  forall scale weight, QArith_base.Qlt (QArith_base.inject_Z 0) scale ->
  forall p a, QArith_base.Qlt (QArith_base.inject_Z 0) a ->
  QArith_base.Qeq (match_cost P dist scale weight p a p a) (QArith_base.inject_Z 0).
Proof. exact match_cost_self. Qed.
Print Assumptions C01_match_cost_self.

Theorem C01_match_cost_pos : forall (P : Type) (dist : P -> P -> QArith_base.Q),
  (forall p q, QArith_base.Qle (QArith_base.inject_Z 0) (dist p q)) ->
  (forall p q, QArith_base.Qeq (dist p q) (QArith_base.inject_Z 0) -> p = q) ->
  forall scale weight, QArith_base.Qlt (QArith_base.inject_Z 0) scale -> QArith_base.Qlt (QArith_base.inject_Z 0) weight ->
  forall p1 a1 p2 a2, QArith_base.Qlt (QArith_base.inject_Z 0) a1 -> QArith_base.Qlt (QArith_base.inject_Z 0) a2 ->
  (p1 <> p2 \/ ~ QArith_base.Qeq a1 a2) ->
  QArith_base.Qlt (QArith_base.inject_Z 0) (match_cost P dist scale weight p1 a1 p2 a2).
Proof. exact match_cost_pos. Qed.
Print Assumptions C01_match_cost_pos.

(* phase 2 on the array model, Fixed variant (_lapjv.pyx:81-98 with the row offset): reduction transfer keeps Inv.
   Bookkeeping proved in Proofs.LapjvRt: rows still to process have u = 0 and reduced cost 0 on their column,
   x0 is injective on assigned columns, all reduced costs stay non-negative. *)
Theorem C01_phase12_inv : forall n tri,
  (forall t, In t tri -> (t_i t < n)%nat /\ (t_j t < n)%nat) ->
  (forall j, (j < n)%nat -> exists t, In t tri /\ t_j t = j) ->
  let rows := rows_of n tri in
  let x0 := x_init n (min_i n tri) in
  let uv := reduction_transfer Fixed n rows (jflat_of rows) x0 (one_rows n (min_i n tri)) (repeat (Fin 0) n) (v_init n tri) in
  Inv n rows x0 (y_init n x0) (snd uv) /\ Pending n (y_init n x0) (free_rows n (min_i n tri)).
Proof. exact phase12_inv. Qed.
Print Assumptions C01_phase12_inv.

(* phases 1-3 exactly as lapjv() chains them for (Fixed, eps 0 at :202, any eps >= 0 at :208, any k, any fuel):
   whenever augmenting row reduction returns, the state handed to augment satisfies Inv and the list of free rows is
   duplicate-free and genuinely unassigned.  (Still restricted to >= 2 candidates per row.) *)
Theorem C01_phases123_inv : forall n tri,
  (forall t, In t tri -> (t_i t < n)%nat /\ (t_j t < n)%nat) ->
  NoDup (map fst tri) ->
  (forall j, (j < n)%nat -> exists t, In t tri /\ t_j t = j) ->
  (forall i, (i < n)%nat -> (2 <= length (filter (fun t => (t_i t =? i)%nat) tri))%nat) ->
  forall epsr fuel k x y v ii, 0 <= epsr ->
  let rows := rows_of n tri in
  let mi := min_i n tri in
  let x0 := x_init n mi in
  let y0 := y_init n x0 in
  let uv := reduction_transfer Fixed n rows (jflat_of rows) x0 (one_rows n mi) (repeat (Fin 0) n) (v_init n tri) in
  match free_rows n mi with
  | [] => Some (x0, y0, snd uv, free_rows n mi)
  | _ => arr_passes k fuel (Fin 0) (Fin epsr) n rows (x0, y0, snd uv, free_rows n mi)
  end = Some (x, y, v, ii) ->
  Inv n rows x y v /\ Pending n y ii.
Proof. exact phases123_inv. Qed.
Print Assumptions C01_phases123_inv.

(* Phases 1-3 WITHOUT the ">= 2 candidates per row" restriction, under has_PM.  InvE n rows x y v: lengths n; every
   price is finite or -inf; every row assigned in y sits on a listed column which is minimal among its finite-priced
   candidates, x[y[j]] = j; a row sitting on a -inf column lists only -inf columns; a -inf column is assigned.
   That a free row always keeps a finite-priced candidate is the Hall argument (C01_hall_block via has_PM). *)
Theorem C01_arr_passes_inv_ext : forall n tri,
  (forall t, In t tri -> (t_i t < n)%nat /\ (t_j t < n)%nat) -> NoDup (map fst tri) -> has_PM n tri ->
  forall epsr fuel k x y v ii x' y' v' ii', 0 <= epsr ->
  InvE n (rows_of n tri) x y v -> Pending n y ii ->
  arr_passes k fuel (Fin 0) (Fin epsr) n (rows_of n tri) (x, y, v, ii) = Some (x', y', v', ii') ->
  InvE n (rows_of n tri) x' y' v' /\ Pending n y' ii'.
Proof. exact arr_passes_inv_ext_model. Qed.
Print Assumptions C01_arr_passes_inv_ext.

Theorem C01_phases123_inv_ext : forall n tri,
  (forall t, In t tri -> (t_i t < n)%nat /\ (t_j t < n)%nat) ->
  NoDup (map fst tri) ->
  (forall j, (j < n)%nat -> exists t, In t tri /\ t_j t = j) ->
  has_PM n tri ->
  forall epsr fuel k x y v ii, 0 <= epsr ->
  let rows := rows_of n tri in
  let mi := min_i n tri in
  let x0 := x_init n mi in
  let y0 := y_init n x0 in
  let uv := reduction_transfer Fixed n rows (jflat_of rows) x0 (one_rows n mi) (repeat (Fin 0) n) (v_init n tri) in
  match free_rows n mi with
  | [] => Some (x0, y0, snd uv, free_rows n mi)
  | _ => arr_passes k fuel (Fin 0) (Fin epsr) n rows (x0, y0, snd uv, free_rows n mi)
  end = Some (x, y, v, ii) ->
  InvE n rows x y v /\ Pending n y ii.
Proof. exact phases123_inv_ext. Qed.
Print Assumptions C01_phases123_inv_ext.

(* Hall-type block (used by C01_arr_passes_inv_ext through Proofs.LapjvExtModel.noblock_model): m+1 rows whose
   candidates all lie within m columns exclude a perfect matching. *)
Theorem C01_hall_block : forall n tri (L C : list nat),
  NoDup L -> (forall i, In i L -> (i < n)%nat) ->
  (forall i j c, In i L -> cost tri i j = Some c -> In j C) ->
  (length C < length L)%nat -> ~ has_PM n tri.
Proof. exact hall_block. Qed.
Print Assumptions C01_hall_block.

(* phase 4 pieces: the model's transcription of bsearch (_lapjv.pyx:470-482) finds every value present in a strictly
   increasing array within the fuel the model gives it, and on the model's own rows (sorted by lexsort((j, i)), no pair
   listed twice) the cost lookup of a listed column never takes the `None` exit. *)
Theorem C01_bsearch_found : forall js val, mono js -> forall fuel lo hi k,
  0 <= lo -> hi < Z.of_nat (length js) -> lo <= Z.of_nat k <= hi -> nth k js 0%nat = val ->
  (Z.to_nat (hi - lo + 1) <= fuel)%nat ->
  exists k', bsearch fuel js lo hi val = Some k' /\ nth k' js 0%nat = val /\ lo <= Z.of_nat k' <= hi.
Proof. exact bsearch_found. Qed.
Print Assumptions C01_bsearch_found.

Theorem C01_cost_at_listed : forall n tri i j c,
  NoDup (map fst tri) -> In (j, c) (row (rows_of n tri) i) ->
  exists c', cost_at (rowget (rows_of n tri) i) j = Some c' /\ In (j, c') (row (rows_of n tri) i).
Proof. exact cost_at_listed. Qed.
Print Assumptions C01_cost_at_listed.

(* the slackness loop that ends augment (:455-459) is defined (no bsearch `None`) whenever every x[i] is a listed
   column of row i - in particular for every perfect matching over listed pairs *)
Theorem C01_final_u_defined : forall n tri v, NoDup (map fst tri) -> forall x,
  length x = n -> (forall i, (i < n)%nat -> exists c, In (nth i x n, c) (row (rows_of n tri) i)) ->
  exists u, final_u (rows_of n tri) x v = Some u /\ length u = n.
Proof. exact final_u_defined. Qed.
Print Assumptions C01_final_u_defined.

(* Phase 4, C19-facing (importable from Proofs.LapjvAugMarks / Proofs.LapjvAugFlip).
   aug_marks_inv: for one free row r, whatever stamps earlier rows left: whenever the `while True` loop of augment
   returns, to_do is duplicate-free with columns < n (so n_to_do <= n at every write p_to_do[n_to_do]); ready ++ scan is
   duplicate-free with columns < n (so n_ready + (up - low) <= n at every write p_scan[up], p_ready[n_ready]); the done /
   on_to_do arrays keep length n; the exit column is < n and unassigned.  The loop invariant itself (stamps consistent with
   the lists at every loop head) is Proofs.LapjvAugMarks.aug_loop_marks with Marks. *)
Theorem C01_aug_marks_inv : forall (r n : nat) (rows : list (list (nat * ext))) (y : list nat) (v : list ext) (inf : ext),
  (forall i j c, In (j, c) (row rows i) -> (j < n)%nat) ->
  (forall i, NoDup (map fst (row rows i))) ->
  forall (ms : main_state) (s' : aug_state) (j1 : nat),
  length (m_done ms) = n -> length (m_ontodo ms) = n ->
  let row_r := rowget rows r in
  let '(d, ontodo, pred) := aug_init_row r v row_r (repeat inf n) (m_ontodo ms) (m_pred ms) in
  aug_loop (S (S n)) r n inf rows y v (mkAug d pred (m_done ms) ontodo (map fst row_r) [] [] inf) = Some (s', j1) ->
  Bounds n s' /\ (length (g_todo s') <= n)%nat /\ (length (g_ready s') + length (g_scan s') <= n)%nat /\
  (j1 < n)%nat /\ getn y j1 n = n.
Proof. exact aug_marks_inv. Qed.
Print Assumptions C01_aug_marks_inv.

(* aug_flip_chain: given that the predecessor links from the exit column form a chain of distinct rows < n ending in the
   free row r (chain_ok), the path-flipping loop terminates within |chain| iterations, uses only indices < n, keeps the
   lengths of x and y, leaves the x of rows outside the chain alone and assigns the first row of the chain to the exit
   column.  (Kept under its round-4 name; the premise chain_ok is now discharged by C01_aug_pred_chain and the full
   statement incl. partial inverses is C01_aug_flip_chain below.) *)
Theorem C01_aug_flip_chain_partial : forall (r n : nat) (pred chain : list nat) (j1 : nat) (x y : list nat) (fuel : nat),
  NoDup chain -> length x = n -> length y = n -> chain_ok r n pred x j1 chain -> (length chain <= fuel)%nat ->
  exists x' y', aug_flip fuel r pred j1 x y n = Some (x', y') /\ length x' = n /\ length y' = n /\
    (forall i, ~ In i chain -> getn x' i n = getn x i n) /\ getn x' (hd r chain) n = j1.
Proof. exact aug_flip_chain. Qed.
Print Assumptions C01_aug_flip_chain_partial.

(* Phase 4, the pred links (Proofs.LapjvAugPred, loop invariant PM = Marks + "pred[j] = r or y[j'] with j' earlier in ready"
   + "ready ++ scan columns are assigned"): whenever the Dijkstra loop of a free row returns, the links from the exit column
   form a chain_ok chain of distinct rows, no longer than the fuel S n of the flip loop; chain rows are r or assigned rows. *)
Theorem C01_aug_pred_chain : forall (r n : nat) (rows : list (list (nat * ext))) (x y : list nat) (v : list ext) (inf : ext),
  (forall i j c, In (j, c) (row rows i) -> (j < n)%nat) -> (forall i, NoDup (map fst (row rows i))) ->
  forall (ms : main_state) (s' : aug_state) (j1 : nat),
  length x = n -> length y = n -> (r < n)%nat -> free n y r -> PIh n x y None ->
  length (m_done ms) = n -> length (m_ontodo ms) = n -> length (m_pred ms) = n ->
  let row_r := rowget rows r in
  let '(d, ontodo, pred) := aug_init_row r v row_r (repeat inf n) (m_ontodo ms) (m_pred ms) in
  aug_loop (S (S n)) r n inf rows y v (mkAug d pred (m_done ms) ontodo (map fst row_r) [] [] inf) = Some (s', j1) ->
  (j1 < n)%nat /\ getn y j1 n = n /\ length (g_pred s') = n /\ length (g_done s') = n /\ length (g_ontodo s') = n /\
  exists chain, chain_ok r n (g_pred s') x j1 chain /\ NoDup chain /\ (length chain <= S n)%nat /\
    forall i, In i chain -> i = r \/ exists j', In j' (g_ready s') /\ (j' < n)%nat /\ i = getn y j' n /\ i <> n /\ getn x i n = j'.
Proof. exact aug_pred_chain. Qed.
Print Assumptions C01_aug_pred_chain.

(* C01_aug_flip_chain (Full): hence the flip loop of aug_row never runs out of fuel, and afterwards x / y are again partial
   inverses (PIh None: y[j] = i <> n -> i < n /\ x[i] = j), the free row r is assigned, the exit column is assigned, no
   column lost its row, and every other free row is still free. *)
Theorem C01_aug_flip_chain : forall (r n : nat) (rows : list (list (nat * ext))) (x y : list nat) (v : list ext) (inf : ext),
  (forall i j c, In (j, c) (row rows i) -> (j < n)%nat) -> (forall i, NoDup (map fst (row rows i))) ->
  forall (ms : main_state) (s' : aug_state) (j1 : nat),
  length x = n -> length y = n -> (r < n)%nat -> free n y r -> PIh n x y None ->
  length (m_done ms) = n -> length (m_ontodo ms) = n -> length (m_pred ms) = n ->
  let row_r := rowget rows r in
  let '(d, ontodo, pred) := aug_init_row r v row_r (repeat inf n) (m_ontodo ms) (m_pred ms) in
  aug_loop (S (S n)) r n inf rows y v (mkAug d pred (m_done ms) ontodo (map fst row_r) [] [] inf) = Some (s', j1) ->
  exists x' y', aug_flip (S n) r (g_pred s') j1 x y n = Some (x', y') /\ length x' = n /\ length y' = n /\
    PIh n x' y' None /\ (exists j, (j < n)%nat /\ getn y' j n = r) /\
    getn y' j1 n <> n /\ (forall j, getn y j n <> n -> getn y' j n <> n) /\
    (forall i', i' <> r -> free n y i' -> free n y' i') /\
    (forall j, getn y' j n = getn y j n \/ (getn y' j n = getn (g_pred s') j n /\ (In j (g_ready s') \/ j = j1))).
Proof. exact aug_flip_full. Qed.
Print Assumptions C01_aug_flip_chain.

(* over all free rows (the `for iii` loop of augment): St = arrays of length n + x / y partial inverses is kept, the rows
   still to process stay free, every processed row adds one assigned column.  (aug_row returning Some means its Dijkstra
   loop returned; the flip never fails.) *)
Theorem C01_aug_rows_struct : forall (n : nat) (rows : list (list (nat * ext))) (inf : ext),
  (forall i j c, In (j, c) (row rows i) -> (j < n)%nat) -> (forall i, NoDup (map fst (row rows i))) ->
  forall ii s sf, St n s -> Pending n (m_y s) ii ->
  fold_left (aug_row n inf rows) ii (Some s) = Some sf ->
  St n sf /\ (acnt n (m_y s) + length ii <= acnt n (m_y sf))%nat.
Proof. exact aug_rows_struct. Qed.
Print Assumptions C01_aug_rows_struct.

(* aug_scan_nonempty in conditional form (unconditional form under has_PM NOT proved, see Proofs.LapjvAugRows) *)
Theorem C01_aug_scan_nonempty_partial : forall r n inf rows y v fuel s res,
  aug_loop (S fuel) r n inf rows y v s = Some res ->
  forall s1, refill r n y inf s = (s1, None) -> g_scan s1 <> [].
Proof. exact aug_scan_nonempty. Qed.
Print Assumptions C01_aug_scan_nonempty_partial.

(* fuel of the Dijkstra loop: one column joins `ready` per iteration and |ready| <= n, so from a loop head with
   n < fuel + |ready| (in particular at the start of aug_row: fuel S (S n), ready empty) a None result is not the out-of-fuel
   exit - it is None at every larger fuel too (empty rebuild of scan, or failed cost lookup). *)
Theorem C01_aug_loop_fuel : forall (r n : nat) (rows : list (list (nat * ext))) (y : list nat) (v : list ext) (inf : ext),
  (forall i j c, In (j, c) (row rows i) -> (j < n)%nat) ->
  forall fuel s, Marks r n s -> (n < fuel + length (g_ready s))%nat ->
  aug_loop fuel r n inf rows y v s = None ->
  forall fuel', (fuel <= fuel')%nat -> aug_loop fuel' r n inf rows y v s = None.
Proof. exact aug_loop_fuel. Qed.
Print Assumptions C01_aug_loop_fuel.

(* Phase 4, the price update (:442-445) - the mathematical core of the augmentation on the array model, finite prices:
   given the Dijkstra facts DistInv (H1 d <= umin on ready, H2 d >= umin elsewhere, H3/H4 edge inequalities from r and from
   the rows of ready columns (H4 with the disjunct d[jh] = umin for the row whose scan the loop exited from), H5 tight pred links on ready and at the exit column, H6 d[j1] = umin), the updated prices
   together with any assignment whose pairs are old pairs or pred pairs at ready columns / j1 satisfy Inv again. *)
Theorem C01_aug_price_slack : forall (n : nat) (rows : list (list (nat * ext))) (r : nat) (x y : list nat) (v d : list ext)
    (pred ready : list nat) (mu : Z) (j1 : nat),
  (forall i j c, In (j, c) (row rows i) -> (j < n)%nat /\ exists z, c = Fin z) ->
  (forall i, NoDup (map fst (row rows i))) ->
  forall x' y', Inv n rows x y v -> (r < n)%nat -> DistInv n rows r y v d pred ready mu j1 ->
  NoDup ready -> (forall j, In j ready -> (j < n)%nat /\ (exists z, gete d j = Fin z) /\ getn y j n <> n) ->
  PIh n x' y' None -> length x' = n -> length y' = n ->
  (forall j i, (j < n)%nat -> getn y' j n = i -> i <> n ->
     getn y j n = i \/ (getn pred j n = i /\ (In j ready \/ j = j1))) ->
  Inv n rows x' y' (aug_prices d (Fin mu) ready v).
Proof. exact aug_price_slack. Qed.
Print Assumptions C01_aug_price_slack.

(* stamp hygiene: processing row r writes only r into done / on_to_do *)
Theorem C01_aug_loop_stamps : forall (r n : nat) (rows : list (list (nat * ext))) (y : list nat) (v : list ext) (inf : ext)
    fuel s s' j1, aug_loop fuel r n inf rows y v s = Some (s', j1) ->
  only_r r n (g_done s) (g_done s') /\ only_r r n (g_ontodo s) (g_ontodo s').
Proof. exact aug_loop_stamps. Qed.
Print Assumptions C01_aug_loop_stamps.

(* "returns => optimal", reduced to ONE named lemma.  DistHyp n rows inf is the STATEMENT of the missing aug_dist_inv: on
   every returning run of the Dijkstra loop of a free row (from a state with St, Inv and clean stamps) DistInv holds.  Under
   it: whenever the (Fixed, eps 0 at :202) model returns, x is a minimum-cost perfect matching (the duals
   u_i = c(i, x_i) - v(x_i), v certify it).  _partial: DistHyp itself is not proved (the traversal of aug_min / aug_relax /
   aug_loop with the distance facts; none of them needs the bound d <= sum(c)), and the finite-price premise
   (>= 2 candidates per row) is kept here. *)
Theorem C01_lapjv_fixed_optimal_if_returns_partial : forall n tri,
  (forall t, In t tri -> (t_i t < n)%nat /\ (t_j t < n)%nat) ->
  NoDup (map fst tri) ->
  (forall j, (j < n)%nat -> exists t, In t tri /\ t_j t = j) ->
  has_PM n tri ->
  (forall i, (i < n)%nat -> (2 <= length (filter (fun t => (t_i t =? i)%nat) tri))%nat) ->
  DistHyp n (rows_of n tri) (model_inf n tri) ->
  forall epsr k x y u v, 0 <= epsr ->
  lapjv Fixed 0 epsr k n tri = Some (x, y, u, v) -> Optimal n tri x.
Proof. exact lapjv_fixed_optimal_if_returns. Qed.
Print Assumptions C01_lapjv_fixed_optimal_if_returns_partial.

(* aug_dist_inv (round 8): DistHyp is a THEOREM.  Loop-head invariant K of Proofs.LapjvAugDist (umin <= inf; d finite; ready
   d <= umin; scan d = umin; other columns d >= umin; untouched columns d = inf; stamps exact; tight pred links; assigned),
   edge inequalities kept through monotonicity of d; no bound d <= sum(c) is used. *)
Theorem C01_aug_dist_inv : forall (n : nat) (rows : list (list (nat * ext))) (I : Z),
  (forall i j c, In (j, c) (row rows i) -> (j < n)%nat /\ exists z, c = Fin z) ->
  (forall i, NoDup (map fst (row rows i))) ->
  DistHyp n rows (Fin I).
Proof. exact aug_dist_inv. Qed.
Print Assumptions C01_aug_dist_inv.

(* "returns => optimal" (Full for inputs with >= 2 candidates per row): whenever the (Fixed, eps 0 at :202, any eps >= 0 at
   :208, any k) model returns, x is a minimum-cost perfect matching.  What remains per-instance only: that it returns
   (aug_scan_nonempty unconditional / the price bound), and rows with a single candidate (-inf prices). *)
Theorem C01_lapjv_fixed_optimal : forall n tri,
  (forall t, In t tri -> (t_i t < n)%nat /\ (t_j t < n)%nat) ->
  NoDup (map fst tri) ->
  (forall j, (j < n)%nat -> exists t, In t tri /\ t_j t = j) ->
  has_PM n tri ->
  (forall i, (i < n)%nat -> (2 <= length (filter (fun t => (t_i t =? i)%nat) tri))%nat) ->
  forall epsr k x y u v, 0 <= epsr ->
  lapjv Fixed 0 epsr k n tri = Some (x, y, u, v) -> Optimal n tri x.
Proof. exact lapjv_fixed_optimal. Qed.
Print Assumptions C01_lapjv_fixed_optimal.

(* the same with the eps band ON for costs on a grid coarser than eps (e.g. (Fixed, 2^-26) on integer costs) *)
Theorem C01_lapjv_fixed_optimal_grid : forall n tri g eps epsr k x y u v,
  (forall t, In t tri -> (t_i t < n)%nat /\ (t_j t < n)%nat) ->
  NoDup (map fst tri) ->
  (forall j, (j < n)%nat -> exists t, In t tri /\ t_j t = j) ->
  has_PM n tri ->
  (forall i, (i < n)%nat -> (2 <= length (filter (fun t => (t_i t =? i)%nat) tri))%nat) ->
  0 <= eps < g -> 0 <= epsr < g -> (forall t, In t tri -> (g | t_c t)) ->
  lapjv Fixed eps epsr k n tri = Some (x, y, u, v) -> Optimal n tri x.
Proof. exact lapjv_fixed_optimal_grid. Qed.
Print Assumptions C01_lapjv_fixed_optimal_grid.

(* Round 9, towards optimality WITH single-candidate rows (prices in Fin | -inf).  Two pieces are proved; the chain is not
   closed: (i) the price-update core lifted from Inv to InvE; (ii) the spec-level half: if the reserved (-inf) block is forced
   in every perfect matching and the live part has finite duals feasible on live columns and tight on x, x is optimal.
   Missing: the loop invariant K / aug_loop_dist over InvE, and "the reserved block is forced" (needs the order in which
   columns were reserved as part of InvE: row y[c_k] lists only c_1..c_k). *)
Theorem C01_aug_price_slack_ext_partial : forall (n : nat) (rows : list (list (nat * ext))),
  (forall i j c, In (j, c) (row rows i) -> (j < n)%nat /\ exists z, c = Fin z) ->
  (forall i, NoDup (map fst (row rows i))) ->
  forall (r : nat) (x y : list nat) (v d : list ext) (pred ready : list nat) (mu : Z) (j1 : nat) x' y',
  InvE n rows x y v -> (r < n)%nat -> DistInvE n rows r y v d pred ready mu j1 ->
  NoDup ready -> (forall j, In j ready -> (j < n)%nat /\ finp v j /\ (exists z, gete d j = Fin z) /\ getn y j n <> n) ->
  PIh n x' y' None -> length x' = n -> length y' = n ->
  (forall j i, (j < n)%nat -> getn y' j n = i -> i <> n ->
     getn y j n = i \/ (getn pred j n = i /\ (In j ready \/ j = j1))) ->
  (forall j, getn y j n <> n -> getn y' j n <> n) ->
  InvE n rows x' y' (aug_prices d (Fin mu) ready v).
Proof. exact aug_price_slack_ext. Qed.
Print Assumptions C01_aug_price_slack_ext_partial.

Theorem C01_optimal_with_reserved_spec : forall n tri x (dead : nat -> bool) (u v : nat -> Z),
  PM n tri x ->
  (forall sigma, PM n tri sigma -> forall i, (i < n)%nat -> dead (col x i) = true -> col sigma i = col x i) ->
  (forall i j z, (i < n)%nat -> cost tri i j = Some z -> dead (col x i) = false -> dead j = false -> 0 <= z - u i - v j) ->
  (forall i, (i < n)%nat -> dead (col x i) = false -> costz tri i (col x i) - u i - v (col x i) = 0) ->
  Optimal n tri x.
Proof. exact optimal_with_reserved. Qed.
Print Assumptions C01_optimal_with_reserved_spec.

(* towards "always returns": the cost lookup of a popped (assigned) column never fails ... *)
Theorem C01_aug_lookup_defined : forall n tri x y v j,
  (forall t, In t tri -> (t_i t < n)%nat /\ (t_j t < n)%nat) -> NoDup (map fst tri) ->
  InvE n (rows_of n tri) x y v -> (j < n)%nat -> getn y j n <> n ->
  exists c, cost_at (rowget (rows_of n tri) (getn y j n)) j = Some c.
Proof. exact aug_lookup_defined. Qed.
Print Assumptions C01_aug_lookup_defined.

(* ... but "always returns" is FALSE for the model as defined when the retry decision of augmenting row reduction has
   eps 0: kernel-evaluated witness (dense 4x4, 2^-30 grid, has a perfect matching) on which the price war outlasts the
   model's fuel.  So C01_lapjv_fixed_total can only be stated for epsr > 0 (the code's 2^-26) or with an existential fuel;
   it is not proved; the check evaluates "the Fixed model returns" on every generated case instead. *)
Theorem C01_lapjv_fixed_eps0_not_total :
  exists n tri k, wf n tri /\ has_PM n tri /\ lapjv Fixed 0 0 k n tri = None.
Proof. exact lapjv_fixed_eps0_not_total. Qed.
Print Assumptions C01_lapjv_fixed_eps0_not_total.

(* F20 (round 10): augment's sentinel `inf = np.sum(c) + 1` (:296) is NOT larger than every reduced cost.  Kernel-evaluated
   witness inside the property's quantifier (n = 4, unique perfect matching through three pairs of cost 14, 0 passes of
   augmenting row reduction): the faithful model's rebuild of scan is empty (None - the real code reads p_scan[low] past `up`
   and segfaults), while the same model with a true infinity (lapjv_ref) returns the optimum.  So "adequacy of inf" /
   the unconditional aug_scan_nonempty for the sentinel model could not be proved because it is false; memory safety of
   augment fails inside the quantifier. *)
Theorem C01_inf_sentinel_refuted :
  exists n tri k, wf n tri /\ has_PM n tri /\
    lapjv AsIs eps26 eps26 k n tri = None /\
    (exists out, lapjv_ref AsIs eps26 eps26 k n tri = Some out /\ Optimal n tri (x_of out)).
Proof. exact inf_sentinel_refuted. Qed.
Print Assumptions C01_inf_sentinel_refuted.

(* the reference variant (true infinity in augment) with the row offset repaired and the tie band off: whenever it returns,
   x is a perfect matching over listed pairs and x, y are mutually inverse permutations (same proof as C01_lapjv_fixed_pm:
   none of the structural proofs looks at the value of inf).  Optimality for lapjv_ref: C01_lapjv_ref_fixed_optimal below. *)
Theorem C01_lapjv_ref_fixed_pm : forall n tri,
  (forall t, In t tri -> (t_i t < n)%nat /\ (t_j t < n)%nat) ->
  NoDup (map fst tri) ->
  (forall j, (j < n)%nat -> exists t, In t tri /\ t_j t = j) ->
  has_PM n tri ->
  forall epsr k x y u v, 0 <= epsr ->
  lapjv_ref Fixed 0 epsr k n tri = Some (x, y, u, v) -> PM n tri x /\ Inverse n x y.
Proof. exact lapjv_ref_fixed_pm. Qed.
Print Assumptions C01_lapjv_ref_fixed_pm.

(* Round 11: the distance invariant ported to the reference variant (d in Fin | +inf; "d finite" is carried explicitly in the
   loop-head invariant Proofs.LapjvAugDistR.K, a finite relaxation always lowers an untouched +inf). *)
Theorem C01_aug_dist_invR : forall (n : nat) (rows : list (list (nat * ext))),
  (forall i j c, In (j, c) (row rows i) -> (j < n)%nat /\ exists z, c = Fin z) ->
  (forall i, NoDup (map fst (row rows i))) ->
  DistHyp n rows PInf.
Proof. exact aug_dist_invR. Qed.
Print Assumptions C01_aug_dist_invR.

(* "returns => optimal" for the reference variant (true infinity in augment), inputs with >= 2 candidates per row *)
Theorem C01_lapjv_ref_fixed_optimal : forall n tri,
  (forall t, In t tri -> (t_i t < n)%nat /\ (t_j t < n)%nat) ->
  NoDup (map fst tri) ->
  (forall j, (j < n)%nat -> exists t, In t tri /\ t_j t = j) ->
  has_PM n tri ->
  (forall i, (i < n)%nat -> (2 <= length (filter (fun t => (t_i t =? i)%nat) tri))%nat) ->
  forall epsr k x y u v, 0 <= epsr ->
  lapjv_ref Fixed 0 epsr k n tri = Some (x, y, u, v) -> Optimal n tri x.
Proof. exact lapjv_ref_fixed_optimal. Qed.
Print Assumptions C01_lapjv_ref_fixed_optimal.

Theorem C01_lapjv_ref_fixed_optimal_grid : forall n tri g eps epsr k x y u v,
  (forall t, In t tri -> (t_i t < n)%nat /\ (t_j t < n)%nat) ->
  NoDup (map fst tri) ->
  (forall j, (j < n)%nat -> exists t, In t tri /\ t_j t = j) ->
  has_PM n tri ->
  (forall i, (i < n)%nat -> (2 <= length (filter (fun t => (t_i t =? i)%nat) tri))%nat) ->
  0 <= eps < g -> 0 <= epsr < g -> (forall t, In t tri -> (g | t_c t)) ->
  lapjv_ref Fixed eps epsr k n tri = Some (x, y, u, v) -> Optimal n tri x.
Proof. exact lapjv_ref_fixed_optimal_grid. Qed.
Print Assumptions C01_lapjv_ref_fixed_optimal_grid.

(* aug_scan_nonempty for the reference variant, by the Hall-block argument: at a loop head satisfying the invariant K with the
   edge families Fd / Gd and an exhausted scan list, the rebuild (aug_min from +inf) returns a NON-EMPTY scan list whenever the
   row structure has no Hall block (has_PM gives this through C01_hall_block): every candidate of the free row and of the rows
   of ready columns has a finite d, hence is on to_do or in ready; if all to_do columns were done, |ready| + 1 rows would have
   all their candidates among |ready| columns.  So the read p_scan[low] after a rebuild is always inside the list.
   C01_lapjv_ref_augment_total below is derived from it. *)
Theorem C01_aug_scan_nonempty_ref : forall (r n : nat) (rows : list (list (nat * ext))) (x y : list nat) (v : list ext),
  (forall i j c, In (j, c) (row rows i) -> (j < n)%nat /\ exists z, c = Fin z) ->
  Inv n rows x y v ->
  (forall L C : list nat, NoDup L -> (forall i, In i L -> (i < n)%nat) ->
     (forall i j c, In i L -> In (j, c) (row rows i) -> In j C) -> (length L <= length C)%nat) ->
  forall s mu, FinV n v -> (r < n)%nat -> free n y r ->
  LapjvAugDistR.K r n rows y v s mu -> LapjvAugDistR.Fd r rows v (g_d s) -> LapjvAugDistR.Gd n rows y v (g_d s) (g_ready s) ->
  g_scan s = [] ->
  snd (aug_min r n (g_d s) (g_done s) (g_todo s) PInf []) <> [].
Proof. exact rebuild_nonempty. Qed.
Print Assumptions C01_aug_scan_nonempty_ref.

(* Round 12.  augment of the reference variant ALWAYS RETURNS under has_PM (inputs with >= 2 candidates per row): from
   whatever state phases 1-3 of the (Fixed, eps 0 at :202, any eps >= 0 at :208, any k) solver hand over, the fold of
   aug_row over the pending rows returns.  Per iteration of the Dijkstra loop (Proofs.LapjvAugDistR.aug_iterR): it returns,
   or it continues under the invariant with one more ready column (fuel n + 2 suffices), or it would fail - by an empty
   rebuild of scan, excluded by C01_aug_scan_nonempty_ref, or by an undefined cost lookup, excluded by C01_cost_at_listed;
   the flip loop returns by C01_aug_flip_chain. *)
Theorem C01_lapjv_ref_augment_total : forall n tri,
  (forall t, In t tri -> (t_i t < n)%nat /\ (t_j t < n)%nat) ->
  NoDup (map fst tri) ->
  (forall j, (j < n)%nat -> exists t, In t tri /\ t_j t = j) ->
  has_PM n tri ->
  (forall i, (i < n)%nat -> (2 <= length (filter (fun t => (t_i t =? i)%nat) tri))%nat) ->
  forall epsr k x2 y2 v2 ii, 0 <= epsr ->
  let rows := rows_of n tri in
  let mi := min_i n tri in
  let x0 := x_init n mi in
  let y0 := y_init n x0 in
  let uv := reduction_transfer Fixed n rows (jflat_of rows) x0 (one_rows n mi) (repeat (Fin 0) n) (v_init n tri) in
  match free_rows n mi with
  | [] => Some (x0, y0, snd uv, free_rows n mi)
  | _ => arr_passes k (arr_fuel n tri) (Fin 0) (Fin epsr) n rows (x0, y0, snd uv, free_rows n mi)
  end = Some (x2, y2, v2, ii) ->
  exists sf, fold_left (aug_row n PInf rows) ii
               (Some (mkMain x2 y2 v2 (repeat (Fin 0) n) (repeat 1%nat n) (repeat n n) (repeat n n))) = Some sf.
Proof. exact ref_augment_total_2. Qed.
Print Assumptions C01_lapjv_ref_augment_total.

(* the whole reference solver returns - PARTIAL: the one premise arr_returns_b (Model.Lapjv, executable, evaluated on every
   generated case by the check) says that the eps-retry passes of augmenting row reduction return within the model's fuel.
   Missing lemma: arr_passes_total (termination of the retry loop `while u1 < u2 - eps and k < n * augmenting_row_reductions`
   for epsr > 0; false for epsr = 0, C01_lapjv_fixed_eps0_not_total).  The premise is also necessary
   (C01_lapjv_ref_returns_arr). *)
Theorem C01_lapjv_ref_fixed_total_partial : forall n tri,
  (forall t, In t tri -> (t_i t < n)%nat /\ (t_j t < n)%nat) ->
  NoDup (map fst tri) ->
  (forall j, (j < n)%nat -> exists t, In t tri /\ t_j t = j) ->
  has_PM n tri ->
  forall epsr k, 0 <= epsr -> arr_returns_b epsr k n tri = true ->
  exists x y u v, lapjv_ref Fixed 0 epsr k n tri = Some (x, y, u, v).
Proof. exact lapjv_ref_fixed_total_all. Qed.
Print Assumptions C01_lapjv_ref_fixed_total_partial.

Theorem C01_lapjv_ref_returns_arr : forall n tri k epsr x y u v,
  lapjv_ref Fixed 0 epsr k n tri = Some (x, y, u, v) -> arr_returns_b epsr k n tri = true.
Proof. exact lapjv_ref_returns_arr. Qed.
Print Assumptions C01_lapjv_ref_returns_arr.

(* END TO END for the reference variant - the property's first sentence: for EVERY sparse input in range without duplicate
   pairs, with every column mentioned and a perfect matching (round 14: one-candidate rows included, the premise ">= 2
   candidates per row" is gone - Proofs.LapjvAugDistE, Proofs.LapjvRefAll), the (Fixed, eps 0, true infinity)
   solver RETURNS (x, y, u, v) with x a minimum-cost perfect matching over listed pairs and x, y mutually inverse
   permutations - under the same single premise arr_returns_b (missing lemma: arr_passes_total, see above). *)
Theorem C01_lapjv_ref_fixed_correct_partial : forall n tri,
  (forall t, In t tri -> (t_i t < n)%nat /\ (t_j t < n)%nat) ->
  NoDup (map fst tri) ->
  (forall j, (j < n)%nat -> exists t, In t tri /\ t_j t = j) ->
  has_PM n tri ->
  forall epsr k, 0 <= epsr -> arr_returns_b epsr k n tri = true ->
  exists x y u v, lapjv_ref Fixed 0 epsr k n tri = Some (x, y, u, v) /\ Optimal n tri x /\ Inverse n x y.
Proof. exact lapjv_ref_fixed_correct_all. Qed.
Print Assumptions C01_lapjv_ref_fixed_correct_partial.

(* the same with the eps band ON (the code's 2^-26 at :202 and :208) for costs on a grid coarser than eps, e.g. integers;
   the premise is then the one for eps 0 in the retry decision (for which it can fail: C01_lapjv_fixed_eps0_not_total) *)
Theorem C01_lapjv_ref_fixed_correct_grid_partial : forall n tri,
  (forall t, In t tri -> (t_i t < n)%nat /\ (t_j t < n)%nat) ->
  NoDup (map fst tri) ->
  (forall j, (j < n)%nat -> exists t, In t tri /\ t_j t = j) ->
  has_PM n tri ->
  forall g eps epsr k,
  0 <= eps < g -> 0 <= epsr < g -> (forall t, In t tri -> (g | t_c t)) -> arr_returns_b 0 k n tri = true ->
  exists x y u v, lapjv_ref Fixed eps epsr k n tri = Some (x, y, u, v) /\ Optimal n tri x /\ Inverse n x y.
Proof. exact lapjv_ref_fixed_correct_all_grid. Qed.
Print Assumptions C01_lapjv_ref_fixed_correct_grid_partial.

(* END TO END, FULL (no premise left), for augmenting_row_reductions = 0 - the setting of the F20 witness: for EVERY sparse
   input in range without duplicate pairs, with every column mentioned and a perfect matching - one-candidate rows and
   columns included - and any eps, the reference solver (row offset repaired, true infinity in augment) returns (x, y, u, v)
   with x a minimum-cost perfect matching over listed pairs and x, y mutually inverse permutations.  (With 0 passes the prices
   after reduction transfer are finite whatever the number of candidates, so the finite-price invariant Inv is available.) *)
Theorem C01_lapjv_ref_fixed_correct_k0 : forall n tri,
  (forall t, In t tri -> (t_i t < n)%nat /\ (t_j t < n)%nat) ->
  NoDup (map fst tri) ->
  (forall j, (j < n)%nat -> exists t, In t tri /\ t_j t = j) ->
  has_PM n tri ->
  forall eps epsr,
  exists x y u v, lapjv_ref Fixed eps epsr 0 n tri = Some (x, y, u, v) /\ Optimal n tri x /\ Inverse n x y.
Proof. exact ref_correct_k0. Qed.
Print Assumptions C01_lapjv_ref_fixed_correct_k0.

(* Round 13: one-candidate rows with k >= 1 passes.  The ORDER invariant on the reserved (-inf priced) block: the reserved
   columns can be listed newest first so that the row of each lists only that column and older ones (Proofs.LapjvArrExt.Ord;
   a column becomes reserved exactly when its new row has no other finite-priced candidate, and reserved columns are never
   reassigned).  It holds after phases 1-2 (no reserved column) and is preserved by augmenting row reduction. *)
Theorem C01_arr_passes_inv_ord : forall (n : nat) (rows : list (list (nat * ext))),
  (forall i j c, In (j, c) (row rows i) -> (j < n)%nat /\ exists z, c = Fin z) ->
  (forall i, NoDup (map fst (row rows i))) ->
  (forall L C : list nat, NoDup L -> (forall i, In i L -> (i < n)%nat) ->
     (forall i j c, In i L -> In (j, c) (row rows i) -> In j C) -> (length L <= length C)%nat) ->
  forall epsr fuel, 0 <= epsr -> forall k x y v ii x' y' v' ii',
  InvE n rows x y v -> Ord n rows y v -> Pending n y ii ->
  arr_passes k fuel (Fin 0) (Fin epsr) n rows (x, y, v, ii) = Some (x', y', v', ii') ->
  InvE n rows x' y' v' /\ Ord n rows y' v' /\ Pending n y' ii'.
Proof. exact arr_passes_inv_ord. Qed.
Print Assumptions C01_arr_passes_inv_ord.

(* hence the reserved block is FORCED: in every perfect matching the row of a reserved column is matched to it *)
Theorem C01_reserved_forced : forall n tri x y v,
  (forall t, In t tri -> (t_i t < n)%nat /\ (t_j t < n)%nat) ->
  InvE n (rows_of n tri) x y v -> Ord n (rows_of n tri) y v ->
  forall sigma, PM n tri sigma -> forall j, (j < n)%nat -> gete v j = NInf -> col sigma (getn y j n) = j.
Proof. exact reserved_forced. Qed.
Print Assumptions C01_reserved_forced.

(* optimality WITH reserved columns, closed at the level of the state invariant (was _partial with "forced" as a premise): a
   complete assignment that satisfies InvE (prices in Fin | -inf) and Ord is a minimum-cost perfect matching *)
Theorem C01_optimal_with_reserved : forall n tri x y v,
  (forall t, In t tri -> (t_i t < n)%nat /\ (t_j t < n)%nat) ->
  NoDup (map fst tri) ->
  InvE n (rows_of n tri) x y v -> Ord n (rows_of n tri) y v -> Inverse n x y ->
  Optimal n tri x.
Proof. exact inve_ord_optimal. Qed.
Print Assumptions C01_optimal_with_reserved.

(* END TO END, FULL, when phases 1-3 leave no pending row (executable condition arr_nofree_b): ANY rows - one-candidate
   rows included - and ANY number of passes: the reference solver returns an optimal perfect matching with inverse
   permutations.  What is still missing for one-candidate rows with k >= 1 is only the case where augment actually runs:
   the loop invariant K of Proofs.LapjvAugDistR over InvE (a reserved column has d = +inf and is a non-edge for the Dijkstra
   loop) and the preservation of InvE / Ord by aug_row; the Hall step then uses L = r :: rows of ready ++ rows of reserved
   columns (closed under candidates by InvE). *)
Theorem C01_lapjv_ref_fixed_correct_nofree : forall n tri,
  (forall t, In t tri -> (t_i t < n)%nat /\ (t_j t < n)%nat) ->
  NoDup (map fst tri) ->
  (forall j, (j < n)%nat -> exists t, In t tri /\ t_j t = j) ->
  has_PM n tri ->
  forall epsr k, 0 <= epsr -> arr_nofree_b epsr k n tri = true ->
  exists x y u v, lapjv_ref Fixed 0 epsr k n tri = Some (x, y, u, v) /\ Optimal n tri x /\ Inverse n x y.
Proof. exact ref_correct_nofree. Qed.
Print Assumptions C01_lapjv_ref_fixed_correct_nofree.

(* arr_passes_total is FALSE for the model's fuel, also for epsr = 2^-26 on an integer cost grid: a kernel-evaluated n = 4
   input with a perfect matching on which the price war of augmenting row reduction takes ~10^4 retries against a fuel of
   5160.  A limitation of the MODEL (its fuel does not scale with the cost range), not of the code: the real loop is
   unbounded, returns on this input and its answer is optimal. *)
Theorem C01_arr_fuel_not_total :
  exists n tri k, wf n tri /\ has_PM n tri /\ (forall t, In t tri -> (1073741824 | t_c t)) /\ arr_returns_b 16 k n tri = false.
Proof. exact arr_fuel_not_total. Qed.
Print Assumptions C01_arr_fuel_not_total.

(* Round 14: augment over states with prices in Fin | -inf.  The loop-head invariant K of the reference variant lifted from
   Inv to InvE (Proofs.LapjvAugDistE): it speaks about live (finite-priced) columns; reserved columns keep d = +inf, sit on
   to_do only as candidates of the free row, are picked up by aug_min only while umin = +inf and dropped at the first finite
   candidate, and are skipped by aug_relax.  The Hall step: at a rebuild some not-done to_do column has a finite d - otherwise
   L = r :: rows of ready ++ rows of reserved columns would have all candidates in C = ready ++ reserved. *)
Theorem C01_aug_scan_nonempty_ext : forall (r n : nat) (rows : list (list (nat * ext))) (x y : list nat) (v : list ext),
  (forall i j c, In (j, c) (row rows i) -> (j < n)%nat /\ exists z, c = Fin z) ->
  InvE n rows x y v ->
  (forall L C : list nat, NoDup L -> (forall i, In i L -> (i < n)%nat) ->
     (forall i j c, In i L -> In (j, c) (row rows i) -> In j C) -> (length L <= length C)%nat) ->
  (r < n)%nat -> free n y r ->
  forall s mu, LapjvAugDistE.K r n rows y v s mu -> LapjvAugDistE.Fd r rows v (g_d s) ->
  LapjvAugDistE.Gd n rows y v (g_d s) (g_ready s) -> g_scan s = [] ->
  exists j, In j (g_todo s) /\ getn (g_done s) j n <> r /\ LapjvAugDistR.fin (g_d s) j.
Proof. exact rebuild_finite. Qed.
Print Assumptions C01_aug_scan_nonempty_ext.

(* augment for all pending rows, from any state satisfying InvE + Ord: it returns, and InvE + Ord hold again *)
Theorem C01_aug_rows_all_ext : forall (n : nat) (rows : list (list (nat * ext))),
  (forall i j c, In (j, c) (row rows i) -> (j < n)%nat /\ exists z, c = Fin z) ->
  (forall i, NoDup (map fst (row rows i))) ->
  (forall L C : list nat, NoDup L -> (forall i, In i L -> (i < n)%nat) ->
     (forall i j c, In i L -> In (j, c) (row rows i) -> In j C) -> (length L <= length C)%nat) ->
  (forall i j c, In (j, c) (row rows i) -> cost_at (rowget rows i) j <> None) ->
  forall ii s,
  St n s -> InvE n rows (m_x s) (m_y s) (m_v s) -> Ord n rows (m_y s) (m_v s) -> Pending n (m_y s) ii -> Hyg n s ii ->
  exists sf, fold_left (aug_row n PInf rows) ii (Some s) = Some sf /\
    InvE n rows (m_x sf) (m_y sf) (m_v sf) /\ Ord n rows (m_y sf) (m_v sf).
Proof. exact aug_rows_allE. Qed.
Print Assumptions C01_aug_rows_all_ext.

(* Round 15, finding F35.  SCOPE OF ALL THEOREMS ABOVE: exact arithmetic on the cost grid (Model.Lapjv computes in
   ext = Fin Z | +inf | -inf | NaN; the check feeds the implementation dyadic costs on which binary64 is exact).  Outside that
   grid augmenting_row_reduction can stall: kernel-evaluated binary64 values (Coq primitive floats; the four constants are
   pinned by their exact mantissa / exponent) from the witness lapjv([0,0,0,1,1,1,2,2,2],[0,1,2,0,1,2,0,1,2],
   [1e16,.5,1,1e16,.5,1,1e16,0,0],True,1): v = 1e16, u1 = 0, u2 = 0.5, eps = 2^-26 - the strict branch `u1 + eps < u2` of
   _lapjv.pyx:202 is taken, and the update `v[j1] = v[j1] - u2 + u1` (evaluated (v - u2) + u1 as in the .pyx) returns v
   bit for bit; the code nevertheless re-queues the evicted row (`k -= 1; p_i[k] = i1`) and two rows evict each other forever.
   Print Assumptions lists the kernel's float / int63 primitives only. *)
Theorem C01_arr_float_stall_refuted :
  FloatOps.Prim2SF LapjvFloatStall.stall_v = SpecFloat.S754_finite false 5000000000000000%positive 1 /\
  FloatOps.Prim2SF LapjvFloatStall.stall_u1 = SpecFloat.S754_zero false /\
  FloatOps.Prim2SF LapjvFloatStall.stall_u2 = SpecFloat.S754_finite false 4503599627370496%positive (-53) /\
  FloatOps.Prim2SF LapjvFloatStall.stall_eps = SpecFloat.S754_finite false 4503599627370496%positive (-78) /\
  PrimFloat.ltb (PrimFloat.add LapjvFloatStall.stall_u1 LapjvFloatStall.stall_eps) LapjvFloatStall.stall_u2 = true /\
  PrimFloat.eqb (PrimFloat.add (PrimFloat.sub LapjvFloatStall.stall_v LapjvFloatStall.stall_u2) LapjvFloatStall.stall_u1)
                LapjvFloatStall.stall_v = true.
Proof. exact LapjvFloatStall.arr_float_stall. Qed.
Print Assumptions C01_arr_float_stall_refuted.

(* ... whereas in the exact model the same update strictly lowers the price - the fact the termination of the retry loop rests
   on; it does not transfer to binary64. *)
Theorem C01_arr_update_strict_exact : forall v u1 u2 eps : Z, 0 <= eps ->
  eltb (eadd (Fin u1) (Fin eps)) (Fin u2) = true ->
  exists v', eadd (esub (Fin v) (Fin u2)) (Fin u1) = Fin v' /\ v' < v.
Proof. exact LapjvFloatStall.arr_update_strict_exact. Qed.
Print Assumptions C01_arr_update_strict_exact.

(* completeness of phases 1-3 (every row is pending or assigned) ... *)
Theorem C01_phase1_comp : forall n tri,
  Comp n (y_init n (x_init n (min_i n tri))) (free_rows n (min_i n tri)).
Proof. exact phase1_comp. Qed.
Print Assumptions C01_phase1_comp.

Theorem C01_arr_passes_comp : forall (n : nat) (rows : list (list (nat * ext))),
  (forall i j c, In (j, c) (row rows i) -> (j < n)%nat) ->
  forall eps epsr fuel k x y v ii x' y' v' ii',
  length y = n -> Comp n y ii ->
  arr_passes k fuel eps epsr n rows (x, y, v, ii) = Some (x', y', v', ii') ->
  length y' = n /\ Comp n y' ii'.
Proof. exact arr_passes_comp. Qed.
Print Assumptions C01_arr_passes_comp.

(* ... and the structural half of lapjv_fixed_cert, end to end (Full): for the (Fixed, eps 0 at :202, any eps >= 0 at :208,
   any k) model, on every input with indices in range, no pair listed twice, every column mentioned and a perfect matching:
   WHENEVER lapjv() returns, x is a perfect matching over listed pairs and x, y are mutually inverse permutations.
   (Chain: phase1_inv/comp -> reduction transfer keeps Inv -> InvE + Pending + Comp through k passes of augmenting row
   reduction -> per free row: pred chain, flip keeps partial inverses, one more assigned column -> count -> pigeonhole;
   listedness from the closing slackness loop.)  Not covered: that it returns (aug_scan_nonempty, fuel) and the dual half. *)
Theorem C01_lapjv_fixed_pm : forall n tri,
  (forall t, In t tri -> (t_i t < n)%nat /\ (t_j t < n)%nat) ->
  NoDup (map fst tri) ->
  (forall j, (j < n)%nat -> exists t, In t tri /\ t_j t = j) ->
  has_PM n tri ->
  forall epsr k x y u v, 0 <= epsr ->
  lapjv Fixed 0 epsr k n tri = Some (x, y, u, v) -> PM n tri x /\ Inverse n x y.
Proof. exact lapjv_fixed_pm. Qed.
Print Assumptions C01_lapjv_fixed_pm.

(* the same with the eps band on, for costs on a grid coarser than eps (e.g. integer costs: g = 2^30 against 16) *)
Theorem C01_lapjv_fixed_pm_grid : forall n tri g eps epsr k x y u v,
  (forall t, In t tri -> (t_i t < n)%nat /\ (t_j t < n)%nat) ->
  NoDup (map fst tri) ->
  (forall j, (j < n)%nat -> exists t, In t tri /\ t_j t = j) ->
  has_PM n tri ->
  0 <= eps < g -> 0 <= epsr < g -> (forall t, In t tri -> (g | t_c t)) ->
  lapjv Fixed eps epsr k n tri = Some (x, y, u, v) -> PM n tri x /\ Inverse n x y.
Proof. exact lapjv_fixed_pm_grid. Qed.
Print Assumptions C01_lapjv_fixed_pm_grid.

(* tracker identity with the scaling link: integer costs z = q * s (s > 0) of rational costs q that vanish on the
   diagonal, are non-negative, and positive off the diagonal in the m object rows; and the match cost of
   Proofs.LapjvTrackCost has exactly these sign properties (C01_match_cost_block). *)
From Coq Require Import QArith.
Theorem C01_tracker_identity_scaled : forall n m tri (s : Z) (qc : nat -> nat -> Q),
  (m <= n)%nat -> (0 < s)%Z ->
  (forall t, In t tri -> (inject_Z (t_c t) == qc (t_i t) (t_j t) * inject_Z s)%Q) ->
  (forall i, (i < n)%nat -> cost tri i i <> None) ->
  (forall i j, (0 <= qc i j)%Q) ->
  (forall i, (i < n)%nat -> (qc i i == 0)%Q) ->
  (forall i j, (i < m)%nat -> j <> i -> (0 < qc i j)%Q) ->
  forall x, Optimal n tri x -> forall i, (i < m)%nat -> col x i = i.
Proof. exact tracker_identity_scaled. Qed.
Print Assumptions C01_tracker_identity_scaled.

Theorem C01_match_cost_block : forall (P : Type) (dist : P -> P -> Q) (scale weight : Q) (cen : nat -> P) (area : nat -> Q),
  (forall p q, (0 <= dist p q)%Q) -> (forall p, (dist p p == 0)%Q) -> (forall p q, (dist p q == 0)%Q -> p = q) ->
  (0 < scale)%Q -> (0 < weight)%Q -> (forall i, (0 < area i)%Q) ->
  (forall i j, i <> j -> cen i <> cen j \/ ~ (area i == area j)%Q) ->
  let qc := fun i j => match_cost P dist scale weight (cen i) (area i) (cen j) (area j) in
  (forall i j, (0 <= qc i j)%Q) /\ (forall i, (qc i i == 0)%Q) /\ (forall i j, j <> i -> (0 < qc i j)%Q).
Proof. exact match_cost_block. Qed.
Print Assumptions C01_match_cost_block.
