(* C13 — property theorems.  Only statements, each closed by [exact], each followed by
   Print Assumptions. *)
From Coq Require Import ZArith List Bool.
From Centro Require Import Base.VecC13 Proofs.VecC13Proofs.
Import ListNotations.
Open Scope Z_scope.

(* ---- the label-handling idioms (Base/VecC13.v), for every element type, zero and addition ---- *)

Theorem C13_bincount_group : forall (A : Type) (zero : A) (add : A -> A -> A) m pairs l,
  nonneg_labels pairs -> 0 <= l ->
  nth (Z.to_nat l) (bincount zero add m pairs) zero = group_fold zero add l pairs.
Proof. exact @bincount_group. Qed.
Print Assumptions C13_bincount_group.

Theorem C13_grouped_reduce_independent : forall (A : Type) (zero : A) (add : A -> A -> A) m m' ps qs l,
  nonneg_labels ps -> nonneg_labels qs -> 0 <= l -> Forall2 (agree_on l) ps qs ->
  nth (Z.to_nat l) (bincount zero add m ps) zero = nth (Z.to_nat l) (bincount zero add m' qs) zero.
Proof. exact @grouped_reduce_independent. Qed.
Print Assumptions C13_grouped_reduce_independent.

Theorem C13_bincount_relabel : forall (A : Type) (zero : A) (add : A -> A -> A) (f : Z -> Z) m m' ps l,
  (forall a b, f a = f b -> a = b) -> (forall a, 0 <= a -> 0 <= f a) ->
  nonneg_labels ps -> 0 <= l ->
  nth (Z.to_nat (f l)) (bincount zero add m' (relabel_pairs f ps)) zero =
  nth (Z.to_nat l) (bincount zero add m ps) zero.
Proof. exact @bincount_relabel. Qed.
Print Assumptions C13_bincount_relabel.

Theorem C13_anti_index_correct : forall n idxs k i,
  NoDup idxs -> (forall j, In j idxs -> 0 <= j) -> maxl idxs + 1 <= n ->
  nth_error idxs k = Some i ->
  nth (Z.to_nat i) (anti_table n idxs) 0 = Z.of_nat k.
Proof. exact anti_index_correct. Qed.
Print Assumptions C13_anti_index_correct.

Theorem C13_offsets_correct : forall (A : Type) (blocks : list (list A)) k b,
  nth_error blocks k = Some b ->
  exists off, nth_error (offsets (map zlen blocks)) k = Some off
              /\ segment (concat blocks) off (zlen b) = b.
Proof. exact @offsets_correct. Qed.
Print Assumptions C13_offsets_correct.

Theorem C13_table_idx_own_label : forall l im im' y x,
  mask l im = mask l im' -> get im y x = Some l ->
  table_idx_at im y x = table_idx_at im' y x.
Proof. exact table_idx_own_label. Qed.
Print Assumptions C13_table_idx_own_label.
