(* C13 — property theorems.  Only statements, each closed by [exact], each followed by
   Print Assumptions. *)
From Coq Require Import ZArith QArith List Bool.
From Centro Require Import Base.VecC13 Proofs.VecC13Proofs Model.MeasureC13 Proofs.MeasureC13Proofs Model.EllipseCoordsC13 Proofs.EllipseC13Proofs
  Proofs.PadC13Proofs Proofs.TranslateC13Proofs Proofs.EllipseRowsC13.
From Centro Require Model.Circle Model.CircleVec Model.Feret Proofs.CircleVecProofs Proofs.CircleVecStep Model.MecFeretC13 Proofs.MecFeretC13Proofs.
From Centro Require Model.Hull Proofs.HullBatch Model.HullAreaC13 Proofs.HullAreaC13Proofs Model.MedianC18 Spec.SpecC18 Proofs.MedianC13Proofs Model.IndexesC18 Proofs.IndexesC18Proofs.
Import ListNotations.
Open Scope Z_scope.

(* ---- the label-handling idioms (Base/VecC13.v), for every element type, zero and addition ---- *)

Theorem C13_bincount_group : forall (A : Type) (zero : A) (add : A -> A -> A) m pairs l,
  nonneg_labels pairs -> 0 <= l ->
  nth (Z.to_nat l) (bincount zero add m pairs) zero = group_fold zero add l pairs.
Proof. exact @bincount_group. Qed.
Print Assumptions C13_bincount_group.

Theorem C13_grouped_reduce_independent : forall (A : Type) (zero : A) (add : A -> A -> A) m m' ps qs l,
  nonneg_labels ps -> nonneg_labels qs -> 0 <= l -> Forall2 (agree_on l) ps qs ->
  nth (Z.to_nat l) (bincount zero add m ps) zero = nth (Z.to_nat l) (bincount zero add m' qs) zero.
Proof. exact @grouped_reduce_independent. Qed.
Print Assumptions C13_grouped_reduce_independent.

Theorem C13_bincount_relabel : forall (A : Type) (zero : A) (add : A -> A -> A) (f : Z -> Z) m m' ps l,
  (forall a b, f a = f b -> a = b) -> (forall a, 0 <= a -> 0 <= f a) ->
  nonneg_labels ps -> 0 <= l ->
  nth (Z.to_nat (f l)) (bincount zero add m' (relabel_pairs f ps)) zero =
  nth (Z.to_nat l) (bincount zero add m ps) zero.
Proof. exact @bincount_relabel. Qed.
Print Assumptions C13_bincount_relabel.

Theorem C13_anti_index_correct : forall n idxs k i,
  NoDup idxs -> (forall j, In j idxs -> 0 <= j) -> maxl idxs + 1 <= n ->
  nth_error idxs k = Some i ->
  nth (Z.to_nat i) (anti_table n idxs) 0 = Z.of_nat k.
Proof. exact anti_index_correct. Qed.
Print Assumptions C13_anti_index_correct.

Theorem C13_offsets_correct : forall (A : Type) (blocks : list (list A)) k b,
  nth_error blocks k = Some b ->
  exists off, nth_error (offsets (map zlen blocks)) k = Some off
              /\ segment (concat blocks) off (zlen b) = b.
Proof. exact @offsets_correct. Qed.
Print Assumptions C13_offsets_correct.

Theorem C13_table_idx_own_label : forall l im im' y x,
  mask l im = mask l im' -> get im y x = Some l ->
  table_idx_at im y x = table_idx_at im' y x.
Proof. exact table_idx_own_label. Qed.
Print Assumptions C13_table_idx_own_label.

(* ---- areas : scind.sum(ones, labels, indexes) ---- *)

(* (a) the entry of object l is the same in any two scenes in which l has the same pixels, whatever
   the other objects, the background and the two request lists are *)
Theorem C13_areas_independent : forall im im' idxs idxs' k k' l,
  mask l im = mask l im' -> nth_error idxs k = Some l -> nth_error idxs' k' = Some l ->
  nth_error (areas im idxs) k = nth_error (areas im' idxs') k'.
Proof. exact areas_independent. Qed.
Print Assumptions C13_areas_independent.

(* (b) renumbering the labels *)
Theorem C13_areas_relabel : forall f im idxs,
  injective f -> areas (relabel f im) (map f idxs) = areas im idxs.
Proof. exact areas_relabel. Qed.
Print Assumptions C13_areas_relabel.

(* (b) the request list only selects and orders *)
Theorem C13_areas_request : forall im idxs,
  areas im idxs = flat_map (fun l => areas im [l]) idxs.
Proof. exact areas_request. Qed.
Print Assumptions C13_areas_request.

(* ---- extents : calculate_extents as (area, bounding-box area) ---- *)

(* (a) the entry of object l is the same in any two scenes in which l has the same pixels, whatever
   the other objects, the background and the two request lists are *)
Theorem C13_extents_independent : forall im im' idxs idxs' k k' l,
  mask l im = mask l im' -> nth_error idxs k = Some l -> nth_error idxs' k' = Some l ->
  nth_error (extents im idxs) k = nth_error (extents im' idxs') k'.
Proof. exact extents_independent. Qed.
Print Assumptions C13_extents_independent.

(* (b) renumbering the labels *)
Theorem C13_extents_relabel : forall f im idxs,
  injective f -> extents (relabel f im) (map f idxs) = extents im idxs.
Proof. exact extents_relabel. Qed.
Print Assumptions C13_extents_relabel.

(* (b) the request list only selects and orders *)
Theorem C13_extents_request : forall im idxs,
  extents im idxs = flat_map (fun l => extents im [l]) idxs.
Proof. exact extents_request. Qed.
Print Assumptions C13_extents_request.

(* (c) the extent of an object is a function of its coordinate list (extent1_coords) that is
   invariant under translation *)
Theorem C13_extents_coords : forall im l, extent1 im l = extent_c (own_coords im l).
Proof. exact extent1_coords. Qed.
Print Assumptions C13_extents_coords.

Theorem C13_extents_translate : forall dy dx cs, extent_c (map (shift dy dx) cs) = extent_c cs.
Proof. exact extent_translate. Qed.
Print Assumptions C13_extents_translate.

(* ---- perimeters : calculate_perimeters in thousandths, scoring table regenerated from the source ---- *)

(* (a) the entry of object l is the same in any two scenes in which l has the same pixels, whatever
   the other objects, the background and the two request lists are *)
Theorem C13_perimeters_independent : forall im im' idxs idxs' k k' l,
  mask l im = mask l im' -> nth_error idxs k = Some l -> nth_error idxs' k' = Some l ->
  nth_error (perimeters im idxs) k = nth_error (perimeters im' idxs') k'.
Proof. exact perimeters_independent. Qed.
Print Assumptions C13_perimeters_independent.

(* (b) renumbering the labels *)
Theorem C13_perimeters_relabel : forall f im idxs,
  injective f -> perimeters (relabel f im) (map f idxs) = perimeters im idxs.
Proof. exact perimeters_relabel. Qed.
Print Assumptions C13_perimeters_relabel.

(* (b) the request list only selects and orders *)
Theorem C13_perimeters_request : forall im idxs,
  perimeters im idxs = flat_map (fun l => perimeters im [l]) idxs.
Proof. exact perimeters_request. Qed.
Print Assumptions C13_perimeters_request.

(* ---- skeleton_length : np.bincount(labels, score, minlength=max(indices)+1)[indices] ---- *)

Theorem C13_skeleton_length_independent : forall im im' idxs idxs' k k' l,
  nonneg_img im -> nonneg_img im' -> nonneg_list idxs -> nonneg_list idxs' ->
  mask l im = mask l im' -> nth_error idxs k = Some l -> nth_error idxs' k' = Some l ->
  exists r r', skeleton_length im idxs = Some r /\ skeleton_length im' idxs' = Some r'
               /\ nth_error r k = nth_error r' k'.
Proof. exact skeleton_length_independent. Qed.
Print Assumptions C13_skeleton_length_independent.

Theorem C13_skeleton_length_relabel : forall f im idxs,
  injective f -> (forall a, 0 <= a -> 0 <= f a) -> nonneg_img im -> nonneg_list idxs ->
  skeleton_length (relabel f im) (map f idxs) = skeleton_length im idxs.
Proof. exact skeleton_length_relabel. Qed.
Print Assumptions C13_skeleton_length_relabel.

Theorem C13_skeleton_length_request : forall im idxs,
  nonneg_img im -> nonneg_list idxs ->
  skeleton_length im idxs =
  Some (flat_map (fun l => match skeleton_length im [l] with Some r => r | None => [] end) idxs).
Proof. exact skeleton_length_request. Qed.
Print Assumptions C13_skeleton_length_request.

(* ---- euler_number : 4W from the bit-quad counts keyed by I00; labels are non-zero ---- *)

Theorem C13_euler_independent : forall im im' idxs idxs' k k' l,
  l <> 0 -> mask l im = mask l im' -> nth_error idxs k = Some l -> nth_error idxs' k' = Some l ->
  nth_error (euler4 im idxs) k = nth_error (euler4 im' idxs') k'.
Proof. exact euler_independent. Qed.
Print Assumptions C13_euler_independent.

Theorem C13_euler_relabel : forall f im idxs,
  injective f -> f 0 = 0 -> nonzero_list idxs -> euler4 (relabel f im) (map f idxs) = euler4 im idxs.
Proof. exact euler_relabel. Qed.
Print Assumptions C13_euler_relabel.

Theorem C13_euler_request : forall im idxs,
  euler4 im idxs = flat_map (fun l => euler4 im [l]) idxs.
Proof. exact euler_request. Qed.
Print Assumptions C13_euler_request.

(* ---- ellipse moments (m00, centre, a, b, c over Q) ----
   ell_c is the per-object, coordinate-level model; ellipse_moments is the as-written model
   (bincount over all labels, centring through ic[labels], zipped rows, gather). *)

(* ellipse_rows_nth: whenever the as-written model returns rows (the code does not raise) they are the
   coordinate-level rows of the requested objects ... *)
Theorem C13_ellipse_rows_nth : forall im idxs r,
  nonneg_img im -> (forall l, In l idxs -> 0 < l) ->
  ellipse_moments im idxs = EllRows r -> nzp im <> [] -> r = ells im idxs.
Proof. exact ellipse_rows_nth. Qed.
Print Assumptions C13_ellipse_rows_nth.

(* ... and it returns rows exactly inside the domain "every requested label <= largest label" *)
Theorem C13_ellipse_rows_defined : forall im idxs,
  nonneg_img im -> idxs <> [] -> nzp im <> [] ->
  (forall l, In l idxs -> 0 < l <= maxl (map p_v (nzp im))) ->
  ellipse_moments im idxs = EllRows (ells im idxs).
Proof. exact ellipse_rows_defined. Qed.
Print Assumptions C13_ellipse_rows_defined.

(* (c) translation: the central moments a, b, c and m00 are unchanged, the centre moves along *)
Theorem C13_ellipse_translate : forall dy dx cs,
  ell_c (map (shiftc dy dx) cs) = option_map (move dy dx) (ell_c cs).
Proof. exact ell_c_translate. Qed.
Print Assumptions C13_ellipse_translate.

Theorem C13_ellipse_independent : forall im im' idxs idxs' k k' l,
  mask l im = mask l im' -> nth_error idxs k = Some l -> nth_error idxs' k' = Some l ->
  nth_error (ells im idxs) k = nth_error (ells im' idxs') k'.
Proof. exact ells_independent. Qed.
Print Assumptions C13_ellipse_independent.

Theorem C13_ellipse_relabel : forall f im idxs,
  injective f -> ells (relabel f im) (map f idxs) = ells im idxs.
Proof. exact ells_relabel. Qed.
Print Assumptions C13_ellipse_relabel.

(* ---- (c) translation by zero padding (np.pad) for the pattern/quad measurements ---- *)

Theorem C13_perimeters_translate : forall t b lf r im idxs,
  nonzero_list idxs -> perimeters (pad t b lf r im) idxs = perimeters im idxs.
Proof. exact perimeters_translate. Qed.
Print Assumptions C13_perimeters_translate.

Theorem C13_skeleton_length_translate : forall t b lf r im idxs,
  nonneg_img im -> (forall i, In i idxs -> 0 < i) ->
  skeleton_length (pad t b lf r im) idxs = skeleton_length im idxs.
Proof. exact skeleton_length_translate. Qed.
Print Assumptions C13_skeleton_length_translate.

Theorem C13_euler_translate : forall t b lf r im idxs,
  rect im -> nonzero_list idxs -> euler4 (pad t b lf r im) idxs = euler4 im idxs.
Proof. exact euler_translate. Qed.
Print Assumptions C13_euler_translate.

(* the facts about np.pad they rest on *)
Theorem C13_pad_reads : forall t b lf r im y x,
  g (pad t b lf r im) (y + Z.of_nat t) (x + Z.of_nat lf) = g im y x.
Proof. exact pad_g. Qed.
Print Assumptions C13_pad_reads.

Theorem C13_pad_own_coords : forall t b lf r im l,
  l <> 0 -> own_coords (pad t b lf r im) l = map (shift (Z.of_nat t) (Z.of_nat lf)) (own_coords im l).
Proof. exact pad_own_coords. Qed.
Print Assumptions C13_pad_own_coords.

(* ---- median_of_labels: b18's as-written model (Model/MedianC18.v; include mask, anti-index table,
   lexsort, bincount(minlength), cumulative offsets) through median_of_labels_correct ---- *)

Theorem C13_median_independent : forall (image : list Z) labels idxs image' labels' idxs' k k' l,
  length image = length labels -> length image' = length labels' -> NoDup idxs -> NoDup idxs' ->
  SpecC18.sel image labels l = SpecC18.sel image' labels' l ->
  nth_error idxs k = Some l -> nth_error idxs' k' = Some l ->
  nth_error (MedianC18.median_of_labels image labels idxs) k =
  nth_error (MedianC18.median_of_labels image' labels' idxs') k'.
Proof. exact MedianC13Proofs.median_independent. Qed.
Print Assumptions C13_median_independent.

Theorem C13_median_relabel : forall (f : nat -> nat) (image : list Z) labels idxs,
  (forall a b, f a = f b -> a = b) -> length image = length labels -> NoDup idxs ->
  MedianC18.median_of_labels image (map f labels) (map f idxs) = MedianC18.median_of_labels image labels idxs.
Proof. exact MedianC13Proofs.median_relabel. Qed.
Print Assumptions C13_median_relabel.

Theorem C13_median_request : forall (image : list Z) labels idxs,
  length image = length labels -> NoDup idxs ->
  MedianC18.median_of_labels image labels idxs =
  flat_map (fun l => MedianC18.median_of_labels image labels [l]) idxs.
Proof. exact MedianC13Proofs.median_request. Qed.
Print Assumptions C13_median_request.

(* ---- the Indexes expansion used by feret_diameter (b18: Model/IndexesC18.v) ---- *)
Theorem C13_indexes_rowmajor : forall counts : list (list nat),
  counts <> [] -> (forall row, In row counts -> length row = length (hd [] counts)) ->
  IndexesC18.indexes counts = SpecC18.indexes_ref counts.
Proof. exact IndexesC18Proofs.indexes_rowmajor. Qed.
Print Assumptions C13_indexes_rowmajor.

(* ---- calculate_convex_hull_areas (and, divided into the area, calculate_solidity) ----
   HullAreaC13.hull_area_obj is the value of one object from its own hull vertices (mean point, +1
   fix-ups, triangle fan, modulo wrap), compared with the implementation on every generated object.
   Composition with C02's model of convex_hull_ijv: position r of the batch is that function of the rows
   of label indexes[r] only -- and of the kernel's buffer slack.  _partial: that the slack is irrelevant
   (C02 guard_irrelevant) is only proved finitely in C02, and the vectorised bookkeeping of the area
   loop itself (index_of_label, cumsum(counts_nd), modulo_mask) is tied by correspondence, not proved.
   minimum_enclosing_circle and feret_diameter: see the next block. *)
Theorem C13_hull_area_own_rows_partial : forall ijv indexes r,
  NoDup indexes -> (r < length indexes)%nat ->
  exists slack,
    nth r (HullAreaC13.hull_areas_rows (fst (Hull.convex_hull_ijv ijv indexes))) (0, 0%Q) =
    HullAreaC13.hull_area_obj
      (Hull.hull_label (Hull.zmax_list (map Hull.r_i (Hull.lexsort ijv)))
                       (map Hull.r_pt (HullBatch.sel (nth r indexes 0) (Hull.lexsort ijv))) slack).
Proof. exact HullAreaC13Proofs.hull_area_own_rows. Qed.
Print Assumptions C13_hull_area_own_rows_partial.

(* ---- minimum_enclosing_circle / feret_diameter: C14's models on the hull rows of C02's model ----
   MecFeretC13.mec_rows / feret_rows: per-object Chrystal iteration / antipodal sweep on each row of the call;
   mec_rows_vec: C14's vectorised bookkeeping model on the same rows.  On every generated scene the three are
   compared with the implementation and mec_rows_vec with mec_rows exactly.
   _partial: (1) C02's guard_irrelevant is finite, so the kernel's hull is a function of the label's own
   rows and the buffer slack; (2) for the vectorised loop C14 proves independence of a pass; the lift to the
   whole loop below assumes that every object's S0 / S1 stay among its own rows (missing lemma: owner is
   preserved by vstep; idle frame for finished objects when the loop lengths differ), and
   chrystal_vec = map chrystal is established by exact model-vs-model comparison only. *)
Theorem C13_mec_own_rows_partial : forall ijv indexes r,
  NoDup indexes -> (r < length indexes)%nat ->
  exists slack,
    nth r (MecFeretC13.mec_rows (fst (Hull.convex_hull_ijv ijv indexes))) (Circle.chrystal []) =
    Circle.chrystal (Hull.hull_label (Hull.zmax_list (map Hull.r_i (Hull.lexsort ijv)))
                                     (map Hull.r_pt (HullBatch.sel (nth r indexes 0) (Hull.lexsort ijv))) slack).
Proof. exact MecFeretC13Proofs.mec_own_rows. Qed.
Print Assumptions C13_mec_own_rows_partial.

Theorem C13_feret_own_rows_partial : forall ijv indexes r,
  NoDup indexes -> (r < length indexes)%nat ->
  exists slack,
    nth r (MecFeretC13.feret_rows (fst (Hull.convex_hull_ijv ijv indexes))) (Feret.sweep []) =
    Feret.sweep (Hull.hull_label (Hull.zmax_list (map Hull.r_i (Hull.lexsort ijv)))
                                 (map Hull.r_pt (HullBatch.sel (nth r indexes 0) (Hull.lexsort ijv))) slack).
Proof. exact MecFeretC13Proofs.feret_own_rows. Qed.
Print Assumptions C13_feret_own_rows_partial.

Theorem C13_mec_vec_passes_independent_partial : forall rows app n k m st st',
  (0 <= k < Z.of_nat n) -> CircleVecStep.samelen st st' -> CircleVecProofs.agree app k st st' ->
  (forall j k', (j < m)%nat -> 0 <= k' < Z.of_nat n ->
                CircleVecStep.owner app (MecFeretC13.vsteps rows app n j st) k') ->
  (forall j k', (j < m)%nat -> 0 <= k' < Z.of_nat n ->
                CircleVecStep.owner app (MecFeretC13.vsteps rows app n j st') k') ->
  CircleVecProofs.agree app k (MecFeretC13.vsteps rows app n m st) (MecFeretC13.vsteps rows app n m st').
Proof. exact MecFeretC13Proofs.mec_vec_passes_independent. Qed.
Print Assumptions C13_mec_vec_passes_independent_partial.
