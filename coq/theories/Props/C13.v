(* C13 — property theorems.  Only statements, each closed by [exact], each followed by
   Print Assumptions. *)
From Coq Require Import ZArith QArith List Bool.
From Centro Require Import Base.VecC13 Proofs.VecC13Proofs Model.MeasureC13 Proofs.MeasureC13Proofs Model.EllipseCoordsC13 Proofs.EllipseC13Proofs
  Proofs.PadC13Proofs Proofs.TranslateC13Proofs Proofs.EllipseRowsC13.
From Centro Require Model.Circle Model.CircleVec Model.Feret Proofs.CircleVecProofs Proofs.CircleVecStep Model.MecFeretC13 Proofs.MecFeretC13Proofs
  Spec.HullSpec Spec.MecSpec Spec.FeretSpec Spec.FeretBrute Proofs.OwnRowsC13 Proofs.PolygonDiscC13 Proofs.EndToEndC13 Proofs.MecVecOwnerC13 Proofs.MecVecInvC13 Proofs.MecVecSimC13 Proofs.HullBoundC13
  Proofs.FeretProofs Spec.FeretLower Proofs.FeretMinC13 Proofs.FeretConeC13 Model.HullAreaVecC13 Proofs.HullAreaVecC13Proofs.
From Centro Require Proofs.HullGuard Model.Hull Proofs.HullBatch Model.HullAreaC13 Proofs.HullAreaC13Proofs Model.MedianC18 Spec.SpecC18 Proofs.MedianC13Proofs Model.IndexesC18 Proofs.IndexesC18Proofs.
Import ListNotations.
Open Scope Z_scope.

(* ---- the label-handling idioms (Base/VecC13.v), for every element type, zero and addition ---- *)

Theorem C13_bincount_group : forall (A : Type) (zero : A) (add : A -> A -> A) m pairs l,
  nonneg_labels pairs -> 0 <= l ->
  nth (Z.to_nat l) (bincount zero add m pairs) zero = group_fold zero add l pairs.
Proof. exact @bincount_group. Qed.
Print Assumptions C13_bincount_group.

Theorem C13_grouped_reduce_independent : forall (A : Type) (zero : A) (add : A -> A -> A) m m' ps qs l,
  nonneg_labels ps -> nonneg_labels qs -> 0 <= l -> Forall2 (agree_on l) ps qs ->
  nth (Z.to_nat l) (bincount zero add m ps) zero = nth (Z.to_nat l) (bincount zero add m' qs) zero.
Proof. exact @grouped_reduce_independent. Qed.
Print Assumptions C13_grouped_reduce_independent.

Theorem C13_bincount_relabel : forall (A : Type) (zero : A) (add : A -> A -> A) (f : Z -> Z) m m' ps l,
  (forall a b, f a = f b -> a = b) -> (forall a, 0 <= a -> 0 <= f a) ->
  nonneg_labels ps -> 0 <= l ->
  nth (Z.to_nat (f l)) (bincount zero add m' (relabel_pairs f ps)) zero =
  nth (Z.to_nat l) (bincount zero add m ps) zero.
Proof. exact @bincount_relabel. Qed.
Print Assumptions C13_bincount_relabel.

Theorem C13_anti_index_correct : forall n idxs k i,
  NoDup idxs -> (forall j, In j idxs -> 0 <= j) -> maxl idxs + 1 <= n ->
  nth_error idxs k = Some i ->
  nth (Z.to_nat i) (anti_table n idxs) 0 = Z.of_nat k.
Proof. exact anti_index_correct. Qed.
Print Assumptions C13_anti_index_correct.

Theorem C13_offsets_correct : forall (A : Type) (blocks : list (list A)) k b,
  nth_error blocks k = Some b ->
  exists off, nth_error (offsets (map zlen blocks)) k = Some off
              /\ segment (concat blocks) off (zlen b) = b.
Proof. exact @offsets_correct. Qed.
Print Assumptions C13_offsets_correct.

Theorem C13_table_idx_own_label : forall l im im' y x,
  mask l im = mask l im' -> get im y x = Some l ->
  table_idx_at im y x = table_idx_at im' y x.
Proof. exact table_idx_own_label. Qed.
Print Assumptions C13_table_idx_own_label.

(* ---- areas : scind.sum(ones, labels, indexes) ---- *)

(* (a) the entry of object l is the same in any two scenes in which l has the same pixels, whatever
   the other objects, the background and the two request lists are *)
Theorem C13_areas_independent : forall im im' idxs idxs' k k' l,
  mask l im = mask l im' -> nth_error idxs k = Some l -> nth_error idxs' k' = Some l ->
  nth_error (areas im idxs) k = nth_error (areas im' idxs') k'.
Proof. exact areas_independent. Qed.
Print Assumptions C13_areas_independent.

(* (b) renumbering the labels *)
Theorem C13_areas_relabel : forall f im idxs,
  injective f -> areas (relabel f im) (map f idxs) = areas im idxs.
Proof. exact areas_relabel. Qed.
Print Assumptions C13_areas_relabel.

(* (b) the request list only selects and orders *)
Theorem C13_areas_request : forall im idxs,
  areas im idxs = flat_map (fun l => areas im [l]) idxs.
Proof. exact areas_request. Qed.
Print Assumptions C13_areas_request.

(* ---- extents : calculate_extents as (area, bounding-box area) ---- *)

(* (a) the entry of object l is the same in any two scenes in which l has the same pixels, whatever
   the other objects, the background and the two request lists are *)
Theorem C13_extents_independent : forall im im' idxs idxs' k k' l,
  mask l im = mask l im' -> nth_error idxs k = Some l -> nth_error idxs' k' = Some l ->
  nth_error (extents im idxs) k = nth_error (extents im' idxs') k'.
Proof. exact extents_independent. Qed.
Print Assumptions C13_extents_independent.

(* (b) renumbering the labels *)
Theorem C13_extents_relabel : forall f im idxs,
  injective f -> extents (relabel f im) (map f idxs) = extents im idxs.
Proof. exact extents_relabel. Qed.
Print Assumptions C13_extents_relabel.

(* (b) the request list only selects and orders *)
Theorem C13_extents_request : forall im idxs,
  extents im idxs = flat_map (fun l => extents im [l]) idxs.
Proof. exact extents_request. Qed.
Print Assumptions C13_extents_request.

(* (c) the extent of an object is a function of its coordinate list (extent1_coords) that is
   invariant under translation *)
Theorem C13_extents_coords : forall im l, extent1 im l = extent_c (own_coords im l).
Proof. exact extent1_coords. Qed.
Print Assumptions C13_extents_coords.

Theorem C13_extents_translate : forall dy dx cs, extent_c (map (shift dy dx) cs) = extent_c cs.
Proof. exact extent_translate. Qed.
Print Assumptions C13_extents_translate.

(* ---- perimeters : calculate_perimeters in thousandths, scoring table regenerated from the source ---- *)

(* (a) the entry of object l is the same in any two scenes in which l has the same pixels, whatever
   the other objects, the background and the two request lists are *)
Theorem C13_perimeters_independent : forall im im' idxs idxs' k k' l,
  mask l im = mask l im' -> nth_error idxs k = Some l -> nth_error idxs' k' = Some l ->
  nth_error (perimeters im idxs) k = nth_error (perimeters im' idxs') k'.
Proof. exact perimeters_independent. Qed.
Print Assumptions C13_perimeters_independent.

(* (b) renumbering the labels *)
Theorem C13_perimeters_relabel : forall f im idxs,
  injective f -> perimeters (relabel f im) (map f idxs) = perimeters im idxs.
Proof. exact perimeters_relabel. Qed.
Print Assumptions C13_perimeters_relabel.

(* (b) the request list only selects and orders *)
Theorem C13_perimeters_request : forall im idxs,
  perimeters im idxs = flat_map (fun l => perimeters im [l]) idxs.
Proof. exact perimeters_request. Qed.
Print Assumptions C13_perimeters_request.

(* ---- skeleton_length : np.bincount(labels, score, minlength=max(indices)+1)[indices] ---- *)

Theorem C13_skeleton_length_independent : forall im im' idxs idxs' k k' l,
  nonneg_img im -> nonneg_img im' -> nonneg_list idxs -> nonneg_list idxs' ->
  mask l im = mask l im' -> nth_error idxs k = Some l -> nth_error idxs' k' = Some l ->
  exists r r', skeleton_length im idxs = Some r /\ skeleton_length im' idxs' = Some r'
               /\ nth_error r k = nth_error r' k'.
Proof. exact skeleton_length_independent. Qed.
Print Assumptions C13_skeleton_length_independent.

Theorem C13_skeleton_length_relabel : forall f im idxs,
  injective f -> (forall a, 0 <= a -> 0 <= f a) -> nonneg_img im -> nonneg_list idxs ->
  skeleton_length (relabel f im) (map f idxs) = skeleton_length im idxs.
Proof. exact skeleton_length_relabel. Qed.
Print Assumptions C13_skeleton_length_relabel.

Theorem C13_skeleton_length_request : forall im idxs,
  nonneg_img im -> nonneg_list idxs ->
  skeleton_length im idxs =
  Some (flat_map (fun l => match skeleton_length im [l] with Some r => r | None => [] end) idxs).
Proof. exact skeleton_length_request. Qed.
Print Assumptions C13_skeleton_length_request.

(* ---- euler_number : 4W from the bit-quad counts keyed by I00; labels are non-zero ---- *)

Theorem C13_euler_independent : forall im im' idxs idxs' k k' l,
  l <> 0 -> mask l im = mask l im' -> nth_error idxs k = Some l -> nth_error idxs' k' = Some l ->
  nth_error (euler4 im idxs) k = nth_error (euler4 im' idxs') k'.
Proof. exact euler_independent. Qed.
Print Assumptions C13_euler_independent.

Theorem C13_euler_relabel : forall f im idxs,
  injective f -> f 0 = 0 -> nonzero_list idxs -> euler4 (relabel f im) (map f idxs) = euler4 im idxs.
Proof. exact euler_relabel. Qed.
Print Assumptions C13_euler_relabel.

Theorem C13_euler_request : forall im idxs,
  euler4 im idxs = flat_map (fun l => euler4 im [l]) idxs.
Proof. exact euler_request. Qed.
Print Assumptions C13_euler_request.

(* ---- ellipse moments (m00, centre, a, b, c over Q) ----
   ell_c is the per-object, coordinate-level model; ellipse_moments is the as-written model
   (bincount over all labels, centring through ic[labels], zipped rows, gather). *)

(* ellipse_rows_nth: whenever the as-written model returns rows (the code does not raise) they are the
   coordinate-level rows of the requested objects ... *)
Theorem C13_ellipse_rows_nth : forall im idxs r,
  nonneg_img im -> (forall l, In l idxs -> 0 < l) ->
  ellipse_moments im idxs = EllRows r -> nzp im <> [] -> r = ells im idxs.
Proof. exact ellipse_rows_nth. Qed.
Print Assumptions C13_ellipse_rows_nth.

(* ... and (round 6: tables of max(indexes) + 1 entries) it returns rows for EVERY request list of positive labels,
   present or absent, below or above the largest label of the image; an absent label gets the row of no pixels *)
Theorem C13_ellipse_rows_defined : forall im idxs,
  nonneg_img im -> idxs <> [] -> nzp im <> [] ->
  (forall l, In l idxs -> 0 < l) ->
  ellipse_moments im idxs = EllRows (ells im idxs).
Proof. exact ellipse_rows_defined. Qed.
Print Assumptions C13_ellipse_rows_defined.

(* (c) translation: the central moments a, b, c and m00 are unchanged, the centre moves along *)
Theorem C13_ellipse_translate : forall dy dx cs,
  ell_c (map (shiftc dy dx) cs) = option_map (move dy dx) (ell_c cs).
Proof. exact ell_c_translate. Qed.
Print Assumptions C13_ellipse_translate.

Theorem C13_ellipse_independent : forall im im' idxs idxs' k k' l,
  mask l im = mask l im' -> nth_error idxs k = Some l -> nth_error idxs' k' = Some l ->
  nth_error (ells im idxs) k = nth_error (ells im' idxs') k'.
Proof. exact ells_independent. Qed.
Print Assumptions C13_ellipse_independent.

Theorem C13_ellipse_relabel : forall f im idxs,
  injective f -> ells (relabel f im) (map f idxs) = ells im idxs.
Proof. exact ells_relabel. Qed.
Print Assumptions C13_ellipse_relabel.

(* ---- (c) translation by zero padding (np.pad) for the pattern/quad measurements ---- *)

Theorem C13_perimeters_translate : forall t b lf r im idxs,
  nonzero_list idxs -> perimeters (pad t b lf r im) idxs = perimeters im idxs.
Proof. exact perimeters_translate. Qed.
Print Assumptions C13_perimeters_translate.

Theorem C13_skeleton_length_translate : forall t b lf r im idxs,
  nonneg_img im -> (forall i, In i idxs -> 0 < i) ->
  skeleton_length (pad t b lf r im) idxs = skeleton_length im idxs.
Proof. exact skeleton_length_translate. Qed.
Print Assumptions C13_skeleton_length_translate.

Theorem C13_euler_translate : forall t b lf r im idxs,
  rect im -> nonzero_list idxs -> euler4 (pad t b lf r im) idxs = euler4 im idxs.
Proof. exact euler_translate. Qed.
Print Assumptions C13_euler_translate.

(* the facts about np.pad they rest on *)
Theorem C13_pad_reads : forall t b lf r im y x,
  g (pad t b lf r im) (y + Z.of_nat t) (x + Z.of_nat lf) = g im y x.
Proof. exact pad_g. Qed.
Print Assumptions C13_pad_reads.

Theorem C13_pad_own_coords : forall t b lf r im l,
  l <> 0 -> own_coords (pad t b lf r im) l = map (shift (Z.of_nat t) (Z.of_nat lf)) (own_coords im l).
Proof. exact pad_own_coords. Qed.
Print Assumptions C13_pad_own_coords.

(* ---- median_of_labels: b18's as-written model (Model/MedianC18.v; include mask, anti-index table,
   lexsort, bincount(minlength), cumulative offsets) through median_of_labels_correct ---- *)

Theorem C13_median_independent : forall (image : list Z) labels idxs image' labels' idxs' k k' l,
  length image = length labels -> length image' = length labels' ->
  SpecC18.sel image labels l = SpecC18.sel image' labels' l ->
  nth_error idxs k = Some l -> nth_error idxs' k' = Some l ->
  nth_error (MedianC18.median_of_labels image labels idxs) k =
  nth_error (MedianC18.median_of_labels image' labels' idxs') k'.
Proof. exact MedianC13Proofs.median_independent. Qed.
Print Assumptions C13_median_independent.

Theorem C13_median_relabel : forall (f : nat -> nat) (image : list Z) labels idxs,
  (forall a b, f a = f b -> a = b) -> length image = length labels ->
  MedianC18.median_of_labels image (map f labels) (map f idxs) = MedianC18.median_of_labels image labels idxs.
Proof. exact MedianC13Proofs.median_relabel. Qed.
Print Assumptions C13_median_relabel.

Theorem C13_median_request : forall (image : list Z) labels idxs,
  length image = length labels ->
  MedianC18.median_of_labels image labels idxs =
  flat_map (fun l => MedianC18.median_of_labels image labels [l]) idxs.
Proof. exact MedianC13Proofs.median_request. Qed.
Print Assumptions C13_median_request.

(* ---- the Indexes expansion used by feret_diameter (b18: Model/IndexesC18.v) ---- *)
Theorem C13_indexes_rowmajor : forall counts : list (list nat),
  counts <> [] -> (forall row, In row counts -> length row = length (hd [] counts)) ->
  IndexesC18.indexes counts = SpecC18.indexes_ref counts.
Proof. exact IndexesC18Proofs.indexes_rowmajor. Qed.
Print Assumptions C13_indexes_rowmajor.

(* ---- hull area / solidity, minimum_enclosing_circle, feret_diameter: per-object models on the rows of
   C02's convex_hull_ijv.  With C02's Full kernel theorems (guard_irrelevant, hull_no_overflow,
   hull_label_correct) there is no slack caveat any more: position r carries the per-object model applied to
   OwnRowsC13.own_hull ijv l = the guard-free kernel on label l's own rows in buffer order (the only other
   input is the call's largest row index, the kernel's envelope sentinel), and that polygon meets C02's full
   hull specification for exactly label l's pixels. ---- *)

Theorem C13_own_hull_spec : forall ijv l,
  OwnRowsC13.nonneg_rows ijv -> HullSpec.HullSpec (HullSpec.pts_of ijv l) (OwnRowsC13.own_hull ijv l).
Proof. exact OwnRowsC13.own_hull_spec. Qed.
Print Assumptions C13_own_hull_spec.

Theorem C13_hull_area_own_rows : forall ijv indexes r,
  NoDup indexes -> (r < length indexes)%nat -> OwnRowsC13.nonneg_rows ijv ->
  nth r (HullAreaC13.hull_areas_rows (fst (Hull.convex_hull_ijv ijv indexes))) (HullAreaC13.hull_area_obj []) =
  HullAreaC13.hull_area_obj (OwnRowsC13.own_hull ijv (nth r indexes 0)).
Proof. exact OwnRowsC13.hull_area_own_rows_full. Qed.
Print Assumptions C13_hull_area_own_rows.

Theorem C13_mec_own_rows : forall ijv indexes r,
  NoDup indexes -> (r < length indexes)%nat -> OwnRowsC13.nonneg_rows ijv ->
  nth r (MecFeretC13.mec_rows (fst (Hull.convex_hull_ijv ijv indexes))) (Circle.chrystal []) =
  Circle.chrystal (OwnRowsC13.own_hull ijv (nth r indexes 0)).
Proof. exact OwnRowsC13.mec_own_rows_full. Qed.
Print Assumptions C13_mec_own_rows.

Theorem C13_feret_own_rows : forall ijv indexes r,
  NoDup indexes -> (r < length indexes)%nat -> OwnRowsC13.nonneg_rows ijv ->
  nth r (MecFeretC13.feret_rows (fst (Hull.convex_hull_ijv ijv indexes))) (Feret.sweep []) =
  Feret.sweep (OwnRowsC13.own_hull ijv (nth r indexes 0)).
Proof. exact OwnRowsC13.feret_own_rows_full. Qed.
Print Assumptions C13_feret_own_rows.

(* request order, subsets, other requested labels: the entry of label l is the same wherever l stands in
   any two repeat-free request lists *)
Theorem C13_hull_area_request_position : forall ijv idx idx' r r',
  NoDup idx -> NoDup idx' -> (r < length idx)%nat -> (r' < length idx')%nat -> OwnRowsC13.nonneg_rows ijv ->
  nth r idx 0 = nth r' idx' 0 ->
  nth r (HullAreaC13.hull_areas_rows (fst (Hull.convex_hull_ijv ijv idx))) (HullAreaC13.hull_area_obj []) =
  nth r' (HullAreaC13.hull_areas_rows (fst (Hull.convex_hull_ijv ijv idx'))) (HullAreaC13.hull_area_obj []).
Proof. exact OwnRowsC13.hull_area_request_position. Qed.
Print Assumptions C13_hull_area_request_position.

Theorem C13_mec_request_position : forall ijv idx idx' r r',
  NoDup idx -> NoDup idx' -> (r < length idx)%nat -> (r' < length idx')%nat -> OwnRowsC13.nonneg_rows ijv ->
  nth r idx 0 = nth r' idx' 0 ->
  nth r (MecFeretC13.mec_rows (fst (Hull.convex_hull_ijv ijv idx))) (Circle.chrystal []) =
  nth r' (MecFeretC13.mec_rows (fst (Hull.convex_hull_ijv ijv idx'))) (Circle.chrystal []).
Proof. exact OwnRowsC13.mec_request_position. Qed.
Print Assumptions C13_mec_request_position.

Theorem C13_feret_request_position : forall ijv idx idx' r r',
  NoDup idx -> NoDup idx' -> (r < length idx)%nat -> (r' < length idx')%nat -> OwnRowsC13.nonneg_rows ijv ->
  nth r idx 0 = nth r' idx' 0 ->
  nth r (MecFeretC13.feret_rows (fst (Hull.convex_hull_ijv ijv idx))) (Feret.sweep []) =
  nth r' (MecFeretC13.feret_rows (fst (Hull.convex_hull_ijv ijv idx'))) (Feret.sweep []).
Proof. exact OwnRowsC13.feret_request_position. Qed.
Print Assumptions C13_feret_request_position.

(* ---- end to end (C02 x C14 x polygon_in_disc), Full: for every ijv list with non-negative rows, every
   repeat-free request list and every position, with S = the requested label's own pixels:
   the model of minimum_enclosing_circle returns CEmpty iff S is empty and otherwise THE minimum enclosing
   circle of S; the model of feret_diameter returns the largest squared distance between two pixels of S. ---- *)

(* a disc that contains the vertices of a C02 hull polygon of S contains S *)
Theorem C13_polygon_in_disc : forall S V c1 c2 R,
  HullSpec.HullSpec S V -> MecSpec.Encloses V c1 c2 R -> MecSpec.Encloses S c1 c2 R.
Proof. exact PolygonDiscC13.polygon_in_disc. Qed.
Print Assumptions C13_polygon_in_disc.

(* on S, a linear functional with integer coefficients is at most its largest value at a vertex *)
Theorem C13_polygon_functional_max : forall S V (p q : Z),
  HullSpec.HullSpec S V -> V <> [] ->
  exists v, In v V /\ forall s, In s S -> PolygonDiscC13.phi p q s <= PolygonDiscC13.phi p q v.
Proof. exact PolygonDiscC13.polygon_functional_max. Qed.
Print Assumptions C13_polygon_functional_max.

Theorem C13_mec_end_to_end : forall ijv indexes r,
  NoDup indexes -> (r < length indexes)%nat -> OwnRowsC13.nonneg_rows ijv ->
  let S := HullSpec.pts_of ijv (nth r indexes 0) in
  let res := nth r (MecFeretC13.mec_rows (fst (Hull.convex_hull_ijv ijv indexes))) (Circle.chrystal []) in
  (S = [] -> res = Circle.CEmpty) /\
  (S <> [] -> exists ny nx d rn,
      res = Circle.CCircle ny nx d rn /\
      MecSpec.MEC S (inject_Z ny / inject_Z d) (inject_Z nx / inject_Z d) (inject_Z rn / inject_Z (d * d))).
Proof. exact EndToEndC13.mec_end_to_end_full. Qed.
Print Assumptions C13_mec_end_to_end.

Theorem C13_max_d2_hull : forall S V, HullSpec.HullSpec S V -> FeretSpec.max_d2 V = FeretSpec.max_d2 S.
Proof. exact EndToEndC13.max_d2_hull. Qed.
Print Assumptions C13_max_d2_hull.

Theorem C13_feret_max_end_to_end : forall ijv indexes r,
  NoDup indexes -> (r < length indexes)%nat -> OwnRowsC13.nonneg_rows ijv ->
  let S := HullSpec.pts_of ijv (nth r indexes 0) in
  exists mx mq,
    nth r (MecFeretC13.feret_rows (fst (Hull.convex_hull_ijv ijv indexes))) (Feret.sweep []) = Some (mx, mq) /\
    mx = FeretSpec.max_d2 S.
Proof. exact EndToEndC13.feret_end_to_end_max. Qed.
Print Assumptions C13_feret_max_end_to_end.

(* the minimum Feret diameter: the sweep returns the brute-force minimum over the edges of V of the largest
   vertex distance (C14 calipers_eq_bruteforce); by C13_polygon_functional_max the largest distance of a
   vertex from an edge line is the largest distance of a pixel of S from it; that the minimum over edge
   directions is the minimum over ALL directions is C14's feret_min theorems (checked per run). *)
Theorem C13_feret_end_to_end : forall ijv indexes r,
  NoDup indexes -> (r < length indexes)%nat -> OwnRowsC13.nonneg_rows ijv ->
  let l := nth r indexes 0 in
  let S := HullSpec.pts_of ijv l in
  let V := OwnRowsC13.own_hull ijv l in
  let res := nth r (MecFeretC13.feret_rows (fst (Hull.convex_hull_ijv ijv indexes))) (Feret.sweep []) in
  HullSpec.HullSpec S V /\
  exists mx mq, res = Some (mx, mq) /\ mx = FeretSpec.max_d2 V /\
    ((length V <= 2)%nat -> mq = (0, 1)) /\
    ((3 <= length V)%nat ->
       exists bq, FeretBrute.bf_min V = Some bq /\ 0 < snd mq /\ 0 < snd bq /\ fst mq * snd bq = fst bq * snd mq).
Proof. exact EndToEndC13.feret_end_to_end. Qed.
Print Assumptions C13_feret_end_to_end.

(* ---- the vectorised loop (C14's Model/CircleVec.v) under the invariant that holds for EVERY call:
   an object that is still active (keep_me) has its S0 / S1 among its own rows ---- *)

(* every call starts in the invariant (repeat-free non-negative request list, one block per request) *)
Theorem C13_mec_vec_init_inv : forall indexes blocks,
  NoDup indexes -> (forall j, In j indexes -> 0 <= j) -> length indexes = length blocks ->
  let t := CircleVec.vec_init indexes blocks in
  MecVecInvC13.inv (snd (fst t)) (length blocks) (snd t).
Proof. exact MecVecInvC13.vec_init_inv. Qed.
Print Assumptions C13_mec_vec_init_inv.

(* ... and a pass preserves it *)
Theorem C13_mec_vec_inv_preserved : forall rows app n st,
  MecVecInvC13.inv app n st -> MecVecInvC13.inv app n (CircleVec.vstep rows app n st).
Proof. exact MecVecInvC13.vstep_inv. Qed.
Print Assumptions C13_mec_vec_inv_preserved.

(* after a pass, object k's entries are those its own decision alone produces from its own entries *)
Theorem C13_mec_vec_own_write : forall rows app n st k,
  0 <= k < Z.of_nat n -> MecVecInvC13.inv app n st ->
  CircleVecProofs.agree app k (CircleVec.vstep rows app n st)
                        (CircleVec.apply_action st k (CircleVec.decide rows app st k)) /\
  CircleVecStep.samelen (CircleVec.vstep rows app n st) st.
Proof. exact MecVecInvC13.pass_own'. Qed.
Print Assumptions C13_mec_vec_own_write.

(* Full: any number of passes keeps two global states in agreement on object k's own entries, whatever
   the other objects' entries are *)
Theorem C13_mec_vec_passes_independent : forall rows app n k m st st',
  0 <= k < Z.of_nat n -> CircleVecStep.samelen st st' -> CircleVecProofs.agree app k st st' ->
  MecVecInvC13.inv app n st -> MecVecInvC13.inv app n st' ->
  CircleVecProofs.agree app k (MecFeretC13.vsteps rows app n m st) (MecFeretC13.vsteps rows app n m st').
Proof. exact MecVecInvC13.passes_independent_inv. Qed.
Print Assumptions C13_mec_vec_passes_independent.

(* idle frame: a finished object is not touched by a later pass (loops of different length agree on it) *)
Theorem C13_mec_vec_idle_frame : forall rows app n st k,
  0 <= k < Z.of_nat n -> MecVecInvC13.inv app n st -> ~ MecVecInvC13.active st k ->
  CircleVecProofs.agree app k (CircleVec.vstep rows app n st) st.
Proof. exact MecVecInvC13.idle_frame'. Qed.
Print Assumptions C13_mec_vec_idle_frame.

(* ---- whole call: the vectorised bookkeeping (global hull rows, point_index offsets, anti-index gather,
   within_label_indexes, global s0_idx / s1_idx, one decision per active object and pass) computes, for
   every object, exactly the per-object Chrystal loop on its own block.  Simulation: object k's view of
   the global arrays (S0 / S1 rows, w = 0 / 1 / >= 2 on its own rows) is a state of the per-object loop,
   the candidate scan of its rows chooses the same vertex, its write is the loop's step, other objects'
   writes do not touch it, a finished object is frozen.  The hypothesis excludes blocks on which the
   per-object loop itself exhausts its iteration bound (never a hull: C14_chrystal_on_every_hull). ---- *)
Theorem C13_chrystal_vec_correct : forall indexes blocks,
  NoDup indexes -> (forall j, In j indexes -> 0 <= j) -> length indexes = length blocks ->
  (forall b, In b blocks -> Circle.chrystal b <> Circle.CFuel) ->
  CircleVec.chrystal_vec indexes blocks = map Circle.chrystal blocks.
Proof. exact MecVecSimC13.chrystal_vec_correct. Qed.
Print Assumptions C13_chrystal_vec_correct.

(* renumbering of the request list *)
Theorem C13_chrystal_vec_renumber : forall (f : Z -> Z) indexes blocks,
  (forall a c, f a = f c -> a = c) -> (forall a, 0 <= a -> 0 <= f a) ->
  NoDup indexes -> (forall j, In j indexes -> 0 <= j) -> length indexes = length blocks ->
  (forall b, In b blocks -> Circle.chrystal b <> Circle.CFuel) ->
  CircleVec.chrystal_vec (map f indexes) blocks = CircleVec.chrystal_vec indexes blocks.
Proof. exact MecVecSimC13.chrystal_vec_renumber. Qed.
Print Assumptions C13_chrystal_vec_renumber.

(* request order / subsets / other objects: position by position a function of that position's block only *)
Theorem C13_mec_rows_vec_correct : forall rows : list (Z * list Circle.cpt),
  NoDup (map fst rows) -> (forall j, In j (map fst rows) -> 0 <= j) ->
  (forall r, In r rows -> Circle.chrystal (snd r) <> Circle.CFuel) ->
  MecFeretC13.mec_rows_vec rows = MecFeretC13.mec_rows rows.
Proof. exact MecVecSimC13.mec_rows_vec_correct. Qed.
Print Assumptions C13_mec_rows_vec_correct.

(* end to end for the VECTORISED model on the rows of C02's convex_hull_ijv: with C13_mec_end_to_end every
   position of the vectorised call is THE minimum enclosing circle of the requested label's own pixels *)
Theorem C13_mec_vec_end_to_end : forall ijv indexes,
  NoDup indexes -> (forall j, In j indexes -> 0 <= j) -> OwnRowsC13.nonneg_rows ijv ->
  MecFeretC13.mec_rows_vec (fst (Hull.convex_hull_ijv ijv indexes)) =
  MecFeretC13.mec_rows (fst (Hull.convex_hull_ijv ijv indexes)).
Proof. exact EndToEndC13.mec_vec_end_to_end. Qed.
Print Assumptions C13_mec_vec_end_to_end.

(* ---- independence from the other labels: the kernel's only non-own input, the sentinel max_i + 1 of the
   lower envelope (max_i = largest row index of the whole call), is irrelevant ---- *)
Theorem C13_hull_bound_irrelevant : forall m m' pts,
  (forall s, In s pts -> 0 <= fst s <= m) -> (forall s, In s pts -> 0 <= fst s <= m') ->
  HullGuard.hull_free m pts = HullGuard.hull_free m' pts.
Proof. exact HullBoundC13.hull_free_bound_irrelevant. Qed.
Print Assumptions C13_hull_bound_irrelevant.

(* (a) + (b) for the three hull-based measurements, Full: two calls (other labels, other pixels of other
   labels, other request lists, the label at any position) in which label l has the same rows in buffer
   order return the same entry for l *)
Theorem C13_hull_area_independent : forall ijv ijv' idx idx' r r',
  NoDup idx -> NoDup idx' -> (r < length idx)%nat -> (r' < length idx')%nat ->
  OwnRowsC13.nonneg_rows ijv -> OwnRowsC13.nonneg_rows ijv' -> nth r idx 0 = nth r' idx' 0 ->
  OwnRowsC13.own_rows ijv (nth r idx 0) = OwnRowsC13.own_rows ijv' (nth r idx 0) ->
  nth r (HullAreaC13.hull_areas_rows (fst (Hull.convex_hull_ijv ijv idx))) (HullAreaC13.hull_area_obj []) =
  nth r' (HullAreaC13.hull_areas_rows (fst (Hull.convex_hull_ijv ijv' idx'))) (HullAreaC13.hull_area_obj []).
Proof. exact HullBoundC13.hull_area_independent. Qed.
Print Assumptions C13_hull_area_independent.

Theorem C13_mec_independent : forall ijv ijv' idx idx' r r',
  NoDup idx -> NoDup idx' -> (r < length idx)%nat -> (r' < length idx')%nat ->
  OwnRowsC13.nonneg_rows ijv -> OwnRowsC13.nonneg_rows ijv' -> nth r idx 0 = nth r' idx' 0 ->
  OwnRowsC13.own_rows ijv (nth r idx 0) = OwnRowsC13.own_rows ijv' (nth r idx 0) ->
  nth r (MecFeretC13.mec_rows (fst (Hull.convex_hull_ijv ijv idx))) (Circle.chrystal []) =
  nth r' (MecFeretC13.mec_rows (fst (Hull.convex_hull_ijv ijv' idx'))) (Circle.chrystal []).
Proof. exact HullBoundC13.mec_independent. Qed.
Print Assumptions C13_mec_independent.

Theorem C13_feret_independent : forall ijv ijv' idx idx' r r',
  NoDup idx -> NoDup idx' -> (r < length idx)%nat -> (r' < length idx')%nat ->
  OwnRowsC13.nonneg_rows ijv -> OwnRowsC13.nonneg_rows ijv' -> nth r idx 0 = nth r' idx' 0 ->
  OwnRowsC13.own_rows ijv (nth r idx 0) = OwnRowsC13.own_rows ijv' (nth r idx 0) ->
  nth r (MecFeretC13.feret_rows (fst (Hull.convex_hull_ijv ijv idx))) (Feret.sweep []) =
  nth r' (MecFeretC13.feret_rows (fst (Hull.convex_hull_ijv ijv' idx'))) (Feret.sweep []).
Proof. exact HullBoundC13.feret_independent. Qed.
Print Assumptions C13_feret_independent.

(* the hypothesis "same rows in buffer order" of the three independence theorems follows from "same rows of
   label l in the call's ijv list": lexsort orders by label first, so filtering one label out of the sorted
   buffer is sorting that label's rows *)
Theorem C13_own_rows_of_label : forall ijv ijv' l,
  HullBatch.sel l ijv = HullBatch.sel l ijv' -> OwnRowsC13.own_rows ijv l = OwnRowsC13.own_rows ijv' l.
Proof. exact HullBoundC13.own_rows_of_label. Qed.
Print Assumptions C13_own_rows_of_label.

(* ---- the minimum Feret diameter, semantically (Proofs/FeretMinC13.v), over Z with squared quantities ----
   width_attained S wn wd: some strip contains S, is touched on both sides and has squared width wn / wd;
   width_lower P S wn wd: no strip in a direction of P that contains S is narrower. *)

(* Full: bf_min V - min over the edges of V of (largest squared vertex cross product) / (squared edge length) - is a
   squared width that S itself attains (in a direction normal to an edge), and the smallest over all edge-flush
   directions *)
Theorem C13_feret_min_edge_flush : forall PS V,
  HullSpec.HullSpec PS V -> (3 <= length V)%nat ->
  exists bn bd, FeretBrute.bf_min V = Some (bn, bd) /\ 0 < bd /\
    FeretMinC13.width_attained PS bn bd /\ FeretMinC13.width_lower (FeretMinC13.edge_direction V) PS bn bd.
Proof. exact FeretMinC13.feret_min_edge_flush. Qed.
Print Assumptions C13_feret_min_edge_flush.

(* Full: edge by edge, edge_num / edge_den is the squared width of S in that edge's normal direction *)
Theorem C13_feret_edge_strip : forall PS V, HullSpec.HullSpec PS V -> (3 <= length V)%nat ->
  forall a, (a < length V)%nat ->
  exists u lo hi, u <> (0, 0) /\
    fst u * fst u + snd u * snd u = FeretBrute.edge_den V a /\
    FeretProofs.Strip PS u lo hi /\
    (exists p q, In p PS /\ In q PS /\ fst u * fst p + snd u * snd p = lo /\ fst u * fst q + snd u * snd q = hi) /\
    (hi - lo) * (hi - lo) = FeretBrute.edge_num V a.
Proof. exact FeretMinC13.edge_strip. Qed.
Print Assumptions C13_feret_edge_strip.

(* end to end, no per-run certificate: the minimum the sweep returns on the label's hull is (cross-multiplied) a squared
   width attained by the label's own pixels in an edge-normal direction, minimal over all edge-flush directions *)
Theorem C13_feret_min_end_to_end : forall ijv indexes r,
  NoDup indexes -> (r < length indexes)%nat -> OwnRowsC13.nonneg_rows ijv ->
  let l := nth r indexes 0 in
  let S := HullSpec.pts_of ijv l in
  let V := OwnRowsC13.own_hull ijv l in
  (3 <= length V)%nat ->
  exists mx mq bn bd,
    nth r (MecFeretC13.feret_rows (fst (Hull.convex_hull_ijv ijv indexes))) (Feret.sweep []) = Some (mx, mq) /\
    0 < snd mq /\ 0 < bd /\ fst mq * bd = bn * snd mq /\
    FeretMinC13.width_attained S bn bd /\ FeretMinC13.width_lower (FeretMinC13.edge_direction V) S bn bd.
Proof. exact EndToEndC13.feret_min_end_to_end. Qed.
Print Assumptions C13_feret_min_end_to_end.

(* every direction has an extreme pair of hull vertices; at an edge-flush direction in which a pair is extreme the
   pair is at least sqrt(bf_min) apart *)
Theorem C13_feret_extreme_pair_exists : forall PS V m, HullSpec.HullSpec PS V -> V <> [] ->
  exists p q, In p V /\ In q V /\ FeretMinC13.extreme_pair PS p q m.
Proof. exact FeretMinC13.extreme_pair_exists. Qed.
Print Assumptions C13_feret_extreme_pair_exists.

Theorem C13_feret_extreme_pair_wide : forall PS V p q m,
  HullSpec.HullSpec PS V -> (3 <= length V)%nat -> FeretMinC13.edge_direction V m -> FeretMinC13.extreme_pair PS p q m ->
  forall bn bd, FeretBrute.bf_min V = Some (bn, bd) ->
  FeretLower.wide_enough (FeretLower.subv p q) m bn bd = true.
Proof. exact FeretMinC13.extreme_pair_wide. Qed.
Print Assumptions C13_feret_extreme_pair_wide.

(* ALL directions, Full.  The planar cone lemma ("direction continuity"): for constraint vectors c1..c4, c1 and c2
   independent, and u <> 0 with <c, u> >= 0, there are R, L - each a quarter turn of one of the constraints - inside the
   cone {m : <c, m> >= 0 for all four} with u between them.  The four constraints are the edges at the two vertices of
   an extreme pair, so R and L are edge-flush directions in which the same pair is still extreme. *)
Theorem C13_feret_cone_span : forall c1 c2 c3 c4 u : FeretLower.vec,
  FeretLower.crossv c1 c2 <> 0 -> u <> (0, 0) ->
  0 <= FeretLower.dotv c1 u -> 0 <= FeretLower.dotv c2 u -> 0 <= FeretLower.dotv c3 u -> 0 <= FeretLower.dotv c4 u ->
  let cs := [c1; c2; c3; c4] in
  exists ci ck, In ci cs /\ In ck cs /\
    let R := FeretConeC13.negv (FeretConeC13.Jv ci) in let L := FeretConeC13.Jv ck in
    (forall c, In c cs -> 0 <= FeretLower.dotv c R) /\ (forall c, In c cs -> 0 <= FeretLower.dotv c L) /\
    0 <= FeretLower.crossv R u /\ FeretLower.crossv L u <= 0 /\ 0 <= FeretLower.crossv R L.
Proof. exact FeretConeC13.cone_span. Qed.
Print Assumptions C13_feret_cone_span.

(* every direction u is covered: either it lies in a proper cone of two edge-flush directions sharing one extreme
   pair at least sqrt(bf_min) apart in both, or it is parallel to one such edge-flush direction *)
Theorem C13_feret_cone_cover_hull : forall PS V bn bd,
  HullSpec.HullSpec PS V -> (3 <= length V)%nat -> FeretBrute.bf_min V = Some (bn, bd) ->
  FeretConeC13.ConeCover2 PS bn bd.
Proof. exact FeretConeC13.cone_cover_hull. Qed.
Print Assumptions C13_feret_cone_cover_hull.

(* THE semantic statement of the minimum Feret diameter: bf_min V = min over hull edges of (max over vertices of
   cross^2) / |edge|^2 is attained by S as a squared width, and NO strip containing S - in any direction u <> 0 - is
   narrower: bn/bd = min over all directions of (max_s <u,s> - min_s <u,s>)^2 / |u|^2.  Exact integers, no square root. *)
Theorem C13_feret_min_all_directions : forall PS V,
  HullSpec.HullSpec PS V -> (3 <= length V)%nat ->
  exists bn bd, FeretBrute.bf_min V = Some (bn, bd) /\ 0 < bd /\
    FeretMinC13.width_attained PS bn bd /\ FeretMinC13.width_lower (fun u => u <> (0, 0)) PS bn bd.
Proof. exact FeretConeC13.feret_min_all_directions. Qed.
Print Assumptions C13_feret_min_all_directions.

(* end to end over all directions, no per-run certificate: the minimum the calipers sweep returns on the rows
   convex_hull_ijv emits for the requested label is the minimum width of that label's own pixel set *)
Theorem C13_feret_min_end_to_end_all : forall ijv indexes r,
  NoDup indexes -> (r < length indexes)%nat -> OwnRowsC13.nonneg_rows ijv ->
  let l := nth r indexes 0 in
  let S := HullSpec.pts_of ijv l in
  let V := OwnRowsC13.own_hull ijv l in
  (3 <= length V)%nat ->
  exists mx mq bn bd,
    nth r (MecFeretC13.feret_rows (fst (Hull.convex_hull_ijv ijv indexes))) (Feret.sweep []) = Some (mx, mq) /\
    0 < snd mq /\ 0 < bd /\ fst mq * bd = bn * snd mq /\
    FeretMinC13.width_attained S bn bd /\ FeretMinC13.width_lower (fun u => u <> (0, 0)) S bn bd.
Proof. exact EndToEndC13.feret_min_end_to_end_all. Qed.
Print Assumptions C13_feret_min_end_to_end_all.

(* the remaining non-empty hulls (one or two vertices: single pixels, pixel lines): the sweep returns 0/1 and the pixel
   set has width 0 (it lies on one line) *)
Theorem C13_feret_min_end_to_end_degenerate : forall ijv indexes r,
  NoDup indexes -> (r < length indexes)%nat -> OwnRowsC13.nonneg_rows ijv ->
  let l := nth r indexes 0 in
  let S := HullSpec.pts_of ijv l in
  let V := OwnRowsC13.own_hull ijv l in
  (1 <= length V <= 2)%nat ->
  exists mx,
    nth r (MecFeretC13.feret_rows (fst (Hull.convex_hull_ijv ijv indexes))) (Feret.sweep []) = Some (mx, (0, 1)) /\
    FeretMinC13.width_attained S 0 1 /\ FeretMinC13.width_lower (fun u => u <> (0, 0)) S 0 1.
Proof. exact EndToEndC13.feret_min_end_to_end_degenerate. Qed.
Print Assumptions C13_feret_min_end_to_end_degenerate.

(* ---- calculate_convex_hull_areas AS WRITTEN (Model/HullAreaVecC13.v): global hull rows, counts, index_of_label
   tables, cumulative offsets, compaction to the non-degenerate labels, per-row gathers, within_label_index, the modulo
   wrap of plus_one_idx, scind.sum by label ---- *)

(* Full: whenever the function does not raise, every requested label gets the per-object value of its own hull
   vertices - whatever the other labels, their hulls, their number and the order / numbering of the request list *)
Theorem C13_hull_areas_vec_correct : forall indexes blocks r,
  NoDup indexes -> (forall j, In j indexes -> 0 <= j) -> length indexes = length blocks ->
  HullAreaVecC13.hull_areas_vec indexes blocks = Some r -> r = map HullAreaC13.hull_area_obj blocks.
Proof. exact HullAreaVecC13Proofs.hull_areas_vec_correct. Qed.
Print Assumptions C13_hull_areas_vec_correct.

(* round 6 (label tables of max(largest hull label, largest requested label) + 1 entries): it never raises, whatever
   the request list names - labels without any pixel, below or above every label that has a hull row, included *)
Theorem C13_hull_areas_vec_defined : forall indexes blocks,
  HullAreaVecC13.hull_areas_vec indexes blocks <> None.
Proof. exact HullAreaVecC13Proofs.hull_areas_vec_defined. Qed.
Print Assumptions C13_hull_areas_vec_defined.

Theorem C13_hull_areas_vec_independent : forall indexes blocks indexes' blocks' r r' k k' b,
  NoDup indexes -> NoDup indexes' -> (forall j, In j indexes -> 0 <= j) -> (forall j, In j indexes' -> 0 <= j) ->
  length indexes = length blocks -> length indexes' = length blocks' ->
  HullAreaVecC13.hull_areas_vec indexes blocks = Some r -> HullAreaVecC13.hull_areas_vec indexes' blocks' = Some r' ->
  nth_error blocks k = Some b -> nth_error blocks' k' = Some b ->
  nth_error r k = nth_error r' k'.
Proof. exact HullAreaVecC13Proofs.hull_areas_vec_independent. Qed.
Print Assumptions C13_hull_areas_vec_independent.

(* the compaction step as written, hull[counts_per_label[hull[:, 0]] >= 3], is the concatenation of the
   non-degenerate labels' rows (the form the model's non-degenerate stage works on) *)
Theorem C13_hull_areas_compaction : forall indexes blocks,
  NoDup indexes -> (forall j, In j indexes -> 0 <= j) ->
  length indexes = length blocks ->
  let nd := filter (fun lb : Z * list (Z * Z) => 3 <=? CircleVec.zlenv (snd lb)) (combine indexes blocks) in
  HullAreaVecC13.hull_nd_as_written indexes blocks = CircleVec.hull_rows (map fst nd) (map snd nd).
Proof. exact HullAreaVecC13Proofs.compaction. Qed.
Print Assumptions C13_hull_areas_compaction.

(* on the rows of C02's convex_hull_ijv the as-written model equals the per-object batch, hence C13_hull_area_own_rows /
   _independent / _request_position hold for it *)
Theorem C13_hull_areas_vec_end_to_end : forall ijv indexes res,
  NoDup indexes -> (forall j, In j indexes -> 0 <= j) -> OwnRowsC13.nonneg_rows ijv ->
  HullAreaVecC13.hull_areas_vec (map fst (fst (Hull.convex_hull_ijv ijv indexes))) (map snd (fst (Hull.convex_hull_ijv ijv indexes))) = Some res ->
  res = HullAreaC13.hull_areas_rows (fst (Hull.convex_hull_ijv ijv indexes)).
Proof. exact EndToEndC13.hull_areas_vec_end_to_end. Qed.
Print Assumptions C13_hull_areas_vec_end_to_end.
