(* C13 — property theorems.  Only statements, each closed by [exact], each followed by
   Print Assumptions. *)
From Coq Require Import ZArith List Bool.
From Centro Require Import Base.VecC13 Proofs.VecC13Proofs Model.MeasureC13 Proofs.MeasureC13Proofs Model.EllipseCoordsC13 Proofs.EllipseC13Proofs.
Import ListNotations.
Open Scope Z_scope.

(* ---- the label-handling idioms (Base/VecC13.v), for every element type, zero and addition ---- *)

Theorem C13_bincount_group : forall (A : Type) (zero : A) (add : A -> A -> A) m pairs l,
  nonneg_labels pairs -> 0 <= l ->
  nth (Z.to_nat l) (bincount zero add m pairs) zero = group_fold zero add l pairs.
Proof. exact @bincount_group. Qed.
Print Assumptions C13_bincount_group.

Theorem C13_grouped_reduce_independent : forall (A : Type) (zero : A) (add : A -> A -> A) m m' ps qs l,
  nonneg_labels ps -> nonneg_labels qs -> 0 <= l -> Forall2 (agree_on l) ps qs ->
  nth (Z.to_nat l) (bincount zero add m ps) zero = nth (Z.to_nat l) (bincount zero add m' qs) zero.
Proof. exact @grouped_reduce_independent. Qed.
Print Assumptions C13_grouped_reduce_independent.

Theorem C13_bincount_relabel : forall (A : Type) (zero : A) (add : A -> A -> A) (f : Z -> Z) m m' ps l,
  (forall a b, f a = f b -> a = b) -> (forall a, 0 <= a -> 0 <= f a) ->
  nonneg_labels ps -> 0 <= l ->
  nth (Z.to_nat (f l)) (bincount zero add m' (relabel_pairs f ps)) zero =
  nth (Z.to_nat l) (bincount zero add m ps) zero.
Proof. exact @bincount_relabel. Qed.
Print Assumptions C13_bincount_relabel.

Theorem C13_anti_index_correct : forall n idxs k i,
  NoDup idxs -> (forall j, In j idxs -> 0 <= j) -> maxl idxs + 1 <= n ->
  nth_error idxs k = Some i ->
  nth (Z.to_nat i) (anti_table n idxs) 0 = Z.of_nat k.
Proof. exact anti_index_correct. Qed.
Print Assumptions C13_anti_index_correct.

Theorem C13_offsets_correct : forall (A : Type) (blocks : list (list A)) k b,
  nth_error blocks k = Some b ->
  exists off, nth_error (offsets (map zlen blocks)) k = Some off
              /\ segment (concat blocks) off (zlen b) = b.
Proof. exact @offsets_correct. Qed.
Print Assumptions C13_offsets_correct.

Theorem C13_table_idx_own_label : forall l im im' y x,
  mask l im = mask l im' -> get im y x = Some l ->
  table_idx_at im y x = table_idx_at im' y x.
Proof. exact table_idx_own_label. Qed.
Print Assumptions C13_table_idx_own_label.

(* ---- areas : scind.sum(ones, labels, indexes) ---- *)

(* (a) the entry of object l is the same in any two scenes in which l has the same pixels, whatever
   the other objects, the background and the two request lists are *)
Theorem C13_areas_independent : forall im im' idxs idxs' k k' l,
  mask l im = mask l im' -> nth_error idxs k = Some l -> nth_error idxs' k' = Some l ->
  nth_error (areas im idxs) k = nth_error (areas im' idxs') k'.
Proof. exact areas_independent. Qed.
Print Assumptions C13_areas_independent.

(* (b) renumbering the labels *)
Theorem C13_areas_relabel : forall f im idxs,
  injective f -> areas (relabel f im) (map f idxs) = areas im idxs.
Proof. exact areas_relabel. Qed.
Print Assumptions C13_areas_relabel.

(* (b) the request list only selects and orders *)
Theorem C13_areas_request : forall im idxs,
  areas im idxs = flat_map (fun l => areas im [l]) idxs.
Proof. exact areas_request. Qed.
Print Assumptions C13_areas_request.

(* ---- extents : calculate_extents as (area, bounding-box area) ---- *)

(* (a) the entry of object l is the same in any two scenes in which l has the same pixels, whatever
   the other objects, the background and the two request lists are *)
Theorem C13_extents_independent : forall im im' idxs idxs' k k' l,
  mask l im = mask l im' -> nth_error idxs k = Some l -> nth_error idxs' k' = Some l ->
  nth_error (extents im idxs) k = nth_error (extents im' idxs') k'.
Proof. exact extents_independent. Qed.
Print Assumptions C13_extents_independent.

(* (b) renumbering the labels *)
Theorem C13_extents_relabel : forall f im idxs,
  injective f -> extents (relabel f im) (map f idxs) = extents im idxs.
Proof. exact extents_relabel. Qed.
Print Assumptions C13_extents_relabel.

(* (b) the request list only selects and orders *)
Theorem C13_extents_request : forall im idxs,
  extents im idxs = flat_map (fun l => extents im [l]) idxs.
Proof. exact extents_request. Qed.
Print Assumptions C13_extents_request.

(* (c) the extent of an object is a function of its coordinate list (extent1_coords) that is
   invariant under translation *)
Theorem C13_extents_coords : forall im l, extent1 im l = extent_c (own_coords im l).
Proof. exact extent1_coords. Qed.
Print Assumptions C13_extents_coords.

Theorem C13_extents_translate : forall dy dx cs, extent_c (map (shift dy dx) cs) = extent_c cs.
Proof. exact extent_translate. Qed.
Print Assumptions C13_extents_translate.

(* ---- perimeters : calculate_perimeters in thousandths, scoring table regenerated from the source ---- *)

(* (a) the entry of object l is the same in any two scenes in which l has the same pixels, whatever
   the other objects, the background and the two request lists are *)
Theorem C13_perimeters_independent : forall im im' idxs idxs' k k' l,
  mask l im = mask l im' -> nth_error idxs k = Some l -> nth_error idxs' k' = Some l ->
  nth_error (perimeters im idxs) k = nth_error (perimeters im' idxs') k'.
Proof. exact perimeters_independent. Qed.
Print Assumptions C13_perimeters_independent.

(* (b) renumbering the labels *)
Theorem C13_perimeters_relabel : forall f im idxs,
  injective f -> perimeters (relabel f im) (map f idxs) = perimeters im idxs.
Proof. exact perimeters_relabel. Qed.
Print Assumptions C13_perimeters_relabel.

(* (b) the request list only selects and orders *)
Theorem C13_perimeters_request : forall im idxs,
  perimeters im idxs = flat_map (fun l => perimeters im [l]) idxs.
Proof. exact perimeters_request. Qed.
Print Assumptions C13_perimeters_request.

(* ---- skeleton_length : np.bincount(labels, score, minlength=max(indices)+1)[indices] ---- *)

Theorem C13_skeleton_length_independent : forall im im' idxs idxs' k k' l,
  nonneg_img im -> nonneg_img im' -> nonneg_list idxs -> nonneg_list idxs' ->
  mask l im = mask l im' -> nth_error idxs k = Some l -> nth_error idxs' k' = Some l ->
  exists r r', skeleton_length im idxs = Some r /\ skeleton_length im' idxs' = Some r'
               /\ nth_error r k = nth_error r' k'.
Proof. exact skeleton_length_independent. Qed.
Print Assumptions C13_skeleton_length_independent.

Theorem C13_skeleton_length_relabel : forall f im idxs,
  injective f -> (forall a, 0 <= a -> 0 <= f a) -> nonneg_img im -> nonneg_list idxs ->
  skeleton_length (relabel f im) (map f idxs) = skeleton_length im idxs.
Proof. exact skeleton_length_relabel. Qed.
Print Assumptions C13_skeleton_length_relabel.

Theorem C13_skeleton_length_request : forall im idxs,
  nonneg_img im -> nonneg_list idxs ->
  skeleton_length im idxs =
  Some (flat_map (fun l => match skeleton_length im [l] with Some r => r | None => [] end) idxs).
Proof. exact skeleton_length_request. Qed.
Print Assumptions C13_skeleton_length_request.

(* ---- euler_number : 4W from the bit-quad counts keyed by I00; labels are non-zero ---- *)

Theorem C13_euler_independent : forall im im' idxs idxs' k k' l,
  l <> 0 -> mask l im = mask l im' -> nth_error idxs k = Some l -> nth_error idxs' k' = Some l ->
  nth_error (euler4 im idxs) k = nth_error (euler4 im' idxs') k'.
Proof. exact euler_independent. Qed.
Print Assumptions C13_euler_independent.

Theorem C13_euler_relabel : forall f im idxs,
  injective f -> f 0 = 0 -> nonzero_list idxs -> euler4 (relabel f im) (map f idxs) = euler4 im idxs.
Proof. exact euler_relabel. Qed.
Print Assumptions C13_euler_relabel.

Theorem C13_euler_request : forall im idxs,
  euler4 im idxs = flat_map (fun l => euler4 im [l]) idxs.
Proof. exact euler_request. Qed.
Print Assumptions C13_euler_request.

(* ---- ellipse moments (m00, centre, a, b, c over Q) ----
   ell_c is the per-object, coordinate-level model; the as-written model
   Model.MeasureC13.ellipse_moments (bincount over all labels, centring through ic[labels], gather)
   is compared with it by exact equality on every generated object and with the implementation.
   Not proved: ellipse_moments im idxs = EllRows (ells im idxs) inside the domain (missing lemma:
   nth of the zipped bincount rows, "ellipse_rows_nth"). *)

(* (c) translation: the central moments a, b, c and m00 are unchanged, the centre moves along *)
Theorem C13_ellipse_translate : forall dy dx cs,
  ell_c (map (shiftc dy dx) cs) = option_map (move dy dx) (ell_c cs).
Proof. exact ell_c_translate. Qed.
Print Assumptions C13_ellipse_translate.

Theorem C13_ellipse_independent : forall im im' idxs idxs' k k' l,
  mask l im = mask l im' -> nth_error idxs k = Some l -> nth_error idxs' k' = Some l ->
  nth_error (ells im idxs) k = nth_error (ells im' idxs') k'.
Proof. exact ells_independent. Qed.
Print Assumptions C13_ellipse_independent.

Theorem C13_ellipse_relabel : forall f im idxs,
  injective f -> ells (relabel f im) (map f idxs) = ells im idxs.
Proof. exact ells_relabel. Qed.
Print Assumptions C13_ellipse_relabel.
