(* C20 - property theorems.  Only statements, each closed by [exact], each followed by
   Print Assumptions.  [sigs] is the table GENERATED from the staged sources on every run
   (Gen/EffectsC20.v): the theorems about it are re-proved by the kernel whenever the source changes.

   Not covered by any theorem (DESIGN.md section 8): that NumPy arrays passed to a function keep their
   bytes - aliasing between views is a runtime fact; that clause is decided by the byte-for-byte
   comparison over call histories (harness/props/c20.py) and, statically, by
   C20_inplace_candidates_exempt below (a statement about the translator's candidate list). *)
From Coq Require Import ZArith List Bool.
From Centro Require Import Model.HistoryC20 Spec.HistoryC20 Proofs.HistoryC20 Proofs.HistoryGenC20
  Proofs.HistoryRefuteC20 Gen.EffectsC20.
Import ListNotations.
Open Scope Z_scope.

(* ---- general: any table of effect signatures, any argument/value/result/generator types, any bodies *)

(* the boolean checker evaluated on the generated table is sound for the declarative premises *)
Theorem C20_checker_sound : forall l, sigs_okb l = true -> sigs_ok l.
Proof. exact sigs_okb_sound. Qed.
Print Assumptions C20_checker_sound.

(* Full: in every reachable world each filled table holds its constant value *)
Theorem C20_cache_inv_any_table :
  forall (args val res rstate : Type) (table : list sig) (const : Z -> val) (argval : Z -> args -> Z -> val)
         (accval : Z -> args -> Z -> option val -> val) (mval : Z -> args -> val) (key_eqb : args -> args -> bool)
         (body : Z -> args -> list (option val) -> @rsrc rstate -> res)
         (rng_next : Z -> args -> @rsrc rstate -> rstate -> rstate),
  (forall a b, key_eqb a b = true -> a = b) ->
  sigs_ok table -> forall r0 h,
  (forall g v, cache (run args val res rstate table const argval accval mval key_eqb body rng_next r0 h) g = Some v ->
               v = const g) /\
  (forall g k v, memo (run args val res rstate table const argval accval mval key_eqb body rng_next r0 h) g k = Some v ->
                 v = mval g k).
Proof. exact cache_inv. Qed.
Print Assumptions C20_cache_inv_any_table.

(* Full: result (run (h ++ [c])) = result (run [c]) for every history h and call c, whatever the initial
   generator states *)
Theorem C20_history_independent_any_table :
  forall (args val res rstate : Type) (table : list sig) (const : Z -> val) (argval : Z -> args -> Z -> val)
         (accval : Z -> args -> Z -> option val -> val) (mval : Z -> args -> val) (key_eqb : args -> args -> bool)
         (body : Z -> args -> list (option val) -> @rsrc rstate -> res)
         (rng_next : Z -> args -> @rsrc rstate -> rstate -> rstate),
  (forall a b, key_eqb a b = true -> a = b) -> (forall a, key_eqb a a = true) ->
  sigs_ok table -> forall r0 r0' h c,
  result_after args val res rstate table const argval accval mval key_eqb body rng_next r0 h c =
  result_after args val res rstate table const argval accval mval key_eqb body rng_next r0' [] c.
Proof. exact history_independent. Qed.
Print Assumptions C20_history_independent_any_table.

(* Full: a result never depends on the incoming global generator state or the clock, in any world *)
Theorem C20_rng_leak_free_any_table :
  forall (args val res rstate : Type) (table : list sig) (const : Z -> val) (argval : Z -> args -> Z -> val)
         (accval : Z -> args -> Z -> option val -> val) (mval : Z -> args -> val) (key_eqb : args -> args -> bool)
         (body : Z -> args -> list (option val) -> @rsrc rstate -> res)
         (rng_next : Z -> args -> @rsrc rstate -> rstate -> rstate),
  sigs_ok table -> forall (w : world args val rstate) r t c,
  fst (step args val res rstate table const argval accval mval key_eqb body rng_next w c) =
  fst (step args val res rstate table const argval accval mval key_eqb body rng_next (mk_world (cache w) (memo w) r t) c).
Proof. exact rng_leak_free. Qed.
Print Assumptions C20_rng_leak_free_any_table.

(* Full: a call changes only the module-level state its signature lists (frame) *)
Theorem C20_step_frame :
  forall (args val res rstate : Type) (table : list sig) (const : Z -> val) (argval : Z -> args -> Z -> val)
         (accval : Z -> args -> Z -> option val -> val) (mval : Z -> args -> val) (key_eqb : args -> args -> bool)
         (body : Z -> args -> list (option val) -> @rsrc rstate -> res)
         (rng_next : Z -> args -> @rsrc rstate -> rstate -> rstate) (w : world args val rstate) c g,
  (forall k, ~ In (g, k) (s_fills (lookup table (fst c)))) ->
  cache (snd (step args val res rstate table const argval accval mval key_eqb body rng_next w c)) g = cache w g /\
  (forall k, memo (snd (step args val res rstate table const argval accval mval key_eqb body rng_next w c)) g k = memo w g k).
Proof. exact step_frame. Qed.
Print Assumptions C20_step_frame.

(* ---- the generated table: premises discharged by computation, so the statements are unconditional *)

(* Finite (a statement about the generated list, re-proved every run): every function of the listed
   modules caches only constant tables, fills what it reads before reading it, seeds before drawing
   from the global generator, and uses no entropy *)
Theorem C20_effects_ok : sigs_ok sigs.
Proof. exact gen_sigs_ok. Qed.
Print Assumptions C20_effects_ok.

(* Finite: the translator's candidate in-place writes to parameters are confined to the documented
   in-place helpers *)
Theorem C20_inplace_candidates_exempt : forall s, In s sigs -> s_inplace s = [] \/ s_exempt s = true.
Proof. exact gen_inplace_ok. Qed.
Print Assumptions C20_inplace_candidates_exempt.

Theorem C20_cache_inv :
  forall (args val res rstate : Type) (const : Z -> val) (argval : Z -> args -> Z -> val)
         (accval : Z -> args -> Z -> option val -> val) (mval : Z -> args -> val) (key_eqb : args -> args -> bool)
         (body : Z -> args -> list (option val) -> @rsrc rstate -> res)
         (rng_next : Z -> args -> @rsrc rstate -> rstate -> rstate),
  (forall a b, key_eqb a b = true -> a = b) -> forall r0 h,
  (forall g v, cache (run args val res rstate sigs const argval accval mval key_eqb body rng_next r0 h) g = Some v ->
               v = const g) /\
  (forall g k v, memo (run args val res rstate sigs const argval accval mval key_eqb body rng_next r0 h) g k = Some v ->
                 v = mval g k).
Proof. exact gen_cache_inv. Qed.
Print Assumptions C20_cache_inv.

Theorem C20_history_independent :
  forall (args val res rstate : Type) (const : Z -> val) (argval : Z -> args -> Z -> val)
         (accval : Z -> args -> Z -> option val -> val) (mval : Z -> args -> val) (key_eqb : args -> args -> bool)
         (body : Z -> args -> list (option val) -> @rsrc rstate -> res)
         (rng_next : Z -> args -> @rsrc rstate -> rstate -> rstate),
  (forall a b, key_eqb a b = true -> a = b) -> (forall a, key_eqb a a = true) -> forall r0 r0' h c,
  result_after args val res rstate sigs const argval accval mval key_eqb body rng_next r0 h c =
  result_after args val res rstate sigs const argval accval mval key_eqb body rng_next r0' [] c.
Proof. exact gen_history_independent. Qed.
Print Assumptions C20_history_independent.

Theorem C20_rng_leak_free :
  forall (args val res rstate : Type) (const : Z -> val) (argval : Z -> args -> Z -> val)
         (accval : Z -> args -> Z -> option val -> val) (mval : Z -> args -> val) (key_eqb : args -> args -> bool)
         (body : Z -> args -> list (option val) -> @rsrc rstate -> res)
         (rng_next : Z -> args -> @rsrc rstate -> rstate -> rstate) (w : world args val rstate) r t c,
  fst (step args val res rstate sigs const argval accval mval key_eqb body rng_next w c) =
  fst (step args val res rstate sigs const argval accval mval key_eqb body rng_next (mk_world (cache w) (memo w) r t) c).
Proof. exact gen_rng_leak_free. Qed.
Print Assumptions C20_rng_leak_free.

(* ---- each premise is necessary: the state machine exhibits the history dependence of every class of
   slip the translator reports (witnesses by vm_compute), and the checker rejects those tables *)
Theorem C20_argdep_cache_refuted : exists h c, r_result t_argdep 0 h c <> r_result t_argdep 0 [] c.
Proof. exact argdep_cache_refuted. Qed.
Print Assumptions C20_argdep_cache_refuted.

Theorem C20_accumulating_state_refuted : exists h c, r_result t_accum 0 h c <> r_result t_accum 0 [] c.
Proof. exact accumulating_state_refuted. Qed.
Print Assumptions C20_accumulating_state_refuted.

Theorem C20_unseeded_draw_refuted : exists h c, r_result t_unseeded 0 h c <> r_result t_unseeded 0 [] c.
Proof. exact unseeded_draw_refuted. Qed.
Print Assumptions C20_unseeded_draw_refuted.

(* a memo table `if key not in G: G[key] = pure(args)` keyed by the full argument never changes results
   (instance of the general theorem on a table the checker accepts), and the key hypothesis is necessary:
   with a key that does not determine the arguments the first call's value is served to later calls *)
Theorem C20_memo_full_key_history_independent : forall h c, r_result t_memo 0 h c = r_result t_memo 1 [] c.
Proof. exact memo_full_key_example. Qed.
Print Assumptions C20_memo_full_key_history_independent.

Theorem C20_memo_partial_key_refuted : exists h c,
  result_after Z Z _ Z t_memo r_const r_argval r_accval r_mval (fun _ _ => true) r_body r_next 0 h c <>
  result_after Z Z _ Z t_memo r_const r_argval r_accval r_mval (fun _ _ => true) r_body r_next 0 [] c.
Proof. exact memo_partial_key_refuted. Qed.
Print Assumptions C20_memo_partial_key_refuted.

Theorem C20_unguarded_read_refuted : exists h c, r_result t_unguarded 0 h c <> r_result t_unguarded 0 [] c.
Proof. exact unguarded_read_refuted. Qed.
Print Assumptions C20_unguarded_read_refuted.
