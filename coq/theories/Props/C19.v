(* C19 — compiled kernels never touch memory outside their buffers.  PARTIAL BY CONSTRUCTION: the
   theorems below are index-safety statements about bounds-checked MODELS of the kernels
   (accessor without negative wrap; a bad access makes the model return None / Oob).  The
   behaviour of the compiled object (malloc/realloc failure, int32 wrap on huge images, reads of
   uninitialised locals that stay in bounds, C++ containers of FastEMD, Cython's buffer unpacking)
   is OBSERVED by the address-sanitised build, not proved.
   Shape: kernel_pre_K args = true -> model_K args never errs, for ALL array contents; the boolean
   kernel_pre_K is extracted and evaluated on the actual arguments of every recorded kernel call. *)
From Coq Require Import ZArith List Bool.
From Centro Require Import Base.ArrC19 Model.MorphC19 Proofs.MorphC19Safe.
Import ListNotations.
Open Scope Z_scope.

(* Full: table_lookup_index (raw-pointer interior walk with i_stride, 2-D corner and edge code)
   on any image of at least 3x3, any pixel values. *)
Theorem C19_table_lookup_index_safe : forall H W s image,
  kernel_pre_tli H W s (zlen image) = true -> table_lookup_index H W s image <> None.
Proof. exact tli_safe. Qed.
Print Assumptions C19_table_lookup_index_safe.

(* Full: skeletonize_loop for any result image, any table of >= 512 entries, any processing order
   whose entries index the coordinate arrays, coordinates inside the image. *)
Theorem C19_skeletonize_loop_safe : forall H W res iarr jarr order table,
  kernel_pre_skel H W (zlen res) iarr jarr order (zlen table) = true ->
  skeletonize_loop H W res iarr jarr order table <> None.
Proof. exact skel_safe. Qed.
Print Assumptions C19_skeletonize_loop_safe.

(* Full: index_lookup on the padded copy, for every iteration count, table and image content:
   the deletion marks (negated row index) and the compaction keep every surviving point strictly
   inside the padded image. *)
Theorem C19_index_lookup_safe : forall iters H W table img pts,
  kernel_pre_il H W (zlen img) (zlen table) pts = true ->
  index_lookup iters H W table img pts <> None.
Proof. exact il_safe. Qed.
Print Assumptions C19_index_lookup_safe.

(* Full: the "negative wrap" remark of prepare_for_index_lookup is unnecessary — under the
   precondition (which prepare_for_index_lookup establishes by the +1 shift) no row or column
   index below 0 is ever formed; the checked accessor has no wrap, so C19_index_lookup_safe
   could not hold otherwise. *)
Theorem C19_index_lookup_never_negative : forall H W imglen tablelen pts,
  kernel_pre_il H W imglen tablelen pts = true ->
  Forall (fun p => 0 <= fst p - 1 /\ 0 <= snd p - 1) pts.
Proof. exact il_never_negative. Qed.
Print Assumptions C19_index_lookup_never_negative.
