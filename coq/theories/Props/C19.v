(* C19 — compiled kernels never touch memory outside their buffers.  PARTIAL BY CONSTRUCTION: the
   theorems below are index-safety statements about bounds-checked MODELS of the kernels
   (accessor without negative wrap; a bad access makes the model return None / Oob).  The
   behaviour of the compiled object (malloc/realloc failure, int32 wrap on huge images, reads of
   uninitialised locals that stay in bounds, C++ containers of FastEMD, Cython's buffer unpacking)
   is OBSERVED by the address-sanitised build, not proved.
   Shape: kernel_pre_K args = true -> model_K args never errs, for ALL array contents; the boolean
   kernel_pre_K is extracted and evaluated on the actual arguments of every recorded kernel call. *)
From Coq Require Import ZArith List Bool.
From Centro Require Import Base.ArrC19 Model.MorphC19 Proofs.MorphC19Safe.
Import ListNotations.
Open Scope Z_scope.

(* Full: table_lookup_index (raw-pointer interior walk with i_stride, 2-D corner and edge code)
   on any image of at least 3x3, any pixel values. *)
Theorem C19_table_lookup_index_safe : forall H W s image,
  kernel_pre_tli H W s (zlen image) = true -> table_lookup_index H W s image <> None.
Proof. exact tli_safe. Qed.
Print Assumptions C19_table_lookup_index_safe.

(* Full: skeletonize_loop for any result image, any table of >= 512 entries, any processing order
   whose entries index the coordinate arrays, coordinates inside the image. *)
Theorem C19_skeletonize_loop_safe : forall H W res iarr jarr order table,
  kernel_pre_skel H W (zlen res) iarr jarr order (zlen table) = true ->
  skeletonize_loop H W res iarr jarr order table <> None.
Proof. exact skel_safe. Qed.
Print Assumptions C19_skeletonize_loop_safe.

(* Full: index_lookup on the padded copy, for every iteration count, table and image content:
   the deletion marks (negated row index) and the compaction keep every surviving point strictly
   inside the padded image. *)
Theorem C19_index_lookup_safe : forall iters H W table img pts,
  kernel_pre_il H W (zlen img) (zlen table) pts = true ->
  index_lookup iters H W table img pts <> None.
Proof. exact il_safe. Qed.
Print Assumptions C19_index_lookup_safe.

(* Full: the "negative wrap" remark of prepare_for_index_lookup is unnecessary — under the
   precondition (which prepare_for_index_lookup establishes by the +1 shift) no row or column
   index below 0 is ever formed; the checked accessor has no wrap, so C19_index_lookup_safe
   could not hold otherwise. *)
Theorem C19_index_lookup_never_negative : forall H W imglen tablelen pts,
  kernel_pre_il H W imglen tablelen pts = true ->
  Forall (fun p => 0 <= fst p - 1 /\ 0 <= snd p - 1) pts.
Proof. exact il_never_negative. Qed.
Print Assumptions C19_index_lookup_never_negative.

(* ------------------------------------------------------------------ propagate: heap.pxd *)
From Centro Require Import Model.HeapC19 Proofs.HeapC19Safe Model.LapC19 Proofs.LapC19Safe.

(* Full (pointer-level model of heap.pxd: ptrs = slot numbers into data, every dereference bounds-
   checked): for every initial queue of n rows x w <= 5 columns, every fuel and EVERY sequence of
   pops (guarded by items > 0 as in propagate) and 5-column pushes, no access leaves heap.ptrs or
   heap.data — across any number of capacity doublings (realloc + pointer rebasing) —, items <= space
   at the end, and heap_done frees exactly the three blocks heap_from_numpy2 allocated (no leak, no
   double free in the model).  Not expressible: realloc returning NULL. *)
Theorem C19_heap_safe : forall n w flat fuel ops,
  kernel_pre_heap n w (zlen flat) = true ->
  Forall (fun o => match o with Push r => 5 <= zlen r | Pop => True end) ops ->
  exists h, run_ops fuel ops (heap_from_numpy2 n w flat) = Some h /\
            0 <= items h <= space h /\ heap_done h = 0.
Proof. exact heap_safe. Qed.
Print Assumptions C19_heap_safe.

(* Full: one push on a well-formed heap (any fill level, including items = space). *)
Theorem C19_heappush_safe : forall fuel h e, hinv h -> width h <= zlen e ->
  exists h', heappush fuel h e = Some h' /\ hinv h' /\ items h' = items h + 1 /\
    width h' = width h /\ allocs h' = allocs h /\ (space h' = space h \/ space h' = space h * 2).
Proof. exact heappush_ok. Qed.
Print Assumptions C19_heappush_safe.

(* Full: one pop from a non-empty well-formed heap into a destination of >= width entries. *)
Theorem C19_heappop_safe : forall fuel destlen h, hinv h -> 0 < items h -> width h <= destlen ->
  exists row h', heappop fuel destlen h = Some (row, h') /\ hinv h' /\ zlen row = width h /\
    items h' = items h - 1 /\ space h' = space h /\ width h' = width h /\ allocs h' = allocs h.
Proof. exact heappop_ok. Qed.
Print Assumptions C19_heappop_safe.

(* ------------------------------------------------------------------ _lapjv.pyx *)

(* Full: bsearch never reads outside the row [base, base+count). *)
Theorem C19_bsearch_safe : forall fuel a base low high val count,
  0 <= base -> base + count <= zlen a -> 0 <= low -> high <= count - 1 ->
  bsearch fuel a base low high val <> None.
Proof. exact bsearch_safe. Qed.
Print Assumptions C19_bsearch_safe.

(* Full: in a strictly increasing row a present value is found (the undefined fall-through return
   of the C function is not taken), with fuel > row length. *)
Theorem C19_bsearch_finds : forall fuel a base low high val count,
  0 <= base -> base + count <= zlen a -> 0 <= low -> high <= count - 1 ->
  (forall p q, 0 <= p < q -> q < count -> seg a base p < seg a base q) ->
  (exists k, low <= k <= high /\ seg a base k = val) ->
  (Z.of_nat fuel > high - low + 1) ->
  exists m, bsearch fuel a base low high val = Some (Some m) /\ seg a base m = val /\ low <= m <= high.
Proof. exact bsearch_finds. Qed.
Print Assumptions C19_bsearch_finds.

(* ------------------------------------------------------------------ grey_reconstruction_loop *)
From Centro Require Model.Recon Model.ReconC19 Proofs.ReconC19Safe.

(* Full (model and loop theorem are C04's, imported): when kernel_pre_recon holds on the RAW
   arguments of a call (flattened values/prev/next, stride table, start node, image_stride, and the
   wrapper's padding geometry), the loop never reads or writes outside values/prev/next and never
   drops a node, for every number of iterations. *)
Theorem C19_recon_loop_safe : forall H W p0 p1 values prv nxt strides cur S fuel,
  ReconC19.kernel_pre_recon H W p0 p1 values prv nxt strides cur S = true ->
  match Recon.loop fuel S strides cur (ReconC19.recon_state values prv nxt) with
  | Recon.Oob => False
  | Recon.Rejected => False
  | Recon.Ok s' => Recon.drops s' = 0
  | Recon.OutOfFuel => True
  end.
Proof. exact ReconC19Safe.recon_loop_safe_raw. Qed.
Print Assumptions C19_recon_loop_safe.

(* ------------------------------------------------------------------ re-exported from the owners
   (statements are the owners' own, taken by [type of]; see the named Props files for the text) *)
From Centro Require Props.C04 Props.C07 Props.C08 Props.C10 Props.C17 Props.C03 Props.C15.

(* C04: loop index safety + link_has_successor for every geometry with padding >= 1 and Inv *)
Theorem C19_reexp_C04_loop_safe : ltac:(let t := type of Centro.Props.C04.C04_loop_safe in exact t).
Proof. exact Centro.Props.C04.C04_loop_safe. Qed.
Print Assumptions C19_reexp_C04_loop_safe.

(* C04: the wrapper's stride table lies within the padding for every odd footprint *)
Theorem C19_reexp_C04_prepare_strides_ok : ltac:(let t := type of Centro.Props.C04.C04_prepare_strides_ok in exact t).
Proof. exact Centro.Props.C04.C04_prepare_strides_ok. Qed.
Print Assumptions C19_reexp_C04_prepare_strides_ok.

(* C07: every circular-buffer histogram index of the median kernel lies inside the stripe *)
Theorem C19_reexp_C07_index_in_buffer : ltac:(let t := type of Centro.Props.C07.C07_index_in_buffer in exact t).
Proof. exact Centro.Props.C07.C07_index_in_buffer. Qed.
Print Assumptions C19_reexp_C07_index_in_buffer.


(* C10: index safety of the binary heap of min_cost_flow.hpp (line-level model) *)
Theorem C19_reexp_C10_heap_decrease_key_safe : ltac:(let t := type of Centro.Props.C10.C10_heap_decrease_key_safe in exact t).
Proof. exact Centro.Props.C10.C10_heap_decrease_key_safe. Qed.
Print Assumptions C19_reexp_C10_heap_decrease_key_safe.

Theorem C19_reexp_C10_heap_remove_first_safe : ltac:(let t := type of Centro.Props.C10.C10_heap_remove_first_safe in exact t).
Proof. exact Centro.Props.C10.C10_heap_remove_first_safe. Qed.
Print Assumptions C19_reexp_C10_heap_remove_first_safe.

Theorem C19_reexp_C10_heap_relax_safe : ltac:(let t := type of Centro.Props.C10.C10_heap_relax_safe in exact t).
Proof. exact Centro.Props.C10.C10_heap_relax_safe. Qed.
Print Assumptions C19_reexp_C10_heap_relax_safe.

(* C17: reads within the padding of a padded array never fail; is_local_maximum never leaves its arrays *)
Theorem C19_reexp_C17_padded_read_safe : ltac:(let t := type of Centro.Props.C17.C17_padded_read_safe in exact t).
Proof. exact Centro.Props.C17.C17_padded_read_safe. Qed.
Print Assumptions C19_reexp_C17_padded_read_safe.

Theorem C19_reexp_C17_is_local_maximum_safe : ltac:(let t := type of Centro.Props.C17.C17_is_local_maximum_safe in exact t).
Proof. exact Centro.Props.C17.C17_is_local_maximum_safe. Qed.
Print Assumptions C19_reexp_C17_is_local_maximum_safe.


(* ------------------------------------------------------------------ _all_connected_components *)
From Centro Require Import Model.GraphC19 Proofs.GraphC19Safe.

(* Full (array-level model: label, v_idx, stack of capacity n, every access checked): for every
   graph in the kernel's ragged format whose segments lie inside j and whose edge targets are
   vertices — symmetric or not, with duplicates and self-loops —, the explicit stack never
   overflows its n entries and no read or write leaves its array; any number of iterations. *)
Theorem C19_all_connected_components_safe : forall fuel n jarr indexes counts,
  kernel_pre_acc n jarr indexes counts = true ->
  all_connected_components fuel n jarr indexes counts <> None.
Proof. exact acc_safe. Qed.
Print Assumptions C19_all_connected_components_safe.

(* ------------------------------------------------------------------ trace_outlines *)
From Centro Require Import Model.TraceC19 Proofs.TraceC19Safe.

(* Full: for every label array in which each TRACED object (a label found at a start index) lies
   strictly inside the array — which get_outline_pts establishes by zero-padding whenever a
   requested label touches the border — no read of labels / firsts / the two 8-entry tables leaves
   its array, and the write p_output[output_idx] is bounded by output_end unconditionally (an
   output that is too small sets the overrun flag, it is never overrun).  Every fuel. *)
Theorem C19_trace_outlines_safe : forall fuel labels firsts strides newdir out counts,
  kernel_pre_trace labels firsts strides (zlen counts) = true ->
  trace_outlines fuel labels firsts strides newdir out counts <> None.
Proof. exact trace_safe. Qed.
Print Assumptions C19_trace_outlines_safe.

(* ------------------------------------------------------------------ fill_labeled_holes_loop *)
From Centro Require Model.FillC19 Proofs.FillC19Safe.

(* Full (array-level model, both walks): the to_do stack never outgrows its |to_do| entries — first
   walk: |stack| + #zeros(is_not_hole) <= |to_do|, a push turns a 0 into 1; second walk: |stack| +
   #zeros(adjacent_non_hole) <= n, a push turns a 0 into its parent's non-zero value — and no access
   of j / idx / i_count / is_not_hole / adjacent_non_hole leaves its array; every fuel, every lcount. *)
Theorem C19_fill_labeled_holes_loop_safe : forall fuel n cap lcount jarr idx cnt inh0 adj0 todo0,
  FillC19.kernel_pre_fill n cap jarr idx cnt inh0 adj0 todo0 = true ->
  FillC19.fill_labeled_holes_loop fuel cap lcount jarr idx cnt inh0 adj0 todo0 <> None.
Proof. exact FillC19Safe.fill_safe. Qed.
Print Assumptions C19_fill_labeled_holes_loop_safe.

(* ------------------------------------------------------------------ convex hull, in-place write *)
From Centro Require Props.C02.



(* ================================================================== round 2 *)
(* Full: reduction_transfer as written (column read p_j[j_idx], finding F1, included): no index
   depends on a float comparison; under kernel_pre_rt no read of ii / j / idx / count / x / c / v and
   no write of v / u leaves its array. *)
Theorem C19_reduction_transfer_safe : forall ii jj idx count x ulen vlen clen,
  kernel_pre_rt ii jj idx count x ulen vlen clen = true ->
  reduction_transfer ii jj idx count x ulen vlen clen <> None.
Proof. exact rt_safe. Qed.
Print Assumptions C19_reduction_transfer_safe.

(* Full relative to the oracle discipline: augmenting_row_reduction with ALL its reads (idx, count,
   jj, c, v, y, the work list, free, x).  Float comparisons are an arbitrary oracle; an oracle entry
   that finite costs cannot produce for the current row (first candidate not `temp < u1`, a single-
   candidate row that is not strict, ...) cuts the run.  Under kernel_pre_arr — evaluated on every
   recorded call — no access leaves its array for any number of iterations; the C locals j1 / j2 are
   never USED as an index while unassigned (the copy j2 = j1 of an unassigned j1 is not an access). *)
Theorem C19_arr_full_safe : forall oracle n ii jj idx count x y ulen vlen clen,
  kernel_pre_arr n ii jj idx count y (zlen x) ulen vlen clen = true ->
  arr_run n (zlen ii) jj idx count vlen clen oracle (arr_init ii x y) <> None.
Proof. exact arr_full_safe. Qed.
Print Assumptions C19_arr_full_safe.

(* Partial (augment): only the closing loop `u[i] = c[idx[i] + bsearch(row i, x[i])] - v[x[i]]` —
   with strictly increasing rows and every x[i] listed in row i, bsearch finds it and the reads are
   in range.  NOT proved: the main loop (to_do / scan / ready / done counters: each column enters
   each list at most once per free row — needs NoDup invariants over seven scratch arrays);
   kernel_pre_augment is monitored on every recorded call, ASan observes the rest. *)
Theorem C19_augment_final_loop_safe_partial : forall fuel n jj idx count x ulen vlen clen,
  rows_ok n jj idx count clen = true -> n <= zlen x -> n <= ulen ->
  (forall i, 0 <= i < n -> match rd x i, rd idx i, rd count i with
                           | Some j, Some s, Some c => row_has jj s c j = true /\ 0 <= j < vlen /\ c < Z.of_nat fuel
                           | _, _, _ => False end) ->
  aug_final fuel n jj idx count x ulen vlen clen <> None.
Proof. exact aug_final_safe. Qed.
Print Assumptions C19_augment_final_loop_safe_partial.

From Centro Require Model.Hull Model.Median Model.PreC19 Proofs.PreC19Safe.


(* Full: median kernel — every pixel that passes the coordinate guards is inside data, mask AND
   output although all three are addressed with data's strides. *)
Theorem C19_median_pixel_offset : forall rows cols rs cs mrows mcols mrs mcs orows ocols ors ocs radius percent y x,
  PreC19.kernel_pre_median rows cols rs cs mrows mcols mrs mcs orows ocols ors ocs radius percent = true ->
  0 <= y < rows -> 0 <= x < cols ->
  0 <= y * rs + x * cs < rows * cols /\ 0 <= y * rs + x * cs < mrows * mcols /\ 0 <= y * rs + x * cs < orows * ocols.
Proof. exact PreC19Safe.median_pixel_offset. Qed.
Print Assumptions C19_median_pixel_offset.

(* Full: fine[value], coarse[value // 16], the fine block of a coarse bin, last_update_column. *)
Theorem C19_median_hist_indices : forall v, 0 <= v < 256 ->
  0 <= v < 256 /\ 0 <= v / 16 < 16 /\ 0 <= (v / 16) * 16 /\ (v / 16) * 16 + 16 <= 256.
Proof. exact PreC19Safe.median_hist_indices. Qed.
Print Assumptions C19_median_hist_indices.

(* Full (C07's index theorem under the monitored precondition; Cython's % is floor-mod): the four
   circular column indices lie inside the stripe of columns + 2*radius + 1 histograms. *)
Theorem C19_median_pre_indices : forall rows cols rs cs mrows mcols mrs mcs orows ocols ors ocs radius percent,
  PreC19.kernel_pre_median rows cols rs cs mrows mcols mrs mcs orows ocols ors ocs radius percent = true ->
  forall (v : Median.variant) data mask row c,
  let e := Median.mk_env v data mask radius percent in
  0 <= Median.tl_br e row c < Median.e_SL e /\ 0 <= Median.tr_bl e row c < Median.e_SL e /\
  0 <= Median.lead_ix e c < Median.e_SL e /\ 0 <= Median.trail_ix e c < Median.e_SL e.
Proof. exact PreC19Safe.median_pre_indices. Qed.
Print Assumptions C19_median_pre_indices.

(* Full: np1D_to_vector / np2D_to_vector as fixed (element count from the data pointer) stay inside
   the three converted arrays; at least one node for C10's heap (heap_init needs from < nv). *)
Theorem C19_emd_pre_copies_safe : forall plen qlen pn pext qn qext crows ccols crowext pbuf qbuf crow,
  PreC19.kernel_pre_emd plen qlen pn pext qn qext crows ccols crowext = true ->
  zlen pbuf = pext -> zlen qbuf = qext -> zlen crow = crowext ->
  PreC19Safe.vec_copy pbuf pn <> None /\ PreC19Safe.vec_copy qbuf qn <> None /\
  PreC19Safe.vec_copy crow ccols <> None /\ 1 <= Z.max plen qlen.
Proof. exact PreC19Safe.emd_pre_copies_safe. Qed.
Print Assumptions C19_emd_pre_copies_safe.


(* ================================================================== round 3 *)
From Centro Require Proofs.HullC19Safe Proofs.AugC19Safe Proofs.MedianC19Safe Model.Lapjv Proofs.LapjvArr
  Proofs.LapjvAugMarks Proofs.LapjvAugFlip Proofs.MedianSlide Proofs.MedianStep Proofs.MedianInv.

(* Full (replaces the per-instance discharge of round 2; built on C02_hull_no_overflow, imported): for
   EVERY ijv buffer the kernel's asserts accept and every repeat-free index list, no label's hull
   written in place into the sorted buffer reaches pixidx — the overflow flag of C02's line-level
   model of convex_hull_ijv is false for every request. *)
Theorem C19_convex_hull_write_bound : forall ijv indexes,
  PreC19.kernel_pre_hull ijv indexes = true -> snd (Hull.convex_hull_ijv ijv indexes) = false.
Proof. exact HullC19Safe.hull_write_bound. Qed.
Print Assumptions C19_convex_hull_write_bound.


(* Full (answers "does C07's invariant imply the index ranges?": yes): the loop invariant of C07's
   line-level median model — Slots / AccInv / FineInv, proved Full by C07 — carries the sizes of every
   array of the model (stripe of columns+2R+1 slots, 16 coarse bins, 256 fine bins, 16 entries of
   last_update_column); a column step re-establishes it, and the four circular slot indices of the
   column address existing slots.  With C19_median_hist_indices (value -> bin) and
   C19_median_pixel_offset (guarded pixels) every index of a column step is in range.  The row start
   (row_init_inv) and find_median (C07_find_median_spec) keep the same invariant in C07's proofs. *)
Theorem C19_median_model_safe : forall e : Median.env, 1 <= Median.e_a2 e -> Median.e_a2 e < Median.e_R e ->
  MedianStep.Data8 e -> Median.e_sweep e = Median.e_R e ->
  Median.e_SL e = Median.e_cols e + 2 * Median.e_R e + 1 -> 0 <= Median.e_cols e -> 0 <= Median.e_rows e ->
  (forall c row : Z, MedianStep.hN e (MedianSlide.Soct e c row) < Median.M16) ->
  forall (s : Median.st) (row c : Z), - Median.e_R e <= c <= Median.e_cols e + Median.e_R e - 1 ->
  Median.s_row s = row ->
  MedianInv.Slots e s row (c - 1) -> MedianInv.AccInv e s row (c - 1) -> MedianInv.FineInv e s row (c - 1) ->
  let s' := Median.step_col e s c in
  MedianInv.Slots e s' row c /\ MedianInv.AccInv e s' row c /\ MedianInv.FineInv e s' row c /\
  Z.of_nat (length (Median.s_cols s')) = Median.e_SL e /\ length (Median.coarse (Median.s_acc s')) = 16%nat /\
  length (Median.fine (Median.s_acc s')) = 256%nat /\ length (Median.s_last s') = 16%nat /\
  0 <= Median.tl_br e row c < Z.of_nat (length (Median.s_cols s')) /\
  0 <= Median.tr_bl e row c < Z.of_nat (length (Median.s_cols s')) /\
  0 <= Median.lead_ix e c < Z.of_nat (length (Median.s_cols s')) /\
  0 <= Median.trail_ix e c < Z.of_nat (length (Median.s_cols s')).
Proof. exact MedianC19Safe.median_model_safe. Qed.
Print Assumptions C19_median_model_safe.

(* C10 (re-exported, owners' statements): the position table _nodes_to_Q stays consistent with the heap
   through decrease_key / remove_first / relax (so the test `_nodes_to_Q[v] < Q.size()` guards a valid
   slot), it is consistent initially, and every residual arc the shortest-path search follows ends
   in a node below nv with a non-negative reduced cost. *)
Theorem C19_reexp_C10_heap_position_table : ltac:(let t := type of Centro.Props.C10.C10_heap_position_table in exact t).
Proof. exact Centro.Props.C10.C10_heap_position_table. Qed.
Print Assumptions C19_reexp_C10_heap_position_table.

Theorem C19_reexp_C10_heap_init_position_table : ltac:(let t := type of Centro.Props.C10.C10_heap_init_position_table in exact t).
Proof. exact Centro.Props.C10.C10_heap_init_position_table. Qed.
Print Assumptions C19_reexp_C10_heap_init_position_table.

Theorem C19_reexp_C10_csp_residual_nonneg : ltac:(let t := type of Centro.Props.C10.C10_csp_residual_nonneg in exact t).
Proof. exact Centro.Props.C10.C10_csp_residual_nonneg. Qed.
Print Assumptions C19_reexp_C10_csp_residual_nonneg.

(* ================================================================== round 4 *)
From Centro Require Proofs.LapjvAugFuel Proofs.LapjvAugPred Props.C01.

(* Full (on b01's model, with b01's PMk invariant): the Dijkstra loop of a free row can fail to return
   ONLY through a rebuild of scan that comes out empty (Starved).  The out-of-fuel exit is excluded by
   counting `ready`, the failed cost lookup by "every assigned pair (y[j], j) is a listed pair" (which
   kernel_pre_augment checks on every recorded call). *)
Theorem C19_augment_none_is_empty_scan :
  forall (r n : nat) (rows : list (list (nat * Lapjv.ext))) (y : list nat) (v : list Lapjv.ext) (inf : Lapjv.ext),
  (forall i j c, In (j, c) (LapjvArr.row rows i) -> (j < n)%nat) ->
  (forall j, (j < n)%nat -> Lapjv.getn y j n <> n ->
             Lapjv.cost_at (Lapjv.rowget rows (Lapjv.getn y j n)) j <> None) ->
  forall fuel s, LapjvAugPred.PMk r n y s -> (n < fuel + length (Lapjv.g_ready s))%nat ->
  Lapjv.aug_loop fuel r n inf rows y v s = None -> AugC19Safe.Starved r n rows y v inf s.
Proof. exact AugC19Safe.aug_loop_none_starved. Qed.
Print Assumptions C19_augment_none_is_empty_scan.

(* Partial — and its premise is FALSE for some inputs inside C19's quantifier (known finding F20).
   Statement: for a free row r of a state whose x / y are partial inverses, IF no rebuild of scan along
   the run comes out empty (~ Starved g0 = aug_scan_nonempty), THEN the search returns, every to_do /
   scan / ready entry is below n and the lists fit into n entries, the exit column is below n, and the
   flip loop (fuel n+1) returns with x', y' of length n that are partial inverses again.
   The premise cannot be derived from has_PM for the kernel as written: the sentinel inf = sum(c) + 1 used
   as initial distance is NOT above every reduced cost once prices are negative, so on maximally sparse
   problems with forced expensive pairs a rebuild of scan finds no column and the C code reads
   p_scan[low] past `up` — an out-of-bounds access (F20: lapjv([0,0,1,1,2,3,3],[1,2,1,3,2,0,3],
   [14,1,2,14,14,2,2], True, 0) segfaults; C19_augment_scan_nonempty_refuted below).  What this theorem
   still says: an empty rebuild is the ONLY way augment leaves its arrays (with
   C19_augment_none_is_empty_scan), and with a true infinity as sentinel (the one-line repair
   `inf = np.inf`, not compilable here) the Hall argument C01_hall_block would apply. *)
Theorem C19_augment_row_safe_partial :
  forall (r n : nat) (rows : list (list (nat * Lapjv.ext))) (x y : list nat) (v : list Lapjv.ext) (inf : Lapjv.ext),
  (forall i j c, In (j, c) (LapjvArr.row rows i) -> (j < n)%nat) ->
  (forall i, NoDup (map fst (LapjvArr.row rows i))) ->
  (forall j, (j < n)%nat -> Lapjv.getn y j n <> n ->
             Lapjv.cost_at (Lapjv.rowget rows (Lapjv.getn y j n)) j <> None) ->
  forall ms : Lapjv.main_state,
  length x = n -> length y = n -> (r < n)%nat -> LapjvArr.free n y r -> LapjvAugFlip.PIh n x y None ->
  length (Lapjv.m_done ms) = n -> length (Lapjv.m_ontodo ms) = n -> length (Lapjv.m_pred ms) = n ->
  let row_r := Lapjv.rowget rows r in
  let '(d, ontodo, pred) := Lapjv.aug_init_row r v row_r (repeat inf n) (Lapjv.m_ontodo ms) (Lapjv.m_pred ms) in
  let g0 := Lapjv.mkAug d pred (Lapjv.m_done ms) ontodo (map fst row_r) [] [] inf in
  ~ AugC19Safe.Starved r n rows y v inf g0 ->
  exists s' j1, Lapjv.aug_loop (S (S n)) r n inf rows y v g0 = Some (s', j1) /\
    LapjvAugMarks.Bounds n s' /\ (length (Lapjv.g_todo s') <= n)%nat /\
    (length (Lapjv.g_ready s') + length (Lapjv.g_scan s') <= n)%nat /\ (j1 < n)%nat /\
    exists x' y', Lapjv.aug_flip (S n) r (Lapjv.g_pred s') j1 x y n = Some (x', y') /\
                  length x' = n /\ length y' = n /\ LapjvAugFlip.PIh n x' y' None.
Proof. exact AugC19Safe.augment_row_safe. Qed.
Print Assumptions C19_augment_row_safe_partial.

(* C01 round 7 (re-exported, owners' statements): the pred links of a returning search form a chain_ok
   chain; the flip never runs out of fuel and keeps x / y partial inverses; over all free rows the
   arrays keep length n; a None of the search is never a fuel artefact; the closing u loop finds
   every x[i]; whenever lapjv returns, x / y are mutually inverse permutations (all indices < n). *)
Theorem C19_reexp_C01_aug_pred_chain : ltac:(let t := type of Centro.Props.C01.C01_aug_pred_chain in exact t).
Proof. exact Centro.Props.C01.C01_aug_pred_chain. Qed.
Print Assumptions C19_reexp_C01_aug_pred_chain.

Theorem C19_reexp_C01_aug_flip_chain : ltac:(let t := type of Centro.Props.C01.C01_aug_flip_chain in exact t).
Proof. exact Centro.Props.C01.C01_aug_flip_chain. Qed.
Print Assumptions C19_reexp_C01_aug_flip_chain.

Theorem C19_reexp_C01_aug_rows_struct : ltac:(let t := type of Centro.Props.C01.C01_aug_rows_struct in exact t).
Proof. exact Centro.Props.C01.C01_aug_rows_struct. Qed.
Print Assumptions C19_reexp_C01_aug_rows_struct.

Theorem C19_reexp_C01_aug_loop_fuel : ltac:(let t := type of Centro.Props.C01.C01_aug_loop_fuel in exact t).
Proof. exact Centro.Props.C01.C01_aug_loop_fuel. Qed.
Print Assumptions C19_reexp_C01_aug_loop_fuel.

Theorem C19_reexp_C01_final_u_defined : ltac:(let t := type of Centro.Props.C01.C01_final_u_defined in exact t).
Proof. exact Centro.Props.C01.C01_final_u_defined. Qed.
Print Assumptions C19_reexp_C01_final_u_defined.

Theorem C19_reexp_C01_lapjv_fixed_pm : ltac:(let t := type of Centro.Props.C01.C01_lapjv_fixed_pm in exact t).
Proof. exact Centro.Props.C01.C01_lapjv_fixed_pm. Qed.
Print Assumptions C19_reexp_C01_lapjv_fixed_pm.

(* C10: the heap of min_cost_flow.hpp starts with well-formed entries (premise of the three
   C10_heap_*_safe theorems re-exported above) *)
Theorem C19_reexp_C10_heap_init_ok : ltac:(let t := type of Centro.Props.C10.C10_heap_init_ok in exact t).
Proof. exact Centro.Props.C10.C10_heap_init_ok. Qed.
Print Assumptions C19_reexp_C10_heap_init_ok.

(* ================================================================== round 5 *)
(* F20, re-exported from C01 (kernel-evaluated witness, n = 4, has_PM, well formed, 0 passes of augmenting
   row reduction): the faithful model with the code's sentinel gives None — its rebuild of scan is empty,
   i.e. aug_scan_nonempty / ~Starved is FALSE inside the quantifier — while the same model with a true
   infinity returns the optimum.  Memory safety of augment fails for the kernel as written. *)
Theorem C19_augment_scan_nonempty_refuted : ltac:(let t := type of Centro.Props.C01.C01_inf_sentinel_refuted in exact t).
Proof. exact Centro.Props.C01.C01_inf_sentinel_refuted. Qed.
Print Assumptions C19_augment_scan_nonempty_refuted.

(* ================================================================== round 6: input bounds under which the
   index-safety theorems speak about the COMPILED code (narrow C types), and the known findings beyond them *)
From Centro Require Model.HullW Proofs.HullWrap Props.C07.

(* C19_convex_hull_write_bound above is about C02's EXACT model.  The compiled kernel evaluates the turn
   test in a C int; inside coordinates <= M with M*M < 2^31 (M <= 46340) the as-written per-label kernel
   equals the exact one (C02_wrap_transfer), so the write bound holds for the compiled arithmetic: *)
Theorem C19_convex_hull_label_write_bound_as_written : forall M m pts slack, M * M < 2147483648 ->
  (forall q, In q pts -> HullWrap.inbox M q) -> HullCorrect.label_ok m pts -> 0 <= slack ->
  Hull.zlen (HullW.hull_label_w m pts slack) <= slack + Hull.zlen pts.
Proof. exact HullC19Safe.hull_label_write_bound_as_written. Qed.
Print Assumptions C19_convex_hull_label_write_bound_as_written.

(* ... and for the whole batch kernel as written (wrapped turn test, wrapped sentinel, the overwrite branch of
   the as-written walk): inside the bound no requested label's rows are written at or beyond pixidx *)
Theorem C19_convex_hull_write_bound_as_written : forall M ijv indexes, M * M < 2147483648 ->
  (forall x, In x ijv -> HullWrap.inbox M (Hull.r_pt x)) -> PreC19.kernel_pre_hull ijv indexes = true ->
  snd (HullW.convex_hull_ijv_w ijv indexes) = false.
Proof. exact HullC19Safe.hull_write_bound_as_written. Qed.
Print Assumptions C19_convex_hull_write_bound_as_written.

Theorem C19_reexp_C02_wrap_transfer : ltac:(let t := type of Centro.Props.C02.C02_wrap_transfer in exact t).
Proof. exact Centro.Props.C02.C02_wrap_transfer. Qed.
Print Assumptions C19_reexp_C02_wrap_transfer.

(* beyond the bound (known finding F22): the as-written turn test wraps; the memory consequence — a
   repeated vertex overruns the label's rows by one, past the buffer for the last label — is observed
   by the ASan stream and attributed by C02's as-written model *)
Theorem C19_reexp_C02_convex_wrap_refuted : ltac:(let t := type of Centro.Props.C02.C02_convex_wrap_refuted in exact t).
Proof. exact Centro.Props.C02.C02_convex_wrap_refuted. Qed.
Print Assumptions C19_reexp_C02_convex_wrap_refuted.

(* median_filter: C19_median_model_safe / _pre_indices / _pixel_offset speak about the real scratch block
   exactly when stripe_length = columns + 2*radius + 1 < 1573248: below it the 32-bit `unsigned int
   memory_size` of allocate_histograms is the exact size and covers everything the kernel touches *)
Theorem C19_reexp_C07_alloc_size_exact_below : ltac:(let t := type of Centro.Props.C07.C07_alloc_size_exact_below in exact t).
Proof. exact Centro.Props.C07.C07_alloc_size_exact_below. Qed.
Print Assumptions C19_reexp_C07_alloc_size_exact_below.

(* from that width on (known finding F23) the size wraps: 1 x 1573243, radius 2 gets malloc(600) *)
Theorem C19_reexp_C07_alloc_size_wrap_refuted : ltac:(let t := type of Centro.Props.C07.C07_alloc_size_wrap_refuted in exact t).
Proof. exact Centro.Props.C07.C07_alloc_size_wrap_refuted. Qed.
Print Assumptions C19_reexp_C07_alloc_size_wrap_refuted.

(* ================================================================== round 7 (known finding F36) *)
(* Full: kernel_pre_hull is FALSE on every index list that lists a label twice, in particular on the lists
   that repeat the largest label — the calls on which the compiled kernel reads labels_ijv[pixidx, 2] one
   row past the sorted buffer (F36: convex_hull(labels, [2, 2]); result depends on the garbage read, one
   run died with SIGSEGV).  C19_convex_hull_write_bound therefore never covered them; the defect is inside
   "every input accepted by the Python-level API" and is observed by the ASan / crash stream. *)
Theorem C19_hull_pre_rejects_repeated_max : forall ijv (l : Z) pre mid post,
  PreC19.kernel_pre_hull ijv (pre ++ l :: mid ++ l :: post) = false.
Proof. exact HullC19Safe.hull_pre_rejects_repeated_label. Qed.
Print Assumptions C19_hull_pre_rejects_repeated_max.
