(* C14 — property theorems.  Only statements, each closed by [exact], each followed by
   Print Assumptions. *)
From Coq Require Import ZArith QArith List Bool.
From Centro Require Import Spec.MecSpec Proofs.MecProofs.
Open Scope Q_scope.

(* Full.  Soundness of the certificate checker that is run on the exact circle reconstructed from
   the implementation's output: the circle contains every pixel centre of S and no circle
   (any rational centre, any squared radius) that contains S is smaller. *)
Theorem C14_mec_certificate : forall S s1 s2 s3 a1 a2 a3 cx cy R,
  mec_ok S s1 s2 s3 a1 a2 a3 cx cy R = true ->
  (forall p, In p S -> d2q p cx cy <= R) /\
  (forall ex ey rho, (forall p, In p S -> d2q p ex ey <= rho) -> R <= rho).
Proof. exact mec_certificate. Qed.
Print Assumptions C14_mec_certificate.

(* Full.  The minimum enclosing circle is unique: an enclosing circle that is not larger has the
   same centre (so comparing the reported centre with the certified one is meaningful). *)
Theorem C14_mec_unique : forall S s1 s2 s3 a1 a2 a3 cx cy R,
  mec_ok S s1 s2 s3 a1 a2 a3 cx cy R = true ->
  forall ex ey rho, (forall p, In p S -> d2q p ex ey <= rho) -> rho <= R -> ex == cx /\ ey == cy.
Proof. exact mec_unique. Qed.
Print Assumptions C14_mec_unique.
