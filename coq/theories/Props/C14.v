(* C14 — property theorems.  Only statements, each closed by [exact], each followed by
   Print Assumptions. *)
From Coq Require Import ZArith QArith List Bool.
From Centro Require Import Base.VecC13 Model.Circle Model.CircleVec Model.Feret Model.HullFill Spec.MecSpec Spec.ChrystalHyp Spec.FeretSpec Spec.FeretLower Spec.FillSpec
  Proofs.MecProofs Proofs.CircleProofs Proofs.ChrystalFull Proofs.ChrystalHull Spec.HullSpec Proofs.CircleVecProofs Proofs.CircleVecStep Proofs.FeretProofs Proofs.FeretLowerProofs Proofs.SweepProofs Spec.CalipersHyp Spec.FeretBrute Proofs.CalipersMax Proofs.CalipersMin Proofs.CalipersFull Proofs.CalipersHull Proofs.SweepFloat Proofs.FillProofs Proofs.FillEdgeProofs Proofs.FillModelProofs.

(* Full.  Soundness of the certificate checker that is run on the exact circle reconstructed from
   the implementation's output: the circle contains every pixel centre of S and no circle
   (any rational centre, any squared radius) that contains S is smaller. *)
Theorem C14_mec_certificate : forall S s1 s2 s3 a1 a2 a3 cx cy R,
  mec_ok S s1 s2 s3 a1 a2 a3 cx cy R = true ->
  (forall p, In p S -> (d2q p cx cy <= R)%Q) /\
  (forall ex ey rho, (forall p, In p S -> (d2q p ex ey <= rho)%Q) -> (R <= rho)%Q).
Proof. exact mec_certificate. Qed.
Print Assumptions C14_mec_certificate.

(* Full.  The minimum enclosing circle is unique: an enclosing circle that is not larger has the
   same centre (so comparing the reported centre with the certified one is meaningful). *)
Theorem C14_mec_unique : forall S s1 s2 s3 a1 a2 a3 cx cy R,
  mec_ok S s1 s2 s3 a1 a2 a3 cx cy R = true ->
  forall ex ey rho, (forall p, In p S -> (d2q p ex ey <= rho)%Q) -> (rho <= R)%Q -> (ex == cx /\ ey == cy)%Q.
Proof. exact mec_unique. Qed.
Print Assumptions C14_mec_unique.

(* Full, about the executable model of Chrystal's iteration that the correspondence ties to
   minimum_enclosing_circle: for every list of hull points, whatever circle the model returns
   (centre (ny/d, nx/d), squared radius rn/d^2) is never too large — every circle enclosing the
   points has at least that radius.  (The iteration can only stop on a diameter or on a triangle
   without obtuse angle, and either is a minimality certificate.) *)
Theorem C14_chrystal_lower_bound : forall h ny nx d rn,
  chrystal h = CCircle ny nx d rn ->
  d <> 0%Z /\
  forall ex ey rho, (forall p, In p h -> (d2q p ex ey <= rho)%Q) -> (inject_Z rn / inject_Z (d * d) <= rho)%Q.
Proof. exact chrystal_lower_bound. Qed.
Print Assumptions C14_chrystal_lower_bound.

(* Full.  Chrystal's iteration as written (start on hull points 0 and 1, vertex of smallest angle,
   cases 1 / 1a / 2, replacement of the obtuse end point) terminates within the model's iteration
   bound and returns THE minimum enclosing circle, for every point list in general position (points
   distinct, no three collinear: strict hull vertices) whose first two points span a supporting line
   (adjacent hull vertices) - in any orientation and from any starting vertex.  Invariant: the circle
   through S0, S1 and the smallest-angle vertex encloses all points (pencil-of-circles form of the
   inscribed-angle theorem, over Z); measure: the chord S0 S1 strictly lengthens at every
   replacement.  The boolean hypothesis is evaluated on every run's hull lists. *)
Theorem C14_chrystal_reaches_certificate : forall h,
  chrystal_hyp_ok h = true ->
  exists ny nx d rn,
    chrystal h = CCircle ny nx d rn /\
    MEC h (inject_Z ny / inject_Z d) (inject_Z nx / inject_Z d) (inject_Z rn / inject_Z (d * d)).
Proof. exact chrystal_reaches_certificate. Qed.
Print Assumptions C14_chrystal_reaches_certificate.

(* Full (C14 x C02).  Every non-empty vertex list V that meets C02's hull specification for a pixel
   set S (vertices are pixels, no repeats, every cyclically consecutive triple turns strictly in
   one sense, every pixel on the inner side of every edge) satisfies chrystal_hyp_ok: no three
   vertices are collinear (a middle one would be a proper convex combination of two pixels,
   contradicting C02_vertex_extreme) and the first edge supports the whole set. *)
Theorem C14_hull_satisfies_chrystal_hyp : forall S V,
  HullSpec S V -> V <> nil -> chrystal_hyp_ok V = true.
Proof. exact hull_satisfies_chrystal_hyp. Qed.
Print Assumptions C14_hull_satisfies_chrystal_hyp.

(* Full.  Hence Chrystal's iteration reaches the minimum enclosing circle of the hull vertices for
   every hull that convex_hull can hand to minimum_enclosing_circle under C02's specification. *)
Theorem C14_chrystal_on_every_hull : forall S V,
  HullSpec S V -> V <> nil ->
  exists ny nx d rn,
    chrystal V = CCircle ny nx d rn /\
    MEC V (inject_Z ny / inject_Z d) (inject_Z nx / inject_Z d) (inject_Z rn / inject_Z (d * d)).
Proof. exact (fun S V H N => chrystal_reaches_certificate V (hull_satisfies_chrystal_hyp S V H N)). Qed.
Print Assumptions C14_chrystal_on_every_hull.

(* ---- the vectorised bookkeeping of minimum_enclosing_circle (Model/CircleVec.v: global hull rows,
   point_index = offsets, anti_indexes_per_point = anti_index gather, within_label_indexes, global
   s0_idx / s1_idx), over the C13 idiom lemmas offsets_correct / anti_index_correct ---- *)

(* Full.  The rows addressed through point_index[k] .. + point_count[k] are exactly object k's block
   of the hull array, for any numbering and order of `indexes`. *)
Theorem C14_mec_vec_own_block : forall indexes blocks k l b,
  length indexes = length blocks -> nth_error indexes k = Some l -> nth_error blocks k = Some b ->
  exists off, nth_error (offsets (map zlenv blocks)) k = Some off /\
              segment (hull_rows indexes blocks) off (zlenv b) = map (pair l) b.
Proof. exact own_block. Qed.
Print Assumptions C14_mec_vec_own_block.

(* Full.  anti_indexes[label] of a row of object k is k (duplicate-free non-negative index list). *)
Theorem C14_mec_vec_own_anti : forall indexes k l,
  NoDup indexes -> (forall j, In j indexes -> (0 <= j)%Z) -> nth_error indexes k = Some l ->
  nthz (anti_index indexes) l 0%Z = Z.of_nat k.
Proof. exact own_anti. Qed.
Print Assumptions C14_mec_vec_own_anti.

(* Full.  What an iteration decides for object k (finish with which circle / which global row
   becomes the new S0 or S1) reads only k's own entries of keep_me, s0_idx, s1_idx and
   within_label_indexes at rows whose anti-index is k: two global states that agree there decide
   the same, whatever the other objects' data are. *)
Theorem C14_mec_vec_reads_local : forall rows app k st st',
  agree app k st st' -> decide rows app st k = decide rows app st' k.
Proof. exact decide_local. Qed.
Print Assumptions C14_mec_vec_reads_local.

(* Full (per-object independence of a whole pass of the vectorised loop).  Two global states with
   arrays of equal sizes that agree on object k's own entries (keep_me, s0_idx, s1_idx, result and
   within_label_indexes at k's rows) still agree on them after one pass over all n objects, whatever
   the other objects' entries are - provided every object's s0_idx / s1_idx point at its own rows
   (true initially by C14_mec_vec_own_block / own_anti and preserved, since a new S0 / S1 is one of
   the object's own candidate rows).  Composition of read-locality, the write frame
   (CircleVecProofs.others_frame) and congruence of an object's own write over the fold of all writes. *)
Theorem C14_mec_vec_independent : forall rows app n st st' k,
  (0 <= k < Z.of_nat n)%Z -> samelen st st' -> agree app k st st' ->
  (forall k', (0 <= k' < Z.of_nat n)%Z -> owner app st k') ->
  (forall k', (0 <= k' < Z.of_nat n)%Z -> owner app st' k') ->
  agree app k (vstep rows app n st) (vstep rows app n st').
Proof. exact vstep_independent. Qed.
Print Assumptions C14_mec_vec_independent.

(* Full.  The brute-force maximum Feret diameter (squared) that the implementation's value is
   compared with is the largest squared distance between two pixels of the object. *)
Theorem C14_feret_max_spec : forall S : list (Z * Z),
  (forall p q, In p S -> In q S -> (sdist2 p q <= max_d2 S)%Z) /\
  (S <> nil -> exists p q, In p S /\ In q S /\ sdist2 p q = max_d2 S).
Proof. exact feret_max_spec. Qed.
Print Assumptions C14_feret_max_spec.

(* Full (first half of the minimum Feret diameter).  A minimum width W = wn/wd accepted by the
   checker is the squared distance between two parallel lines that enclose every pixel of S (u is
   their common normal: lo <= <p,u> <= hi for all p in S, width^2 = (hi-lo)^2/|u|^2), and no pair of
   enclosing parallel lines one of which runs through an edge of the polygon H (whose vertices are
   pixels of S) is closer. *)
Theorem C14_feret_min_attained : forall S H a b wn wd,
  feret_min_ok S H a b wn wd = true ->
  (0 < wd)%Z /\
  (exists u lo hi, u <> (0, 0)%Z /\ Strip S u lo hi /\
                   ((hi - lo) * (hi - lo) * wd = wn * (fst u * fst u + snd u * snd u))%Z) /\
  (forall a' b', In (a', b') (edges H) ->
     In a' S /\ In b' S /\
     exists u lo hi, u <> (0, 0)%Z /\ Strip S u lo hi /\ (lo = fst u * fst a' + snd u * snd a')%Z /\
                     (lo = fst u * fst b' + snd u * snd b')%Z /\
                     (wn * (fst u * fst u + snd u * snd u) <= (hi - lo) * (hi - lo) * wd)%Z).
Proof. exact feret_min_strip. Qed.
Print Assumptions C14_feret_min_attained.

(* Full (second half).  A width W = wn/wd accepted by the cone certificate checker is a lower bound
   for EVERY enclosing pair of parallel lines, in any direction u with integer (hence, by scaling,
   rational) components: (hi-lo)^2/|u|^2 >= wn/wd.  Real directions are limits of rational ones and
   the width is continuous in u, so together with C14_feret_min_attained: W is the smallest
   distance between two parallel lines enclosing the pixels. *)
Theorem C14_feret_min_lower_bound : forall S l wn wd,
  feret_lower_ok S l wn wd = true ->
  forall u lo hi, Strip S u lo hi -> (lo <= hi)%Z ->
    (wn * (fst u * fst u + snd u * snd u) <= (hi - lo) * (hi - lo) * wd)%Z.
Proof. exact feret_lower_sound. Qed.
Print Assumptions C14_feret_min_lower_bound.

(* Full.  The antipodal sweep as written never exhausts the model's iteration bound, for any vertex
   list (each pass advances the antipode or the vertex; 2n passes at most). *)
Theorem C14_sweep_terminates : forall h, sweep h <> None.
Proof. exact sweep_terminates. Qed.
Print Assumptions C14_sweep_terminates.

(* Full.  The advance test of the sweep: the two distance2_to_line values share their denominator,
   so their exact rational comparison is the integer comparison the model performs.  (The code
   compares the correctly rounded doubles of these rationals; rounding is monotone, so the two
   decisions can only differ when dc > dn round to the same double, which needs squared cross
   products above 2^53, i.e. diameters above 9 741 - modelled, not verified.) *)
Theorem C14_sweep_advance_test_exact : forall n1 n2 den : Z, (0 < den)%Z ->
  ((inject_Z n1 / inject_Z den <= inject_Z n2 / inject_Z den)%Q <-> (n1 <= n2)%Z).
Proof. exact advance_test_exact. Qed.
Print Assumptions C14_sweep_advance_test_exact.

(* Full, relative to an abstract model of binary64 rounding.  For EVERY rounding operator that is
   monotone and has relative error at most 2^-53 on non-negative arguments (round-to-nearest
   division of doubles without underflow is one), the code's comparison of the two rounded quotients
   fl(n1/den) <= fl(n2/den) is the integer comparison n1 <= n2 that the model performs, whenever
   the numerators (squared cross products, exact in double arithmetic) are below 2^52.  Trusted, not
   proved: that IEEE-754 division satisfies the two hypotheses. *)
Theorem C14_sweep_float_compare_exact : forall rnd : Q -> Q,
  (forall x y, (x <= y)%Q -> (rnd x <= rnd y)%Q) ->
  (forall x, (0 <= x)%Q -> (x * (1 - eps) <= rnd x)%Q /\ (rnd x <= x * (1 + eps))%Q) ->
  forall n1 n2 den : Z,
    (0 <= n1 < 4503599627370496)%Z -> (0 <= n2 < 4503599627370496)%Z -> (0 < den)%Z ->
    ((rnd (inject_Z n1 / inject_Z den) <= rnd (inject_Z n2 / inject_Z den))%Q <-> (n1 <= n2)%Z).
Proof. exact float_compare_exact. Qed.
Print Assumptions C14_sweep_float_compare_exact.

(* Full (calipers = brute force, maximum).  For every strictly convex vertex cycle, in either
   orientation and from any starting vertex (strict_convex_ok: every other vertex strictly on one
   side of every edge), the maximum reported by the antipodal sweep as written IS the largest
   pairwise squared distance: a farthest pair is antipodal (diameter_antipodal_1/2: sign conditions
   on the edge directions at the pair, from the half-plane conditions and |.| <= diameter), the
   distance to an edge's line has no valley along the cycle (no_valley, by Cramer's rule in the
   cone of a vertex), and therefore the sweep's staircase path cannot step past the pair
   (row / column lemmas, a0 <= q, path_reaches).  The hypothesis is evaluated on every run's hulls. *)
Theorem C14_calipers_max_eq_bruteforce : forall h mx mn,
  strict_convex_ok h = true -> sweep h = Some (mx, mn) -> mx = max_d2 h.
Proof. exact sweep_max_complete. Qed.
Print Assumptions C14_calipers_max_eq_bruteforce.

(* Full (minimum construction, soundness).  For every strictly convex vertex cycle: every distance
   the code keeps as a candidate for the minimum Feret diameter - vertex v to the line through hull
   points a and a+1 (mod n), kept when both a and a+1 are antipodes of v in the symmetric closure of
   the recorded pairs - is the FULL width of the strip resting on edge a -> a+1: no vertex k is
   farther from that line.  (Every recorded pair is antipodal - loop_anti - and a vertex where the
   distance to an edge neither increases on leaving nor decreases on arriving is a global maximum -
   local_max_global, Cramer's rule in the vertex cone.)  So the reported minimum is never smaller
   than the narrowest edge strip. *)
Theorem C14_calipers_min_candidates_are_widths : forall h ps v a k,
  strict_convex_ok h = true -> antipodal_pairs h = Some ps ->
  (In (v, a) ps \/ In (a, v) ps) ->
  (In (v, nxt (length h) a) ps \/ In (nxt (length h) a, v) ps) -> (k < length h)%nat ->
  (cross2 (pnth k h) (pnth a h) (pnth (nxt (length h) a) h) <=
   cross2 (pnth v h) (pnth a h) (pnth (nxt (length h) a) h))%Z.
Proof. exact min_candidates_are_widths. Qed.
Print Assumptions C14_calipers_min_candidates_are_widths.

(* Full (calipers = brute force).  For every strictly convex vertex cycle, either orientation, any
   starting vertex: the antipodal sweep as written, with the code's construction of the minimum
   (symmetric closure of the recorded pairs, the extra index `count` for vertex 0, "second antipode
   is one less than its successor"), returns exactly the brute-force values - the largest pairwise
   squared distance, and (as a rational) the smallest over all edges of the largest squared
   distance of a vertex to the edge's line.  Ingredients: no_valley and local_max_global (Cramer's
   rule in a vertex cone), diameter_antipodal_1/2, the staircase lemmas (row / column / a0 <= q,
   loop_anti: every recorded pair is antipodal, loop_structure: one column step per column, one row
   step per row, last row >= a0), every_edge_has_candidate, candidates_are_widths, and the qmin
   fold calculus.  (The three lemmas named missing in round 2 correspond to diameter_antipodal_1/2,
   farthest_recorded + recorded_antipodal + every_edge_has_candidate, and candidates_are_widths.) *)
Theorem C14_calipers_eq_bruteforce : forall h mx mq,
  strict_convex_ok h = true -> sweep h = Some (mx, mq) ->
  mx = max_d2 h /\
  exists bq, bf_min h = Some bq /\ (0 < snd mq)%Z /\ (0 < snd bq)%Z /\ (fst mq * snd bq = fst bq * snd mq)%Z.
Proof. exact calipers_eq_bruteforce. Qed.
Print Assumptions C14_calipers_eq_bruteforce.

(* Full (C14 x C02).  Every hull polygon with at least three vertices that meets C02's specification
   is strictly convex in the sense of strict_convex_ok (C02 gives every pixel weakly on the inner
   side of every edge; the vertices are in general position by C14_hull_satisfies_chrystal_hyp's
   argument, so the other vertices are strictly inside), hence the calipers theorem holds for every
   hull convex_hull can hand to feret_diameter. *)
Theorem C14_hull_is_strictly_convex : forall PS V,
  HullSpec PS V -> (3 <= length V)%nat -> strict_convex_ok V = true.
Proof. exact hull_strictly_convex. Qed.
Print Assumptions C14_hull_is_strictly_convex.

(* Full.  One- and two-vertex hulls (and the empty one): the sweep is not entered; the maximum is the
   pairwise maximum and the minimum is 0. *)
Theorem C14_calipers_small_hulls : forall h, (length h <= 2)%nat -> sweep h = Some (max_d2 h, (0, 1)%Z).
Proof. exact calipers_small. Qed.
Print Assumptions C14_calipers_small_hulls.

(* Full.  Soundness of the fill checker run on the implementation's output: the rows are pairwise
   distinct and are exactly the lattice points (i,j) inside or on the polygon H of some object,
   carrying that object's label l. *)
Theorem C14_fill_checker_sound : forall objs out,
  fill_ok objs out = true ->
  NoDup out /\
  forall i j l, In (i, j, l) out <-> exists H, In (l, H) objs /\ inside H (i, j) = true.
Proof. exact fill_checker_sound. Qed.
Print Assumptions C14_fill_checker_sound.

(* Full (row level of the scan-line model).  The columns emitted for a run are exactly the integers
   between the exact rational intersections n0/d0 and n1/d1 of the two bounding edges. *)
Theorem C14_fill_run_exact : forall n0 d0 n1 d1 j, (0 < d0)%Z -> (0 < d1)%Z ->
  (In j (run_js n0 d0 n1 d1) <-> (n0 <= j * d0 /\ j * d1 <= n1)%Z).
Proof. exact run_js_spec. Qed.
Print Assumptions C14_fill_run_exact.

(* Full (edge level of the scan-line model).  The entries generated for a non-horizontal hull edge
   p -> q lie on rows between p and q and are the exact rational points where the edge's line meets
   those rows ... *)
Theorem C14_fill_edge_exact : forall l p q e,
  fst p <> fst q -> In e (snd (edge_entries l p q)) ->
  e_l e = l /\ (0 < e_jd e)%Z /\
  (Z.min (fst p) (fst q) <= e_i e <= Z.max (fst p) (fst q))%Z /\
  ((fst q - fst p) * (e_jn e - snd p * e_jd e) = (snd q - snd p) * (e_i e - fst p) * e_jd e)%Z.
Proof. exact edge_entries_exact. Qed.
Print Assumptions C14_fill_edge_exact.

(* Full.  The scan-line model of fill_convex_hulls as written (closing edge, n_i rows per edge,
   horizontal special case, exact interpolation, lexsort, runs, first/last entry, ceil/floor) is
   correct for EVERY list of objects with distinct labels whose vertex cycles are convex (all
   vertices on one closed side of every edge, either orientation, including one- and two-vertex
   objects): its rows are pairwise distinct and are exactly the lattice points inside or on the
   polygons, with the polygon's label.  The model is compared exactly, rows in order, with the
   implementation on every run, and the boolean hypothesis is evaluated on every run's hulls. *)
Theorem C14_fill_spec : forall objs,
  fill_hyp_ok objs = true ->
  NoDup (fill_model objs) /\
  forall i j l, In (i, j, l) (fill_model objs) <-> exists H, In (l, H) objs /\ inside H (i, j) = true.
Proof. exact fill_model_spec. Qed.
Print Assumptions C14_fill_spec.
