(* C11 — property theorems.  Only statements, each closed by [exact], each followed by
   Print Assumptions.  [get_threshold_prog], [get_threshold_consts], [threshold_access] and
   [threshold_dispatch] are REGENERATED from the staged centrosome/threshold.py on every run. *)
From Coq Require Import ZArith QArith List Bool String.
From Centro Require Import Base.Sx Base.ThresholdNum Model.ThresholdLang Gen.ThresholdC11 Spec.ThresholdSpec
  Proofs.ThresholdClamp.
Import ListNotations.
Open Scope Q_scope.

(* the body of get_threshold, as regenerated from the source, returns exactly the specified closed form
   (correction factor, range clamp of the global threshold, dispatch, second correction factor on the local
   array, band [g*0.7, g*1.5] intersected with the range, low clamp then high clamp, per-object sentinel) *)
Theorem get_threshold_closed_form : forall (mul amul : Q -> Q -> Q) (cast : Q -> Q) inp lo hi,
  run mul amul cast inp get_threshold_prog lo hi = ref_run mul amul cast inp lo hi.
Proof. exact run_eq_ref_lemma. Qed.
Print Assumptions get_threshold_closed_form.

(* S2: whatever the product, the modifier, the raw thresholds and the correction factor, the global
   threshold returned by the regenerated get_threshold lies within the requested limits (each limit
   may be absent) *)
Theorem global_in_range : forall (mul amul : Q -> Q -> Q) (cast : Q -> Q) inp lo hi l v,
  range_ok lo hi ->
  run mul amul cast inp get_threshold_prog lo hi = Some (l, v) ->
  exists g, v = VNum g /\ in_range lo hi g.
Proof. exact global_in_range_lemma. Qed.
Print Assumptions global_in_range.

(* S3: every local threshold (every pixel that does not carry the per-object sentinel) lies in the
   range and in the band [g*0.7, g*1.5] computed with the same product — for ANY scalar product [mul] whose
   two band products bracket g (exact product: next theorem; binary64 product: fmul_band_bracket), any
   array product [amul] and any monotone conversion [cast] of stored scalars to the array's dtype (identity
   for float64 arrays; rounding to binary32 for the float32 array of per-object mode on a float32 image:
   the limits the elements respect are then the limits ROUNDED to binary32) *)
Theorem local_in_band : forall (mul amul : Q -> Q -> Q) (cast : Q -> Q) inp lo hi l g,
  (forall a b, a <= b -> cast a <= cast b) ->
  lo <= hi ->
  run mul amul cast inp get_threshold_prog (Some lo) (Some hi) = Some (l, VNum g) ->
  mul g band_lo <= g -> g <= mul g band_hi ->
  match l with
  | VNum t => lo <= t /\ t <= hi
  | VArr ts => forall i t, nth_error ts i = Some t -> unlabelled inp i = false ->
                           in_range_cast cast lo hi t /\ in_band_cast mul cast g t
  | VNone => False
  end.
Proof. exact local_in_band_lemma. Qed.
Print Assumptions local_in_band.

Theorem local_in_band_exact : forall inp lo hi l g,
  0 <= lo -> lo <= hi ->
  run Qmult Qmult (fun q => q) inp get_threshold_prog (Some lo) (Some hi) = Some (l, VNum g) ->
  match l with
  | VNum t => lo <= t /\ t <= hi
  | VArr ts => forall i t, nth_error ts i = Some t -> unlabelled inp i = false ->
                           (lo <= t /\ t <= hi) /\ (g * band_lo <= t /\ t <= g * band_hi)
  | VNone => False
  end.
Proof. exact local_in_band_exact_lemma. Qed.
Print Assumptions local_in_band_exact.

(* adaptive / per-object mode without both limits raises (max(None, x)): model and code reject alike *)
Theorem array_modifiers_need_both_limits : forall (mul amul : Q -> Q -> Q) (cast : Q -> Q) md cf raw_g raw_l lab0 lo hi,
  md <> MGlobal -> lo = None \/ hi = None ->
  run mul amul cast (mkIn md cf raw_g raw_l lab0) get_threshold_prog lo hi = None.
Proof. exact run_array_none. Qed.
Print Assumptions array_modifiers_need_both_limits.

(* the distinct float literals of the regenerated terms (in order of first appearance) are "1.5", "0.7" and
   the sentinel "1.0", they denote the doubles the specification uses, and they are the terms' only constants *)
Theorem band_consts :
  get_threshold_consts = [("1.5"%string, band_hi); ("0.7"%string, band_lo); ("1.0"%string, sentinel_value)] /\
  prog_consts get_threshold_prog = map snd get_threshold_consts.
Proof. exact band_consts_lemma. Qed.
Print Assumptions band_consts.

(* premise of crop_first_noninterference: every read of `image` in every function that receives
   (image, mask) is image[mask] / image[x & mask] / the whole image only when mask is None / a slice
   handed down with the same slice of mask / metadata; and get_global_threshold, RUN on each of the seven method names,
   calls exactly the method's own implementation with (image, mask, keywords filtered by its argument list) and raises
   on an unknown name — whatever control flow expresses it (if/elif chain, scanned table, dict) *)
Theorem access_crop_first :
  forallb (fun fa => forallb access_ok (snd fa)) threshold_access = true /\
  map fst threshold_access = expected_functions /\
  forallb (fun d => mem_string (snd d) (map fst threshold_access)) threshold_dispatch = true /\
  threshold_dispatch = expected_dispatch /\
  threshold_dispatch_filters_kwargs = true /\ threshold_dispatch_unknown_raises = true.
Proof. exact access_crop_first_lemma. Qed.
Print Assumptions access_crop_first.

(* premise of S4: no unseeded random stream in threshold.py, smooth.py, otsu.py (regenerated list) *)
Theorem random_streams_seeded :
  forallb (fun u => rand_ok (snd u)) threshold_random_uses = true.
Proof. exact random_streams_seeded_lemma. Qed.
Print Assumptions random_streams_seeded.

(* premise of S6: otsu, entropy, otsu3, entropy3 select the split where the score EQUALS its minimum (no tolerance:
   a tolerance is not scale invariant) — regenerated from otsu.py in normalised form *)
Theorem otsu_selects_exact_minimum :
  forallb (fun u => selection_ok (snd u)) otsu_selection = true /\
  map fst otsu_selection = ["otsu"; "entropy"; "otsu3"; "entropy3"]%string.
Proof. exact otsu_selects_exact_minimum_lemma. Qed.
Print Assumptions otsu_selects_exact_minimum.

(* soundness of the checker that is evaluated on get_threshold's actual return values *)
Theorem check_thresholds_sound : forall (mul : Q -> Q -> Q) (cast : Q -> Q) lo hi g band ts,
  check_thresholds mul cast lo hi g band ts = true ->
  in_range lo hi g /\
  Forall (fun t => in_range (cast_opt cast lo) (cast_opt cast hi) t /\ (band = true -> in_band_cast mul cast g t)) ts.
Proof. exact check_thresholds_sound_lemma. Qed.
Print Assumptions check_thresholds_sound.

(* ---------------------------------------------------------------- S1: crop-first non-interference *)
From Centro Require Import Proofs.ThresholdCrop Model.OtsuQ Proofs.OtsuProofs.
From Coq Require Import Permutation.

(* any method of the shape G(image[mask]) — G arbitrary — returns the same value on two images that
   agree on the mask *)
Theorem crop_first_noninterference : forall (A T : Type) (G : list A -> T) H W mask a b,
  agree A H W mask a b -> G (crop A H W a mask) = G (crop A H W b mask).
Proof. exact crop_first_noninterference_lemma. Qed.
Print Assumptions crop_first_noninterference.

(* … through the block loop of get_adaptive_threshold: all block thresholds coincide (and the spline is a
   function of them) *)
Theorem crop_first_noninterference_adaptive : forall (A T : Type) (G : list A -> T) H W mask a b blocks,
  agree A H W mask a b -> Forall (in_bounds H W) blocks ->
  map (block_threshold A T G a mask) blocks = map (block_threshold A T G b mask) blocks.
Proof. exact adaptive_noninterference_lemma. Qed.
Print Assumptions crop_first_noninterference_adaptive.

(* … per object: the threshold of object i depends only on the pixels of object i inside the mask *)
Theorem crop_first_noninterference_per_object : forall (A T : Type) (G : list A -> T) H W labels mask a b i blk,
  in_bounds H W blk -> agree A H W (object_mask labels mask i) a b ->
  object_threshold A T G labels a mask (i, blk) = object_threshold A T G labels b mask (i, blk).
Proof. exact per_object_noninterference_lemma. Qed.
Print Assumptions crop_first_noninterference_per_object.

Theorem crop_first_noninterference_object_loop : forall (A T : Type) (G : list A -> T) H W labels mask a b objs,
  agree A H W mask a b -> Forall (fun ob => in_bounds H W (snd ob)) objs ->
  map (object_threshold A T G labels a mask) objs = map (object_threshold A T G labels b mask) objs.
Proof. exact per_object_loop_noninterference_lemma. Qed.
Print Assumptions crop_first_noninterference_object_loop.

(* ---------------------------------------------------------------- S5/S6: two-class Otsu over exact arithmetic *)
Theorem otsu_perm_invariant : forall l l', Permutation l l' -> otsu l = otsu l'.
Proof. exact otsu_perm_invariant_lemma. Qed.
Print Assumptions otsu_perm_invariant.

Theorem otsu_nan_invariant : forall l1 l2, otsu (l1 ++ None :: l2) = otsu (l1 ++ l2).
Proof. exact otsu_nan_invariant_lemma. Qed.
Print Assumptions otsu_nan_invariant.

Theorem otsu_bracket : forall l lo hi,
  filter_nan l <> [] -> (forall x, In (Some x) l -> (lo <= x <= hi)%Z) ->
  inject_Z lo <= otsu l /\ otsu l <= inject_Z hi.
Proof. exact otsu_bracket_lemma. Qed.
Print Assumptions otsu_bracket.

(* S6: the cut commutes with positive affine rescaling (integer a > 0, b on the integer-scaled dyadic data;
   core lemma rv_aux_affine: the Welford recurrences of running_variance scale by a^2) *)
From Centro Require Import Proofs.OtsuAffine Proofs.ThresholdRound.
Theorem otsu_affine : forall (a b : Z), (0 < a)%Z -> forall l, filter_nan l <> [] ->
  otsu (map (option_map (fun x => (a * x + b)%Z)) l) == inject_Z a * otsu l + inject_Z b.
Proof. exact otsu_affine_lemma. Qed.
Print Assumptions otsu_affine.

(* ---------------------------------------------------------------- S3 in the implementation's arithmetic *)
(* for EVERY finite binary64 g >= 0 the two rounded band products bracket g (fmul = round-to-nearest-even
   binary64 of the exact product; band_lo, band_hi = the doubles 0.7 and 1.5) *)
Theorem fmul_band_bracket : forall g,
  0 <= g -> binary64 g -> fmul g band_lo <= g /\ g <= fmul g band_hi.
Proof. exact fmul_band_bracket_lemma. Qed.
Print Assumptions fmul_band_bracket.

(* hence S3 for binary64 scalar arithmetic with no side hypothesis except that the returned global
   threshold is a binary64 value *)
Theorem local_in_band_binary64 : forall (amul : Q -> Q -> Q) (cast : Q -> Q) inp lo hi l g,
  (forall a b, a <= b -> cast a <= cast b) ->
  0 <= lo -> lo <= hi ->
  run fmul amul cast inp get_threshold_prog (Some lo) (Some hi) = Some (l, VNum g) ->
  binary64 g ->
  match l with
  | VNum t => lo <= t /\ t <= hi
  | VArr ts => forall i t, nth_error ts i = Some t -> unlabelled inp i = false ->
                           in_range_cast cast lo hi t /\ in_band_cast fmul cast g t
  | VNone => False
  end.
Proof. exact local_in_band_binary64_lemma. Qed.
Print Assumptions local_in_band_binary64.

(* ---------------------------------------------------------------- S5 for Ridler-Calvard and MCT: executable models *)
From Centro Require Import Model.RidlerQ Model.MctZ Proofs.ThresholdBracket Proofs.MctBracket.
(* Ridler-Calvard, the model loop (Model.RidlerQ.rc_model: initial value otsu(im), then
   new = mean(mean(im[im < t]), mean(im[im >= t])) until |pre - new| <= delta), tied to
   get_ridler_calvard_threshold by the correspondence stream `rc`: for EVERY fuel, delta and data, whenever the
   loop returns (Some = converged within fuel, no empty class) the result lies between the smallest and the
   largest value.  The code's while-loop has no bound of its own; fuel is the harness's (200) and running out
   is reported, never compared.  Outside the model: the log / exp transfer around the loop (monotone, applied by
   the harness with NumPy). *)
Theorem rc_model_bracket : forall fuel delta data lo hi t,
  data <> [] -> (forall x, In x data -> (lo <= x <= hi)%Z) ->
  rc_model fuel delta data = Some t -> inject_Z lo <= t /\ t <= inject_Z hi.
Proof. exact rc_model_bracket_lemma. Qed.
Print Assumptions rc_model_bracket.

(* Maximum correlation threshold, the whole model (Model.MctZ.mct_threshold: binning, tail counts and tail
   deviation sums, squared scores, first arg-max, my_bin = argmax - 1, final formula), tied to
   get_maximum_correlation_threshold by the stream `mct`: for ALL non-constant data and bins >= 2 the threshold
   lies between the smallest and the largest value (the arg-max is never level 0: its score is 0 while the top
   level's is positive; and it is below the number of levels). *)
Theorem mct_model_bracket : forall data bins x0 r,
  data = x0 :: r -> (zmin_l x0 data < zmax_l x0 data)%Z -> (2 <= bins)%Z ->
  inject_Z (zmin_l x0 data) <= mct_threshold data bins /\ mct_threshold data bins <= inject_Z (zmax_l x0 data).
Proof. exact mct_model_bracket_lemma. Qed.
Print Assumptions mct_model_bracket.

(* ---------------------------------------------------------------- S1: structure of the per-object and adaptive passes *)
From Centro Require Import Spec.ThresholdStruct Model.AdaptiveGeom Proofs.ThresholdStructProofs.

(* cropping the whole image with a mask that vanishes outside a sub-rectangle = cropping the sub-rectangle *)
Theorem crop_window_equiv : forall (A : Type) H W (img : image A) (m : bmask) r0 c0 h w,
  (r0 + h <= H)%nat -> (c0 + w <= W)%nat ->
  (forall r c, (r < H)%nat -> (c < W)%nat -> m r c = true -> (r0 <= r < r0 + h)%nat /\ (c0 <= c < c0 + w)%nat) ->
  crop A H W img m = crop A h w (shift r0 c0 img) (shift r0 c0 m).
Proof. exact crop_window. Qed.
Print Assumptions crop_window_equiv.

(* the object loop of get_per_object_threshold as written — np.ones fill, one masked store per extent, the
   loop index being the label — gives at EVERY pixel what the checker demands of the implementation:
   G(image[mask & (labels == l)]) on object l, the fill elsewhere; for any G, any dtype conversion, any list
   of extents with the find_objects contract (entry (i, extent) for every label i present, the extent
   containing every pixel labelled i) *)
Theorem per_object_loop_meets_spec : forall (A : Type) (G : list A -> Q) H W labels mask img cast fill objs,
  Forall (extent_ok H W labels) objs ->
  (forall r c, (r < H)%nat -> (c < W)%nat -> (0 < labels r c)%Z -> exists blk, In (labels r c, blk) objs) ->
  forall r c, (r < H)%nat -> (c < W)%nat ->
  po_loop A G labels mask img cast objs (fun _ _ => cast fill) r c
  = per_object_pixel A G H W labels mask img cast fill r c.
Proof. exact po_loop_spec_lemma. Qed.
Print Assumptions per_object_loop_meets_spec.

(* soundness of the two structural checkers run on the implementation's raw arrays *)
Theorem check_per_object_sound : forall cast fill tab pixels,
  check_per_object cast fill tab pixels = true ->
  Forall (fun p : Z * bool * Q =>
            exists e, po_expected cast fill tab (fst (fst p)) (snd (fst p)) = Some e /\ snd p == e) pixels.
Proof. exact check_per_object_sound_lemma. Qed.
Print Assumptions check_per_object_sound.

Theorem check_blocks_sound : forall got exp, all_eq got exp = true -> Forall2 Qeq got exp.
Proof. exact all_eq_sound_lemma. Qed.
Print Assumptions check_blocks_sound.

(* adaptive block partition, in the code's binary64 arithmetic (Finite: image sides 2..100, every window with
   at least two blocks): boundaries start at 0, never decrease, number nblocks+1, the last one is the image
   side or ONE LESS, and the spline's output abscissae end at the last boundary *)
Theorem adaptive_axis_wellformed_finite : forall size win,
  In (size, win) (sizes_upto 100) -> axis_wellformed size win = true.
Proof. exact adaptive_axis_wellformed_forall. Qed.
Print Assumptions adaptive_axis_wellformed_finite.

(* "the blocks tile the whole image" does NOT hold of the code: 59 pixels, window 2 -> 29 blocks ending at 58 *)
Theorem adaptive_blocks_tile_refuted :
  exists size win, geom_ok size size win = true /\ last (ax_bounds (axis_geom size win)) 0%Z = (size - 1)%Z.
Proof. exact adaptive_blocks_tile_refuted_lemma. Qed.
Print Assumptions adaptive_blocks_tile_refuted.

(* ---------------------------------------------------------------- bodies of Kapur / Background / RobustBackground *)
From Centro Require Import Model.RobustQ Proofs.ThresholdBodies.

(* masked-crop non-interference for the three bodies: their REGENERATED access lists say that each reads `image`
   only as image[mask] (or the whole image when mask is None), and any function of that crop cannot distinguish
   images agreeing on the mask *)
Theorem body_methods_crop_first :
  (forall f, In f ["get_kapur_threshold"; "get_background_threshold"; "get_robust_background_threshold"]%string ->
     exists acc, In (f, acc) threshold_access /\ forallb access_ok acc = true /\
                 (forall a, In a acc -> a = CropMask \/ a = WholeIfNoMask)) /\
  (forall (A T : Type) (G : list A -> T) H W mask a b,
     agree A H W mask a b -> G (crop A H W a mask) = G (crop A H W b mask)).
Proof. exact body_methods_crop_first_lemma. Qed.
Print Assumptions body_methods_crop_first.

(* Background: for every arg-max bin of the regenerated nbins-bin histogram the returned value is in
   [min, min + 2 (max - min)] *)
Theorem background_value_range : forall index mn mx,
  0 <= index -> index <= inject_Z (background_nbins - 1) -> mn <= mx ->
  mn <= background_value index mn mx /\ background_value index mn mx <= mn + (2 # 1) * (mx - mn).
Proof. exact background_value_range_lemma. Qed.
Print Assumptions background_value_range.

(* Kapur: the exponent of the returned 2 ** (mean of two adjacent levels) lies between the smallest and the largest
   log2 intensity (regenerated level formula) *)
Theorem kapur_midpoint_range : forall i j lo hi,
  0 <= i -> i <= inject_Z (kapur_nlevels - 1) -> 0 <= j -> j <= inject_Z (kapur_nlevels - 1) -> lo <= hi ->
  lo <= (kapur_level i lo hi + kapur_level j lo hi) / (2 # 1) /\ (kapur_level i lo hi + kapur_level j lo hi) / (2 # 1) <= hi.
Proof. exact kapur_midpoint_range_lemma. Qed.
Print Assumptions kapur_midpoint_range.

(* RobustBackground: the mean of the trimmed sample of the reference model (tied by the stream `rob`) lies between
   the smallest and the largest value, whatever the fractions; the defaults are the regenerated ones *)
Theorem robust_mean_range : forall data lof uof lo hi,
  (forall x, In x data -> (lo <= x <= hi)%Z) ->
  let im := snd (robust_trim (zsort data) lof uof) in
  im <> [] ->
  inject_Z lo <= fst (mean_var im) /\ fst (mean_var im) <= inject_Z hi.
Proof. exact robust_mean_range_lemma. Qed.
Print Assumptions robust_mean_range.
