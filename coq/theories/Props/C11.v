(* C11 — property theorems.  Only statements, each closed by [exact], each followed by
   Print Assumptions.  [get_threshold_prog], [get_threshold_consts], [threshold_access] and
   [threshold_dispatch] are REGENERATED from the staged centrosome/threshold.py on every run. *)
From Coq Require Import ZArith QArith List Bool String.
From Centro Require Import Base.Sx Base.ThresholdNum Model.ThresholdLang Gen.ThresholdC11 Spec.ThresholdSpec
  Proofs.ThresholdClamp.
Import ListNotations.
Open Scope Q_scope.

(* S2: whatever the product, the modifier, the raw thresholds and the correction factor, the global
   threshold returned by the regenerated get_threshold lies within the requested limits (each limit
   may be absent) *)
Theorem global_in_range : forall (mul : Q -> Q -> Q) inp lo hi l v,
  range_ok lo hi ->
  run mul inp get_threshold_prog lo hi = Some (l, v) ->
  exists g, v = VNum g /\ in_range lo hi g.
Proof. exact global_in_range_lemma. Qed.
Print Assumptions global_in_range.

(* S3: every local threshold (every pixel that does not carry the per-object sentinel) lies in the
   range and in the band [g*0.7, g*1.5] computed with the same product — for ANY product [mul] whose
   two band products bracket g (true of the exact product, next theorem, and of a monotone rounding
   of it on representable g) *)
Theorem local_in_band : forall (mul : Q -> Q -> Q) inp lo hi l g,
  lo <= hi ->
  run mul inp get_threshold_prog (Some lo) (Some hi) = Some (l, VNum g) ->
  mul g band_lo <= g -> g <= mul g band_hi ->
  match l with
  | VNum t => lo <= t /\ t <= hi
  | VArr ts => forall i t, nth_error ts i = Some t -> unlabelled inp i = false ->
                           (lo <= t /\ t <= hi) /\ in_band mul g t
  | VNone => False
  end.
Proof. exact local_in_band_lemma. Qed.
Print Assumptions local_in_band.

Theorem local_in_band_exact : forall inp lo hi l g,
  0 <= lo -> lo <= hi ->
  run Qmult inp get_threshold_prog (Some lo) (Some hi) = Some (l, VNum g) ->
  match l with
  | VNum t => lo <= t /\ t <= hi
  | VArr ts => forall i t, nth_error ts i = Some t -> unlabelled inp i = false ->
                           (lo <= t /\ t <= hi) /\ (g * band_lo <= t /\ t <= g * band_hi)
  | VNone => False
  end.
Proof. exact local_in_band_exact_lemma. Qed.
Print Assumptions local_in_band_exact.

(* adaptive / per-object mode without both limits raises (max(None, x)): model and code reject alike *)
Theorem array_modifiers_need_both_limits : forall (mul : Q -> Q -> Q) md cf raw_g raw_l lab0 lo hi,
  md <> MGlobal -> lo = None \/ hi = None ->
  run mul (mkIn md cf raw_g raw_l lab0) get_threshold_prog lo hi = None.
Proof. exact run_array_none. Qed.
Print Assumptions array_modifiers_need_both_limits.

(* the band literals of the regenerated source are "0.7", "1.5" (and the sentinel "1.0"), and denote
   the doubles the specification uses *)
Theorem band_consts :
  get_threshold_consts = [("0.7"%string, band_lo); ("1.5"%string, band_hi); ("1.0"%string, sentinel_value)] /\
  stmt_consts get_threshold_prog = map snd get_threshold_consts.
Proof. exact band_consts_lemma. Qed.
Print Assumptions band_consts.

(* premise of crop_first_noninterference: every read of `image` in every function that receives
   (image, mask) is image[mask] / image[x & mask] / the whole image only when mask is None / a slice
   handed down with the same slice of mask / metadata *)
Theorem access_crop_first :
  forallb (fun fa => forallb access_ok (snd fa)) threshold_access = true /\
  map fst threshold_access = expected_functions /\
  forallb (fun d => mem_string d (map fst threshold_access)) threshold_dispatch = true /\
  List.length threshold_dispatch = 7%nat.
Proof. exact access_crop_first_lemma. Qed.
Print Assumptions access_crop_first.

(* soundness of the checker that is evaluated on get_threshold's actual return values *)
Theorem check_thresholds_sound : forall (mul : Q -> Q -> Q) lo hi g band ts,
  check_thresholds mul lo hi g band ts = true ->
  in_range lo hi g /\ Forall (fun t => in_range lo hi t /\ (band = true -> in_band mul g t)) ts.
Proof. exact check_thresholds_sound_lemma. Qed.
Print Assumptions check_thresholds_sound.
