(* C10 — property theorems.  Only statements, each closed by [exact], each followed by
   Print Assumptions. *)
From Coq Require Import ZArith List Bool.
From Centro Require Import Base.Sx Base.EmdBase Spec.Emd Model.Emd
  Proofs.EmdDuality Proofs.EmdScaled Proofs.EmdModel Proofs.EmdSsp.
Import ListNotations.
Open Scope Z_scope.

(* Soundness of the certificate checker that is run on the implementation's output for every case:
   whatever (untrusted) dual point the harness supplies, acceptance implies that d IS the earth
   mover's distance of the property text (transportation optimum for min(sum P, sum Q) units plus
   pen * |sum P - sum Q|) and that F is a feasible integral flow whose cost reproduces it.
   All sizes, all integer inputs.  (Example: Proofs.EmdScaled.cert_example.) *)
Theorem C10_transport_cert_optimal : forall P Q C pen d F al be ga,
  emd_cert_ok P Q C pen d F al be ga = true ->
  emd_spec P Q C pen d /\
  feasible (length P) (length Q) (nz P) (nz Q) (emd_T P Q) (mz F) /\
  d = cost (length P) (length Q) (mz C) (mz F) + pen * emd_extra P Q.
Proof. exact emd_cert_sound. Qed.
Print Assumptions C10_transport_cert_optimal.

(* ... and no FRACTIONAL flow is cheaper either: a rational flow with common denominator D is an
   integral flow g of the instance scaled by D. *)
Theorem C10_cert_excludes_fractional_flows : forall P Q C pen d F al be ga,
  emd_cert_ok P Q C pen d F al be ga = true ->
  forall D g, 0 < D ->
    feasible (length P) (length Q) (fun i => D * nz P i) (fun j => D * nz Q j) (D * emd_T P Q) g ->
    D * (d - pen * emd_extra P Q) <= cost (length P) (length Q) (mz C) g.
Proof. exact emd_cert_sound_fractional. Qed.
Print Assumptions C10_cert_excludes_fractional_flows.

(* (Example: Proofs.EmdScaled.weak_duality_hyps_example.) *)
Theorem C10_weak_duality : forall n m P Q C T alpha beta gamma f,
  feasible n m P Q T f -> dual_feasible n m C alpha beta gamma ->
  dual_value n m P Q T alpha beta gamma <= cost n m C f.
Proof. exact weak_duality. Qed.
Print Assumptions C10_weak_duality.

(* the value is unique: this is what makes "all six variants return the same number" and "model =
   implementation on the distance" consequences of one accepted certificate per instance *)
Theorem C10_value_unique : forall P Q C pen d1 d2,
  emd_spec P Q C pen d1 -> emd_spec P Q C pen d2 -> d1 = d2.
Proof. exact emd_spec_unique. Qed.
Print Assumptions C10_value_unique.

(* histograms of different lengths behave as if zero-padded, whatever ground distances the added
   bins get (the wrapper's vector::resize puts zeros).  (Example: padding_hyp_example.) *)
Theorem C10_padding_invariant : forall P Q C C' pen d a b,
  (forall i j, (i < length P)%nat -> (j < length Q)%nat -> mz C' i j = mz C i j) ->
  (emd_spec P Q C pen d <-> emd_spec (P ++ repeat 0 a) (Q ++ repeat 0 b) C' pen d).
Proof. exact padding_invariant. Qed.
Print Assumptions C10_padding_invariant.

(* About the executable model (the one compared with the implementation). *)

(* the graph handed to min_cost_flow by the reduction of emd_hat_impl.hpp (swap, threshold node,
   removal of zero-mass / threshold-only nodes) is balanced — the code's assert(DEBUG_sum_bb==0) *)
Theorem C10_reduce_balanced : forall Pc Qc Cc emp,
  length Pc = length Qc -> zsum (r_bb (reduce Pc Qc Cc emp)) = 0.
Proof. exact reduce_balanced. Qed.
Print Assumptions C10_reduce_balanced.

(* FULL statement aimed at: for every valid input, if the model returns (d, F) for the full-flow
   variant then there is a dual point with emd_cert_ok p q c pen d F alpha beta gamma = true.
   PROVED here (all graphs, all sizes): whenever the model's successive-shortest-path solver returns,
   its result is a FLOW of the graph it was given — same arcs, non-negative net amounts, net outflow =
   supply at every node.  MISSING: (1) minimality of its cost (invariant "no negative residual
   cycle" / Bellman-Ford potentials stay feasible: lemma ssp_reduced_costs_nonneg), (2) the
   book-keeping from the reduced graph back to the n x m flow (read_back row/column sums,
   transform_flow_to_regular completes to min(sum P,sum Q) units, my_dist = cost + penalty).
   Both are checked per instance instead: the model's own (d, F) goes through emd_cert_ok in every
   run.  (Example: Proofs.EmdSsp.solver_hyps_example.) *)
Theorem C10_ssp_produces_cert_partial : forall bb cc arcs',
  graph_ok bb cc -> zsum bb = 0 ->
  ssp (supply_fuel bb) bb (mk_arcs cc) = Some arcs' ->
  map skel arcs' = map skel (mk_arcs cc) /\ nonneg_flow arcs' /\
  forall v, (v < length bb)%nat -> outflow arcs' v = nz bb v.
Proof. exact solver_returns_flow. Qed.
Print Assumptions C10_ssp_produces_cert_partial.

(* FULL statement aimed at: for a metric ground distance (zero diagonal, symmetric, triangle
   inequality) emd_hat_gd_metric returns the same value as emd_hat.
   PROVED here: the book-keeping of the metric pre-flow — it moves exactly min(P_i,Q_i) along the
   diagonal and hands P - min, Q - min to the common implementation.
   MISSING: the exchange argument (lemma diag_preflow_optimal: some optimal flow of a metric
   instance ships min(P_i,Q_i) from i to i).  Checked per instance instead: the gd_metric full flow
   must pass emd_cert_ok and all variants must return the same value. *)
Theorem C10_metric_shortcut_partial : forall P Q, length P = length Q ->
  let pf := preflow P Q in
  length pf = length P /\
  forall i, (i < length P)%nat ->
    let t := nth i pf (0, 0, 0) in
    snd t = Z.min (nz P i) (nz Q i) /\
    fst (fst t) = nz P i - snd t /\ snd (fst t) = nz Q i - snd t.
Proof. exact preflow_spec. Qed.
Print Assumptions C10_metric_shortcut_partial.
