(* C10 — property theorems.  Only statements, each closed by [exact], each followed by
   Print Assumptions. *)
From Coq Require Import ZArith List Bool.
From Centro Require Import Base.Sx Base.EmdBase Spec.Emd Model.Emd Model.EmdCert
  Proofs.EmdDuality Proofs.EmdScaled Proofs.EmdModel Proofs.EmdSsp Proofs.EmdCertModel Proofs.EmdMetric
  Proofs.EmdFuel Proofs.EmdHeap Proofs.EmdTransform Proofs.EmdHeapPos Proofs.EmdHeapOrd Proofs.EmdPotential
  Proofs.EmdMcfCert Proofs.EmdHeapMem Proofs.EmdDijkstra Proofs.EmdDijkstraInit
  Proofs.EmdTight Proofs.EmdGhost Proofs.EmdCspPost Proofs.EmdPairAddr Proofs.EmdGraphShape Proofs.EmdAugment Proofs.EmdRun Proofs.EmdConserve Proofs.EmdConserveRun Proofs.EmdIndex Proofs.EmdOptimal Proofs.EmdWrap.
From Centro Require Import Model.EmdAsIs Model.EmdW Proofs.EmdWrap2 Model.EmdP Proofs.EmdNoWrap.
From Centro Require Import Model.EmdMcf Proofs.EmdProgLL Proofs.EmdEndToEnd Proofs.EmdConserve Proofs.EmdXCaps Proofs.EmdReadBack Proofs.EmdDist Proofs.EmdNoFail Proofs.EmdRun.
Import ListNotations.
Open Scope Z_scope.

(* Soundness of the certificate checker that is run on the implementation's output for every case:
   whatever (untrusted) dual point the harness supplies, acceptance implies that d IS the earth
   mover's distance of the property text (transportation optimum for min(sum P, sum Q) units plus
   pen * |sum P - sum Q|) and that F is a feasible integral flow whose cost reproduces it.
   All sizes, all integer inputs.  (Example: Proofs.EmdScaled.cert_example.) *)
Theorem C10_transport_cert_optimal : forall P Q C pen d F al be ga,
  emd_cert_ok P Q C pen d F al be ga = true ->
  emd_spec P Q C pen d /\
  feasible (length P) (length Q) (nz P) (nz Q) (emd_T P Q) (mz F) /\
  d = cost (length P) (length Q) (mz C) (mz F) + pen * emd_extra P Q.
Proof. exact emd_cert_sound. Qed.
Print Assumptions C10_transport_cert_optimal.

(* ... and no FRACTIONAL flow is cheaper either: a rational flow with common denominator D is an
   integral flow g of the instance scaled by D. *)
Theorem C10_cert_excludes_fractional_flows : forall P Q C pen d F al be ga,
  emd_cert_ok P Q C pen d F al be ga = true ->
  forall D g, 0 < D ->
    feasible (length P) (length Q) (fun i => D * nz P i) (fun j => D * nz Q j) (D * emd_T P Q) g ->
    D * (d - pen * emd_extra P Q) <= cost (length P) (length Q) (mz C) g.
Proof. exact emd_cert_sound_fractional. Qed.
Print Assumptions C10_cert_excludes_fractional_flows.

(* (Example: Proofs.EmdScaled.weak_duality_hyps_example.) *)
Theorem C10_weak_duality : forall n m P Q C T alpha beta gamma f,
  feasible n m P Q T f -> dual_feasible n m C alpha beta gamma ->
  dual_value n m P Q T alpha beta gamma <= cost n m C f.
Proof. exact weak_duality. Qed.
Print Assumptions C10_weak_duality.

(* the value is unique: this is what makes "all six variants return the same number" and "model =
   implementation on the distance" consequences of one accepted certificate per instance *)
Theorem C10_value_unique : forall P Q C pen d1 d2,
  emd_spec P Q C pen d1 -> emd_spec P Q C pen d2 -> d1 = d2.
Proof. exact emd_spec_unique. Qed.
Print Assumptions C10_value_unique.

(* histograms of different lengths behave as if zero-padded, whatever ground distances the added
   bins get (the wrapper's vector::resize puts zeros).  (Example: padding_hyp_example.) *)
Theorem C10_padding_invariant : forall P Q C C' pen d a b,
  (forall i j, (i < length P)%nat -> (j < length Q)%nat -> mz C' i j = mz C i j) ->
  (emd_spec P Q C pen d <-> emd_spec (P ++ repeat 0 a) (Q ++ repeat 0 b) C' pen d).
Proof. exact padding_invariant. Qed.
Print Assumptions C10_padding_invariant.

(* About the executable model (the one compared with the implementation). *)

(* the graph handed to min_cost_flow by the reduction of emd_hat_impl.hpp (swap, threshold node,
   removal of zero-mass / threshold-only nodes) is balanced — the code's assert(DEBUG_sum_bb==0) *)
Theorem C10_reduce_balanced : forall Pc Qc Cc emp,
  length Pc = length Qc -> zsum (r_bb (reduce Pc Qc Cc emp)) = 0.
Proof. exact reduce_balanced. Qed.
Print Assumptions C10_reduce_balanced.

(* Every answer of the executable model that is compared with the implementation is the earth
   mover's distance: ALL inputs (no domain restriction), all six variants.  The model
   (Model.EmdCert.emd_certified) computes what the transcription of the code computes and then
   certifies its own full flow with emd_cert_ok (dual point from a Bellman-Ford search inside the
   model), answering None otherwise.  pen = None means "largest ground distance". *)
Theorem C10_model_emd_correct : forall p q c pen ft gd d F,
  emd_certified p q c pen ft gd = Some (d, F) ->
  emd_spec p q c (penalty_of c pen) d /\
  (ft = 2 -> feasible (length p) (length q) (nz p) (nz q) (emd_T p q) (mz F) /\
             d = cost (length p) (length q) (mz c) (mz F) + penalty_of c pen * emd_extra p q) /\
  (ft = 1 -> partial_ok p q c (penalty_of c pen) d F = true).
Proof. exact model_emd_correct. Qed.
Print Assumptions C10_model_emd_correct.

(* FULL statement aimed at: on the stated domain the certified model always answers
   (emd_certified ... <> None), i.e. the transcribed algorithm itself is optimal.
   PROVED here (all graphs, all sizes): whenever the model's successive-shortest-path solver returns,
   its result is a FLOW of the graph it was given — same arcs, non-negative net amounts, net outflow =
   supply at every node; and the reduced graph is balanced (C10_reduce_balanced).
   and the solver never runs out of fuel (C10_ssp_fuel_sufficient).
   MISSING: lemma ssp_reduced_costs_nonneg (no negative residual cycle is ever created, so no step
   returns Fail, the final flow is of minimum cost and the dual search succeeds) and the read-back
   book-keeping of read_back and my_dist (transform_flow_to_regular is done:
   C10_transform_regular_completes).  Observed instead: the certified model answers
   on every generated instance of every run (a None is reported as a correspondence failure).
   (Example: Proofs.EmdSsp.solver_hyps_example.) *)
Theorem C10_model_total_partial : forall bb cc arcs',
  graph_ok bb cc -> zsum bb = 0 ->
  ssp bb (mk_arcs cc) = Some arcs' ->
  map skel arcs' = map skel (mk_arcs cc) /\ nonneg_flow arcs' /\
  forall v, (v < length bb)%nat -> outflow arcs' v = nz bb v.
Proof. exact solver_returns_flow. Qed.
Print Assumptions C10_model_total_partial.

(* What an accepted WITHOUT_TRANSHIPMENT flow guarantees: F is part of a feasible full flow G whose
   cost + penalty is at most d, so d bounds the distance from above; with d equal to the certified
   distance (also demanded by the check) G is optimal: F is a sub-flow of an optimal transport.
   (Example: Proofs.EmdCertModel.partial_ok_example.) *)
Theorem C10_partial_flow_sound : forall P Q C pen d F,
  partial_ok P Q C pen d F = true ->
  exists G, feasible (length P) (length Q) (nz P) (nz Q) (emd_T P Q) G /\
            (forall i j, mz F i j <= G i j) /\
            cost (length P) (length Q) (mz C) G + pen * emd_extra P Q <= d /\
            (forall dstar, emd_spec P Q C pen dstar -> dstar <= d).
Proof. exact partial_ok_sound. Qed.
Print Assumptions C10_partial_flow_sound.

(* The metric shortcut (emd_hat_gd_metric): for a ground distance with zero diagonal, non-negative
   entries and the triangle inequality (symmetry is not needed), pre-flowing min(P_i,Q_i) on the
   diagonal leaves the optimum unchanged: the instance and the residual instance handed to the
   common implementation have the same optimal value.  All sizes, any T >= sum of the minima (in
   particular T = min(sum P, sum Q)).  (Example: Proofs.EmdMetric.metric_hyps_example.) *)
Theorem C10_metric_shortcut : forall n P Q C T,
  (forall i, (i < n)%nat -> C i i = 0) ->
  (forall i j, (i < n)%nat -> (j < n)%nat -> 0 <= C i j) ->
  (forall i j k, (i < n)%nat -> (j < n)%nat -> (k < n)%nat -> C k j <= C k i + C i j) ->
  zsum (map (mu P Q) (seq 0 n)) <= T ->
  (forall i, (i < n)%nat -> 0 <= P i) -> (forall i, (i < n)%nat -> 0 <= Q i) ->
  forall d, is_opt n n P Q C T d <-> is_opt n n (P' P Q) (Q' P Q) C (T' n P Q T) d.
Proof. exact diag_preflow_optimal. Qed.
Print Assumptions C10_metric_shortcut.

(* the model's pre-flow is that diagonal flow: it moves exactly min(P_i,Q_i) and hands P - min,
   Q - min to the common implementation *)
Theorem C10_metric_preflow_bookkeeping : forall P Q, length P = length Q ->
  let pf := preflow P Q in
  length pf = length P /\
  forall i, (i < length P)%nat ->
    let t := nth i pf (0, 0, 0) in
    snd t = Z.min (nz P i) (nz Q i) /\
    fst (fst t) = nz P i - snd t /\ snd (fst t) = nz Q i - snd t.
Proof. exact preflow_spec. Qed.
Print Assumptions C10_metric_preflow_bookkeeping.

(* Termination side of totality: every augmentation lowers the total positive excess by >= 1, so
   2^k augmentations (fuel level k) suffice when the total supply is below 2^k; the model uses
   k = 48 (int32 masses, fewer than 2^16 bins).  A run can then only end with Done or Fail. *)
Theorem C10_ssp_fuel_sufficient : forall k e arcs, pos_sum e < 2 ^ Z.of_nat k ->
  forall e' arcs', ssp_iter k e arcs <> More e' arcs'.
Proof. exact ssp_fuel_sufficient. Qed.
Print Assumptions C10_ssp_fuel_sufficient.

(* Line-level model of min_cost_flow.hpp (Model/EmdMcf.v; it reproduces the implementation's FLOWS
   exactly in every run).  Index safety of its binary heap: Q and _nodes_to_Q are read and written
   through bounds-checked accessors (None = the C++ would index outside the vector), and the heap
   operations never produce None, given only what the code itself ensures: entries name nodes
   inside the position table; decrease_key is called after the test _nodes_to_Q[v] < Q.size();
   remove_first is called on a non-empty heap.  PARENT / LEFT / RIGHT arithmetic included. *)
Theorem C10_heap_decrease_key_safe : forall h v alt pos, ents_ok h ->
  oget (snd h) v = Some pos -> (pos < length (fst h))%nat ->
  exists h', heap_decrease_key h v alt = Some h' /\ same_shape h h' /\ ents_ok h'.
Proof. exact heap_decrease_key_safe. Qed.
Print Assumptions C10_heap_decrease_key_safe.

Theorem C10_heap_remove_first_safe : forall h, ents_ok h -> (0 < length (fst h))%nat ->
  exists h', heap_remove_first h = Some h' /\ length (fst h') = (length (fst h) - 1)%nat /\
             length (snd h') = length (snd h) /\ ents_ok h'.
Proof. exact heap_remove_first_safe. Qed.
Print Assumptions C10_heap_remove_first_safe.

Theorem C10_heap_relax_safe : forall u du st v rc, ents_ok (sp_h st) -> (v < length (snd (sp_h st)))%nat ->
  exists st', relax u du st v rc = Some st' /\ same_shape (sp_h st) (sp_h st') /\ ents_ok (sp_h st').
Proof. exact relax_safe. Qed.
Print Assumptions C10_heap_relax_safe.

Theorem C10_heap_init_ok : forall nv from, (from < nv)%nat ->
  ents_ok (heap_init nv from) /\ length (fst (heap_init nv from)) = nv /\ length (snd (heap_init nv from)) = nv.
Proof. exact heap_init_ok. Qed.
Print Assumptions C10_heap_init_ok.

(* Book-keeping of flow_utils.hpp transform_flow_to_regular as transcribed (north-west-corner
   completion, fuel 2N+1): from ANY flow F within supplies and demands it always returns, and the
   result contains F and is a feasible flow of the transportation problem moving min(sum P,sum Q).
   All sizes.  (Example: Proofs.EmdTransform.transform_example.) *)
Theorem C10_transform_regular_completes : forall F P Q,
  let N := length P in
  square N F -> length Q = N ->
  (forall a b, 0 <= mz F a b) ->
  (forall a, (a < N)%nat -> rowsum N (mz F) a <= nz P a) ->
  (forall b, (b < N)%nat -> colsum N (mz F) b <= nz Q b) ->
  exists F', transform_flow_to_regular F P Q = Some F' /\ square N F' /\
             (forall a b, mz F a b <= mz F' a b) /\
             feasible N N (nz P) (nz Q) (emd_T P Q) (mz F').
Proof. exact transform_regular_spec. Qed.
Print Assumptions C10_transform_regular_completes.

(* ------------------------------------------------------------------------------------------------
   Round 4: layers towards "the line-level solver is optimal" (Model/EmdMcf.v).
   Layer 1, heap: position table consistent, min-heap order kept, root minimal. *)
Theorem C10_heap_position_table : forall h v alt h' u du st rc st',
  (pos_ok h -> heap_decrease_key h v alt = Some h' -> pos_ok h') /\
  (pos_ok h -> heap_remove_first h = Some h' -> pos_ok h') /\
  (pos_ok (sp_h st) -> relax u du st v rc = Some st' -> pos_ok (sp_h st')).
Proof. exact (fun h v alt h' u du st rc st' =>
  conj (heap_decrease_key_pos h v alt h') (conj (heap_remove_first_pos h h') (relax_pos u du st v rc st'))). Qed.
Print Assumptions C10_heap_position_table.

Theorem C10_heap_init_position_table : forall nv from, (from < nv)%nat -> pos_ok (heap_init nv from).
Proof. exact heap_init_pos. Qed.
Print Assumptions C10_heap_init_position_table.

Theorem C10_heap_decrease_key_order : forall h v alt h' pos, heap_ord h ->
  oget (snd h) v = Some pos -> (pos < hsize h)%nat -> alt <= key h pos ->
  heap_decrease_key h v alt = Some h' -> heap_ord h' /\ hsize h' = hsize h.
Proof. exact heap_decrease_key_ord. Qed.
Print Assumptions C10_heap_decrease_key_order.

Theorem C10_heap_remove_first_order : forall h h', heap_ord h -> (0 < hsize h)%nat ->
  heap_remove_first h = Some h' -> heap_ord h' /\ hsize h' = (hsize h - 1)%nat.
Proof. exact heap_remove_first_ord. Qed.
Print Assumptions C10_heap_remove_first_order.

Theorem C10_heap_root_min : forall h, heap_ord h -> forall k, (k < hsize h)%nat -> key h 0 <= key h k.
Proof. exact heap_root_min. Qed.
Print Assumptions C10_heap_root_min.

(* FULL statement aimed at (layer 1): when compute_shortest_path finalises a node, its d is the
   shortest reduced-cost distance from the start node (and the labels satisfy the three conditions
   of C10_potential_update_nonneg).  PROVED: the heap part above (the popped slot 0 is a minimum of the
   heap, the position table is exact, no index leaves the vectors).  MISSING: lemma
   dijkstra_labels_shortest (the classical argument on top of it: with non-negative reduced costs
   the minimum of the frontier is final; relax keeps "label = length of some path, <= label of every
   finalised predecessor + arc").
   Layer 2: the reduced-cost update is a potential shift and keeps residual arcs non-negative,
   conditional on exactly that post-condition. *)
Theorem C10_potential_update_nonneg : forall fl dd l fr to rc,
  0 <= rc ->
  (fin fl fr = true -> fin fl to = true -> nz dd to <= nz dd fr + rc) ->
  (fin fl fr = true -> fin fl to = false -> nz dd l <= nz dd fr + rc) ->
  (fin fl to = true -> nz dd to <= nz dd l) ->
  0 <= rc_update fl dd (nz dd l) fr to rc.
Proof. exact rc_update_nonneg. Qed.
Print Assumptions C10_potential_update_nonneg.

Theorem C10_potential_update_is_shift : forall fl dd dl fr to rc,
  rc_update fl dd dl fr to rc = rc + shift fl dd dl fr - shift fl dd dl to.
Proof. exact rc_update_is_potential_shift. Qed.
Print Assumptions C10_potential_update_is_shift.

Theorem C10_potential_update_tight : forall fl dd dl fr to rc,
  fin fl fr = true -> fin fl to = true -> nz dd to = nz dd fr + rc ->
  rc_update fl dd dl fr to rc = 0 /\ rc_update fl dd dl to fr (- rc) = 0.
Proof. exact rc_update_tight. Qed.
Print Assumptions C10_potential_update_tight.

(* Layer 3: the certificate for the graph handed to min_cost_flow — any graph, any size: a
   non-negative flow f with node potentials pi such that every arc has reduced cost >= 0 and every
   arc carrying flow has reduced cost <= 0 is cheapest among all non-negative flows with the same net
   outflow at every node.  With layers 1-2 this is what makes the final flow optimal without any
   search; what is MISSING to instantiate it on the model's state is the ghost invariant
   "stored reduced cost = cost + pi(from) - pi(to)" along the run (C10_potential_update_is_shift is
   its step) and layer 4 (read_back / my_dist through the node renaming of the reduction), so
   C10_model_emd_correct still uses the in-model certificate and C10_model_total stays partial. *)
Theorem C10_mcf_cert_optimal : forall nv sk,
  (forall k, In k (idx sk) -> (a_fr sk k < nv)%nat /\ (a_tt sk k < nv)%nat) ->
  forall pi f g,
  (forall k, In k (idx sk) -> 0 <= f k) -> (forall k, In k (idx sk) -> 0 <= g k) ->
  (forall v, (v < nv)%nat -> gout sk g v = gout sk f v) ->
  (forall k, In k (idx sk) -> 0 <= rcost sk pi k) ->
  (forall k, In k (idx sk) -> 0 < f k -> rcost sk pi k <= 0) ->
  gcost sk f <= gcost sk g.
Proof. exact mcf_cert_optimal. Qed.
Print Assumptions C10_mcf_cert_optimal.

(* ------------------------------------------------------------------------------------------------
   Round 5.  dijkstra_labels_shortest — Full: for every call of compute_shortest_path on lists whose
   residual arcs (forward entries; backward entries with capacity > 0) have non-negative reduced
   costs and targets inside the graph, when the Dijkstra loop (array heap, position table, early
   exit at the first deficit node l) returns, l is finalised and the labels d of the finalised
   nodes satisfy the three inequalities of C10_potential_update_nonneg: consistency along arcs between
   finalised nodes, d[l] <= d[a] + rc for arcs leaving the finalised set, d[v] <= d[l] for
   finalised v (popped keys are non-decreasing).  Proof: loop invariant J (Proofs/EmdDijkstra.v)
   on top of heap order, position table, heap membership.  (Example: csp_example.) *)
Theorem C10_dijkstra_labels_shortest : forall nv e rf rb,
  (forall u v rc, res_arc rf rb u v rc -> (v < nv)%nat /\ 0 <= rc) ->
  forall d prev from st l, (from < nv)%nat -> length d = nv ->
  dijkstra (S nv) e rf rb {| sp_h := heap_init nv from; sp_d := d; sp_prev := prev; sp_final := repeat false nv |}
    = Some (st, l) ->
  Post nv rf rb st l.
Proof. exact dijkstra_labels_shortest. Qed.
Print Assumptions C10_dijkstra_labels_shortest.

(* ssp_reduced_costs_nonneg, potential-update half — Full: the reduced-cost lists handed back by
   compute_shortest_path are again non-negative on every residual arc (so the invariant survives the
   shortest-path phase of every iteration).
   MISSING for the whole iteration (kept partial, named): augment_keeps_residual_nonneg — the arcs of
   the prev-path are tight (J needs the clause "key of v = d[prev v] + rc"), forward and backward
   entries of one arc carry opposite reduced costs (mcf_reduced_cost_ghost_invariant, whose step is
   C10_potential_update_is_shift), so the backward arcs opened by augment have reduced cost 0
   (C10_potential_update_tight).  With it: Fail unreachable on balanced non-negative graphs and
   C10_mcf_model_optimal by C10_mcf_cert_optimal; then read_back_bookkeeping for C10_model_total. *)
Theorem C10_csp_residual_nonneg : forall nv e rf rb,
  (forall u v rc, res_arc rf rb u v rc -> (v < nv)%nat /\ 0 <= rc) ->
  forall d prev from dd' prev' rf' rb' l,
  (from < nv)%nat -> length d = nv -> length rf = nv -> length rb = nv ->
  compute_shortest_path nv d prev from rf rb e = Some (dd', prev', rf', rb', l) ->
  forall u v rc, res_arc rf' rb' u v rc -> (v < nv)%nat /\ 0 <= rc.
Proof. exact csp_residual_nonneg. Qed.
Print Assumptions C10_csp_residual_nonneg.

(* the loop invariant itself (any fuel, any state satisfying J) *)
Theorem C10_dijkstra_invariant : forall nv e rf rb,
  (forall u v rc, res_arc rf rb u v rc -> (v < nv)%nat /\ 0 <= rc) ->
  forall fuel st st' l, J nv rf rb st -> dijkstra fuel e rf rb st = Some (st', l) -> Post nv rf rb st' l.
Proof. exact dijkstra_inv. Qed.
Print Assumptions C10_dijkstra_invariant.

(* ------------------------------------------------------------------------------------------------
   Round 6.  Piece 1 of augment_keeps_residual_nonneg — Full: the arcs the augmenting path walks
   (v -> prev[v]) are TIGHT.  Every finalised node is either untouched (the start node with label 0,
   or a label still at the initial max) or was reached through a residual arc from its finalised
   prev with  d[v] = d[prev v] + reduced cost. *)
Theorem C10_dijkstra_prev_tight : forall nv e rf rb,
  (forall u v rc, res_arc rf rb u v rc -> (v < nv)%nat /\ 0 <= rc) ->
  forall from d prev st l, (from < nv)%nat -> length d = nv -> length prev = nv ->
  dijkstra (S nv) e rf rb {| sp_h := heap_init nv from; sp_d := d; sp_prev := prev; sp_final := repeat false nv |}
    = Some (st, l) ->
  TPost rf rb from st.
Proof. exact dijkstra_prev_tight. Qed.
Print Assumptions C10_dijkstra_prev_tight.

(* Piece 2, mcf_reduced_cost_ghost_invariant — Full: along the whole run of the line-level solver
   there are node potentials pi (a ghost, never stored by the code) such that the forward entry of
   every arc u->v is  c + pi(u) - pi(v)  and its backward entry is  -c + pi(v) - pi(u):  the two
   entries of one arc carry opposite reduced costs.  (pi = 0 at the start, shifted by every
   compute_shortest_path, untouched by augment.) *)
Theorem C10_mcf_reduced_cost_ghost_invariant : forall nv c, length c = nv ->
  forall e k, length e = nv ->
  match mcf_iter k (mcf_init e c) with
  | MDone st' | MMore st' => ghost_st nv c st'
  | MFail => True
  end.
Proof. exact mcf_reduced_cost_ghost_invariant. Qed.
Print Assumptions C10_mcf_reduced_cost_ghost_invariant.

(* The interface of one compute_shortest_path call towards the augmentation, on returned values. *)
Theorem C10_csp_post : forall nv e rf rb,
  (forall u v rc, res_arc rf rb u v rc -> (v < nv)%nat /\ 0 <= rc) ->
  forall d prev from dd' prev' rf' rb' l,
  (from < nv)%nat -> length d = nv -> length prev = nv ->
  compute_shortest_path nv d prev from rf rb e = Some (dd', prev', rf', rb', l) ->
  exists st,
    sp_d st = dd' /\ sp_prev st = prev' /\
    Post nv rf rb st l /\ TPost rf rb from st /\
    rf' = map (fun fx => map (fun en => (fst en, rc_update (sp_final st) dd' (nz dd' l) (fst fx) (fst en) (snd en))) (snd fx))
              (combine (seq 0 nv) rf) /\
    rb' = map (fun fx => map (fun en => (fst (fst en), rc_update (sp_final st) dd' (nz dd' l) (fst fx) (fst (fst en)) (snd (fst en)), snd en)) (snd fx))
              (combine (seq 0 nv) rb).
Proof. exact csp_post. Qed.
Print Assumptions C10_csp_post.

(* C10_ssp_reduced_costs_nonneg, both halves — still PARTIAL.  Proved: the shortest-path half
   (C10_csp_residual_nonneg), pieces 1 and 2 above, and that a tight arc and its reverse get reduced
   cost 0 (csp_tight_arc_zero).  MISSING: piece 3, augment_list_surgery — scan_delta / augment
   address capacities by (node, node) pairs (first entry of r_cost_cap_backward[to] pointing at from,
   and of [from] pointing at to), so they are only right when the path never uses an arc that has a
   parallel or an ANTI-PARALLEL companion; in the graphs of emd_hat_impl.hpp such companions exist
   exactly at the artificial node, hence the statement needs lemma artificial_node_unused (no
   shortest path to a deficit node passes the artificial node, by the cost argument maxC+1 > maxC).
   Consequently C10_mcf_model_optimal, "Fail unreachable", read_back_bookkeeping and C10_model_total
   remain open; C10_model_emd_correct keeps the in-model certificate. *)
Theorem C10_ssp_reduced_costs_nonneg_partial : forall rf rb from st l v,
  TPost rf rb from st -> fn st v = true -> ~ untouched from v (dd st v) ->
  exists rc, res_arc rf rb (pvn st v) v rc /\ fn st (pvn st v) = true /\
             rc_update (sp_final st) (sp_d st) (nz (sp_d st) l) (pvn st v) v rc = 0 /\
             rc_update (sp_final st) (sp_d st) (nz (sp_d st) l) v (pvn st v) (- rc) = 0.
Proof. exact csp_tight_arc_zero. Qed.
Print Assumptions C10_ssp_reduced_costs_nonneg_partial.

(* ------------------------------------------------------------------------------------------------
   Round 7.  C10_augment_pair_addressing: scan_delta / augment address capacities by NODE PAIRS (first
   entry of r_cost_cap_backward[from] pointing at `to`, first entry of [to] pointing at `from`),
   whichever arc the hop used.
   REFUTED for graphs with an anti-parallel pair: a two-node balanced graph with non-negative costs
   (arcs 0->1 and 1->0 of cost 1, supplies 2 / -2; optimum = 2) on which the forward hop 0->1 is limited
   by the zero flow of 1->0, the amount is 0, the state repeats and the solver never reaches Done —
   at every fuel level; the model answers None (the C++ would loop forever). *)
Theorem C10_augment_pair_addressing_refuted :
  exists e c st, zsum e = 0 /\ (forall l tc, In l c -> In tc l -> 0 <= snd tc) /\
    (exists a b, In a (mk_arcs c) /\ In b (mk_arcs c) /\ a_from a = a_to b /\ a_to a = a_from b) /\
    (forall k, (1 <= k)%nat -> mcf_iter k (mcf_init e c) = MMore st) /\ m_e st = e /\
    min_cost_flow_ll e c = None.
Proof. exact augment_pair_addressing_refuted_ex. Qed.
Print Assumptions C10_augment_pair_addressing_refuted.

(* ... and exact when the hop has no anti-parallel companion: under the ghost invariant the entries of
   r_cost_cap_backward[from] are the arcs INTO from, so if no arc to->from exists the pair (from,to)
   addresses nothing there — scan_delta is not limited and the decrement of augment is a no-op. *)
Theorem C10_augment_pair_addressing : forall nv c pi rf rb from to, ghost nv c pi rf rb -> (from < nv)%nat ->
  (forall a, In a (mk_arcs c) -> ~ (a_from a = to /\ a_to a = from)) ->
  find_bwd (nth from rb []) to = None /\ forall g, upd_first_bwd (nth from rb []) to g = nth from rb [].
Proof. exact pair_addressing_no_companion. Qed.
Print Assumptions C10_augment_pair_addressing.

(* The witness cannot be run against the real solver through the public API: unreachable through
   emd_hat_impl's construction.  In the graph the reduction builds, apart from the artificial node
   arcs only go source -> threshold -> sink, so two arcs are anti-parallel only if one end is the
   artificial node (old name 2N+1). *)
Theorem C10_emd_graph_no_companions_except_A : forall Pc Qc Cc emp a b,
  let r := reduce Pc Qc Cc emp in
  let AR := (2 * length Pc + 1)%nat in
  In a (mk_arcs (r_cc r)) -> In b (mk_arcs (r_cc r)) ->
  a_from a = a_to b -> a_to a = a_from b ->
  nth_error (r_old r) (a_from a) = Some AR \/ nth_error (r_old r) (a_to a) = Some AR.
Proof. exact emd_graph_no_companions_except_A. Qed.
Print Assumptions C10_emd_graph_no_companions_except_A.

(* STILL OPEN (named): artificial_node_unused — on these graphs no compute_shortest_path call finalises
   the artificial node before it exits (i -> T -> j costs maxC < maxC + 1); it needs the link between
   the ghost potentials and true distances.  Then augment_list_surgery (with C10_augment_pair_addressing,
   C10_dijkstra_prev_tight, C10_mcf_reduced_cost_ghost_invariant), C10_mcf_model_optimal via
   C10_mcf_cert_optimal, "Fail unreachable", read_back_bookkeeping, C10_model_total. *)

(* ------------------------------------------------------------------------------------------------
   Round 8.  augment_list_surgery / C10_ssp_reduced_costs_nonneg (BOTH halves) under the companion
   flag — Full for one iteration of the line-level solver: if the state carries ghost potentials, all
   residual arcs have reduced cost >= 0 and no capacity is negative, and the step's run-time flag is
   clear (every hop of the augmenting path joins two nodes connected by exactly one arc and ends at a
   reachable node; no capacity went negative), then after compute_shortest_path + scan_delta +
   augment all residual arcs again have reduced cost >= 0 (the backward arcs opened by the
   augmentation are tight: reduced cost 0).  The model records the flag (Model.EmdMcf.step_flag /
   mcf_iter_f / entry_emdlf); the harness counts it in every run: never set. *)
Theorem C10_ssp_reduced_costs_nonneg_if_flag_clear : forall nv c st st', length c = nv ->
  length (m_e st) = nv -> length (m_d st) = nv -> length (m_prev st) = nv ->
  (exists pi, ghost nv c pi (m_rf st) (m_rb st)) ->
  RAok nv (m_rf st) (m_rb st) -> caps_ok (m_rb st) = true ->
  mcf_step st = MMore st' -> step_flag st = false ->
  RAok nv (m_rf st') (m_rb st') /\ caps_ok (m_rb st') = true.
Proof. exact step_keeps_RA. Qed.
Print Assumptions C10_ssp_reduced_costs_nonneg_if_flag_clear.

(* its two list-level ingredients *)
Theorem C10_augment_positive_caps : forall fuel prev k to delta e x rb e' x' rb', 0 <= delta ->
  augment fuel prev k to delta e x rb = Some (e', x', rb') ->
  forall u v rc cap', In (v, rc, cap') (nth u rb' []) -> 0 < cap' ->
  (exists cap, In (v, rc, cap) (nth u rb []) /\ 0 < cap) \/ In (v, u) (hops fuel prev k to).
Proof. exact augment_positive_caps. Qed.
Print Assumptions C10_augment_positive_caps.

Theorem C10_hop_entry_zero : forall nv c, length c = nv ->
  forall pi rf rb from to, ghost nv c pi rf rb -> (from < nv)%nat -> (to < nv)%nat ->
  pair_count rf from to = 1%nat ->
  (In (to, 0) (nth from rf []) \/ exists cap, In (to, 0, cap) (nth from rb [])) ->
  forall rc cap, In (from, rc, cap) (nth to rb []) -> rc = 0.
Proof. exact hop_entry_zero. Qed.
Print Assumptions C10_hop_entry_zero.

(* STILL OPEN (named), in the order of the goal:
   mcf_run_invariant          — lift the step theorem to mcf_iter_f (lengths of d / prev kept by
                                compute_shortest_path, flag false for the whole run);
   x_caps_consistent          — capacity of a backward entry = net flow of its arc in x, so that
                                "flow > 0 => backward arc residual => reduced cost <= 0";
   C10_mcf_model_optimal_if_A_idle — instantiate C10_mcf_cert_optimal with the ghost potentials;
   mcf_no_fail_if_flag_clear  — Done or the flag;
   read_back_bookkeeping      — through rename_cc / red_c to emd_spec (C10_model_emd_correct_if_A_idle);
   artificial_node_unused     — the flag is never set on the graphs of emd_hat_impl.hpp. *)

(* ------------------------------------------------------------------------------------------------
   Round 9.  mcf_run_invariant — Full under the run's flag: along the whole flagged run of the
   line-level solver (any fuel level k, started from any state satisfying the invariant; run_init
   shows mcf_init does, for graphs with non-negative costs and in-range targets), if the final flag
   is clear then every state reached keeps: lengths, ghost potentials, every residual arc of
   reduced cost >= 0, no negative capacity. *)
Theorem C10_mcf_run_invariant : forall nv c, length c = nv ->
  forall k st fl r fl', RunInv nv c st ->
  mcf_iter_f k st fl = (r, fl') -> fl' = false ->
  match r with MDone st' | MMore st' => RunInv nv c st' | MFail => True end.
Proof. exact run_iter. Qed.
Print Assumptions C10_mcf_run_invariant.

(* C10_mcf_model_optimal_if_A_idle — PARTIAL (suffix kept).  Proved: when the flagged run of
   min_cost_flow_ll_f ends in Done with the flag clear (the flag is evaluated per case in the
   correspondence: never set), COMPLEMENTARY SLACKNESS holds for the flow f(a) := capacity of the
   backward entry of arc a, with the ghost potentials pi: f >= 0, every arc has reduced cost >= 0,
   every arc with f(a) > 0 has reduced cost <= 0 — premises 1, 4, 5 of C10_mcf_cert_optimal.
   MISSING for "the returned flow is a minimum-cost flow": premise 3 (conservation) for the whole
   run — its per-hop step is C10_hop_conserves below; lifting it through augment / mcf_iter_f is
   lemma caps_flow_conserved — and x_caps_consistent (the x lists that are returned carry the same
   net flow as the capacities).  artificial_node_unused (flag never set) also still open. *)
Theorem C10_mcf_model_optimal_if_A_idle_partial : forall nv c, length c = nv ->
  forall e st fl, length e = nv ->
  (forall l tc, In l c -> In tc l -> (fst tc < nv)%nat /\ 0 <= snd tc) ->
  mcf_iter_f ssp_levels (mcf_init e c) false = (MDone st, fl) -> fl = false ->
  exists pi, ghost nv c pi (m_rf st) (m_rb st) /\
    (forall a, In a (mk_arcs c) -> 0 <= a_cost a + pi (a_from a) - pi (a_to a)) /\
    (forall a cap, In a (mk_arcs c) ->
       In (a_from a, - a_cost a + pi (a_to a) - pi (a_from a), cap) (nth (a_to a) (m_rb st) []) ->
       0 <= cap /\ (0 < cap -> a_cost a + pi (a_from a) - pi (a_to a) <= 0)).
Proof. exact run_final_slackness. Qed.
Print Assumptions C10_mcf_model_optimal_if_A_idle_partial.

(* flow conservation, per hop: with exactly one arc between from and to, exactly one of the two
   capacity entries a hop addresses exists (C10_one_entry), and the hop leaves
   excess - inflow + outflow  unchanged at every node (inflow / outflow of the capacity flow). *)
Theorem C10_one_entry : forall nv c, length c = nv ->
  forall pi rf rb from to, ghost nv c pi rf rb -> (from < nv)%nat -> (to < nv)%nat ->
  pair_count rf from to = 1%nat ->
  has_to (nth to rb []) from + has_to (nth from rb []) to = 1.
Proof. exact one_entry. Qed.
Print Assumptions C10_one_entry.

Theorem C10_hop_conserves : forall nv c pi rf rb e from to dl, length c = nv ->
  ghost nv c pi rf rb -> length e = nv -> (from < nv)%nat -> (to < nv)%nat -> from <> to ->
  pair_count rf from to = 1%nat ->
  let rb1 := upd rb to (fun l => upd_first_bwd l from (fun c0 => c0 + dl)) in
  let rb2 := upd rb1 from (fun l => upd_first_bwd l to (fun c0 => c0 - dl)) in
  let e' := upd (upd e to (fun x => x + dl)) from (fun x => x - dl) in
  forall v, bal nv e' rb2 v = bal nv e rb v.
Proof. exact hop_conserves. Qed.
Print Assumptions C10_hop_conserves.

(* ------------------------------------------------------------------------------------------------
   Round 10.  caps_flow_conserved — Full under the flag: C10_hop_conserves lifted through augment
   (C10_augment_conserves), through one iteration (compute_shortest_path does not touch capacities)
   and through the whole flagged run: at Done with the flag clear, started from mcf_init on balanced
   supplies and a graph with non-negative costs, ALL excesses are zero and at every node
   outflow - inflow of the capacity flow equals the supply the solver was given. *)
Theorem C10_augment_conserves : forall nv c pi rf, length c = nv ->
  forall fuel prev k to dl e x rb e' x' rb',
  ghost nv c pi rf rb -> length e = nv ->
  (forall f t, In (f, t) (hops fuel prev k to) -> (f < nv)%nat /\ (t < nv)%nat /\ pair_count rf f t = 1%nat) ->
  augment fuel prev k to dl e x rb = Some (e', x', rb') ->
  forall v, bal nv e' rb' v = bal nv e rb v.
Proof. exact augment_conserves. Qed.
Print Assumptions C10_augment_conserves.

Theorem C10_caps_flow_conserved : forall nv c, length c = nv ->
  forall e st fl, length e = nv -> zsum e = 0 ->
  (forall l tc, In l c -> In tc l -> (fst tc < nv)%nat /\ 0 <= snd tc) ->
  mcf_iter_f ssp_levels (mcf_init e c) false = (MDone st, fl) -> fl = false ->
  (forall x, In x (m_e st) -> x = 0) /\
  forall v, (v < nv)%nat -> outflow_c nv (m_rb st) v - inflow (m_rb st) v = nz e v.
Proof. exact caps_flow_conserved. Qed.
Print Assumptions C10_caps_flow_conserved.

(* With C10_mcf_model_optimal_if_A_idle_partial (f >= 0, reduced costs >= 0, f > 0 => reduced cost <= 0)
   this gives, in list form, all five premises of C10_mcf_cert_optimal for the capacity flow at Done
   under the flag.  STILL OPEN (named): caps_flow_indexing (re-express the capacity flow as a function
   of the arc index so that gout = outflow - inflow, and instantiate the certificate),
   x_caps_consistent (the returned x lists carry the same net flow), mcf_no_fail_if_flag_clear,
   read_back_bookkeeping, artificial_node_unused.  So the suffix _partial stays and
   C10_model_emd_correct keeps the in-model certificate. *)

(* ------------------------------------------------------------------------------------------------
   Round 11.  C10_mcf_model_optimal_if_A_idle (no _partial): for every graph with non-negative costs
   and in-range targets and balanced supplies, when the flagged run of the line-level solver ends in
   Done with the flag clear (the hypothesis the correspondence evaluates per case: never set), the
   capacity flow indexed by arcs (capflow: arc k gets the capacity of its own backward entry,
   caps_flow_indexing) is a MINIMUM-COST flow: non-negative, outflow - inflow = supply at every node,
   and no non-negative flow with the same balances is cheaper (C10_mcf_cert_optimal instantiated with
   the ghost potentials).  About the capacities, not yet about the returned x lists
   (x_caps_consistent is open). *)
Theorem C10_mcf_model_optimal_if_A_idle : forall nv c e st fl, length c = nv ->
  (forall l tc, In l c -> In tc l -> (fst tc < nv)%nat /\ 0 <= snd tc) ->
  length e = nv -> zsum e = 0 ->
  mcf_iter_f ssp_levels (mcf_init e c) false = (MDone st, fl) -> fl = false ->
  let sk := sk_of c in
  let f := capflow c (m_rb st) in
  (forall k, In k (idx sk) -> 0 <= f k) /\
  (forall v, (v < nv)%nat -> gout sk f v = nz e v) /\
  forall g, (forall k, In k (idx sk) -> 0 <= g k) -> (forall v, (v < nv)%nat -> gout sk g v = nz e v) ->
            gcost sk f <= gcost sk g.
Proof. exact mcf_model_optimal_if_A_idle. Qed.
Print Assumptions C10_mcf_model_optimal_if_A_idle.

Theorem C10_caps_flow_indexing : forall nv c, length c = nv ->
  (forall l tc, In l c -> In tc l -> (fst tc < nv)%nat /\ 0 <= snd tc) ->
  forall rb pi rf v, ghost nv c pi rf rb ->
  gout (sk_of c) (capflow c rb) v = outflow_c nv rb v - inflow rb v.
Proof. exact gout_capflow. Qed.
Print Assumptions C10_caps_flow_indexing.

(* STILL OPEN (named): x_caps_consistent / read_back_bookkeeping (the x lists that are returned and
   read back carry the capacity flow), mcf_no_fail_if_flag_clear, artificial_node_unused — the last
   one is FALSE for the real int32 code when max(C) = 2^31-1 (maxC + 1 wraps; candidate finding
   C10-cand-2: the solver never returns) and is only meaningful with max(C) <= 2^31-2. *)

(* ------------------------------------------------------------------------------------------------
   Round 12.  Finding F21 (known).  C10_artificial_cost_wrap_refuted — kernel-evaluated witness of the
   exact call emd_hat_int32([1,0],[0,1],[[0,5],[2147483647,0]]): max(C) = 2^31-1 sits between EMPTY
   bins; the exact model returns the certified optimum 5; on the AS-WRITTEN graph (artificial arcs of
   cost wrap32(maxC+1) = -2^31, Model/EmdAsIs.v) the line-level solver after 2^6 augmentations has not
   finished, has raised the companion flag (hop through the artificial node) and has moved no supply;
   with 2^31-2 in that cell the as-written run finishes with the flag clear and both give 5.
   Consequently artificial_node_unused is stated only for max(C) <= 2^31-2
   (Proofs.EmdWrap.artificial_node_unused_statement; C10_wrap32_small: there the as-written cost is
   the exact one) and is still OPEN, as are x_caps_consistent / read_back_bookkeeping and
   mcf_no_fail_if_flag_clear. *)
Theorem C10_artificial_cost_wrap_refuted :
  max_entry f21_c = 2147483647 /\ wrap32 (max_entry f21_c + 1) = -2147483648 /\
  emd_certified f21_p f21_q f21_c None 2 false = Some (5, [[0; 1]; [0; 0]]) /\
  asis_probe f21_p f21_q f21_c None = (false, true, true) /\
  asis_probe f21_p f21_q f21_c_ok None = (true, false, false) /\
  emd_certified f21_p f21_q f21_c_ok None 2 false = Some (5, [[0; 1]; [0; 0]]).
Proof. exact artificial_cost_wrap_refuted. Qed.
Print Assumptions C10_artificial_cost_wrap_refuted.

Theorem C10_wrap32_small : forall z, 0 <= z <= 2147483646 -> wrap32 (z + 1) = z + 1.
Proof. exact wrap32_small. Qed.
Print Assumptions C10_wrap32_small.

(* ------------------------------------------------------------------------------------------------
   Round 13.  Finding family F25 (known): int32 intermediate overflow in FastEMD although every input
   entry and the true result fit int32.  Model/EmdW.v is the whole pipeline with a function w applied
   to every int addition / subtraction / negation / multiplication of the C++ (w = wrap32: as written
   for NUM_T = int; w = identity: exact).  Kernel-evaluated witnesses: *)
Theorem C10_int32_sp_overflow_refuted :
  emd_hat_int32_w wrap32 [1; 2] [1; 1] [[1; 1]; [two30; two30 + 1]] (Some 0) 2 false = (0, 1073741826, [[1; 0]; [0; 1]]) /\
  emd_hat_int32_w exactw [1; 2] [1; 1] [[1; 1]; [two30; two30 + 1]] (Some 0) 2 false = (0, 1073741825, [[0; 1]; [1; 0]]) /\
  emd_certified [1; 2] [1; 1] [[1; 1]; [two30; two30 + 1]] (Some 0) 2 false = Some (1073741825, [[0; 1]; [1; 0]]) /\
  emd_hat_int32_w wrap32 [1; 2] [1; 1] [[1; 1]; [two30 - 1; two30]] (Some 0) 2 false = (0, 1073741824, [[0; 1]; [1; 0]]).
Proof. exact int32_sp_overflow_refuted. Qed.
Print Assumptions C10_int32_sp_overflow_refuted.

Theorem C10_int32_mass_sum_refuted :
  emd_hat_int32_w wrap32 [1] [two30; two30] [[0; 1]] (Some 0) 2 false = (0, 2147483647, [[1; 0]]) /\
  emd_hat_int32_w exactw [1] [two30; two30] [[0; 1]] (Some 0) 2 false = (0, 0, [[1; 0]]) /\
  emd_certified [1] [two30; two30] [[0; 1]] (Some 0) 2 false = Some (0, [[1; 0]]).
Proof. exact int32_mass_sum_refuted. Qed.
Print Assumptions C10_int32_mass_sum_refuted.

Theorem C10_int32_hang_refuted :
  fst (fst (emd_hat_int32_w wrap32 [1; 1] [1; 1] [[1000000000; 2000000000]; [1000000000; 1000000000]] None 0 false)) = 1 /\
  fst (fst (emd_hat_int32_w wrap32 [1; 0] [0; 1] [[0; 5]; [2147483647; 0]] None 0 false)) = 1 /\
  emd_certified [1; 1] [1; 1] [[1000000000; 2000000000]; [1000000000; 1000000000]] None 0 false = Some (2000000000, []).
Proof. exact int32_hang_refuted. Qed.
Print Assumptions C10_int32_hang_refuted.

(* C10_no_wrap_below_bound — PARTIAL.  FULL statement aimed at: if every intermediate of the exact run
   (w = identity) on an input has magnitude < 2^31, then emd_hat_int32_w wrap32 = emd_hat_int32_w exactw
   on that input — the sharp hypothesis under which the optimality theorems speak about the int32 code.
   PROVED: the per-operation half — an int operation whose exact result is representable is unchanged
   by the wrap, and a sequential int accumulation whose partial sums are all representable equals the
   exact sum.  MISSING: lemma wrapped_run_simulation (thread "all intermediates so far representable"
   through reduce_w / mcf_iter_w / read_back_w / transform_w; needs the model in a form that records
   its intermediates).  Used operationally instead: a failure is attributed to F25 only if the
   as-written model DIFFERS from the exact model on that input and reproduces the implementation. *)
Theorem C10_no_wrap_below_bound_partial :
  (forall z, -2147483648 <= z <= 2147483647 -> wrap32 z = z) /\
  (forall l s, (forall k, (k <= length l)%nat -> -2147483648 <= s + zsum (firstn k l) <= 2147483647) ->
     fold_left (fun s x => wrap32 (s + x)) l s = s + zsum l).
Proof. exact (conj wrap32_id wsum_exact). Qed.
Print Assumptions C10_no_wrap_below_bound_partial.

(* ------------------------------------------------------------------------------------------------
   Round 14.  C10_no_wrap_below_bound (no _partial).  Model/EmdP.v is the whole FastEMD pipeline as a
   PROGRAM over int operations (free monad: Op z k = "an int operation with exact result z, continue
   with k (w z)"); run w p executes it with number semantics w; okp p is the ghost check recorded by
   the exact run: every operation on the exact path has a representable result.  The hypothesis
   no_wrap_b is a decidable boolean and is evaluated for every case and variant in the correspondence;
   there the as-written program must return the implementation's distance AND flow.
   wrapped_run_simulation is generic (any program); C10_no_wrap_below_bound instantiates it: when
   no_wrap_b holds, the code as written for NUM_T = int (wrap32 after every operation) computes
   exactly what the exact (Z-valued) computation computes — the sharp hypothesis under which the
   statements about the exact models speak about the int32 code.  (It is sufficient, not necessary:
   Proofs.EmdNoWrap.prog_agrees_with_section.) *)
Theorem C10_wrapped_run_simulation : forall (A : Type) (p : prog A), okp p = true -> run wrap32 p = run idz p.
Proof. exact @wrapped_run_simulation. Qed.
Print Assumptions C10_wrapped_run_simulation.

Theorem C10_no_wrap_below_bound : forall p q c pen ft gd,
  no_wrap_b p q c pen ft gd = true ->
  emd_int32_as_written p q c pen ft gd = emd_int32_exact p q c pen ft gd.
Proof. exact no_wrap_below_bound. Qed.
Print Assumptions C10_no_wrap_below_bound.

(* ------------------------------------------------------------------------------------------------
   Round 15.  C10_prog_equals_ll — the exact run (w = identity) of the program model of Model/EmdP.v
   (the model that is compared with the int32 code, variant by variant) IS the line-level model of
   Model/EmdMcf.v the optimality theorems are about: whenever it finishes (status 0) the line-level
   model returns exactly its distance and flow.  Proved function by function (Proofs/EmdProgLL.v:
   relax / heap / Dijkstra / potential update / augment / mcf_step / mcf_iter / reduce / read_back /
   transform_flow_to_regular / pre-flow / padding). *)
Theorem C10_prog_equals_ll : forall p q c pen ft gd d F,
  emd_int32_exact p q c pen ft gd = (0, d, F) -> emd_hat_int32_ll p q c pen ft gd = Some (d, F).
Proof. exact prog_equals_ll. Qed.
Print Assumptions C10_prog_equals_ll.

(* the chain composed at the SOLVER level, no open premise: below the bound (okp, the per-case
   boolean) what min_cost_flow.hpp as written for int returns is the Done state of the line-level
   run, and with the companion flag clear (evaluated per case) the capacity flow of that state is a
   MINIMUM-COST flow of the graph the solver was given. *)
Theorem C10_mcf_int32_optimal_below_bound : forall e c md x,
  okp (min_cost_flow_p e c) = true ->
  run wrap32 (min_cost_flow_p e c) = (0, md, x) ->
  length c = length e ->
  (forall l tc, In l c -> In tc l -> (fst tc < length e)%nat /\ 0 <= snd tc) ->
  zsum e = 0 ->
  forall r fl, mcf_iter_f ssp_levels (mcf_init e c) false = (r, fl) -> fl = false ->
  exists st, r = MDone st /\ x = m_x st /\ md = x_dist (m_x st) /\
    let sk := sk_of c in
    let f := capflow c (m_rb st) in
    (forall k, In k (idx sk) -> 0 <= f k) /\
    (forall v, (v < length e)%nat -> gout sk f v = nz e v) /\
    forall g, (forall k, In k (idx sk) -> 0 <= g k) -> (forall v, (v < length e)%nat -> gout sk g v = nz e v) ->
              gcost sk f <= gcost sk g.
Proof. exact mcf_int32_optimal_below_bound. Qed.
Print Assumptions C10_mcf_int32_optimal_below_bound.

(* end to end, first link (full): under no_wrap_b (decidable, evaluated per case and variant) a finished
   run of the int32 code as written returns exactly the distance and flow of the flagged line-level
   model (as written = exact program = line-level model) *)
Theorem C10_emd_int32_is_flagged_ll : forall p q c pen ft gd d F,
  no_wrap_b p q c pen ft gd = true -> emd_int32_as_written p q c pen ft gd = (0, d, F) ->
  exists fl, emd_hat_int32_llf p q c pen ft gd = Some (d, F, fl).
Proof. exact emd_int32_is_flagged_ll. Qed.
Print Assumptions C10_emd_int32_is_flagged_ll.

(* ------------------------------------------------------------------------------------------------
   Round 16.  read_back_bookkeeping, the solver half and the read-back half (the graph-reduction half
   is what remains, see the end).
   C10_x_caps_consistent — at Done of the flagged run with the flag clear, between ANY two nodes the x
   lists that min_cost_flow returns (and read_back reads) carry the same NET flow as the backward
   capacities, i.e. as the flow proved of minimum cost; and no entry of x points at its own node.
   (capto t l = sum of the third components of the entries of l whose first component is t.) *)
Theorem C10_x_caps_consistent : forall nv c, length c = nv -> forall e st fl, length e = nv ->
  (forall l tc, In l c -> In tc l -> (fst tc < nv)%nat /\ 0 <= snd tc) ->
  mcf_iter_f ssp_levels (mcf_init e c) false = (MDone st, fl) -> fl = false ->
  (forall u v, capto v (nth u (m_x st) []) - capto u (nth v (m_x st) []) =
               capto u (nth v (m_rb st) []) - capto v (nth u (m_rb st) [])) /\
  (forall u, capto u (nth u (m_x st) []) = 0).
Proof. exact x_caps_consistent. Qed.
Print Assumptions C10_x_caps_consistent.

(* the distance: x_dist of the returned lists = cost of the arc-indexed capacity flow *)
Theorem C10_mcf_dist_is_capflow_cost : forall nv c, length c = nv ->
  (forall l tc, In l c -> In tc l -> (fst tc < nv)%nat /\ 0 <= snd tc) ->
  forall e st fl, length e = nv ->
  mcf_iter_f ssp_levels (mcf_init e c) false = (MDone st, fl) -> fl = false ->
  x_dist (m_x st) = gcost (sk_of c) (capflow c (m_rb st)).
Proof. exact dist_is_capflow_cost. Qed.
Print Assumptions C10_mcf_dist_is_capflow_cost.

(* solver level, composed with the int32 chain, no open premise besides the per-case flag: below the
   bound the number min_cost_flow.hpp as written for int returns is THE MINIMUM COST of the graph it
   was given (attained by a non-negative conserving flow, and a lower bound for all of them) *)
Theorem C10_mcf_int32_returns_min_cost : forall e c md x,
  okp (min_cost_flow_p e c) = true ->
  run wrap32 (min_cost_flow_p e c) = (0, md, x) ->
  length c = length e ->
  (forall l tc, In l c -> In tc l -> (fst tc < length e)%nat /\ 0 <= snd tc) ->
  zsum e = 0 ->
  forall r fl, mcf_iter_f ssp_levels (mcf_init e c) false = (r, fl) -> fl = false ->
  let sk := sk_of c in
  (exists f, (forall k, In k (idx sk) -> 0 <= f k) /\ (forall v, (v < length e)%nat -> gout sk f v = nz e v) /\ md = gcost sk f) /\
  (forall g, (forall k, In k (idx sk) -> 0 <= g k) -> (forall v, (v < length e)%nat -> gout sk g v = nz e v) -> md <= gcost sk g).
Proof. exact mcf_int32_returns_min_cost. Qed.
Print Assumptions C10_mcf_int32_returns_min_cost.

(* read_back, cell by cell (any x, any reduced record): every entry of the x lists is skipped or adds
   +/- its flow to one cell (Proofs.EmdReadBack.rb_target mirrors the code), so an in-range cell of the
   result is the cell of F0 plus the contributions aimed at it *)
Theorem C10_read_back_cells : forall r x F0 i j, inr F0 i j = true ->
  mz (read_back r x F0) i j = mz F0 i j + zsum (map (op_contrib (rb_target r) i j) (entries x)).
Proof. exact read_back_cells. Qed.
Print Assumptions C10_read_back_cells.

(* per-cell read-back equality: at Done of the flagged run with the flag clear, what read_back adds to
   an in-range cell (i, j) is the net CAPACITY flow of the node pairs u < v that the code maps to that
   cell (sel r i j u v = 1 iff neither node is the threshold node, v is a sink and (old name of u,
   old name of v - N), transposed when the problem was swapped, is (i, j)) *)
Theorem C10_read_back_net_capacity : forall nv c e st fl r F0 i j, length c = nv -> length e = nv ->
  (forall l tc, In l c -> In tc l -> (fst tc < nv)%nat /\ 0 <= snd tc) ->
  mcf_iter_f ssp_levels (mcf_init e c) false = (MDone st, fl) -> fl = false ->
  inr F0 i j = true ->
  mz (read_back r (m_x st) F0) i j = mz F0 i j +
    zsum (map (fun u => zsum (map (fun v =>
       if (u <? v)%nat then sel r i j u v * (capto u (nth v (m_rb st) []) - capto v (nth u (m_rb st) [])) else 0)
       (seq 0 nv))) (seq 0 nv)).
Proof. exact read_back_net_capacity. Qed.
Print Assumptions C10_read_back_net_capacity.

(* the graph emd_hat_impl hands to min_cost_flow is well formed for every input of the wrapper's shape
   with non-negative ground distances: one adjacency list per node, targets inside the graph,
   non-negative costs (incl. max(C) >= 0), supplies cancel — the hypotheses of the solver theorems *)
Theorem C10_reduce_wf : forall Pc Qc Cc emp, length Pc = length Qc -> (forall i j, 0 <= mz Cc i j) ->
  let r := reduce Pc Qc Cc emp in
  length (r_cc r) = length (r_bb r) /\
  (forall l tc, In l (r_cc r) -> In tc l -> (fst tc < length (r_bb r))%nat /\ 0 <= snd tc) /\
  zsum (r_bb r) = 0.
Proof. exact reduce_wf. Qed.
Print Assumptions C10_reduce_wf.

(* the distance, end to end down to the reduced graph (full; premises: the per-case booleans only).
   For non-negative ground distances, below the bound, a finished run of the int32 code as written
   returns the answer (d, F, fl) of the flagged line-level model, and if fl is clear then
       d = pre-flow cost + MINIMUM COST of the reduced graph + |sum P - sum Q| * penalty,
   where the reduced graph is reduce's for the padded (and, for gd_metric, pre-flowed) arguments
   (Proofs.EmdEndToEnd.call_args) and is_mincost e c m says: m is the cost of a non-negative flow with
   balances e and no such flow is cheaper. *)
Theorem C10_emd_int32_dist_below_bound : forall p q c pen ft gd d F, mat_nonneg c ->
  no_wrap_b p q c pen ft gd = true ->
  emd_int32_as_written p q c pen ft gd = (0, d, F) ->
  exists fl, emd_hat_int32_llf p q c pen ft gd = Some (d, F, fl) /\
    (fl = false ->
     let '(Pc, Qc, Cc) := call_args p q c gd in
     let r := reduce Pc Qc Cc (match pen with Some v => v | None => -1 end) in
     exists md, is_mincost (r_bb r) (r_cc r) md /\ d = r_pre r + md + r_diff r * r_pen r).
Proof. exact emd_int32_dist_below_bound. Qed.
Print Assumptions C10_emd_int32_dist_below_bound.

(* C10_emd_int32_correct_below_bound — PARTIAL, end to end.  FULL statement aimed at: below the bound,
   a finished run of emd_hat / emd_hat_gd_metric as written for int32 returns the earth mover's distance.
   PROVED: everything about the code — int32 semantics, the solver (heap, Dijkstra, potentials, pair
   addressing, conservation, optimality of the capacity flow, x lists = capacities, returned distance
   = minimum cost), the well-formedness of the reduced graph and the my_dist book-keeping.
   REMAINING PREMISES, exactly: (i) flag clear (per case, never set);
   (ii) graph_reduction_correct_on — a statement about `reduce` ONLY (no solver, no int32): pre-flow
   cost + minimum cost of the reduced graph + |sum P - sum Q| * penalty is the EMD of the call
   (thresholding through the transhipment node, removal of empty / isolated bins, swap, padding,
   metric pre-flow).  OPEN; the per-case certificate check of the implementation's output and the
   in-model certificate of C10_model_emd_correct stand in for it. *)
Theorem C10_emd_int32_correct_below_bound_partial : forall p q c pen ft gd d F, mat_nonneg c ->
  no_wrap_b p q c pen ft gd = true ->
  emd_int32_as_written p q c pen ft gd = (0, d, F) ->
  (forall fl, emd_hat_int32_llf p q c pen ft gd = Some (d, F, fl) -> fl = false) ->
  graph_reduction_correct_on p q c pen gd ->
  emd_spec p q c (penalty_of c pen) d.
Proof. exact emd_int32_correct_below_bound_partial2. Qed.
Print Assumptions C10_emd_int32_correct_below_bound_partial.

(* C10_mcf_no_fail_if_flag_clear — PARTIAL.  FULL statement aimed at: a step of the flagged run whose
   flag is clear never returns MFail.  PROVED (everything but the search): with the flag clear the walk
   along prev reaches the start node within nv hops through finalized nodes, every hop is a residual
   arc, hence x[from] has an entry pointing at `to` (forward entry of an arc from->to or reverse entry
   of an arc to->from; the skeleton of x never changes) — scan_delta and augment cannot fail; and the
   node compute_shortest_path returns has negative excess, so it is never the start node.  A failing
   step with a clear flag is therefore a step whose compute_shortest_path returned None.
   MISSING: lemma csp_total (under the Dijkstra invariant J the loop never leaves the heap's index
   range — per-operation halves: C10_heap_*_safe —, and a node of negative excess is popped before the
   heap is empty and within nv+1 iterations: all nodes start in the heap, supplies cancel). *)
Theorem C10_mcf_no_fail_if_flag_clear_partial : forall nv c st, length c = nv ->
  (forall l tc, In l c -> In tc l -> (fst tc < nv)%nat /\ 0 <= snd tc) ->
  RunInv nv c st -> skel_x (m_x st) = skel_x (x_of nv (mk_arcs c)) ->
  step_flag st = false -> mcf_step st = MFail ->
  compute_shortest_path nv (m_d st) (m_prev st) (snd (pick_supply (m_e st) O 0 O)) (m_rf st) (m_rb st) (m_e st) = None.
Proof. exact step_fail_only_in_search. Qed.
Print Assumptions C10_mcf_no_fail_if_flag_clear_partial.
