(* C10 — property theorems.  Only statements, each closed by [exact], each followed by
   Print Assumptions. *)
From Coq Require Import ZArith List Bool.
From Centro Require Import Base.Sx Base.EmdBase Spec.Emd Model.Emd Proofs.EmdDuality.
Open Scope Z_scope.

(* Soundness of the certificate checker that is run on the implementation's output for every case:
   whatever (untrusted) dual point the harness supplies, acceptance implies that d IS the earth
   mover's distance of the property text and that F is a feasible integral flow reproducing it. *)
Theorem C10_transport_cert_optimal : forall P Q C pen d F al be ga,
  emd_cert_ok P Q C pen d F al be ga = true ->
  emd_spec P Q C pen d /\
  feasible (length P) (length Q) (nz P) (nz Q) (emd_T P Q) (mz F) /\
  d = cost (length P) (length Q) (mz C) (mz F) + pen * emd_extra P Q.
Proof. exact emd_cert_sound. Qed.
Print Assumptions C10_transport_cert_optimal.

Theorem C10_weak_duality : forall n m P Q C T alpha beta gamma f,
  feasible n m P Q T f -> dual_feasible n m C alpha beta gamma ->
  dual_value n m P Q T alpha beta gamma <= cost n m C f.
Proof. exact weak_duality. Qed.
Print Assumptions C10_weak_duality.

Theorem C10_value_unique : forall P Q C pen d1 d2,
  emd_spec P Q C pen d1 -> emd_spec P Q C pen d2 -> d1 = d2.
Proof. exact emd_spec_unique. Qed.
Print Assumptions C10_value_unique.

(* histograms of different lengths behave as if zero-padded, whatever ground distances the added
   bins get *)
Theorem C10_padding_invariant : forall P Q C C' pen d a b,
  (forall i j, (i < length P)%nat -> (j < length Q)%nat -> mz C' i j = mz C i j) ->
  (emd_spec P Q C pen d <-> emd_spec (P ++ repeat 0 a) (Q ++ repeat 0 b) C' pen d).
Proof. exact padding_invariant. Qed.
Print Assumptions C10_padding_invariant.
