(* C04 — property theorems.  Only statements, each closed by [exact], each followed by
   Print Assumptions. *)
From Coq Require Import ZArith List Bool.
From Centro Require Import Base.Sx Model.Recon Spec.ReconSpec Spec.ReconInv Proofs.ReconSound Proofs.ReconLoop Proofs.ReconPrep Proofs.ReconOrder Proofs.ReconSetupOrd Proofs.ReconBridge.
Open Scope Z_scope.

(* Full.  Any image R (e.g. the implementation's output) accepted by the extracted checker,
   with any level certificate, IS the reconstruction of the seed under the mask for that
   footprint: between seed and mask, unchanged by dilate-and-clip, pointwise least. *)
Theorem C04_recon_check_sound : forall seed mask fp R lvl,
  recon_check seed mask fp R lvl = true -> GridRecon seed mask fp R.
Proof. exact recon_check_sound. Qed.
Print Assumptions C04_recon_check_sound.

(* Full.  The reconstruction is unique (so "the" limit), on any neighbourhood structure. *)
Theorem C04_recon_unique : forall V (D : V -> Prop) preds seed mask R1 R2,
  IsRecon V D preds seed mask R1 -> IsRecon V D preds seed mask R2 -> forall p, D p -> R1 p = R2 p.
Proof. exact recon_unique. Qed.
Print Assumptions C04_recon_unique.

(* Full.  Applying reconstruction to its own output changes nothing: R is the reconstruction
   of R itself under the same mask (with uniqueness: every reconstruction of R equals R). *)
Theorem C04_recon_idempotent : forall V (D : V -> Prop) preds seed mask R,
  IsRecon V D preds seed mask R -> IsRecon V D preds R mask R.
Proof. exact recon_idempotent. Qed.
Print Assumptions C04_recon_idempotent.

(* Full.  For R between seed and mask, "closed" in IsRecon is literally "the dilate-and-clip
   step leaves R unchanged". *)
Theorem C04_closed_iff_step_fixed : forall V (D : V -> Prop) preds seed mask R,
  between V D seed mask R -> (closed V D preds mask R <-> step_fixed V D preds mask R).
Proof. exact closed_iff_step_fixed. Qed.
Print Assumptions C04_closed_iff_step_fixed.

(* Full.  The executable definition (repeat dilate-and-clip from the seed until nothing
   changes), whenever it stops within its fuel, returns the reconstruction. *)
Theorem C04_recon_iter_sound : forall fuel seed mask fp R,
  recon_iter fuel seed mask fp = Some R -> GridRecon seed mask fp R.
Proof. exact recon_iter_sound. Qed.
Print Assumptions C04_recon_iter_sound.

(* Full (about the line-level model of grey_reconstruction_loop, for every geometry with padding
   >= 1, every stride table within the padding, every state satisfying Inv and every fuel):
   index safety — no read or write of values/prev/next leaves [0, 2S) (the model's checked
   accesses never yield Oob) — and link_has_successor — the relink never finds next[link] < 0,
   so no node is ever dropped (drops unchanged); Inv is preserved. *)
Theorem C04_loop_safe : forall g K v0 strides, geom_ok g -> Forall (stride_ok g) strides ->
  forall fuel cur s, Inv g K strides v0 s -> -1 <= cur < 2 * gS g ->
  match loop fuel (gS g) strides cur s with
  | Ok s' => Inv g K strides v0 s' /\ drops s' = drops s
  | OutOfFuel => True
  | Oob => False
  | Rejected => False
  end.
Proof. exact loop_safe. Qed.
Print Assumptions C04_loop_safe.

(* Full: the boolean invariant checker is sound (it is evaluated on the set-up state of every case). *)
Theorem C04_inv_check_sound : forall g K strides s, inv_check g K s = true -> Inv g K strides (vals s) s.
Proof. exact inv_check_sound. Qed.
Print Assumptions C04_inv_check_sound.

(* Partial.  Full statement wanted: for every accepted input with footprint dimensions >= 3,
   grey_reconstruction never accesses out of bounds and never drops a node.  Proved here with the
   extra premise [prep_check (prepare ..) = true]; the missing lemma is
   prepare_inv : accepted image mask fp = true -> 3 <= zlen fp -> 3 <= width fp ->
                 prep_check (prepare image mask fp) = true
   (sortedness/permutation of the merge sort, link_pairs, rank_order).  The premise is evaluated by
   the extracted checker on every generated case, so it is discharged per instance. *)
Theorem C04_model_safe_partial : forall image mask fp,
  accepted image mask fp = true -> prep_check (prepare image mask fp) = true ->
  match grey_reconstruction image mask fp with
  | Ok (out, d) => d = 0 /\ zlen out = zlen image
  | OutOfFuel => True
  | Oob => False
  | Rejected => False
  end.
Proof. exact model_safe. Qed.
Print Assumptions C04_model_safe_partial.

(* Partial.  Full statement wanted (recon_loop_correct): the gathered output of the loop is the
   reconstruction (IsRecon) for every input.  Proved: the image plane stays between its initial
   value and the mask plane (first third of IsRecon).  Missing: the list stays value-sorted and a
   visited node is final (closed + least); covered per instance by recon_check on every case. *)
Theorem C04_loop_between_partial : forall g K v0 strides, geom_ok g -> Forall (stride_ok g) strides ->
  forall fuel cur s s', Inv g K strides v0 s -> -1 <= cur < 2 * gS g ->
  loop fuel (gS g) strides cur s = Ok s' ->
  forall i, 0 <= i < gS g -> sel v0 i <= sel (vals s') i <= sel v0 (i + gS g).
Proof. exact loop_between. Qed.
Print Assumptions C04_loop_between_partial.

(* Partial (second third of recon_loop_correct, in flat/rank space): the loop's result lies below
   every image above the initial image plane that no dilate-and-clip step along the stride table
   can raise; so it never overshoots the reconstruction.  With C04_loop_between_partial only
   "closed" (the result cannot be raised any more) remains; see recon_loop_closed in reports/C04.md. *)
Theorem C04_loop_least_partial : forall g K v0 strides, geom_ok g -> Forall (stride_ok g) strides ->
  forall fuel cur s s', Inv g K strides v0 s -> -1 <= cur < 2 * gS g ->
  loop fuel (gS g) strides cur s = Ok s' ->
  forall dec U, mono_on K dec -> flat_postfixed g strides v0 dec U ->
  forall i, 0 <= i < gS g -> interior_b g i = true -> dec (sel (vals s') i) <= U i.
Proof. exact loop_least. Qed.
Print Assumptions C04_loop_least_partial.

(* Full.  The idempotence clause on grids: an output accepted by the checker is the
   reconstruction of itself under the same mask, and any reconstruction of it equals it. *)
Theorem C04_recon_check_idempotent : forall seed mask fp R lvl,
  recon_check seed mask fp R lvl = true ->
  GridRecon R mask fp R /\
  forall R2, GridRecon R mask fp R2 ->
    forall p, inD (zlen seed) (width seed) p = true -> gval R2 p = gval R p.
Proof. exact recon_check_idempotent. Qed.
Print Assumptions C04_recon_check_idempotent.

(* Full.  The wrapper's stride table: for every footprint with odd dimensions, every flat stride
   is an offset within the padding (|da| <= shape0//2, |db| <= shape1//2), which is the premise
   [Forall (stride_ok g) strides] of C04_loop_safe: current + strides[i] stays in the padded plane. *)
Theorem C04_prepare_strides_ok : forall image mask fp,
  Z.odd (zlen fp) = true -> Z.odd (width fp) = true ->
  Forall (stride_ok (prep_geom (prepare image mask fp))) (p_strides (prepare image mask fp)).
Proof. exact prepare_strides_ok. Qed.
Print Assumptions C04_prepare_strides_ok.

(* ---- round 2 ---- *)
(* Full.  Checker soundness for an arbitrary offset list (explicit `offset` argument, even-sized
   footprints): the wire entry evaluates recon_check_offs on fp_offsets_at fp o0 o1. *)
Theorem C04_recon_check_offs_sound : forall seed mask offs R lvl,
  recon_check_offs seed mask offs R lvl = true -> GridReconOffs seed mask offs R.
Proof. exact recon_check_offs_sound. Qed.
Print Assumptions C04_recon_check_offs_sound.

(* Full (given the per-instance boolean premise): the run of ANY set-up state that passes
   prep_check — in particular grey_reconstruction_off with an explicit origin — is memory safe
   and drops no node. *)
Theorem C04_run_prep_safe : forall p, prep_check p = true ->
  match run_prep p with
  | Ok (out, d) => d = 0 /\ zlen out = p_H p
  | OutOfFuel => True
  | Oob => False
  | Rejected => False
  end.
Proof. exact run_prep_safe. Qed.
Print Assumptions C04_run_prep_safe.

(* Full (layer "merge sort + link_pairs + rank_order establish Inv"): for every geometry with
   padding >= 1 and EVERY flat value list of length 2S whose non-interior cells carry the minimum
   in both planes and whose image plane is below its mask plane, the state built by the stdlib
   merge sort on (value desc, index asc), link_pairs and the C18 rank_order satisfies Inv, the
   start node is in range and value_map covers all ranks.  Uses Proofs.RankC18Proofs.rank_order_iso. *)
Theorem C04_setup_inv : forall g strides values mn,
  geom_ok g -> zlen values = 2 * gS g ->
  let val := fun i => nth (Z.to_nat i) values 0 in
  (forall i, 0 <= i < gS g -> interior_b g i = false -> val i = mn /\ val (i + gS g) = mn) ->
  (forall j, 0 <= j < 2 * gS g -> mn <= val j) ->
  (forall i, 0 <= i < gS g -> val i <= val (i + gS g)) ->
  let s := setup_state values in
  let K := zlen (snd (rank_order values)) in
  Inv g K strides (vals s) s /\ -1 <= hd (-1) (vorder values) < 2 * gS g /\
  inrange (of_list (snd (rank_order values))) K /\ drops s = 0.
Proof. exact setup_inv. Qed.
Print Assumptions C04_setup_inv.

(* Partial (towards an unconditional C04_model_safe).  The whole model — prepare, loop, gather,
   any offset list within the padding — never accesses out of bounds and never drops a node, with
   NO per-instance boolean premise, given three value-level facts about the padded list.  Missing
   lemma: padded_values_facts : accepted image mask fp = true -> 3 <= zlen fp -> 3 <= width fp ->
   the three facts (from nth_padded_plane, which IS proved, plus all_le -> cellwise <= and
   img_min <= every cell).  values_facts_b is the finite form, true on the example. *)
Theorem C04_prepare_safe_from_values_partial : forall image mask fp offs,
  let p := prepare_offs image mask fp offs in
  let g := prep_geom p in
  let values := prep_values image mask fp in
  let val := fun i => nth (Z.to_nat i) values 0 in
  geom_ok g -> Forall (stride_ok g) (p_strides p) ->
  (forall i, 0 <= i < gS g -> interior_b g i = false ->
     val i = img_min image /\ val (i + gS g) = img_min image) ->
  (forall j, 0 <= j < 2 * gS g -> img_min image <= val j) ->
  (forall i, 0 <= i < gS g -> val i <= val (i + gS g)) ->
  match run_prep p with
  | Ok (out, d) => d = 0 /\ zlen out = zlen image
  | OutOfFuel => True
  | Oob => False
  | Rejected => False
  end.
Proof. exact prepare_safe_from_values. Qed.
Print Assumptions C04_prepare_safe_from_values_partial.

(* Full.  The padded planes as the wrapper lays them out: cell i of a plane is the image cell
   (i / PW - p0, i mod PW - p1) inside the interior and the fill value in the padding. *)
Theorem C04_nth_padded_plane : forall H W p0 p1 fill gimg i, 1 <= H -> 1 <= W -> 0 <= p0 -> 0 <= p1 ->
  let g := mkgeom H W p0 p1 in
  0 <= i < gS g ->
  nth (Z.to_nat i) (padded_plane H W p0 p1 fill gimg) 0 =
  if interior_b g i then img_get gimg (i / gPW g - p0) (i mod gPW g - p1) else fill.
Proof. exact nth_padded_plane. Qed.
Print Assumptions C04_nth_padded_plane.

(* ---- round 3 ---- *)
(* Full.  The three value-level facts hold for every accepted input (padding >= 1). *)
Theorem C04_padded_values_facts : forall image mask fp,
  accepted_common image mask fp = true -> 1 <= zlen fp / 2 -> 1 <= width fp / 2 ->
  let g := mkgeom (zlen image) (width image) (zlen fp / 2) (width fp / 2) in
  let values := prep_values image mask fp in
  let val := fun i => nth (Z.to_nat i) values 0 in
  geom_ok g /\
  (forall i, 0 <= i < gS g -> interior_b g i = false ->
     val i = img_min image /\ val (i + gS g) = img_min image) /\
  (forall j, 0 <= j < 2 * gS g -> img_min image <= val j) /\
  (forall i, 0 <= i < gS g -> val i <= val (i + gS g)).
Proof. exact padded_values_facts. Qed.
Print Assumptions C04_padded_values_facts.

(* Full — the unconditional form of C04_model_safe_partial: for EVERY accepted input with
   footprint dimensions >= 3 (offset=None) the complete model (wrapper set-up, loop, gather) never
   reads or writes outside its arrays, never drops a node from the list, and returns an image of
   the input's height.  No per-instance premise. *)
Theorem C04_model_safe : forall image mask fp,
  accepted image mask fp = true -> 3 <= zlen fp -> 3 <= width fp ->
  match grey_reconstruction image mask fp with
  | Ok (out, d) => d = 0 /\ zlen out = zlen image
  | OutOfFuel => True
  | Oob => False
  | Rejected => False
  end.
Proof. exact model_safe_full. Qed.
Print Assumptions C04_model_safe.

(* Full — recon_loop_closed.  For every state satisfying Inv and the order invariant Ord (ghost
   positions: next = immediate successor in position order, values sorted by position, prev/next
   mutually consistent, every interior node before `current` final): when the while loop returns,
   NO dilate-and-clip step along any stride can raise any interior pixel.  The proof shows on the
   way that the list stays value-sorted (o_val preserved by every unlink/relink). *)
Theorem C04_loop_closed : forall g K v0 strides, geom_ok g -> Forall (stride_ok g) strides ->
  forall fuel cur s pos, Inv g K strides v0 s -> Ord g strides s cur pos -> -1 <= cur < 2 * gS g ->
  match loop fuel (gS g) strides cur s with
  | Ok s' => forall p, 0 <= p < gS g -> interior_b g p = true -> closed_at g strides s' p
  | _ => True
  end.
Proof. exact loop_closed. Qed.
Print Assumptions C04_loop_closed.

(* Full — termination: under the same invariants the fuel bounds the iterations (the number of
   nodes not before `current` strictly decreases with every iteration of the while loop). *)
Theorem C04_loop_fuel : forall g K v0 strides, geom_ok g -> Forall (stride_ok g) strides ->
  forall fuel cur s pos, Inv g K strides v0 s -> Ord g strides s cur pos -> -1 <= cur < 2 * gS g ->
  (1 <= fuel)%nat -> (cur <> -1 -> (cnt g pos cur < fuel)%nat) ->
  loop fuel (gS g) strides cur s <> OutOfFuel.
Proof. exact loop_fuel. Qed.
Print Assumptions C04_loop_fuel.

(* Full — total correctness of the loop in flat/rank space from both invariants: with the fuel
   2S+1 the model uses, the loop returns (no out-of-bounds access, no fuel exhaustion), drops no
   node, and its result satisfies Inv (between the initial image plane and the mask plane, below
   every post-fixed image) and is closed under the step: it IS the least fixed point in flat space.
   Partial with respect to grey_reconstruction_model_correct: missing are
   (a) setup_ord : the wrapper's set-up state satisfies Ord with pos = index in the lexsort order
       (needs the exact successor table of link_pairs; setup_inv already gives Inv), and
   (b) the bridge flat/rank space -> GridRecon (value_map monotone: from C18; strides <-> offsets;
       C04_nth_padded_plane; the gather of `finish`). *)
Theorem C04_loop_total_partial : forall g K v0 strides, geom_ok g -> Forall (stride_ok g) strides ->
  forall cur s pos, Inv g K strides v0 s -> Ord g strides s cur pos -> -1 <= cur < 2 * gS g ->
  exists s', loop (Datatypes.S (Z.to_nat (2 * gS g))) (gS g) strides cur s = Ok s' /\
    Inv g K strides v0 s' /\ drops s' = drops s /\
    forall p, 0 <= p < gS g -> interior_b g p = true -> closed_at g strides s' p.
Proof. exact loop_total. Qed.
Print Assumptions C04_loop_total_partial.

(* Full: the boolean Ord checker is sound.  It is evaluated by the extracted program on the set-up
   state of every small generated case (premise of C04_loop_total_partial discharged per instance,
   with pos = index in the lexsort order). *)
Theorem C04_ord_check_sound : forall g strides s cur posa,
  ord_check g strides s cur posa = true -> Ord g strides s cur (sel posa).
Proof. exact ord_check_sound. Qed.
Print Assumptions C04_ord_check_sound.

(* ---- round 4 ---- *)
(* Full — setup_ord: for every geometry with padding >= 1 and every flat value list with
   minimum-valued padding, the state built by merge sort + link_pairs + rank_order satisfies the order
   invariant Ord with pos = index in the lexsort order (exact successor/predecessor table of
   link_pairs over the sorted permutation; values non-increasing along the order). *)
Theorem C04_setup_ord : forall g strides values mn,
  geom_ok g -> zlen values = 2 * gS g ->
  let val := fun i => nth (Z.to_nat i) values 0 in
  (forall i, 0 <= i < gS g -> interior_b g i = false -> val i = mn /\ val (i + gS g) = mn) ->
  (forall j, 0 <= j < 2 * gS g -> mn <= val j) ->
  let s := setup_state values in
  Ord g strides s (hd (-1) (vorder values)) (fun x => Z.of_nat (index_of x (vorder values))).
Proof. exact setup_ord. Qed.
Print Assumptions C04_setup_ord.

(* Full — grey_reconstruction_model_correct.  For EVERY accepted input (seed <= mask, equal
   rectangular shapes, footprint with odd dimensions >= 3, offset=None) the line-level model of
   grey_reconstruction + grey_reconstruction_loop terminates within its fuel, never accesses out of
   bounds, drops no node, and returns an image of the input's shape that IS the reconstruction by
   dilation: between seed and mask, unchanged by the dilate-and-clip step, pointwise least among all
   images above the seed that the step cannot raise.  No per-instance premise. *)
Theorem C04_grey_reconstruction_model_correct : forall image mask fp,
  accepted image mask fp = true -> 3 <= zlen fp -> 3 <= width fp ->
  exists out, grey_reconstruction image mask fp = Ok (out, 0) /\
    zlen out = zlen image /\ rect out (width image) = true /\ GridRecon image mask fp out.
Proof. exact model_correct. Qed.
Print Assumptions C04_grey_reconstruction_model_correct.

(* Full — the checker that is run on the implementation's output accepts nothing but the model's
   output: with the exact correspondence impl = model this closes the triangle
   implementation output = model output = THE reconstruction = the only image recon_check accepts. *)
Theorem C04_checker_accepts_only_model_output : forall image mask fp R lvl out d,
  accepted image mask fp = true -> 3 <= zlen fp -> 3 <= width fp ->
  grey_reconstruction image mask fp = Ok (out, d) ->
  recon_check image mask fp R lvl = true ->
  forall p, inD (zlen image) (width image) p = true -> gval R p = gval out p.
Proof. exact checker_accepts_only_model_output. Qed.
Print Assumptions C04_checker_accepts_only_model_output.
