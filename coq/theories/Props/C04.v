(* C04 — property theorems.  Only statements, each closed by [exact], each followed by
   Print Assumptions. *)
From Coq Require Import ZArith List Bool.
From Centro Require Import Base.Sx Model.Recon Spec.ReconSpec Spec.ReconInv Proofs.ReconSound Proofs.ReconLoop.
Open Scope Z_scope.

(* Full.  Any image R (e.g. the implementation's output) accepted by the extracted checker,
   with any level certificate, IS the reconstruction of the seed under the mask for that
   footprint: between seed and mask, unchanged by dilate-and-clip, pointwise least. *)
Theorem C04_recon_check_sound : forall seed mask fp R lvl,
  recon_check seed mask fp R lvl = true -> GridRecon seed mask fp R.
Proof. exact recon_check_sound. Qed.
Print Assumptions C04_recon_check_sound.

(* Full.  The reconstruction is unique (so "the" limit), on any neighbourhood structure. *)
Theorem C04_recon_unique : forall V (D : V -> Prop) preds seed mask R1 R2,
  IsRecon V D preds seed mask R1 -> IsRecon V D preds seed mask R2 -> forall p, D p -> R1 p = R2 p.
Proof. exact recon_unique. Qed.
Print Assumptions C04_recon_unique.

(* Full.  Applying reconstruction to its own output changes nothing: R is the reconstruction
   of R itself under the same mask (with uniqueness: every reconstruction of R equals R). *)
Theorem C04_recon_idempotent : forall V (D : V -> Prop) preds seed mask R,
  IsRecon V D preds seed mask R -> IsRecon V D preds R mask R.
Proof. exact recon_idempotent. Qed.
Print Assumptions C04_recon_idempotent.

(* Full.  For R between seed and mask, "closed" in IsRecon is literally "the dilate-and-clip
   step leaves R unchanged". *)
Theorem C04_closed_iff_step_fixed : forall V (D : V -> Prop) preds seed mask R,
  between V D seed mask R -> (closed V D preds mask R <-> step_fixed V D preds mask R).
Proof. exact closed_iff_step_fixed. Qed.
Print Assumptions C04_closed_iff_step_fixed.

(* Full.  The executable definition (repeat dilate-and-clip from the seed until nothing
   changes), whenever it stops within its fuel, returns the reconstruction. *)
Theorem C04_recon_iter_sound : forall fuel seed mask fp R,
  recon_iter fuel seed mask fp = Some R -> GridRecon seed mask fp R.
Proof. exact recon_iter_sound. Qed.
Print Assumptions C04_recon_iter_sound.

(* Full (about the line-level model of grey_reconstruction_loop, for every geometry with padding
   >= 1, every stride table within the padding, every state satisfying Inv and every fuel):
   index safety — no read or write of values/prev/next leaves [0, 2S) (the model's checked
   accesses never yield Oob) — and link_has_successor — the relink never finds next[link] < 0,
   so no node is ever dropped (drops unchanged); Inv is preserved. *)
Theorem C04_loop_safe : forall g K v0 strides, geom_ok g -> Forall (stride_ok g) strides ->
  forall fuel cur s, Inv g K strides v0 s -> -1 <= cur < 2 * gS g ->
  match loop fuel (gS g) strides cur s with
  | Ok s' => Inv g K strides v0 s' /\ drops s' = drops s
  | OutOfFuel => True
  | Oob => False
  | Rejected => False
  end.
Proof. exact loop_safe. Qed.
Print Assumptions C04_loop_safe.

(* Full: the boolean invariant checker is sound (it is evaluated on the set-up state of every case). *)
Theorem C04_inv_check_sound : forall g K strides s, inv_check g K s = true -> Inv g K strides (vals s) s.
Proof. exact inv_check_sound. Qed.
Print Assumptions C04_inv_check_sound.

(* Partial.  Full statement wanted: for every accepted input with footprint dimensions >= 3,
   grey_reconstruction never accesses out of bounds and never drops a node.  Proved here with the
   extra premise [prep_check (prepare ..) = true]; the missing lemma is
   prepare_inv : accepted image mask fp = true -> 3 <= zlen fp -> 3 <= width fp ->
                 prep_check (prepare image mask fp) = true
   (sortedness/permutation of the merge sort, link_pairs, rank_order).  The premise is evaluated by
   the extracted checker on every generated case, so it is discharged per instance. *)
Theorem C04_model_safe_partial : forall image mask fp,
  accepted image mask fp = true -> prep_check (prepare image mask fp) = true ->
  match grey_reconstruction image mask fp with
  | Ok (out, d) => d = 0 /\ zlen out = zlen image
  | OutOfFuel => True
  | Oob => False
  | Rejected => False
  end.
Proof. exact model_safe. Qed.
Print Assumptions C04_model_safe_partial.

(* Partial.  Full statement wanted (recon_loop_correct): the gathered output of the loop is the
   reconstruction (IsRecon) for every input.  Proved: the image plane stays between its initial
   value and the mask plane (first third of IsRecon).  Missing: the list stays value-sorted and a
   visited node is final (closed + least); covered per instance by recon_check on every case. *)
Theorem C04_loop_between_partial : forall g K v0 strides, geom_ok g -> Forall (stride_ok g) strides ->
  forall fuel cur s s', Inv g K strides v0 s -> -1 <= cur < 2 * gS g ->
  loop fuel (gS g) strides cur s = Ok s' ->
  forall i, 0 <= i < gS g -> sel v0 i <= sel (vals s') i <= sel v0 (i + gS g).
Proof. exact loop_between. Qed.
Print Assumptions C04_loop_between_partial.

(* Partial (second third of recon_loop_correct, in flat/rank space): the loop's result lies below
   every image above the initial image plane that no dilate-and-clip step along the stride table
   can raise; so it never overshoots the reconstruction.  With C04_loop_between_partial only
   "closed" (the result cannot be raised any more) remains; see recon_loop_closed in reports/C04.md. *)
Theorem C04_loop_least_partial : forall g K v0 strides, geom_ok g -> Forall (stride_ok g) strides ->
  forall fuel cur s s', Inv g K strides v0 s -> -1 <= cur < 2 * gS g ->
  loop fuel (gS g) strides cur s = Ok s' ->
  forall U, flat_postfixed g strides v0 U -> forall i, 0 <= i < gS g -> sel (vals s') i <= U i.
Proof. exact loop_least. Qed.
Print Assumptions C04_loop_least_partial.

(* Full.  The idempotence clause on grids: an output accepted by the checker is the
   reconstruction of itself under the same mask, and any reconstruction of it equals it. *)
Theorem C04_recon_check_idempotent : forall seed mask fp R lvl,
  recon_check seed mask fp R lvl = true ->
  GridRecon R mask fp R /\
  forall R2, GridRecon R mask fp R2 ->
    forall p, inD (zlen seed) (width seed) p = true -> gval R2 p = gval R p.
Proof. exact recon_check_idempotent. Qed.
Print Assumptions C04_recon_check_idempotent.

(* Full.  The wrapper's stride table: for every footprint with odd dimensions, every flat stride
   is an offset within the padding (|da| <= shape0//2, |db| <= shape1//2), which is the premise
   [Forall (stride_ok g) strides] of C04_loop_safe: current + strides[i] stays in the padded plane. *)
Theorem C04_prepare_strides_ok : forall image mask fp,
  Z.odd (zlen fp) = true -> Z.odd (width fp) = true ->
  Forall (stride_ok (prep_geom (prepare image mask fp))) (p_strides (prepare image mask fp)).
Proof. exact prepare_strides_ok. Qed.
Print Assumptions C04_prepare_strides_ok.
