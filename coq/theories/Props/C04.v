(* C04 — property theorems.  Only statements, each closed by [exact], each followed by
   Print Assumptions. *)
From Coq Require Import ZArith List Bool.
From Centro Require Import Base.Sx Model.Recon Spec.ReconSpec Proofs.ReconSound.
Open Scope Z_scope.

(* Full.  Any image R (e.g. the implementation's output) accepted by the extracted checker,
   with any level certificate, IS the reconstruction of the seed under the mask for that
   footprint: between seed and mask, unchanged by dilate-and-clip, pointwise least. *)
Theorem C04_recon_check_sound : forall seed mask fp R lvl,
  recon_check seed mask fp R lvl = true -> GridRecon seed mask fp R.
Proof. exact recon_check_sound. Qed.
Print Assumptions C04_recon_check_sound.

(* Full.  The reconstruction is unique (so "the" limit), on any neighbourhood structure. *)
Theorem C04_recon_unique : forall V (D : V -> Prop) preds seed mask R1 R2,
  IsRecon V D preds seed mask R1 -> IsRecon V D preds seed mask R2 -> forall p, D p -> R1 p = R2 p.
Proof. exact recon_unique. Qed.
Print Assumptions C04_recon_unique.

(* Full.  Applying reconstruction to its own output changes nothing: R is the reconstruction
   of R itself under the same mask (with uniqueness: every reconstruction of R equals R). *)
Theorem C04_recon_idempotent : forall V (D : V -> Prop) preds seed mask R,
  IsRecon V D preds seed mask R -> IsRecon V D preds R mask R.
Proof. exact recon_idempotent. Qed.
Print Assumptions C04_recon_idempotent.

(* Full.  For R between seed and mask, "closed" in IsRecon is literally "the dilate-and-clip
   step leaves R unchanged". *)
Theorem C04_closed_iff_step_fixed : forall V (D : V -> Prop) preds seed mask R,
  between V D seed mask R -> (closed V D preds mask R <-> step_fixed V D preds mask R).
Proof. exact closed_iff_step_fixed. Qed.
Print Assumptions C04_closed_iff_step_fixed.

(* Full.  The executable definition (repeat dilate-and-clip from the seed until nothing
   changes), whenever it stops within its fuel, returns the reconstruction. *)
Theorem C04_recon_iter_sound : forall fuel seed mask fp R,
  recon_iter fuel seed mask fp = Some R -> GridRecon seed mask fp R.
Proof. exact recon_iter_sound. Qed.
Print Assumptions C04_recon_iter_sound.
