(* C15 — property theorems.  Only statements, each closed by [exact], each followed by
   Print Assumptions. *)
From Coq Require Import ZArith NArith List Bool Sorted.
From Centro Require Import Base.GraphC15 Model.LabelGraph Spec.LabelGraph
  Proofs.ColorC15 Proofs.DfsC15 Proofs.AccC15 Proofs.EulerC15 Proofs.RelabelC15 Proofs.NeighborsC15 Proofs.EulerQuadC15 Proofs.EulerStepC15 Proofs.AccCertC15 Proofs.SpecC15 Proofs.EulerTopoC15 Spec.EulerMovesC15 Spec.EulerReduceC15 Proofs.EulerSearchC15 Proofs.EulerHoleFreeC15 Proofs.EulerBridgeC15 Proofs.EulerHolesC15 Proofs.EulerRasterC15 Proofs.EulerAllC15.
Import ListNotations.

(* ---- all_connected_components / _all_connected_components (Full, including termination) ----
   For ANY per-vertex edge counts and neighbour arrays (cnt v = counts[v], nbr v k =
   j[indexes[v]+k]) that are symmetric and stay inside 0..n-1, the explicit-stack loop with the
   fuel the model computes returns; every vertex is labelled; two vertices carry the same label
   exactly when they are connected; the labels are 0..c-1 and every one of them is used
   (self-loops, duplicates and isolated vertices included: they are just entries of nbr). *)
Theorem C15_dfs_partition : forall cnt nbr n fuel,
  (forall u v, edge cnt nbr u v -> edge cnt nbr v u) ->
  (forall u v, (u < N.of_nat n)%N -> edge cnt nbr u v -> (v < N.of_nat n)%N) ->
  (sumw (fun v => 2 * cnt v + 1) (nseq 0 n) + 1 <= N.pos fuel)%N ->
  exists lb vi c, dfs_all cnt nbr fuel n = Some (lb, vi, c) /\
    (forall v, (v < N.of_nat n)%N -> exists k, mget lb v = Some k /\ (k < c)%N) /\
    (forall u w ku kw, mget lb u = Some ku -> mget lb w = Some kw -> (ku = kw <-> conn cnt nbr u w)) /\
    (forall k, (k < c)%N -> exists v, (v < N.of_nat n)%N /\ mget lb v = Some k).
Proof. exact dfs_all_spec. Qed.
Print Assumptions C15_dfs_partition.

(* ---- all_connected_components on edge lists (Full, including termination) ----
   For every pair of equally long, non-empty vertex lists i, j (self-loops, duplicates, isolated
   vertices below the maximum, any order): the model (symmetrise, lexsort, bincount, cumsum,
   explicit-stack kernel) returns one label per vertex 0..max; two vertices carry the same label
   exactly when they are connected in the undirected edge list; the labels are 0..c-1, all used. *)
Theorem C15_all_connected_components_spec : forall i j : list N, length i = length j -> i <> [] ->
  let n := S (N.to_nat (list_maxN (i ++ j))) in
  exists labels c, all_connected_components i j = Some labels /\ length labels = n /\
    (forall u w, (u < n)%nat -> (w < n)%nat ->
       (nth u labels 0%N = nth w labels 0%N <-> uconn (combine i j) (N.of_nat u) (N.of_nat w))) /\
    (forall v, (v < n)%nat -> (nth v labels 0 < c)%N) /\
    (forall k, (k < c)%N -> exists v, (v < n)%nat /\ nth v labels 0%N = k).
Proof. exact all_connected_components_spec. Qed.
Print Assumptions C15_all_connected_components_spec.

Open Scope Z_scope.
(* ---- relabel (Full): the output is the input mapped through a function that fixes the
   background, is strictly monotone on the labels present (so pixel sets and order are kept) and
   maps them onto 1..n, n the returned count ---- *)
Theorem C15_relabel_spec : forall img : image, exists f : Z -> Z,
  fst (relabel img) = map (map f) img /\ f 0 = 0 /\
  (forall x, x <> 0 -> In x (concat img) -> 1 <= f x <= snd (relabel img)) /\
  (forall x y, x <> 0 -> y <> 0 -> In x (concat img) -> In y (concat img) -> (x < y <-> f x < f y)) /\
  (forall k, 1 <= k <= snd (relabel img) -> exists x, x <> 0 /\ In x (concat img) /\ f x = k).
Proof. exact relabel_spec. Qed.
Print Assumptions C15_relabel_spec.

(* ---- find_neighbors (Full): for every rectangular label image and every label 1..max, the slice
   of v_neighbor given by v_index / v_count (neighbors_of) is strictly increasing (no duplicates)
   and lists exactly the labels m, not background and not l, that have a pixel 8-adjacent to a
   pixel of l (touching; get2 is 0 outside the image) ---- *)
Theorem C15_find_neighbors_spec : forall img : image, rect img ->
  length (fst (fst (find_neighbors img))) = Z.to_nat (img_max img) /\
  length (snd (fst (find_neighbors img))) = Z.to_nat (img_max img) /\
  forall l, 1 <= l <= img_max img ->
    StronglySorted Z.lt (neighbors_of img l) /\
    forall m, In m (neighbors_of img l) <-> m <> 0 /\ m <> l /\ touching img l m.
Proof. exact find_neighbors_spec. Qed.
Print Assumptions C15_find_neighbors_spec.

Theorem C15_find_neighbors_symmetric : forall img : image, rect img ->
  forall l m, 1 <= l <= img_max img -> 1 <= m <= img_max img ->
  (In m (neighbors_of img l) <-> In l (neighbors_of img m)).
Proof. exact find_neighbors_symmetric. Qed.
Print Assumptions C15_find_neighbors_symmetric.

(* ---- color_labels (Full): coloring_proper + coloring_uniform_per_label.  The output is the image
   mapped through a function g of the label (all pixels of a label one colour), g 0 = 0
   (background), every label 1..max gets a colour >= 1, and two different labels with 8-adjacent
   pixels get different colours ---- *)
Theorem C15_coloring_proper : forall img : image, rect img -> exists g : Z -> Z,
  color_labels img = map (map g) img /\ g 0 = 0 /\
  (forall l, 1 <= l <= img_max img -> 1 <= g l) /\
  (forall l m, 1 <= l <= img_max img -> 1 <= m <= img_max img -> l <> m -> touching img l m -> g l <> g m).
Proof. exact coloring_proper. Qed.
Print Assumptions C15_coloring_proper.

(* Welsh-Powell bound (Full): the colour table that color_labels reads never exceeds 1 + the number
   of neighbours of the label (so at most 1 + max degree colours are used) *)
Theorem C15_coloring_degree_bound : forall (img : image) v_color, rect img -> color_table img = Some v_color ->
  forall l, 1 <= l <= img_max img ->
    getl v_color l <= 1 + nth (Z.to_nat (l - 1)) (fst (fst (find_neighbors img))) 0.
Proof. exact coloring_degree_bound. Qed.
Print Assumptions C15_coloring_degree_bound.

(* the literal crange/misses arithmetic of the code equals the first-free recursion, and the rows are
   processed in the order of a sort by non-increasing neighbour count (lexsort([-v_count])) *)
Theorem C15_misses_is_first_free : forall colors, pick_from colors = first_free 1 colors.
Proof. exact pick_from_first_free. Qed.
Print Assumptions C15_misses_is_first_free.

Theorem C15_degree_order : forall (A : Type) (key : A -> Z) (l : list A),
  StronglySorted (fun a b => key a <= key b) (sort_by key l) /\ (forall y, In y (sort_by key l) <-> In y l) /\
  length (sort_by key l) = length l.
Proof. exact @sort_by_sorted. Qed.
Print Assumptions C15_degree_order.

(* ---- color_labels: the first-free-colour rule never returns a colour of a neighbour ---- *)
Theorem C15_first_free_spec : forall colors k,
  StronglySorted Z.lt colors -> (forall c, In c colors -> k <= c) ->
  ~ In (first_free k colors) colors /\ k <= first_free k colors.
Proof. exact first_free_spec. Qed.
Print Assumptions C15_first_free_spec.

(* ---- euler_number, quad_counts_spec (Full): for every rectangular label image and label l <> 0
   the four shifted planes, the ten conditions with their slice_00 attribution and
   scipy.ndimage.sum give 4 W = n(Q1) - n(Q3) - 2 n(QD), the bit-quad counts of the pixel set of l
   over all 2x2 windows meeting the image (exactly one / exactly three pixels in the set / the two
   diagonal patterns) ---- *)
Theorem C15_quad_counts_spec : forall (img : image) (l : Z), rect img -> l <> 0 ->
  euler4 img l = quad_sum img l isQ1 - quad_sum img l isQ3 - 2 * quad_sum img l isQD.
Proof. exact quad_counts_spec. Qed.
Print Assumptions C15_quad_counts_spec.

(* ---- euler_number = 8-components - holes: Finite (exhaustive, bound in the statement) ---- *)
(* ---- euler_number under deletion of a pixel (Full): the change of 4 W is the local term qdelta of the
   eight neighbours; Finite-256 lifted to every image: an (8,4)-simple pixel (simple8 on the 3x3
   pattern) changes nothing ---- *)
Theorem C15_euler_removal_step : forall (img : image) (l y x : Z), rect img -> l <> 0 -> get2 img y x = l ->
  euler4 img l = euler4 (remove_px img y x) l +
    qdelta (inS img l (y + -1) (x + -1)) (inS img l (y + -1) (x + 0)) (inS img l (y + -1) (x + 1))
           (inS img l (y + 0) (x + -1)) (inS img l (y + 0) (x + 1))
           (inS img l (y + 1) (x + -1)) (inS img l (y + 1) (x + 0)) (inS img l (y + 1) (x + 1)).
Proof. exact euler_removal_step. Qed.
Print Assumptions C15_euler_removal_step.

Theorem C15_euler_simple_deletion : forall (img : image) (l y x : Z), rect img -> l <> 0 -> get2 img y x = l ->
  simple_at img l y x = true -> euler4 (remove_px img y x) l = euler4 img l.
Proof. exact euler_simple_deletion. Qed.
Print Assumptions C15_euler_simple_deletion.

(* euler_reducible (Full): 4 W = 4 k for every image whose label-l pixel set is emptied by deletions
   of simple pixels and k deletions of isolated points (Reduces) - every size, every label image *)
Theorem C15_euler_reducible : forall l : Z, l <> 0 -> forall img k, Reduces l img k -> rect img -> euler4 img l = 4 * k.
Proof. exact euler_reducible. Qed.
Print Assumptions C15_euler_reducible.

(* euler_is_components_minus_holes_partial: the statement at full strength is
     forall img l, rect img -> l <> 0 -> euler4 img l = 4 * euler_spec img l.
   Proved: the equality for every reducible image GIVEN the three facts about components - holes
   (Spec.LabelGraph.euler_spec) that are hypotheses below.  Missing: (1) components - holes is invariant
   under deletion of an (8,4)-simple pixel - this is C05's simple_removal_topo (proved locally on the
   3x3 pattern only: Proofs.EulerStepC15.simple_local_topology); (2) an isolated point is one component
   and no hole; (3) the empty set has none; and images with holes are not reducible (a one-pixel-wide
   ring has no simple pixel), for them only the exhaustive sweeps below apply. *)
Theorem C15_euler_is_components_minus_holes_partial : forall l : Z, l <> 0 ->
  (forall img y x, rect img -> get2 img y x = l -> simple_at img l y x = true ->
     euler_spec (remove_px img y x) l = euler_spec img l) ->
  (forall img y x, rect img -> get2 img y x = l -> isolated_at img l y x = true ->
     euler_spec (remove_px img y x) l = euler_spec img l - 1) ->
  (forall img, rect img -> (forall y x, get2 img y x <> l) -> euler_spec img l = 0) ->
  forall img k, Reduces l img k -> rect img -> euler4 img l = 4 * euler_spec img l.
Proof. exact euler_is_components_minus_holes_partial. Qed.
Print Assumptions C15_euler_is_components_minus_holes_partial.

Theorem C15_euler_is_components_minus_holes_3x3 : forall h w im l,
  (1 <= h <= 3)%nat -> (1 <= w <= 3)%nat -> length im = h ->
  Forall (fun r => length r = w /\ Forall (fun v => In v [0;1;2]) r) im -> In l [1;2] ->
  euler4 im l = 4 * euler_spec im l.
Proof. exact euler_components_minus_holes_3x3. Qed.
Print Assumptions C15_euler_is_components_minus_holes_3x3.

Theorem C15_euler_is_components_minus_holes_binary : forall h w im l,
  In (h, w) shapes4 -> length im = h ->
  Forall (fun r => length r = w /\ Forall (fun v => In v [0;1]) r) im -> In l [1;2] ->
  euler4 im l = 4 * euler_spec im l.
Proof. exact euler_components_minus_holes_4x4. Qed.
Print Assumptions C15_euler_is_components_minus_holes_binary.

(* ================================================================ the checkers that are run on the
   implementation's outputs have a declarative meaning (checker soundness, all Full) *)

(* the flood fill counts the classes of the connectivity relation (paths inside the set along a
   symmetric adjacency): there is a list of representatives, exactly one per class *)
Theorem C15_n_components_spec : forall (A : Type) (adj : A -> A -> bool), (forall x y, adj x y = adj y x) ->
  forall s : list A, NoDup s -> exists reps : list A,
  n_components adj s = Z.of_nat (length reps) /\ NoDup reps /\
  (forall r, In r reps -> In r s) /\
  (forall x, In x s -> exists r, In r reps /\ cpath adj s r x) /\
  (forall r1 r2, In r1 reps -> In r2 reps -> cpath adj s r1 r2 -> r1 = r2).
Proof. exact @n_components_spec. Qed.
Print Assumptions C15_n_components_spec.

Theorem C15_euler_spec_meaning : forall (img : image) (l : Z), l <> 0 -> exists fg bg : list px,
  euler_spec img l = Z.of_nat (length fg) - (Z.of_nat (length bg) - 1) /\
  (NoDup fg /\ (forall r, In r fg -> In r (pixels_of img l)) /\
   (forall p, In p (pixels_of img l) -> exists r, In r fg /\ cpath adj8 (pixels_of img l) r p) /\
   (forall r1 r2, In r1 fg -> In r2 fg -> cpath adj8 (pixels_of img l) r1 r2 -> r1 = r2)) /\
  (NoDup bg /\ (forall r, In r bg -> In r (complement_of img l)) /\
   (forall p, In p (complement_of img l) -> exists r, In r bg /\ cpath adj4 (complement_of img l) r p) /\
   (forall r1 r2, In r1 bg -> In r2 bg -> cpath adj4 (complement_of img l) r1 r2 -> r1 = r2)).
Proof. exact euler_spec_meaning. Qed.
Print Assumptions C15_euler_spec_meaning.

Theorem C15_euler_ok_sound : forall img idx w4, euler_ok img idx w4 = true ->
  length idx = length w4 /\ forall k, (k < length idx)%nat -> nth k w4 0 = 4 * euler_spec img (nth k idx 0).
Proof. exact euler_ok_sound. Qed.
Print Assumptions C15_euler_ok_sound.

Theorem C15_neighbors_ok_sound : forall img v_count v_index v_neighbor, rect img ->
  neighbors_ok img v_count v_index v_neighbor = true ->
  Z.of_nat (length v_count) = img_max img /\ v_index = excl_cumsum 0 v_count /\
  forall l, 1 <= l <= img_max img ->
    forall m, In m (slice (nth (Z.to_nat (l - 1)) v_index 0) (nth (Z.to_nat (l - 1)) v_count 0) v_neighbor) <->
              m <> 0 /\ m <> l /\ touching img l m.
Proof. exact neighbors_ok_sound. Qed.
Print Assumptions C15_neighbors_ok_sound.

Theorem C15_colors_ok_sound : forall img col, colors_ok img col = true ->
  forall y x, 0 <= y < Z.of_nat (img_h img) -> 0 <= x < Z.of_nat (img_w img) ->
    (get2 img y x = 0 -> get2 col y x = 0) /\ (get2 img y x <> 0 -> 0 < get2 col y x) /\
    (forall y' x', 0 <= y' < Z.of_nat (img_h img) -> 0 <= x' < Z.of_nat (img_w img) ->
       get2 img y x = get2 img y' x' -> get2 col y x = get2 col y' x') /\
    (forall d, In d dirs8 -> get2 img y x <> 0 -> get2 img (y + fst d) (x + snd d) <> 0 ->
       get2 img y x <> get2 img (y + fst d) (x + snd d) -> get2 col y x <> get2 col (y + fst d) (x + snd d)).
Proof. exact colors_ok_sound. Qed.
Print Assumptions C15_colors_ok_sound.

Theorem C15_relabel_ok_sound : forall img new n, relabel_ok img new n = true ->
  (forall p, In p (rl_pairs img new) -> (fst p = 0 -> snd p = 0) /\ (fst p <> 0 -> 1 <= snd p <= n)) /\
  (forall p q, In p (rl_pairs img new) -> In q (rl_pairs img new) -> fst p <> 0 -> fst q <> 0 ->
     (fst p < fst q <-> snd p < snd q)) /\
  (forall k, 1 <= k <= n -> In k (concat new)).
Proof. exact relabel_ok_sound. Qed.
Print Assumptions C15_relabel_ok_sound.

(* the certificate checker for all_connected_components, any graph size: when it accepts, the labels
   are exactly the partition of 0..max into the connected components of the undirected edge list *)
Theorem C15_acc_cert_sound : forall i j labels par eidx dep rep : list N,
  acc_cert_ok i j labels par eidx dep rep = true -> i <> [] ->
  let n := S (N.to_nat (list_maxN (i ++ j))) in
  length i = length j /\ length labels = n /\
  forall u w, (u < n)%nat -> (w < n)%nat ->
    (nth u labels 0%N = nth w labels 0%N <-> uconn (combine i j) (N.of_nat u) (N.of_nat w)).
Proof. exact acc_cert_sound. Qed.
Print Assumptions C15_acc_cert_sound.

(* ================================================================ euler_number = components - holes,
   topologically (round 3; C05's Base/Topo.v, Base/Skel.v, Proofs/TopoCounts.v are IMPORTED) *)

(* Finite-256: the (8,4)-simple predicate used for the quad count is C05's simple_ok *)
Theorem C15_simple8_is_simple_ok : forall n00 n01 n02 n10 n12 n20 n21 n22,
  simple8 n00 n01 n02 n10 n12 n20 n21 n22 = Skel.simple_ok [n00; n01; n02; n10; true; n12; n20; n21; n22].
Proof. exact simple8_is_simple_ok. Qed.
Print Assumptions C15_simple8_is_simple_ok.

(* euler_reducible_topological (Full, no hypotheses about topology): for every label image whose
   label-l pixel set is emptied by (a) deleting (8,4)-simple pixels, (b) filling pixels that are simple
   once filled, (c) deleting isolated points, (d) closing one-pixel holes (Reduces2, k = #(c) - #(d)),
   and for EVERY complete irredundant list of representatives fgl of the 8-components of the set and
   bgl of the 4-components of its complement IN THE WHOLE PLANE (Spec.TopoCheck.comp_reps):
   4 W = 4 * (|fgl| - (|bgl| - 1)) = 4 * (components - holes), and that number is k. *)
Theorem C15_euler_reducible_topological : forall l : Z, l <> 0 -> forall im k, Reduces2 l im k -> rect im ->
  forall fgl bgl, TopoCheck.comp_reps Topo.adj8 (Topo.fg (X_of im l)) fgl ->
                  TopoCheck.comp_reps Topo.adj4 (Topo.bg (X_of im l)) bgl ->
  euler4 im l = 4 * topo_count fgl bgl /\ topo_count fgl bgl = k.
Proof. exact euler_reducible_topological. Qed.
Print Assumptions C15_euler_reducible_topological.

(* every reduction by deletions only (round 2) is such a reduction *)
Theorem C15_Reduces_Reduces2 : forall l im k, Reduces l im k -> Reduces2 l im k.
Proof. exact Reduces_Reduces2. Qed.
Print Assumptions C15_Reduces_Reduces2.

(* the certificate search that the harness runs on every euler_number case: when it returns k, the
   model's 4 W is 4 k and k is components - holes for every pair of representative lists (Full) *)
Theorem C15_reduce_label_certifies : forall (im : image) (l k : Z), rect im -> l <> 0 -> reduce_label im l = Some k ->
  euler4 im l = 4 * k /\
  forall fgl bgl, TopoCheck.comp_reps Topo.adj8 (Topo.fg (X_of im l)) fgl ->
                  TopoCheck.comp_reps Topo.adj4 (Topo.bg (X_of im l)) bgl -> topo_count fgl bgl = k.
Proof. exact reduce_label_certifies. Qed.
Print Assumptions C15_reduce_label_certifies.

(* which images are covered - Finite: every non-empty label image up to 3x3 over {0,1,2} and every binary
   image of the shapes 1x4..3x4, 4x1..4x3, 1x5, 2x5, 5x1, 5x2 reduces to the empty image by the four moves.
   C15_euler_is_components_minus_holes stays _partial in general: missing is the global lemma "every finite
   pixel set is Reduces2-reducible"; the class covered is exactly Reduces2 (deletions of simple pixels and
   isolated points, simple fillings, closing of one-pixel holes), membership is certified per case by
   reduce_label (evidence counts the certified share). *)
Theorem C15_small_images_reducible : forall h w im l, im <> [] ->
  (In (h, w) shapes3 /\ Forall (fun r => length r = w /\ Forall (fun v => In v [0; 1; 2]) r) im /\ In l [1; 2]) \/
  (In (h, w) shapes4 /\ Forall (fun r => length r = w /\ Forall (fun v => In v [0; 1]) r) im /\ In l [1]) ->
  length im = h -> exists k, Reduces2 l im k.
Proof. exact small_images_reducible. Qed.
Print Assumptions C15_small_images_reducible.

(* ================================================================ round 4 *)

(* C15_euler_holefree (Full, every image size): a label whose pixel set has a 4-connected complement in
   the plane (no hole) is emptied by deletions of simple pixels and isolated points alone - C05's
   end-pixel lemma end_pixel_fin is IMPORTED: as long as some pixel has a neighbour there is an end
   pixel, end patterns are simple (512 sweep), hole-freeness is kept - hence 4 W = 4 * components *)
Theorem C15_holefree_reducible : forall l : Z, l <> 0 -> forall im, rect im ->
  EndPixel.hole_free' (X_of im l) -> exists k, Reduces l im k.
Proof. exact holefree_reducible. Qed.
Print Assumptions C15_holefree_reducible.

Theorem C15_euler_holefree : forall l : Z, l <> 0 -> forall im, rect im -> EndPixel.hole_free' (X_of im l) ->
  forall fgl, TopoCheck.comp_reps Topo.adj8 (Topo.fg (X_of im l)) fgl -> euler4 im l = 4 * Z.of_nat (length fgl).
Proof. exact euler_holefree. Qed.
Print Assumptions C15_euler_holefree.

(* box / plane bridge (Full): the flood-fill counts of the executable euler_spec (label pixels inside the
   image, complement inside the image grown by one pixel) equal the plane counts for ANY lists of
   representatives; such lists exist for every image *)
Theorem C15_euler_spec_plane : forall (im : image) (l : Z), rect im -> l <> 0 -> forall fgl bgl,
  TopoCheck.comp_reps Topo.adj8 (Topo.fg (X_of im l)) fgl -> TopoCheck.comp_reps Topo.adj4 (Topo.bg (X_of im l)) bgl ->
  euler_spec im l = topo_count fgl bgl.
Proof. exact euler_spec_plane. Qed.
Print Assumptions C15_euler_spec_plane.

(* the round-2 conditional theorem without its hypotheses: for every image reducible by the four moves,
   4 W = 4 * (components - holes) with the executable flood-fill definition that the harness also evaluates,
   and that number is k.  (Images with holes: the dual end-pixel lemma for the 4-connected background
   component of a hole is not available, so general reducibility of images WITH holes stays certificate
   based: reduce_label per case, C15_small_images_reducible; the unrestricted statement is _partial only
   for that reason.) *)
Theorem C15_euler_is_components_minus_holes_reducible : forall l : Z, l <> 0 -> forall im k, Reduces2 l im k -> rect im ->
  euler4 im l = 4 * euler_spec im l /\ euler_spec im l = k.
Proof. exact euler_is_components_minus_holes_reducible. Qed.
Print Assumptions C15_euler_is_components_minus_holes_reducible.

(* ================================================================ round 5: what is covered, precisely.
   Full (every image size):  (a) hole-free labels (C15_euler_holefree);  (b) labels all of whose holes are
   single pixels, any number of objects and holes (below);  (c) every image reducible by the four moves
   (C15_euler_is_components_minus_holes_reducible), membership certified per case by the verified search
   (thorough tier: 46 205 of 46 205 (image, label) pairs).  Finite: all images up to 3x3 over {0,1,2}, all
   binary images up to 3x4 / 2x5 (in the build) and 4x4 (coq/optional/EulerCover44C15.v, on demand).
   NOT proved: reducibility of every image with a hole of two or more pixels.  Needed is the DUAL end-pixel
   lemma - every finite 4-connected background component H, |H| >= 2, without an enclosed object has a pixel
   whose filling is simple (an end pixel of H for (4,8)-adjacency) - plus an induction over the nesting of
   objects in holes (a hole that encloses an object has no fillable pixel until that object is deleted).
   C05's end_pixel_fin is the (8,4) statement and cannot be applied to the complement as is; the extremal
   pixel of a hole is not always fillable (4x4 image of ones with zeros at (1,2), (2,1), (2,2): filling the
   raster-last hole pixel (2,2) splits the hole).  The unrestricted statement therefore stays _partial. *)
Theorem C15_singleton_holes_reducible : forall l : Z, l <> 0 -> forall im, rect im ->
  singleton_holes (X_of im l) -> exists k, Reduces2 l im k.
Proof. exact singleton_holes_reducible. Qed.
Print Assumptions C15_singleton_holes_reducible.

Theorem C15_euler_singleton_holes : forall (l : Z) (im : image), l <> 0 -> rect im -> singleton_holes (X_of im l) ->
  euler4 im l = 4 * euler_spec im l.
Proof. exact euler_singleton_holes. Qed.
Print Assumptions C15_euler_singleton_holes.

(* ================================================================ round 6: the unrestricted statement by
   induction over the pixels in raster order *)

(* combinatorial half (Full; local table Finite-16 by kernel computation, lifted to every image): deleting
   the raster-LAST pixel of a label changes 4 W by 4 (1 - k), k = number of 8-components of its set
   neighbours among NW, N, NE, W (all later neighbours are background) *)
Theorem C15_qdelta_last : forall nw n ne w : bool,
  qdelta nw n ne w false false false false = 4 * (1 - k_last nw n ne w).
Proof. exact qdelta_last. Qed.
Print Assumptions C15_qdelta_last.

Theorem C15_euler_delete_last_pixel : forall (im : image) (l y x : Z), rect im -> l <> 0 -> last_px im l y x ->
  euler4 im l = euler4 (remove_px im y x) l +
    4 * (1 - k_last (inS im l (y - 1) (x - 1)) (inS im l (y - 1) x) (inS im l (y - 1) (x + 1)) (inS im l y (x - 1))).
Proof. exact euler_delete_last_pixel. Qed.
Print Assumptions C15_euler_delete_last_pixel.

(* C15_euler_all_images_partial (the property's sentence for EVERY label image).
   Statement at full strength:  forall im l, rect im -> l <> 0 -> euler4 im l = 4 * euler_spec im l.
   PROVED: exactly that, from ONE premise (written out below), the converse half of the digital Jordan lemma
   at the raster-last pixel p: if the set neighbour u (W or NW) of p and NE(p) are NOT 8-connected without p
   (p joins two objects), the background pixel N(p) between them is still 4-connected to S(p), i.e. to the
   outside, when p is present.  Everything else is proved: the quad side (above); components - holes changes
   by the same 1 - k for k = 0 (isolated point) and k = 1 (p is (8,4)-simple, C05 imported); for k = 2 the
   dichotomy is decided by the flood fill, "same object" gives one more hole by C05's sep_not_connected
   (crossing parity, imported) and new counting lemmas (AddBridge: a point joining two classes; AddAttached),
   "different objects" gives one component less and - by the premise - no new hole; representative lists exist
   for every image (box/plane bridge).  MISSING: that premise (EulerRasterC15.bridge_keeps_background); it is
   the existence direction of the Jordan curve theorem (a background path around an object), C05 has only the
   separation direction. *)
Theorem C15_euler_all_images_partial :
  (forall (Y : Topo.img) (L : list Topo.px) (p u : Topo.px), (forall q, Y q = true -> In q L) ->
     Y p = true -> (forall q, Y q = true -> ~ TopoPar.ltr p q) ->
     Y (EndPixelSep.pN p) = false -> Y (EndPixelSep.pNE p) = true ->
     (u = EndPixelSep.pW p \/ u = EndPixelSep.pNW p) -> Y u = true ->
     ~ Topo.path Topo.adj8 (fun q => Topo.fg Y q /\ q <> p) u (EndPixelSep.pNE p) ->
     Topo.path Topo.adj4 (Topo.bg Y) (EndPixelSep.pN p) (EndPixelSep.pS p)) ->
  forall (im : image) (l : Z), rect im -> l <> 0 -> euler4 im l = 4 * euler_spec im l.
Proof. exact euler_is_components_minus_holes_all. Qed.
Print Assumptions C15_euler_all_images_partial.

(* ================================================================ round 7.  The premise of
   C15_euler_all_images_partial (existence half of the Jordan lemma) is still NOT proved.  What is proved without
   it, for EVERY rectangular label image and every label (Full): one of the two inequalities - the quad-count
   Euler number is never below components - holes.  (Raster induction; in the one open case "the last pixel joins
   two objects" adding the pixel to the background can only merge background classes, add_point_le.)  Equality
   for every image is equivalent to the premise. *)
Theorem C15_euler_lower_bound : forall (im : image) (l : Z), rect im -> l <> 0 -> 4 * euler_spec im l <= euler4 im l.
Proof. exact euler_lower_bound. Qed.
Print Assumptions C15_euler_lower_bound.
