(* C15 — property theorems.  Only statements, each closed by [exact], each followed by
   Print Assumptions. *)
From Coq Require Import ZArith List Bool Sorted.
From Centro Require Import Base.GraphC15 Model.LabelGraph Spec.LabelGraph Proofs.ColorC15.
Import ListNotations.
Open Scope Z_scope.

(* the first-free-colour rule never returns a colour of a neighbour *)
Theorem C15_first_free_spec : forall colors k,
  StronglySorted Z.lt colors -> (forall c, In c colors -> k <= c) ->
  ~ In (first_free k colors) colors /\ k <= first_free k colors.
Proof. exact first_free_spec. Qed.
Print Assumptions C15_first_free_spec.
