(* C03 - property theorems.  Only statements, each closed by [exact], each followed by
   Print Assumptions. *)
From Coq Require Import ZArith List Bool.
From Centro Require Import Spec.PropSpec Proofs.PropPotential.
Open Scope Z_scope.

(* the checker run on the implementation's output is sound for every cost algebra satisfying
   the monotonicity laws, every finite graph, every input and every hint *)
Theorem C03_prop_check_sound :
  forall K le leb eqb okb plus zero ok, algebra_laws K le leb eqb okb plus zero ok ->
  forall V eqV verts nbrs mask lab w lo d hint,
    (forall a b : V, eqV a b = true -> a = b) ->
    (forall v u, In v verts -> In u (nbrs v) -> In u verts) ->
    (forall u v, ok (w u v)) ->
    prop_check K leb eqb okb plus zero V eqV verts nbrs mask lab w lo d hint = true ->
    Spec K le plus zero V verts nbrs mask lab w lo d.
Proof. exact prop_check_sound_gen. Qed.
Print Assumptions C03_prop_check_sound.
