(* C03 - property theorems.  Only statements, each closed by [exact], each followed by
   Print Assumptions.  Examples showing that the hypotheses are satisfiable on non-trivial inputs:
   Proofs/PropGrid.v (prop_check_Z_example, prop_check_b64_example, laws_Z),
   Proofs/PropHeapKey.v (heap_example), Proofs/PropKey.v (key_collision_example),
   Proofs/PropDijkstra.v (dijkstra_example). *)
From Coq Require Import ZArith List Bool Permutation.
From Coq Require PrimFloat.
From Centro Require Import Base.Sx Base.PropFloat Model.PropHeap Model.Propagate Spec.PropSpec Spec.PropCheck
     Proofs.PropPotential Proofs.PropGrid Proofs.PropKey Proofs.PropHeapInv Proofs.PropHeapKey Proofs.PropDijkstra Proofs.PropFuel Proofs.PropLabels Proofs.PropFloatMono Proofs.PropFloatFacts Proofs.PropOptimal Proofs.PropStepCost Proofs.PropOptimalClosed.
Import ListNotations.
Open Scope Z_scope.

(* --- the checker (run on the implementation's own output) ----------------------------------- *)

(* potentials: reported distances without a relaxable edge are lower bounds of every path cost,
   over any monotone cost algebra (port of design/prototypes/Potential.v, extended by the carrier
   predicate [ok]) *)
Theorem C03_potential_sound :
  forall (K : Type) (le : K -> K -> Prop) (plus : K -> K -> K) (zero : K) (ok : K -> Prop),
    (forall a b c, le a b -> le b c -> le a c) ->
    ok zero ->
    (forall a b, ok a -> ok b -> ok (plus a b)) ->
    (forall a, ok a -> le zero a) ->
    (forall a b c, ok a -> ok b -> ok c -> le a b -> le (plus a c) (plus b c)) ->
    forall (V : Type) (nbrs : V -> list V) (mask : V -> bool) (w : V -> V -> K),
      (forall u v, ok (w u v)) ->
      forall (pot : V -> K) (act : V -> Prop),
        (forall v, act v -> ok (pot v)) ->
        (forall a b, act a -> edge V nbrs mask a b -> act b /\ le (pot b) (plus (pot a) (w a b))) ->
        forall s p, act s -> pot s = zero -> is_path V nbrs mask s p ->
          act (last_of V s p) /\ le (pot (last_of V s p)) (pcost K plus V w zero s p).
Proof. exact potential_sound_abs. Qed.
Print Assumptions C03_potential_sound.

(* tight chains: every (pixel, label) accepted by the hint verifier is witnessed by a real mask
   path from a masked seed with that label whose cost is the pixel's reported distance *)
Theorem C03_tight_chain_sound :
  forall (K : Type) (leb eqb : K -> K -> bool) (okb : K -> bool) (plus : K -> K -> K) (zero : K),
    (forall a b, eqb a b = true -> a = b) ->
    forall (V : Type) (eqV : V -> V -> bool) (verts : list V) (nbrs : V -> list V) (mask : V -> bool)
           (lab : V -> Z) (w : V -> V -> K) (lo : V -> Z) (d : V -> option K),
      (forall a b, eqV a b = true -> a = b) ->
      forallb (check_vertex K leb eqb okb plus zero V nbrs mask lab w lo d) verts = true ->
      forall hint v l, In (v, l) (chain_set K eqb plus V eqV verts nbrs mask lab w d hint) ->
        exists s p, reaches V verts nbrs mask lab s p v /\ d v = Some (pcost K plus V w zero s p) /\ lab s = l.
Proof. exact tight_chain_sound_pair. Qed.
Print Assumptions C03_tight_chain_sound.

(* the checker is sound for every cost algebra satisfying the laws, every finite graph, every
   input, output and hint *)
Theorem C03_prop_check_sound :
  forall K le leb eqb okb plus zero ok, algebra_laws K le leb eqb okb plus zero ok ->
  forall V eqV verts nbrs mask lab w lo d hint,
    (forall a b : V, eqV a b = true -> a = b) ->
    (forall v u, In v verts -> In u (nbrs v) -> In u verts) ->
    (forall u v, ok (w u v)) ->
    prop_check K leb eqb okb plus zero V eqV verts nbrs mask lab w lo d hint = true ->
    Spec K le plus zero V verts nbrs mask lab w lo d.
Proof. exact prop_check_sound_gen. Qed.
Print Assumptions C03_prop_check_sound.

(* exact integer instance on pixel grids (cost = D, weight 0): unconditional *)
Theorem C03_prop_check_Z_sound : forall m n image labels mask lo dist hint,
  prop_check_Z m n image labels mask lo dist hint = true -> Spec_Z m n image labels mask lo dist.
Proof. exact prop_check_Z_sound. Qed.
Print Assumptions C03_prop_check_Z_sound.

(* binary64 instance (what the code computes); the only premise left is monotonicity of float
   addition on non-negative doubles, which IEEE-754 round-to-nearest satisfies *)
Theorem C03_prop_check_b64_sound :
  (forall a b c, ok64 a -> ok64 b -> ok64 c -> a <= b -> plus64 a c <= plus64 b c) ->
  forall m n image labels mask weight lo dist hint,
    prop_check_b64 m n image labels mask weight lo dist hint = true ->
    Spec_b64 m n image labels mask weight lo dist.
Proof. exact prop_check_b64_sound. Qed.
Print Assumptions C03_prop_check_b64_sound.

(* that premise, proved: PrimFloat.add is tied to the IEEE-754 specification by Coq's FloatAxioms
   (add_spec, Prim2SF_valid, SF2Prim_Prim2SF, Prim2SF_SF2Prim; through Flocq's add_equiv), rounding is
   monotone (Flocq round_le), bit patterns of non-negative doubles are ordered as their values
   (Bcompare_correct).  Print Assumptions lists those four axioms and the axioms of Coq's classical
   real numbers (classic, sig_forall_dec, sig_not_dec, functional_extensionality_dep). *)
Theorem C03_b64_add_monotone :
  forall a b c, ok64 a -> ok64 b -> ok64 c -> a <= b -> plus64 a c <= plus64 b c.
Proof. exact b64_add_monotone_proved. Qed.
Print Assumptions C03_b64_add_monotone.

(* hence the binary64 instance of the checker is sound with no premise left *)
Theorem C03_prop_check_b64_sound_closed : forall m n image labels mask weight lo dist hint,
  prop_check_b64 m n image labels mask weight lo dist hint = true ->
  Spec_b64 m n image labels mask weight lo dist.
Proof. exact prop_check_b64_sound_closed. Qed.
Print Assumptions C03_prop_check_b64_sound_closed.

(* the grid's neighbour lists are exactly 8-connectivity *)
Theorem C03_grid_8_connected : forall m n v u, In v (coords m n) ->
  (In u (gnbrs m n v) <-> In u (coords m n) /\ Z.max (Z.abs (fst u - fst v)) (Z.abs (snd u - snd v)) = 1).
Proof. exact gnbrs_iff. Qed.
Print Assumptions C03_grid_8_connected.

(* --- the heap of heap.pxd -------------------------------------------------------------------- *)

(* the un-heapified seed array (all keys equal) satisfies the weak invariant *)
Theorem C03_heap_weak_inv_init : forall l k, (forall r, In r l -> hkey r = k) -> weak_inv l.
Proof. exact heap_weak_inv_init. Qed.
Print Assumptions C03_heap_weak_inv_init.

(* "every parent's distance key <= its children's" is kept by push although smaller()
   compares five columns *)
Theorem C03_heap_weak_inv_push : forall h e, Forall wf5 (rows h) -> wf5 e -> weak_inv (rows h) ->
  weak_inv (rows (heappush h e)) /\ Forall wf5 (rows (heappush h e)).
Proof. exact heap_weak_inv_push. Qed.
Print Assumptions C03_heap_weak_inv_push.

(* ... and by pop, which returns a row of minimal key *)
Theorem C03_heap_weak_inv_pop : forall h, Forall wf5 (rows h) -> weak_inv (rows h) -> rows h <> [] ->
  weak_inv (rows (snd (heappop h))) /\ Forall wf5 (rows (snd (heappop h))) /\
  (forall r, In r (rows h) -> le_key (fst (heappop h)) r).
Proof. exact heap_weak_inv_pop. Qed.
Print Assumptions C03_heap_weak_inv_pop.

Theorem C03_heap_multiset_push : forall h e, Permutation (rows (heappush h e)) (e :: rows h).
Proof. exact heap_multiset_push. Qed.
Print Assumptions C03_heap_multiset_push.

Theorem C03_heap_multiset_pop : forall h, rows h <> [] ->
  Permutation (rows h) (fst (heappop h) :: rows (snd (heappop h))).
Proof. exact heap_multiset_pop. Qed.
Print Assumptions C03_heap_multiset_pop.

(* --- the two-int32 key ----------------------------------------------------------------------- *)

(* on bit patterns of non-negative doubles the key (either layout) is monotone *)
Theorem C03_key_monotone : forall k a b, 0 <= a -> a <= b -> b < two63 -> lexle2 (key k a) (key k b).
Proof. exact key_monotone. Qed.
Print Assumptions C03_key_monotone.

Theorem C03_key_reflects_when_even : forall a b, 0 <= a -> a < b -> b < two63 -> b mod 2 = 0 ->
  lexlt2 (key Dropped a) (key Dropped b).
Proof. exact key_reflects_when_even. Qed.
Print Assumptions C03_key_reflects_when_even.

Theorem C03_key_full64_strict : forall a b, 0 <= a -> a < b -> b < two63 ->
  lexlt2 (key Full64 a) (key Full64 b).
Proof. exact key_full64_strict. Qed.
Print Assumptions C03_key_full64_strict.

(* the key as written is not injective: doubles one ulp apart collide (cause of F7) *)
Theorem C03_key_strict_refuted : forall c, 0 <= c -> 2 * c + 1 < two63 ->
  key Dropped (2 * c) = key Dropped (2 * c + 1).
Proof. exact key_dropped_collision. Qed.
Print Assumptions C03_key_strict_refuted.

(* --- the main loop of the model -------------------------------------------------------------- *)

(* dijkstra_sound: for every input (non-negative labels), both key layouts, and whatever order the
   heap delivers rows in, every distance the model reports is -1 (untouched), 0 at a seed, or the
   cost (folded as the code folds it: step + accumulated, binary64) of a real 8-connected mask
   path from a masked seed.  [propagate .. = Some] excludes only the out-of-fuel result, which
   C03_fuel_sufficient below shows never occurs. *)
Theorem C03_dijkstra_sound : forall key image labels mask m n weight lo d,
  shape labels m n -> (forall v, inr m n v -> 0 <= labv labels v) ->
  propagate key image labels mask m n weight = Some (lo, d) ->
  forall v, inr m n v ->
    let x := get2 PrimFloat.zero d (fst v) (snd v) in
    x = neg_one \/ (x = PrimFloat.zero /\ 0 < labv labels v) \/ reach image mask m n weight labels v x.
Proof. exact dijkstra_sound. Qed.
Print Assumptions C03_dijkstra_sound.

(* labels_sound: every output label is the input label at a seed and otherwise 0 or the label of a
   masked seed connected to the pixel by an 8-connected path inside the mask *)
Theorem C03_labels_sound : forall key image labels mask m n weight lo d,
  shape labels m n -> (forall v, inr m n v -> 0 <= labv labels v) ->
  propagate key image labels mask m n weight = Some (lo, d) ->
  forall v, inr m n v ->
    let l := get2 0 lo (fst v) (snd v) in
    (0 < labv labels v /\ l = labv labels v) \/
    (labv labels v = 0 /\ (l = 0 \/ conn mask m n labels v l)).
Proof. exact labels_sound. Qed.
Print Assumptions C03_labels_sound.

(* the fuel of the model's loop always suffices: the out-of-fuel result never occurs, so
   C03_dijkstra_sound applies to every well-shaped input *)
Theorem C03_fuel_sufficient : forall key image labels mask m n weight,
  shape labels m n -> 0 <= m -> 0 <= n ->
  exists lo d, propagate key image labels mask m n weight = Some (lo, d).
Proof. exact fuel_sufficient. Qed.
Print Assumptions C03_fuel_sufficient.

(* --- optimality of the loop ------------------------------------------------------------------- *)
(* Vocabulary (Proofs/PropOptimal.v): reachL v x l k = "x is the cost (folded as the code folds it:
   step + accumulated, binary64) of a k-step 8-connected mask path from a masked seed labelled l to v";
   okF x = "x is a non-negative double or +inf"; bitsD = IEEE bit pattern (on okF values its integer
   order is the numeric order: C03_ltb_is_bit_order).  finF = PrimFloat.is_finite.
   Layers: popped keys non-decreasing (kstar), finalised pixels frozen, pending pixels own a row
   carrying exactly their current distance (this is where order reflection of the key is used),
   relaxation invariant i_nbr; loop_opt, relax_opt, init_INV. *)

(* every step cost of a finite image with a finite weight is a non-negative double or +inf, never NaN *)
Theorem C03_steps_ok_finite : forall image m n weight,
  Forall (Forall finF) image -> finF weight ->
  forall u v, inr m n u -> inr m n v -> adj8 u v -> okF (stepF image m n weight u v).
Proof. exact steps_ok_finite. Qed.
Print Assumptions C03_steps_ok_finite.

(* comparison of the kernel's floats = integer order of the bit patterns on non-negative doubles *)
Theorem C03_ltb_is_bit_order : forall x y, okF x -> okF y ->
  (PrimFloat.ltb x y = true <-> bits_of_float x < bits_of_float y).
Proof. exact ltb_bits. Qed.
Print Assumptions C03_ltb_is_bit_order.

(* dijkstra_optimal_full64: for EVERY finite input (labels >= 0) the Full64-key loop is optimal: at every
   non-seed pixel v the reported distance (1) is a lower bound of the cost of every mask path from every
   masked seed, (2) if present, is realised bit for bit by a path from a seed carrying the reported
   label, (3) otherwise is -1. *)
Theorem C03_dijkstra_optimal_full64 : forall image labels mask m n weight lo d,
  shape labels m n -> (forall v, inr m n v -> 0 <= labv labels v) ->
  Forall (Forall finF) image -> finF weight ->
  propagate Full64 image labels mask m n weight = Some (lo, d) ->
  forall v, inr m n v -> labv labels v = 0 ->
    let dv := get2 PrimFloat.zero d (fst v) (snd v) in
    (forall x l k, reachL image mask m n weight labels v x l k -> okF dv /\ bitsD dv <= bitsD x) /\
    (okF dv -> exists x k, bitsD x = bitsD dv /\ reachL image mask m n weight labels v x (get2 0 lo (fst v) (snd v)) k) /\
    (dv = neg_one \/ okF dv).
Proof. exact dijkstra_optimal_full64. Qed.
Print Assumptions C03_dijkstra_optimal_full64.

(* the same for the key AS WRITTEN (Dropped), as far as it is true: on every finite input on which the
   dropped mantissa bit is 0 for the cost of every mask path of at most m*n steps from a masked seed
   (e.g. weight 0 on integer-valued images with path sums below 2^52, or costs that are multiples of
   2^-k with spare mantissa bits) the key reflects the order of all occurring distances and the loop
   is optimal.  Finding F7 lives exactly outside this class (C03_dijkstra_optimal_refuted: a 1-ulp
   pair with odd low bit).  Example of the hypotheses: dropped_reflects_example. *)
Theorem C03_dijkstra_optimal_dropped_when_key_reflects : forall image labels mask m n weight lo d,
  shape labels m n -> (forall v, inr m n v -> 0 <= labv labels v) ->
  Forall (Forall finF) image -> finF weight ->
  (forall v x l k, reachL image mask m n weight labels v x l k -> (k <= Z.to_nat m * Z.to_nat n)%nat ->
                   bitsD x mod 2 = 0) ->
  propagate Dropped image labels mask m n weight = Some (lo, d) ->
  forall v, inr m n v -> labv labels v = 0 ->
    let dv := get2 PrimFloat.zero d (fst v) (snd v) in
    (forall x l k, reachL image mask m n weight labels v x l k -> okF dv /\ bitsD dv <= bitsD x) /\
    (okF dv -> exists x k, bitsD x = bitsD dv /\ reachL image mask m n weight labels v x (get2 0 lo (fst v) (snd v)) k) /\
    (dv = neg_one \/ okF dv).
Proof. exact dijkstra_optimal_dropped_when_key_reflects. Qed.
Print Assumptions C03_dijkstra_optimal_dropped_when_key_reflects.

(* --- optimality of the code as written: refuted by the faithful model (finding F7) ----------- *)
(* dijkstra_optimal for the key as written: "for every input the Dropped-key model's output passes
   prop_check" is FALSE; the statement proved is its negation's witness (the Full64 key is optimal
   for all inputs: C03_dijkstra_optimal_full64 above). *)
Theorem C03_dijkstra_optimal_refuted :
  exists x, (exists lo d, run_sx x = Some (lo, d) /\
                          nth 0 (nth 4 d []) 0 = 4609434218613702657 /\
                          check_b64_sx x lo d (auto_hint_sx x lo d) = false) /\
            as_Z (arg 6 x) = 0.
Proof. exact dropped_key_optimality_refuted. Qed.
Print Assumptions C03_dijkstra_optimal_refuted.

Theorem C03_full64_passes_on_f7_witness : model_passes (f7_input 1) = true.
Proof. exact full64_key_passes_on_f7_witness. Qed.
Print Assumptions C03_full64_passes_on_f7_witness.
