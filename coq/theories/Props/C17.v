(* C17 — property theorems (placeholder until the proofs land). *)
From Coq Require Import ZArith List Bool.
From Centro Require Import Base.LocalMaxGrid.
Open Scope Z_scope.

Theorem C17_ravel : forall (A : Type) (d : A) h w g y x k,
  wf h w g -> 0 <= y < Z.of_nat h -> 0 <= x < Z.of_nat w -> k = Z.of_nat w * y + x ->
  zget (concat g) k = Some (get2 d g y x).
Proof. exact @zget_concat. Qed.
Print Assumptions C17_ravel.
