(* C17 — property theorems.  Only statements, each closed by [exact], each followed by
   Print Assumptions. *)
From Coq Require Import ZArith List Bool.
From Centro Require Import Base.LocalMaxGrid Model.LocalMax Spec.LocalMaxSpec
  Proofs.LocalMaxShrink Proofs.LocalMaxIlm Proofs.LocalMaxReg Proofs.LocalMaxPlateau Proofs.LocalMaxFlood.
Import ListNotations.
Open Scope Z_scope.

(* is_local_maximum: for every image shape (also smaller than the footprint), every label image
   and every footprint with odd sizes >= 3, symmetric or not, the line-level model (padded
   labels, sorted stride offsets, raveled bounds-checked reads, shrinking index triples) never
   reads out of bounds and marks exactly the labelled pixels not exceeded by a same-label pixel
   under the footprint. *)
Theorem C17_is_local_maximum_spec : forall image labels (fp : list (list bool)),
  let h := length labels in
  let w := length (hd [] labels) in
  wf h w labels -> wf h w image ->
  3 <= zlen fp -> 3 <= zlen (hd [] fp) -> Z.odd (zlen fp) = true -> Z.odd (zlen (hd [] fp)) = true ->
  exists out, is_local_maximum image labels fp = Some out /\ wf h w out /\
    forall y x, 0 <= y < Z.of_nat h -> 0 <= x < Z.of_nat w ->
      (get2 false out y x = true <-> local_max_at image labels fp y x).
Proof. exact is_local_maximum_spec. Qed.
Print Assumptions C17_is_local_maximum_spec.

Theorem C17_is_local_maximum_safe : forall image labels (fp : list (list bool)),
  let h := length labels in
  let w := length (hd [] labels) in
  wf h w labels -> wf h w image ->
  3 <= zlen fp -> 3 <= zlen (hd [] fp) -> Z.odd (zlen fp) = true -> Z.odd (zlen (hd [] fp)) = true ->
  is_local_maximum image labels fp <> None.
Proof. exact is_local_maximum_safe. Qed.
Print Assumptions C17_is_local_maximum_safe.

(* the checker evaluated on the implementation's output is sound for the declarative spec *)
Theorem C17_ilm_check_sound : forall image labels fp out, ilm_check image labels fp out = true ->
  wf (length labels) (length (hd [] labels)) out /\
  forall y x, 0 <= y < zlen labels -> 0 <= x < zlen (hd [] labels) ->
    (get2 false out y x = true <-> local_max_at image labels fp y x).
Proof. exact ilm_check_sound. Qed.
Print Assumptions C17_ilm_check_sound.

(* the shrinking work lists keep exactly the pixels that pass every offset's test ... *)
Theorem C17_shrink_spec : forall (P O : Type) (ok : O -> P -> bool) offs l0,
  shrink P O ok offs l0 = filter (fun p => forallb (fun o => ok o p) offs) l0.
Proof. exact shrink_spec. Qed.
Print Assumptions C17_shrink_spec.

(* ... whatever the order in which the offsets are visited *)
Theorem C17_shrink_perm : forall (P O : Type) (ok : O -> P -> bool) offs offs' l0,
  (forall o, In o offs <-> In o offs') -> shrink P O ok offs l0 = shrink P O ok offs' l0.
Proof. exact shrink_perm. Qed.
Print Assumptions C17_shrink_perm.

Theorem C17_padded_read_safe : forall (A : Type) (pad : nat) (z : A) (l : list A) (k d : Z),
  0 <= k < zlen l -> - Z.of_nat pad <= d <= Z.of_nat pad ->
  zget (padded pad z l) (Z.of_nat pad + k + d) <> None.
Proof. exact @padded_read_safe. Qed.
Print Assumptions C17_padded_read_safe.

(* regional_maximum, ties allowed: for every image shape, mask and structure of any shape and
   content (symmetric or not, centre set or not), the shifted-slice model with Python's slice
   normalisation, broadcasting and boolean-mask shape rules EITHER returns exactly the pixels that
   lie inside the mask and whose structure neighbours all lie inside image and mask and are not
   larger, OR fails (NumPy's ValueError) - and it fails exactly when some set non-centre cell
   lies at an offset off with n < |off| < 2n - 1 along an axis of length n (slices_okb false). *)
Theorem C17_regional_maximum_ties_char : forall image mask (st : list (list bool)),
  regional_maximum_ties image mask st
  = if slices_okb image st
    then Some (tab (length image) (length (hd [] image)) (reg_max_b image mask st)) else None.
Proof. exact regional_maximum_ties_char. Qed.
Print Assumptions C17_regional_maximum_ties_char.

Theorem C17_regional_maximum_ties_spec : forall image mask (st : list (list bool)),
  let h := length image in
  let w := length (hd [] image) in
  slices_okb image st = true ->
  exists out, regional_maximum_ties image mask st = Some out /\ wf h w out /\
    forall y x, 0 <= y < Z.of_nat h -> 0 <= x < Z.of_nat w ->
      (get2 false out y x = true <-> reg_max_at image mask st y x).
Proof. exact regional_maximum_ties_spec. Qed.
Print Assumptions C17_regional_maximum_ties_spec.

(* the hypothesis holds for every structure whose half shape fits into the image: every 3x3
   structure on a non-empty image, in particular the default and the 4-connected one *)
Theorem C17_slices_ok_fits : forall image (st : list (list bool)),
  zlen st / 2 <= zlen image -> zlen (hd [] st) / 2 <= zlen (hd [] image) -> slices_okb image st = true.
Proof. exact slices_okb_fits. Qed.
Print Assumptions C17_slices_ok_fits.

(* "index safety of the slice arithmetic for every structure and image shape" is refuted by the
   faithful model: 3x3 image, 9x3 structure with a set cell 4 rows above the centre (the real code
   raises ValueError on this input) *)
Theorem C17_regional_maximum_slices_refuted :
  exists image st, regional_maximum_ties image None st = None.
Proof. exact regional_maximum_slices_refuted. Qed.
Print Assumptions C17_regional_maximum_slices_refuted.

Theorem C17_rm_check_sound : forall image mask st out, rm_check image mask st out = true ->
  wf (length image) (length (hd [] image)) out /\
  forall y x, 0 <= y < zlen image -> 0 <= x < zlen (hd [] image) ->
    (get2 false out y x = true <-> reg_max_at image mask st y x).
Proof. exact rm_check_sound. Qed.
Print Assumptions C17_rm_check_sound.

(* regional_maximum, ties not allowed: relative to "label numbers the 8-components of the
   ties-allowed set" and "maximum_position returns one position inside each label" (stated on the
   values those library calls return for this input; Proofs.LocalMaxPlateau.one_per_plateau_example
   shows executable instances satisfying them), whatever ro_distance is, the model marks exactly
   one pixel of every 8-connected plateau. *)
Theorem C17_one_per_plateau : forall (label : list (list bool) -> list (list Z) * Z)
    (ro_distance : list (list bool) -> list (list Z))
    (maximum_position : list (list Z) -> list (list Z) -> list Z -> list (Z * Z))
    image mask st result labels count,
  let h := length image in
  let w := length (hd [] image) in
  regional_maximum_ties image mask st = Some result ->
  label result = (labels, count) ->
  labelling_ok (get2 false result) (get2 0 labels) count ->
  let positions := maximum_position (ro_distance result) labels
                     (map (fun k => k + 1) (zrange (Z.to_nat count))) in
  zlen positions = Z.max 0 count ->
  (forall k, 1 <= k <= count ->
     0 <= fst (pnth positions k) < Z.of_nat h /\ 0 <= snd (pnth positions k) < Z.of_nat w /\
     get2 0 labels (fst (pnth positions k)) (snd (pnth positions k)) = k) ->
  exists out, regional_maximum label ro_distance maximum_position image mask st false = Some out /\
              wf h w out /\ one_per_component (get2 false result) (get2 false out).
Proof. exact one_per_plateau. Qed.
Print Assumptions C17_one_per_plateau.

(* the hypotheses of C17_one_per_plateau are discharged once and for all for executable instances:
   the flood-fill labelling (minimum propagation to a fixpoint, fuel always sufficient, then
   renumbering) numbers the 8-components of ANY well-formed set with 1..count ... *)
Theorem C17_label_inst_ok : forall (h w : nat) (s : list (list bool)),
  wf h w s -> shape2 s = (h, w) ->
  labelling_ok (get2 false s) (get2 0 (fst (label_inst s))) (snd (label_inst s)).
Proof. exact inst_labelling_ok. Qed.
Print Assumptions C17_label_inst_ok.

(* ... so the ties-not-allowed model built from the instances marks exactly one pixel of every
   8-connected plateau whenever the ties-allowed pass returns - no hypotheses on library calls *)
Theorem C17_one_per_plateau_inst : forall image mask st result,
  regional_maximum_ties image mask st = Some result ->
  exists out, regional_maximum label_inst ro_distance_inst maximum_position_inst image mask st false = Some out /\
              wf (length image) (length (hd [] image)) out /\
              one_per_component (get2 false result) (get2 false out).
Proof. exact one_per_plateau_inst. Qed.
Print Assumptions C17_one_per_plateau_inst.

Theorem C17_one_per_plateau_inst_total : forall image mask (st : list (list bool)),
  slices_okb image st = true ->
  exists result out,
    regional_maximum_ties image mask st = Some result /\
    regional_maximum label_inst ro_distance_inst maximum_position_inst image mask st false = Some out /\
    wf (length image) (length (hd [] image)) out /\
    one_per_component (get2 false result) (get2 false out).
Proof. exact one_per_plateau_inst_total. Qed.
Print Assumptions C17_one_per_plateau_inst_total.

(* the certificate checker evaluated on the implementation's ties-not-allowed output is sound:
   acceptance (for any certificate) implies exactly one marked pixel in every 8-connected
   component of the verified ties-allowed set *)
Theorem C17_noties_check_sound : forall image mask st out Lg Dg roots sel n,
  noties_check image mask st out Lg Dg roots sel n = true ->
  let h := length image in
  let w := length (hd [] image) in
  wf h w out /\
  one_per_component (fun y x => (0 <=? y) && (y <? Z.of_nat h) && (0 <=? x) && (x <? Z.of_nat w)
                                && reg_max_b image mask st y x)
                    (get2 false out).
Proof. exact noties_check_sound. Qed.
Print Assumptions C17_noties_check_sound.

(* a certificate accepted by cert_check proves that the labels number the 8-components *)
Theorem C17_cert_sound : forall (h w : nat) (U : Z -> Z -> bool) (Lb D : Z -> Z -> Z) (roots : list (Z * Z)) (n : Z),
  (forall y x, U y x = true -> 0 <= y < Z.of_nat h /\ 0 <= x < Z.of_nat w) ->
  (forall y x, ~ (0 <= y < Z.of_nat h /\ 0 <= x < Z.of_nat w) -> Lb y x = 0) ->
  cert_check h w U Lb D roots n = true -> labelling_ok U Lb n.
Proof. exact cert_sound. Qed.
Print Assumptions C17_cert_sound.
