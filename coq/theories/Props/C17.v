(* C17 — property theorems.  Only statements, each closed by [exact], each followed by
   Print Assumptions. *)
From Coq Require Import ZArith List Bool.
From Centro Require Import Base.LocalMaxGrid Model.LocalMax Spec.LocalMaxSpec
  Proofs.LocalMaxShrink Proofs.LocalMaxIlm.
Import ListNotations.
Open Scope Z_scope.

(* is_local_maximum: for every image shape (also smaller than the footprint), every label image
   and every footprint with odd sizes >= 3, symmetric or not, the line-level model (padded
   labels, sorted stride offsets, raveled bounds-checked reads, shrinking index triples) never
   reads out of bounds and marks exactly the labelled pixels not exceeded by a same-label pixel
   under the footprint. *)
Theorem C17_is_local_maximum_spec : forall image labels (fp : list (list bool)),
  let h := length labels in
  let w := length (hd [] labels) in
  wf h w labels -> wf h w image ->
  3 <= zlen fp -> 3 <= zlen (hd [] fp) -> Z.odd (zlen fp) = true -> Z.odd (zlen (hd [] fp)) = true ->
  exists out, is_local_maximum image labels fp = Some out /\ wf h w out /\
    forall y x, 0 <= y < Z.of_nat h -> 0 <= x < Z.of_nat w ->
      (get2 false out y x = true <-> local_max_at image labels fp y x).
Proof. exact is_local_maximum_spec. Qed.
Print Assumptions C17_is_local_maximum_spec.

Theorem C17_is_local_maximum_safe : forall image labels (fp : list (list bool)),
  let h := length labels in
  let w := length (hd [] labels) in
  wf h w labels -> wf h w image ->
  3 <= zlen fp -> 3 <= zlen (hd [] fp) -> Z.odd (zlen fp) = true -> Z.odd (zlen (hd [] fp)) = true ->
  is_local_maximum image labels fp <> None.
Proof. exact is_local_maximum_safe. Qed.
Print Assumptions C17_is_local_maximum_safe.

(* the checker evaluated on the implementation's output is sound for the declarative spec *)
Theorem C17_ilm_check_sound : forall image labels fp out, ilm_check image labels fp out = true ->
  wf (length labels) (length (hd [] labels)) out /\
  forall y x, 0 <= y < zlen labels -> 0 <= x < zlen (hd [] labels) ->
    (get2 false out y x = true <-> local_max_at image labels fp y x).
Proof. exact ilm_check_sound. Qed.
Print Assumptions C17_ilm_check_sound.

(* the shrinking work lists keep exactly the pixels that pass every offset's test ... *)
Theorem C17_shrink_spec : forall (P O : Type) (ok : O -> P -> bool) offs l0,
  shrink P O ok offs l0 = filter (fun p => forallb (fun o => ok o p) offs) l0.
Proof. exact shrink_spec. Qed.
Print Assumptions C17_shrink_spec.

(* ... whatever the order in which the offsets are visited *)
Theorem C17_shrink_perm : forall (P O : Type) (ok : O -> P -> bool) offs offs' l0,
  (forall o, In o offs <-> In o offs') -> shrink P O ok offs l0 = shrink P O ok offs' l0.
Proof. exact shrink_perm. Qed.
Print Assumptions C17_shrink_perm.

Theorem C17_padded_read_safe : forall (A : Type) (pad : nat) (z : A) (l : list A) (k d : Z),
  0 <= k < zlen l -> - Z.of_nat pad <= d <= Z.of_nat pad ->
  zget (padded pad z l) (Z.of_nat pad + k + d) <> None.
Proof. exact @padded_read_safe. Qed.
Print Assumptions C17_padded_read_safe.
