(* C05 - property theorems.  Only statements, each closed by [exact], each followed by
   Print Assumptions.  [TopoEq] is Base/Topo.v; the models are Model/ThinSkel.v; the tables are the
   regenerated constants of Gen/TablesC05.v (the finite sweeps of Proofs/TopoSw*.v are re-run by
   the kernel whenever a table changes). *)
From Coq Require Import ZArith NArith List Bool.
From Centro Require Import Base.Topo Base.Skel Base.TopoPar Base.TopoSweep Base.TopoGrid Gen.TablesC05.
From Centro Require Import Model.ThinSkel Spec.TopoCheck Proofs.ThinSkelTopo Proofs.ThinSkelIdem Proofs.TopoCounts.
Open Scope Z_scope.

(* skeletonize_loop with the current removal table: every image size, every image, every
   duplicate-free processing order over foreground pixels (skeletonize always passes a
   permutation of the foreground; the code writes table[16+...] unconditionally, hence the
   hypotheses). *)
Theorem C05_skeletonize_topo : forall H W order g, wf H W g -> NoDup order ->
  (forall p, In p order -> img_of g p = true) ->
  TopoEq (img_of g) (img_of (skel_loop_grid H W order g)).
Proof. exact skel_loop_grid_topo. Qed.
Print Assumptions C05_skeletonize_topo.

(* skeletonize(image, ordering=M): every image, every ordering matrix *)
Theorem C05_skeletonize_ord_topo : forall H W ordering g, wf H W g ->
  TopoEq (img_of g) (img_of (skeletonize_ord H W ordering g)).
Proof. exact skeletonize_ord_topo. Qed.
Print Assumptions C05_skeletonize_ord_topo.

(* the guarded sequential removal with the current table: all images (also infinite ones), all
   guards, all orders, repetitions allowed *)
Theorem C05_skeletonize_any_order_topo : forall guard order X,
  TopoEq X (skel (keepN skel_tab) guard order X).
Proof. exact skel_any_order_topo. Qed.
Print Assumptions C05_skeletonize_any_order_topo.

(* thin(image, iterations=k | None): every size, image and iteration count *)
Theorem C05_thin_topo : forall H W iters g, wf H W g ->
  TopoEq (img_of g) (img_of (thin_model H W iters g)).
Proof. exact thin_model_topo. Qed.
Print Assumptions C05_thin_topo.

(* binary_shrink(image, iterations=k | -1) *)
Theorem C05_shrink_topo : forall H W k g, wf H W g ->
  TopoEq (img_of g) (img_of (shrink_model H W k g)).
Proof. exact shrink_model_topo. Qed.
Print Assumptions C05_shrink_topo.

(* index_lookup with any one of the six pass tables, any iteration count *)
Theorem C05_index_lookup_topo : forall H W t iters g, 1 <= t -> wf H W g ->
  TopoEq (img_of g) (img_of (lookup_model H W t iters g)).
Proof. exact lookup_model_topo. Qed.
Print Assumptions C05_index_lookup_topo.

(* soundness of the checker that is run on the implementation's outputs *)
Theorem C05_topo_check_sound : forall H W g g', topo_check H W g g' = true ->
  wf H W g /\ wf H W g' /\ TopoEq (img_of g) (img_of g').
Proof. exact topo_check_sound. Qed.
Print Assumptions C05_topo_check_sound.

(* TopoEq gives equal numbers of 8-connected foreground components, exactly one of X' inside each of
   X: a complete irredundant list of representatives of X's components is matched element by
   element (each connected in X to its partner) by such a list for X' of the same length *)
Theorem C05_topo_counts_fg : forall X X', TopoEq X X' -> forall l, comp_reps adj8 (fg X) l ->
  exists l', length l' = length l /\ comp_reps adj8 (fg X') l' /\ Forall2 (conn8 X) l l'.
Proof. exact topo_counts_fg. Qed.
Print Assumptions C05_topo_counts_fg.

(* ... and equal numbers of 4-connected background components (the unbounded one and the holes),
   hence the same number of holes and the same Euler number *)
Theorem C05_topo_counts_bg : forall X X', TopoEq X X' -> forall l', comp_reps adj4 (bg X') l' ->
  exists l, length l = length l' /\ comp_reps adj4 (bg X) l /\ Forall2 (conn4 X') l' l.
Proof. exact topo_counts_bg. Qed.
Print Assumptions C05_topo_counts_bg.

(* run to convergence (iterations=None): the budget len(index_i) suffices - no pass of either table
   removes anything from the result - and any further call, with any iteration count, returns the
   result unchanged *)
Theorem C05_thin_converged : forall H W g, wf H W g ->
  run_passes H W thin_tables (thin_model H W None g) = thin_model H W None g.
Proof. exact thin_converged. Qed.
Print Assumptions C05_thin_converged.

Theorem C05_thin_idempotent : forall H W iters g, wf H W g ->
  thin_model H W iters (thin_model H W None g) = thin_model H W None g.
Proof. exact thin_idempotent_any. Qed.
Print Assumptions C05_thin_idempotent.

Theorem C05_shrink_converged : forall H W g, wf H W g ->
  run_passes H W shrink_tables (shrink_model H W (-1) g) = shrink_model H W (-1) g.
Proof. exact shrink_converged. Qed.
Print Assumptions C05_shrink_converged.

Theorem C05_shrink_idempotent : forall H W k g, wf H W g ->
  shrink_model H W k (shrink_model H W (-1) g) = shrink_model H W (-1) g.
Proof. exact shrink_idempotent. Qed.
Print Assumptions C05_shrink_idempotent.

(* Not proved (checker only, evaluated on every binary_shrink(-1) output): "binary_shrink reduces
   every hole-free object to a single pixel" - the missing lemma is that a connected, hole-free
   image that is stable under the four shrink passes is a single pixel (a global argument, not a
   finite sweep).  skeletonize_labels is checked per label through topo_check only. *)
