(* C05 - property theorems.  Only statements, each closed by [exact], each followed by
   Print Assumptions.  [TopoEq] is Base/Topo.v; the models are Model/ThinSkel.v; the tables are the
   regenerated constants of Gen/TablesC05.v (the finite sweeps of Proofs/TopoSw*.v are re-run by
   the kernel whenever a table changes). *)
From Coq Require Import ZArith NArith List Bool.
From Centro Require Import Base.Topo Base.Skel Base.TopoPar Base.TopoSweep Base.TopoGrid Gen.TablesC05.
From Centro Require Import Model.ThinSkel Spec.TopoCheck Proofs.ThinSkelTopo Proofs.ThinSkelIdem Proofs.TopoCounts
  Proofs.TopoSwShrinkEnd Proofs.ShrinkPoint Proofs.LabelsIndep Proofs.TopoCheckComplete
  Proofs.EndPixelParity Proofs.EndPixelSep Proofs.EndPixel Proofs.ShrinkPointFull Proofs.TopoCheckPoints Proofs.RonseLastD Proofs.TopoRestrict Proofs.ObjectProps.
Open Scope Z_scope.

(* skeletonize_loop with the current removal table: every image size, every image, every
   duplicate-free processing order over foreground pixels (skeletonize always passes a
   permutation of the foreground; the code writes table[16+...] unconditionally, hence the
   hypotheses). *)
Theorem C05_skeletonize_topo : forall H W order g, wf H W g -> NoDup order ->
  (forall p, In p order -> img_of g p = true) ->
  TopoEq (img_of g) (img_of (skel_loop_grid H W order g)).
Proof. exact skel_loop_grid_topo. Qed.
Print Assumptions C05_skeletonize_topo.

(* skeletonize(image, ordering=M): every image, every ordering matrix *)
Theorem C05_skeletonize_ord_topo : forall H W ordering g, wf H W g ->
  TopoEq (img_of g) (img_of (skeletonize_ord H W ordering g)).
Proof. exact skeletonize_ord_topo. Qed.
Print Assumptions C05_skeletonize_ord_topo.

(* the guarded sequential removal with the current table: all images (also infinite ones), all
   guards, all orders, repetitions allowed *)
Theorem C05_skeletonize_any_order_topo : forall guard order X,
  TopoEq X (skel (keepN skel_tab) guard order X).
Proof. exact skel_any_order_topo. Qed.
Print Assumptions C05_skeletonize_any_order_topo.

(* thin(image, iterations=k | None): every size, image and iteration count *)
Theorem C05_thin_topo : forall H W iters g, wf H W g ->
  TopoEq (img_of g) (img_of (thin_model H W iters g)).
Proof. exact thin_model_topo. Qed.
Print Assumptions C05_thin_topo.

(* binary_shrink(image, iterations=k | -1) *)
Theorem C05_shrink_topo : forall H W k g, wf H W g ->
  TopoEq (img_of g) (img_of (shrink_model H W k g)).
Proof. exact shrink_model_topo. Qed.
Print Assumptions C05_shrink_topo.

(* index_lookup with any one of the six pass tables, any iteration count *)
Theorem C05_index_lookup_topo : forall H W t iters g, 1 <= t -> wf H W g ->
  TopoEq (img_of g) (img_of (lookup_model H W t iters g)).
Proof. exact lookup_model_topo. Qed.
Print Assumptions C05_index_lookup_topo.

(* soundness of the checker that is run on the implementation's outputs *)
Theorem C05_topo_check_sound : forall H W g g', topo_check H W g g' = true ->
  wf H W g /\ wf H W g' /\ TopoEq (img_of g) (img_of g').
Proof. exact topo_check_sound. Qed.
Print Assumptions C05_topo_check_sound.

(* TopoEq gives equal numbers of 8-connected foreground components, exactly one of X' inside each of
   X: a complete irredundant list of representatives of X's components is matched element by
   element (each connected in X to its partner) by such a list for X' of the same length *)
Theorem C05_topo_counts_fg : forall X X', TopoEq X X' -> forall l, comp_reps adj8 (fg X) l ->
  exists l', length l' = length l /\ comp_reps adj8 (fg X') l' /\ Forall2 (conn8 X) l l'.
Proof. exact topo_counts_fg. Qed.
Print Assumptions C05_topo_counts_fg.

(* ... and equal numbers of 4-connected background components (the unbounded one and the holes),
   hence the same number of holes and the same Euler number *)
Theorem C05_topo_counts_bg : forall X X', TopoEq X X' -> forall l', comp_reps adj4 (bg X') l' ->
  exists l, length l = length l' /\ comp_reps adj4 (bg X) l /\ Forall2 (conn4 X') l' l.
Proof. exact topo_counts_bg. Qed.
Print Assumptions C05_topo_counts_bg.

(* run to convergence (iterations=None): the budget len(index_i) suffices - no pass of either table
   removes anything from the result - and any further call, with any iteration count, returns the
   result unchanged *)
Theorem C05_thin_converged : forall H W g, wf H W g ->
  run_passes H W thin_tables (thin_model H W None g) = thin_model H W None g.
Proof. exact thin_converged. Qed.
Print Assumptions C05_thin_converged.

Theorem C05_thin_idempotent : forall H W iters g, wf H W g ->
  thin_model H W iters (thin_model H W None g) = thin_model H W None g.
Proof. exact thin_idempotent_any. Qed.
Print Assumptions C05_thin_idempotent.

Theorem C05_shrink_converged : forall H W g, wf H W g ->
  run_passes H W shrink_tables (shrink_model H W (-1) g) = shrink_model H W (-1) g.
Proof. exact shrink_converged. Qed.
Print Assumptions C05_shrink_converged.

Theorem C05_shrink_idempotent : forall H W k g, wf H W g ->
  shrink_model H W k (shrink_model H W (-1) g) = shrink_model H W (-1) g.
Proof. exact shrink_idempotent. Qed.
Print Assumptions C05_shrink_idempotent.

(* "binary_shrink reduces every hole-free object to a single pixel".
   Local half, Full (512-pattern kernel sweep on the regenerated four tables, lifted to every image):
   in an image that is stable under the four passes - what binary_shrink(-1) returns, by
   C05_shrink_converged - no foreground pixel has an end pattern (one run of set neighbours around
   it and not all of N,E,S,W set). *)
Theorem C05_shrink_stable_no_end : forall H W g, wf H W g -> run_passes H W shrink_tables g = g ->
  forall p, img_of g p = true -> end_pattern (pat (img_of g) p) = false.
Proof. exact shrink_stable_no_end. Qed.
Print Assumptions C05_shrink_stable_no_end.

(* The end-pixel lemma (round 3): every connected hole-free image with at least two pixels has an
   end pixel.  Strong induction on the number of pixels, removing the last pixel in raster order;
   local facts by a kernel sweep over the 3x5 window around it (Proofs/TopoSwEndLocal.v); the one
   global fact - the two sides of a "separated" last pixel are not connected without it - by a
   crossing-parity (Jordan curve) argument (Proofs/EndPixelParity.v, EndPixelSep.v). *)
Theorem C05_end_pixel : forall H W g, wf H W g -> connected (img_of g) -> hole_free (img_of g) ->
  (exists a b, a <> b /\ img_of g a = true /\ img_of g b = true) ->
  exists p, img_of g p = true /\ end_pattern (pat (img_of g) p) = true.
Proof. exact end_pixel_lemma. Qed.
Print Assumptions C05_end_pixel.

(* the general form: any finite hole-free image (not necessarily connected), any pixel x with a
   neighbour, any excluded pixel q: an end pixel other than q in the 8-component of x *)
Theorem C05_end_pixel_fin : forall n (X : img) L, (length L <= n)%nat -> (forall q, X q = true -> In q L) ->
  hole_free' X -> forall x q, X x = true -> (exists y, adj8 x y /\ X y = true) ->
  exists e, X e = true /\ endp X e = true /\ e <> q /\ conn8 X x e.
Proof. exact end_pixel_fin. Qed.
Print Assumptions C05_end_pixel_fin.

(* Full: binary_shrink run to convergence reduces every connected hole-free non-empty image, of
   every size, to exactly one pixel (the property's sentence; by TopoEq it lies in the object). *)
Theorem C05_shrink_to_point : forall H W g, wf H W g -> connected (img_of g) -> hole_free (img_of g) ->
  (exists a, img_of g a = true) ->
  exists q, forall p, img_of (shrink_model H W (-1) g) p = true <-> p = q.
Proof. exact shrink_to_point. Qed.
Print Assumptions C05_shrink_to_point.

(* skeletonize_labels over the colouring model (any colouring in which pixels of one label share a
   colour and 8-adjacent different labels differ in colour; any guard; any per-colour order): the
   part of the result carrying label l is exactly what the same loop with the same order leaves of
   (labels == l) alone - labels do not influence each other - ... *)
Theorem C05_labels_independent : forall lab col keep guard ord l, l <> 0 -> proper lab col ->
  forall i, (forall p, lab p = l -> col p = i) ->
  forall q, (labels_result lab col keep guard ord q =? l) = skel keep guard (ord i) (label_img lab l) q.
Proof. exact labels_independent. Qed.
Print Assumptions C05_labels_independent.

(* ... and therefore every label keeps its own topology (current skeletonize table) *)
Theorem C05_labels_topo : forall lab col guard ord l, l <> 0 -> proper lab col ->
  forall i, (forall p, lab p = l -> col p = i) ->
  TopoEq (label_img lab l) (fun q => labels_result lab col (keepN skel_tab) guard ord q =? l).
Proof. exact labels_topo. Qed.
Print Assumptions C05_labels_topo.

(* _partial: completeness of the checker (it rejects only when the topology changed) is proved
   FROM the one missing lemma [RonseLemma] (Ronse 1986: a proper TopoEq-subset leaves a simple pixel
   to delete); validated outside Coq on all 610 173 pairs X' <= X of 3x3, 2x5, 3x4 images. *)
Theorem C05_topo_check_complete_partial : RonseLemma ->
  forall H W g g', wf H W g -> wf H W g' -> TopoEq (img_of g) (img_of g') -> topo_check H W g g' = true.
Proof. exact topo_check_complete_partial. Qed.
Print Assumptions C05_topo_check_complete_partial.

(* Round 4.  The deletability (Ronse) lemma is PROVED for the targets binary_shrink produces: X' hole-free
   with single-pixel components (then X is hole-free too).  The deletable pixel is an end pixel of X
   other than the X'-pixel of its component (C05_end_pixel_fin with that pixel excluded). *)
Theorem C05_ronse_points : forall H W g g', wf H W g -> wf H W g' ->
  hole_free (img_of g') -> singletons (img_of g') -> TopoEq (img_of g) (img_of g') ->
  (exists p, img_of g p = true /\ img_of g' p = false) ->
  exists p, img_of g p = true /\ img_of g' p = false /\ simple_ok (pat (img_of g) p) = true.
Proof. exact ronse_points. Qed.
Print Assumptions C05_ronse_points.

(* Full for this class: the checker accepts every topology-preserving pair whose target is hole-free
   with single-pixel components (no hypothesis left) *)
Theorem C05_topo_check_complete_points : forall H W g g', wf H W g -> wf H W g' ->
  hole_free (img_of g') -> singletons (img_of g') -> TopoEq (img_of g) (img_of g') ->
  topo_check H W g g' = true.
Proof. exact topo_check_complete_points. Qed.
Print Assumptions C05_topo_check_complete_points.

(* binary_shrink(-1) on ANY hole-free image (any number of objects): every object ends as one pixel *)
Theorem C05_shrink_result_singletons : forall H W g, wf H W g -> hole_free (img_of g) ->
  singletons (img_of (shrink_model H W (-1) g)).
Proof. exact shrink_result_singletons. Qed.
Print Assumptions C05_shrink_result_singletons.

(* completeness of the checker on the model's own output: no false alarm is possible on
   binary_shrink(-1) of a hole-free image *)
Theorem C05_topo_check_accepts_shrink : forall H W g, wf H W g -> hole_free (img_of g) ->
  topo_check H W g (shrink_model H W (-1) g) = true.
Proof. exact topo_check_accepts_shrink. Qed.
Print Assumptions C05_topo_check_accepts_shrink.

(* Towards the general RonseLemma (still the one hypothesis of C05_topo_check_complete_partial): the
   case "the last raster pixel p of X lies in X \ X'".  Either p is simple in X ... *)
Theorem C05_ronse_last_pixel_simple : forall (X : img) p, X p = true -> (forall q, X q = true -> ~ ltr p q) ->
  (exists y, adj8 p y /\ X y = true) -> separated X p = false -> simple_ok (pat X p) = true.
Proof. exact last_pixel_simple. Qed.
Print Assumptions C05_ronse_last_pixel_simple.

(* ... or p is separated, and then (crossing parity + the background clause of TopoEq) its two sides
   are not connected without p, and at most one of them contains pixels of X' *)
Theorem C05_ronse_last_pixel_sides : forall (X X' : img) p u, TopoEq X X' -> X p = true -> X' p = false ->
  (forall q, X q = true -> ~ ltr p q) -> X (pN p) = false -> X (pNE p) = true ->
  (u = pW p \/ u = pNW p) -> X u = true ->
  ~ path adj8 (fun q => fg X q /\ q <> p) u (pNE p) /\
  (forall a b, X' a = true -> X' b = true ->
     path adj8 (fun q => fg X q /\ q <> p) u a -> path adj8 (fun q => fg X q /\ q <> p) (pNE p) b -> False).
Proof. exact last_in_D_sides. Qed.
Print Assumptions C05_ronse_last_pixel_sides.

(* ---- Round 5: one for-all theorem per clause of the property text ----
   "only remove foreground pixels": *)
Theorem C05_thin_subset : forall H W iters g p, wf H W g ->
  img_of (thin_model H W iters g) p = true -> img_of g p = true.
Proof. exact thin_subset. Qed.
Print Assumptions C05_thin_subset.
Theorem C05_shrink_subset : forall H W k g p, wf H W g ->
  img_of (shrink_model H W k g) p = true -> img_of g p = true.
Proof. exact shrink_subset. Qed.
Print Assumptions C05_shrink_subset.
Theorem C05_skeletonize_subset : forall H W ordering g p, wf H W g ->
  img_of (skeletonize_ord H W ordering g) p = true -> img_of g p = true.
Proof. exact skeletonize_subset. Qed.
Print Assumptions C05_skeletonize_subset.

(* "so the Euler number of EVERY OBJECT is preserved": TopoEq restricts to any union C of 8-components
   of X - the object keeps its own component and hole structure whatever the other objects do (with
   C05_topo_counts_fg/bg: one component, the same number of holes, the same Euler number, per object) *)
Theorem C05_object_topo : forall X X' C, TopoEq X X' -> comps_closed X C -> TopoEq C (restr C X').
Proof. exact TopoEq_restrict. Qed.
Print Assumptions C05_object_topo.
Theorem C05_thin_object_topo : forall H W iters g C, wf H W g -> comps_closed (img_of g) C ->
  TopoEq C (restr C (img_of (thin_model H W iters g))).
Proof. exact thin_object_topo. Qed.
Print Assumptions C05_thin_object_topo.
Theorem C05_shrink_object_topo : forall H W k g C, wf H W g -> comps_closed (img_of g) C ->
  TopoEq C (restr C (img_of (shrink_model H W k g))).
Proof. exact shrink_object_topo. Qed.
Print Assumptions C05_shrink_object_topo.
Theorem C05_skeletonize_object_topo : forall H W ordering g C, wf H W g -> comps_closed (img_of g) C ->
  TopoEq C (restr C (img_of (skeletonize_ord H W ordering g))).
Proof. exact skeletonize_object_topo. Qed.
Print Assumptions C05_skeletonize_object_topo.

(* "binary_shrink reduces every hole-free object to a single pixel", for an object C of ANY image
   (other objects may have holes, C may lie inside a hole of another object) *)
Theorem C05_shrink_object_to_point : forall H W g C, wf H W g -> comps_closed (img_of g) C ->
  connected C -> hole_free C -> (exists a, C a = true) ->
  exists q, forall p, restr C (img_of (shrink_model H W (-1) g)) p = true <-> p = q.
Proof. exact shrink_object_to_point. Qed.
Print Assumptions C05_shrink_object_to_point.

(* every group of passes only removes pixels, and the pixel count is unchanged exactly when nothing was
   removed: the code's break test detects convergence exactly (with C05_thin_converged /
   C05_shrink_converged: the loop limit len(index_i) is never the reason the loop ends early) *)
Theorem C05_passes_monotone : forall H W ks g, wf H W g ->
  (count (run_passes H W ks g) <= count g)%nat /\ (count (run_passes H W ks g) = count g -> run_passes H W ks g = g).
Proof. exact passes_monotone. Qed.
Print Assumptions C05_passes_monotone.

Theorem C05_skeletonize_loop_subset : forall H W order g p, wf H W g -> NoDup order ->
  (forall q, In q order -> img_of g q = true) ->
  img_of (skel_loop_grid H W order g) p = true -> img_of g p = true.
Proof. exact skeletonize_loop_subset. Qed.
Print Assumptions C05_skeletonize_loop_subset.

(* the Euler number (8-components minus holes, counted with representative lists) is preserved; per
   object: apply it to C05_object_topo *)
Theorem C05_euler_preserved : forall X X' l m', TopoEq X X' ->
  comp_reps adj8 (fg X) l -> comp_reps adj4 (bg X') m' ->
  exists l' m, comp_reps adj8 (fg X') l' /\ comp_reps adj4 (bg X) m /\
    length l' = length l /\ length m = length m' /\
    Z.of_nat (length l) - (Z.of_nat (length m) - 1) = Z.of_nat (length l') - (Z.of_nat (length m') - 1).
Proof. exact euler_preserved. Qed.
Print Assumptions C05_euler_preserved.
