(* C18 — property theorems.  Only statements, each closed by [exact], each followed by
   Print Assumptions.  Models: Model/RankC18.v (rank_order, the nbins loop, mode),
   Model/MedianC18.v, Model/IndexesC18.v; specifications and checkers: Spec/SpecC18.v. *)
From Coq Require Import ZArith List Bool Arith Sorted Permutation.
From Centro Require Import Base.SortC18 Model.VecC18 Model.RankC18 Model.MedianC18 Model.IndexesC18 Spec.SpecC18
  Proofs.RankC18Proofs Proofs.BinsC18Proofs Proofs.CheckC18 Proofs.MedianC18Proofs Proofs.ModeC18Proofs
  Proofs.IndexesC18Proofs Proofs.PairsC18Proofs Model.AllPairsC18 Proofs.AllPairsC18Proofs Proofs.IndexesAddrC18.
Import ListNotations.
Local Open Scope nat_scope.

(* rank_order(image): for EVERY index permutation [so] that sorts the image (NumPy's default
   argsort is unstable) the ranks are order-isomorphic to the values, values[rank] = pixel,
   values strictly increasing and exactly the input's values. *)
Theorem C18_rank_order_iso : forall so image r v,
  image <> [] -> Permutation so (seq 0 (length image)) ->
  StronglySorted Z.le (map (getz image) so) ->
  rank_order_with so image = (r, v) -> rank_iso_spec image r v.
Proof. exact rank_order_iso_with. Qed.
Print Assumptions C18_rank_order_iso.

(* the executable instance (stable argsort) that is compared with the implementation *)
Theorem C18_rank_order_iso_exec : forall image r v,
  image <> [] -> rank_order image = (r, v) -> rank_iso_spec image r v.
Proof. exact rank_order_iso. Qed.
Print Assumptions C18_rank_order_iso_exec.

(* rank_order(image, nbins): for every oracle standing for np.argsort(hist) — whatever it returns
   the loop's result satisfies the specification (at most nbins levels, strictly increasing
   representatives taken from the input, each pixel ranked by the greatest representative not
   above it, hence a monotone coarsening); and when the oracle returns sorting permutations
   (oracle_ok) and nbins >= 1 the loop terminates within its fuel. *)
Theorem C18_rank_order_bins : forall oracle so image nbins,
  image <> [] -> Permutation so (seq 0 (length image)) -> StronglySorted Z.le (map (getz image) so) ->
  (forall r v, rank_order_bins_with oracle so image nbins = Some (r, v) -> bins_spec image nbins r v) /\
  (1 <= nbins -> oracle_ok oracle -> exists r v, rank_order_bins_with oracle so image nbins = Some (r, v)).
Proof. exact rank_order_bins_correct. Qed.
Print Assumptions C18_rank_order_bins.

(* the checkers evaluated on the implementation's own output are sound *)
Theorem C18_rank_iso_check_sound : forall image r v,
  rank_iso_check image r v = true -> rank_iso_spec image r v.
Proof. exact rank_iso_check_sound. Qed.
Print Assumptions C18_rank_iso_check_sound.

Theorem C18_bins_check_sound : forall image nbins r v,
  bins_check image nbins r v = true -> bins_text_spec image nbins r v.
Proof. exact bins_check_sound. Qed.
Print Assumptions C18_bins_check_sound.

(* median_of_labels (after fix F5 and the repeated-request repair): every entry of the request list
   - repeated or not - gets its label's median, NaN (None) for a label without pixels wherever it
   stands in the list.  No hypothesis on the request list. *)
Theorem C18_median_of_labels_spec : forall (image : list Z) (labels indices : list nat),
  length image = length labels ->
  median_of_labels image labels indices = median_ref image labels indices.
Proof. exact median_of_labels_correct_all. Qed.
Print Assumptions C18_median_of_labels_spec.

(* mode: the returned list is exactly the set of most frequent values (strictly increasing) *)
Theorem C18_mode_spec : forall a : list Z, mode_spec a (mode a).
Proof. exact mode_correct. Qed.
Print Assumptions C18_mode_spec.

Theorem C18_mode_check_sound : forall a res : list Z, mode_check a res = true -> mode_spec a res.
Proof. exact mode_check_sound. Qed.
Print Assumptions C18_mode_check_sound.

(* Indexes(counts): length, fwd_idx, rev_idx and idx are the row-major enumeration of every
   sub-array coordinate of every object (zero-count objects contribute nothing) *)
Theorem C18_indexes_rowmajor : forall counts : list (list nat),
  counts <> [] -> (forall row, In row counts -> length row = length (hd [] counts)) ->
  indexes counts = indexes_ref counts.
Proof. exact indexes_rowmajor. Qed.
Print Assumptions C18_indexes_rowmajor.

(* pairwise_permutations: with [rows] = the (group, member) rows sorted by group then member (a
   permutation of the input rows), the output lists exactly the position pairs a < b of [rows]
   with equal group label, in (a, b) order; [pos_pairs n] holds every a < b < n exactly once
   (C18_pos_pairs_once), so every unordered within-group pair appears exactly once. *)
Theorem C18_pairwise_once : forall i j : list Z, length i = length j ->
  let '(di, d1, d2) := pairwise_permutations i j in
  let rows := sorted_rows i j in
  Permutation rows (combine i j) /\
  combine (combine di d1) d2 =
    map (fun ab => (fst (nth (fst ab) rows (0,0)%Z), snd (nth (fst ab) rows (0,0)%Z), snd (nth (snd ab) rows (0,0)%Z)))
        (filter (fun ab => (fst (nth (snd ab) rows (0,0)%Z) =? fst (nth (fst ab) rows (0,0)%Z))%Z) (pos_pairs (length rows))).
Proof. exact pairwise_once. Qed.
Print Assumptions C18_pairwise_once.

Theorem C18_pos_pairs_once : forall n,
  NoDup (pos_pairs n) /\ forall a b, In (a, b) (pos_pairs n) <-> a < b < n.
Proof. exact pos_pairs_once. Qed.
Print Assumptions C18_pos_pairs_once.

(* the model's three arrays have equal lengths and zip to the executable reference that the
   harness also evaluates on the implementation's output *)
Theorem C18_pairwise_model_ref : forall i j : list Z, length i = length j ->
  let '(di, d1, d2) := pairwise_permutations i j in
  length di = length d1 /\ length d1 = length d2 /\
  combine (combine di d1) d2 = pairwise_ref i j.
Proof. exact pairwise_model_ref. Qed.
Print Assumptions C18_pairwise_model_ref.

(* index.all_pairs(n): the model (mgrid, diagonal mask, three-key lexsort, gather) is the
   documented enumeration; it holds every ordered non-identity pair exactly once; and its first
   m(m-1) rows are the pairs of the first m things. *)
Theorem C18_all_pairs_model_ref : forall n, all_pairs n = all_pairs_ref n.
Proof. exact all_pairs_model_ref. Qed.
Print Assumptions C18_all_pairs_model_ref.

Theorem C18_all_pairs_complete : forall n,
  NoDup (all_pairs_ref n) /\ forall a b, In (a, b) (all_pairs_ref n) <-> (a < n /\ b < n /\ a <> b).
Proof. exact all_pairs_complete. Qed.
Print Assumptions C18_all_pairs_complete.

Theorem C18_all_pairs_prefix : forall m n, m <= n ->
  firstn (m * (m - 1)) (all_pairs_ref n) = all_pairs_ref m.
Proof. exact all_pairs_prefix. Qed.
Print Assumptions C18_all_pairs_prefix.

(* Indexes, as it is used (weights[fwd_idx[rev_idx] + idx[0]]): every position t belongs to
   object rev_idx[t], its coordinates idx[:,t] lie inside that object's sub-array, and
   t = fwd_idx[object] + row-major offset of the coordinates. *)
Theorem C18_indexes_address : forall counts : list (list nat),
  counts <> [] -> (forall row, In row counts -> length row = length (hd [] counts)) ->
  let '(len, fwd, rev, idx) := indexes counts in
  forall t, t < len ->
    let o := getn rev t in
    o < length (hd [] counts) /\
    (forall d, d < length counts -> getn (nth d idx []) t < getn (nth d counts []) o) /\
    getn fwd o + rm_offset (column o counts) (map (fun row => getn row t) idx) = t.
Proof. exact indexes_address. Qed.
Print Assumptions C18_indexes_address.
