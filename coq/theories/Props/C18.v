(* C18 — property theorems.  Only statements, each closed by [exact], each followed by
   Print Assumptions. *)
From Coq Require Import ZArith List Bool Sorted.
From Centro Require Import Proofs.RankIsoC18.
Local Open Scope Z_scope.

Theorem C18_rank_positions_iso : forall u, StronglySorted Z.lt u -> forall x y, In x u -> In y u ->
  (x < y <-> (index_of x u < index_of y u)%nat).
Proof. exact rank_iso. Qed.
Print Assumptions C18_rank_positions_iso.
