(* C12 — property theorems.  Only statements, each closed by [exact], each followed by Print Assumptions.
   [listed_progs] / [binary_progs] are the terms the translator regenerates from the staged source on every
   run (Gen/MaskProgC12.v): 40 listed functions, 15 of them the binary neighbourhood family / thin /
   skeletonize.  A function whose term the checker rejects breaks [listed_accepted] and with it these theorems. *)
From Coq Require Import ZArith List Bool.
Import ListNotations.
From Centro Require Import Model.MaskFlow Model.MaskRef Spec.MaskCheck Proofs.MaskFlowSound Proofs.MaskCheckSound
  Proofs.MaskFlowDemo Proofs.MaskRefLocal Gen.MaskProgC12.
Open Scope Z_scope.

(* the dependence judgement is sound: whatever [rbp] computes for a program (shared definitions + main term) is a
   semantic dependence bound, for every admissible interpretation of the library symbols, every mask, every pair of
   images agreeing on the mask *)
Theorem C12_rb_sound : forall (I : interp) (mask : px -> bool) (a b : px -> V I), agree I mask a b ->
  forall (defs : list expr) (main : expr) (r : rad), rbp [] defs main = Some r ->
  forall p, near I r a b p -> evalp I mask [] defs main a p = evalp I mask [] defs main b p.
Proof. exact (fun I mask a b Hab defs main r => rbp_sound I mask a b Hab defs main [] [] [] r (Inv_nil I mask a b)). Qed.
Print Assumptions C12_rb_sound.

(* accepted programs are non-interfering inside the mask *)
Theorem C12_accepts_sound : forall P, accepts P = true ->
  forall (I : interp) (mask : px -> bool) (a b : px -> V I), (forall q, mask q = true -> a q = b q) ->
  forall p, mask p = true -> run I mask P a p = run I mask P b p.
Proof. exact accepts_sound. Qed.
Print Assumptions C12_accepts_sound.

(* programs whose every path ends in `result[~mask] = image[~mask]` return the input outside the mask *)
Theorem C12_restores_outside_sound : forall P, restores_outside P = true ->
  forall (I : interp) (mask : px -> bool) (img : px -> V I) p, mask p = false -> run I mask P img p = img p.
Proof. exact restores_outside_sound. Qed.
Print Assumptions C12_restores_outside_sound.

(* the masked convolution kernel (_filter.pyx masked_convolution, concrete loop semantics) reads no masked-out pixel *)
Theorem C12_masked_conv_clean : forall k (I : interp) (mask : px -> bool) (a b : px -> V I),
  (forall q, mask q = true -> a q = b q) ->
  forall p, eval I mask [] (MConv k Img MaskE) a p = eval I mask [] (MConv k Img MaskE) b p.
Proof. exact masked_conv_clean. Qed.
Print Assumptions C12_masked_conv_clean.

(* THE PROPERTY, for every function in the generated list (openlines: three angles written out — see TRUSTED in
   harness/props/c12.py) *)
Theorem C12_listed_noninterfering : Forall noninterfering listed_progs.
Proof. exact (all_accepted_noninterfering listed_progs listed_accepted). Qed.
Print Assumptions C12_listed_noninterfering.

Theorem C12_binary_family_restores_input_outside_mask : Forall restoring binary_progs.
Proof. exact (all_restoring binary_progs binary_restore). Qed.
Print Assumptions C12_binary_family_restores_input_outside_mask.

(* regional_maximum for EVERY structure: the term is stated over an abstract offset set s (interp.sset s is any
   set: full squares of any size, the 4-connected cross where F10 lived, asymmetric structures) *)
Theorem C12_regional_maximum_any_structure : forall s, noninterfering (prog_regional_maximum_struct s).
Proof. exact (fun s => accepts_sound (prog_regional_maximum_struct s) (regional_maximum_struct_ok s)). Qed.
Print Assumptions C12_regional_maximum_any_structure.

(* integer 0/1 masks: the listed functions that look only at the mask's truthiness (all but the 23 of known finding F24)
   are non-interfering also when the mask is read as an integer array (x[mask] = fancy indexing, ~mask = bitwise) *)
Theorem C12_integer_masks_handled : Forall noninterfering intmask_handled_progs.
Proof. exact (all_accepted_noninterfering intmask_handled_progs intmask_handled_accepted). Qed.
Print Assumptions C12_integer_masks_handled.

(* the generated lists cover the 40 functions the property names plus the 2 it implies (masked_convolution,
   branchings) / all 15 binary ones *)
Theorem C12_lists_complete : (length listed_progs, length binary_progs) = (42, 15)%nat.
Proof. exact listed_count. Qed.
Print Assumptions C12_lists_complete.

(* THE LOCALITY TABLE tied to executable reference models (Model/MaskRef.v, compared with scipy.ndimage on every run):
   a correlate/convolve of a finite array with a finite kernel, SciPy's constant or reflect border, reads only array
   pixels within the kernel's extent of p (the table's `Loc (k//2)` for a literal kxk kernel) *)
Theorem C12_ref_correlate_radius_is_extent : forall k mode c H W f g p,
  inside H W p = true -> extent (map fst k) <= H -> extent (map fst k) <= W ->
  agree_near H W f g p (extent (map fst k)) ->
  let ex := fun h => if mode =? 0 then ext_const c H W h else ext_reflect H W h in
  ref_correlate k (ex f) p = ref_correlate k (ex g) p.
Proof. exact correlate_array_radius_is_extent. Qed.
Print Assumptions C12_ref_correlate_radius_is_extent.

(* binary erosion / dilation and grey erosion / dilation with a finite footprint: radius = extent of the footprint *)
Theorem C12_ref_morphology_radius_is_extent : forall d0 fp a b p,
  (forall q, dist p q <= extent (d0 :: fp) -> a q = b q) ->
  ref_binary_erosion (d0 :: fp) a p = ref_binary_erosion (d0 :: fp) b p /\
  ref_binary_dilation (d0 :: fp) a p = ref_binary_dilation (d0 :: fp) b p /\
  ref_grey_erosion d0 fp a p = ref_grey_erosion d0 fp b p /\
  ref_grey_dilation d0 fp a p = ref_grey_dilation d0 fp b p.
Proof. exact (fun d0 fp a b p H => conj (binary_erosion_radius_is_extent (d0 :: fp) a b p H) (conj (binary_dilation_radius_is_extent (d0 :: fp) a b p H) (conj (grey_erosion_radius_is_extent d0 fp a b p H) (grey_dilation_radius_is_extent d0 fp a b p H)))). Qed.
Print Assumptions C12_ref_morphology_radius_is_extent.

(* binary_erosion(mask, footprint, border_value=0): truthy only where every footprint pixel is a set ARRAY pixel
   (the table's guarantee of `Erode`) *)
Theorem C12_ref_binary_erosion_guarantee : forall fp H W f p,
  ref_binary_erosion fp (ext_const 0 H W f) p <> 0 ->
  forall d, In d fp -> inside H W (padd p d) = true /\ f (padd p d) <> 0.
Proof. exact binary_erosion_array_guarantee. Qed.
Print Assumptions C12_ref_binary_erosion_guarantee.

(* the two-run checker evaluated on the implementation's outputs is sound and complete *)
Theorem C12_checker_sound : forall sel m a b, agree_on sel m a b = true -> Agree sel m a b.
Proof. exact agree_on_sound. Qed.
Print Assumptions C12_checker_sound.
Theorem C12_checker_complete : forall sel m a b, Agree sel m a b -> agree_on sel m a b = true.
Proof. exact agree_on_complete. Qed.
Print Assumptions C12_checker_complete.

(* what the checker rejects can really leak: median_filter with the unmasked np.min/np.max (the code before
   the repair of filter.py:100) is refuted by a concrete admissible interpretation *)
Theorem C12_median_filter_unmasked_minmax_refuted : ~ noninterfering prog_median_filter_unmasked_minmax.
Proof. exact median_filter_unmasked_minmax_leaks. Qed.
Print Assumptions C12_median_filter_unmasked_minmax_refuted.
