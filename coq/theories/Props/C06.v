(* C06 — property theorems.  Only statements, each closed by [exact], each followed by
   Print Assumptions. *)
From Coq Require Import ZArith List Bool.
From Centro Require Import Base.LutBits Spec.LutRule Spec.LutDocs Gen.TablesC06 Proofs.LutTables.
Open Scope Z_scope.

(* Finite (512 patterns x 15 tables, regenerated from the staged package on every run) *)
Theorem C06_builtin_tables_match_docs :
  matches t_branchpoints doc_branchpoints /\ matches t_bridge doc_bridge /\ matches t_clean doc_clean /\
  matches t_diag doc_diag /\ matches t_endpoints doc_endpoints /\ matches t_fill doc_fill /\
  matches t_fill4 doc_fill4 /\ matches t_hbreak doc_hbreak /\ matches t_vbreak doc_vbreak /\
  matches t_life doc_life /\ matches t_majority doc_majority /\ matches t_remove doc_remove /\
  matches t_thicken doc_thicken /\ matches t_spur1 doc_spur1 /\ matches t_spur2 doc_spur2.
Proof. exact builtin_tables_match_docs. Qed.
Print Assumptions C06_builtin_tables_match_docs.

Theorem C06_wrapper_constants_match_docs :
  gen_ops = map (fun d => (doc_table (fst d), meta_code (snd d))) doc_ops.
Proof. exact wrapper_constants_match_docs. Qed.
Print Assumptions C06_wrapper_constants_match_docs.

From Centro Require Import Model.Lut Proofs.LutPlain Proofs.LutDense Proofs.LutLoop.

(* Full, all shapes >= 3x3: the scatter kernel table_lookup_index (interior loop, four corner
   blocks, two edge loops) = the gather form of the neighbourhood index with border value 0 *)
Theorem C06_dense_index_correct : forall H W X p q,
  3 <= H -> 3 <= W -> 0 <= p < H -> 0 <= q < W ->
  tli H W X p q = enc (gbits false H W X p q).
Proof. exact tli_gather. Qed.
Print Assumptions C06_dense_index_correct.

(* Full, every shape (in particular 1x1, 1xN, Nx1, 2x2): the slicing path = the same index *)
Theorem C06_small_path_correct : forall H W X p q,
  0 <= p < H -> 0 <= q < W -> small_index H W X p q = enc (gbits false H W X p q).
Proof. exact small_index_gather. Qed.
Print Assumptions C06_small_path_correct.

(* Full: the four OR masks turn the border-0 index into the border-1 index at every pixel,
   including corners and one-row / one-column images where several masks hit the same pixel *)
Theorem C06_border_masks_correct : forall H W X p q,
  0 <= p < H -> 0 <= q < W ->
  border_or H W (fun p q => enc (gbits false H W X p q)) p q = enc (gbits true H W X p q).
Proof. exact border_or_gather. Qed.
Print Assumptions C06_border_masks_correct.

(* Full: one pass of the plain loop body = lut_step, every image, table, border value *)
Theorem C06_plain_step_correct : forall T b X, plain_step T b X = lut_step T b X.
Proof. exact plain_step_correct. Qed.
Print Assumptions C06_plain_step_correct.

(* Full: the counted loop with its early exit = k applications of the rule *)
Theorem C06_plain_iterations_correct : forall k T b X, plain_k k T b X = lut_iter k T b X.
Proof. exact plain_k_correct. Qed.
Print Assumptions C06_plain_iterations_correct.

(* Full: iterations=None on the plain path = the partial fixed-point search lut_fix, which returns
   the first image of the orbit that the rule maps to itself *)
Theorem C06_plain_until_unchanged_correct : forall fuel T b X, plain_none fuel T b X = lut_fix fuel T b X.
Proof. exact plain_none_correct. Qed.
Print Assumptions C06_plain_until_unchanged_correct.

Theorem C06_lut_fix_spec : forall fuel T b X Y, lut_fix fuel T b X = Some Y ->
  exists n, (n < fuel)%nat /\ Y = lut_iter n T b X /\ lut_step T b Y = Y /\
            forall m, (m < n)%nat -> lut_step T b (lut_iter m T b X) <> lut_iter m T b X.
Proof. exact lut_fix_spec. Qed.
Print Assumptions C06_lut_fix_spec.

From Centro Require Import Proofs.LutSparse Proofs.LutDispatch.
From Centro Require Proofs.LutExamples.   (* satisfiability examples for the hypotheses below *)
Import ListNotations.

(* Full: one pass of index_lookup on the border-padded copy (mark, clear, compact) maps the
   representation of an image to the representation of lut_step of that image, for every erosive
   table, shape and border value (the loop invariant of the sparse path) *)
Theorem C06_sparse_pass_correct : forall T b, erosive T -> forall X st,
  (0 < length X)%nat -> Inv b X st ->
  Inv b (lut_step T b X) (il_pass (length X + 2) (length (hd [] X) + 2) T st).
Proof. exact il_pass_correct. Qed.
Print Assumptions C06_sparse_pass_correct.

(* Full: prepare + index_lookup(k) + extract = k applications of the rule *)
Theorem C06_sparse_path_correct : forall T b, erosive T -> forall k X,
  (0 < length X)%nat -> rect X -> sparse T b (Some k) X = lut_iter k T b X.
Proof. exact sparse_k_correct. Qed.
Print Assumptions C06_sparse_path_correct.

(* Full: the inverted-table trick *)
Theorem C06_inverted_path_correct : forall n T b X,
  (0 < length X)%nat -> rect X -> lut_iter n (inv_table T) (negb b) (gnot X) = gnot (lut_iter n T b X).
Proof. exact inverted_iter. Qed.
Print Assumptions C06_inverted_path_correct.

Theorem C06_inverted_table_erosive : forall T, extensive T -> erosive (inv_table T).
Proof. exact inv_erosive. Qed.
Print Assumptions C06_inverted_table_erosive.

(* Full: the dispatch as a whole, any table / dtype class / rectangular image / border / count *)
Theorem C06_table_lookup_correct : forall dt X T b k,
  (0 < length X)%nat -> rect X -> table_lookup dt X T b (Some k) = Some (lut_iter k T b X).
Proof. exact table_lookup_correct. Qed.
Print Assumptions C06_table_lookup_correct.

Theorem C06_table_lookup_until_unchanged_correct : forall dt X T b Y,
  (0 < length X)%nat -> rect X -> table_lookup dt X T b None = Some Y ->
  lut_step T b Y = Y /\ exists n, Y = lut_iter n T b X.
Proof. exact table_lookup_none_correct. Qed.
Print Assumptions C06_table_lookup_until_unchanged_correct.

From Centro Require Import Model.LutOps Proofs.LutWrappers.

(* Full (operations called without a mask; the masked variants are covered by the exact
   correspondence and the rule evaluated on the implementation's output, not by a theorem):
   the wrapper = the documented rule of the operation iterated the requested / documented
   number of times with the documented border value *)
Theorem C06_wrapper_nomask_correct : forall code P b f mode dt X k,
  nth_error doc_ops (Z.to_nat code) = Some (P, (b, f, mode)) -> 0 <= code < 13 ->
  mode = -2 \/ 0 <= mode ->
  (0 < length X)%nat -> rect X ->
  run_op code dt X None (Some k) = Some (iter (if mode =? -2 then k else Z.to_nat mode) (op_rule P b) X).
Proof. exact wrapper_nomask_correct. Qed.
Print Assumptions C06_wrapper_nomask_correct.

From Centro Require Import Model.LutMake Proofs.LutMake.

(* Full: a masked table wrapper = fill the masked-out pixels with the documented value, apply the
   documented rule to that image the requested number of times, restore the input outside the mask *)
Theorem C06_wrapper_mask_correct : forall code P b v mode dt X m k,
  nth_error doc_ops (Z.to_nat code) = Some (P, (b, Some v, mode)) -> 0 <= code < 13 ->
  mode = -2 \/ 0 <= mode ->
  (0 < length X)%nat ->
  run_op code dt X (Some m) (Some k) =
  Some (spec_restore X (Some m)
          (iter (if mode =? -2 then k else Z.to_nat mode) (op_rule P b) (spec_masked X (Some m) v))).
Proof. exact wrapper_mask_correct. Qed.
Print Assumptions C06_wrapper_mask_correct.

Theorem C06_mask_restores_input_outside : forall X m R p q,
  0 <= p < gH X -> 0 <= q < gW X -> rd false m p q = false ->
  rd false (spec_restore X (Some m) R) p q = rd false X p q.
Proof. exact restore_outside. Qed.
Print Assumptions C06_mask_restores_input_outside.

(* Full: the table builders *)
Theorem C06_make_table_spec : forall value pattern care bits,
  length bits = 9%nat -> tbl (make_table value pattern care) (enc bits) = mk_rule value pattern care bits.
Proof. exact make_table_spec. Qed.
Print Assumptions C06_make_table_spec.

Theorem C06_index_of_is_rule_index : forall bits, length bits = 9%nat -> index_of bits = enc bits.
Proof. exact index_of_enc. Qed.
Print Assumptions C06_index_of_is_rule_index.

Theorem C06_pattern_of_index_of : forall bits, length bits = 9%nat -> pattern_of (index_of bits) = bits.
Proof. exact pattern_of_index_of. Qed.
Print Assumptions C06_pattern_of_index_of.

Theorem C06_index_of_pattern_of : forall k, 0 <= k < 512 -> index_of (pattern_of k) = k.
Proof. exact index_of_pattern_of. Qed.
Print Assumptions C06_index_of_pattern_of.


From Centro Require Import Proofs.LutCount Proofs.LutPixels.

(* Full: the index list of prepare_for_index_lookup has one entry per set pixel *)
Theorem C06_argwhere_count : forall X, rect X -> length (argwhere1 X) = cnt (concat X).
Proof. exact argwhere_count. Qed.
Print Assumptions C06_argwhere_count.

(* Full: iterations=None on the sparse path (at most as many passes as set pixels) returns a fixed point *)
Theorem C06_sparse_until_unchanged_correct : forall T b X,
  erosive T -> (0 < length X)%nat -> rect X ->
  let n := set_pixels X in
  sparse T b None X = lut_iter n T b X /\ lut_step T b (lut_iter n T b X) = lut_iter n T b X.
Proof. exact sparse_none_pixels. Qed.
Print Assumptions C06_sparse_until_unchanged_correct.

(* Full: until-convergence terminates for erosive tables within #set pixels steps and for extensive
   tables within #clear pixels steps *)
Theorem C06_monotone_terminates : forall T b X fuel,
  (0 < length X)%nat -> rect X ->
  (erosive T /\ (set_pixels X < fuel)%nat) \/ (extensive T /\ (clear_pixels X < fuel)%nat) ->
  exists Y, lut_fix fuel T b X = Some Y.
Proof. exact monotone_terminates_pixels. Qed.
Print Assumptions C06_monotone_terminates.

(* Full: so table_lookup(iterations=None) returns a fixed point on every path for such tables
   (FUEL = 600 is the loop bound of the model's plain path) *)
Theorem C06_table_lookup_monotone_total : forall dt X T b,
  (0 < length X)%nat -> rect X ->
  (erosive T /\ (set_pixels X < FUEL)%nat) \/ (extensive T /\ (clear_pixels X < FUEL)%nat) ->
  exists Y, table_lookup dt X T b None = Some Y /\ lut_step T b Y = Y /\ exists n, Y = lut_iter n T b X.
Proof. exact table_lookup_monotone_total_pixels. Qed.
Print Assumptions C06_table_lookup_monotone_total.

(* Full: spur (two-table loop through index_lookup(.., 1), with or without mask, k or None) is the
   specification of the operation that the harness evaluates on the implementation's output *)
Theorem C06_spur_meets_spec : forall dt X M iters,
  (0 < length X)%nat -> rect X -> run_op 13 dt X M iters = op_spec 13 X M iters.
Proof. exact spur_meets_spec. Qed.
Print Assumptions C06_spur_meets_spec.

(* Full: the evaluator of the rule that the harness runs (image shape computed once per step) is the rule *)
Theorem C06_spec_entry_is_rule : forall k T b X,
  iter k (lut_step_fast T b) X = lut_iter k T b X /\ forall fuel, lut_fix_fast fuel T b X = lut_fix fuel T b X.
Proof. exact spec_entry_is_rule. Qed.
Print Assumptions C06_spec_entry_is_rule.

From Centro Require Import Proofs.LutTotal.

(* Finite: which documented tables never set / never clear a pixel *)
Theorem C06_wrapper_table_classes :
  map (fun d => (erosive_tb (doc_table (fst d)), extensive_tb (doc_table (fst d)))) doc_ops =
  [ (true, false); (false, true); (true, false); (false, true); (true, false); (false, true); (false, true);
    (true, false); (true, false); (false, false); (false, false); (true, false); (false, true) ].
Proof. exact wrapper_table_classes. Qed.
Print Assumptions C06_wrapper_table_classes.

(* Full: with iterations=None (or for hbreak/vbreak/remove, always) every wrapper whose documented table
   is erosive or extensive RETURNS - with or without mask - and its result is the input outside the
   mask and a fixed point of the documented rule, reached by iterating it on the masked image, inside *)
Theorem C06_wrapper_until_unchanged_total : forall code P b f mode dt X M,
  nth_error doc_ops (Z.to_nat code) = Some (P, (b, f, mode)) -> 0 <= code < 13 ->
  mode = -2 \/ mode = -1 ->
  (0 < length X)%nat -> rect X ->
  let M' := eff_mask f M in
  let Xm := spec_masked X M' (eff_fill f) in
  (erosive (doc_table P) /\ (set_pixels Xm < FUEL)%nat) \/ (extensive (doc_table P) /\ (clear_pixels Xm < FUEL)%nat) ->
  exists Y, run_op code dt X M None = Some (spec_restore X M' Y) /\
            op_rule P b Y = Y /\ exists n, Y = iter n (op_rule P b) Xm.
Proof. exact wrapper_until_unchanged_total. Qed.
Print Assumptions C06_wrapper_until_unchanged_total.

(* Full: spur with a mask returns the input outside the mask (inside: C06_spur_meets_spec) *)
Theorem C06_spur_mask_restores : forall dt X m iters,
  (0 < length X)%nat -> rect X ->
  exists R, run_op 13 dt X (Some m) iters = Some (spec_restore X (Some m) R).
Proof. exact spur_mask_restores. Qed.
Print Assumptions C06_spur_mask_restores.
