(* C06 — property theorems.  Only statements, each closed by [exact], each followed by
   Print Assumptions. *)
From Coq Require Import ZArith List Bool.
From Centro Require Import Base.LutBits Spec.LutRule Spec.LutDocs Gen.TablesC06 Proofs.LutTables.
Open Scope Z_scope.

(* Finite (512 patterns x 15 tables, regenerated from the staged package on every run) *)
Theorem C06_builtin_tables_match_docs :
  matches t_branchpoints doc_branchpoints /\ matches t_bridge doc_bridge /\ matches t_clean doc_clean /\
  matches t_diag doc_diag /\ matches t_endpoints doc_endpoints /\ matches t_fill doc_fill /\
  matches t_fill4 doc_fill4 /\ matches t_hbreak doc_hbreak /\ matches t_vbreak doc_vbreak /\
  matches t_life doc_life /\ matches t_majority doc_majority /\ matches t_remove doc_remove /\
  matches t_thicken doc_thicken /\ matches t_spur1 doc_spur1 /\ matches t_spur2 doc_spur2.
Proof. exact builtin_tables_match_docs. Qed.
Print Assumptions C06_builtin_tables_match_docs.

Theorem C06_wrapper_constants_match_docs :
  gen_ops = map (fun d => (doc_table (fst d), meta_code (snd d))) doc_ops.
Proof. exact wrapper_constants_match_docs. Qed.
Print Assumptions C06_wrapper_constants_match_docs.
