(* C01 — executable line-level model of centrosome.lapjv.lapjv (lapjv.py) and of the three
   kernels of _lapjv.pyx (reduction_transfer, augmenting_row_reduction, augment + bsearch),
   transcribed from design/prototypes/lapjv_reference.py (validated bit for bit against the
   compiled code).  Definitions only; proofs are in Proofs/Lapjv*.v.

   Values: costs and duals are dyadic floats; the harness scales them by 2^S to integers, and
   because the code produces infinite duals (a free row with a single candidate executes
   v[j1] = v[j1] - inf + u1) they live in [ext] with IEEE-style arithmetic and comparisons.
   Switches: [rt] = AsIs (reduction_transfer reads the column indices at offset 0 for every
   row, as the code does: finding F1) or Fixed (offset idx[i]); [eps] / [epsr] = the scaled value
   of __eps = 2^-26 at its two uses in augmenting_row_reduction: the tie decision of :202 (the
   band that finding F6 is about) and the retry decision of :208 (which bounds the `k -= 1`
   price war).  The code is (2^-26, 2^-26); the repaired variants are (0, 2^-26) and (0, 0).
   Arrays are lists read with [nth] and written with [upd]; the ragged (j, cost) array is kept
   per row ([rows]) plus the flat column-index array [jflat] that the AsIs variant reads.
   Loops that are `for` loops are structural recursions over the index list; `while` loops run
   on explicit fuel and return [None] when it runs out (the theorems exclude that result). *)
From Coq Require Import ZArith List Bool.
From Centro Require Import Base.Sx.
Import ListNotations.
Open Scope Z_scope.

(* ---------------------------------------------------------------- extended values *)

Inductive ext : Type := Fin (z : Z) | PInf | NInf | NaN.

Definition eadd (a b : ext) : ext :=
  match a, b with
  | NaN, _ | _, NaN => NaN
  | Fin x, Fin y => Fin (x + y)
  | PInf, NInf | NInf, PInf => NaN
  | PInf, _ | _, PInf => PInf
  | NInf, _ | _, NInf => NInf
  end.
Definition eneg (a : ext) : ext :=
  match a with Fin x => Fin (- x) | PInf => NInf | NInf => PInf | NaN => NaN end.
Definition esub (a b : ext) : ext := eadd a (eneg b).
Definition eltb (a b : ext) : bool :=
  match a, b with
  | NaN, _ | _, NaN => false
  | Fin x, Fin y => x <? y
  | NInf, NInf => false
  | NInf, _ => true
  | _, NInf => false
  | PInf, _ => false
  | Fin _, PInf => true
  end.
Definition eleb (a b : ext) : bool :=
  match a, b with
  | NaN, _ | _, NaN => false
  | Fin x, Fin y => x <=? y
  | NInf, _ => true
  | _, PInf => true
  | _, _ => false
  end.

(* ---------------------------------------------------------------- arrays *)

Fixpoint upd {A} (l : list A) (k : nat) (a : A) : list A :=
  match l, k with
  | [], _ => []
  | _ :: r, O => a :: r
  | h :: r, S k' => h :: upd r k' a
  end.

Definition getn (l : list nat) (k : nat) (d : nat) : nat := nth k l d.
Definition gete (l : list ext) (k : nat) : ext := nth k l NaN.

(* ---------------------------------------------------------------- input *)

Inductive rtv : Type := AsIs | Fixed.

Definition triple : Type := (nat * nat * Z)%type.
Definition t_i (t : triple) : nat := fst (fst t).
Definition t_j (t : triple) : nat := snd (fst t).
Definition t_c (t : triple) : Z := snd t.

(* ---------------------------------------------------------------- column reduction (lapjv.py:81-119) *)

(* order = lexsort((-i, costs, j)); min_idx = order[j_index]: per column the smallest cost,
   ties to the largest row *)
Definition better (c : Z) (i : nat) (b : option (Z * nat)) : bool :=
  match b with
  | None => true
  | Some (bc, bi) => (c <? bc) || ((c =? bc) && (bi <? i)%nat)
  end.

Fixpoint col_min (j : nat) (tri : list triple) (b : option (Z * nat)) : option (Z * nat) :=
  match tri with
  | [] => b
  | t :: r => col_min j r (if (t_j t =? j)%nat && better (t_c t) (t_i t) b then Some (t_c t, t_i t) else b)
  end.

Definition col_mins (n : nat) (tri : list triple) : list (option (Z * nat)) :=
  map (fun j => col_min j tri None) (seq 0 n).

Definition v_init (n : nat) (tri : list triple) : list ext :=
  map (fun o => match o with Some (c, _) => Fin c | None => NaN end) (col_mins n tri).
Definition min_i (n : nat) (tri : list triple) : list nat :=
  map (fun o => match o with Some (_, i) => i | None => n end) (col_mins n tri).

(* x[min_i] = arange(n): NumPy fancy assignment, last write wins *)
Fixpoint x_init_go (mi : list nat) (j : nat) (x : list nat) : list nat :=
  match mi with
  | [] => x
  | i :: r => x_init_go r (S j) (upd x i j)
  end.
Definition x_init (n : nat) (mi : list nat) : list nat := x_init_go mi 0%nat (repeat n n).

(* y[x[x != n]] = arange(n)[x != n] *)
Fixpoint y_init_go (n : nat) (x : list nat) (i : nat) (y : list nat) : list nat :=
  match x with
  | [] => y
  | j :: r => y_init_go n r (S i) (if (j =? n)%nat then y else upd y j i)
  end.
Definition y_init (n : nat) (x : list nat) : list nat := y_init_go n x 0%nat (repeat n n).

Definition count_of (i : nat) (l : list nat) : nat := length (filter (Nat.eqb i) l).
Definition free_rows (n : nat) (mi : list nat) : list nat :=
  filter (fun i => (count_of i mi =? 0)%nat) (seq 0 n).
Definition one_rows (n : nat) (mi : list nat) : list nat :=
  filter (fun i => (count_of i mi =? 1)%nat) (seq 0 n).

(* order = lexsort((j, i)): the ragged per-row (j, cost) arrays, each row sorted by j (stable) *)
Fixpoint ins_j (e : nat * ext) (l : list (nat * ext)) : list (nat * ext) :=
  match l with
  | [] => [e]
  | h :: r => if (fst e <? fst h)%nat then e :: l else h :: ins_j e r
  end.
Fixpoint row_of (i : nat) (tri : list triple) (acc : list (nat * ext)) : list (nat * ext) :=
  match tri with
  | [] => acc
  | t :: r => row_of i r (if (t_i t =? i)%nat then ins_j (t_j t, Fin (t_c t)) acc else acc)
  end.
Definition rows_of (n : nat) (tri : list triple) : list (list (nat * ext)) :=
  map (fun i => row_of i tri []) (seq 0 n).
Definition jflat_of (rows : list (list (nat * ext))) : list nat := concat (map (map fst) rows).

Definition rowget (rows : list (list (nat * ext))) (i : nat) : list (nat * ext) := nth i rows [].

(* ---------------------------------------------------------------- reduction transfer (_lapjv.pyx:81-98) *)

Fixpoint rt_scan (j1 : nat) (v : list ext) (js : list nat) (cs : list ext) (mu : ext) (at_ : option nat)
  : ext * option nat :=
  match js, cs with
  | jt :: jr, c :: cr =>
      if (jt =? j1)%nat then rt_scan j1 v jr cr mu at_
      else let ut := esub c (gete v jt) in
           if eltb ut mu then rt_scan j1 v jr cr ut (Some jt) else rt_scan j1 v jr cr mu at_
  | _, _ => (mu, at_)
  end.

Definition rt_row (rt : rtv) (n : nat) (rows : list (list (nat * ext))) (jflat : list nat)
           (x : list nat) (uv : list ext * list ext) (i : nat) : list ext * list ext :=
  let '(u, v) := uv in
  let row := rowget rows i in
  let j1 := getn x i n in
  let js := match rt with AsIs => firstn (length row) jflat | Fixed => map fst row end in
  let '(mu, at_) := rt_scan j1 v js (map snd row) PInf None in
  match at_ with
  | None => (u, v)
  | Some _ => (upd u i mu, upd v j1 (esub (gete v j1) (esub mu (gete u i))))
  end.

Definition reduction_transfer (rt : rtv) (n : nat) (rows : list (list (nat * ext))) (jflat : list nat)
           (x : list nat) (one : list nat) (u v : list ext) : list ext * list ext :=
  fold_left (rt_row rt n rows jflat x) one (u, v).

(* ---------------------------------------------------------------- augmenting row reduction (:178-217) *)

(* the two smallest reduced costs of a row; j1/j2 are C locals that keep their previous value
   when no candidate improves them (None = never assigned in this call) *)
Fixpoint arr_scan (v : list ext) (row : list (nat * ext)) (u1 u2 : ext) (j1 j2 : option nat)
  : ext * ext * option nat * option nat :=
  match row with
  | [] => (u1, u2, j1, j2)
  | (j, c) :: r =>
      let temp := esub c (gete v j) in
      if eltb temp u1 then arr_scan v r temp u1 (Some j) j1
      else if eltb temp u2 then arr_scan v r u1 temp j1 (Some j)
      else arr_scan v r u1 u2 j1 j2
  end.

Record arr_state : Type := mkArr
  { a_x : list nat; a_y : list nat; a_v : list ext; a_j1 : option nat; a_j2 : option nat; a_free : list nat }.

(* [todo] is the part of the work array p_i from position k on; `k -= 1; p_i[k] = i1` pushes
   i1 back in front of it *)
Fixpoint arr_loop (fuel : nat) (eps epsr : ext) (n : nat) (rows : list (list (nat * ext)))
         (todo : list nat) (s : arr_state) : option arr_state :=
  match todo with
  | [] => Some s
  | i :: rest =>
      match fuel with
      | O => None
      | S f =>
          let '(u1, u2, j1o, j2o) := arr_scan (a_v s) (rowget rows i) PInf PInf (a_j1 s) (a_j2 s) in
          match j1o with
          | None => None                                  (* uninitialised j1 would be used *)
          | Some j1 =>
              let i1 := getn (a_y s) j1 n in
              let strict := eltb (eadd u1 eps) u2 in        (* :202 *)
              let retry := eltb (eadd u1 epsr) u2 in        (* :208 *)
              let step (j1 : nat) (i1 : nat) (v : list ext) :=
                let todo' := if (i1 =? n)%nat then rest else if retry then i1 :: rest else rest in
                let free' := if (i1 =? n)%nat then a_free s else if retry then a_free s else i1 :: a_free s in
                arr_loop f eps epsr n rows todo'
                  (mkArr (upd (a_x s) i j1) (upd (a_y s) j1 i) v (Some j1) j2o free') in
              if strict then
                step j1 i1 (upd (a_v s) j1 (eadd (esub (gete (a_v s) j1) u2) u1))
              else if (i1 =? n)%nat then step j1 i1 (a_v s)
              else match j2o with
                   | None => None                         (* uninitialised j2 would be used *)
                   | Some j2 => step j2 (getn (a_y s) j2 n) (a_v s)
                   end
          end
      end
  end.

(* one call of augmenting_row_reduction: returns x, y, v and the new free list *)
Definition arr_pass (fuel : nat) (eps epsr : ext) (n : nat) (rows : list (list (nat * ext)))
           (s : list nat * list nat * list ext * list nat) : option (list nat * list nat * list ext * list nat) :=
  let '(x, y, v, ii) := s in
  match arr_loop fuel eps epsr n rows ii (mkArr x y v None None []) with
  | None => None
  | Some r => Some (a_x r, a_y r, a_v r, rev (a_free r))
  end.

Fixpoint arr_passes (k : nat) (fuel : nat) (eps epsr : ext) (n : nat) (rows : list (list (nat * ext)))
         (s : list nat * list nat * list ext * list nat) : option (list nat * list nat * list ext * list nat) :=
  match k with
  | O => Some s
  | S k' => match arr_pass fuel eps epsr n rows s with
            | None => None
            | Some s' => arr_passes k' fuel eps epsr n rows s'
            end
  end.

(* ---------------------------------------------------------------- bsearch (:470-482) *)

Fixpoint bsearch (fuel : nat) (js : list nat) (lo hi : Z) (val : nat) : option nat :=
  match fuel with
  | O => None
  | S f =>
      if lo <=? hi then
        let mid := (lo + hi) / 2 in
        let m := nth (Z.to_nat mid) js 0%nat in
        if (val =? m)%nat then Some (Z.to_nat mid)
        else if (m <? val)%nat then bsearch f js (mid + 1) hi val
        else bsearch f js lo (mid - 1) val
      else None
  end.

(* c[idx[i] + bsearch(j + idx[i], count[i], val)] *)
Definition cost_at (row : list (nat * ext)) (val : nat) : option ext :=
  match bsearch (S (length row)) (map fst row) 0 (Z.of_nat (length row) - 1) val with
  | None => None
  | Some k => Some (nth k (map snd row) NaN)
  end.

(* ---------------------------------------------------------------- augment (:337-459) *)

Record aug_state : Type := mkAug
  { g_d : list ext; g_pred : list nat; g_done : list nat; g_ontodo : list nat;
    g_todo : list nat;      (* p_to_do[0 .. n_to_do) *)
    g_scan : list nat;      (* p_scan[low .. up) *)
    g_ready : list nat;     (* p_ready[0 .. n_ready), in order *)
    g_umin : ext }.

(* the stamps done / on_to_do hold row numbers; the initial -1 (never a row) is modelled by n *)

(* initialisation of d, to_do, on_to_do, pred from the free row's candidates *)
Fixpoint aug_init_row (r : nat) (v : list ext) (row : list (nat * ext)) (d : list ext) (ontodo pred : list nat)
  : list ext * list nat * list nat :=
  match row with
  | [] => (d, ontodo, pred)
  | (j, c) :: rr => aug_init_row r v rr (upd d j (esub c (gete v j))) (upd ontodo j r) (upd pred j r)
  end.

(* minimum of d over the to-do columns that are not done; ties collected in order *)
Fixpoint aug_min (r n : nat) (d : list ext) (done : list nat) (todo : list nat) (umin : ext) (scan : list nat)
  : ext * list nat :=
  match todo with
  | [] => (umin, scan)
  | j :: tr =>
      if (getn done j n =? r)%nat then aug_min r n d done tr umin scan
      else let temp := gete d j in
           if eleb temp umin then
             if eltb temp umin then aug_min r n d done tr temp [j]
             else aug_min r n d done tr umin (scan ++ [j])
           else aug_min r n d done tr umin scan
  end.

(* for jjj from low <= jjj < up: first unassigned column, marking the assigned ones done *)
Fixpoint aug_first_free (r n : nat) (y : list nat) (scan : list nat) (done : list nat) : option nat * list nat :=
  match scan with
  | [] => (None, done)
  | j :: sr => if (getn y j n =? n)%nat then (Some j, done) else aug_first_free r n y sr (upd done j r)
  end.

(* the scan of row i1 (:411-436); returns the state and Some j when an unassigned column was reached *)
Fixpoint aug_relax (r n i1 : nat) (y : list nat) (v : list ext) (u1 : ext) (row : list (nat * ext)) (s : aug_state)
  : aug_state * option nat :=
  match row with
  | [] => (s, None)
  | (j, c) :: rr =>
      if (getn (g_done s) j n =? r)%nat then aug_relax r n i1 y v u1 rr s
      else
        let h := esub (esub c (gete v j)) u1 in
        if eltb h (gete (g_d s) j) then
          let pred' := upd (g_pred s) j i1 in
          let d' := upd (g_d s) j h in
          if eleb h (g_umin s) then
            if (getn y j n =? n)%nat then
              (mkAug d' pred' (g_done s) (g_ontodo s) (g_todo s) (g_scan s) (g_ready s) (g_umin s), Some j)
            else
              aug_relax r n i1 y v u1 rr
                (mkAug d' pred' (upd (g_done s) j r) (g_ontodo s) (g_todo s) (g_scan s ++ [j]) (g_ready s) (g_umin s))
          else if (getn (g_ontodo s) j n =? r)%nat then
            aug_relax r n i1 y v u1 rr
              (mkAug d' pred' (g_done s) (g_ontodo s) (g_todo s) (g_scan s) (g_ready s) (g_umin s))
          else
            aug_relax r n i1 y v u1 rr
              (mkAug d' pred' (g_done s) (upd (g_ontodo s) j r) (g_todo s ++ [j]) (g_scan s) (g_ready s) (g_umin s))
        else aug_relax r n i1 y v u1 rr s
  end.

(* the `while True` of :362-439; result: final state and the unassigned column j1 *)
Fixpoint aug_loop (fuel : nat) (r n : nat) (inf : ext) (rows : list (list (nat * ext)))
         (y : list nat) (v : list ext) (s : aug_state) : option (aug_state * nat) :=
  match fuel with
  | O => None
  | S f =>
      let refill :=
        match g_scan s with
        | [] =>
            let '(umin, scan) := aug_min r n (g_d s) (g_done s) (g_todo s) inf [] in
            let '(found, done') := aug_first_free r n y scan (g_done s) in
            (mkAug (g_d s) (g_pred s) done' (g_ontodo s) (g_todo s) scan (g_ready s) umin, found)
        | _ => (s, None)
        end in
      let '(s1, found) := refill in
      match found with
      | Some j1 => Some (s1, j1)
      | None =>
          match g_scan s1 with
          | [] => None                                     (* p_scan[low] read past up: no candidate left *)
          | j1 :: srest =>
              let i1 := getn y j1 n in
              match cost_at (rowget rows i1) j1 with
              | None => None
              | Some c1 =>
                  let u1 := esub (esub c1 (gete v j1)) (g_umin s1) in
                  let s2 := mkAug (g_d s1) (g_pred s1) (g_done s1) (g_ontodo s1) (g_todo s1) srest
                                  (g_ready s1 ++ [j1]) (g_umin s1) in
                  let '(s3, found3) := aug_relax r n i1 y v u1 (rowget rows i1) s2 in
                  match found3 with
                  | Some j => Some (s3, j)
                  | None => aug_loop f r n inf rows y v s3
                  end
              end
          end
      end
  end.

(* price update :442-445 *)
Fixpoint aug_prices (d : list ext) (umin : ext) (ready : list nat) (v : list ext) : list ext :=
  match ready with
  | [] => v
  | j :: rr => aug_prices d umin rr (upd v j (eadd (gete v j) (esub (gete d j) umin)))
  end.

(* path flipping :446-451 *)
Fixpoint aug_flip (fuel : nat) (r : nat) (pred : list nat) (j1 : nat) (x y : list nat) (n : nat)
  : option (list nat * list nat) :=
  match fuel with
  | O => None
  | S f =>
      let i1 := getn pred j1 n in
      let y' := upd y j1 i1 in
      let j1' := getn x i1 n in
      let x' := upd x i1 j1 in
      if (i1 =? r)%nat then Some (x', y') else aug_flip f r pred j1' x' y' n
  end.

Record main_state : Type := mkMain
  { m_x : list nat; m_y : list nat; m_v : list ext;
    m_d : list ext; m_pred : list nat; m_done : list nat; m_ontodo : list nat }.

Definition aug_row (n : nat) (inf : ext) (rows : list (list (nat * ext))) (so : option main_state) (r : nat)
  : option main_state :=
  match so with
  | None => None
  | Some s =>
      let row := rowget rows r in
      let '(d, ontodo, pred) :=
        aug_init_row r (m_v s) row (repeat inf n) (m_ontodo s) (m_pred s) in
      let g := mkAug d pred (m_done s) ontodo (map fst row) [] [] inf in
      match aug_loop (S (S n)) r n inf rows (m_y s) (m_v s) g with
      | None => None
      | Some (g', j1) =>
          let v' := aug_prices (g_d g') (g_umin g') (g_ready g') (m_v s) in
          match aug_flip (S n) r (g_pred g') j1 (m_x s) (m_y s) n with
          | None => None
          | Some (x', y') => Some (mkMain x' y' v' (g_d g') (g_pred g') (g_done g') (g_ontodo g'))
          end
      end
  end.

Fixpoint esum (l : list ext) : ext := match l with [] => Fin 0 | a :: r => eadd a (esum r) end.

(* re-establish slackness :455-459 *)
Fixpoint final_u (rows : list (list (nat * ext))) (x : list nat) (v : list ext) : option (list ext) :=
  match rows, x with
  | row :: rr, j :: xr =>
      match cost_at row j, final_u rr xr v with
      | Some c, Some us => Some (esub c (gete v j) :: us)
      | _, _ => None
      end
  | [], [] => Some []
  | _, _ => None
  end.

(* ---------------------------------------------------------------- the whole of lapjv() *)

Definition arr_fuel (n : nat) (tri : list triple) : nat := (4000 + 40 * (n * n + length tri))%nat.

Definition lapjv (rt : rtv) (eps epsr : Z) (k : nat) (n : nat) (tri : list triple)
  : option (list nat * list nat * list ext * list ext) :=
  let mi := min_i n tri in
  let v0 := v_init n tri in
  let x0 := x_init n mi in
  let y0 := y_init n x0 in
  let u0 := repeat (Fin 0) n in
  let free := free_rows n mi in
  let one := one_rows n mi in
  let rows := rows_of n tri in
  let jflat := jflat_of rows in
  let '(u1, v1) := reduction_transfer rt n rows jflat x0 one u0 v0 in
  let arr := match free with
             | [] => Some (x0, y0, v1, free)
             | _ => arr_passes k (arr_fuel n tri) (Fin eps) (Fin epsr) n rows (x0, y0, v1, free)
             end in
  match arr with
  | None => None
  | Some (x2, y2, v2, ii) =>
      let inf := eadd (esum (concat (map (map snd) rows))) (Fin 1) in
      let s0 := mkMain x2 y2 v2 (repeat (Fin 0) n) (repeat 1%nat n) (repeat n n) (repeat n n) in
      match fold_left (aug_row n inf rows) ii (Some s0) with
      | None => None
      | Some s =>
          match final_u rows (m_x s) (m_v s) with
          | None => None
          | Some u => Some (m_x s, m_y s, u, m_v s)
          end
      end
  end.

(* The reference variant: identical to [lapjv] except that augment's sentinel `inf = np.sum(c) + 1` (:296), which is NOT
   larger than every reduced cost once prices have gone negative (finding F20), is a true infinity. *)
Definition lapjv_ref (rt : rtv) (eps epsr : Z) (k : nat) (n : nat) (tri : list triple)
  : option (list nat * list nat * list ext * list ext) :=
  let mi := min_i n tri in
  let v0 := v_init n tri in
  let x0 := x_init n mi in
  let y0 := y_init n x0 in
  let u0 := repeat (Fin 0) n in
  let free := free_rows n mi in
  let one := one_rows n mi in
  let rows := rows_of n tri in
  let jflat := jflat_of rows in
  let '(u1, v1) := reduction_transfer rt n rows jflat x0 one u0 v0 in
  let arr := match free with
             | [] => Some (x0, y0, v1, free)
             | _ => arr_passes k (arr_fuel n tri) (Fin eps) (Fin epsr) n rows (x0, y0, v1, free)
             end in
  match arr with
  | None => None
  | Some (x2, y2, v2, ii) =>
      let s0 := mkMain x2 y2 v2 (repeat (Fin 0) n) (repeat 1%nat n) (repeat n n) (repeat n n) in
      match fold_left (aug_row n PInf rows) ii (Some s0) with
      | None => None
      | Some s =>
          match final_u rows (m_x s) (m_v s) with
          | None => None
          | Some u => Some (m_x s, m_y s, u, m_v s)
          end
      end
  end.

(* ---------------------------------------------------------------- the tracker's use of the solver
   neighmovetrack.py:456-484 (solve_assignement: pairs with cost < invalid_match, the call,
   dict(enumerate(x))) and :197-208 (from_detections_assignment: keep d1n < len(detections_1) and
   d2n < len(detections_2)), then run_tracking's (previous_cell.number, current_cell.number). *)

Definition track_readback (n1 n2 : nat) (x : list nat) : list (nat * nat) :=
  filter (fun p => (fst p <? n1)%nat && (snd p <? n2)%nat) (combine (seq 0 (length x)) x).

Definition track_numbers (labs1 labs2 : list Z) (pairs : list (nat * nat)) : list (Z * Z) :=
  map (fun p => (nth (fst p) labs1 0, nth (snd p) labs2 0)) pairs.

(* ---------------------------------------------------------------- wire format *)

Definition of_ext (e : ext) : sx :=
  match e with Fin z => L [I z] | PInf => I 1 | NInf => I (-1) | NaN => I 0 end.
Definition of_nats (l : list nat) : sx := L (map of_nat l).
Definition as_nats (x : sx) : list nat := map as_nat (as_list x).
Definition as_triple (x : sx) : triple := (as_nat (arg 0 x), as_nat (arg 1 x), as_Z (arg 2 x)).
Definition as_triples (x : sx) : list triple := map as_triple (as_list x).

(* (rt eps epsr k n triples [tinf]) -> (x y u v) | () ;  rt: 0 = AsIs, 1 = Fixed; tinf <> 0: true infinity in augment *)
Definition entry_lapjv (a : sx) : sx :=
  let rt := if as_Z (arg 0 a) =? 0 then AsIs else Fixed in
  match (if as_Z (arg 6 a) =? 0 then lapjv else lapjv_ref)
          rt (as_Z (arg 1 a)) (as_Z (arg 2 a)) (as_nat (arg 3 a)) (as_nat (arg 4 a)) (as_triples (arg 5 a)) with
  | None => L []
  | Some (x, y, u, v) => L [of_nats x; of_nats y; L (map of_ext u); L (map of_ext v)]
  end.

(* the premise of C01_lapjv_ref_fixed_total_partial, executable: phases 1-3 of the (Fixed, eps 0 at :202) solver hand a
   state over to augment, i.e. the eps-retry passes of augmenting row reduction return within the model's fuel *)
Definition arr_returns_b (epsr : Z) (k n : nat) (tri : list triple) : bool :=
  let rows := rows_of n tri in
  let mi := min_i n tri in
  let x0 := x_init n mi in
  let y0 := y_init n x0 in
  let uv := reduction_transfer Fixed n rows (jflat_of rows) x0 (one_rows n mi) (repeat (Fin 0) n) (v_init n tri) in
  match free_rows n mi with
  | [] => true
  | _ => match arr_passes k (arr_fuel n tri) (Fin 0) (Fin epsr) n rows (x0, y0, snd uv, free_rows n mi) with
         | None => false
         | Some _ => true
         end
  end.

(* phases 1-3 leave no pending row: augment has nothing to do *)
Definition arr_nofree_b (epsr : Z) (k n : nat) (tri : list triple) : bool :=
  let rows := rows_of n tri in
  let mi := min_i n tri in
  let x0 := x_init n mi in
  let y0 := y_init n x0 in
  let uv := reduction_transfer Fixed n rows (jflat_of rows) x0 (one_rows n mi) (repeat (Fin 0) n) (v_init n tri) in
  match (match free_rows n mi with
         | [] => Some (x0, y0, snd uv, free_rows n mi)
         | _ => arr_passes k (arr_fuel n tri) (Fin 0) (Fin epsr) n rows (x0, y0, snd uv, free_rows n mi)
         end) with
  | Some (_, _, _, []) => true
  | _ => false
  end.

(* (epsr k n triples) -> 2 (returns, no pending row) | 1 (returns) | 0 *)
Definition entry_arr (a : sx) : sx :=
  let epsr := as_Z (arg 0 a) in let k := as_nat (arg 1 a) in let n := as_nat (arg 2 a) in let tri := as_triples (arg 3 a) in
  I (if arr_nofree_b epsr k n tri then 2 else if arr_returns_b epsr k n tri then 1 else 0).

(* (n1 n2 x labs1 labs2) -> pairs of label numbers *)
Definition entry_track (a : sx) : sx :=
  of_pairs (track_numbers (as_Zs (arg 3 a)) (as_Zs (arg 4 a))
              (track_readback (as_nat (arg 0 a)) (as_nat (arg 1 a)) (as_nats (arg 2 a)))).
