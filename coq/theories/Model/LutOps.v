(* C06 — executable model of the built-in table operations of cpmorphology.py (branchpoints,
   bridge, clean, diag, endpoints, fill, fill4, hbreak, vbreak, life, majority, remove, thicken,
   spur).  The tables and the constants of each wrapper's table_lookup call (border value, mask
   fill value, which iteration count is passed) are the regenerated [Gen.TablesC06].
   Definitions only. *)
From Coq Require Import ZArith List Bool.
From Centro Require Import Base.Sx Base.LutBits Spec.LutRule Model.Lut Gen.TablesC06.
Import ListNotations.
Open Scope Z_scope.

(* masked_image = image.astype(bool).copy(); masked_image[~mask] = fillv *)
Definition masked_of (X : grid bool) (M : option (grid bool)) (fillv : bool) : grid bool :=
  match M with
  | None => X
  | Some m => tab (length X) (length (hd [] X)) (fun p q => if rd false m p q then rd false X p q else fillv)
  end.

(* result[~mask] = image[~mask] *)
Definition restore (X : grid bool) (M : option (grid bool)) (R : grid bool) : grid bool :=
  match M with
  | None => R
  | Some m => tab (length X) (length (hd [] X)) (fun p q => if rd false m p q then rd false R p q else rd false X p q)
  end.

(* meta = (border, maskfill, mode): maskfill -1 = the wrapper ignores its mask;
   mode -2 = passes the caller's [iterations], -1 = passes nothing (None), k >= 0 = literal k *)
Definition run_table_op (T : list bool) (meta : Z * Z * Z) (dt : Z) (X : grid bool)
           (M : option (grid bool)) (iters : option nat) : option (grid bool) :=
  let '(bz, fz, mode) := meta in
  let M' := if fz <? 0 then None else M in
  let it := if mode =? -2 then iters else if mode <? 0 then None else Some (Z.to_nat mode) in
  let isb := match M' with None => dt | Some _ => 0 end in
  match table_lookup isb (masked_of X M' (negb (fz =? 0))) T (negb (bz =? 0)) it with
  | Some R => Some (restore X M' R)
  | None => None
  end.

(* spur: for i in range(iterations): for table in (spur_table_1, spur_table_2): index_lookup(..., table, 1) *)
Definition run_spur (X : grid bool) (M : option (grid bool)) (iters : option nat) : grid bool :=
  let Xm := masked_of X M false in
  let H2 := (length X + 2)%nat in
  let W2 := (length (hd [] X) + 2)%nat in
  let st0 := (argwhere1 Xm, remat H2 W2 (padded false Xm)) in
  let n := match iters with None => length (fst st0) | Some k => k end in
  let st := iter n (fun st => index_lookup H2 W2 t_spur2 (Some 1%nat) (index_lookup H2 W2 t_spur1 (Some 1%nat) st)) st0 in
  restore X M (extract X (fst st)).

Definition SPUR : Z := 13.

Definition run_op (code : Z) (dt : Z) (X : grid bool) (M : option (grid bool)) (iters : option nat)
  : option (grid bool) :=
  if code =? SPUR then Some (run_spur X M iters)
  else match nth_error gen_ops (Z.to_nat code) with
       | Some (T, meta) => run_table_op T meta dt X M iters
       | None => None
       end.

(* [code; img; mask or []; iters; dtype code] *)
Definition entry_op (x : sx) : sx :=
  let M := match as_list (arg 2 x) with [] => None | _ => Some (as_boolss (arg 2 x)) end in
  of_ogrid (run_op (as_Z (arg 0 x)) (as_Z (arg 4 x)) (as_boolss (arg 1 x)) M (as_iters (arg 3 x))).
