(* C19 — bounds-checked array-level model of _cpmorphology2.pyx:fill_labeled_holes_loop (lines
   499-584).  is_not_hole / adjacent_non_hole have n entries, to_do is the caller's scratch stack;
   the live part to_do[0 .. to_do_count) is the list [stk] (top first, to_do_count = its length) and
   the write `p_to_do[to_do_count] = jj` is checked against the capacity |to_do|.  Definitions only. *)
From Coq Require Import ZArith List Bool.
From Centro Require Import Base.ArrC19.
Import ListNotations.
Open Scope Z_scope.

Record fstate : Type := mkf { inh : list Z; adj : list Z; stk : list Z }.

(* body of `for jidx from 0 <= jidx < p_i_count[ii]` in the first walk *)
Definition f1_edge (cap lcount ii : Z) (jarr : list Z) (base : Z) (s : fstate) (jidx : Z) : option fstate :=
  do jj <- rd jarr (base + jidx);                            (* jj = p_j[p_idx[ii] + jidx] *)
  do h <- rd (inh s) jj;                                     (* p_is_not_hole[jj] *)
  if h =? 0 then
    do stop <- (if ii <=? lcount then
                  do a <- rd (adj s) jj;
                  if a =? 0 then do adj' <- wr (adj s) jj ii; Some (Some (mkf (inh s) adj' (stk s)))   (* continue *)
                  else if a =? ii then Some (Some s)                                               (* continue *)
                  else Some None
                else if lcount <? jj then Some (Some s)                                            (* continue *)
                else Some None);
    match stop with
    | Some s' => Some s'
    | None =>
        do inh' <- wr (inh s) jj 1;                          (* p_is_not_hole[jj] = 1 *)
        if zlen (stk s) <? cap                               (* p_to_do[to_do_count] = jj *)
        then Some (mkf inh' (adj s) (jj :: stk s))
        else None
    end
  else Some s.

Definition f1_pop (cap lcount : Z) (jarr idx cnt : list Z) (s : fstate) : option fstate :=
  match stk s with
  | [] => Some s
  | ii :: rest =>                                            (* ii = p_to_do[to_do_count - 1] *)
      do c <- rd cnt ii;                                     (* p_i_count[ii] *)
      do base <- rd idx ii;                                  (* p_idx[ii] *)
      foldM (f1_edge cap lcount ii jarr base) (zrange 0 c) (mkf (inh s) (adj s) rest)
  end.

Fixpoint f1_run (fuel : nat) (cap lcount : Z) (jarr idx cnt : list Z) (s : fstate) : option fstate :=
  match fuel with
  | O => Some s
  | S f => match stk s with
           | [] => Some s
           | _ => do s' <- f1_pop cap lcount jarr idx cnt s; f1_run f cap lcount jarr idx cnt s'
           end
  end.

(* second part: collect the holes that touch a non-hole, then flood the hole graph *)
Definition f2_collect (cap : Z) (s : fstate) (jj : Z) : option fstate :=
  do h <- rd (inh s) jj; do a <- rd (adj s) jj;
  if (h =? 0) && negb (a =? 0) then
    if zlen (stk s) <? cap then Some (mkf (inh s) (adj s) (jj :: stk s)) else None
  else Some s.

Definition f2_edge (cap ii : Z) (jarr : list Z) (base : Z) (s : fstate) (jidx : Z) : option fstate :=
  do jj <- rd jarr (base + jidx);
  do h <- rd (inh s) jj; do a <- rd (adj s) jj;
  if (h =? 0) && (a =? 0) then
    do ai <- rd (adj s) ii;
    do adj' <- wr (adj s) jj ai;                             (* p_adjacent_non_hole[jj] = p_adjacent_non_hole[ii] *)
    if zlen (stk s) <? cap then Some (mkf (inh s) adj' (jj :: stk s)) else None
  else Some s.

Definition f2_pop (cap : Z) (jarr idx cnt : list Z) (s : fstate) : option fstate :=
  match stk s with
  | [] => Some s
  | ii :: rest =>
      do c <- rd cnt ii; do base <- rd idx ii;
      foldM (f2_edge cap ii jarr base) (zrange 0 c) (mkf (inh s) (adj s) rest)
  end.

Fixpoint f2_run (fuel : nat) (cap : Z) (jarr idx cnt : list Z) (s : fstate) : option fstate :=
  match fuel with
  | O => Some s
  | S f => match stk s with
           | [] => Some s
           | _ => do s' <- f2_pop cap jarr idx cnt s; f2_run f cap jarr idx cnt s'
           end
  end.

Definition fill_labeled_holes_loop (fuel : nat) (cap lcount : Z) (jarr idx cnt inh0 adj0 todo0 : list Z)
  : option fstate :=
  do s1 <- f1_run fuel cap lcount jarr idx cnt (mkf inh0 adj0 todo0);
  do s2 <- foldM (f2_collect cap) (zrange 0 (zlen inh0)) (mkf (inh s1) (adj s1) []);   (* to_do_count = 0 *)
  f2_run fuel cap jarr idx cnt s2.

Definition zeros (l : list Z) : Z := zlen (filter (fun x => x =? 0) l).

(* n labels; every label's edge segment inside j, every edge target a label; the initial to_do
   entries are labels; the scratch stack can hold the initial entries plus every label still
   marked 0 in is_not_hole *)
Definition kernel_pre_fill (n cap : Z) (jarr idx cnt inh0 adj0 todo0 : list Z) : bool :=
  (zlen inh0 =? n) && (zlen adj0 =? n) && (zlen idx =? n) && (zlen cnt =? n) &&
  forallb (fun v => inb v n) jarr && forallb (fun v => inb v n) todo0 &&
  forallb (fun v => match rd idx v, rd cnt v with
                    | Some s, Some c => (0 <=? s) && (s + c <=? zlen jarr)
                    | _, _ => false
                    end) (zrange 0 n) &&
  (zlen todo0 + zeros inh0 <=? cap) && (n <=? cap).
