(* C19 — _lapjv.pyx: (1) the control skeleton of augmenting_row_reduction as far as the two scratch
   writes are concerned (p_free[nfree] = i1; nfree += 1  and  k -= 1; p_i[k] = i1), with the data-
   dependent branch outcomes supplied by an arbitrary oracle; (2) bsearch over a ragged row.
   Definitions only. *)
From Coq Require Import ZArith List Bool.
From Centro Require Import Base.ArrC19.
Import ListNotations.
Open Scope Z_scope.

(* outcome of one pass through the while body after `k += 1`:
   Requeue = `i1 != n` and `u1 + eps < u2`  (k -= 1; p_i[k] = i1)
   Free    = `i1 != n` and not strict        (p_free[nfree] = i1; nfree += 1)
   Done    = `i1 == n` *)
Inductive arr_branch : Type := Requeue | Free | Done.

(* ii : the work list p_i (n_i entries), free : the scratch of max(y)+1 entries.  The oracle list is
   consumed one entry per iteration; when it runs out the loop is cut (state returned). *)
Fixpoint arr_skeleton (oracle : list arr_branch) (n_i : Z) (k nfree : Z) (ii free : list Z)
  : option (Z * Z * list Z * list Z) :=
  match oracle with
  | [] => Some (k, nfree, ii, free)
  | b :: t =>
      if k <? n_i then
        do i <- rd ii k;                                   (* i = p_i[k] *)
        let k1 := k + 1 in
        match b with
        | Requeue => do ii' <- wr ii (k1 - 1) i; arr_skeleton t n_i (k1 - 1) nfree ii' free
        | Free => do free' <- wr free nfree i; arr_skeleton t n_i k1 (nfree + 1) ii free'
        | Done => arr_skeleton t n_i k1 nfree ii free
        end
      else Some (k, nfree, ii, free)
  end.

(* free = np.zeros(np.max(y)+1): sized by the largest entry of y *)
Definition kernel_pre_arr_free (n_i maxy : Z) : bool := n_i <=? maxy + 1.

(* bsearch(ptr, count, val) with ptr = base of the row inside the ragged array *)
Fixpoint bsearch (fuel : nat) (a : list Z) (base low high val : Z) : option (option Z) :=
  match fuel with
  | O => Some None
  | S f =>
      if low <=? high then
        let mid := (low + high) / 2 in
        do x <- rd a (base + mid);
        if val =? x then Some (Some mid)
        else if x <? val then bsearch f a base (mid + 1) high val
        else bsearch f a base low (mid - 1) val
      else Some None              (* falls off the loop: the C function returns an undefined value *)
  end.

(* full preconditions of the three kernels on the ragged arrays, as monitored on recorded calls:
   every listed row has its segment inside jj/c, every column below the dual arrays, y maps into
   rows or n, every processed row has at least one candidate *)
Definition ragged_ok (rows : list Z) (idx count : list Z) (jjlen clen : Z) : bool :=
  forallb (fun i => inb i (zlen idx) && inb i (zlen count) &&
     match rd idx i, rd count i with
     | Some s, Some c => (0 <=? s) && (1 <=? c) && (s + c <=? jjlen) && (s + c <=? clen)
     | _, _ => false
     end) rows.
Definition kernel_pre_arr (n : Z) (ii jj idx count y : list Z) (xlen ulen vlen clen : Z) : bool :=
  let maxy := fold_right Z.max 0 y in
  kernel_pre_arr_free (zlen ii) maxy &&
  ragged_ok ii idx count (zlen jj) clen && forallb (fun i => inb i n) ii &&
  forallb (fun j => inb j (zlen y) && inb j vlen) jj &&
  forallb (fun r => (0 <=? r) && (r <=? n)) y &&
  (n <=? zlen idx) && (n <=? zlen count) && (n <=? xlen) && (n <=? ulen) &&
  (* a row pushed back onto the work list (y[j] < n) must itself be well formed *)
  ragged_ok (filter (fun r => r <? n) y) idx count (zlen jj) clen.

(* ================================================================== round 2: the raw-array reads *)
Definition chk (k len : Z) : option unit := if inb k len then Some tt else None.

(* ------------------------------------------------------------------ reduction_transfer (as written:
   the column read is p_j[j_idx], NOT p_j[p_idx[i] + j_idx] - finding F1 - so the model reads
   jj[j_idx]).  u, v, c are float arrays: only their lengths matter; which of the candidates is the
   minimum decides VALUES only, every index below is formed whatever the comparisons say (the two
   read-modify-writes v[j1], u[i] happen under `if j_at_min != -1`: checked always = superset). *)
Definition rt_cand (jj : list Z) (vlen clen base j1 : Z) (_ : unit) (j_idx : Z) : option unit :=
  do j_temp <- rd jj j_idx;                                  (* j_temp = p_j[j_idx] *)
  if j_temp =? j1 then Some tt
  else do _ <- chk (base + j_idx) clen; chk j_temp vlen.     (* p_c[j_idx] - v_base[j_temp] *)

Definition rt_row (jj idx count x : list Z) (ulen vlen clen : Z) (_ : unit) (i : Z) : option unit :=
  do j1 <- rd x i;                                           (* j1 = p_x[i] *)
  do cnt <- rd count i;
  do base <- rd idx i;
  do _ <- foldM (rt_cand jj vlen clen base j1) (zrange 0 cnt) tt;
  do _ <- chk j1 vlen;                                       (* v_base[j1] -= ... *)
  chk i ulen.                                                (* p_u[i] = min_u *)

Definition reduction_transfer (ii jj idx count x : list Z) (ulen vlen clen : Z) : option unit :=
  foldM (rt_row jj idx count x ulen vlen clen) ii tt.        (* i = p_i[iii] for every iii *)

Definition kernel_pre_rt (ii jj idx count x : list Z) (ulen vlen clen : Z) : bool :=
  forallb (fun j => inb j vlen) jj &&
  forallb (fun i => inb i ulen &&
     match rd x i, rd count i, rd idx i with
     | Some j1, Some c, Some s => inb j1 vlen && (0 <=? s) && (0 <=? c) && (c <=? zlen jj) && (s + c <=? clen)
     | _, _, _ => false
     end) ii.

(* ------------------------------------------------------------------ augmenting_row_reduction, all reads.
   The float comparisons are an oracle: per candidate column  B1 (temp < u1), B2 (temp < u2) or B0;
   per row whether `u1 + eps < u2`.  j1 / j2 are C locals without initialiser: [None] until
   assigned; USING an unassigned one as an index is an error of the model.  For finite costs the
   first candidate of a row always answers B1 (temp < +inf), the second B1 or B2, and a row with a
   single candidate is strict (u2 = +inf): [row_oracle_ok]. *)
Inductive cmp3 : Type := B1 | B2 | B0.

Fixpoint arr_scan (jj : list Z) (vlen clen base : Z) (ks : list Z) (os : list cmp3) (j1 j2 : option Z)
  : option (option Z * option Z) :=
  match ks, os with
  | [], _ => Some (j1, j2)
  | _, [] => Some (j1, j2)
  | k :: kt, o :: ot =>
      do j <- rd jj (base + k);                              (* j = p_j[jjj] *)
      do _ <- chk (base + k) clen;                           (* p_c[jjj] *)
      do _ <- chk j vlen;                                    (* p_v_base[j] *)
      match o with
      | B1 => arr_scan jj vlen clen base kt ot (Some j) j1   (* j2 = j1; j1 = j *)
      | B2 => arr_scan jj vlen clen base kt ot j1 (Some j)
      | B0 => arr_scan jj vlen clen base kt ot j1 j2
      end
  end.

Definition use (o : option Z) : option Z := o.               (* reading an unassigned local = None *)

Record arrst : Type := mkarrst { a_k : Z; a_nfree : Z; a_ii : list Z; a_free : list Z; a_x : list Z; a_y : list Z }.

(* the oracle of one row is what finite costs allow *)
Definition row_oracle_ok (cnt : Z) (o : list cmp3 * bool) : bool :=
  (zlen (fst o) =? cnt) &&
  match fst o with
  | [] => false
  | [B1] => snd o
  | B1 :: (B1 | B2) :: _ => true
  | _ => false
  end.

(* one pass through the while body; [Some None] = the oracle entry is one that finite costs cannot
   produce for this row: the run is cut there (outside the domain, nothing further is claimed) *)
Definition arr_iter (n : Z) (jj idx count : list Z) (vlen clen : Z) (s : arrst) (o : list cmp3 * bool)
  : option (option arrst) :=
  let '(os, strict) := o in
  do i <- rd (a_ii s) (a_k s);                               (* i = p_i[k]; k += 1 *)
  let k1 := a_k s + 1 in
  do n_j <- rd count i;
  do base <- rd idx i;
  if negb (row_oracle_ok n_j o) then Some None else
  do jp <- arr_scan jj vlen clen base (zrange 0 n_j) os None None;
  let '(j1o, j2o) := jp in
  do j1 <- use j1o;
  do i1 <- rd (a_y s) j1;                                    (* i1 = p_y_base[j1] *)
  do sel2 <- (if strict then do _ <- chk j1 vlen; Some (j1, i1)      (* p_v_base[j1] = ... *)
              else if negb (i1 =? n)
                   then do j2 <- use j2o; do i2 <- rd (a_y s) j2; Some (j2, i2)   (* j1 = j2; i1 = p_y_base[j1] *)
                   else Some (j1, i1));
  let '(j1', i1') := sel2 in
  do s1 <- (if negb (i1' =? n) then
              if strict then do ii' <- wr (a_ii s) (k1 - 1) i1';           (* k -= 1; p_i[k] = i1 *)
                             Some (mkarrst (k1 - 1) (a_nfree s) ii' (a_free s) (a_x s) (a_y s))
              else do f' <- wr (a_free s) (a_nfree s) i1';                 (* p_free[nfree] = i1 *)
                   Some (mkarrst k1 (a_nfree s + 1) (a_ii s) f' (a_x s) (a_y s))
            else Some (mkarrst k1 (a_nfree s) (a_ii s) (a_free s) (a_x s) (a_y s)));
  do x' <- wr (a_x s1) i j1';                                (* p_x_base[i] = j1 *)
  do y' <- wr (a_y s1) j1' i;                                (* p_y_base[j1] = i *)
  Some (Some (mkarrst (a_k s1) (a_nfree s1) (a_ii s1) (a_free s1) x' y')).

Fixpoint arr_run (n n_i : Z) (jj idx count : list Z) (vlen clen : Z) (oracle : list (list cmp3 * bool)) (s : arrst)
  : option arrst :=
  match oracle with
  | [] => Some s
  | o :: t => if a_k s <? n_i
              then do r <- arr_iter n jj idx count vlen clen s o;
                   match r with
                   | None => Some s
                   | Some s' => arr_run n n_i jj idx count vlen clen t s'
                   end
              else Some s
  end.

(* free = zeros(max(y)+1), k = nfree = 0 *)
Definition arr_init (ii x y : list Z) : arrst :=
  mkarrst 0 0 ii (repeat 0 (Z.to_nat (fold_right Z.max 0 y + 1))) x y.

(* ------------------------------------------------------------------ augment, the closing loop
   `for i in range(n): j = x[i]; jidx = bsearch(row i, j); u[i] = c[idx[i] + jidx] - v[j]` *)
Definition aug_final_row (fuel : nat) (jj idx count x : list Z) (ulen vlen clen : Z) (_ : unit) (i : Z)
  : option unit :=
  do j <- rd x i;
  do base <- rd idx i;
  do cnt <- rd count i;
  do r <- bsearch fuel jj base 0 (cnt - 1) j;
  match r with
  | None => None                                             (* undefined return value used as an index *)
  | Some jidx => do _ <- chk (base + jidx) clen; do _ <- chk j vlen; chk i ulen
  end.
Definition aug_final (fuel : nat) (n : Z) (jj idx count x : list Z) (ulen vlen clen : Z) : option unit :=
  foldM (aug_final_row fuel jj idx count x ulen vlen clen) (zrange 0 n) tt.

(* rows strictly increasing, inside jj / c, columns below n *)
Definition row_sorted (jj : list Z) (s c : Z) : bool :=
  forallb (fun k => match rd jj (s + k), rd jj (s + k + 1) with
                    | Some a, Some b => a <? b
                    | _, _ => false
                    end) (zrange 0 (c - 1)).
Definition row_has (jj : list Z) (s c j : Z) : bool :=
  existsb (fun k => match rd jj (s + k) with Some a => a =? j | None => false end) (zrange 0 c).
Definition rows_ok (n : Z) (jj idx count : list Z) (clen : Z) : bool :=
  (n <=? zlen idx) && (n <=? zlen count) &&
  forallb (fun i => match rd idx i, rd count i with
                    | Some s, Some c => (0 <=? s) && (1 <=? c) && (s + c <=? zlen jj) && (s + c <=? clen) &&
                                        row_sorted jj s c
                    | _, _ => false
                    end) (zrange 0 n).
(* at entry of augment: rows well formed, every assigned pair (i, x[i]) / (y[j], j) is listed, the
   unassigned rows ii are rows *)
Definition kernel_pre_augment (n : Z) (ii jj idx count x y : list Z) (ulen vlen clen : Z) : bool :=
  rows_ok n jj idx count clen && forallb (fun j => inb j n) jj &&
  (zlen x =? n) && (zlen y =? n) && (n <=? ulen) && (n <=? vlen) &&
  forallb (fun i => inb i n) ii &&
  forallb (fun j => match rd y j with
                    | Some i => (i =? n) || (inb i n && match rd idx i, rd count i with
                                                        | Some s, Some c => row_has jj s c j
                                                        | _, _ => false end)
                    | None => false end) (zrange 0 n) &&
  forallb (fun i => match rd x i with Some j => (0 <=? j) && (j <=? n) | None => false end) (zrange 0 n).
