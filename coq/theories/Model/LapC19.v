(* C19 — _lapjv.pyx: (1) the control skeleton of augmenting_row_reduction as far as the two scratch
   writes are concerned (p_free[nfree] = i1; nfree += 1  and  k -= 1; p_i[k] = i1), with the data-
   dependent branch outcomes supplied by an arbitrary oracle; (2) bsearch over a ragged row.
   Definitions only. *)
From Coq Require Import ZArith List Bool.
From Centro Require Import Base.ArrC19.
Import ListNotations.
Open Scope Z_scope.

(* outcome of one pass through the while body after `k += 1`:
   Requeue = `i1 != n` and `u1 + eps < u2`  (k -= 1; p_i[k] = i1)
   Free    = `i1 != n` and not strict        (p_free[nfree] = i1; nfree += 1)
   Done    = `i1 == n` *)
Inductive arr_branch : Type := Requeue | Free | Done.

(* ii : the work list p_i (n_i entries), free : the scratch of max(y)+1 entries.  The oracle list is
   consumed one entry per iteration; when it runs out the loop is cut (state returned). *)
Fixpoint arr_skeleton (oracle : list arr_branch) (n_i : Z) (k nfree : Z) (ii free : list Z)
  : option (Z * Z * list Z * list Z) :=
  match oracle with
  | [] => Some (k, nfree, ii, free)
  | b :: t =>
      if k <? n_i then
        do i <- rd ii k;                                   (* i = p_i[k] *)
        let k1 := k + 1 in
        match b with
        | Requeue => do ii' <- wr ii (k1 - 1) i; arr_skeleton t n_i (k1 - 1) nfree ii' free
        | Free => do free' <- wr free nfree i; arr_skeleton t n_i k1 (nfree + 1) ii free'
        | Done => arr_skeleton t n_i k1 nfree ii free
        end
      else Some (k, nfree, ii, free)
  end.

(* free = np.zeros(np.max(y)+1): sized by the largest entry of y *)
Definition kernel_pre_arr_free (n_i maxy : Z) : bool := n_i <=? maxy + 1.

(* bsearch(ptr, count, val) with ptr = base of the row inside the ragged array *)
Fixpoint bsearch (fuel : nat) (a : list Z) (base low high val : Z) : option (option Z) :=
  match fuel with
  | O => Some None
  | S f =>
      if low <=? high then
        let mid := (low + high) / 2 in
        do x <- rd a (base + mid);
        if val =? x then Some (Some mid)
        else if x <? val then bsearch f a base (mid + 1) high val
        else bsearch f a base low (mid - 1) val
      else Some None              (* falls off the loop: the C function returns an undefined value *)
  end.

(* full preconditions of the three kernels on the ragged arrays, as monitored on recorded calls:
   every listed row has its segment inside jj/c, every column below the dual arrays, y maps into
   rows or n, every processed row has at least one candidate *)
Definition ragged_ok (rows : list Z) (idx count : list Z) (jjlen clen : Z) : bool :=
  forallb (fun i => inb i (zlen idx) && inb i (zlen count) &&
     match rd idx i, rd count i with
     | Some s, Some c => (0 <=? s) && (1 <=? c) && (s + c <=? jjlen) && (s + c <=? clen)
     | _, _ => false
     end) rows.
Definition kernel_pre_arr (n : Z) (ii jj idx count y : list Z) (xlen ulen vlen clen : Z) : bool :=
  let maxy := fold_right Z.max 0 y in
  kernel_pre_arr_free (zlen ii) maxy &&
  ragged_ok ii idx count (zlen jj) clen &&
  forallb (fun j => inb j (zlen y) && inb j vlen) jj &&
  forallb (fun r => (0 <=? r) && (r <=? n)) y &&
  (n <=? zlen idx) && (n <=? zlen count) && (n <=? xlen) && (n <=? ulen) &&
  (* a row pushed back onto the work list (y[j] < n) must itself be well formed *)
  ragged_ok (filter (fun r => r <? n) y) idx count (zlen jj) clen.
