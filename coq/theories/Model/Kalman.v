(* C09 — executable model of centrosome/filter.py: kalman_filter, KalmanState.map_frames /
   add_features / deep_copy, dot_n, inv_n, det_n, cofactor_n, parity, permutations, as written,
   over canonical rationals [Qc] (QArith.Qcanon: numerator/denominator in lowest terms, Leibniz
   equality, every operation reduces — the semantics of Python's Fraction).  Float rounding is
   modelled, not verified.  Definitions only; proofs are in Proofs/Kalman*.v.

   Representation choices (the only departures from the arrays of the code):
   * the sentinel -1 of [old_indices] and of [reverse_indices] is [None]; feature indices are nat;
   * an (N, S) array is a list of N rows; an (N, S, S) array a list of N matrices;
   * state_noise / state_noise_idx stay two parallel lists, filtered by the same boolean mask. *)
From Coq Require Import ZArith List Bool QArith Qcanon.
From Centro Require Import Base.Sx Gen.ConstsC09.
Import ListNotations.
Open Scope Qc_scope.

Definition vec := list Qc.
Definition mat := list (list Qc).

(* ------------------------------------------------------------------ NumPy idioms *)
Definition map2 {A B C} (f : A -> B -> C) (l1 : list A) (l2 : list B) : list C :=
  map (fun p => f (fst p) (snd p)) (combine l1 l2).
(* l[idx] for an integer index array *)
Definition gather {A} (l : list A) (idx : list nat) (d : A) : list A := map (fun i => nth i l d) idx.
(* l[mask] for a boolean mask *)
Fixpoint mask {A} (m : list bool) (l : list A) : list A :=
  match m, l with
  | b :: m', a :: l' => if b then a :: mask m' l' else mask m' l'
  | _, _ => []
  end.
Fixpoint upd {A} (l : list A) (k : nat) (v : A) : list A :=
  match l, k with
  | [], _ => []
  | _ :: t, O => v :: t
  | a :: t, S k' => a :: upd t k' v
  end.
(* base[idx] = vals  (sequential writes: the last one wins) *)
Definition scatter {A} (base : list A) (idx : list nat) (vals : list A) : list A :=
  fold_left (fun b p => upd b (fst p) (snd p)) (combine idx vals) base.
Definition is_some {A} (o : option A) : bool := match o with Some _ => true | None => false end.
(* x[x != -1] *)
Fixpoint somes {A} (l : list (option A)) : list A :=
  match l with [] => [] | Some a :: t => a :: somes t | None :: t => somes t end.

(* ------------------------------------------------------------------ small-matrix algebra *)
(* The field operations with shortcuts for the operands 0 and 1 (most entries of the motion
   models' matrices): extensionally equal to Qcmult / Qcplus / Qcminus (Proofs/KalmanArith.v:
   qmul_eq, qadd_eq, qsub_eq) but they skip the gcd that every Qc operation performs. *)
Definition is0 (x : Qc) : bool := match Qnum (this x) with Z0 => true | _ => false end.
Definition is1 (x : Qc) : bool :=
  match Qnum (this x), Qden (this x) with Zpos xH, xH => true | _, _ => false end.
Definition qmul (x y : Qc) : Qc :=
  if is0 x then 0 else if is0 y then 0 else if is1 x then y else if is1 y then x else x * y.
Definition qadd (x y : Qc) : Qc := if is0 x then y else if is0 y then x else x + y.
Definition qsub (x y : Qc) : Qc := if is0 y then x else x - y.
Definition qsum (l : list Qc) : Qc := fold_left qadd l 0.
Definition qprod (l : list Qc) : Qc := fold_left qmul l 1.
Definition ncols (m : mat) : nat := length (hd [] m).
Definition col (j : nat) (m : mat) : vec := map (fun r => nth j r 0) m.
Definition mtrans (m : mat) : mat := map (fun j => col j m) (seq 0 (ncols m)).
(* np.sum(x[i, k] * y[k, j], axis k) *)
Definition mmul (x y : mat) : mat :=
  map (fun r => map (fun j => qsum (map2 qmul r (col j y))) (seq 0 (ncols y))) x.
Definition madd (x y : mat) : mat := map2 (map2 qadd) x y.
Definition msub (x y : mat) : mat := map2 (map2 qsub) x y.
Definition vadd (x y : vec) : vec := map2 qadd x y.
Definition vsub (x y : vec) : vec := map2 qsub x y.
(* v[:, np.newaxis] and m[:, 0] *)
Definition colm (v : vec) : mat := map (fun x => [x]) v.
Definition uncol (m : mat) : vec := map (fun r => nth 0 r 0) m.
(* matrix times vector as the code does it: dot_n(M, v[:, :, newaxis])[:, :, 0] *)
Definition mvec (m : mat) (v : vec) : vec := uncol (mmul m (colm v)).

(* dot_n: the three broadcasting cases that occur *)
Definition dot_n_23 (x : mat) (ys : list mat) : list mat := map (fun y => mmul x y) ys.
Definition dot_n_32 (xs : list mat) (y : mat) : list mat := map (fun x => mmul x y) xs.
Definition dot_n_33 (xs ys : list mat) : list mat := map2 mmul xs ys.

(* permutations(x): lexical order of the index permutations *)
Fixpoint removes {A} (l : list A) : list (A * list A) :=
  match l with
  | [] => []
  | a :: t => (a, t) :: map (fun p => (fst p, a :: snd p)) (removes t)
  end.
Fixpoint perms_fuel {A} (n : nat) (l : list A) : list (list A) :=
  match n with
  | O => [[]]
  | S n' => flat_map (fun p => map (cons (fst p)) (perms_fuel n' (snd p))) (removes l)
  end.
Definition permutations {A} (l : list A) : list (list A) := perms_fuel (length l) l.

(* parity(x): +1 / -1.  The code counts (cycle length - 1) over the cycles of the inverse
   permutation; the model counts inversions — the same function on permutations (tied by the
   correspondence on every permutation of up to 5 elements). *)
Fixpoint inversions (l : list nat) : nat :=
  match l with
  | [] => O
  | a :: t => (length (filter (fun b => Nat.ltb b a) t) + inversions t)%nat
  end.
Definition sign_of (even : bool) : Qc := if even then 1 else - (1).
Definition parity (l : list nat) : Qc := sign_of (Nat.even (inversions l)).

Definition entry (m : mat) (i j : nat) : Qc := nth j (nth i m []) 0.

(* det_n for one matrix *)
Definition det1 (m : mat) : Qc :=
  match length m with
  | 1%nat => entry m 0 0
  | n => qsum (map (fun p => qmul (qprod (map (fun i => entry m i (nth i p O)) (seq 0 n))) (parity p))
                   (permutations (seq 0 n)))
  end.

Fixpoint remove_nth {A} (k : nat) (l : list A) : list A :=
  match l, k with
  | [], _ => []
  | _ :: t, O => t
  | a :: t, S k' => a :: remove_nth k' t
  end.
(* cofactor_n(x, i, j): determinant of the minor without row i and column j (unsigned) *)
Definition cofactor1 (m : mat) (i j : nat) : Qc := det1 (map (remove_nth j) (remove_nth i m)).
(* inv_n for one matrix: c[i][j] = cofactor(j, i) * (1 - ((i + j) % 2) * 2) / det *)
Definition inv1 (m : mat) : mat :=
  let n := length m in
  let d := det1 m in
  map (fun i => map (fun j => qmul (cofactor1 m j i) (sign_of (Nat.even (i + j))) / d) (seq 0 n)) (seq 0 n).
Definition det_n (xs : list mat) : list Qc := map det1 xs.
Definition inv_n (xs : list mat) : list mat := map inv1 xs.

(* scipy.ndimage.variance(values, labels, index): population variance of the values whose
   label is k *)
Definition select (vals : list Qc) (labels : list nat) (k : nat) : list Qc :=
  map snd (filter (fun p => Nat.eqb (fst p) k) (combine labels vals)).
Definition qlen (l : list Qc) : Qc := Q2Qc (inject_Z (Z.of_nat (length l))).
Definition var1 (l : list Qc) : Qc :=
  let m := qsum l / qlen l in
  qsum (map (fun x => (x - m) * (x - m)) l) / qlen l.
Definition variance (vals : list Qc) (labels : list nat) (k : nat) : Qc := var1 (select vals labels k).

(* ------------------------------------------------------------------ KalmanState *)
Record kstate : Type := mkK
  { om : mat;               (* observation_matrix *)
    tm : mat;               (* translation_matrix *)
    svec : list vec;        (* state_vec *)
    scov : list mat;        (* state_cov *)
    nvar : list vec;        (* noise_var *)
    snoise : list vec;      (* state_noise *)
    sidx : list nat }.      (* state_noise_idx *)

Definition fresh (H A : mat) : kstate := mkK H A [] [] [] [] [].
Definition state_len (s : kstate) : nat := ncols (om s).
Definition obs_len (s : kstate) : nat := length (om s).
Definition deep_copy (s : kstate) : kstate :=
  mkK (om s) (tm s) (svec s) (scov s) (nvar s) (snoise s) (sidx s).

Definition map_frames (s : kstate) (old_indices : list nat) : kstate :=
  let nfeatures := length old_indices in
  let noldfeatures := length (svec s) in
  if Nat.ltb 0 nfeatures then
    let sv := gather (svec s) old_indices [] in
    let sc := gather (scov s) old_indices [] in
    let nv := gather (nvar s) old_indices [] in
    if Nat.ltb 0 (length (sidx s)) then
      let reverse_indices := scatter (repeat None noldfeatures) old_indices (map Some (seq 0 nfeatures)) in
      let idx1 := gather reverse_indices (sidx s) None in
      mkK (om s) (tm s) sv sc nv (mask (map is_some idx1) (snoise s)) (somes idx1)
    else mkK (om s) (tm s) sv sc nv (snoise s) (sidx s)
  else s.

Definition add_features (s : kstate) (kept_indices new_indices : list nat)
  (new_state_vec : list vec) (new_state_cov : list mat) (new_noise_var : list vec) : kstate :=
  let nfeatures := (length kept_indices + length new_indices)%nat in
  let sl := state_len s in
  let v0 := repeat (repeat 0 sl) nfeatures in
  let c0 := repeat (repeat (repeat 0 sl) sl) nfeatures in
  let has_kept := Nat.ltb 0 (length kept_indices) in
  let v1 := if has_kept then scatter v0 kept_indices (svec s) else v0 in
  let c1 := if has_kept then scatter c0 kept_indices (scov s) else c0 in
  let n1 := if has_kept then scatter v0 kept_indices (nvar s) else v0 in
  let idx := if has_kept && Nat.ltb 0 (length (sidx s)) then gather kept_indices (sidx s) O else sidx s in
  let has_new := Nat.ltb 0 (length new_indices) in
  let v2 := if has_new then scatter v1 new_indices new_state_vec else v1 in
  let c2 := if has_new then scatter c1 new_indices new_state_cov else c1 in
  let n2 := if has_new then scatter n1 new_indices new_noise_var else n1 in
  mkK (om s) (tm s) v2 c2 n2 (snoise s) idx.

Definition diag (v : vec) : mat :=
  map (fun i => map (fun j => if Nat.eqb i j then nth i v 0 else 0) (seq 0 (length v))) (seq 0 (length v)).
(* cov_vec = SMALL / dot(H^T, ones); cov_vec[~isfinite] = LARGE *)
Definition init_cov_vec (H : mat) : vec :=
  map (fun row => let d := qsum row in if Qc_eq_dec d 0 then LARGE_KALMAN_COV else SMALL_KALMAN_COV / d)
      (mtrans H).

(* the measurement update on the stacked arrays (lines 1139-1179), returning
   (state_vec, state_cov, state_noise) *)
Definition update_stack (ks : kstate) (coordinates : list vec) (qm rm : list mat)
  : list vec * list mat * list vec :=
  let observation_matrix_t := mtrans (om ks) in
  let state_vec := map uncol (dot_n_23 (tm ks) (map colm (svec ks))) in
  let state_cov := map2 madd (dot_n_32 (dot_n_23 (tm ks) (scov ks)) (mtrans (tm ks))) qm in
  let kalman_gain_numerator := dot_n_32 state_cov observation_matrix_t in
  let kalman_gain_denominator :=
    map2 madd (dot_n_32 (dot_n_23 (om ks) state_cov) observation_matrix_t) rm in
  let kalman_gain_denominator := inv_n kalman_gain_denominator in
  let kalman_gain := dot_n_33 kalman_gain_numerator kalman_gain_denominator in
  let difference := map2 vsub coordinates (map uncol (dot_n_23 (om ks) (map colm state_vec))) in
  let state_noise := map uncol (dot_n_33 kalman_gain (map colm difference)) in
  let state_vec' := map2 vadd state_vec state_noise in
  let state_cov' := map2 msub state_cov (dot_n_33 (dot_n_32 kalman_gain (om ks)) state_cov) in
  (state_vec', state_cov', state_noise).

Definition kalman_filter (s : kstate) (old_indices : list (option nat)) (coordinates : list vec)
  (q r : list mat) : kstate :=
  let n := length old_indices in
  if Nat.eqb n 0 then fresh (om s) (tm s) else
  let matching := map is_some old_indices in
  let new_indices := mask (map negb matching) (seq 0 n) in
  let retained_indices := mask matching (seq 0 n) in
  let new_coords := gather coordinates new_indices [] in
  let observation_matrix_t := mtrans (om s) in
  let s2 :=
    if Nat.ltb 0 (length retained_indices) then
      let ks := deep_copy s in
      let coords := gather coordinates retained_indices [] in
      let ks := map_frames ks (somes (gather old_indices retained_indices None)) in
      let '(state_vec, state_cov, state_noise) := update_stack ks coords (mask matching q) (mask matching r) in
      let idx := seq 0 (length state_noise) in
      let all_state_noise := snoise ks ++ state_noise in
      let all_state_noise_idx := sidx ks ++ idx in
      let noise_var :=
        map (fun k => map (fun i => variance (map (fun row => nth i row 0) all_state_noise) all_state_noise_idx k)
                          (seq 0 (state_len ks))) idx in
      mkK (om ks) (tm ks) state_vec state_cov noise_var all_state_noise all_state_noise_idx
    else fresh (om s) (tm s) in
  if Nat.ltb 0 (length new_coords) then
    let state_vec := map uncol (dot_n_23 observation_matrix_t (map colm new_coords)) in
    let nnew_features := length new_indices in
    let cov_matrix := diag (init_cov_vec (om s)) in
    let state_cov := repeat cov_matrix nnew_features in
    let noise_var := repeat (repeat 1 (state_len s2)) nnew_features in
    add_features s2 retained_indices new_indices state_vec state_cov noise_var
  else s2.

(* a frame = (old_indices, coordinates, q, r) *)
Definition frame : Type := (list (option nat) * list vec * list mat * list mat)%type.
Definition kf (s : kstate) (f : frame) : kstate :=
  let '(o, c, q, r) := f in kalman_filter s o c q r.
(* the states after each frame *)
Fixpoint run_trace (s : kstate) (fs : list frame) : list kstate :=
  match fs with [] => [] | f :: t => let s' := kf s f in s' :: run_trace s' t end.
Definition run (s : kstate) (fs : list frame) : kstate := fold_left kf fs s.

(* ------------------------------------------------------------------ properties read by callers *)
(* KalmanState.predicted_state_vec / predicted_obs_vec (Welch eqn 1.9 and H x^-) *)
Definition predicted_state_vec (s : kstate) : list vec := map uncol (dot_n_23 (tm s) (map colm (svec s))).
Definition predicted_obs_vec (s : kstate) : list vec :=
  map uncol (dot_n_23 (om s) (map colm (predicted_state_vec s))).

(* kalman_filter without the noise-variance estimate (noise_var := empty rows): every other field
   is the same (Proofs/KalmanLite.v: lite_agrees) — used to replay LONG tracks, whose exact
   variance over the own history (fractions with unrelated denominators) is too slow *)
Definition kalman_filter_lite (s : kstate) (old_indices : list (option nat)) (coordinates : list vec)
  (q r : list mat) : kstate :=
  let n := length old_indices in
  if Nat.eqb n 0 then fresh (om s) (tm s) else
  let matching := map is_some old_indices in
  let new_indices := mask (map negb matching) (seq 0 n) in
  let retained_indices := mask matching (seq 0 n) in
  let new_coords := gather coordinates new_indices [] in
  let observation_matrix_t := mtrans (om s) in
  let s2 :=
    if Nat.ltb 0 (length retained_indices) then
      let ks := deep_copy s in
      let coords := gather coordinates retained_indices [] in
      let ks := map_frames ks (somes (gather old_indices retained_indices None)) in
      let '(state_vec, state_cov, state_noise) := update_stack ks coords (mask matching q) (mask matching r) in
      let idx := seq 0 (length state_noise) in
      let all_state_noise := snoise ks ++ state_noise in
      let all_state_noise_idx := sidx ks ++ idx in
      let noise_var := map (fun _ : nat => @nil Qc) idx in
      mkK (om ks) (tm ks) state_vec state_cov noise_var all_state_noise all_state_noise_idx
    else fresh (om s) (tm s) in
  if Nat.ltb 0 (length new_coords) then
    let state_vec := map uncol (dot_n_23 observation_matrix_t (map colm new_coords)) in
    let nnew_features := length new_indices in
    let cov_matrix := diag (init_cov_vec (om s)) in
    let state_cov := repeat cov_matrix nnew_features in
    let noise_var := repeat (repeat 1 (state_len s2)) nnew_features in
    add_features s2 retained_indices new_indices state_vec state_cov noise_var
  else s2.

Definition kf_lite (s : kstate) (f : frame) : kstate :=
  let '(o, c, q, r) := f in kalman_filter_lite s o c q r.
Fixpoint run_trace_lite (s : kstate) (fs : list frame) : list kstate :=
  match fs with [] => [] | f :: t => let s' := kf_lite s f in s' :: run_trace_lite s' t end.

(* ------------------------------------------------------------------ wire format *)
Definition as_Qc (x : sx) : Qc := Q2Qc (as_Z (arg 0 x) # Z.to_pos (as_Z (arg 1 x))).
Definition of_Qc (q : Qc) : sx := L [I (Qnum (this q)); I (Zpos (Qden (this q)))].
Definition as_vec (x : sx) : vec := map as_Qc (as_list x).
Definition as_mat (x : sx) : mat := map as_vec (as_list x).
Definition of_vec (v : vec) : sx := L (map of_Qc v).
Definition of_mat (m : mat) : sx := L (map of_vec m).
Definition as_old (x : sx) : list (option nat) :=
  map (fun y => let z := as_Z y in if (z <? 0)%Z then None else Some (Z.to_nat z)) (as_list x).
Definition as_frame (x : sx) : frame :=
  (as_old (arg 0 x), map as_vec (as_list (arg 1 x)), map as_mat (as_list (arg 2 x)),
   map as_mat (as_list (arg 3 x))).
Definition of_state (s : kstate) : sx :=
  L [L (map of_vec (svec s)); L (map of_mat (scov s)); L (map of_vec (nvar s));
     L (map of_vec (snoise s)); L (map of_nat (sidx s))].
Definition int_mat (m : list (list Z)) : mat := map (map (fun z => Q2Qc (inject_Z z))) m.
(* frames whose old_indices are -1 or a duplicate-free selection of valid old features *)
Fixpoint nodupb (l : list nat) : bool :=
  match l with [] => true | a :: t => negb (existsb (Nat.eqb a) t) && nodupb t end.
Definition valid_frameb (nold : nat) (f : frame) : bool :=
  let '(o, c, q, r) := f in
  let n := length o in
  Nat.eqb (length c) n && Nat.eqb (length q) n && Nat.eqb (length r) n &&
  forallb (fun i => Nat.ltb i nold) (somes o) && nodupb (somes o).
Fixpoint valid_framesb (nold : nat) (fs : list frame) : bool :=
  match fs with
  | [] => true
  | f :: t => valid_frameb nold f && valid_framesb (length (fst (fst (fst f)))) t
  end.
Definition old_has_bad (x : sx) : bool :=
  existsb (fun y => (as_Z y <? -1)%Z) (as_list x).

(* entry_run [H; A; frames]: the trace of states of kalman_filter from the model's initial
   (empty) state; L [] when a frame is not valid (the code would raise or alias) *)
Definition entry_run (x : sx) : sx :=
  let H := as_mat (arg 0 x) in
  let A := as_mat (arg 1 x) in
  let fsx := as_list (arg 2 x) in
  let fs := map as_frame fsx in
  if existsb (fun f => old_has_bad (arg 0 f)) fsx || negb (valid_framesb 0 fs) then L []
  else L [L (map of_state (run_trace (fresh H A) fs))].

(* entry_run_lite [H; A; frames]: states without noise_var, plus the predicted state / observation
   vectors: per frame [state_vec; state_cov; state_noise; state_noise_idx; predicted_state_vec; predicted_obs_vec] *)
Definition of_state_lite (s : kstate) : sx :=
  L [L (map of_vec (svec s)); L (map of_mat (scov s)); L (map of_vec (snoise s)); L (map of_nat (sidx s));
     L (map of_vec (predicted_state_vec s)); L (map of_vec (predicted_obs_vec s))].
Definition entry_run_lite (x : sx) : sx :=
  let H := as_mat (arg 0 x) in
  let A := as_mat (arg 1 x) in
  let fsx := as_list (arg 2 x) in
  let fs := map as_frame fsx in
  if existsb (fun f => old_has_bad (arg 0 f)) fsx || negb (valid_framesb 0 fs) then L []
  else L [L (map of_state_lite (run_trace_lite (fresh H A) fs))].

(* entry_models _ : the matrices of the three motion models as regenerated from the source *)
Definition entry_models (_ : sx) : sx :=
  L [L [of_mat (int_mat velocity_om); of_mat (int_mat velocity_tm)];
     L [of_mat (int_mat reverse_velocity_om); of_mat (int_mat reverse_velocity_tm)];
     L [of_mat (int_mat static_om); of_mat (int_mat static_tm)]].

(* entry_alg [op; a; b]: the batched small-matrix algebra on its own.
   0 dot_n(2d,3d)  1 dot_n(3d,2d)  2 dot_n(3d,3d)  3 inv_n  4 det_n  5 parity  6 permutations
   7 cofactor_n (b = [i; j]) *)
Definition entry_alg (x : sx) : sx :=
  let op := as_Z (arg 0 x) in
  let a := arg 1 x in
  let b := arg 2 x in
  let mats y := map as_mat (as_list y) in
  if (op =? 0)%Z then L (map of_mat (dot_n_23 (as_mat a) (mats b)))
  else if (op =? 1)%Z then L (map of_mat (dot_n_32 (mats a) (as_mat b)))
  else if (op =? 2)%Z then L (map of_mat (dot_n_33 (mats a) (mats b)))
  else if (op =? 3)%Z then L (map of_mat (inv_n (mats a)))
  else if (op =? 4)%Z then of_vec (det_n (mats a))
  else if (op =? 5)%Z then of_Qc (parity (map as_nat (as_list a)))
  else if (op =? 6)%Z then L (map (fun p => L (map of_nat p)) (permutations (map as_nat (as_list a))))
  else L (map (fun m => of_Qc (cofactor1 m (as_nat (arg 0 b)) (as_nat (arg 1 b)))) (mats a)).
