(* C11 — executable entry of the get_threshold model: the interpreter of Model.ThresholdLang
   applied to the REGENERATED program Gen.ThresholdC11.get_threshold_prog with the binary64
   product [fmul].  Definitions only. *)
From Coq Require Import ZArith QArith List Bool.
From Centro Require Import Base.Sx Base.ThresholdNum Model.ThresholdLang Gen.ThresholdC11.
Import ListNotations.

(* arg: (modifier cf raw_global lo? hi? raw_local lab0? f32) -> () when the call raises, else (local global);
   f32 = 1 when the local-threshold array is float32 (per-object mode on a float32 image) *)
Definition entry_run (x : sx) : sx :=
  let inp := mkIn (as_modifier (arg 0 x)) (as_Q (arg 1 x)) (as_Q (arg 2 x)) (as_Qs (arg 5 x)) (as_lab0 (arg 6 x)) in
  let f32 := as_bool (arg 7 x) in
  match run fmul (if f32 then fmul32 else fmul) (if f32 then round32 else (fun q => q)) inp get_threshold_prog
          (as_optQ (arg 3 x)) (as_optQ (arg 4 x)) with
  | Some (l, g) => L [of_val l; of_val g]
  | None => L []
  end.
