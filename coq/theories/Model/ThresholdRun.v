(* C11 — executable entry of the get_threshold model: the interpreter of Model.ThresholdLang
   applied to the REGENERATED program Gen.ThresholdC11.get_threshold_prog with the binary64
   product [fmul].  Definitions only. *)
From Coq Require Import ZArith QArith List Bool.
From Centro Require Import Base.Sx Base.ThresholdNum Model.ThresholdLang Gen.ThresholdC11.
Import ListNotations.

(* arg: (modifier cf raw_global lo? hi? raw_local lab0?) -> () when the call raises, else (local global) *)
Definition entry_run (x : sx) : sx :=
  let inp := mkIn (as_modifier (arg 0 x)) (as_Q (arg 1 x)) (as_Q (arg 2 x)) (as_Qs (arg 5 x)) (as_lab0 (arg 6 x)) in
  match run fmul inp get_threshold_prog (as_optQ (arg 3 x)) (as_optQ (arg 4 x)) with
  | Some (l, g) => L [of_val l; of_val g]
  | None => L []
  end.
