(* C11 — executable entry of the get_threshold model: the interpreter of Model.ThresholdLang
   applied to the REGENERATED program Gen.ThresholdC11.get_threshold_prog with the binary64
   product [fmul].  Definitions only. *)
From Coq Require Import ZArith QArith List Bool.
From Centro Require Import Base.Sx Base.ThresholdNum Model.ThresholdLang Gen.ThresholdC11.
Import ListNotations.

Definition as_modifier (x : sx) : modifier :=
  match as_Z x with 0%Z => MGlobal | 1%Z => MAdaptive | _ => MPerObject end.
Definition as_lab0 (x : sx) : option (list bool) :=
  match as_list x with [] => None | y :: _ => Some (as_bools y) end.
Definition of_val (v : val) : sx :=
  match v with
  | VNone => L []
  | VNum q => L [I 0; of_Q q]
  | VArr a => L [I 1; of_Qs a]
  end.
(* arg: (modifier cf raw_global lo? hi? raw_local lab0?) -> () when the call raises, else (local global) *)
Definition entry_run (x : sx) : sx :=
  let inp := mkIn (as_modifier (arg 0 x)) (as_Q (arg 1 x)) (as_Q (arg 2 x)) (as_Qs (arg 5 x)) (as_lab0 (arg 6 x)) in
  match run fmul inp get_threshold_prog (as_optQ (arg 3 x)) (as_optQ (arg 4 x)) with
  | Some (l, g) => L [of_val l; of_val g]
  | None => L []
  end.
