(* C07 — executable, line-level model of centrosome/_filter.pyx c_median_filter (Perreault's
   constant-time median with an octagonal window, five partial histograms per column kept in a
   circular buffer, coarse/fine two-level histograms with lazily updated fine bins, uint16
   counts) and of the wrapper centrosome/filter.py median_filter (all-masked shortcut,
   rank_order to <= 255 levels, translation back).

   variant AsIs  : the code as written — allocate_histograms bumps only its LOCAL radius
                   (lines 237-239) so the sweeps of c_median_filter (lines 672, 707, 723) and the
                   stripe length (line 176) use the caller's radius.
   variant Fixed : sweeps and stripe length use the bumped radius (finding F2).
   The two variants differ only when radius <= a_2, i.e. radius = 1.

   Definitions only; proofs are in Proofs/Median*.v.  Transcribed from the .pyx via the
   bit-exactly validated design/prototypes/median_reference.py. *)
From Coq Require Import ZArith List Bool.
From Centro Require Import Base.Sx Gen.MedianConstC07.
Import ListNotations.
Open Scope Z_scope.

Definition M16 : Z := 65536.          (* np.uint16_t counts wrap *)
Definition M32 : Z := 4294967296.     (* np.uint32_t accumulator_count / pixels_below *)

Inductive variant : Type := AsIs | Fixed.

(* ------------------------------------------------------------------ geometry (lines 232-239) *)

(* a = <int>(<float64>radius * 2.0 / 2.414213): truncation of radius*2000000/2414213 (radius >= 0).
   The two constants are regenerated from _filter.cpp on every run (Gen/MedianConstC07.v); the
   translator also checks float truncation = this quotient for radius 0..4096. *)
Definition oct_num : Z := gen_oct_num.
Definition oct_den : Z := gen_oct_den.
Definition oct_a (radius : Z) : Z := (radius * oct_num) / oct_den.
Definition oct_a2 (radius : Z) : Z := let h := oct_a radius / 2 in if h =? 0 then 1 else h.
Definition oct_R (radius : Z) : Z := let a2 := oct_a2 radius in if radius <=? a2 then a2 + 1 else radius.

(* ------------------------------------------------------------------ list helpers *)

Fixpoint zrange_n (lo : Z) (n : nat) : list Z :=
  match n with O => [] | S m => lo :: zrange_n (lo + 1) m end.
(* Python range(lo, hi) *)
Definition zrange (lo hi : Z) : list Z := zrange_n lo (Z.to_nat (hi - lo)).

Fixpoint upd_nth {A} (n : nat) (f : A -> A) (l : list A) : list A :=
  match l, n with
  | [], _ => []
  | x :: r, O => f x :: r
  | x :: r, S m => x :: upd_nth m f r
  end.
Definition getz {A} (d : A) (l : list A) (i : Z) : A := nth (Z.to_nat i) l d.
Definition updz {A} (l : list A) (i : Z) (f : A -> A) : list A := upd_nth (Z.to_nat i) f l.

(* dst[o .. o+len) := f dst[k] src[k]  — add16/sub16 applied at an offset into a 256-bin array *)
Fixpoint map2_at (f : Z -> Z -> Z) (o len : nat) (dst src : list Z) {struct dst} : list Z :=
  match dst, src with
  | d :: dr, s :: sr =>
      match o with
      | S o' => d :: map2_at f o' len dr sr
      | O => match len with
             | O => dst
             | S len' => f d s :: map2_at f O len' dr sr
             end
      end
  | _, _ => dst
  end.
Definition add16 (dst src : list Z) (o : Z) : list Z :=
  map2_at (fun d s => (d + s) mod M16) (Z.to_nat o) 16 dst src.
Definition sub16 (dst src : list Z) (o : Z) : list Z :=
  map2_at (fun d s => (d - s) mod M16) (Z.to_nat o) 16 dst src.

(* ------------------------------------------------------------------ data structures *)

(* HistogramPiece *)
Record piece : Type := mkPiece { coarse : list Z; fine : list Z }.
Definition piece0 : piece := mkPiece (repeat 0 16) (repeat 0 256).

Inductive pname : Type := TL | TR | ED | BL | BR.

(* one slot of the circular buffer: Histogram + PixelCount *)
Record column : Type := mkCol
  { p_tl : piece; p_tr : piece; p_ed : piece; p_bl : piece; p_br : piece;
    n_tl : Z; n_tr : Z; n_ed : Z; n_bl : Z; n_br : Z }.
Definition column0 : column := mkCol piece0 piece0 piece0 piece0 piece0 0 0 0 0 0.

Definition get_p (nm : pname) (c : column) : piece :=
  match nm with TL => p_tl c | TR => p_tr c | ED => p_ed c | BL => p_bl c | BR => p_br c end.
Definition get_n (nm : pname) (c : column) : Z :=
  match nm with TL => n_tl c | TR => n_tr c | ED => n_ed c | BL => n_bl c | BR => n_br c end.
Definition set_pn (nm : pname) (p : piece) (n : Z) (c : column) : column :=
  match nm with
  | TL => mkCol p (p_tr c) (p_ed c) (p_bl c) (p_br c) n (n_tr c) (n_ed c) (n_bl c) (n_br c)
  | TR => mkCol (p_tl c) p (p_ed c) (p_bl c) (p_br c) (n_tl c) n (n_ed c) (n_bl c) (n_br c)
  | ED => mkCol (p_tl c) (p_tr c) p (p_bl c) (p_br c) (n_tl c) (n_tr c) n (n_bl c) (n_br c)
  | BL => mkCol (p_tl c) (p_tr c) (p_ed c) p (p_br c) (n_tl c) (n_tr c) (n_ed c) n (n_br c)
  | BR => mkCol (p_tl c) (p_tr c) (p_ed c) (p_bl c) p (n_tl c) (n_tr c) (n_ed c) (n_bl c) n
  end.

(* the constant part of struct Histograms *)
Record env : Type := mkEnv
  { e_rows : Z; e_cols : Z; e_data : list (list Z); e_mask : list (list bool);
    e_R : Z;        (* ph.radius (bumped) *)
    e_a2 : Z;       (* ph.a_2 *)
    e_sweep : Z;    (* the radius that drives the loops of c_median_filter *)
    e_SL : Z;       (* ph.stripe_length *)
    e_percent : Z }.

(* the mutable part *)
Record st : Type := mkSt
  { s_cols : list column; s_acc : piece; s_accn : Z; s_last : list Z; s_row : Z; s_col : Z }.

Definition set_cols (s : st) (c : list column) : st := mkSt c (s_acc s) (s_accn s) (s_last s) (s_row s) (s_col s).
Definition set_acc (s : st) (a : piece) (n : Z) : st := mkSt (s_cols s) a n (s_last s) (s_row s) (s_col s).
Definition set_last (s : st) (l : list Z) : st := mkSt (s_cols s) (s_acc s) (s_accn s) l (s_row s) (s_col s).
Definition set_row (s : st) (r : Z) : st := mkSt (s_cols s) (s_acc s) (s_accn s) (s_last s) r (s_col s).
Definition set_col (s : st) (c : Z) : st := mkSt (s_cols s) (s_acc s) (s_accn s) (s_last s) (s_row s) c.

Definition dat (e : env) (y x : Z) : Z := getz 0 (getz [] (e_data e) y) x.
Definition msk (e : env) (y x : Z) : bool := getz false (getz [] (e_mask e) y) x.

(* ------------------------------------------------------------------ circular indices (326-336);
   Cython's % on C ints is Python's floor-mod (__Pyx_mod_long) = Z.modulo *)
Definition tl_br (e : env) (row c : Z) : Z := (c + 3 * e_R e + row) mod e_SL e.
Definition tr_bl (e : env) (row c : Z) : Z := (c + 3 * e_R e + e_rows e - row) mod e_SL e.
Definition lead_ix (e : env) (c : Z) : Z := (c + 5 * e_R e) mod e_SL e.
Definition trail_ix (e : env) (c : Z) : Z := (c + 3 * e_R e - 1) mod e_SL e.

(* ------------------------------------------------------------------ accumulate / deaccumulate *)

(* if pixel_count[o].nm > 0: add16(acc.coarse, hist[o].nm.coarse); accumulator_count += count *)
Definition acc_add (s : st) (o : Z) (nm : pname) : st :=
  let cl := getz column0 (s_cols s) o in
  if 0 <? get_n nm cl then
    set_acc s (mkPiece (add16 (coarse (s_acc s)) (coarse (get_p nm cl)) 0) (fine (s_acc s)))
            ((s_accn s + get_n nm cl) mod M32)
  else s.
Definition acc_sub (s : st) (o : Z) (nm : pname) : st :=
  let cl := getz column0 (s_cols s) o in
  if 0 <? get_n nm cl then
    set_acc s (mkPiece (sub16 (coarse (s_acc s)) (coarse (get_p nm cl)) 0) (fine (s_acc s)))
            ((s_accn s - get_n nm cl) mod M32)
  else s.

(* accumulate_coarse_histogram (363-378) *)
Definition acc_coarse (e : env) (s : st) (c : Z) : st :=
  let s := acc_add s (tr_bl e (s_row s) c) TR in
  let s := acc_add s (lead_ix e c) ED in
  acc_add s (tl_br e (s_row s) c) BR.

(* deaccumulate_coarse_histogram (386-409) *)
Definition deacc_coarse (e : env) (s : st) (c : Z) : st :=
  if c <=? e_a2 e then s else
  let s := acc_sub s (tl_br e (s_row s) c) TL in
  let s := if e_R e <? c then acc_sub s (trail_ix e c) ED else s in
  acc_sub s (tr_bl e (s_row s) c) BL.

Definition fine_add (s : st) (o : Z) (nm : pname) (fo : Z) : st :=
  let cl := getz column0 (s_cols s) o in
  set_acc s (mkPiece (coarse (s_acc s)) (add16 (fine (s_acc s)) (fine (get_p nm cl)) fo)) (s_accn s).
Definition fine_sub (s : st) (o : Z) (nm : pname) (fo : Z) : st :=
  let cl := getz column0 (s_cols s) o in
  set_acc s (mkPiece (coarse (s_acc s)) (sub16 (fine (s_acc s)) (fine (get_p nm cl)) fo)) (s_accn s).

(* accumulate_fine_histogram (416-428) *)
Definition acc_fine (e : env) (s : st) (c f : Z) : st :=
  let fo := f * 16 in
  let s := fine_add s (tr_bl e (s_row s) c) TR fo in
  let s := fine_add s (lead_ix e c) ED fo in
  fine_add s (tl_br e (s_row s) c) BR fo.

(* deaccumulate_fine_histogram (435-453): note < and >= where the coarse version has <= and > *)
Definition deacc_fine (e : env) (s : st) (c f : Z) : st :=
  let fo := f * 16 in
  if c <? e_a2 e then s else
  let s := fine_sub s (tl_br e (s_row s) c) TL fo in
  let s := if e_R e <=? c then fine_sub s (trail_ix e c) ED fo else s in
  fine_sub s (tr_bl e (s_row s) c) BL fo.

(* update_fine (489-498) *)
Definition update_fine (e : env) (s : st) (f : Z) : st :=
  let first := getz 0 (s_last s) f + 1 in
  let s := fold_left (fun s c => deacc_fine e (acc_fine e s c f) c f) (zrange first (s_col s + 1)) s in
  set_last s (updz (s_last s) f (fun _ => s_col s)).

(* ------------------------------------------------------------------ update_histogram (512-550) *)

Definition in_img (e : env) (x y : Z) : bool :=
  (0 <=? x) && (x <? e_cols e) && (0 <=? y) && (y <? e_rows e) && msk e y x.

Definition bump (delta v : Z) (p : piece) : piece :=
  mkPiece (updz (coarse p) (v / 16) (fun c => (c + delta) mod M16))
          (updz (fine p) v (fun c => (c + delta) mod M16)).

Definition upd_piece (delta v : Z) (nm : pname) (cl : column) : column :=
  set_pn nm (bump delta v (get_p nm cl)) ((get_n nm cl + delta) mod M16) cl.

Definition upd_hist (e : env) (s : st) (o : Z) (nm : pname) (lc nc : Z * Z) : st :=
  let x := fst lc + s_col s in
  let y := snd lc + s_row s in
  let s := if in_img e x y then set_cols s (updz (s_cols s) o (upd_piece (-1) (dat e y x) nm)) else s in
  let x := fst nc + s_col s in
  let y := snd nc + s_row s in
  if in_img e x y then set_cols s (updz (s_cols s) o (upd_piece 1 (dat e y x) nm)) else s.

(* the ten SCoords (241-269), as (x, y) *)
Definition sc_last_tl (e : env) : Z * Z := (- e_a2 e, - e_R e - 1).
Definition sc_tl (e : env) : Z * Z := (- e_R e, - e_a2 e - 1).
Definition sc_last_tr (e : env) : Z * Z := (e_a2 e - 1, - e_R e - 1).
Definition sc_tr (e : env) : Z * Z := (e_R e - 1, - e_a2 e - 1).
Definition sc_last_le (e : env) : Z * Z := (e_R e, - e_a2 e - 1).
Definition sc_le (e : env) : Z * Z := (e_R e, e_a2 e).
Definition sc_last_br (e : env) : Z * Z := (e_R e, e_a2 e).
Definition sc_br (e : env) : Z * Z := (e_a2 e, e_R e).
Definition sc_last_bl (e : env) : Z * Z := (- e_R e - 1, e_a2 e).
Definition sc_bl (e : env) : Z * Z := (- e_a2 e - 1, e_R e).

(* update_current_location (557-598) *)
Definition update_loc (e : env) (s : st) : st :=
  let c := s_col s in
  let tlo := tl_br e (s_row s) c in
  let tro := tr_bl e (s_row s) c in
  let leo := lead_ix e c in
  let s := upd_hist e s tlo TL (sc_last_tl e) (sc_tl e) in
  let s := upd_hist e s tro TR (sc_last_tr e) (sc_tr e) in
  let s := upd_hist e s tro BL (sc_last_bl e) (sc_bl e) in
  let s := upd_hist e s tlo BR (sc_last_br e) (sc_br e) in
  upd_hist e s leo ED (sc_last_le e) (sc_le e).

(* ------------------------------------------------------------------ find_median (606-630) *)

(* pixels_below: uint32 * int32 + 50 is computed in 32-bit unsigned arithmetic, then // 100 *)
Definition fm_below (accn percent : Z) : Z :=
  let q := ((accn * percent + 50) mod M32) / 100 in
  if 0 <? q then q - 1 else q.

(* for i in range(16): accumulator += coarse[i]; if accumulator > pixels_below: break
   accumulator -= coarse[i]            — returns (i, accumulator); without a break i stays 15 *)
Fixpoint cscan (l : list Z) (i a below : Z) : Z * Z :=
  match l with
  | [] => (i, a)
  | c :: r =>
      if below <? a + c then (i, a) else
      match r with
      | [] => (i, a)
      | _ => cscan r (i + 1) (a + c) below
      end
  end.

(* for j in range(i*16,(i+1)*16): accumulator += fine[j]; if accumulator > pixels_below: return j
   return 0 *)
Fixpoint fscan (blk : list Z) (j a below : Z) : Z :=
  match blk with
  | [] => 0
  | c :: r => if below <? a + c then j else fscan r (j + 1) (a + c) below
  end.

Definition block16 (l : list Z) (i : Z) : list Z := firstn 16 (skipn (Z.to_nat (16 * i)) l).

(* the rank selection, given the coarse bins, the fine bins as they are after update_fine(i),
   the pixel count and the percentile *)
Definition fm_select (co : list Z) (finef : Z -> list Z) (accn percent : Z) : Z :=
  if accn =? 0 then 0 else
  let below := fm_below accn percent in
  let '(i, a) := cscan co 0 0 below in
  fscan (block16 (finef i) i) (i * 16) a below.

Definition fm_block (e : env) (s : st) : Z :=
  fst (cscan (coarse (s_acc s)) 0 0 (fm_below (s_accn s) (e_percent e))).

Definition find_median (e : env) (s : st) : st * Z :=
  if s_accn s =? 0 then (s, 0) else
  let s' := update_fine e s (fm_block e s) in
  (s', fm_select (coarse (s_acc s)) (fun _ => fine (s_acc s')) (s_accn s) (e_percent e)).

(* ------------------------------------------------------------------ c_median_filter (647-730) *)

Definition clear_pieces (nm1 nm2 : pname) (cl : column) : column :=
  set_pn nm2 piece0 0 (set_pn nm1 piece0 0 cl).

(* top of the row loop (681-702); the indices are computed with the PREVIOUS current_row *)
Definition row_init (e : env) (s : st) (row : Z) : st :=
  let o1 := tl_br e (s_row s) (- e_sweep e) in
  let o2 := tr_bl e (s_row s) (e_cols e + e_sweep e - 1) in
  let cs := updz (s_cols s) o1 (clear_pieces TL BR) in
  let cs := updz cs o2 (clear_pieces TR BL) in
  mkSt cs piece0 0 (repeat (- e_sweep e - 1) 16) row (s_col s).

Definition step_col (e : env) (s : st) (col : Z) : st :=
  let s := update_loc e (set_col s col) in
  deacc_coarse e (acc_coarse e s col) col.

Definition do_row (e : env) (so : st * list (list Z)) (row : Z) : st * list (list Z) :=
  let '(s, out) := so in
  let s := row_init e s row in
  let s := fold_left (step_col e) (zrange (- e_sweep e) (if 0 <=? row then 0 else e_cols e + e_sweep e)) s in
  if 0 <=? row then
    let '(s, orow) :=
      fold_left (fun (sa : st * list Z) col =>
                   let '(s, acc) := sa in
                   let '(s, v) := find_median e (step_col e s col) in (s, v :: acc))
                (zrange 0 (e_cols e)) (s, []) in
    let s := fold_left (fun s col => update_loc e (set_col s col)) (zrange (e_cols e) (e_cols e + e_sweep e)) s in
    (s, rev orow :: out)
  else (s, out).

Definition mk_env (v : variant) (data : list (list Z)) (mask : list (list bool)) (radius percent : Z) : env :=
  let rows := Z.of_nat (length data) in
  let cols := Z.of_nat (length (hd [] data)) in
  let sweep := match v with AsIs => radius | Fixed => oct_R radius end in
  mkEnv rows cols data mask (oct_R radius) (oct_a2 radius) sweep (cols + 2 * sweep + 1) percent.

Definition st0 (e : env) : st :=
  mkSt (repeat column0 (Z.to_nat (e_SL e))) piece0 0 (repeat 0 16) 0 (- e_sweep e).

Definition kernel (v : variant) (data : list (list Z)) (mask : list (list bool)) (radius percent : Z)
  : list (list Z) :=
  let e := mk_env v data mask radius percent in
  rev (snd (fold_left (do_row e) (zrange (- e_sweep e) (e_rows e)) (st0 e, []))).

(* ------------------------------------------------------------------ wrapper filter.median_filter *)

Fixpoint insert_u (x : Z) (l : list Z) : list Z :=
  match l with
  | [] => [x]
  | y :: r => if x <? y then x :: l else if x =? y then l else y :: insert_u x r
  end.
(* strictly increasing list of the distinct values: rank_order's original_values *)
Definition sort_u (l : list Z) : list Z := fold_right insert_u [] l.

Fixpoint index_of (x : Z) (u : list Z) : nat :=
  match u with [] => O | y :: r => if x =? y then O else S (index_of x r) end.

Definition masked_vals (data : list (list Z)) (mask : list (list bool)) : list Z :=
  concat (map (fun dm : list Z * list bool =>
                 concat (map (fun xm : Z * bool => if snd xm then [fst xm] else []) (combine (fst dm) (snd dm))))
              (combine data mask)).

Definition map_img {A B C} (f : A -> B -> C) (a : list (list A)) (b : list (list B)) : list (list C) :=
  map (fun ab : list A * list B => map (fun xy : A * B => f (fst xy) (snd xy)) (combine (fst ab) (snd ab)))
      (combine a b).

Inductive wres : Type :=
| WOut (ranked : bool) (o : list (list Z))   (* the returned array, and whether rank_order was applied *)
| WDecline                      (* more than 255 distinct values: rank_order's decimation is not modelled *)
| WIndexError.                  (* translation[output] with an output beyond the table *)

(* intlike = np.issubdtype(data.dtype, int), observed by the harness.  The direct path is taken
   when the MASKED pixels are integers in 0..255 (np.min(data[mask]) < 0 or np.max(data[mask]) > 255
   — /repo commit 229a88d; before it the test looked at the whole array). *)
Definition wrapper (v : variant) (intlike : bool) (data : list (list Z)) (mask : list (list bool))
           (radius percent : Z) : wres :=
  if forallb (forallb negb) mask then WOut false data else
  let mv := masked_vals data mask in
  let pass := intlike && forallb (fun x => (0 <=? x) && (x <=? 255)) mv in
  if pass then
    WOut false (kernel v (map_img (fun d (m : bool) => if m then d else 0) data mask) mask radius percent)
  else
    let u := sort_u mv in
    if (255 <? length u)%nat then WDecline else
    let input := map_img (fun d (m : bool) => if m then Z.of_nat (index_of d u) else 0) data mask in
    let o8 := kernel v input mask radius percent in
    if forallb (forallb (fun x => x <? Z.of_nat (length u))) o8
    then WOut true (map (map (fun x => nth (Z.to_nat x) u 0)) o8)
    else WIndexError.

(* ------------------------------------------------------------------ wire entries *)

Definition as_variant (x : sx) : variant := if as_Z x =? 0 then AsIs else Fixed.

(* (variant data mask radius percent) -> out *)
Definition entry_kernel (x : sx) : sx :=
  of_Zss (kernel (as_variant (arg 0 x)) (as_Zss (arg 1 x)) (as_boolss (arg 2 x)) (as_Z (arg 3 x)) (as_Z (arg 4 x))).

(* (variant intlike data mask radius percent) -> (0 out ranked) | (1) declined | (2) IndexError *)
Definition entry_wrapper (x : sx) : sx :=
  match wrapper (as_variant (arg 0 x)) (as_bool (arg 1 x)) (as_Zss (arg 2 x)) (as_boolss (arg 3 x))
                (as_Z (arg 4 x)) (as_Z (arg 5 x)) with
  | WOut b o => L [I 0; of_Zss o; of_bool b]
  | WDecline => L [I 1]
  | WIndexError => L [I 2]
  end.

(* (radius) -> (R a2) *)
Definition entry_geom (x : sx) : sx := of_Zs [oct_R (as_Z x); oct_a2 (as_Z x)].
