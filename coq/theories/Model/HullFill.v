(* C14 — executable model of cpmorphology.fill_convex_hulls on a list of objects (label, hull
   vertices in storage order), phases as written: close each polygon (last point -> first);
   n_i = |di| + 1 rows per edge; horizontal edges (n_i = 1) contribute their two end columns;
   every other edge contributes, for t = 0 .. n_i - 1, the row i0 + sign * t with the interpolated
   column j0 + t * (j1 - j0) / (n_i - 1) — kept as an exact rational (the code forms the float
   quotient of two small integers; its ceil/floor equal those of the exact quotient);
   lexsort by (label, i, j); runs of equal (label, i); per run j from ceil(first j) to
   floor(last j).  Output rows are (i, j, label) in the order the code emits them.
   Modelled, not verified: the float quotient.  Definitions only. *)
From Coq Require Import ZArith List Bool.
From Centro Require Import Base.Sx.
Import ListNotations.
Open Scope Z_scope.

Definition hpt : Type := (Z * Z)%type.
(* one (label, i, j) entry of the concatenated line arrays; j = jn / jd with jd > 0 *)
Record ent : Type := mkE { e_l : Z; e_i : Z; e_jn : Z; e_jd : Z }.

Fixpoint zrange_nat (start : Z) (n : nat) : list Z :=
  match n with O => [] | S k => start :: zrange_nat (start + 1) k end.
(* lo, lo+1, ..., hi (empty when hi < lo) *)
Definition zrange (lo hi : Z) : list Z := zrange_nat lo (Z.to_nat (hi - lo + 1)).

Definition edge_entries (l : Z) (p q : hpt) : list ent * list ent :=
  (* (horizontal part, sloped part) *)
  let ni := Z.abs (fst p - fst q) + 1 in
  if ni =? 1 then ([mkE l (fst p) (snd p) 1; mkE l (fst p) (snd q) 1], [])
  else
    let sg := Z.sgn (fst q - fst p) in
    ([], map (fun t => mkE l (fst p + sg * t) (snd p * (ni - 1) + t * (snd q - snd p)) (ni - 1))
             (zrange 0 (ni - 1))).

Fixpoint poly_edges_from (first : hpt) (h : list hpt) : list (hpt * hpt) :=
  match h with
  | [] => []
  | [a] => [(a, first)]
  | a :: ((b :: _) as t) => (a, b) :: poly_edges_from first t
  end.
Definition poly_edges (h : list hpt) : list (hpt * hpt) :=
  match h with [] => [] | a :: _ => poly_edges_from a h end.

Definition object_entries (o : Z * list hpt) : list ent * list ent :=
  fold_right (fun e acc =>
                let r := edge_entries (fst o) (fst e) (snd e) in
                (fst r ++ fst acc, snd r ++ snd acc))
             ([], []) (poly_edges (snd o)).

(* key order of np.lexsort((j, i, line_labels)) *)
Definition ent_le (a b : ent) : bool :=
  if e_l a <? e_l b then true else if e_l b <? e_l a then false else
  if e_i a <? e_i b then true else if e_i b <? e_i a then false else
  e_jn a * e_jd b <=? e_jn b * e_jd a.

Fixpoint insert_ent (x : ent) (l : list ent) : list ent :=
  match l with
  | [] => [x]
  | y :: t => if ent_le x y then x :: l else y :: insert_ent x t
  end.
Definition sort_ents (l : list ent) : list ent := fold_right insert_ent [] l.

Definition ceil_div (n d : Z) : Z := - ((- n) / d).      (* d > 0 *)
Definition floor_div (n d : Z) : Z := n / d.

(* the lattice columns of one run: first entry (n0/d0) .. last entry (n1/d1) *)
Definition run_js (n0 d0 n1 d1 : Z) : list Z := zrange (ceil_div n0 d0) (floor_div n1 d1).

(* walk the sorted entries; (first, last) of the current run are carried along *)
Fixpoint emit_runs (first last : ent) (rest : list ent) : list (Z * Z * Z) :=
  match rest with
  | [] => map (fun j => (e_i first, j, e_l first)) (run_js (e_jn first) (e_jd first) (e_jn last) (e_jd last))
  | x :: t =>
      if (e_l x =? e_l first) && (e_i x =? e_i first) then emit_runs first x t
      else map (fun j => (e_i first, j, e_l first)) (run_js (e_jn first) (e_jd first) (e_jn last) (e_jd last))
           ++ emit_runs x x t
  end.

Definition fill_model (objs : list (Z * list hpt)) : list (Z * Z * Z) :=
  let parts := map object_entries objs in
  let horiz := flat_map fst parts in
  let sloped := flat_map snd parts in
  (* the code concatenates (first columns of horizontals, last columns of horizontals, sloped);
     the order before a sort by complete keys is immaterial *)
  match sort_ents (horiz ++ sloped) with
  | [] => []
  | x :: t => emit_runs x x t
  end.

Definition as_obj (x : sx) : Z * list hpt := (as_Z (arg 0 x), as_pairs (arg 1 x)).
Definition of_triples (l : list (Z * Z * Z)) : sx :=
  L (map (fun t => L [I (fst (fst t)); I (snd (fst t)); I (snd t)]) l).
(* ((label ((i j) ...)) ...) -> ((i j label) ...) *)
Definition entry_fill_model (x : sx) : sx := of_triples (fill_model (map as_obj (as_list x))).
