(* C20 - the history state machine (definitions only).
   World = lazily filled module-level tables + the global np.random state + a clock standing
   for everything outside the process (OS entropy).  A public function is a step
   [args -> world -> result * world] assembled from its GENERATED effect signature
   (Gen/EffectsC20.v, produced by tools/gen_effects_c20.py from the staged sources); its pure
   body is a section variable that sees nothing of the world except
     - the content of the tables the signature says it reads (after its own fills; the reads the
       translator could not show to be dominated by a fill see the content BEFORE the fills),
     - the source of its random draws: none / the stream after a literal seed / the incoming
       global state / entropy. *)
From Coq Require Import ZArith List Bool.
Import ListNotations.
Open Scope Z_scope.

(* KMemo: a memo table keyed by the full argument tuple: `if key not in G: G[key] = pure(args)` *)
Inductive kind := KConst | KArg | KAccum | KMemo.

Record sig := mk_sig {
  s_id : Z;                       (* function id (index in the generated list) *)
  s_public : bool;
  s_fills : list (Z * kind);      (* module-level state it may write, with the class of the value *)
  s_reads : list Z;               (* lazily filled tables it reads *)
  s_unguarded : list Z;           (* ... of which reads not dominated by a fill *)
  s_draws : bool;                 (* draws from the global np.random stream *)
  s_seed_dom : bool;              (* a literal np.random.seed(<const>) dominates every such draw *)
  s_seed_lit : option Z;
  s_entropy : bool;               (* uses an unseeded generator / clock *)
  s_inplace : list (Z * Z);       (* candidate in-place writes: (parameter index, source line) *)
  s_exempt : bool                 (* documented in-place helper *)
}.

Definition empty_sig (f : Z) : sig := mk_sig f false [] [] [] false false None false [] false.

Fixpoint lookup (l : list sig) (f : Z) : sig :=
  match l with
  | [] => empty_sig f
  | s :: r => if s_id s =? f then s else lookup r f
  end.

Definition memZ (g : Z) (l : list Z) : bool := existsb (Z.eqb g) l.

Section Hist.
Variables (args val res rstate : Type).
Variable table : list sig.
Variable const : Z -> val.                                   (* value of a ConstExpr table *)
Variable argval : Z -> args -> Z -> val.                      (* what an argument-dependent write stores *)
Variable accval : Z -> args -> Z -> option val -> val.        (* an accumulating write: depends on the old content *)
Variable mval : Z -> args -> val.                             (* what a memo table stores under the key `args` *)
Variable key_eqb : args -> args -> bool.                      (* equality of memo keys (dict lookup) *)

Inductive rsrc := NoDraw | Seeded (s : Z) | Ambient (r : rstate) | Entropy (t : nat).

Variable body : Z -> args -> list (option val) -> rsrc -> res.
Variable rng_next : Z -> args -> rsrc -> rstate -> rstate.    (* global RNG state the call leaves behind *)

Record world := mk_world { cache : Z -> option val; memo : Z -> args -> option val; rng : rstate; clock : nat }.

Definition fill1 (f : Z) (a : args) (c : Z -> option val) (gk : Z * kind) : Z -> option val :=
  fun g =>
    if g =? fst gk then
      match snd gk with
      | KConst => match c g with Some v => Some v | None => Some (const g) end
      | KArg => match c g with Some v => Some v | None => Some (argval f a g) end
      | KAccum => Some (accval f a g (c g))
      | KMemo => c g
      end
    else c g.

Definition fill (f : Z) (a : args) (c : Z -> option val) (l : list (Z * kind)) : Z -> option val :=
  fold_left (fill1 f a) l c.

(* memo tables: an entry is added under the key of this call unless one is there already *)
Definition mfill1 (a : args) (m : Z -> args -> option val) (gk : Z * kind) : Z -> args -> option val :=
  fun g k =>
    match snd gk with
    | KMemo => if (g =? fst gk) && key_eqb a k then
                 match m g k with Some v => Some v | None => Some (mval g a) end
               else m g k
    | _ => m g k
    end.

Definition mfill (a : args) (m : Z -> args -> option val) (l : list (Z * kind)) : Z -> args -> option val :=
  fold_left (mfill1 a) l m.

Definition is_memo (g : Z) (l : list (Z * kind)) : bool :=
  existsb (fun gk => (g =? fst gk) && match snd gk with KMemo => true | _ => false end) l.

Definition src_of (s : sig) (w : world) : rsrc :=
  if s_entropy s then Entropy (clock w)
  else if s_draws s then
         (if s_seed_dom s then match s_seed_lit s with Some z => Seeded z | None => Ambient (rng w) end
          else Ambient (rng w))
       else NoDraw.

(* a memo table is read under the key of the call only *)
Definition view (s : sig) (a : args) (c0 c1 : Z -> option val) (m1 : Z -> args -> option val) : list (option val) :=
  map (fun g => if is_memo g (s_fills s) then m1 g a
                else if memZ g (s_unguarded s) then c0 g else c1 g) (s_reads s).

Definition step (w : world) (call : Z * args) : res * world :=
  let s := lookup table (fst call) in
  let c1 := fill (fst call) (snd call) (cache w) (s_fills s) in
  let m1 := mfill (snd call) (memo w) (s_fills s) in
  let src := src_of s w in
  (body (fst call) (snd call) (view s (snd call) (cache w) c1 m1) src,
   mk_world c1 m1 (if s_draws s then rng_next (fst call) (snd call) src (rng w) else rng w) (S (clock w))).

Definition run_from (w : world) (h : list (Z * args)) : world := fold_left (fun w c => snd (step w c)) h w.
Definition init (r0 : rstate) : world := mk_world (fun _ => None) (fun _ _ => None) r0 0%nat.
Definition run (r0 : rstate) (h : list (Z * args)) : world := run_from (init r0) h.
Definition result_after (r0 : rstate) (h : list (Z * args)) (c : Z * args) : res := fst (step (run r0 h) c).
End Hist.

Arguments cache {args val rstate} w.
Arguments memo {args val rstate} w.
Arguments rng {args val rstate} w.
Arguments clock {args val rstate} w.
Arguments mk_world {args val rstate} cache memo rng clock.
Arguments NoDraw {rstate}.
Arguments Seeded {rstate} s.
Arguments Ambient {rstate} r.
Arguments Entropy {rstate} t.
