(* C11 — get_maximum_correlation_threshold over exact arithmetic, the square root removed by comparing
   squares (every numerator is >= 0 exactly): bin the data into [bins] levels as written
   (((x - min) * (bins-1) / (max-min)).astype(int)), histogram, mean bin, ndiff = n_j (j - mean),
   numerator_i = sum_{j>=i} ndiff_j, n_i = #(bin >= i), mct_i^2 = numerator_i^2 * nm / (sndiff2 (nm - n_i) n_i)
   (0 where the denominator vanishes), first arg-max, my_bin = argmax - 1.  Data are integers (dyadic
   intensities scaled by a power of two); the threshold is min + my_bin (max - min) / (bins - 1).
   Definitions only. *)
From Coq Require Import ZArith QArith List Bool.
From Centro Require Import Base.Sx Base.ThresholdNum Model.OtsuQ.
Import ListNotations.

Definition zmin_l (d : Z) (l : list Z) : Z := fold_left Z.min l d.
Definition zmax_l (d : Z) (l : list Z) : Z := fold_left Z.max l d.
Definition count_eq (j : Z) (l : list Z) : Z := Z.of_nat (length (filter (Z.eqb j) l)).
(* suffix sums: [sum_{j>=i} l_j]_i *)
Fixpoint suffix_sums (l : list Q) : list Q :=
  match l with
  | [] => []
  | x :: r => match suffix_sums r with
              | [] => [x]
              | (s :: _) as t => Qred (Qplus x s) :: t
              end
  end.
Definition qsum_l (l : list Q) : Q := fold_right (fun x a => Qred (Qplus x a)) (Qmake 0 1) l.
Fixpoint argmax_first (best : Q) (bi : nat) (i : nat) (l : list Q) : nat :=
  match l with
  | [] => bi
  | x :: r => if Qlt_le_dec best x then argmax_first x i (S i) r else argmax_first best bi (S i) r
  end.
Definition mct_rows (data : list Z) (bins : Z) : list (Q * Q * Q) :=
  match data with
  | [] => []
  | x0 :: _ =>
      let mn := zmin_l x0 data in let mx := zmax_l x0 data in
      let binned := map (fun x => ((x - mn) * (bins - 1) / (mx - mn))%Z) data in
      let nb := (zmax_l 0 binned + 1)%Z in
      let nm := Z.of_nat (length data) in
      let levels := zseq 0 (Z.to_nat nb) in
      let hist := map (fun j => count_eq j binned) levels in
      let meanv := Qmake (fold_right Z.add 0%Z binned) (Z.to_pos nm) in
      let diff := map (fun j => Qminus (inject_Z j) meanv) levels in
      let ndiff := map (fun p : Z * Q => Qmult (inject_Z (fst p)) (snd p)) (combine hist diff) in
      let sndiff2 := qsum_l (map (fun p : Z * Q => Qmult (inject_Z (fst p)) (Qmult (snd p) (snd p))) (combine hist diff)) in
      let num := suffix_sums ndiff in
      let ni := suffix_sums (map inject_Z hist) in
      map (fun p : Q * Q =>
             let den := Qmult sndiff2 (Qmult (Qminus (inject_Z nm) (snd p)) (snd p)) in
             (fst p, snd p,
              if Qeq_bool den (Qmake 0 1) then Qmake 0 1
              else Qred (Qdiv (Qmult (Qmult (fst p) (fst p)) (inject_Z nm)) den)))
          (combine num ni)
  end.
Definition mct_scores (data : list Z) (bins : Z) : list Q := map snd (mct_rows data bins).
(* arg: (data bins) -> (min max my_bin best second?); [second] = the best score among positions whose
   (numerator, n_i) differ from the arg-max's: positions with the same pair (runs of empty bins) hold the
   very same floating-point value in the code, so that tie is broken identically (first index) *)
Definition entry_mct (x : sx) : sx :=
  let data := as_Zs (arg 0 x) in
  let bins := as_Z (arg 1 x) in
  let rows := mct_rows data bins in
  let sc := map snd rows in
  match data, sc with
  | x0 :: _, s0 :: r =>
      let k := argmax_first s0 0 1 r in
      let kr := nth k rows (Qmake 0 1, Qmake 0 1, Qmake 0 1) in
      let others := map snd (filter (fun t : Q * Q * Q =>
                      negb (Qeq_bool (fst (fst t)) (fst (fst kr)) && Qeq_bool (snd (fst t)) (snd (fst kr)))) rows) in
      L [I (zmin_l x0 data); I (zmax_l x0 data); I (Z.of_nat k - 1); of_Q (snd kr);
         match others with [] => L [] | o0 :: r' => L [of_Q (nth (argmax_first o0 0 1 r') others (Qmake 0 1))] end]
  | _, _ => L []
  end.
