(* C19 — bounds-checked model of _cpmorphology2.pyx:trace_outlines (lines 586-675).  labels is the
   raveled (possibly zero-padded) label matrix, firsts the start index of every object, stride_table
   and new_direction_table have 8 entries, output / output_count are the caller's result buffers.
   Definitions only. *)
From Coq Require Import ZArith List Bool.
From Centro Require Import Base.ArrC19.
Import ListNotations.
Open Scope Z_scope.

(* `for traversal_idx from 0 <= traversal_idx < 8: ... if p_labels[test_location] == current_label: break`
   Some (Some (entry, test_location)) = hit, Some None = the for-else (isolated point) *)
Fixpoint probe (labels strides : list Z) (loc lab dir : Z) (ks : list Z) : option (option (Z * Z)) :=
  match ks with
  | [] => Some None
  | k :: t =>
      let e := Z.land (k + dir) 7 in                         (* (traversal_idx + current_direction) & 7 *)
      do st <- rd strides e;
      let tl := loc + st in
      do lv <- rd labels tl;                                 (* p_labels[test_location] *)
      if lv =? lab then Some (Some (e, tl)) else probe labels strides loc lab dir t
  end.

(* `while output_idx < output_end:` ... `else: overrun = 1` ; result (output, output_idx, overrun) *)
Fixpoint walk (fuel : nat) (labels strides newdir : list Z) (first lab loc dir : Z)
              (out : list Z) (oidx oend : Z) : option (list Z * Z * bool) :=
  match fuel with
  | O => Some (out, oidx, false)
  | S f =>
      if oidx <? oend then
        do out' <- wr out oidx loc;                          (* p_output[output_idx] = current_location *)
        do r <- probe labels strides loc lab dir [0; 1; 2; 3; 4; 5; 6; 7];
        match r with
        | None => Some (out', oidx + 1, false)
        | Some (e, tl) =>
            if tl =? first then Some (out', oidx + 1, false)
            else do nd <- rd newdir e;                       (* new_direction_table[traversal_entry] *)
                 walk f labels strides newdir first lab tl nd out' (oidx + 1) oend
        end
      else Some (out, oidx, true)
  end.

Record tstate : Type := mkt { t_out : list Z; t_oidx : Z; t_counts : list Z; t_over : bool }.

Definition trace_one (fuel : nat) (labels firsts strides newdir : list Z) (s : tstate) (k : Z) : option tstate :=
  if t_over s then Some s else                               (* `break` out of the outer loop *)
  do f0 <- rd firsts k;                                      (* current_location = p_firsts[first_idx] *)
  do lab <- rd labels f0;                                    (* current_label = p_labels[current_location] *)
  do r <- walk fuel labels strides newdir f0 lab f0 2 (t_out s) (t_oidx s) (zlen (t_out s));
  let '(out', oidx', over) := r in
  if over then Some (mkt out' oidx' (t_counts s) true)
  else do c' <- wr (t_counts s) k (oidx' - t_oidx s);        (* p_output_count[first_idx] = ... *)
       Some (mkt out' oidx' c' false).

Definition trace_outlines (fuel : nat) (labels firsts strides newdir out counts : list Z) : option tstate :=
  if (zlen strides =? 8) && (zlen newdir =? 8)                (* the two asserts *)
  then foldM (trace_one fuel labels firsts strides newdir) (zrange 0 (zlen firsts)) (mkt out 0 counts false)
  else Some (mkt out 0 counts false).

(* every TRACED object (a label found at one of the start indices) lies strictly inside the array:
   all 8 neighbours of each of its cells are cells; every start index is a cell; one count slot per
   object.  Objects that are not traced may touch the border (get_outline_pts pads only when a
   requested label does). *)
Definition traced (labels firsts : list Z) : list Z :=
  flat_map (fun f => match rd labels f with Some v => [v] | None => [] end) firsts.
Definition memb (v : Z) (l : list Z) : bool := existsb (fun x => x =? v) l.
Definition kernel_pre_trace (labels firsts strides : list Z) (countslen : Z) : bool :=
  (zlen firsts <=? countslen) &&
  forallb (fun f => inb f (zlen labels)) firsts &&
  forallb (fun p => match rd labels p with
                    | Some v => negb (memb v (traced labels firsts)) ||
                                forallb (fun st => inb (p + st) (zlen labels)) strides
                    | None => false
                    end) (zrange 0 (zlen labels)).
