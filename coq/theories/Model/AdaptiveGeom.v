(* C11 — geometry of get_adaptive_threshold as written (threshold.py:220-281), in the code's own binary64
   arithmetic: nblocks = image_size // window; increment = float(size) / float(nblocks);
   block i = [int(i * increment), int((i + 1) * increment)); spline knots from int(increment / 2) to
   int((nblocks - 0.5) * increment); spline order min(3, min(nblocks) - 1); output abscissae end at
   int(nblocks * increment) - 0.5.  Definitions only. *)
From Coq Require Import ZArith QArith Qround List Bool.
From Centro Require Import Base.Sx Base.ThresholdNum.
Import ListNotations.

Definition fdiv (a b : Q) : Q := round64 (Qdiv a b).
(* int(x) for a non-negative float *)
Definition ftrunc (q : Q) : Z := Qfloor q.
(* [int(i * inc) for i in 0..n] *)
Definition bounds (n : nat) (inc : Q) : list Z :=
  map (fun i => ftrunc (fmul (inject_Z (Z.of_nat i)) inc)) (seq 0 (S n)).

Record axis : Type := mkAxis
  { ax_n : Z;              (* number of blocks *)
    ax_bounds : list Z;    (* n+1 block boundaries *)
    ax_start : Z;          (* int(increment / 2) *)
    ax_end : Z;            (* int((n - 0.5) * increment) *)
    ax_out_end : Z }.      (* int(n * increment) *)
Definition axis_geom (size win : Z) : axis :=
  let n := (size / win)%Z in
  let inc := fdiv (inject_Z size) (inject_Z n) in
  mkAxis n (bounds (Z.to_nat n) inc)
         (ftrunc (fdiv inc (Qmake 2 1)))
         (ftrunc (fmul (Qminus (inject_Z n) (Qmake 1 2)) inc))
         (ftrunc (fmul (inject_Z n) inc)).
(* the code raises ValueError when a dimension has fewer than two blocks *)
Definition geom_ok (H W win : Z) : bool := (0 <? win)%Z && (2 <=? H / win)%Z && (2 <=? W / win)%Z.
Definition spline_order (H W win : Z) : Z := Z.min 3 (Z.min (H / win) (W / win) - 1).

(* the blocks (r0, c0, h, w) in loop order (i outer, j inner) *)
Fixpoint pairs_of (l : list Z) : list (Z * Z) :=
  match l with
  | a :: ((b :: _) as r) => (a, b) :: pairs_of r
  | _ => []
  end.
Definition blocks_of (H W win : Z) : list (Z * Z * Z * Z) :=
  flat_map (fun rb : Z * Z => map (fun cb : Z * Z => (fst rb, snd rb, fst cb, snd cb))
                                  (pairs_of (ax_bounds (axis_geom W win))))
           (pairs_of (ax_bounds (axis_geom H win))).

Definition of_axis (a : axis) : sx :=
  L [I (ax_n a); of_Zs (ax_bounds a); I (ax_start a); I (ax_end a); I (ax_out_end a)].
(* arg: (H W window) -> () when rejected, else (axis0 axis1 order) *)
Definition entry_geom (x : sx) : sx :=
  let H := as_Z (arg 0 x) in let W := as_Z (arg 1 x) in let win := as_Z (arg 2 x) in
  if geom_ok H W win then L [of_axis (axis_geom H win); of_axis (axis_geom W win); I (spline_order H W win)]
  else L [].
