(* C11 — centrosome.otsu.otsu (two-class, default arguments) over exact arithmetic.
   Data are integers (dyadic intensities scaled by a common power of two; None = NaN), the running
   variances and scores are rationals.  Same phases as the code: NaN filter, len 0 / len 1 cases,
   bins = min(256, n), sort, running_variance by the Welford recurrences as written, the strided
   threshold / score arrays, first arg-min, neighbour average.  Definitions only. *)
From Coq Require Import ZArith QArith List Bool.
From Centro Require Import Base.Sx Base.ThresholdNum.
Import ListNotations.

Fixpoint zinsert (x : Z) (l : list Z) : list Z :=
  match l with
  | [] => [x]
  | y :: r => if (x <=? y)%Z then x :: l else y :: zinsert x r
  end.
Definition zsort (l : list Z) : list Z := fold_right zinsert [] l.

Fixpoint filter_nan (l : list (option Z)) : list Z :=
  match l with
  | [] => []
  | Some x :: r => x :: filter_nan r
  | None :: r => filter_nan r
  end.

Open Scope Q_scope.

(* running_variance(x)[i] for i >= 1:  m = cumsum/arange(1, n+1);  s = cumsum((x[i]-m[i-1])*(x[i]-m[i]));
   var = s/arange(1, n).   [i] is the index of the head of [l], [c] = x[0]+…+x[i-1], [s] = s[i-1] *)
Fixpoint rv_aux (i : Z) (c : Z) (s : Q) (l : list Z) : list Q :=
  match l with
  | [] => []
  | x :: r =>
      let c' := (c + x)%Z in
      let mprev := Qmake c (Z.to_pos i) in
      let m := Qmake c' (Z.to_pos (i + 1)%Z) in
      let s' := Qred (s + (inject_Z x - mprev) * (inject_Z x - m)) in
      (s' / inject_Z i) :: rv_aux (i + 1)%Z c' s' r
  end.
(* np.hstack(([0], var)) *)
Definition running_variance (x : list Z) : list Q :=
  match x with
  | [] => []
  | x0 :: r => Qmake 0 1 :: rv_aux 1 x0 (Qmake 0 1) r
  end.

Fixpoint zseq (start : Z) (n : nat) : list Z :=
  match n with O => [] | S k => start :: zseq (start + 1)%Z k end.

(* l[0::step]: keep the head, skip step-1 elements, … ([k] = elements still to skip) *)
Fixpoint stride_aux {A} (step k : nat) (l : list A) : list A :=
  match l with
  | [] => []
  | x :: r => match k with
              | O => x :: stride_aux step (step - 1)%nat r
              | S k' => stride_aux step k' r
              end
  end.
Definition stride {A} (step : nat) (l : list A) : list A := stride_aux step 0 l.

(* row i (0 <= i <= n-2) = (data[i+1], var[i]*i + rvar[i+1]*(n-(i+1))): thresholds = data[1:n:step] and
   scores = var[0:n-1:step]*arange(0,n-1,step) + rvar[1:n:step]*(n-arange(1,n,step)) are its strides *)
Definition otsu_rows (data : list Z) : list (Z * Q) :=
  let n := length data in
  let nz := Z.of_nat n in
  let var := running_variance data in
  let rvar := rev (running_variance (rev data)) in
  let low := map (fun p : Q * Z => fst p * inject_Z (snd p)) (combine var (zseq 0 n)) in
  let high := map (fun p : Q * Z => fst p * inject_Z (nz - snd p)%Z) (combine rvar (zseq 0 n)) in
  combine (tl data) (map (fun p : Q * Q => fst p + snd p) (combine low (tl high))).

(* scores.min() *)
Definition qminl (d : Q) (l : list Q) : Q := fold_left (fun a b => if Qlt_le_dec b a then b else a) l d.
Fixpoint first_index (m : Q) (l : list Q) (i : nat) : option nat :=
  match l with
  | [] => None
  | s :: r => if Qeq_bool s m then Some i else first_index m r (S i)
  end.

Definition otsu_sorted (data : list Z) : Q :=
  match data with
  | [] => Qmake 0 1
  | [x] => inject_Z x
  | x0 :: _ =>
      let n := length data in
      let bins := Nat.min 256 n in
      let step := Nat.div n bins in
      let rows := stride step (otsu_rows data) in
      let thr := map fst rows in
      let scores := map snd rows in
      let d := hd x0 thr in
      match scores with
      | [] => inject_Z d
      | s0 :: _ =>
          match first_index (qminl s0 scores) scores 0 with
          | None => inject_Z d
          | Some index =>
              let il := match index with O => O | S k => k end in
              let ih := if Nat.eqb index (length thr - 1)%nat then (length thr - 1)%nat else S index in
              Qmake (nth il thr d + nth ih thr d)%Z 2
          end
      end
  end.

Definition otsu (l : list (option Z)) : Q := otsu_sorted (zsort (filter_nan l)).

(* for the harness: the cut, the best score and the smallest score at any other position (conditioning) *)
Fixpoint remove_nth {A} (i : nat) (l : list A) : list A :=
  match l, i with
  | [], _ => []
  | _ :: r, O => r
  | x :: r, S k => x :: remove_nth k r
  end.
Definition otsu_scores (data : list Z) : list Q :=
  let n := length data in
  map snd (stride (Nat.div n (Nat.min 256 n)) (otsu_rows data)).
Definition entry_otsu (x : sx) : sx :=
  let data := zsort (as_Zs x) in
  let scores := otsu_scores data in
  match scores with
  | [] => L [of_Q (otsu_sorted data); of_Q (Qmake 0 1); L []]
  | s0 :: _ =>
      let best := qminl s0 scores in
      let others := match first_index best scores 0 with Some i => remove_nth i scores | None => scores end in
      L [of_Q (otsu_sorted data); of_Q (Qred best);
         match others with [] => L [] | o0 :: _ => L [of_Q (Qred (qminl o0 others))] end]
  end.
