(* C18 — NumPy idioms as list functions (definitions only).  Indices, ranks and counts are
   [nat]; pixel values are [Z] (dyadic floats scaled to integers by the harness). *)
From Coq Require Import ZArith List Bool Arith.
From Centro Require Import Base.SortC18.
Import ListNotations.
Local Open Scope nat_scope.

Definition getn (l : list nat) (i : nat) : nat := nth i l 0.
Definition getz (l : list Z) (i : nat) : Z := nth i l 0%Z.
Definition b2n (b : bool) : nat := if b then 1 else 0.

Fixpoint map2 {A B C} (f : A -> B -> C) (l1 : list A) (l2 : list B) : list C :=
  match l1, l2 with
  | a :: r1, b :: r2 => f a b :: map2 f r1 r2
  | _, _ => []
  end.

(* np.cumsum *)
Fixpoint ncumsum_from (acc : nat) (l : list nat) : list nat :=
  match l with [] => [] | x :: r => (acc + x) :: ncumsum_from (acc + x) r end.
Definition ncumsum (l : list nat) : list nat := ncumsum_from 0 l.
Definition nsum (l : list nat) : nat := fold_right Nat.add 0 l.

(* a[mask] *)
Fixpoint compress {A} (m : list bool) (l : list A) : list A :=
  match m, l with
  | b :: m', x :: l' => if b then x :: compress m' l' else compress m' l'
  | _, _ => []
  end.

(* a[i] = v on a copy *)
Fixpoint set_nth {A} (i : nat) (v : A) (l : list A) : list A :=
  match l, i with
  | [], _ => []
  | _ :: r, O => v :: r
  | x :: r, S k => x :: set_nth k v r
  end.

(* base[idx] = vals  (fancy-index assignment, in order: the last write wins) *)
Definition scatter {A} (idx : list nat) (vals : list A) (base : list A) : list A :=
  fold_left (fun acc p => set_nth (fst p) (snd p) acc) (combine idx vals) base.

(* a[:-1] != a[1:] *)
Fixpoint adj_diff (l : list Z) : list bool :=
  match l with
  | x :: ((y :: _) as r) => negb (Z.eqb x y) :: adj_diff r
  | _ => []
  end.
Fixpoint nadj_diff (l : list nat) : list bool :=
  match l with
  | x :: ((y :: _) as r) => negb (Nat.eqb x y) :: nadj_diff r
  | _ => []
  end.

Definition ncount (k : nat) (l : list nat) : nat := length (filter (Nat.eqb k) l).

(* np.bincount(l, minlength=m) for non-negative l *)
Definition bincount (l : list nat) (minlength : nat) : list nat :=
  let n := match l with [] => minlength | _ => Nat.max (S (list_max l)) minlength end in
  map (fun k => ncount k l) (seq 0 n).

(* np.where(mask)[0] *)
Definition where_true (m : list bool) : list nat := compress m (seq 0 (length m)).

(* stable index sort by (primary k1, secondary k2): np.lexsort((k2, k1)) *)
Definition lexsort (k2 k1 : list Z) : list nat :=
  map t_ix (tsort (combine (combine k1 k2) (seq 0 (length k1)))).
(* a stable argsort *)
Definition argsort (a : list Z) : list nat := lexsort (map (fun _ => 0%Z) a) a.
