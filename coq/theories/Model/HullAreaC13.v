(* C13 — calculate_convex_hull_areas / calculate_solidity: the value of one object as a function
   of its own hull vertex list (the per-object view of the vectorised bookkeeping: offsets by
   cumsum(counts_nd), modulo wrap to the object's first vertex, scind.sum by label), over Q, and
   its composition with the C02 model of convex_hull_ijv.  Definitions only. *)
From Coq Require Import ZArith QArith Qabs List Bool.
From Centro Require Import Base.Sx Model.Hull.
Import ListNotations.
Open Scope Z_scope.

Definition qsumz (l : list Z) : Q := inject_Z (fold_left Z.add l 0).

(* (kind, value): kind 0 = the area itself; kind 2 = a two-point hull, value = squared distance
   (the code returns sqrt(value) + 1) *)
Definition hull_area_obj (vs : list (Z * Z)) : Z * Q :=
  match vs with
  | [] => (0, 0%Q)
  | [_] => (0, 1%Q)
  | [p; q] => (2, inject_Z ((fst p - fst q) * (fst p - fst q) + (snd p - snd q) * (snd p - snd q)))
  | _ =>
      let n := inject_Z (Z.of_nat (length vs)) in
      (* within_hull = mean of the vertices *)
      let wy := (qsumz (map fst vs) / n)%Q in
      let wx := (qsumz (map snd vs) / n)%Q in
      (* hull_nd[hull_nd[:, 1] >= within_hull[:, 0], 1] += 1 ; same for column 2 *)
      let adj := map (fun p : Z * Z =>
                        (if Qle_bool wy (inject_Z (fst p)) then fst p + 1 else fst p,
                         if Qle_bool wx (inject_Z (snd p)) then snd p + 1 else snd p)) vs in
      (* plus_one_idx with the modulo wrap *)
      let nxt := tl adj ++ [hd (0, 0) adj] in
      (* triangle_areas(p1, p2, within) *)
      let tri := fun pq : (Z * Z) * (Z * Z) =>
                   let p1 := fst pq in
                   let p2 := snd pq in
                   let v1y := inject_Z (fst p2 - fst p1) in
                   let v1x := inject_Z (snd p2 - snd p1) in
                   let v2y := (wy - inject_Z (fst p1))%Q in
                   let v2x := (wx - inject_Z (snd p1))%Q in
                   (Qabs (v1x * v2y - v2x * v1y) / 2)%Q in
      (0, Qred (fold_left Qplus (map tri (combine adj nxt)) 0%Q))
  end.

(* the batch: one value per requested label, from the rows of Model.Hull.convex_hull_ijv *)
Definition hull_areas_rows (rows : list (Z * list pt)) : list (Z * Q) :=
  map (fun r => hull_area_obj (snd r)) rows.

(* ((i j) ...) -> (kind num den) *)
Definition entry_hull_area (x : sx) : sx :=
  let r := hull_area_obj (as_pairs x) in
  L [I (fst r); I (Qnum (snd r)); I (Zpos (Qden (snd r)))].
