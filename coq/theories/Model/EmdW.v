(* C10 — the AS-WRITTEN int32 model of FastEMD: the whole pipeline (wrapper, emd_hat_gd_metric
   pre-flow, graph construction of emd_hat_impl.hpp, the line-level min_cost_flow.hpp, flow read-back,
   transform_flow_to_regular, my_dist) with a function [w : Z -> Z] applied to the result of EVERY
   addition, subtraction, negation and multiplication the C++ performs in NUM_T = int.
   [w := fun z => z] is the exact model (the same computation as Model.EmdMcf / Model.Emd);
   [w := wrap32] is the code as written for int (two's complement wrap-around, -fwrapv).
   The solver loop is run for a bounded number of augmentations (2^w_levels).  Definitions only. *)
From Coq Require Import ZArith List Bool.
From Centro Require Import Base.Sx Base.EmdBase Model.Emd Model.EmdMcf Model.EmdAsIs.
Import ListNotations.
Open Scope Z_scope.

Section W.
Variable w : Z -> Z.

(* sequential accumulation  s += x  in int *)
Definition wsum (l : list Z) : Z := fold_left (fun s x => w (s + x)) l 0.

Definition relax_w (u : nat) (du : Z) (st : sp_state) (v : nat) (rc : Z) : option sp_state :=
  let alt := w (du + rc) in
  pos <- oget (snd (sp_h st)) v ;;
  if (pos <? length (fst (sp_h st)))%nat then
    qv <- oget (fst (sp_h st)) pos ;;
    if alt <? snd qv then
      h' <- heap_decrease_key (sp_h st) v alt ;;
      Some {| sp_h := h'; sp_d := sp_d st; sp_prev := upd (sp_prev st) v (fun _ => u); sp_final := sp_final st |}
    else Some st
  else Some st.

Fixpoint relax_fwd_w (u : nat) (du : Z) (st : sp_state) (l : list (nat * Z)) : option sp_state :=
  match l with
  | [] => Some st
  | (v, rc) :: r => st' <- relax_w u du st v rc ;; relax_fwd_w u du st' r
  end.
Fixpoint relax_bwd_w (u : nat) (du : Z) (st : sp_state) (l : list (nat * Z * Z)) : option sp_state :=
  match l with
  | [] => Some st
  | (v, rc, cap) :: r => if 0 <? cap then (st' <- relax_w u du st v rc ;; relax_bwd_w u du st' r) else relax_bwd_w u du st r
  end.

(* do { ... } while (!Q.empty()); result: the state and the deficit node l *)
Fixpoint dijkstra_w (fuel : nat) (e : list Z) (rf : list (list (nat * Z))) (rb : list (list (nat * Z * Z)))
         (st : sp_state) : option (sp_state * nat) :=
  match fuel with
  | O => None
  | S f =>
      q0 <- oget (fst (sp_h st)) 0 ;;
      let u := fst q0 in
      let st1 := {| sp_h := sp_h st; sp_d := upd (sp_d st) u (fun _ => snd q0); sp_prev := sp_prev st;
                    sp_final := upd (sp_final st) u (fun _ => true) |} in
      if nz e u <? 0 then Some (st1, u) else
      h' <- heap_remove_first (sp_h st1) ;;
      let st2 := {| sp_h := h'; sp_d := sp_d st1; sp_prev := sp_prev st1; sp_final := sp_final st1 |} in
      st3 <- relax_fwd_w u (snd q0) st2 (nth u rf []) ;;
      st4 <- relax_bwd_w u (snd q0) st3 (nth u rb []) ;;
      match fst (sp_h st4) with
      | [] => None        (* the C++ loop would leave with l uninitialised *)
      | _ => dijkstra_w f e rf rb st4
      end
  end.

Definition fin (fl : list bool) (v : nat) : bool := nth v fl false.

(* the reduced-cost update of one arc fr -> to after a shortest-path computation that ended at a
   node of distance dl: finalised end points shift by (d - dl) *)
Definition rc_update_w (fl : list bool) (dd : list Z) (dl : Z) (fr to : nat) (rc : Z) : Z :=
  let rc1 := if fin fl fr then w (rc + w (nz dd fr - dl)) else rc in
  if fin fl to then w (rc1 - w (nz dd to - dl)) else rc1.

Definition compute_shortest_path_w (nv : nat) (d : list Z) (prev : list nat) (from : nat)
           (rf : list (list (nat * Z))) (rb : list (list (nat * Z * Z))) (e : list Z)
  : option (list Z * list nat * list (list (nat * Z)) * list (list (nat * Z * Z)) * nat) :=
  let st0 := {| sp_h := heap_init nv from; sp_d := d; sp_prev := prev; sp_final := repeat false nv |} in
  r <- dijkstra_w (S nv) e rf rb st0 ;;
  let '(st, l) := r in
  let dd := sp_d st in
  let fl := sp_final st in
  let dl := nz dd l in
  let adj := rc_update_w fl dd dl in
  let rf' := map (fun fx => map (fun en => (fst en, adj (fst fx) (fst en) (snd en))) (snd fx))
                 (combine (seq 0 nv) rf) in
  let rb' := map (fun fx => map (fun en => (fst (fst en), adj (fst fx) (fst (fst en)) (snd (fst en)), snd en)) (snd fx))
                 (combine (seq 0 nv) rb) in
  Some (dd, sp_prev st, rf', rb', l).


(* find delta (minimum on the path from k to l) *)
Fixpoint scan_delta_w (fuel : nat) (prev : list nat) (rb : list (list (nat * Z * Z))) (k to : nat) (delta : Z) : option Z :=
  match fuel with
  | O => None
  | S f =>
      let from := nth to prev O in
      let delta' := match find_bwd (nth from rb []) to with
                    | Some en => if snd en <? delta then snd en else delta
                    | None => delta
                    end in
      if (from =? k)%nat then Some delta' else scan_delta_w f prev rb k from delta'
  end.

Record mcf_state_w := {
  m_e_w : list Z; m_x_w : list (list (nat * Z * Z));
  m_rf_w : list (list (nat * Z)); m_rb_w : list (list (nat * Z * Z));
  m_d_w : list Z; m_prev_w : list nat }.

Fixpoint augment_w (fuel : nat) (prev : list nat) (k to : nat) (delta : Z)
         (e : list Z) (x : list (list (nat * Z * Z))) (rb : list (list (nat * Z * Z)))
  : option (list Z * list (list (nat * Z * Z)) * list (list (nat * Z * Z))) :=
  match fuel with
  | O => None
  | S f =>
      let from := nth to prev O in
      xf <- upd_first_x (nth from x []) to (fun fl => w (fl + delta)) ;;
      let x' := upd x from (fun _ => xf) in
      let rb1 := upd rb to (fun l => upd_first_bwd l from (fun c => w (c + delta))) in
      let rb2 := upd rb1 from (fun l => upd_first_bwd l to (fun c => w (c - delta))) in
      let e' := upd (upd e to (fun v => w (v + delta))) from (fun v => w (v - delta)) in
      if (from =? k)%nat then Some (e', x', rb2) else augment_w f prev k from delta e' x' rb2
  end.

Inductive mstep_w := MDone_w (st : mcf_state_w) | MMore_w (st : mcf_state_w) | MFail_w.

Definition mcf_step_w (st : mcf_state_w) : mstep_w :=
  let e := m_e_w st in
  let nv := length e in
  let '(maxSupply, k) := pick_supply e O 0 O in
  if maxSupply =? 0 then MDone_w st else
  match compute_shortest_path_w nv (m_d_w st) (m_prev_w st) k (m_rf_w st) (m_rb_w st) e with
  | None => MFail_w
  | Some (d, prev, rf, rb, l) =>
      if (l =? k)%nat then MFail_w else
      match scan_delta_w nv prev rb k l maxSupply with
      | None => MFail_w
      | Some delta =>
          match augment_w nv prev k l delta e (m_x_w st) rb with
          | None => MFail_w
          | Some (e', x', rb') =>
              MMore_w {| m_e_w := e'; m_x_w := x'; m_rf_w := rf; m_rb_w := rb'; m_d_w := d; m_prev_w := prev |}
          end
      end
  end.

Fixpoint mcf_iter_w (k : nat) (st : mcf_state_w) : mstep_w :=
  match k with
  | O => mcf_step_w st
  | S k' => match mcf_iter_w k' st with MMore_w st' => mcf_iter_w k' st' | r => r end
  end.

Definition mcf_init_w (e : list Z) (c : list (list (nat * Z))) : mcf_state_w :=
  let nv := length e in
  let arcs := mk_arcs c in
  {| m_e_w := e; m_x_w := x_of nv arcs;
     m_rf_w := map (fun l => map (fun tc => (fst tc, snd tc)) l) c;
     m_rb_w := map (fun v => flat_map (fun a => if (a_to a =? v)%nat then [(a_from a, w (- a_cost a), 0)] else []) arcs) (seq 0 nv);
     m_d_w := repeat 0 nv; m_prev_w := repeat O nv |}.


Definition w_levels : nat := 10.

(* status: 0 = Done, 1 = not finished within 2^w_levels augmentations, 2 = Fail *)
Definition min_cost_flow_w (e : list Z) (c : list (list (nat * Z))) : Z * Z * list (list (nat * Z * Z)) :=
  match mcf_iter_w w_levels (mcf_init_w e c) with
  | MDone_w st => (0, fold_left (fun s l => fold_left (fun s en => w (s + w (snd (fst en) * snd en))) l s) (m_x_w st) 0, m_x_w st)
  | MMore_w st => (1, 0, m_x_w st)
  | MFail_w => (2, 0, [])
  end.

(* ---------------------------------------------------------------- emd_hat_impl.hpp in int *)
Definition reduce_w (Pc Qc : list Z) (Cc : list (list Z)) (emp : Z) : reduced :=
  let N := length Pc in
  let sumP := wsum Pc in
  let sumQ := wsum Qc in
  let swap := sumP <? sumQ in
  let P := if swap then Qc else Pc in
  let Q := if swap then Pc else Qc in
  let C := fun i j => if swap then mz Cc j i else mz Cc i j in
  let diff := if swap then w (sumQ - sumP) else w (sumP - sumQ) in
  let idx := seq 0 N in
  let TH := (2 * N)%nat in
  let AR := (2 * N + 1)%nat in
  let maxC := fold_left (fun a i => fold_left (fun a j => if a <? C i j then C i j else a) idx a) idx 0 in
  let pen := if emp =? -1 then maxC else emp in
  let regular := fun i j => negb (nz P i =? 0) && negb (nz Q j =? 0) && negb (C i j =? maxC) in
  let ac := w (maxC + 1) in
  let c_src := fun i => map (fun j => ((j + N)%nat, C i j)) (filter (regular i) idx) ++ [(TH, 0); (AR, ac)] in
  let c := map c_src idx ++ map (fun _ => [(AR, ac)]) idx
           ++ [map (fun j => ((j + N)%nat, maxC)) idx ++ [(AR, ac)]]
           ++ [map (fun i => (i, ac)) (seq 0 AR)] in
  let b := P ++ map (fun x => w (- x)) Q ++ [w (- diff); 0] in
  let in_set := fun v => if (v <? N)%nat then existsb (regular v) idx
                         else existsb (fun i => regular i (v - N)%nat) idx in
  let keep := fun v => negb (nz b v =? 0) && in_set v in
  let gone := filter (fun v => negb (nz b v =? 0) && negb (in_set v)) (seq 0 (2 * N)) in
  let pre := fold_left (fun s v => if (N <=? v)%nat then w (s - w (nz b v * maxC)) else s) gone 0 in
  let bT := fold_left (fun s v => w (s + nz b v)) gone (nz b TH) in
  let kept := filter keep (seq 0 (2 * N)) in
  let old := kept ++ [TH; AR] in
  let bb := map (nz b) kept ++ [bT; 0] in
  {| r_N := N; r_swap := swap; r_diff := diff; r_maxC := maxC; r_pen := pen; r_pre := pre;
     r_old := old; r_bb := bb; r_cc := rename_cc old c |}.

Definition read_back_w (r : reduced) (x : list (list (nat * Z * Z))) (F0 : list (list Z)) : list (list Z) :=
  let N := r_N r in
  let newT := (length (r_old r) - 2)%nat in
  fold_left (fun F fx =>
    let nf := fst fx in
    fold_left (fun F en =>
      let to := fst (fst en) in
      let flow := snd en in
      if (nf =? newT)%nat || (to =? newT)%nat then F else
      let rev := (to <? nf)%nat in
      let i := if rev then nn (r_old r) to else nn (r_old r) nf in
      let jn := if rev then nn (r_old r) nf else nn (r_old r) to in
      if flow =? 0 then F else
      if (jn <? N)%nat then F else
      let j := (jn - N)%nat in
      let '(i, j) := if r_swap r then (j, i) else (i, j) in
      if rev then upd2 F i j (fun y => w (y - flow)) else upd2 F i j (fun y => w (y + flow)))
      (snd fx) F)
    (combine (seq 0 (length x)) x) F0.

Fixpoint tf_loop_w (fuel : nat) (N : nat) (i j : nat) (fP fQ : list Z) (F : list (list Z)) : option (list (list Z)) :=
  let i' := skipz N N fP i in
  let j' := skipz N N fQ j in
  if (i' =? N)%nat || (j' =? N)%nat then Some F else
  match fuel with
  | O => None
  | S f =>
      let a := nz fP i' in let b := nz fQ j' in
      if a <? b
      then tf_loop_w f N i' j' (upd fP i' (fun _ => 0)) (upd fQ j' (fun y => w (y - a))) (upd2 F i' j' (fun y => w (y + a)))
      else tf_loop_w f N i' j' (upd fP i' (fun y => w (y - b))) (upd fQ j' (fun _ => 0)) (upd2 F i' j' (fun y => w (y + b)))
  end.

Definition transform_w (F : list (list Z)) (P Q : list Z) : option (list (list Z)) :=
  let N := length P in
  let idx := seq 0 N in
  let fP := map (fun i => fold_left (fun s j => w (s - mz F i j)) idx (nz P i)) idx in
  let fQ := map (fun j => fold_left (fun s i => w (s - mz F i j)) idx (nz Q j)) idx in
  tf_loop_w (S (2 * N)) N O O fP fQ F.

(* status, distance, flow *)
Definition emd_impl_w (ft : Z) (POrig QOrig Pc Qc : list Z) (Cc : list (list Z)) (emp : Z)
           (F0 : list (list Z)) : Z * Z * list (list Z) :=
  let r := reduce_w Pc Qc Cc emp in
  let '(status, mcf_dist, x) := min_cost_flow_w (r_bb r) (r_cc r) in
  if negb (status =? 0) then (status, 0, []) else
  let F1 := if ft =? 0 then F0 else read_back_w r x F0 in
  let my_dist := w (w (r_pre r + mcf_dist) + w (r_diff r * r_pen r)) in
  if ft =? 2 then
    match transform_w F1 POrig QOrig with
    | None => (3, my_dist, F1)          (* transform_flow_to_regular does not terminate *)
    | Some F2 => (0, my_dist, F2)
    end
  else (0, my_dist, F1).

Definition preflow_w (P Q : list Z) : list (Z * Z * Z) :=
  map (fun pq => let p := fst pq in let q := snd pq in
                 if p <? q then (0, w (q - p), p) else (w (p - q), 0, q)) (combine P Q).

Definition emd_hat_w (ft : Z) (gd : bool) (P Q : list Z) (C : list (list Z)) (emp : Z) : Z * Z * list (list Z) :=
  let N := length P in
  if gd then
    let pf := preflow_w P Q in
    emd_impl_w ft P Q (map (fun t => fst (fst t)) pf) (map (fun t => snd (fst t)) pf) C emp (diag_mat (map snd pf))
  else emd_impl_w ft P Q P Q C emp (zmat N).

Definition emd_hat_int32_w (p q : list Z) (c : list (list Z)) (pen : option Z) (ft : Z) (gd : bool) : Z * Z * list (list Z) :=
  let plen := length p in
  let qlen := length q in
  let '(vp, vq, vc) :=
    if (qlen <? plen)%nat then (p, resize plen q, map (resize plen) c)
    else if (plen <? qlen)%nat then (resize qlen p, q, c ++ repeat (zeros qlen) (qlen - plen))
    else (p, q, c) in
  let emp := match pen with Some v => v | None => -1 end in
  let '(status, d, F) := emd_hat_w ft gd vp vq vc emp in
  if ft =? 0 then (status, d, []) else (status, d, map (firstn qlen) (firstn plen F)).
End W.

Definition exactw (z : Z) : Z := z.

(* wire: (p q c pen? flow_type gd_metric) -> (status dist F), as written for int *)
Definition entry_w32 (x : sx) : sx :=
  let pen := match as_list (arg 3 x) with [] => None | v :: _ => Some (as_Z v) end in
  let '(s, d, F) := emd_hat_int32_w wrap32 (as_Zs (arg 0 x)) (as_Zs (arg 1 x)) (as_Zss (arg 2 x)) pen
                                    (as_Z (arg 4 x)) (as_bool (arg 5 x)) in
  L [I s; I d; of_Zss F].
(* the same pipeline without wrapping *)
Definition entry_wex (x : sx) : sx :=
  let pen := match as_list (arg 3 x) with [] => None | v :: _ => Some (as_Z v) end in
  let '(s, d, F) := emd_hat_int32_w exactw (as_Zs (arg 0 x)) (as_Zs (arg 1 x)) (as_Zss (arg 2 x)) pen
                                    (as_Z (arg 4 x)) (as_bool (arg 5 x)) in
  L [I s; I d; of_Zss F].
