(* C18 — line-level model of cpmorphology.median_of_labels (after fix F5: bincount with
   minlength, and after the repeated-request repair: the result is gathered through the anti-index
   table).  Pixel values are integers (the harness sends 2*value for dyadic values so that
   the halving of the even case is exact); NaN is [None].  Definitions only. *)
From Coq Require Import ZArith List Bool Arith.
From Centro Require Import Base.SortC18 Model.VecC18.
Import ListNotations.
Local Open Scope nat_scope.

Definition median_of_labels (image : list Z) (labels indices : list nat) : list (option Z) :=
  match indices with
  | [] => []
  | _ =>
      let n := S (Nat.max (list_max labels) (list_max indices)) in
      let include_tab := scatter indices (repeat true (length indices)) (repeat false n) in
      let anti_indices := scatter indices (seq 0 (length indices)) (repeat 0 n) in
      let include := map (fun l => nth l include_tab false) labels in
      let labels1 := map (getn anti_indices) (compress include labels) in
      let image1 := compress include image in
      match labels1 with
      | [] => repeat None (length indices)
      | _ =>
          let index := lexsort image1 (map Z.of_nat labels1) in
          let labels2 := map (getn labels1) index in
          let image2 := map (getz image1) index in
          let counts := bincount labels2 (length indices) in
          let last := ncumsum counts in
          let first := 0 :: removelast last in
          (* first + (counts-1)//2; for counts = 0 NumPy gives first-1, never read *)
          let middle_low := map2 (fun f c => f + (c - 1) / 2) first counts in
          let median :=
            map (fun k =>
                   let c := getn counts k in
                   if c =? 0 then None
                   else let m := getz image2 (getn middle_low k) in
                        if Nat.even c
                        then Some ((m + getz image2 (S (getn middle_low k))) / 2)%Z
                        else Some m)
                (seq 0 (length indices)) in
          (* return median[anti_indices[indices]]  (repair F21: a label requested more than once
             owns only its LAST position in the anti-index table; every occurrence reads that one) *)
          map (fun l => nth (getn anti_indices l) median None) indices
      end
  end.
