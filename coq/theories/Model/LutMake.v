(* C06 — executable model of the table construction helpers of cpmorphology.py: make_table,
   pattern_of, index_of (3x3 patterns flattened row by row).  Definitions only. *)
From Coq Require Import ZArith List Bool.
From Centro Require Import Base.Sx Base.LutBits Spec.LutRule Spec.LutDocs Model.Lut.
Import ListNotations.
Open Scope Z_scope.

(* fn(index, p, i, j): (((index & 2 ** p) > 0) == pattern[i, j]) or not care[i, j] *)
Definition mt_fn (index : Z) (pattern care : list bool) (p : nat) : bool :=
  Bool.eqb (0 <? Z.land index (2 ^ Z.of_nat p)) (nth p pattern false) || negb (nth p care false).

(* [value if (fn(i,0,0,0) and ... and fn(i,8,2,2)) else not value for i in range(512)] *)
Definition make_table (value : bool) (pattern care : list bool) : list bool :=
  map (fun i => if forallb (mt_fn i pattern care) (seq 0 9) then value else negb value) idx512.

(* np.array([[index & 2**0, ...], ...], bool) *)
Definition pattern_of (index : Z) : list bool :=
  map (fun p => negb (Z.land index (2 ^ Z.of_nat p) =? 0)) (seq 0 9).

(* pattern[0,0] * 2**0 + pattern[0,1] * 2**1 + ... + pattern[2,2] * 2**8 *)
Definition index_of (pattern : list bool) : Z :=
  fold_left (fun acc p => acc + Z.b2z (nth p pattern false) * 2 ^ Z.of_nat p) (seq 0 9) 0.

(* the specification of make_table as a predicate on the nine bits *)
Definition mk_rule (value : bool) (pattern care bits : list bool) : bool :=
  if forallb (fun p => Bool.eqb (nth p bits false) (nth p pattern false) || negb (nth p care false)) (seq 0 9)
  then value else negb value.

(* [value; pattern(9); care(9)] -> table *)
Definition entry_mk (x : sx) : sx :=
  of_bools (make_table (as_bool (arg 0 x)) (as_bools (arg 1 x)) (as_bools (arg 2 x))).
(* [index] -> [pattern_of index; index_of (pattern_of index)] *)
Definition entry_pat (x : sx) : sx :=
  let pt := pattern_of (as_Z (arg 0 x)) in L [of_bools pt; I (index_of pt)].

(* [value; pattern(9); care(9)] -> the table of the specification predicate *)
Definition entry_mkspec (x : sx) : sx :=
  of_bools (doc_table (mk_rule (as_bool (arg 0 x)) (as_bools (arg 1 x)) (as_bools (arg 2 x)))).
