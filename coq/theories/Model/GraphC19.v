(* C19 — bounds-checked model of _cpmorphology2.pyx:_all_connected_components (lines 255-395).
   label, v_idx, stack_v are arrays of n = counts.shape[0] entries allocated by the kernel;
   j / indexes / counts are the caller's.  UNDEFINED (uint32 -1) is modelled as -1.
   The explicit stack stack_v[0 .. stack_ptr) is the list [stk] (top first, stack_ptr = its length);
   the write `stack_v[stack_ptr] = v1` is checked against the capacity n.  Definitions only. *)
From Coq Require Import ZArith List Bool.
From Centro Require Import Base.ArrC19.
Import ListNotations.
Open Scope Z_scope.

Record cc : Type := mkcc { label : list Z; vidx : list Z; stk : list Z; cur : Z }.
Definition UNDEF : Z := -1.

(* one iteration of `while stack_ptr > 0` *)
Definition cc_step (n : Z) (jarr indexes counts : list Z) (s : cc) : option cc :=
  match stk s with
  | [] => Some s
  | vv :: rest =>                                            (* vv = stack_v[stack_ptr-1] *)
      do vi <- rd (vidx s) vv;
      do s1 <- (if vi =? UNDEF
                then do l' <- wr (label s) vv (cur s);       (* label[vv] = cur_index *)
                     do v' <- wr (vidx s) vv 0;              (* v_idx[vv] = 0 *)
                     Some (mkcc l' v' (stk s) (cur s))
                else Some s);
      do vi1 <- rd (vidx s1) vv;
      do cnt <- rd counts vv;
      if vi1 <? cnt then
        do ix <- rd indexes vv;
        do v1 <- rd jarr (ix + vi1);                         (* v1 = j[indexes[vv] + v_idx[vv]] *)
        do v2 <- wr (vidx s1) vv (vi1 + 1);                  (* v_idx[vv] += 1 *)
        do l1 <- rd (label s1) v1;
        if l1 =? UNDEF then
          if zlen (stk s1) <? n                              (* stack_v[stack_ptr] = v1 *)
          then Some (mkcc (label s1) v2 (v1 :: stk s1) (cur s1))
          else None
        else Some (mkcc (label s1) v2 (stk s1) (cur s1))
      else Some (mkcc (label s1) (vidx s1) rest (cur s1))    (* stack_ptr -= 1 *)
  end.

Fixpoint cc_run (fuel : nat) (n : Z) (jarr indexes counts : list Z) (s : cc) : option cc :=
  match fuel with
  | O => Some s
  | S f => match stk s with
           | [] => Some s
           | _ => do s' <- cc_step n jarr indexes counts s; cc_run f n jarr indexes counts s'
           end
  end.

(* `for v in range(n): if label[v] == UNDEFINED: stack_v[0] = v; ...; cur_index += 1` *)
Definition cc_root (fuel : nat) (n : Z) (jarr indexes counts : list Z) (s : cc) (v : Z) : option cc :=
  do l <- rd (label s) v;
  if l =? UNDEF then
    if 0 <? n then                                           (* stack_v[0] = v *)
      do s' <- cc_run fuel n jarr indexes counts (mkcc (label s) (vidx s) [v] (cur s));
      Some (mkcc (label s') (vidx s') [] (cur s' + 1))
    else None
  else Some s.

Definition all_connected_components (fuel : nat) (n : Z) (jarr indexes counts : list Z) : option cc :=
  foldM (cc_root fuel n jarr indexes counts) (zrange 0 n)
        (mkcc (repeat UNDEF (Z.to_nat n)) (repeat UNDEF (Z.to_nat n)) [] 0).

(* indexes/counts have n entries; every vertex's edge segment lies inside j; every edge target is a
   vertex *)
Definition kernel_pre_acc (n : Z) (jarr indexes counts : list Z) : bool :=
  (0 <=? n) && (zlen indexes =? n) && (zlen counts =? n) && forallb (fun v => inb v n) jarr &&
  forallb (fun v => match rd indexes v, rd counts v with
                    | Some s, Some c => (0 <=? s) && (0 <=? c) && (s + c <=? zlen jarr)
                    | _, _ => false
                    end) (zrange 0 n).
