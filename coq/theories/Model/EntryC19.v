(* C19 — wire entries.  [entry_pre (code args..)] evaluates the verified boolean precondition
   kernel_pre_K on the recorded arguments of one real kernel call; [entry_run (code args..)] runs the
   bounds-checked model of kernel K on complete arguments and answers 1 iff it finished without an
   out-of-range access (the instance of the safety theorem, used as a cross-check). *)
From Coq Require Import ZArith List Bool.
From Centro Require Model.ReconC19.
From Centro Require Import Base.Sx Base.ArrC19 Model.MorphC19 Model.HeapC19 Model.LapC19 Model.GraphC19 Model.TraceC19.
From Centro Require Model.FillC19 Model.Hull Model.PreC19.
Import ListNotations.
Open Scope Z_scope.

Definition some_b {A} (o : option A) : bool := match o with Some _ => true | None => false end.
Definition zip_pts (a b : list Z) : list (Z * Z) := combine a b.

Definition entry_pre (x : sx) : sx :=
  let a := fun k => arg k x in
  of_bool
  match as_Z (a 0%nat) with
  | 1 => kernel_pre_tli (as_Z (a 1%nat)) (as_Z (a 2%nat)) (as_Z (a 3%nat)) (as_Z (a 4%nat))
  | 2 => kernel_pre_skel (as_Z (a 1%nat)) (as_Z (a 2%nat)) (as_Z (a 3%nat)) (as_Zs (a 4%nat))
           (as_Zs (a 5%nat)) (as_Zs (a 6%nat)) (as_Z (a 7%nat))
  | 3 => (zlen (as_Zs (a 5%nat)) =? zlen (as_Zs (a 6%nat))) &&
         kernel_pre_il (as_Z (a 1%nat)) (as_Z (a 2%nat)) (as_Z (a 3%nat)) (as_Z (a 4%nat))
           (zip_pts (as_Zs (a 5%nat)) (as_Zs (a 6%nat)))
  (* 4: grey_reconstruction_loop (H W p0 p1 values prev next strides current image_stride) *)
  | 4 => ReconC19.kernel_pre_recon (as_Z (a 1%nat)) (as_Z (a 2%nat)) (as_Z (a 3%nat)) (as_Z (a 4%nat))
           (as_Zs (a 5%nat)) (as_Zs (a 6%nat)) (as_Zs (a 7%nat)) (as_Zs (a 8%nat)) (as_Z (a 9%nat)) (as_Z (a 10%nat))
  (* 5: propagate (rows width pq.size m n coord_i coord_j ((m n) ...)) *)
  | 5 => kernel_pre_propagate (as_Z (a 1%nat)) (as_Z (a 2%nat)) (as_Z (a 3%nat)) (as_Z (a 4%nat)) (as_Z (a 5%nat))
           (as_Zs (a 6%nat)) (as_Zs (a 7%nat)) (as_pairs (a 8%nat))
  (* 6: augmenting_row_reduction (n ii jj idx count y |x| |u| |v| |c|) *)
  | 6 => kernel_pre_arr (as_Z (a 1%nat)) (as_Zs (a 2%nat)) (as_Zs (a 3%nat)) (as_Zs (a 4%nat)) (as_Zs (a 5%nat))
           (as_Zs (a 6%nat)) (as_Z (a 7%nat)) (as_Z (a 8%nat)) (as_Z (a 9%nat)) (as_Z (a 10%nat))
  (* 7: _all_connected_components (n j indexes counts |label|) *)
  | 7 => (as_Z (a 5%nat) =? as_Z (a 1%nat)) &&
         kernel_pre_acc (as_Z (a 1%nat)) (as_Zs (a 2%nat)) (as_Zs (a 3%nat)) (as_Zs (a 4%nat))
  (* 8: trace_outlines (labels firsts stride_table |output_count| |new_direction_table|) *)
  | 8 => (zlen (as_Zs (a 3%nat)) =? 8) && (as_Z (a 5%nat) =? 8) &&
         kernel_pre_trace (as_Zs (a 1%nat)) (as_Zs (a 2%nat)) (as_Zs (a 3%nat)) (as_Z (a 4%nat))
  (* 9: fill_labeled_holes_loop (n |to_do| j idx i_count is_not_hole adjacent_non_hole to_do[:to_do_count]) *)
  | 9 => FillC19.kernel_pre_fill (as_Z (a 1%nat)) (as_Z (a 2%nat)) (as_Zs (a 3%nat)) (as_Zs (a 4%nat))
           (as_Zs (a 5%nat)) (as_Zs (a 6%nat)) (as_Zs (a 7%nat)) (as_Zs (a 8%nat))
  (* 10: convex_hull_ijv (((i j v) ...) indexes) *)
  | 10 => PreC19.kernel_pre_hull (Hull.as_rows (a 1%nat)) (as_Zs (a 2%nat))
  (* 11: median_filter (rows cols rs cs  mrows mcols mrs mcs  orows ocols ors ocs  radius percent) *)
  | 11 => PreC19.kernel_pre_median (as_Z (a 1%nat)) (as_Z (a 2%nat)) (as_Z (a 3%nat)) (as_Z (a 4%nat))
            (as_Z (a 5%nat)) (as_Z (a 6%nat)) (as_Z (a 7%nat)) (as_Z (a 8%nat))
            (as_Z (a 9%nat)) (as_Z (a 10%nat)) (as_Z (a 11%nat)) (as_Z (a 12%nat)) (as_Z (a 13%nat)) (as_Z (a 14%nat))
  (* 12: reduction_transfer (ii jj idx count x |u| |v| |c|) *)
  | 12 => kernel_pre_rt (as_Zs (a 1%nat)) (as_Zs (a 2%nat)) (as_Zs (a 3%nat)) (as_Zs (a 4%nat)) (as_Zs (a 5%nat))
            (as_Z (a 6%nat)) (as_Z (a 7%nat)) (as_Z (a 8%nat))
  (* 13: augment (n ii jj idx count x y |u| |v| |c|) *)
  | 13 => kernel_pre_augment (as_Z (a 1%nat)) (as_Zs (a 2%nat)) (as_Zs (a 3%nat)) (as_Zs (a 4%nat)) (as_Zs (a 5%nat))
            (as_Zs (a 6%nat)) (as_Zs (a 7%nat)) (as_Z (a 8%nat)) (as_Z (a 9%nat)) (as_Z (a 10%nat))
  (* 14: emd_hat_int32 (plen qlen pn pext qn qext crows ccols crowext) *)
  | 14 => PreC19.kernel_pre_emd (as_Z (a 1%nat)) (as_Z (a 2%nat)) (as_Z (a 3%nat)) (as_Z (a 4%nat)) (as_Z (a 5%nat))
            (as_Z (a 6%nat)) (as_Z (a 7%nat)) (as_Z (a 8%nat)) (as_Z (a 9%nat))
  | _ => false
  end.

(* complete arguments: 1 (H W s image) ; 2 (H W result i j order table) ;
   3 (iters H W table image i j) *)
Definition entry_run (x : sx) : sx :=
  let a := fun k => arg k x in
  of_bool
  match as_Z (a 0%nat) with
  | 1 => some_b (table_lookup_index (as_Z (a 1%nat)) (as_Z (a 2%nat)) (as_Z (a 3%nat)) (as_Zs (a 4%nat)))
  | 2 => some_b (skeletonize_loop (as_Z (a 1%nat)) (as_Z (a 2%nat)) (as_Zs (a 3%nat)) (as_Zs (a 4%nat))
                   (as_Zs (a 5%nat)) (as_Zs (a 6%nat)) (as_Zs (a 7%nat)))
  | 3 => some_b (index_lookup (as_nat (a 1%nat)) (as_Z (a 2%nat)) (as_Z (a 3%nat)) (as_Zs (a 4%nat))
                   (as_Zs (a 5%nat)) (zip_pts (as_Zs (a 6%nat)) (as_Zs (a 7%nat))))
  (* 7 (n j indexes counts fuel) *)
  | 7 => some_b (all_connected_components (as_nat (a 5%nat)) (as_Z (a 1%nat)) (as_Zs (a 2%nat)) (as_Zs (a 3%nat)) (as_Zs (a 4%nat)))
  (* 8 (labels firsts strides newdir |output| |output_count| fuel) *)
  | 8 => some_b (trace_outlines (as_nat (a 7%nat)) (as_Zs (a 1%nat)) (as_Zs (a 2%nat)) (as_Zs (a 3%nat)) (as_Zs (a 4%nat))
                   (repeat 0 (as_nat (a 5%nat))) (repeat 0 (as_nat (a 6%nat))))
  (* 9 (fuel |to_do| lcount j idx i_count is_not_hole adjacent_non_hole to_do[:to_do_count]) *)
  | 9 => some_b (FillC19.fill_labeled_holes_loop (as_nat (a 1%nat)) (as_Z (a 2%nat)) (as_Z (a 3%nat)) (as_Zs (a 4%nat))
                   (as_Zs (a 5%nat)) (as_Zs (a 6%nat)) (as_Zs (a 7%nat)) (as_Zs (a 8%nat)) (as_Zs (a 9%nat)))
  (* 12 (ii jj idx count x |u| |v| |c|) *)
  | 12 => some_b (reduction_transfer (as_Zs (a 1%nat)) (as_Zs (a 2%nat)) (as_Zs (a 3%nat)) (as_Zs (a 4%nat)) (as_Zs (a 5%nat))
                    (as_Z (a 6%nat)) (as_Z (a 7%nat)) (as_Z (a 8%nat)))
  | _ => false
  end.
