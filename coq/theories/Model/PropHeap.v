(* C03: the binary min-heap of centrosome/heap.pxd as used by _propagate.pyx.
   The C heap is an array of row pointers [ptrs] over a block of int32 rows [data]; [swap]
   exchanges pointers, so at any time the live part of the heap is the sequence of rows
   *ptrs[0] .. *ptrs[items-1].  The model keeps exactly that sequence ([rows], length = items);
   rows at positions >= items (popped ones, never read again before being overwritten) are not
   represented.  [space] mirrors the capacity: max(items,1000) at creation, doubled by heappush
   when items = space (realloc + pointer fix-up keep the contents: modelled, see TRUSTED).
   Definitions only. *)
From Coq Require Import ZArith List Bool.
Import ListNotations.
Open Scope Z_scope.

Definition row := list Z.

(* heap.pxd smaller(): column 0 first, then columns 1..width-1 up to the first difference:
   strict lexicographic order on the whole row *)
Fixpoint lexlt (a b : row) : bool :=
  match a, b with
  | x :: a', y :: b' => if x =? y then lexlt a' b' else x <? y
  | _, _ => false
  end.
Definition smaller (a b : row) : bool := lexlt a b.

Definition hget (l : list row) (i : nat) : row := nth i l [].
Fixpoint hset (l : list row) (i : nat) (v : row) : list row :=
  match l, i with
  | [], _ => []
  | _ :: t, O => v :: t
  | h :: t, S k => h :: hset t k v
  end.
Definition hswap (l : list row) (i j : nat) : list row :=
  let a := hget l i in let b := hget l j in hset (hset l i b) j a.

Record heap := mkheap { rows : list row; space : Z }.
Definition items (h : heap) : nat := length (rows h).

(* heap_from_numpy2: rows copied in order, NOT heapified *)
Definition heap_from_rows (l : list row) : heap :=
  mkheap l (Z.max (Z.of_nat (length l)) 1000).

(* heappush: "while child>0: parent=(child+1)//2-1; if smaller(child,parent): swap; child=parent else break" *)
Fixpoint sift_up (fuel : nat) (l : list row) (child : nat) : list row :=
  match fuel with
  | O => l
  | S f =>
      match child with
      | O => l
      | S _ =>
          let parent := (Nat.div (child + 1) 2 - 1)%nat in
          if smaller (hget l child) (hget l parent)
          then sift_up f (hswap l parent child) parent
          else l
      end
  end.

Definition heappush (h : heap) (e : row) : heap :=
  let sp := if Z.of_nat (items h) =? space h then 2 * space h else space h in
  let l := rows h ++ [e] in
  mkheap (sift_up (length l) l (items h)) sp.

(* heappop: the sift-down loop, "smallest" chosen among i, l, r exactly as in the code *)
Fixpoint sift_down (fuel : nat) (l : list row) (i : nat) : list row :=
  match fuel with
  | O => l
  | S f =>
      let n := length l in
      let lc := (2 * i + 1)%nat in
      let rc := (2 * i + 2)%nat in
      if (lc <? n)%nat then
        let s1 := if smaller (hget l lc) (hget l i) then lc else i in
        let s2 := if (rc <? n)%nat && smaller (hget l rc) (hget l s1) then rc else s1 in
        if (s2 =? i)%nat then l else sift_down f (hswap l i s2) s2
      else l
  end.

(* dest = row 0; items -= 1; if items = 0 return; swap(0, items); sift down from 0 *)
Definition heappop (h : heap) : row * heap :=
  match rows h with
  | [] => ([], h)
  | top :: rest =>
      match rest with
      | [] => (top, mkheap [] (space h))
      | _ :: _ =>
          let l := last rest [] :: removelast rest in
          (top, mkheap (sift_down (length l) l 0) (space h))
      end
  end.
