(* C11 — get_robust_background_threshold over exact arithmetic, up to the final square root:
   sort; low_chop = int(round(n * lower_outlier_fraction)); hi_chop = n - int(round(n * upper_outlier_fraction));
   im = data if low_chop == 0 else data[low_chop:hi_chop]   (as written: with low_chop == 0 the upper chop is
   not applied either); threshold = mean(im) + deviations * std(im).  The model returns the chops, the mean and the
   (population) variance of the trimmed data; n * fraction is the binary64 product, round is round-half-even.
   Data are integers (dyadic intensities scaled by a power of two).  Definitions only. *)
From Coq Require Import ZArith QArith List Bool.
From Centro Require Import Base.Sx Base.ThresholdNum Model.OtsuQ.
Import ListNotations.

(* Python round() of a non-negative float *)
Definition py_round (q : Q) : Z := round_half_even (Qnum q) (Zpos (Qden q)).
Definition zsum (l : list Z) : Z := fold_right Z.add 0%Z l.
Definition robust_trim (s : list Z) (lof uof : Q) : Z * Z * list Z :=
  let n := Z.of_nat (length s) in
  let low := py_round (fmul (inject_Z n) lof) in
  let hi := (n - py_round (fmul (inject_Z n) uof))%Z in
  (low, hi, if (low =? 0)%Z then s else firstn (Z.to_nat (hi - low)) (skipn (Z.to_nat low) s)).
(* mean = S/k ; variance = sum (k x - S)^2 / k^3 *)
Definition mean_var (im : list Z) : Q * Q :=
  let k := Z.of_nat (length im) in
  let S := zsum im in
  (Qmake S (Z.to_pos k),
   Qmake (zsum (map (fun x => (k * x - S) * (k * x - S))%Z im)) (Z.to_pos (k * k * k))).
(* arg: (data lof uof) -> (low hi len mean var) *)
Definition entry_robust (x : sx) : sx :=
  let s := zsort (as_Zs (arg 0 x)) in
  let '(low, hi, im) := robust_trim s (as_Q (arg 1 x)) (as_Q (arg 2 x)) in
  let '(m, v) := mean_var im in
  L [I low; I hi; I (Z.of_nat (length im)); of_Q (Qred m); of_Q (Qred v)].
