(* C07 / finding F23 — the scratch allocation of _filter.pyx allocate_histograms as written.
     cdef unsigned int adjusted_stripe_length = columns + 2*radius + 1
     cdef unsigned int memory_size
     memory_size = (adjusted_stripe_length * (sizeof(Histogram) + sizeof(PixelCount)) + sizeof(Histograms) + 32)
     ptr = malloc(memory_size)
   The product and the sums are computed in size_t (64 bit: sizeof is a size_t), the result is
   truncated to the 32-bit memory_size.  Struct sizes and the width of memory_size are regenerated
   from _filter.cpp (Gen/MedianConstC07.v).  Definitions only. *)
From Coq Require Import ZArith List Bool.
From Centro Require Import Base.Sx Gen.MedianConstC07 Model.Median.
Import ListNotations.
Open Scope Z_scope.

Definition alloc_stripe (columns radius : Z) : Z := (columns + 2 * radius + 1) mod M32.
(* the size the layout needs, as the expression computes it before the assignment *)
Definition alloc_exact (columns radius : Z) : Z :=
  alloc_stripe columns radius * (gen_sz_histogram + gen_sz_pixelcount) + gen_sz_histograms + 32.
(* what malloc is asked for *)
Definition alloc_size_asis (columns radius : Z) : Z := alloc_exact columns radius mod 2 ^ gen_memsize_bits.
Definition alloc_wraps (columns radius : Z) : bool := alloc_size_asis columns radius <? alloc_exact columns radius.

(* layout of the block: Histograms | PixelCount[stripe] | padding to a 32-byte boundary | Histogram[stripe].
   Byte offset of the end of histogram slot o (padding >= 0 left out, so this is a lower bound) ... *)
Definition slot_end (columns radius o : Z) : Z :=
  gen_sz_histograms + alloc_stripe columns radius * gen_sz_pixelcount + (o + 1) * gen_sz_histogram.
(* ... and of the end of the last slot with the largest possible padding: an upper bound on every
   byte the kernel touches, all its slot indices being < stripe_length (C07_index_in_buffer) *)
Definition alloc_need_max (columns radius : Z) : Z :=
  gen_sz_histograms + alloc_stripe columns radius * gen_sz_pixelcount + 31
  + alloc_stripe columns radius * gen_sz_histogram.

(* the environment of a rows x columns call, without the image *)
Definition env_of_shape (rows columns radius percent : Z) : env :=
  mkEnv rows columns [] [] (oct_R radius) (oct_a2 radius) radius (alloc_stripe columns radius) percent.

(* (columns radius) -> (size as written, size needed, wraps) *)
Definition entry_alloc (x : sx) : sx :=
  let c := as_Z (arg 0 x) in let r := as_Z (arg 1 x) in
  L [I (alloc_size_asis c r); I (alloc_exact c r); of_bool (alloc_wraps c r)].
