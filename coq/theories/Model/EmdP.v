(* C10 — the FastEMD pipeline as a PROGRAM over int operations.  The same computation as Model/EmdW.v
   (wrapper, metric pre-flow, graph construction of emd_hat_impl.hpp, line-level min_cost_flow.hpp,
   read-back, transform_flow_to_regular, my_dist), written in a free monad whose only effect is
   "an int operation with exact result z":  [Op z k]  continues with  k (w z).
     run w p      — execute with the number semantics w  (w = wrap32: as written for NUM_T = int,
                    w = identity: exact);
     okp p        — every operation on the EXACT path has a representable result (the ghost
                    max-magnitude check, a decidable boolean evaluated per case: no_wrap_b).
   Proofs/EmdNoWrap.v: okp p = true -> run wrap32 p = run id p.   Definitions only. *)
From Coq Require Import ZArith List Bool.
From Centro Require Import Base.Sx Base.EmdBase Model.Emd Model.EmdMcf Model.EmdAsIs.
Import ListNotations.
Open Scope Z_scope.

Inductive prog (A : Type) : Type :=
| Ret (a : A)
| Op (z : Z) (k : Z -> prog A).
Arguments Ret {A} a.
Arguments Op {A} z k.

Fixpoint bindp {A B} (p : prog A) (f : A -> prog B) : prog B :=
  match p with
  | Ret a => f a
  | Op z k => Op z (fun r => bindp (k r) f)
  end.
Definition op (z : Z) : prog Z := Op z (fun r => Ret r).
Notation "x <-- p ;;; k" := (bindp p (fun x => k)) (at level 61, p at next level, right associativity).

Fixpoint run {A} (w : Z -> Z) (p : prog A) : A :=
  match p with Ret a => a | Op z k => run w (k (w z)) end.
Definition in_range (z : Z) : bool := (-2147483648 <=? z) && (z <=? 2147483647).
Fixpoint okp {A} (p : prog A) : bool :=
  match p with Ret _ => true | Op z k => in_range z && okp (k z) end.

Fixpoint mapM {A B} (f : A -> prog B) (l : list A) : prog (list B) :=
  match l with
  | [] => Ret []
  | a :: r => b <-- f a ;;; bs <-- mapM f r ;;; Ret (b :: bs)
  end.
Fixpoint foldM {A S} (f : S -> A -> prog S) (l : list A) (s : S) : prog S :=
  match l with
  | [] => Ret s
  | a :: r => s' <-- f s a ;;; foldM f r s'
  end.
(* l[i] = g(l[i]) when i is inside the vector *)
Definition updP (l : list Z) (i : nat) (g : Z -> prog Z) : prog (list Z) :=
  if (i <? length l)%nat then v <-- g (nz l i) ;;; Ret (upd l i (fun _ => v)) else Ret l.
Definition upd2P (F : list (list Z)) (i j : nat) (g : Z -> prog Z) : prog (list (list Z)) :=
  if (i <? length F)%nat && (j <? length (nth i F []))%nat
  then v <-- g (mz F i j) ;;; Ret (upd2 F i j (fun _ => v)) else Ret F.

(* ------------------------------------------------------------------ compute_shortest_path *)
Definition relax_alt (u : nat) (alt : Z) (st : sp_state) (v : nat) : option sp_state :=
  pos <- oget (snd (sp_h st)) v ;;
  if (pos <? length (fst (sp_h st)))%nat then
    qv <- oget (fst (sp_h st)) pos ;;
    if alt <? snd qv then
      h' <- heap_decrease_key (sp_h st) v alt ;;
      Some {| sp_h := h'; sp_d := sp_d st; sp_prev := upd (sp_prev st) v (fun _ => u); sp_final := sp_final st |}
    else Some st
  else Some st.

Fixpoint relax_fwd_p (u : nat) (du : Z) (st : sp_state) (l : list (nat * Z)) : prog (option sp_state) :=
  match l with
  | [] => Ret (Some st)
  | (v, rc) :: r =>
      alt <-- op (du + rc) ;;;
      match relax_alt u alt st v with
      | Some st' => relax_fwd_p u du st' r
      | None => Ret None
      end
  end.
Fixpoint relax_bwd_p (u : nat) (du : Z) (st : sp_state) (l : list (nat * Z * Z)) : prog (option sp_state) :=
  match l with
  | [] => Ret (Some st)
  | (v, rc, cap) :: r =>
      if 0 <? cap then
        alt <-- op (du + rc) ;;;
        match relax_alt u alt st v with
        | Some st' => relax_bwd_p u du st' r
        | None => Ret None
        end
      else relax_bwd_p u du st r
  end.

Fixpoint dijkstra_p (fuel : nat) (e : list Z) (rf : list (list (nat * Z))) (rb : list (list (nat * Z * Z)))
         (st : sp_state) : prog (option (sp_state * nat)) :=
  match fuel with
  | O => Ret None
  | S f =>
      match oget (fst (sp_h st)) 0 with
      | None => Ret None
      | Some q0 =>
          let u := fst q0 in
          let st1 := {| sp_h := sp_h st; sp_d := upd (sp_d st) u (fun _ => snd q0); sp_prev := sp_prev st;
                        sp_final := upd (sp_final st) u (fun _ => true) |} in
          if nz e u <? 0 then Ret (Some (st1, u)) else
          match heap_remove_first (sp_h st1) with
          | None => Ret None
          | Some h' =>
              let st2 := {| sp_h := h'; sp_d := sp_d st1; sp_prev := sp_prev st1; sp_final := sp_final st1 |} in
              o3 <-- relax_fwd_p u (snd q0) st2 (nth u rf []) ;;;
              match o3 with
              | None => Ret None
              | Some st3 =>
                  o4 <-- relax_bwd_p u (snd q0) st3 (nth u rb []) ;;;
                  match o4 with
                  | None => Ret None
                  | Some st4 => match fst (sp_h st4) with [] => Ret None | _ => dijkstra_p f e rf rb st4 end
                  end
              end
          end
      end
  end.

Definition rc_update_p (fl : list bool) (dd : list Z) (dl : Z) (fr to : nat) (rc : Z) : prog Z :=
  rc1 <-- (if fin fl fr then (t <-- op (nz dd fr - dl) ;;; op (rc + t)) else Ret rc) ;;;
  (if fin fl to then (t <-- op (nz dd to - dl) ;;; op (rc1 - t)) else Ret rc1).

Definition compute_shortest_path_p (nv : nat) (d : list Z) (prev : list nat) (from : nat)
           (rf : list (list (nat * Z))) (rb : list (list (nat * Z * Z))) (e : list Z)
  : prog (option (list Z * list nat * list (list (nat * Z)) * list (list (nat * Z * Z)) * nat)) :=
  let st0 := {| sp_h := heap_init nv from; sp_d := d; sp_prev := prev; sp_final := repeat false nv |} in
  r <-- dijkstra_p (S nv) e rf rb st0 ;;;
  match r with
  | None => Ret None
  | Some (st, l) =>
      let dd := sp_d st in
      let fl := sp_final st in
      let dl := nz dd l in
      rf' <-- mapM (fun fx => mapM (fun en => rc' <-- rc_update_p fl dd dl (fst fx) (fst en) (snd en) ;;; Ret (fst en, rc'))
                                   (snd fx)) (combine (seq 0 nv) rf) ;;;
      rb' <-- mapM (fun fx => mapM (fun en => rc' <-- rc_update_p fl dd dl (fst fx) (fst (fst en)) (snd (fst en)) ;;;
                                              Ret (fst (fst en), rc', snd en))
                                   (snd fx)) (combine (seq 0 nv) rb) ;;;
      Ret (Some (dd, sp_prev st, rf', rb', l))
  end.

(* ------------------------------------------------------------------ the main loop *)
Fixpoint find_x (l : list (nat * Z * Z)) (to : nat) : option Z :=
  match l with [] => None | en :: r => if (fst (fst en) =? to)%nat then Some (snd en) else find_x r to end.

Fixpoint augment_p (fuel : nat) (prev : list nat) (k to : nat) (delta : Z)
         (e : list Z) (x : list (list (nat * Z * Z))) (rb : list (list (nat * Z * Z)))
  : prog (option (list Z * list (list (nat * Z * Z)) * list (list (nat * Z * Z)))) :=
  match fuel with
  | O => Ret None
  | S f =>
      let from := nth to prev O in
      match find_x (nth from x []) to with
      | None => Ret None
      | Some fl0 =>
          nfl <-- op (fl0 + delta) ;;;
          let x' := upd x from (fun l => match upd_first_x l to (fun _ => nfl) with Some l' => l' | None => l end) in
          rb1 <-- (match find_bwd (nth to rb []) from with
                   | Some en => nc <-- op (snd en + delta) ;;; Ret (upd rb to (fun l => upd_first_bwd l from (fun _ => nc)))
                   | None => Ret rb
                   end) ;;;
          rb2 <-- (match find_bwd (nth from rb1 []) to with
                   | Some en => nc <-- op (snd en - delta) ;;; Ret (upd rb1 from (fun l => upd_first_bwd l to (fun _ => nc)))
                   | None => Ret rb1
                   end) ;;;
          e1 <-- updP e to (fun v => op (v + delta)) ;;;
          e' <-- updP e1 from (fun v => op (v - delta)) ;;;
          if (from =? k)%nat then Ret (Some (e', x', rb2)) else augment_p f prev k from delta e' x' rb2
      end
  end.

Definition mcf_step_p (st : mcf_state) : prog mstep :=
  let e := m_e st in
  let nv := length e in
  let '(maxSupply, k) := pick_supply e O 0 O in
  if maxSupply =? 0 then Ret (MDone st) else
  r <-- compute_shortest_path_p nv (m_d st) (m_prev st) k (m_rf st) (m_rb st) e ;;;
  match r with
  | None => Ret MFail
  | Some (d, prev, rf, rb, l) =>
      if (l =? k)%nat then Ret MFail else
      match scan_delta nv prev rb k l maxSupply with
      | None => Ret MFail
      | Some delta =>
          a <-- augment_p nv prev k l delta e (m_x st) rb ;;;
          match a with
          | None => Ret MFail
          | Some (e', x', rb') =>
              Ret (MMore {| m_e := e'; m_x := x'; m_rf := rf; m_rb := rb'; m_d := d; m_prev := prev |})
          end
      end
  end.

Fixpoint mcf_iter_p (k : nat) (st : mcf_state) : prog mstep :=
  match k with
  | O => mcf_step_p st
  | S k' => r <-- mcf_iter_p k' st ;;; match r with MMore st' => mcf_iter_p k' st' | _ => Ret r end
  end.

Definition mcf_init_p (e : list Z) (c : list (list (nat * Z))) : prog mcf_state :=
  let nv := length e in
  let arcs := mk_arcs c in
  rb <-- mapM (fun v => mapM (fun a => nc <-- op (- a_cost a) ;;; Ret (a_from a, nc, 0))
                             (filter (fun a => (a_to a =? v)%nat) arcs)) (seq 0 nv) ;;;
  Ret {| m_e := e; m_x := x_of nv arcs;
         m_rf := map (fun l => map (fun tc => (fst tc, snd tc)) l) c;
         m_rb := rb; m_d := repeat 0 nv; m_prev := repeat O nv |}.

Definition p_levels : nat := 10.

(* status: 0 = Done, 1 = not finished within 2^p_levels augmentations, 2 = Fail *)
Definition min_cost_flow_p (e : list Z) (c : list (list (nat * Z))) : prog (Z * Z * list (list (nat * Z * Z))) :=
  st0 <-- mcf_init_p e c ;;;
  r <-- mcf_iter_p p_levels st0 ;;;
  match r with
  | MDone st =>
      d <-- foldM (fun s l => foldM (fun s en => t <-- op (snd (fst en) * snd en) ;;; op (s + t)) l s) (m_x st) 0 ;;;
      Ret (0, d, m_x st)
  | MMore st => Ret (1, 0, m_x st)
  | MFail => Ret (2, 0, [])
  end.

(* ------------------------------------------------------------------ emd_hat_impl.hpp *)
Definition reduce_p (Pc Qc : list Z) (Cc : list (list Z)) (emp : Z) : prog reduced :=
  let N := length Pc in
  sumP <-- foldM (fun s x => op (s + x)) Pc 0 ;;;
  sumQ <-- foldM (fun s x => op (s + x)) Qc 0 ;;;
  let swap := sumP <? sumQ in
  let P := if swap then Qc else Pc in
  let Q := if swap then Pc else Qc in
  let C := fun i j => if swap then mz Cc j i else mz Cc i j in
  diff <-- (if swap then op (sumQ - sumP) else op (sumP - sumQ)) ;;;
  let idx := seq 0 N in
  let TH := (2 * N)%nat in
  let AR := (2 * N + 1)%nat in
  let maxC := fold_left (fun a i => fold_left (fun a j => if a <? C i j then C i j else a) idx a) idx 0 in
  let pen := if emp =? -1 then maxC else emp in
  let regular := fun i j => negb (nz P i =? 0) && negb (nz Q j =? 0) && negb (C i j =? maxC) in
  ac <-- op (maxC + 1) ;;;
  let c_src := fun i => map (fun j => ((j + N)%nat, C i j)) (filter (regular i) idx) ++ [(TH, 0); (AR, ac)] in
  let c := map c_src idx ++ map (fun _ => [(AR, ac)]) idx
           ++ [map (fun j => ((j + N)%nat, maxC)) idx ++ [(AR, ac)]]
           ++ [map (fun i => (i, ac)) (seq 0 AR)] in
  negQ <-- mapM (fun x => op (- x)) Q ;;;
  nd <-- op (- diff) ;;;
  let b := P ++ negQ ++ [nd; 0] in
  let in_set := fun v => if (v <? N)%nat then existsb (regular v) idx
                         else existsb (fun i => regular i (v - N)%nat) idx in
  let keep := fun v => negb (nz b v =? 0) && in_set v in
  let gone := filter (fun v => negb (nz b v =? 0) && negb (in_set v)) (seq 0 (2 * N)) in
  pre <-- foldM (fun s v => if (N <=? v)%nat then (t <-- op (nz b v * maxC) ;;; op (s - t)) else Ret s) gone 0 ;;;
  bT <-- foldM (fun s v => op (s + nz b v)) gone (nz b TH) ;;;
  let kept := filter keep (seq 0 (2 * N)) in
  let old := kept ++ [TH; AR] in
  let bb := map (nz b) kept ++ [bT; 0] in
  Ret {| r_N := N; r_swap := swap; r_diff := diff; r_maxC := maxC; r_pen := pen; r_pre := pre;
         r_old := old; r_bb := bb; r_cc := rename_cc old c |}.

Definition read_back_p (r : reduced) (x : list (list (nat * Z * Z))) (F0 : list (list Z)) : prog (list (list Z)) :=
  let N := r_N r in
  let newT := (length (r_old r) - 2)%nat in
  foldM (fun F fx =>
    let nf := fst fx in
    foldM (fun F en =>
      let to := fst (fst en) in
      let flow := snd en in
      if (nf =? newT)%nat || (to =? newT)%nat then Ret F else
      let rev := (to <? nf)%nat in
      let i := if rev then nn (r_old r) to else nn (r_old r) nf in
      let jn := if rev then nn (r_old r) nf else nn (r_old r) to in
      if flow =? 0 then Ret F else
      if (jn <? N)%nat then Ret F else
      let j := (jn - N)%nat in
      let '(i, j) := if r_swap r then (j, i) else (i, j) in
      if rev then upd2P F i j (fun y => op (y - flow)) else upd2P F i j (fun y => op (y + flow)))
      (snd fx) F)
    (combine (seq 0 (length x)) x) F0.

Fixpoint tf_loop_p (fuel : nat) (N : nat) (i j : nat) (fP fQ : list Z) (F : list (list Z)) : prog (option (list (list Z))) :=
  let i' := skipz N N fP i in
  let j' := skipz N N fQ j in
  if (i' =? N)%nat || (j' =? N)%nat then Ret (Some F) else
  match fuel with
  | O => Ret None
  | S f =>
      let a := nz fP i' in let b := nz fQ j' in
      if a <? b
      then fQ' <-- updP fQ j' (fun y => op (y - a)) ;;; F' <-- upd2P F i' j' (fun y => op (y + a)) ;;;
           tf_loop_p f N i' j' (upd fP i' (fun _ => 0)) fQ' F'
      else fP' <-- updP fP i' (fun y => op (y - b)) ;;; F' <-- upd2P F i' j' (fun y => op (y + b)) ;;;
           tf_loop_p f N i' j' fP' (upd fQ j' (fun _ => 0)) F'
  end.

Definition transform_p (F : list (list Z)) (P Q : list Z) : prog (option (list (list Z))) :=
  let N := length P in
  let idx := seq 0 N in
  fP <-- mapM (fun i => foldM (fun s j => op (s - mz F i j)) idx (nz P i)) idx ;;;
  fQ <-- mapM (fun j => foldM (fun s i => op (s - mz F i j)) idx (nz Q j)) idx ;;;
  tf_loop_p (S (2 * N)) N O O fP fQ F.

Definition emd_impl_p (ft : Z) (POrig QOrig Pc Qc : list Z) (Cc : list (list Z)) (emp : Z)
           (F0 : list (list Z)) : prog (Z * Z * list (list Z)) :=
  r <-- reduce_p Pc Qc Cc emp ;;;
  m <-- min_cost_flow_p (r_bb r) (r_cc r) ;;;
  let '(status, mcf_dist, x) := m in
  if negb (status =? 0) then Ret (status, 0, []) else
  F1 <-- (if ft =? 0 then Ret F0 else read_back_p r x F0) ;;;
  t1 <-- op (r_pre r + mcf_dist) ;;;
  t2 <-- op (r_diff r * r_pen r) ;;;
  my_dist <-- op (t1 + t2) ;;;
  if ft =? 2 then
    o <-- transform_p F1 POrig QOrig ;;;
    match o with
    | None => Ret (3, my_dist, F1)
    | Some F2 => Ret (0, my_dist, F2)
    end
  else Ret (0, my_dist, F1).

Definition preflow_p (P Q : list Z) : prog (list (Z * Z * Z)) :=
  mapM (fun pq => let p := fst pq in let q := snd pq in
                  if p <? q then (t <-- op (q - p) ;;; Ret (0, t, p)) else (t <-- op (p - q) ;;; Ret (t, 0, q)))
       (combine P Q).

Definition emd_hat_p (ft : Z) (gd : bool) (P Q : list Z) (C : list (list Z)) (emp : Z) : prog (Z * Z * list (list Z)) :=
  let N := length P in
  if gd then
    pf <-- preflow_p P Q ;;;
    emd_impl_p ft P Q (map (fun t => fst (fst t)) pf) (map (fun t => snd (fst t)) pf) C emp (diag_mat (map snd pf))
  else emd_impl_p ft P Q P Q C emp (zmat N).

Definition emd_hat_int32_p (p q : list Z) (c : list (list Z)) (pen : option Z) (ft : Z) (gd : bool)
  : prog (Z * Z * list (list Z)) :=
  let plen := length p in
  let qlen := length q in
  let '(vp, vq, vc) :=
    if (qlen <? plen)%nat then (p, resize plen q, map (resize plen) c)
    else if (plen <? qlen)%nat then (resize qlen p, q, c ++ repeat (zeros qlen) (qlen - plen))
    else (p, q, c) in
  let emp := match pen with Some v => v | None => -1 end in
  r <-- emd_hat_p ft gd vp vq vc emp ;;;
  let '(status, d, F) := r in
  if ft =? 0 then Ret (status, d, []) else Ret (status, d, map (firstn qlen) (firstn plen F)).

(* the decidable hypothesis: every int operation of the EXACT run has a representable result *)
Definition no_wrap_b (p q : list Z) (c : list (list Z)) (pen : option Z) (ft : Z) (gd : bool) : bool :=
  okp (emd_hat_int32_p p q c pen ft gd).
Definition idz (z : Z) : Z := z.
Definition emd_int32_as_written p q c pen ft gd := run wrap32 (emd_hat_int32_p p q c pen ft gd).
Definition emd_int32_exact p q c pen ft gd := run idz (emd_hat_int32_p p q c pen ft gd).

(* wire: (p q c pen? flow_type gd_metric) -> (no_wrap  status dist F) with the as-written semantics *)
Definition entry_p32 (x : sx) : sx :=
  let pen := match as_list (arg 3 x) with [] => None | v :: _ => Some (as_Z v) end in
  let pr := emd_hat_int32_p (as_Zs (arg 0 x)) (as_Zs (arg 1 x)) (as_Zss (arg 2 x)) pen (as_Z (arg 4 x)) (as_bool (arg 5 x)) in
  let '(s, d, F) := run wrap32 pr in
  L [of_bool (okp pr); I s; I d; of_Zss F].
