(* C13 — minimum_enclosing_circle and feret_diameter as batch models on the hull rows of one call:
   C14's models (Model/Circle.v per object, Model/CircleVec.v vectorised bookkeeping,
   Model/Feret.v antipodal sweep) composed with the row format of C02's convex_hull_ijv
   (one (label, vertex list) row per requested label, in request order).  Definitions only. *)
From Coq Require Import ZArith List Bool.
From Centro Require Import Base.Sx Model.Hull Model.Circle Model.CircleVec Model.Feret.
Import ListNotations.
Open Scope Z_scope.

(* the vectorised model on the rows of a call *)
Definition mec_rows_vec (rows : list (Z * list pt)) : list cres :=
  chrystal_vec (map fst rows) (map snd rows).
(* the per-object models *)
Definition mec_rows (rows : list (Z * list pt)) : list cres := map (fun r => chrystal (snd r)) rows.
Definition feret_rows (rows : list (Z * list pt)) : list (option (Z * (Z * Z))) :=
  map (fun r => sweep (snd r)) rows.

(* m passes of the vectorised loop *)
Fixpoint vsteps (rows : list (Z * cpt)) (app : list Z) (n m : nat) (st : vstate) : vstate :=
  match m with O => st | S m' => vsteps rows app n m' (vstep rows app n st) end.
