(* C10 — the AS-WRITTEN int32 variant of the graph construction of emd_hat_impl.hpp: identical to
   Model.Emd.reduce except that the cost of the artificial arcs is wrap32(maxC + 1), the value the
   C++ expression `maxC + 1` has for NUM_T = int (two's complement, -fwrapv).  For max(C) <= 2^31-2
   both constructions coincide; for max(C) = 2^31-1 the artificial arcs get cost -2^31 (finding F21).
   [asis_probe] runs the line-level solver with its companion flag for a BOUNDED number of
   augmentations (2^asis_levels) on that graph and reports whether it finished, whether the flag was
   raised, and whether any supply was moved.  Definitions only. *)
From Coq Require Import ZArith List Bool.
From Centro Require Import Base.Sx Base.EmdBase Model.Emd Model.EmdMcf.
Import ListNotations.
Open Scope Z_scope.

Definition wrap32 (z : Z) : Z := (z + 2147483648) mod 4294967296 - 2147483648.

Definition red_c_asis (N : nat) (maxC : Z) (regular : nat -> nat -> bool) (C : nat -> nat -> Z) : list (list (nat * Z)) :=
  let idx := seq 0 N in
  let TH := (2 * N)%nat in
  let AR := (2 * N + 1)%nat in
  let ac := wrap32 (maxC + 1) in
  let c_src := fun i => map (fun j => ((j + N)%nat, C i j)) (filter (regular i) idx)
                        ++ [(TH, 0); (AR, ac)] in
  map c_src idx ++ map (fun _ => [(AR, ac)]) idx
  ++ [map (fun j => ((j + N)%nat, maxC)) idx ++ [(AR, ac)]]
  ++ [map (fun i => (i, ac)) (seq 0 AR)].

Definition reduce_asis (Pc Qc : list Z) (Cc : list (list Z)) (emp : Z) : list Z * list (list (nat * Z)) :=
  let N := length Pc in
  let sumP := zsum Pc in
  let sumQ := zsum Qc in
  let swap := sumP <? sumQ in
  let P := if swap then Qc else Pc in
  let Q := if swap then Pc else Qc in
  let C := fun i j => if swap then mz Cc j i else mz Cc i j in
  let diff := if swap then sumQ - sumP else sumP - sumQ in
  let idx := seq 0 N in
  let TH := (2 * N)%nat in
  let AR := (2 * N + 1)%nat in
  let maxC := fold_left (fun a i => fold_left (fun a j => if a <? C i j then C i j else a) idx a) idx 0 in
  let regular := fun i j => negb (nz P i =? 0) && negb (nz Q j =? 0) && negb (C i j =? maxC) in
  let c := red_c_asis N maxC regular C in
  let b := P ++ map Z.opp Q ++ [- diff; 0] in
  let in_set := fun v => if (v <? N)%nat then existsb (regular v) idx
                         else existsb (fun i => regular i (v - N)%nat) idx in
  let keep := fun v => negb (nz b v =? 0) && in_set v in
  let gone := filter (fun v => negb (nz b v =? 0) && negb (in_set v)) (seq 0 (2 * N)) in
  let bT := nz b TH + zsum (map (nz b) gone) in
  let kept := filter keep (seq 0 (2 * N)) in
  let old := kept ++ [TH; AR] in
  (map (nz b) kept ++ [bT; 0], rename_cc old c).

Definition asis_levels : nat := 6.

(* (finished?, flag, supplies unchanged?) of the bounded flagged run on the as-written graph *)
Definition asis_probe (p q : list Z) (c : list (list Z)) (pen : option Z) : bool * bool * bool :=
  let plen := length p in
  let qlen := length q in
  let '(vp, vq, vc) :=
    if (qlen <? plen)%nat then (p, resize plen q, map (resize plen) c)
    else if (plen <? qlen)%nat then (resize qlen p, q, c ++ repeat (zeros qlen) (qlen - plen))
    else (p, q, c) in
  let emp := match pen with Some v => v | None => -1 end in
  let '(bb, cc) := reduce_asis vp vq vc emp in
  match mcf_iter_f asis_levels (mcf_init bb cc) false with
  | (MDone st, fl) => (true, fl, false)
  | (MMore st, fl) => (false, fl, forallb (fun xy => fst xy =? snd xy) (combine (m_e st) bb))
  | (MFail, fl) => (false, fl, false)
  end.

(* wire: (p q c pen?) -> (finished flag stuck) *)
Definition entry_asis (x : sx) : sx :=
  let pen := match as_list (arg 3 x) with [] => None | v :: _ => Some (as_Z v) end in
  let '(d, fl, stuck) := asis_probe (as_Zs (arg 0 x)) (as_Zs (arg 1 x)) (as_Zss (arg 2 x)) pen in
  L [of_bool d; of_bool fl; of_bool stuck].
